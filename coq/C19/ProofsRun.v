(* C19 -- every operation preserves the invariant and has the effect of the simple spec
   (finite map entry -> due time, here the relation [due]); perform refines [Dispatch]:
   each firing is a minimum of the pending due times, is not early, and the dispatch only
   stops when nothing is due; handlers are re-entrant scripts. *)
From Coq Require Import ZArith List Bool Arith Lia Permutation Sorted.
From Coq Require Import ZifyBool ZifyNat.
From LTV.C19 Require Import Model ProofsHeap ProofsSched.
Import ListNotations.
Open Scope Z_scope.
Arguments Nat.div : simpl never.
Arguments Nat.sub : simpl never.

(* abstract effects on the pending map *)
Definition same_due (s s' : state) : Prop := forall e d, due s' e d <-> due s e d.
Definition set_due (s s' : state) (e : nat) (t : Z) : Prop :=
  forall e' d, due s' e' d <-> (e' = e /\ d = t) \/ (e' <> e /\ due s e' d).
Definition unset_due (s s' : state) (e : nat) : Prop :=
  forall e' d, due s' e' d <-> e' <> e /\ due s e' d.

(* next_timeout(m) = r never lets the loop sleep past a pending timer *)
Definition next_sound (s : state) (m r : Z) : Prop :=
  (forall e d, due s e d -> r <= Z.max 0 (d - now s)) /\
  (0 <= m -> 0 <= r <= m) /\
  ((forall e d, ~ due s e d) -> r = m).

(* ------------------------------------------------------------------ shrinking the heap by tombstones *)

Lemma inv_shrink : forall E s hp, Inv E s -> heap_ok hp ->
  (forall h, In h hp -> In h (heap s)) ->
  (forall h, In h (heap s) -> is_tomb h = false -> In h hp) ->
  NoDup (map h_id hp) ->
  let s' := mkS hp (ents s) (now s) (next_hid s) in
  Inv E s' /\ same_due s s'.
Proof.
  intros E s hp I Hok Sub Live ND s'.
  assert (L : forall h e, h_entry h = Some e -> is_tomb h = false).
  { intros. unfold is_tomb. rewrite H. auto. }
  split.
  - constructor; simpl; auto.
    + intros. apply (inv_fresh E s I). auto.
    + intros e hid H. destruct (inv_fwd E s I e hid H) as (h & A & B & C).
      exists h. split; auto. apply Live; eauto.
    + intros h e A B. apply (inv_bwd E s I); auto.
    + apply (inv_len E s I).
  - intros e d. split.
    + intros (h & A & B & C). exists h. simpl in A. auto.
    + intros (h & A & B & C). exists h. simpl. split; auto. apply Live; eauto.
Qed.

Lemma in_hnth : forall a h, In h a -> exists i, (i < length a)%nat /\ hnth a i = h.
Proof. intros. unfold hnth. apply In_nth. auto. Qed.

Lemma heap_front_min : forall h0 r h, heap_ok (h0 :: r) -> In h (h0 :: r) -> h_time h0 <= h_time h.
Proof.
  intros. apply in_hnth in H0. destruct H0 as (i & Hi & <-).
  apply (heap_top_min (h0 :: r) H i Hi).
Qed.

(* ------------------------------------------------------------------ basic operations *)

Lemma wait_until_spec : forall E s e t s' o, Inv E s -> wait_until E s e t = (s', o) ->
  Inv E s' /\ now s' = now s /\
  ((o = OErr /\ s' = s) \/
   (o = OOk /\ min_time_wait <= t /\ valid E e = true /\ (forall d, ~ due s e d) /\ set_due s s' e t)).
Proof.
  intros E s e t s' o I H. unfold wait_until in H.
  destruct (t =? 0); [inversion H; subst; auto|].
  destruct (Z.ltb_spec t min_time_wait); [inversion H; subst; auto|].
  destruct (valid E e) eqn:V; simpl in H; [|inversion H; subst; auto].
  destruct (handle_of s e) eqn:Ho; [inversion H; subst; auto|].
  destruct (foreign E e); inversion H; subst; clear H; [auto|].
  pose proof (inv_len E s I e V).
  destruct (push_entry_spec E s e t I Ho H) as (I' & D).
  assert (Hno : forall d, ~ due s e d).
  { intros d Hd. apply (due_scheduled E s e d I Hd). auto. }
  split; auto. split; auto. right.
  split; auto. split; auto. split; auto. split; auto.
  intros e' d. split.
  - intros Hd. apply D in Hd. destruct Hd as [[-> ->]|Hd]; auto.
    destruct (Nat.eq_dec e' e); auto. subst. exfalso. apply (Hno _ Hd).
  - intros [[-> ->]|[_ Hd]]; apply D; auto.
Qed.

Lemma update_wait_until_spec : forall E s e t s' o, Inv E s -> update_wait_until E s e t = (s', o) ->
  Inv E s' /\ now s' = now s /\
  ((o = OErr /\ s' = s) \/ (o = OOk /\ min_time_update <= t /\ valid E e = true /\ set_due s s' e t)).
Proof.
  intros E s e t s' o I H. unfold update_wait_until in H.
  destruct (t =? 0); [inversion H; subst; auto|].
  destruct (Z.ltb_spec t min_time_update); [inversion H; subst; auto|].
  destruct (valid E e) eqn:V; simpl in H; [|inversion H; subst; auto].
  pose proof (inv_len E s I e V) as Hl.
  destruct (handle_of s e) as [hid|] eqn:Ho; [inversion H; subst; clear H|rename H into H1].
  - destruct (detach_spec E s e hid I Ho) as (I1 & N1 & D1).
    assert (Heq : push_entry (mkS (tombstone (heap s) hid) (ents s) (now s) (next_hid s)) e t =
                  push_entry (detach s e hid) e t).
    { unfold push_entry, detach. simpl. rewrite upd_upd. reflexivity. }
    rewrite Heq.
    destruct (push_entry_spec E (detach s e hid) e t I1 N1) as (I' & D).
    { unfold detach. simpl. rewrite upd_length. auto. }
    split; auto. split; auto. right.
    split; auto. split; auto. split; auto.
    intros e' d. split.
    + intros Hd. apply D in Hd. destruct Hd as [[-> ->]|Hd]; auto.
      apply D1 in Hd. auto.
    + intros [[-> ->]|[Hne Hd]]; apply D; auto. right. apply D1. auto.
  - destruct (foreign E e); inversion H1; subst; [auto|].
    destruct (push_entry_spec E s e t I Ho Hl) as (I' & D).
    split; auto. split; auto. right.
    split; auto. split; auto. split; auto.
    intros e' d. split.
    + intros Hd. apply D in Hd. destruct Hd as [[-> ->]|Hd]; auto.
      destruct (Nat.eq_dec e' e); auto. subst.
      exfalso. apply (due_scheduled E s e d I Hd). auto.
    + intros [[-> ->]|[_ Hd]]; apply D; auto.
Qed.

Lemma erase_spec : forall E s e s' o, Inv E s -> erase E s e = (s', o) ->
  Inv E s' /\ now s' = now s /\
  ((o = OErr /\ s' = s) \/ (o = OOk /\ unset_due s s' e)).
Proof.
  intros E s e s' o I H. unfold erase in H.
  destruct (handle_of s e) as [hid|] eqn:Ho.
  - destruct (valid E e); simpl in H; inversion H; subst; clear H; auto.
    destruct (detach_spec E s e hid I Ho) as (I1 & N1 & D1).
    split; auto.
  - destruct (foreign E e); inversion H; subst; [auto|]. split; auto. split; auto. right. split; auto.
    intros e' d. split.
    + intros Hd. split; auto. intro. subst. apply (due_scheduled E s' e d I Hd). auto.
    + tauto.
Qed.

Lemma next_timeout_spec : forall E s m s' o, Inv E s -> next_timeout s m = (s', o) ->
  Inv E s' /\ now s' = now s /\ same_due s s' /\ exists r, o = ONext r /\ next_sound s m r.
Proof.
  intros E s m s' o I H. unfold next_timeout in H.
  pose proof (pop_while_spec is_tomb (length (heap s)) (heap s) (inv_heap E s I) (le_n _)) as P.
  cbv zeta in P. destruct P as (Ok & Sub & Live & ND & Hd).
  specialize (ND (inv_nodup E s I)).
  destruct (inv_shrink E s _ I Ok Sub Live ND) as (I' & SD).
  set (hp := pop_while is_tomb (length (heap s)) (heap s)) in *.
  assert (Hdue : forall e d, due s e d -> exists h, In h hp /\ h_time h = d).
  { intros e d (h & A & B & C). exists h. split; auto. apply Live; auto. unfold is_tomb. rewrite B. auto. }
  destruct hp as [|h0 r] eqn:Ehp.
  - inversion H; subst. split; auto. split; auto. split; auto.
    exists m. split; auto. split; [|split]; auto.
    + intros e d Hd'. apply Hdue in Hd'. destruct Hd' as (h & [] & _).
    + lia.
  - assert (Hmin : forall e d, due s e d -> h_time h0 <= d).
    { intros e d Hd'. apply Hdue in Hd'. destruct Hd' as (h & A & <-).
      apply (heap_front_min h0 r h Ok A). }
    assert (Hlive : exists e0, due s e0 (h_time h0)).
    { unfold is_tomb in Hd. destruct (h_entry h0) as [e0|] eqn:En; [|discriminate].
      exists e0. exists h0. split; auto. apply Sub. left. auto. }
    destruct (Z.geb_spec (h_time h0 - now s) m) as [G|G]; inversion H; subst; clear H.
    + split; auto. split; auto. split; auto. exists m. split; auto. split; [|split].
      * intros e d Hd'. apply Hmin in Hd'. lia.
      * lia.
      * auto.
    + split; auto. split; auto. split; auto. eexists. split; eauto. split; [|split].
      * intros e d Hd'. apply Hmin in Hd'. lia.
      * lia.
      * intros Hno. destruct Hlive as (e0 & Hl). exfalso. apply (Hno _ _ Hl).
Qed.

(* the spec-level effect of one basic op *)
Definition bop_effect (E : env) (s : state) (b : bop) (s' : state) (o : out) : Prop :=
  (o = OErr /\ s' = s) \/
  match b with
  | WaitUntil e t => o = OOk /\ (forall d, ~ due s e d) /\ set_due s s' e t /\ now s' = now s
  | WaitFor e dt => o = OOk /\ (forall d, ~ due s e d) /\ set_due s s' e (now s + dt) /\ now s' = now s
  | WaitForCeil e dt => o = OOk /\ (forall d, ~ due s e d) /\ set_due s s' e (ceil_seconds (now s + dt)) /\ now s' = now s
  | UpdUntil e t => o = OOk /\ set_due s s' e t /\ now s' = now s
  | UpdFor e dt => o = OOk /\ set_due s s' e (now s + dt) /\ now s' = now s
  | UpdForCeil e dt => o = OOk /\ set_due s s' e (ceil_seconds (now s + dt)) /\ now s' = now s
  | Erase e => o = OOk /\ unset_due s s' e /\ now s' = now s
  | NextTimeout m => same_due s s' /\ now s' = now s /\ exists r, o = ONext r /\ next_sound s m r
  | SetNow t => o = OOk /\ same_due s s' /\ now s' = t
  end.

Lemma exec_basic_spec : forall E s b s' o, Inv E s -> exec_basic E s b = (s', o) ->
  Inv E s' /\ bop_effect E s b s' o.
Proof.
  intros E s b s' o I H. unfold bop_effect. destruct b; simpl in H.
  - apply wait_until_spec in H; auto. destruct H as (I' & N & [H|H]); split; auto. right. tauto.
  - destruct (dt >? _); [inversion H; subst; auto|].
    apply wait_until_spec in H; auto. destruct H as (I' & N & [H|H]); split; auto. right. tauto.
  - destruct (dt >? _); [inversion H; subst; auto|].
    apply wait_until_spec in H; auto. destruct H as (I' & N & [H|H]); split; auto. right. tauto.
  - apply update_wait_until_spec in H; auto. destruct H as (I' & N & [H|H]); split; auto. right. tauto.
  - destruct (dt >? _); [inversion H; subst; auto|].
    apply update_wait_until_spec in H; auto. destruct H as (I' & N & [H|H]); split; auto. right. tauto.
  - destruct (dt >? _); [inversion H; subst; auto|].
    apply update_wait_until_spec in H; auto. destruct H as (I' & N & [H|H]); split; auto. right. tauto.
  - apply erase_spec in H; auto. destruct H as (I' & N & [H|H]); split; auto. right. tauto.
  - apply next_timeout_spec with (E := E) in H; auto. destruct H as (I' & N & SD & r & -> & NS).
    split; auto. right. split; auto. split; auto. eauto.
  - inversion H; subst; clear H. split.
    + destruct I. constructor; auto.
    + right. split; auto. split; auto. intros e d. unfold due. simpl. tauto.
Qed.

Lemma run_script_inv : forall E bs s s' os err, Inv E s -> run_script E s bs = (s', os, err) -> Inv E s'.
Proof.
  induction bs; simpl; intros s s' os err I H.
  - inversion H; subst; auto.
  - destruct (exec_basic E s a) as [s1 o] eqn:X.
    apply exec_basic_spec in X; auto. destruct X as (I1 & _).
    destruct o.
    + destruct (run_script E s1 bs) as [[s2 os2] err2] eqn:R. inversion H; subst. eauto.
    + inversion H; subst; auto.
    + destruct (run_script E s1 bs) as [[s2 os2] err2] eqn:R. inversion H; subst. eauto.
Qed.

(* ------------------------------------------------------------------ perform *)

Definition script (E : env) (e : nat) : list bop := nth e (e_scr E) [].

(* entry e (due d) is detached and about to have its slot invoked; s1 is the state the slot sees *)
Definition fires (E : env) (t : Z) (s : state) (e : nat) (d : Z) (s1 : state) : Prop :=
  due s e d /\ d <= t /\ (forall e' d', due s e' d' -> d <= d') /\
  Inv E s1 /\ handle_of s1 e = None /\ unset_due s s1 e /\ now s1 = now s.

Inductive Dispatch (E : env) (t : Z) : nat -> state -> list ev -> outcome -> state -> Prop :=
| D_done : forall k s s', Inv E s' -> same_due s s' -> now s' = now s ->
    (forall e d, due s e d -> t < d) -> Dispatch E t k s [] Done s'
| D_fuel : forall s e d s1, fires E t s e d s1 -> Dispatch E t 0 s [EFuel] OutOfFuel s1
| D_abort : forall k s e d s1 s2 os, fires E t s e d s1 ->
    run_script E s1 (script E e) = (s2, os, true) ->
    Dispatch E t (S k) s (EFire e d :: map EOut os) Aborted s2
| D_fire : forall k s e d s1 s2 os evs oc s', fires E t s e d s1 ->
    run_script E s1 (script E e) = (s2, os, false) ->
    Dispatch E t k s2 evs oc s' ->
    Dispatch E t (S k) s (EFire e d :: map EOut os ++ evs) oc s'.

Lemma pop_live_spec : forall E s h0 r e, Inv E s -> heap s = h0 :: r -> h_entry h0 = Some e ->
  let s1 := mkS (heap_pop (heap s)) (upd (ents s) e None) (now s) (next_hid s) in
  Inv E s1 /\ handle_of s1 e = None /\ unset_due s s1 e.
Proof.
  intros E s h0 r e I Hh En s1.
  pose proof (inv_heap E s I) as Ok. rewrite Hh in Ok.
  destruct (heap_pop_spec (h0 :: r) ltac:(discriminate) Ok) as (_ & Ok1 & _).
  pose proof (heap_pop_perm h0 r Ok) as P.
  pose proof (inv_nodup E s I) as ND. rewrite Hh in ND.
  assert (ND' : NoDup (map h_id (h0 :: heap_pop (h0 :: r)))).
  { eapply Permutation_NoDup; [|exact ND]. apply Permutation_map. apply Permutation_sym. auto. }
  simpl in ND'. inversion ND' as [|? ? Hnot ND1]; subst.
  assert (Hin : forall x, In x (h0 :: r) <-> x = h0 \/ In x (heap_pop (h0 :: r))).
  { intros. split; intros.
    - apply (Permutation_in _ (Permutation_sym P)) in H. simpl in H. intuition.
    - apply (Permutation_in _ P). simpl. intuition. }
  assert (Hnot0 : ~ In h0 (heap_pop (h0 :: r))).
  { intro. apply Hnot. apply in_map. auto. }
  assert (H0 : handle_of s e = Some (h_id h0)).
  { apply (inv_bwd E s I); auto. rewrite Hh. left. auto. }
  assert (He : (e < length (ents s))%nat) by (eapply nth_some_lt; eauto).
  assert (Hu : forall x, In x (heap_pop (h0 :: r)) -> h_entry x <> Some e).
  { intros x Hx Hen. assert (In x (heap s)) by (rewrite Hh; apply Hin; auto).
    pose proof (inv_bwd E s I x e H Hen).
    assert (x = h0).
    { eapply nodup_id_inj; [apply (inv_nodup E s I)|auto|rewrite Hh; left; auto|congruence]. }
    subst. auto. }
  unfold s1. rewrite Hh. split; [|split].
  - constructor; simpl; auto.
    + intros x Hx. apply (inv_fresh E s I). rewrite Hh. apply Hin. auto.
    + intros e' hid. rewrite handle_of_upd.
      destruct (Nat.eqb_spec e' e); simpl.
      * destruct (Nat.ltb_spec e (length (ents s))); [discriminate|lia].
      * intros Hq. destruct (inv_fwd E s I e' hid Hq) as (x & A & B & C).
        exists x. split; auto. rewrite Hh in A. apply Hin in A. destruct A; auto.
        subst. congruence.
    + intros x e' Hx Hen. rewrite handle_of_upd.
      assert (e' <> e) by (intro; subst; apply (Hu x Hx); auto).
      destruct (Nat.eqb_spec e' e); [contradiction|]. simpl.
      apply (inv_bwd E s I); auto. rewrite Hh. apply Hin. auto.
    + intros. rewrite upd_length. apply (inv_len E s I). auto.
  - rewrite handle_of_upd. rewrite Nat.eqb_refl. simpl.
    destruct (Nat.ltb_spec e (length (ents s))); auto. lia.
  - intros e' d. unfold due. simpl. rewrite Hh. split.
    + intros (x & A & B & C). split.
      * intro. subst. apply (Hu x A). auto.
      * exists x. split; auto. apply Hin. auto.
    + intros (Hne & x & A & B & C). exists x. split; auto.
      apply Hin in A. destruct A; auto. subst. congruence.
Qed.

Theorem perform_refines : forall E t k s s' evs oc, Inv E s ->
  perform E k s t = (s', evs, oc) -> Dispatch E t k s evs oc s'.
Proof.
  intros E t. induction k; intros s s' evs oc I H.
  - simpl in H.
    set (p := fun h => (h_time h <=? t) && is_tomb h) in *.
    pose proof (pop_while_spec p (length (heap s)) (heap s) (inv_heap E s I) (le_n _)) as P.
    cbv zeta in P. destruct P as (Ok & Sub & Live & ND & Hd).
    specialize (ND (inv_nodup E s I)).
    assert (Live' : forall h, In h (heap s) -> is_tomb h = false -> In h (pop_while p (length (heap s)) (heap s))).
    { intros. apply Live; auto. unfold p. rewrite H1. apply andb_false_r. }
    destruct (inv_shrink E s _ I Ok Sub Live' ND) as (Ip & SD).
    set (hp := pop_while p (length (heap s)) (heap s)) in *.
    set (sp := mkS hp (ents s) (now s) (next_hid s)) in *.
    destruct hp as [|h0 r] eqn:Ehp.
    + inversion H; subst. apply D_done; auto.
      intros e d Hd'. apply SD in Hd'. destruct Hd' as (h & [] & _).
    + destruct (Z.leb_spec (h_time h0) t) as [Le|Gt].
      * unfold p in Hd. destruct (Z.leb_spec (h_time h0) t); [|lia]. simpl in Hd.
        unfold is_tomb in Hd. destruct (h_entry h0) as [e|] eqn:En; [|discriminate].
        inversion H; subst; clear H.
        destruct (pop_live_spec E sp h0 r e Ip eq_refl En) as (I1 & N1 & U1).
        apply D_fuel with (e := e) (d := h_time h0).
        red. split; [|split; [|split; [|split; [|split; [|split]]]]]; auto.
        -- apply SD. exists h0. simpl. auto.
        -- intros e' d' Hd'. apply SD in Hd'. destruct Hd' as (h & A & B & <-).
           apply (heap_front_min h0 r h Ok A).
        -- intros e' d'. pose proof (U1 e' d') as Q1. pose proof (SD e' d') as Q2.
           split; intros X.
           { apply Q1 in X. destruct X as [X1 X2]. split; auto. apply Q2. auto. }
           { apply Q1. destruct X as [X1 X2]. split; auto. apply Q2. auto. }
      * inversion H; subst. apply D_done; auto.
        intros e d Hd'. apply SD in Hd'. destruct Hd' as (h & A & B & <-).
        pose proof (heap_front_min h0 r h Ok A). lia.
  - simpl in H.
    set (p := fun h => (h_time h <=? t) && is_tomb h) in *.
    pose proof (pop_while_spec p (length (heap s)) (heap s) (inv_heap E s I) (le_n _)) as P.
    cbv zeta in P. destruct P as (Ok & Sub & Live & ND & Hd).
    specialize (ND (inv_nodup E s I)).
    assert (Live' : forall h, In h (heap s) -> is_tomb h = false -> In h (pop_while p (length (heap s)) (heap s))).
    { intros. apply Live; auto. unfold p. rewrite H1. apply andb_false_r. }
    destruct (inv_shrink E s _ I Ok Sub Live' ND) as (Ip & SD).
    set (hp := pop_while p (length (heap s)) (heap s)) in *.
    set (sp := mkS hp (ents s) (now s) (next_hid s)) in *.
    destruct hp as [|h0 r] eqn:Ehp.
    + inversion H; subst. apply D_done; auto.
      intros e d Hd'. apply SD in Hd'. destruct Hd' as (h & [] & _).
    + destruct (Z.leb_spec (h_time h0) t) as [Le|Gt].
      * unfold p in Hd. destruct (Z.leb_spec (h_time h0) t); [|lia]. simpl in Hd.
        unfold is_tomb in Hd. destruct (h_entry h0) as [e|] eqn:En; [|discriminate].
        destruct (pop_live_spec E sp h0 r e Ip eq_refl En) as (I1 & N1 & U1).
        assert (F : fires E t s e (h_time h0)
                      (mkS (heap_pop (h0 :: r)) (upd (ents s) e None) (now s) (next_hid s))).
        { red. split; [|split; [|split; [|split; [|split; [|split]]]]]; auto.
          -- apply SD. exists h0. simpl. auto.
          -- intros e' d' Hd'. apply SD in Hd'. destruct Hd' as (h & A & B & <-).
             apply (heap_front_min h0 r h Ok A).
          -- intros e' d'. pose proof (U1 e' d') as Q1. pose proof (SD e' d') as Q2.
           split; intros X.
           { apply Q1 in X. destruct X as [X1 X2]. split; auto. apply Q2. auto. }
           { apply Q1. destruct X as [X1 X2]. split; auto. apply Q2. auto. } }
        destruct (run_script E _ (nth e (e_scr E) [])) as [[s2 os] err] eqn:R.
        destruct err.
        -- inversion H; subst; clear H. eapply D_abort; eauto.
        -- destruct (perform E k s2 t) as [[s3 evs3] oc3] eqn:Pf.
           inversion H; subst; clear H.
           eapply D_fire; eauto. apply IHk; auto.
           eapply run_script_inv; [|exact R]. exact I1.
      * inversion H; subst. apply D_done; auto.
        intros e d Hd'. apply SD in Hd'. destruct Hd' as (h & A & B & <-).
        pose proof (heap_front_min h0 r h Ok A). lia.
Qed.

(* ------------------------------------------------------------------ consequences of Dispatch *)

Lemma dispatch_inv : forall E t k s evs oc s', Dispatch E t k s evs oc s' -> Inv E s'.
Proof.
  induction 1; auto.
  - destruct H as (_ & _ & _ & I1 & _). auto.
  - destruct H as (_ & _ & _ & I1 & _). eapply run_script_inv; eauto.
Qed.

Lemma in_fire_map_out : forall e d os, ~ In (EFire e d) (map EOut os).
Proof. intros e d os H. apply in_map_iff in H. destruct H as (x & A & _). discriminate. Qed.

Lemma dispatch_never_early : forall E t k s evs oc s', Dispatch E t k s evs oc s' ->
  forall e d, In (EFire e d) evs -> d <= t.
Proof.
  induction 1; simpl; intros e0 d0 Hin; try tauto.
  - destruct Hin; [discriminate|tauto].
  - destruct Hin as [Hin|Hin]; [inversion Hin; subst; destruct H; tauto|].
    exfalso. eapply in_fire_map_out; eauto.
  - destruct Hin as [Hin|Hin]; [inversion Hin; subst; destruct H; tauto|].
    apply in_app_or in Hin. destruct Hin as [Hin|Hin]; [exfalso; eapply in_fire_map_out; eauto|].
    eauto.
Qed.

Lemma dispatch_not_late : forall E t k s evs s', Dispatch E t k s evs Done s' ->
  forall e d, due s' e d -> t < d.
Proof.
  intros E t k s evs s' H. remember Done as oc. induction H; try discriminate.
  - intros e0 d0 Hd. apply H0 in Hd. eauto.
  - apply IHDispatch. auto.
Qed.

Lemma dispatch_first_min : forall E t k s e d rest oc s', Dispatch E t k s (EFire e d :: rest) oc s' ->
  due s e d /\ d <= t /\ (forall e' d', due s e' d' -> d <= d').
Proof.
  intros. inversion H; subst;
    match goal with F : fires _ _ _ _ _ _ |- _ => destruct F as (A & B & C & _) end; auto.
Qed.

(* when no handler schedules anything (all scripts empty) the fired due times are sorted *)
Lemma dispatch_fired_due : forall E t k s evs oc s', (forall e, script E e = []) ->
  Dispatch E t k s evs oc s' -> forall e d, In (EFire e d) evs -> due s e d.
Proof.
  intros E t k s evs oc s' Hs H. induction H; simpl; intros e0 d0 Hin; try tauto.
  - destruct Hin; [discriminate|tauto].
  - destruct Hin as [Hin|Hin]; [inversion Hin; subst; destruct H; tauto|].
    exfalso. eapply in_fire_map_out; eauto.
  - destruct Hin as [Hin|Hin]; [inversion Hin; subst; destruct H; tauto|].
    apply in_app_or in Hin. destruct Hin as [Hin|Hin]; [exfalso; eapply in_fire_map_out; eauto|].
    rewrite Hs in H0. simpl in H0. inversion H0; subst.
    apply IHDispatch in Hin. destruct H as (_ & _ & _ & _ & _ & U & _). apply U in Hin. tauto.
Qed.

Fixpoint fired_times (evs : list ev) : list Z :=
  match evs with
  | [] => []
  | EFire _ d :: r => d :: fired_times r
  | _ :: r => fired_times r
  end.

Lemma fired_times_in : forall evs d, In d (fired_times evs) -> exists e, In (EFire e d) evs.
Proof.
  induction evs as [|x r IH]; simpl; intros; [tauto|].
  destruct x; simpl in *.
  - destruct H; [subst; eauto|]. apply IH in H. destruct H; eauto.
  - apply IH in H. destruct H; eauto.
  - apply IH in H. destruct H; eauto.
  - apply IH in H. destruct H; eauto.
  - apply IH in H. destruct H; eauto.
  - apply IH in H. destruct H; eauto.
Qed.

Lemma dispatch_sorted : forall E t k s evs oc s', (forall e, script E e = []) ->
  Dispatch E t k s evs oc s' -> Sorted Z.le (fired_times evs).
Proof.
  intros E t k s evs oc s' Hs H. induction H; simpl; auto.
  - rewrite Hs in H0. simpl in H0. inversion H0.
  - rewrite Hs in H0. simpl in H0. inversion H0; subst. simpl.
    constructor; auto.
    destruct (fired_times evs) as [|d1 l] eqn:Ft; constructor.
    assert (In d1 (fired_times evs)) by (rewrite Ft; left; auto).
    apply fired_times_in in H2. destruct H2 as (e1 & Hin).
    pose proof (dispatch_fired_due E t k s2 evs oc s' Hs H1 e1 d1 Hin) as Hd.
    destruct H as (_ & _ & Hmin & _ & _ & U & _). apply U in Hd. apply (Hmin e1 d1). tauto.
Qed.

(* ------------------------------------------------------------------ one event-loop iteration *)

Lemma set_now_spec : forall E s t, Inv E s ->
  Inv E (set_now s t) /\ same_due s (set_now s t) /\ now (set_now s t) = t.
Proof.
  intros E s t I. split; [destruct I; constructor; auto|]. split; [|reflexivity].
  intros e d. unfold due. simpl. tauto.
Qed.

Definition is_setnow (b : bop) : bool := match b with SetNow _ => true | _ => false end.
(* Scheduler::set_cached_time is protected: slots and call_events cannot move the scheduler's
   clock on their own (Thread::set_cached_time moves both clocks) *)
Definition no_setnow (E : env) : Prop := forall e b, In b (script E e) -> is_setnow b = false.

Lemma exec_basic_now : forall E s b s' o, Inv E s -> is_setnow b = false ->
  exec_basic E s b = (s', o) -> now s' = now s.
Proof.
  intros E s b s' o I Hb H. apply exec_basic_spec in H; auto.
  destruct H as (_ & [[_ ->]|Ef]); auto.
  destruct b; simpl in Hb; try discriminate; intuition.
Qed.

Lemma run_script_now : forall E bs s s' os err, Inv E s -> (forall b, In b bs -> is_setnow b = false) ->
  run_script E s bs = (s', os, err) -> now s' = now s.
Proof.
  induction bs; simpl; intros s s' os err I Hb H.
  - inversion H; subst; auto.
  - destruct (exec_basic E s a) as [s1 o] eqn:X.
    pose proof (exec_basic_now E s a s1 o I (Hb a (or_introl eq_refl)) X) as N1.
    apply exec_basic_spec in X; auto. destruct X as (I1 & _).
    destruct o.
    + destruct (run_script E s1 bs) as [[s2 os2] err2] eqn:R. inversion H; subst.
      rewrite <- N1. eapply IHbs; eauto.
    + inversion H; subst; auto.
    + destruct (run_script E s1 bs) as [[s2 os2] err2] eqn:R. inversion H; subst.
      rewrite <- N1. eapply IHbs; eauto.
Qed.

Lemma dispatch_now : forall E t k s evs oc s', no_setnow E -> Dispatch E t k s evs oc s' -> now s' = now s.
Proof.
  intros E t k s evs oc s' NS H. induction H; auto.
  - destruct H as (_ & _ & _ & _ & _ & _ & N). auto.
  - destruct H as (_ & _ & _ & I1 & _ & _ & N). rewrite <- N.
    eapply run_script_now; eauto.
  - destruct H as (_ & _ & _ & I1 & _ & _ & N). rewrite IHDispatch, <- N.
    eapply run_script_now; eauto.
Qed.

Lemma in_loop_map_out : forall a b c os, ~ In (ELoop a b c) (map EOut os).
Proof. intros a b c os H. apply in_map_iff in H. destruct H as (x & A & _). discriminate. Qed.

Lemma dispatch_no_loop : forall E t k s evs oc s', Dispatch E t k s evs oc s' ->
  forall a b c, ~ In (ELoop a b c) evs.
Proof.
  induction 1; simpl; intros a b c Hin; try tauto.
  - destruct Hin; [discriminate|tauto].
  - destruct Hin as [Hin|Hin]; [discriminate|]. eapply in_loop_map_out; eauto.
  - destruct Hin as [Hin|Hin]; [discriminate|].
    apply in_app_or in Hin. destruct Hin as [Hin|Hin]; [eapply in_loop_map_out; eauto|].
    eapply IHDispatch; eauto.
Qed.

(* spec of one iteration of Thread::event_loop in terms of the pending map *)
Definition LoopIter (E : env) (s : state) (t1 d m : Z) (c : option nat) (evs : list ev) (s' : state) : Prop :=
  exists s0 s1 os err, Inv E s0 /\ same_due s s0 /\ now s0 = t1 /\
    run_script E s0 (call_script E c) = (s1, os, err) /\
    ((err = true /\ evs = map EOut os /\ s' = s1) \/
     (err = false /\ exists s2 s3 pevs oc, Inv E s2 /\ same_due s1 s2 /\ now s2 = t1 + d /\
        Dispatch E (t1 + d) (e_fuel E) s2 pevs oc s3 /\
        ((oc <> Done /\ evs = map EOut os ++ pevs /\ s' = s3) \/
         (oc = Done /\ exists r, same_due s3 s' /\ now s' = now s3 /\ next_sound s3 (Z.max m 0) r /\
            evs = map EOut os ++ pevs ++ [ELoop (t1 + d) (now s3) r])))).

Ltac spl := repeat match goal with |- _ /\ _ => split; [solve [auto]|] end.

Lemma loop_refines : forall E s t1 d m c s' evs, Inv E s -> loop E s t1 d m c = (s', evs) ->
  Inv E s' /\ LoopIter E s t1 d m c evs s'.
Proof.
  intros E s t1 d m c s' evs I H. unfold loop in H.
  destruct (set_now_spec E s t1 I) as (I0 & SD0 & N0).
  destruct (run_script E (set_now s t1) (call_script E c)) as [[s1 os] err] eqn:R.
  pose proof (run_script_inv E _ _ _ _ _ I0 R) as I1.
  destruct err.
  - inversion H; subst. split; auto.
    exists (set_now s t1), s', os, true. spl. left. auto.
  - destruct (set_now_spec E s1 (t1 + d) I1) as (I2 & SD2 & N2).
    destruct (perform E (e_fuel E) (set_now s1 (t1 + d)) (t1 + d)) as [[s3 pevs] oc] eqn:P.
    apply perform_refines in P; auto.
    pose proof (dispatch_inv _ _ _ _ _ _ _ P) as I3.
    destruct oc.
    + destruct (next_timeout s3 (Z.max m 0)) as [s4 o] eqn:NT.
      apply next_timeout_spec with (E := E) in NT; auto.
      destruct NT as (I4 & N4 & SD4 & r & -> & NS).
      inversion H; subst. split; auto.
      exists (set_now s t1), s1, os, false. spl.
      right. split; auto.
      exists (set_now s1 (t1 + d)), s3, pevs, Done. spl.
      right. split; auto. exists r. auto.
    + inversion H; subst. split; auto.
      exists (set_now s t1), s1, os, false. spl.
      right. split; auto.
      exists (set_now s1 (t1 + d)), s', pevs, Aborted. spl.
      left. split; [discriminate|auto].
    + inversion H; subst. split; auto.
      exists (set_now s t1), s1, os, false. spl.
      right. split; auto.
      exists (set_now s1 (t1 + d)), s', pevs, OutOfFuel. spl.
      left. split; [discriminate|auto].
Qed.

(* the poll timeout handed to Poll::do_poll at the end of an iteration, added to the clock value the
   thread holds (which is the clock after call_events), does not pass any pending timer *)
Lemma loop_never_oversleeps : forall E s t1 d m c s' evs, Inv E s -> no_setnow E ->
  loop E s t1 d m c = (s', evs) ->
  forall tnow snow r, In (ELoop tnow snow r) evs ->
    tnow = t1 + d /\ snow = t1 + d /\ now s' = t1 + d /\ 0 <= r <= Z.max m 0 /\
    forall e dd, due s' e dd -> r = 0 \/ tnow + r <= dd.
Proof.
  intros E s t1 d m c s' evs I NS H tnow snow r Hin.
  destruct (loop_refines E s t1 d m c s' evs I H) as (I' & s0 & s1 & os & err & I0 & SD0 & N0 & R & Cs).
  destruct Cs as [(_ & -> & _)|(_ & s2 & s3 & pevs & oc & I2 & SD2 & N2 & D & Cs)].
  { exfalso. eapply in_loop_map_out; eauto. }
  destruct Cs as [(_ & -> & _)|(-> & r0 & SD3 & N3 & (A & B & _) & ->)].
  { exfalso. apply in_app_or in Hin. destruct Hin as [Hin|Hin].
    - eapply in_loop_map_out; eauto.
    - eapply dispatch_no_loop; eauto. }
  pose proof (dispatch_now _ _ _ _ _ _ _ NS D) as N4.
  apply in_app_or in Hin. destruct Hin as [Hin|Hin]; [exfalso; eapply in_loop_map_out; eauto|].
  apply in_app_or in Hin. destruct Hin as [Hin|Hin]; [exfalso; eapply dispatch_no_loop; eauto|].
  simpl in Hin. destruct Hin as [Hin|[]]. inversion Hin; subst; clear Hin.
  assert (Hr : 0 <= r <= Z.max m 0) by (apply B; lia).
  split; auto. split; [lia|]. split; [lia|]. split; auto.
  intros e dd Hd. apply SD3 in Hd. apply A in Hd. lia.
Qed.

(* ------------------------------------------------------------------ whole runs *)

Inductive Run (E : env) : state -> list op -> list (list ev) -> state -> Prop :=
| R_nil : forall s, Run E s [] [] s
| R_basic : forall s b s1 o ops outs s', bop_effect E s b s1 o -> Inv E s1 ->
    Run E s1 ops outs s' -> Run E s (Basic b :: ops) ([EOut o] :: outs) s'
| R_perform : forall s t evs oc s1 ops outs s', Dispatch E t (e_fuel E) s evs oc s1 ->
    Run E s1 ops outs s' -> Run E s (Perform t :: ops) (evs :: outs) s'
| R_loop : forall s t1 d m c evs s1 ops outs s', LoopIter E s t1 d m c evs s1 -> Inv E s1 ->
    Run E s1 ops outs s' -> Run E s (Loop t1 d m c :: ops) (evs :: outs) s'.

Theorem run_refines : forall E ops s s' outs, Inv E s -> run E s ops = (s', outs) ->
  Run E s ops outs s' /\ Inv E s'.
Proof.
  induction ops as [|o r IH]; simpl; intros s s' outs I H.
  - inversion H; subst. split; auto. constructor.
  - destruct o as [b|t|t1 d m c]; simpl in H.
    + destruct (exec_basic E s b) as [s1 o1] eqn:X.
      destruct (run E s1 r) as [s2 ls] eqn:R. inversion H; subst; clear H.
      apply exec_basic_spec in X; auto. destruct X as (I1 & Ef).
      destruct (IH _ _ _ I1 R) as (Rr & I2). split; auto. econstructor; eauto.
    + destruct (perform E (e_fuel E) s t) as [[s1 evs] oc] eqn:P.
      destruct (run E s1 r) as [s2 ls] eqn:R. inversion H; subst; clear H.
      apply perform_refines in P; auto.
      pose proof (dispatch_inv _ _ _ _ _ _ _ P) as I1.
      destruct (IH _ _ _ I1 R) as (Rr & I2). split; auto. econstructor; eauto.
    + destruct (loop E s t1 d m c) as [s1 evs] eqn:L.
      destruct (run E s1 r) as [s2 ls] eqn:R. inversion H; subst; clear H.
      apply loop_refines in L; auto. destruct L as (I1 & LI).
      destruct (IH _ _ _ I1 R) as (Rr & I2). split; auto. econstructor; eauto.
Qed.
