(* C19 -- executable model of torrent::system::Scheduler (src/torrent/system/scheduler.{h,cc})
   and of the libstdc++ binary-heap primitives it is built on (bits/stl_heap.h:
   std::__push_heap, std::__adjust_heap, std::__pop_heap as called by std::ranges::push_heap /
   pop_heap with the comparator  comp(a,b) = a->time > b->time).

   Definitions only; proofs live in Proofs*.v.

   Representation
     handle      one heap cell (SchedulerHandle): identity h_id (stands for the address of the
                 unique_ptr's object), due time, back pointer to the entry (None = tombstone).
     heap        m_heap as a list-as-array (index 0 = front()).
     ents        entry index -> handle identity  (SchedulerEntry::m_handle; None = nullptr).
     now         m_cached_time.
     next_hid    allocation counter (fresh identities = make_unique never returns a live address).
   Times are microseconds in Z; int64 overflow is outside the model (assumption |t| < 2^62).
   Handlers (SchedulerEntry::slot()) are scripts: lists of basic scheduler operations, fixed per
   run in the environment, so re-entrant erase/update/wait of self and others is inside the
   model. *)
From Coq Require Import ZArith List Bool Arith.
From LTV.C19 Require Import ParamsGen.
Import ListNotations.
Open Scope Z_scope.

Record handle := mkH { h_id : nat; h_time : Z; h_entry : option nat }.
Definition dummy : handle := mkH 0 0 None.

Fixpoint upd {A} (a : list A) (i : nat) (v : A) : list A :=
  match a with
  | [] => []
  | x :: r => match i with O => v :: r | S j => x :: upd r j v end
  end.

Definition hnth (a : list handle) (i : nat) : handle := nth i a dummy.
Definition ht (a : list handle) (i : nat) : Z := h_time (hnth a i).

(* ---------------------------------------------------------------- libstdc++ heap primitives *)

(* std::__push_heap(first, holeIndex, topIndex = 0, value, comp):
     parent = (hole-1)/2;
     while (hole > 0 && first[parent].time > value.time) { first[hole] = first[parent]; hole = parent; ... }
     first[hole] = value;                                                                   *)
Fixpoint push_loop (fuel : nat) (a : list handle) (hole : nat) (v : handle) : list handle :=
  match fuel with
  | O => upd a hole v
  | S f =>
      let parent := ((hole - 1) / 2)%nat in
      if (0 <? hole)%nat && (h_time v <? ht a parent)
      then push_loop f (upd a hole (hnth a parent)) parent v
      else upd a hole v
  end.

(* std::push_heap(first, last): value = last[-1]; __push_heap(first, len-1, 0, value) *)
Definition push_heap (a : list handle) : list handle :=
  match a with
  | [] => []
  | _ => let n := length a in push_loop n a (n - 1) (hnth a (n - 1))
  end.

(* first loop of std::__adjust_heap: the hole walks down to the bottom along the smaller child
   (the right child on a tie: comp(right,left) = right.time > left.time picks left). *)
Fixpoint adjust_down (fuel : nat) (a : list handle) (hole len : nat) : list handle * nat :=
  match fuel with
  | O => (a, hole)
  | S f =>
      if (hole <? (len - 1) / 2)%nat then
        let sc := (2 * (hole + 1))%nat in
        let c := if ht a (sc - 1) <? ht a sc then (sc - 1)%nat else sc in
        adjust_down f (upd a hole (hnth a c)) c len
      else (a, hole)
  end.

(* std::__adjust_heap(first, 0, len, value, comp) *)
Definition adjust_heap (a : list handle) (len : nat) (v : handle) : list handle :=
  let '(a1, hole) := adjust_down len a 0%nat len in
  let '(a2, hole2) :=
    if Nat.even len && (hole =? (len - 2) / 2)%nat
    then let sc := (2 * (hole + 1))%nat in (upd a1 hole (hnth a1 (sc - 1)), (sc - 1)%nat)
    else (a1, hole) in
  push_loop (S hole2) a2 hole2 v.

(* std::pop_heap(first,last); back(); pop_back()  on a vector of length n >= 1:
     n = 1: nothing moves, the only element is removed;
     n > 1: value = a[n-1]; a[n-1] = a[0]; __adjust_heap(a, 0, n-1, value); a[n-1] removed.
   The removed element is always the old a[0] (heap_top). *)
Definition heap_pop (a : list handle) : list handle :=
  match a with
  | [] => []
  | [_] => []
  | _ => let n := length a in adjust_heap (removelast a) (n - 1) (hnth a (n - 1))
  end.

(* while (!heap.empty() && p(heap.front())) { pop_heap; pop_back; } -- fuel = length suffices *)
Fixpoint pop_while (p : handle -> bool) (fuel : nat) (a : list handle) : list handle :=
  match fuel with
  | O => a
  | S f => match a with
           | [] => []
           | h0 :: _ => if p h0 then pop_while p f (heap_pop a) else a
           end
  end.

(* ---------------------------------------------------------------- scheduler *)

Inductive bop :=
| WaitUntil (e : nat) (t : Z)
| WaitFor (e : nat) (dt : Z)
| WaitForCeil (e : nat) (dt : Z)
| UpdUntil (e : nat) (t : Z)
| UpdFor (e : nat) (dt : Z)
| UpdForCeil (e : nat) (dt : Z)
| Erase (e : nat)
| NextTimeout (m : Z)
| SetNow (t : Z).

(* Loop t1 d m c: one iteration of Thread::event_loop (src/torrent/system/thread.cc): the clock
   reads t1 on entry of process_events, call_events() takes d (and runs the ops of script c, if
   any), the clock is read again, timers are dispatched, then the poll timeout is computed from
   the thread's own next_timeout() = m. *)
Inductive op := Basic (b : bop) | Perform (t : Z) | Loop (t1 d m : Z) (c : option nat).

Inductive out := OOk | OErr | ONext (r : Z).

Record env := mkEnv {
  e_scr : list (list bop);     (* slot of entry e, as a script *)
  e_valid : list bool;         (* SchedulerEntry::is_valid(): slot != nullptr *)
  e_fuel : nat;                (* max number of slot invocations per perform the harness allows *)
  e_foreign : list bool        (* entry is currently scheduled in ANOTHER scheduler
                                  (m_handle != nullptr && m_handle->scheduler != this) *)
}.

Record state := mkS { heap : list handle; ents : list (option nat); now : Z; next_hid : nat }.

Definition init (n : nat) : state := mkS [] (repeat None n) 0 0.

Definition day_us : Z := 24 * 3600 * 1000000.
Definition min_time_wait : Z := Params.sched_min_days_wait * day_us.
Definition min_time_update : Z := Params.sched_min_days_update * day_us.
Definition max_for (years : Z) : Z := years * 365 * day_us.

(* utils::ceil_seconds: duration_cast<seconds>(t + 1s - 1us) truncates toward zero *)
Definition ceil_seconds (t : Z) : Z := Z.quot (t + 1000000 - 1) 1000000 * 1000000.

Definition valid (E : env) (e : nat) : bool := nth e (e_valid E) false.
Definition foreign (E : env) (e : nat) : bool := nth e (e_foreign E) false.
Definition handle_of (s : state) (e : nat) : option nat := nth e (ents s) None.

Definition is_tomb (h : handle) : bool := match h_entry h with None => true | Some _ => false end.

(* handle->entry = nullptr   through the entry's m_handle pointer *)
Definition tombstone (hp : list handle) (hid : nat) : list handle :=
  map (fun h => if (h_id h =? hid)%nat then mkH (h_id h) (h_time h) None else h) hp.

Definition push_entry (s : state) (e : nat) (t : Z) : state :=
  let h := mkH (next_hid s) t (Some e) in
  mkS (push_heap (heap s ++ [h])) (upd (ents s) e (Some (next_hid s))) (now s) (S (next_hid s)).

Definition wait_until (E : env) (s : state) (e : nat) (t : Z) : state * out :=
  if t =? 0 then (s, OErr)
  else if t <? min_time_wait then (s, OErr)
  else if negb (valid E e) then (s, OErr)
  else match handle_of s e with
       | Some _ => (s, OErr)
       | None => if foreign E e then (s, OErr)      (* is_scheduled(): "already scheduled" *)
                 else (push_entry s e t, OOk)
       end.

Definition update_wait_until (E : env) (s : state) (e : nat) (t : Z) : state * out :=
  if t =? 0 then (s, OErr)
  else if t <? min_time_update then (s, OErr)
  else if negb (valid E e) then (s, OErr)
  else match handle_of s e with
       | Some hid => (push_entry (mkS (tombstone (heap s) hid) (ents s) (now s) (next_hid s)) e t, OOk)
       | None => if foreign E e then (s, OErr)      (* "entry that is in another scheduler" *)
                 else (push_entry s e t, OOk)
       end.

Definition erase (E : env) (s : state) (e : nat) : state * out :=
  match handle_of s e with
  | None => if foreign E e then (s, OErr)           (* scheduled, but in another scheduler (or invalid) *)
            else (s, OOk)
  | Some hid =>
      if negb (valid E e) then (s, OErr)
      else (mkS (tombstone (heap s) hid) (upd (ents s) e None) (now s) (next_hid s), OOk)
  end.

Definition next_timeout (s : state) (m : Z) : state * out :=
  let hp := pop_while is_tomb (length (heap s)) (heap s) in
  let s' := mkS hp (ents s) (now s) (next_hid s) in
  match hp with
  | [] => (s', ONext m)
  | h0 :: _ =>
      let timeout := h_time h0 - now s in
      if timeout >=? m then (s', ONext m) else (s', ONext (Z.max timeout 0))
  end.

Definition exec_basic (E : env) (s : state) (b : bop) : state * out :=
  match b with
  | WaitUntil e t => wait_until E s e t
  | WaitFor e dt =>
      if dt >? max_for Params.sched_max_years_wait_for then (s, OErr) else wait_until E s e (now s + dt)
  | WaitForCeil e dt =>
      if dt >? max_for Params.sched_max_years_wait_for_ceil then (s, OErr)
      else wait_until E s e (ceil_seconds (now s + dt))
  | UpdUntil e t => update_wait_until E s e t
  | UpdFor e dt =>
      if dt >? max_for Params.sched_max_years_update_for then (s, OErr) else update_wait_until E s e (now s + dt)
  | UpdForCeil e dt =>
      if dt >? max_for Params.sched_max_years_update_for_ceil then (s, OErr)
      else update_wait_until E s e (ceil_seconds (now s + dt))
  | Erase e => erase E s e
  | NextTimeout m => next_timeout s m
  | SetNow t => (mkS (heap s) (ents s) t (next_hid s), OOk)
  end.

(* a slot body: the ops in order; an internal_error propagates out of the slot *)
Fixpoint run_script (E : env) (s : state) (bs : list bop) : state * list out * bool :=
  match bs with
  | [] => (s, [], false)
  | b :: r =>
      let '(s1, o) := exec_basic E s b in
      match o with
      | OErr => (s1, [OErr], true)
      | _ => let '(s2, os, err) := run_script E s1 r in (s2, o :: os, err)
      end
  end.

Inductive ev :=
| EFire (e : nat) (d : Z)    (* slot of entry e invoked; d = time of the popped handle *)
| EOut (o : out)             (* result of one basic op (top level or inside a slot) *)
| EFuel                      (* the harness' slot budget was exceeded (slot threw before its body) *)
| EBad (e : nat)             (* choice-driven model only: the implementation fired an entry that is not a
                               due minimum of the pending map (or not pending at all) *)
| EStuck                     (* choice-driven model only: the implementation stopped dispatching while a
                               timer with due <= t was still pending *)
| ELoop (tnow snow r : Z).   (* end of a loop iteration: Thread::m_cached_time, Scheduler::m_cached_time,
                               poll timeout handed to Poll::do_poll *)

Inductive outcome := Done | Aborted | OutOfFuel.

(* Scheduler::perform(t). One iteration of the Coq loop = skip due tombstones, then one live pop.
   k counts slot invocations still allowed; the (k+1)-th invocation throws at once (the harness
   does the same), which leaves the popped handle destroyed and the entry unscheduled. *)
Fixpoint perform (E : env) (k : nat) (s : state) (t : Z) : state * list ev * outcome :=
  let hp := pop_while (fun h => (h_time h <=? t) && is_tomb h) (length (heap s)) (heap s) in
  match hp with
  | [] => (mkS hp (ents s) (now s) (next_hid s), [], Done)
  | h0 :: _ =>
      if h_time h0 <=? t then
        match h_entry h0 with
        | None => (mkS hp (ents s) (now s) (next_hid s), [], Done)   (* unreachable: pop_while *)
        | Some e =>
            let s1 := mkS (heap_pop hp) (upd (ents s) e None) (now s) (next_hid s) in
            match k with
            | O => (s1, [EFuel], OutOfFuel)
            | S k' =>
                let '(s2, os, err) := run_script E s1 (nth e (e_scr E) []) in
                if err then (s2, EFire e (h_time h0) :: map EOut os, Aborted)
                else let '(s3, evs, oc) := perform E k' s2 t in
                     (s3, EFire e (h_time h0) :: map EOut os ++ evs, oc)
            end
        end
      else (mkS hp (ents s) (now s) (next_hid s), [], Done)
  end.

(* Thread::set_cached_time(t): m_cached_time = t; m_scheduler->set_cached_time(t).  The thread's
   copy is not part of the scheduler state; within an iteration it is the last value set. *)
Definition set_now (s : state) (t : Z) : state := mkS (heap s) (ents s) t (next_hid s).

Definition call_script (E : env) (c : option nat) : list bop :=
  match c with Some e => nth e (e_scr E) [] | None => [] end.

(* Thread::process_events():
     set_cached_time(utils::time_since_epoch());      clock = t1
     call_events();                                   takes d, runs script c
     set_cached_time(utils::time_since_epoch());      clock = t1 + d
     m_scheduler->perform(m_cached_time);
   followed by the poll-timeout computation of Thread::event_loop():
     timeout = std::max(next_timeout(), 0us);  timeout = m_scheduler->next_timeout(timeout);
   An exception (internal_error from a script op, or the harness budget) leaves the iteration. *)
Definition loop (E : env) (s : state) (t1 d m : Z) (c : option nat) : state * list ev :=
  let s0 := set_now s t1 in
  let '(s1, os, err) := run_script E s0 (call_script E c) in
  if err then (s1, map EOut os)
  else
    let s2 := set_now s1 (t1 + d) in
    let '(s3, pevs, oc) := perform E (e_fuel E) s2 (t1 + d) in
    match oc with
    | Done =>
        let '(s4, o) := next_timeout s3 (Z.max m 0) in
        (s4, map EOut os ++ pevs ++
             [ELoop (t1 + d) (now s3) (match o with ONext r => r | _ => 0 end)])
    | _ => (s3, map EOut os ++ pevs)
    end.

Definition step (E : env) (s : state) (o : op) : state * list ev :=
  match o with
  | Basic b => let '(s', r) := exec_basic E s b in (s', [EOut r])
  | Perform t => let '(s', evs, _) := perform E (e_fuel E) s t in (s', evs)
  | Loop t1 d m c => loop E s t1 d m c
  end.

Fixpoint run (E : env) (s : state) (ops : list op) : state * list (list ev) :=
  match ops with
  | [] => (s, [])
  | o :: r => let '(s1, l) := step E s o in
              let '(s2, ls) := run E s1 r in (s2, l :: ls)
  end.

(* ---------------------------------------------------------------- two schedulers
   Entries have ONE m_handle pointer; an entry scheduled in scheduler B is "foreign" to scheduler A
   and vice versa. A is the scheduler under test (dispatched, driven by threads), B only receives
   basic operations. Each side runs the single-scheduler code above with e_foreign set to the
   entries currently scheduled on the other side (constant while one side executes). *)
Definition sched_mask (s : state) : list bool :=
  map (fun x => match x with Some _ => true | None => false end) (ents s).
Definition with_foreign (E : env) (m : list bool) : env := mkEnv (e_scr E) (e_valid E) (e_fuel E) m.

Inductive op2 := OnA (o : op) | OnB (b : bop).

Definition step2 (E : env) (st : state * state) (o : op2) : (state * state) * list ev :=
  let '(sA, sB) := st in
  match o with
  | OnA o => let '(sA', evs) := step (with_foreign E (sched_mask sB)) sA o in ((sA', sB), evs)
  | OnB b => let '(sB', r) := exec_basic (with_foreign E (sched_mask sA)) sB b in ((sA, sB'), [EOut r])
  end.

Fixpoint run2 (E : env) (st : state * state) (ops : list op2) : (state * state) * list (list ev) :=
  match ops with
  | [] => (st, [])
  | o :: r => let '(st1, l) := step2 E st o in
              let '(st2, ls) := run2 E st1 r in (st2, l :: ls)
  end.

(* observation of the final state: entry -> time_or_zero() restricted to scheduled entries *)
Definition due_of (s : state) (e : nat) : option Z :=
  match handle_of s e with
  | None => None
  | Some hid => match find (fun h => (h_id h =? hid)%nat) (heap s) with
                | Some h => Some (h_time h)
                | None => None
                end
  end.
