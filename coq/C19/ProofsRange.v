(* C19 -- int64 range: the code computes with std::chrono::microseconds (int64_t); the model uses
   unbounded Z. [exec_basic_chk] is exec_basic with every arithmetic operation of the C++ code
   (m_cached_time + time, t + 1s - 1us, duration_cast, front->time - m_cached_time) checked to stay
   inside int64. Under the explicit range hypotheses [Rng] (state) and [arg_ok] (operation
   arguments) it never overflows and returns exactly what the unbounded model returns. *)
From Coq Require Import ZArith List Bool Arith Lia.
From LTV.C19 Require Import ParamsGen.
From LTV.C19 Require Import Model ProofsHeap ProofsSched ProofsRun.
Import ListNotations.
Open Scope Z_scope.
Ltac Zify.zify_post_hook ::= Z.to_euclidean_division_equations.

Definition i64_lo : Z := - 2 ^ 63.
Definition i64_hi : Z := 2 ^ 63.
Definition chk (z : Z) : option Z := if (i64_lo <=? z) && (z <? i64_hi) then Some z else None.
Definition bind {A} (x : option Z) (f : Z -> option A) : option A :=
  match x with Some v => f v | None => None end.

(* utils::ceil_seconds step by step: t + 1s, - 1us, duration_cast<seconds> (quot), back to microseconds *)
Definition ceil_chk (t : Z) : option Z :=
  bind (chk (t + 1000000)) (fun x1 => bind (chk (x1 - 1)) (fun x2 => chk (Z.quot x2 1000000 * 1000000))).

Definition next_timeout_chk (s : state) (m : Z) : option (state * out) :=
  let hp := pop_while is_tomb (length (heap s)) (heap s) in
  let s' := mkS hp (ents s) (now s) (next_hid s) in
  match hp with
  | [] => Some (s', ONext m)
  | h0 :: _ => bind (chk (h_time h0 - now s)) (fun timeout =>
                 Some (if timeout >=? m then (s', ONext m) else (s', ONext (Z.max timeout 0))))
  end.

Definition exec_basic_chk (E : env) (s : state) (b : bop) : option (state * out) :=
  match b with
  | WaitUntil e t => Some (wait_until E s e t)
  | WaitFor e dt =>
      if dt >? max_for Params.sched_max_years_wait_for then Some (s, OErr)
      else bind (chk (now s + dt)) (fun t => Some (wait_until E s e t))
  | WaitForCeil e dt =>
      if dt >? max_for Params.sched_max_years_wait_for_ceil then Some (s, OErr)
      else bind (chk (now s + dt)) (fun t0 => bind (ceil_chk t0) (fun t => Some (wait_until E s e t)))
  | UpdUntil e t => Some (update_wait_until E s e t)
  | UpdFor e dt =>
      if dt >? max_for Params.sched_max_years_update_for then Some (s, OErr)
      else bind (chk (now s + dt)) (fun t => Some (update_wait_until E s e t))
  | UpdForCeil e dt =>
      if dt >? max_for Params.sched_max_years_update_for_ceil then Some (s, OErr)
      else bind (chk (now s + dt)) (fun t0 => bind (ceil_chk t0) (fun t => Some (update_wait_until E s e t)))
  | Erase e => Some (erase E s e)
  | NextTimeout m => next_timeout_chk s m
  | SetNow t => Some (mkS (heap s) (ents s) t (next_hid s), OOk)
  end.

(* range hypotheses *)
Definition R62 : Z := 2 ^ 62.
Definition HB : Z := 2 ^ 62 + 2 ^ 50.      (* bound on handle times: 2^62 + 10 years + 1 s fits below *)
Definition Rng (s : state) : Prop :=
  0 <= now s <= R62 /\ forall h, In h (heap s) -> - R62 <= h_time h <= HB.
Definition arg_ok (b : bop) : Prop :=
  match b with
  | WaitUntil _ t | UpdUntil _ t => t <= R62
  | WaitFor _ dt | WaitForCeil _ dt | UpdFor _ dt | UpdForCeil _ dt => - R62 <= dt
  | SetNow t => 0 <= t <= R62
  | Erase _ | NextTimeout _ => True
  end.

Lemma chk_some : forall z, i64_lo <= z < i64_hi -> chk z = Some z.
Proof.
  intros. unfold chk. destruct (Z.leb_spec i64_lo z); [|lia]. destruct (Z.ltb_spec z i64_hi); [|lia]. reflexivity.
Qed.

(* side conditions on the constants (checked at run time on the values probed from the compiled library) *)
Definition max_ok : Prop :=
  forall y, In y [Params.sched_max_years_wait_for; Params.sched_max_years_wait_for_ceil;
                  Params.sched_max_years_update_for; Params.sched_max_years_update_for_ceil] ->
  max_for y <= 2 ^ 49.
Definition min_ok : Prop := 0 < min_time_wait /\ 0 < min_time_update.

Lemma ceil_chk_some : forall t, - 2 ^ 63 + 1 <= t <= 2 ^ 62 + 2 ^ 49 -> ceil_chk t = Some (ceil_seconds t).
Proof.
  intros t H. unfold ceil_chk, ceil_seconds, bind.
  assert (P63 : 2 ^ 63 = 9223372036854775808) by reflexivity.
  assert (P62 : 2 ^ 62 = 4611686018427387904) by reflexivity.
  assert (P49 : 2 ^ 49 = 562949953421312) by reflexivity.
  rewrite chk_some by (unfold i64_lo, i64_hi; lia).
  rewrite chk_some by (unfold i64_lo, i64_hi; lia).
  rewrite chk_some; [reflexivity|].
  unfold i64_lo, i64_hi. lia.
Qed.

Lemma ceil_upper : forall t, ceil_seconds t <= Z.max 0 (t + 999999).
Proof. intros. unfold ceil_seconds. lia. Qed.

Theorem exec_basic_chk_agrees : forall E s b, max_ok -> Inv E s -> Rng s -> arg_ok b ->
  exec_basic_chk E s b = Some (exec_basic E s b).
Proof.
  intros E s b max_for_bound I (Hn & Hh) Ha.
  assert (P63 : 2 ^ 63 = 9223372036854775808) by reflexivity.
  assert (P62 : 2 ^ 62 = 4611686018427387904) by reflexivity.
  assert (P50 : 2 ^ 50 = 1125899906842624) by reflexivity.
  assert (P49 : 2 ^ 49 = 562949953421312) by reflexivity.
  unfold R62, HB in *.
  destruct b; simpl in *; unfold R62 in *; auto.
  - destruct (Z.gtb_spec dt (max_for Params.sched_max_years_wait_for)); auto.
    pose proof (max_for_bound Params.sched_max_years_wait_for ltac:(simpl; auto)).
    rewrite chk_some by (unfold i64_lo, i64_hi; lia). reflexivity.
  - destruct (Z.gtb_spec dt (max_for Params.sched_max_years_wait_for_ceil)); auto.
    pose proof (max_for_bound Params.sched_max_years_wait_for_ceil ltac:(simpl; auto)).
    rewrite chk_some by (unfold i64_lo, i64_hi; lia). simpl.
    destruct (Z.eq_dec (now s + dt) (- 2 ^ 63)).
    + (* the single value for which t + 1s - 1us is still fine: -2^63 + 999999 *)
      rewrite e0. vm_compute. reflexivity.
    + rewrite ceil_chk_some by lia. reflexivity.
  - destruct (Z.gtb_spec dt (max_for Params.sched_max_years_update_for)); auto.
    pose proof (max_for_bound Params.sched_max_years_update_for ltac:(simpl; auto)).
    rewrite chk_some by (unfold i64_lo, i64_hi; lia). reflexivity.
  - destruct (Z.gtb_spec dt (max_for Params.sched_max_years_update_for_ceil)); auto.
    pose proof (max_for_bound Params.sched_max_years_update_for_ceil ltac:(simpl; auto)).
    rewrite chk_some by (unfold i64_lo, i64_hi; lia). simpl.
    destruct (Z.eq_dec (now s + dt) (- 2 ^ 63)).
    + rewrite e0. vm_compute. reflexivity.
    + rewrite ceil_chk_some by lia. reflexivity.
  - unfold next_timeout_chk, next_timeout.
    pose proof (pop_while_spec is_tomb (length (heap s)) (heap s) (inv_heap E s I) (le_n _)) as P.
    cbv zeta in P. destruct P as (_ & Sub & _).
    destruct (pop_while is_tomb (length (heap s)) (heap s)) as [|h0 r] eqn:Ep; auto.
    pose proof (Hh h0 (Sub h0 (or_introl eq_refl))).
    rewrite chk_some by (unfold i64_lo, i64_hi; lia). simpl.
    destruct (_ >=? _); reflexivity.
Qed.

(* ------------------------------------------------------------------ the range is kept by every basic op *)

Lemma push_entry_times : forall s e t h, In h (heap (push_entry s e t)) -> In h (heap s) \/ h_time h = t.
Proof.
  intros s e t h H. unfold push_entry in H. simpl in H.
  apply (Permutation.Permutation_in _ (push_heap_perm _)) in H.
  apply in_app_or in H. destruct H as [H|[<-|[]]]; auto.
Qed.

Lemma tombstone_times : forall hp hid h, In h (tombstone hp hid) -> exists h0, In h0 hp /\ h_time h0 = h_time h.
Proof.
  intros hp hid h H. rewrite tombstone_map in H. apply in_map_iff in H. destruct H as (h0 & <- & A).
  exists h0. split; auto. symmetry. apply tomb_f_time.
Qed.

Definition TB (t : Z) : Prop := t <= HB.   (* rejected times never reach the heap; accepted ones are >= 365 days *)

Lemma wait_until_rng : forall E s e t, min_ok -> Rng s -> TB t -> Rng (fst (wait_until E s e t)).
Proof.
  intros E s e t (Pw & _) (Hn & Hh) Ht. unfold wait_until.
  assert (P62 : 2 ^ 62 = 4611686018427387904) by reflexivity.
  destruct (t =? 0), (Z.ltb_spec t min_time_wait), (negb (valid E e)), (handle_of s e), (foreign E e); simpl;
    try (split; auto; fail).
  split; auto. intros h Hin. apply push_entry_times in Hin. destruct Hin as [Hin| ->]; auto.
  unfold TB, R62 in *. lia.
Qed.

Lemma update_wait_until_rng : forall E s e t, min_ok -> Rng s -> TB t -> Rng (fst (update_wait_until E s e t)).
Proof.
  intros E s e t (_ & Pu) (Hn & Hh) Ht. unfold update_wait_until.
  assert (P62 : 2 ^ 62 = 4611686018427387904) by reflexivity.
  assert (Hnew : min_time_update <= t -> - R62 <= t <= HB) by (unfold TB, R62 in *; lia).
  destruct (t =? 0), (Z.ltb_spec t min_time_update), (negb (valid E e)), (handle_of s e), (foreign E e); simpl;
    try (split; auto; fail).
  - split; auto. intros h Hin. apply push_entry_times in Hin. destruct Hin as [Hin| ->]; auto.
    simpl in Hin. apply tombstone_times in Hin. destruct Hin as (h0 & A & <-). auto.
  - split; auto. intros h Hin. apply push_entry_times in Hin. destruct Hin as [Hin| ->]; auto.
    simpl in Hin. apply tombstone_times in Hin. destruct Hin as (h0 & A & <-). auto.
  - split; auto. intros h Hin. apply push_entry_times in Hin. destruct Hin as [Hin| ->]; auto.
Qed.

Theorem range_preserved : forall E s b, min_ok -> max_ok -> Inv E s -> Rng s -> arg_ok b -> Rng (fst (exec_basic E s b)).
Proof.
  intros E s b MinOk max_for_bound I R Ha. pose proof R as (Hn & Hh).
  assert (P62 : 2 ^ 62 = 4611686018427387904) by reflexivity.
  assert (P50 : 2 ^ 50 = 1125899906842624) by reflexivity.
  assert (P49 : 2 ^ 49 = 562949953421312) by reflexivity.
  destruct b; cbn [exec_basic arg_ok] in *.
  - apply wait_until_rng; auto. unfold TB, HB, R62 in *. lia.
  - destruct (Z.gtb_spec dt (max_for Params.sched_max_years_wait_for)); [auto|].
    pose proof (max_for_bound Params.sched_max_years_wait_for ltac:(simpl; auto)).
    apply wait_until_rng; auto. unfold TB, HB, R62 in *. lia.
  - destruct (Z.gtb_spec dt (max_for Params.sched_max_years_wait_for_ceil)); [auto|].
    pose proof (max_for_bound Params.sched_max_years_wait_for_ceil ltac:(simpl; auto)).
    apply wait_until_rng; auto. unfold TB, HB, R62 in *.
    pose proof (ceil_upper (now s + dt)). unfold ceil_seconds in *. lia.
  - apply update_wait_until_rng; auto. unfold TB, HB, R62 in *. lia.
  - destruct (Z.gtb_spec dt (max_for Params.sched_max_years_update_for)); [auto|].
    pose proof (max_for_bound Params.sched_max_years_update_for ltac:(simpl; auto)).
    apply update_wait_until_rng; auto. unfold TB, HB, R62 in *. lia.
  - destruct (Z.gtb_spec dt (max_for Params.sched_max_years_update_for_ceil)); [auto|].
    pose proof (max_for_bound Params.sched_max_years_update_for_ceil ltac:(simpl; auto)).
    apply update_wait_until_rng; auto. unfold TB, HB, R62 in *.
    pose proof (ceil_upper (now s + dt)). unfold ceil_seconds in *. lia.
  - unfold erase. destruct (handle_of s e), (foreign E e), (negb (valid E e)); simpl; auto.
    + split; auto. intros h H. apply tombstone_times in H. destruct H as (h0 & A & <-). auto.
    + split; auto. intros h H. apply tombstone_times in H. destruct H as (h0 & A & <-). auto.
  - unfold next_timeout.
    pose proof (pop_while_spec is_tomb (length (heap s)) (heap s) (inv_heap E s I) (le_n _)) as P.
    cbv zeta in P. destruct P as (_ & Sub & _).
    assert (Rng (mkS (pop_while is_tomb (length (heap s)) (heap s)) (ents s) (now s) (next_hid s))).
    { split; auto. }
    destruct (pop_while is_tomb (length (heap s)) (heap s)); simpl; auto.
    destruct (_ >=? _); simpl; auto.
  - simpl. split; auto.
Qed.
