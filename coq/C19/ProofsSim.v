(* C19 -- the array-heap model of today's code (Model.v) is an instance of the choice-driven model
   (AModel.v): every run of the concrete scheduler is accepted by the choice-driven model for a
   suitable choice sequence (the entries the heap happened to pop), with identical outputs. So all
   theorems proved for every choice sequence apply to the libstdc++-heap tie-breaking policy. *)
From Coq Require Import ZArith List Bool Arith Lia.
From LTV.C19 Require Import ParamsGen.
From LTV.C19 Require Import Model AModel ProofsHeap ProofsSched ProofsRun AProofs.
Import ListNotations.
Open Scope Z_scope.

(* the constants as the source-text translator found them *)
Definition pC : consts :=
  mkC min_time_wait min_time_update
      (max_for Params.sched_max_years_wait_for) (max_for Params.sched_max_years_wait_for_ceil)
      (max_for Params.sched_max_years_update_for) (max_for Params.sched_max_years_update_for_ceil).

Definition Abs (E : env) (s : state) (a : astate) : Prop :=
  a_now a = now s /\
  (forall e, valid E e = true -> (e < length (a_due a))%nat) /\
  forall e d, due s e d <-> adue a e = Some d.

Lemma abs_none : forall E s a e, Inv E s -> Abs E s a -> (handle_of s e = None <-> adue a e = None).
Proof.
  intros E s a e I (_ & _ & A). split; intros H.
  - destruct (adue a e) as [d|] eqn:Ed; auto. apply A in Ed.
    exfalso. apply (due_scheduled E s e d I Ed). auto.
  - destruct (handle_of s e) as [hid|] eqn:Ho; auto.
    destruct (scheduled_due E s e hid I Ho) as (d & Hd). apply A in Hd. congruence.
Qed.

Lemma abs_set : forall E s a s1 e t, Abs E s a -> set_due s s1 e t -> now s1 = now s ->
  (e < length (a_due a))%nat -> Abs E s1 (aset a e (Some t)).
Proof.
  intros E s a s1 e t (N & L & A) SD Nw He. split; [simpl; congruence|]. split.
  - intros e0 V. simpl. rewrite upd_length. auto.
  - intros e0 d. rewrite adue_aset. rewrite (SD e0 d).
    destruct (Nat.eqb_spec e0 e); simpl.
    + subst. destruct (Nat.ltb_spec e (length (a_due a))); [|lia].
      split; [intros [[_ ->]|[X _]]; congruence|intros X; inversion X; auto].
    + rewrite (A e0 d). split; [intros [[X _]|[_ X]]; congruence|auto].
Qed.

Lemma abs_unset : forall E s a s1 e, Abs E s a -> unset_due s s1 e -> now s1 = now s ->
  Abs E s1 (aset a e None).
Proof.
  intros E s a s1 e (N & L & A) UD Nw. split; [simpl; congruence|]. split.
  - intros e0 V. simpl. rewrite upd_length. auto.
  - intros e0 d. rewrite adue_aset. rewrite (UD e0 d).
    destruct (Nat.eqb_spec e0 e); simpl.
    + subst. destruct (Nat.ltb_spec e (length (a_due a))).
      * split; [intros [X _]; congruence|discriminate].
      * rewrite (A e d). unfold adue. rewrite nth_overflow by lia. split; [intros [X _]; congruence|discriminate].
    + rewrite (A e0 d). tauto.
Qed.

Lemma abs_same : forall E s a s1, Abs E s a -> same_due s s1 -> now s1 = now s -> Abs E s1 a.
Proof.
  intros E s a s1 (N & L & A) SD Nw. split; [congruence|]. split; auto.
  intros e d. rewrite (SD e d). apply A.
Qed.

(* ------------------------------------------------------------------ basic operations *)

Lemma sim_wait_until : forall E s a e t s1 o, Inv E s -> Abs E s a -> wait_until E s e t = (s1, o) ->
  exists a1, await_until pC E a e t = (a1, o) /\ Abs E s1 a1.
Proof.
  intros E s a e t s1 o I Ab H.
  pose proof (wait_until_spec E s e t s1 o I H) as (_ & Nw & Ef).
  unfold wait_until in H. unfold await_until. simpl c_min_wait.
  destruct (t =? 0); [inversion H; subst; eauto|].
  destruct (t <? min_time_wait); [inversion H; subst; eauto|].
  destruct (valid E e) eqn:V; simpl in *; [|inversion H; subst; eauto].
  destruct (handle_of s e) as [hid|] eqn:Ho.
  - inversion H; subst. destruct (adue a e) eqn:Ed; eauto.
    apply (abs_none E s1 a e I Ab) in Ed. congruence.
  - rewrite (proj1 (abs_none E s a e I Ab) Ho).
    destruct (foreign E e); inversion H; subst; eauto.
    destruct Ef as [[X _]|(_ & _ & _ & _ & SD)]; [discriminate|].
    eexists. split; eauto. eapply abs_set; eauto. destruct Ab as (_ & L & _). auto.
Qed.

Lemma sim_update_wait_until : forall E s a e t s1 o, Inv E s -> Abs E s a -> update_wait_until E s e t = (s1, o) ->
  exists a1, aupdate_wait_until pC E a e t = (a1, o) /\ Abs E s1 a1.
Proof.
  intros E s a e t s1 o I Ab H.
  pose proof (update_wait_until_spec E s e t s1 o I H) as (_ & Nw & Ef).
  unfold update_wait_until in H. unfold aupdate_wait_until. simpl c_min_update.
  destruct (t =? 0); [inversion H; subst; eauto|].
  destruct (t <? min_time_update); [inversion H; subst; eauto|].
  destruct (valid E e) eqn:V; simpl in *; [|inversion H; subst; eauto].
  assert (L : (e < length (a_due a))%nat) by (destruct Ab as (_ & L & _); auto).
  destruct (handle_of s e) as [hid|] eqn:Ho.
  - destruct (adue a e) eqn:Ed.
    2:{ apply (abs_none E s a e I Ab) in Ed. congruence. }
    inversion H; subst. destruct Ef as [[X _]|(_ & _ & _ & SD)]; [discriminate|].
    eexists. split; eauto. eapply abs_set; eauto.
  - rewrite (proj1 (abs_none E s a e I Ab) Ho).
    destruct (foreign E e); inversion H; subst; eauto.
    destruct Ef as [[X _]|(_ & _ & _ & SD)]; [discriminate|].
    eexists. split; eauto. eapply abs_set; eauto.
Qed.

Lemma sim_erase : forall E s a e s1 o, Inv E s -> Abs E s a -> erase E s e = (s1, o) ->
  exists a1, aerase E a e = (a1, o) /\ Abs E s1 a1.
Proof.
  intros E s a e s1 o I Ab H.
  pose proof (erase_spec E s e s1 o I H) as (_ & Nw & Ef).
  unfold erase in H. unfold aerase.
  destruct (handle_of s e) as [hid|] eqn:Ho.
  - destruct (adue a e) eqn:Ed.
    2:{ apply (abs_none E s a e I Ab) in Ed. congruence. }
    destruct (negb (valid E e)); inversion H; subst; eauto.
    destruct Ef as [[X _]|(_ & UD)]; [discriminate|].
    eexists. split; eauto. eapply abs_unset; eauto.
  - rewrite (proj1 (abs_none E s a e I Ab) Ho).
    destruct (foreign E e); inversion H; subst; eauto.
Qed.

(* next_timeout: the value is exactly the one computed from the earliest pending due time *)
Lemma sim_next_timeout : forall E s a m s1 o, Inv E s -> Abs E s a -> next_timeout s m = (s1, o) ->
  o = anext_timeout a m /\ Abs E s1 a.
Proof.
  intros E s a m s1 o I Ab H.
  pose proof (next_timeout_spec E s m s1 o I H) as (_ & Nw & SD & _).
  split; [|eapply abs_same; eauto].
  destruct Ab as (N & L & A).
  unfold next_timeout in H. unfold anext_timeout.
  pose proof (pop_while_spec is_tomb (length (heap s)) (heap s) (inv_heap E s I) (le_n _)) as P.
  cbv zeta in P. destruct P as (Ok & Sub & Live & _ & Hd).
  set (hp := pop_while is_tomb (length (heap s)) (heap s)) in *.
  assert (Hdue : forall e d, due s e d -> exists h, In h hp /\ h_time h = d).
  { intros e d (h & X & Y & Z). exists h. split; auto. apply Live; auto. unfold is_tomb. rewrite Y. auto. }
  destruct hp as [|h0 r] eqn:Ehp.
  - inversion H; subst. destruct (amin (a_due a)) as [d0|] eqn:Em; auto.
    destruct (amin_some _ _ Em) as ((e0 & He0) & _). apply A in He0. apply Hdue in He0.
    destruct He0 as (h & [] & _).
  - assert (Hmin : forall e d, due s e d -> h_time h0 <= d).
    { intros e d Hd1. apply Hdue in Hd1. destruct Hd1 as (h & X & <-). apply (heap_front_min h0 r h Ok X). }
    assert (Hlive : exists e0, due s e0 (h_time h0)).
    { unfold is_tomb in Hd. destruct (h_entry h0) as [e0|] eqn:En; [|discriminate].
      exists e0, h0. split; auto. apply Sub. left. auto. }
    destruct Hlive as (e0 & Hl).
    destruct (amin (a_due a)) as [d0|] eqn:Em.
    + destruct (amin_some _ _ Em) as ((e1 & He1) & Hm).
      assert (d0 = h_time h0).
      { pose proof (Hm e0 (h_time h0) (proj1 (A _ _) Hl)). apply A in He1. apply Hmin in He1. lia. }
      subst d0. rewrite N. destruct (_ >=? _); inversion H; subst; auto.
    + apply A in Hl. unfold adue in Hl. rewrite (amin_none _ Em e0) in Hl. discriminate.
Qed.

Lemma sim_basic : forall E s a b s1 o, Inv E s -> Abs E s a -> exec_basic E s b = (s1, o) ->
  exists a1, aexec_basic pC E a b = (a1, o) /\ Abs E s1 a1.
Proof.
  intros E s a b s1 o I Ab H. pose proof Ab as (N & _). destruct b; simpl in H |- *; rewrite ?N.
  - eapply sim_wait_until; eauto.
  - destruct (dt >? _); [inversion H; subst; eauto|]. eapply sim_wait_until; eauto.
  - destruct (dt >? _); [inversion H; subst; eauto|]. eapply sim_wait_until; eauto.
  - eapply sim_update_wait_until; eauto.
  - destruct (dt >? _); [inversion H; subst; eauto|]. eapply sim_update_wait_until; eauto.
  - destruct (dt >? _); [inversion H; subst; eauto|]. eapply sim_update_wait_until; eauto.
  - eapply sim_erase; eauto.
  - destruct (sim_next_timeout E s a m s1 o I Ab H) as (-> & Ab1). eauto.
  - inversion H; subst. eexists. split; eauto.
    destruct Ab as (_ & L & A). split; [reflexivity|]. split; auto.
Qed.

Lemma sim_script : forall E bs s a s1 os err, Inv E s -> Abs E s a -> run_script E s bs = (s1, os, err) ->
  exists a1, arun_script pC E a bs = (a1, os, err) /\ Abs E s1 a1.
Proof.
  induction bs as [|b bs IH]; simpl; intros s a s1 os err I Ab H.
  - inversion H; subst. eauto.
  - destruct (exec_basic E s b) as [sx o] eqn:X.
    destruct (sim_basic E s a b sx o I Ab X) as (ax & Xa & Abx). rewrite Xa.
    apply exec_basic_spec in X; auto. destruct X as (Ix & _).
    destruct o.
    + destruct (run_script E sx bs) as [[s2 os2] err2] eqn:R. inversion H; subst.
      destruct (IH _ _ _ _ _ Ix Abx R) as (a2 & Ra & Ab2). rewrite Ra. eauto.
    + inversion H; subst. eauto.
    + destruct (run_script E sx bs) as [[s2 os2] err2] eqn:R. inversion H; subst.
      destruct (IH _ _ _ _ _ Ix Abx R) as (a2 & Ra & Ab2). rewrite Ra. eauto.
Qed.

(* ------------------------------------------------------------------ perform *)

Definition conv (oc : outcome) : aoutcome :=
  match oc with Done => ADone | Aborted => AAborted | OutOfFuel => AOutOfFuel end.

Lemma fires_allowed : forall E t s a e d s1, Abs E s a -> fires E t s e d s1 ->
  allowed a t e = Some d /\ Abs E s1 (aset a e None).
Proof.
  intros E t s a e d s1 Ab (Hd & Le & Min & I1 & N1 & U & Nw).
  pose proof Ab as (N & L & A). split.
  - unfold allowed. rewrite (proj1 (A e d) Hd).
    destruct (amin (a_due a)) as [m|] eqn:Em.
    + destruct (amin_some _ _ Em) as ((e1 & He1) & Hm).
      pose proof (Hm e d (proj1 (A e d) Hd)). apply A in He1. apply Min in He1.
      destruct (Z.leb_spec d t); [|lia]. destruct (Z.leb_spec d m); [|lia]. reflexivity.
    + apply A in Hd. unfold adue in Hd. rewrite (amin_none _ Em e) in Hd. discriminate.
  - eapply abs_unset; eauto.
Qed.

Theorem sim_dispatch : forall E t k s evs oc s1, Dispatch E t k s evs oc s1 ->
  forall a, Abs E s a -> exists cs a1, aperform pC E k a t cs = (a1, evs, conv oc) /\ Abs E s1 a1.
Proof.
  induction 1; intros a Ab.
  - exists [], a. simpl. split; [|eapply abs_same; eauto].
    destruct Ab as (N & L & A).
    destruct (amin (a_due a)) as [m|] eqn:Em; auto.
    destruct (amin_some _ _ Em) as ((e1 & He1) & _). apply A in He1. apply H2 in He1.
    destruct (Z.leb_spec m t); [lia|reflexivity].
  - destruct (fires_allowed _ _ _ _ _ _ _ Ab H) as (Al & Ab1).
    exists [e], (aset a e None). simpl. rewrite Al. auto.
  - destruct (fires_allowed _ _ _ _ _ _ _ Ab H) as (Al & Ab1).
    destruct H as (_ & _ & _ & I1 & _).
    destruct (sim_script E _ _ _ _ _ _ I1 Ab1 H0) as (a2 & Ra & Ab2).
    exists [e], a2. simpl. rewrite Al. unfold script in Ra. rewrite Ra. auto.
  - destruct (fires_allowed _ _ _ _ _ _ _ Ab H) as (Al & Ab1).
    destruct H as (_ & _ & _ & I1 & _).
    destruct (sim_script E _ _ _ _ _ _ I1 Ab1 H0) as (a2 & Ra & Ab2).
    destruct (IHDispatch a2 Ab2) as (cs & a3 & Pa & Ab3).
    exists (e :: cs), a3. simpl. rewrite Al. unfold script in Ra. rewrite Ra, Pa. auto.
Qed.

(* ------------------------------------------------------------------ whole runs (Basic and Perform ops) *)

Definition no_loop_op (o : op) : bool := match o with Loop _ _ _ _ => false | _ => true end.

Theorem sim_run : forall E ops s a s1 outs, Inv E s -> Abs E s a -> forallb no_loop_op ops = true ->
  run E s ops = (s1, outs) ->
  exists css a1, length css = length ops /\ arun pC E a (combine ops css) = (a1, outs) /\ Abs E s1 a1.
Proof.
  induction ops as [|o r IH]; simpl; intros s a s1 outs I Ab NL H.
  - inversion H; subst. exists [], a. auto.
  - apply andb_prop in NL. destruct NL as (NLo & NLr).
    destruct o as [b|t|t1 d m c]; simpl in H, NLo; [| |discriminate].
    + destruct (exec_basic E s b) as [sx o1] eqn:X.
      destruct (run E sx r) as [s2 ls] eqn:R. inversion H; subst.
      destruct (sim_basic E s a b sx o1 I Ab X) as (ax & Xa & Abx).
      apply exec_basic_spec in X; auto. destruct X as (Ix & _).
      destruct (IH _ _ _ _ Ix Abx NLr R) as (css & a2 & Lc & Ra & Ab2).
      exists ([] :: css), a2. simpl. rewrite Xa, Ra. auto.
    + destruct (perform E (e_fuel E) s t) as [[sx evs] oc] eqn:P.
      destruct (run E sx r) as [s2 ls] eqn:R. inversion H; subst.
      apply perform_refines in P; auto.
      destruct (sim_dispatch _ _ _ _ _ _ _ P a Ab) as (cs & ax & Pa & Abx).
      pose proof (dispatch_inv _ _ _ _ _ _ _ P) as Ix.
      destruct (IH _ _ _ _ Ix Abx NLr R) as (css & a2 & Lc & Ra & Ab2).
      exists (cs :: css), a2. simpl. rewrite Pa, Ra. auto.
Qed.

Lemma abs_init : forall E n, (forall e, valid E e = true -> (e < n)%nat) -> Abs E (init n) (ainit n).
Proof.
  intros E n W. split; [reflexivity|]. split.
  - intros e V. simpl. rewrite repeat_length. auto.
  - intros e d. split.
    + intros Hd. exfalso. eapply init_no_due; eauto.
    + unfold adue, ainit. simpl. intros Hd.
      assert (nth e (repeat (@None Z) n) None = None).
      { clear. revert e. induction n; destruct e; simpl; auto. }
      congruence.
Qed.

(* the libstdc++-heap policy is an admissible tie-breaking policy: every run from the initial state *)
Theorem heap_policy_admissible : forall E n ops s1 outs,
  (forall e, valid E e = true -> (e < n)%nat) -> forallb no_loop_op ops = true ->
  run E (init n) ops = (s1, outs) ->
  exists css a1, length css = length ops /\ arun pC E (ainit n) (combine ops css) = (a1, outs) /\ Abs E s1 a1.
Proof.
  intros E n ops s1 outs W NL H.
  eapply sim_run; eauto. apply init_inv; auto. apply abs_init; auto.
Qed.
