(* C17 proofs, part B: reachability corollaries, computed witnesses (refutations) and finite
   instance theorems. *)
From Coq Require Import List NArith Bool Arith Lia.
From LTV.C17 Require Import Model ProofsA ProofsC.
Import ListNotations.

Lemma init_wf progs nids bds : Forall wf_thread (threads (init progs nids bds)).
Proof.
  unfold init; simpl. apply Forall_forall. intros th H. apply in_map_iff in H. destruct H as (p & <- & _).
  unfold wf_thread, init_thread; simpl. apply sh_c. constructor.
Qed.

Lemma reachable_wf progs nids bds c :
  reachable (init progs nids bds) c -> crashed c = false -> Forall wf_thread (threads c).
Proof.
  induction 1; intros NC.
  - apply init_wf.
  - eapply step_wf; eauto. apply IHreachable. destruct (crashed c) eqn:E; auto.
    erewrite step_crashed_mono in NC; eauto.
Qed.

(* generation never decreases along any schedule *)
Lemma ids_le_trans a b c : ids_le a b -> ids_le b c -> ids_le a c.
Proof.
  intros (L1 & H1) (L2 & H2). split. congruence. intros i w w' Hw Hw'.
  destruct (nth_error b i) eqn:E.
  - specialize (H1 _ _ _ Hw E). specialize (H2 _ _ _ E Hw'). lia.
  - apply nth_error_None in E. assert (i < length a) by (apply nth_error_Some; congruence). lia.
Qed.
Lemma run_gen_monotone sched : forall c, ids_le (ids c) (ids (run c sched)).
Proof.
  induction sched; simpl; intros. apply ids_le_refl.
  eapply ids_le_trans; [|apply IHsched]. unfold sstep. destruct (step c a) eqn:E.
  eapply step_gen_monotone; eauto. apply ids_le_refl.
Qed.

(* a thread is inside at most one callback, and m_callback_processing_id is that callback's id:
   consequences of the shape invariant *)
Lemma in_callback_shape progs nids bds c t th u :
  reachable (init progs nids bds) c -> crashed c = false ->
  nth_error (threads c) t = Some th -> cur th = Some u ->
  exists pre b e es oi p,
    todo th = pre ++ map ICmd b ++ IRet e :: IBatch es oi :: map ICmd p /\ e_uid e = u /\ proc th = e_id e /\
    (forall x, In x pre -> is_micro x = true \/ (exists i, x = IDlAdd i) \/ (exists i, x = IDlCancel i)).
Proof.
  intros R NC Ht Hc. pose proof (Forall_nth_error _ _ _ _ (reachable_wf _ _ _ _ R NC) Ht) as W.
  unfold wf_thread in W. rewrite Hc in W. remember (Some u) as cu eqn:E. remember (todo th) as td eqn:Etd.
  destruct W; try discriminate; subst cu;
  match goal with H : cshape _ (Some _) _ |- _ => apply cshape_some in H; destruct H as (b & e & es & oi & p & -> & -> & ->) end.
  - exists []; repeat eexists. intros x [].
  - exists [m]. repeat eexists. intros x [<-|[]]; auto.
  - exists [IDlAdd i; IDlAnd i]. repeat eexists. intros x [<-|[<-|[]]]; eauto.
  - exists [IDlCancel i; IDlWLoad i]. repeat eexists. intros x [<-|[<-|[]]]; eauto.
Qed.

(* ------------------------------------------------------------------ computed witnesses *)
Definition ev_eqb_run (u : uid) (e : event) : bool := match e with EvRun v _ _ _ => uid_eqb u v | _ => false end.
Definition ev_eqb_postret (u : uid) (e : event) : bool := match e with EvPostRet v => uid_eqb u v | _ => false end.
Definition ev_is_cwbegin (t : tid) (i : idx) (e : event) : bool :=
  match e with EvCwBegin t' i' => Nat.eqb t t' && Nat.eqb i i' | _ => false end.
Definition ev_is_cwret (t : tid) (i : idx) (e : event) : bool :=
  match e with EvCwRet t' i' _ => Nat.eqb t t' && Nat.eqb i i' | _ => false end.

(* chronological log = rev (log c). [runs_after_cancel]: PostRet u ... CwBegin t i ... CwRet t i ... Run u *)
Fixpoint after (p : event -> bool) (l : list event) : option (list event) :=
  match l with [] => None | e :: r => if p e then Some r else after p r end.
Definition runs_after_cancel (chron : list event) (u : uid) (t : tid) (i : idx) : bool :=
  match after (ev_eqb_postret u) chron with
  | None => false
  | Some l1 => match after (ev_is_cwbegin t i) l1 with
    | None => false
    | Some l2 => match after (ev_is_cwret t i) l2 with
      | None => false
      | Some l3 => existsb (ev_eqb_run u) l3
      end end end.

(* hand case 5 of gen/c17.py: thread 0 runs callback 1.0 (body: two-argument cancel-and-wait on id 0)
   while thread 1 has passed the generation check for callback 0.0 of the same id *)
Definition wit_progs : list (list cmd) :=
  [[Post 1 KNormal (Some 0) 1; Dispatch (false, [])]; [Post 0 KNormal (Some 0) 0; Dispatch (false, [])]].
Definition wit_bodies : list (list cmd) := [[CancelWait2 0]; []].
Definition wit_sched : list tid :=
  [0;0;0;0;1;1;1;1;0;0;0;0;1;1;1;0;0;0;0;0;0;0;1;1;1;1].

Lemma cancel_final_two_arg_refuted :
  exists progs bds nids sched u t i,
    let c := run (init progs nids bds) sched in
    crashed c = false /\ In (u, i) (fin2 c) /\ runs_after_cancel (rev (log c)) u t i = true.
Proof.
  exists wit_progs, wit_bodies, 1, wit_sched, (0, 0), 0, 0. vm_compute. repeat split; auto.
Qed.

(* mutual cancellation with the SINGLE-argument form deadlocks: both wait for the other's count *)
Definition dead_progs : list (list cmd) :=
  [[Post 1 KNormal (Some 0) 0; Dispatch (false, [])]; [Post 0 KNormal (Some 0) 0; Dispatch (false, [])]].
Definition dead_bodies : list (list cmd) := [[CancelWait 0]].
Definition rr (n : nat) : list tid := concat (repeat [0; 1] n).
Lemma single_arg_mutual_cancel_deadlocks :
  exists sched, let c := run (init dead_progs 1 dead_bodies) sched in
    finished c = false /\ enabled c 0 = false /\ enabled c 1 = false.
Proof. exists (rr 12). vm_compute. repeat split. Qed.

(* two-argument form: the state in which both threads are inside a callback of the shared id and
   about to call cancel_callback_and_wait(id, other); from there EVERY maximal interleaving lets
   both calls return and both threads finish (no deadlock, no livelock), within [fuel] steps. *)
Definition mut_bodies : list (list cmd) := [[CancelWait2 0]].
Definition mut_mid : cfg := run (init dead_progs 1 mut_bodies) (rr 8).

Fixpoint all_paths_finish (fuel : nat) (c : cfg) : bool :=
  match fuel with
  | O => false
  | S f =>
      if finished c then true
      else (enabled c 0 || enabled c 1) &&
           (match step c 0 with Some c' => all_paths_finish f c' | None => true end) &&
           (match step c 1 with Some c' => all_paths_finish f c' | None => true end)
  end.

Lemma mut_mid_inside :
  map (fun th => (proc th, cur th, hd_error (todo th))) (threads mut_mid) =
  [(Some 0, Some (1, 0), Some (ICmd (CancelWait2 0))); (Some 0, Some (0, 0), Some (ICmd (CancelWait2 0)))].
Proof. vm_compute. reflexivity. Qed.

Lemma mutual_cancel_no_deadlock_instance :
  reachable (init dead_progs 1 mut_bodies) mut_mid /\ all_paths_finish 40 mut_mid = true.
Proof. split. apply run_reachable; constructor. vm_compute. reflexivity. Qed.


(* ------------------------------------------------------------------ non-vacuity examples *)
Definition ex_c : cfg := run (init wit_progs 1 wit_bodies) [0;0;0;0;1;1;1;1;0;0;0;0].
Example shape_invariant_hyps_satisfiable :
  reachable (init wit_progs 1 wit_bodies) ex_c /\ crashed ex_c = false /\
  exists th, nth_error (threads ex_c) 0 = Some th /\ cur th = Some (1, 0) /\ proc th = Some 0.
Proof. split. apply run_reachable; constructor. split. reflexivity. eexists. vm_compute. repeat split. Qed.
Example generation_strictly_increases :
  map gen (ids (run (init wit_progs 1 wit_bodies) wit_sched)) = [1%N].
Proof. vm_compute. reflexivity. Qed.

