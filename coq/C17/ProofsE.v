(* C17 proofs, part E: assembled statements, step-local facts behind the _partial theorems *)
From Coq Require Import List NArith Bool Arith Lia.
From LTV.C17 Require Import Model ProofsA ProofsC ProofsD ProofsB.
Import ListNotations.

Lemma reachable_cnt progs nids bds c : reachable (init progs nids bds) c -> crashed c = false -> cnt_inv c.
Proof.
  induction 1; intros NC. apply init_cnt.
  eapply step_cnt; eauto. apply IHreachable. destruct (crashed c) eqn:E; auto.
  erewrite step_crashed_mono in NC; eauto.
Qed.

(* a thread inside a callback of id i that calls cancel_callback_and_wait(i) only ever blocks when
   somebody else also holds a count: it never waits for its own dispatch *)
Lemma self_cancel_ok progs nids bds c t th i old rest :
  reachable (init progs nids bds) c -> crashed c = false ->
  nth_error (threads c) t = Some th -> todo th = ICwWait i old :: rest \/ (exists ep, todo th = ICwBlk i old ep :: rest) ->
  proc th = Some i ->
  (2 <= cnt old)%N.
Proof.
  intros R NC Ht Htd Hp. pose proof (Forall_nth_error _ _ _ _ (reachable_wf _ _ _ _ R NC) Ht) as W.
  unfold wf_thread in W. destruct Htd as [Htd | (ep & Htd)]; rewrite Htd in W; apply shape_cons in W; split_all; try discriminate.
  all: simpl in H0; rewrite Hp in H0; simpl in H0; rewrite Nat.eqb_refl in H0; destruct H0 as [|(_ & ?)]; auto; discriminate.
Qed.
(* ... and when it is the only holder it goes straight to the CAS *)
Lemma self_cancel_no_wait th i w : proc th = Some i -> cnt w = 1%N -> cw_after_load th i w = ICwCas i w.
Proof. intros Hp Hc. unfold cw_after_load. rewrite Hc, Hp. simpl. rewrite Nat.eqb_refl. reflexivity. Qed.

(* the two-argument form called from OUTSIDE a callback of the id is exactly the single-argument form *)
Lemma two_arg_outside_is_single c t th i rest :
  nth_error (threads c) t = Some th -> todo th = ICmd (CancelWait2 i) :: rest -> oidx_is (proc th) i = false ->
  step c t = step (set_thread c t (set_todo th (ICmd (CancelWait i) :: rest))) t.
Proof.
  intros Ht Htd Hp. unfold step at 1. rewrite Ht, Htd, Hp.
  unfold step. simpl. erewrite nth_error_upd_same by eauto. simpl.
  destruct (nth_error (ids c) i); auto. unfold begin_cw, set_thread, set_threads, add_log, set_snap, set_todo; simpl.
  f_equal. f_equal. 
  assert (forall (l : list thread) n a b, upd (upd l n a) n b = upd l n b) as U.
  { induction l; destruct n; simpl; intros; auto. f_equal. auto. }
  rewrite U. reflexivity.
Qed.

(* ------------------------------------------------------------------ step-local facts (for the _partial theorems) *)
Definition is_run (e : event) : bool := match e with EvRun _ _ _ _ => true | _ => false end.
Lemma step_logs_at_most_one_run c t c' : step c t = Some c' ->
  exists evs, log c' = evs ++ log c /\ length (filter is_run evs) <= 1.
Proof.
  intros H. unfold step in H.
  more_cases H; use_specs; proj_simpl;
  try (exists []; simpl; split; [reflexivity | lia]);
  try (eexists [_]; simpl; split; [reflexivity | simpl; lia]);
  try (eexists [_; _]; simpl; split; [reflexivity | simpl; lia]);
  try (eexists [_; _; _]; simpl; split; [reflexivity | simpl; lia]).
Qed.

Lemma push_appends b k e :
  (k = KNormal -> qn (fst (push_entry b k e)) = qn b ++ [e] /\ qi (fst (push_entry b k e)) = qi b) /\
  (k = KIntr -> qi (fst (push_entry b k e)) = qi b ++ [e] /\ qn (fst (push_entry b k e)) = qn b).
Proof. destruct k; simpl; split; intros; try discriminate; auto. Qed.
Lemma dispatch_takes_queue_in_order b oi batch b1 oi' : disp_lock b oi = Some (batch, b1, oi') ->
  exists ti tn : bool,
    batch = (if ti then qi b else []) ++ (if tn then qn b else []) /\
    qi b1 = (if ti then [] else qi b) /\ qn b1 = (if tn then [] else qn b).
Proof. intros H. apply (disp_lock_spec _ _ _ _ _ H). Qed.
Lemma push_first_iff_empty b k e :
  snd (push_entry b k e) = match k with KNormal => match qn b with [] => true | _ => false end
                                      | KIntr => match qi b with [] => true | _ => false end end.
Proof. destruct k; reflexivity. Qed.

Lemma cancel_final_single_partial progs nids bds c t th i old rest w :
  length progs <= 3 -> reachable (init progs nids bds) c ->
  nth_error (threads c) t = Some th -> todo th = ICwCas i old :: rest ->
  nth_error (ids c) i = Some w -> word_eqb w old = true ->
  (forall t2 th2, t2 <> t -> nth_error (threads c) t2 = Some th2 -> hl i (todo th2) = 0) /\
  (forall e, entry_of c e -> e_id e = Some i -> (fst (e_exp e) < gen (bump w))%N) /\
  (forall e w', (fst (e_exp e) < gen w')%N -> (gen w' < gmod)%N -> upper_eqb (upper w') (e_exp e) = false).
Proof.
  intros L R Ht Htd Hw He. split; [|split].
  - eapply cas_success_quiescent; eauto.
  - intros e E Hi. pose proof (entries_expected_le _ _ _ _ _ _ _ R E Hi Hw). simpl. lia.
  - intros. apply stale_entry_skipped; auto.
Qed.
