(* C17 proofs, part A: basic lemmas, generation monotonicity, shape of a thread's pending-operation
   stack, and the count invariant  cnt(id word) = number of holders. *)
From Coq Require Import List NArith Bool Arith Lia.
From LTV.C17 Require Import Model.
Import ListNotations.

Lemma nth_error_upd_same {A} (l : list A) n x y : nth_error l n = Some y -> nth_error (upd l n x) n = Some x.
Proof. revert n; induction l; destruct n; simpl; intros; try discriminate; auto. Qed.
Lemma nth_error_upd_other {A} (l : list A) n m x : n <> m -> nth_error (upd l n x) m = nth_error l m.
Proof. revert n m; induction l; destruct n, m; simpl; intros; auto; try congruence. Qed.
Lemma upd_length {A} (l : list A) n x : length (upd l n x) = length l.
Proof. revert n; induction l; destruct n; simpl; auto. Qed.
Lemma nth_error_upd {A} (l : list A) n m x :
  nth_error (upd l n x) m = if Nat.eqb n m then (match nth_error l n with Some _ => Some x | None => None end) else nth_error l m.
Proof.
  destruct (Nat.eqb n m) eqn:E.
  - apply Nat.eqb_eq in E; subst. destruct (nth_error l m) eqn:F.
    + eapply nth_error_upd_same; eauto.
    + revert m F; induction l; destruct m; simpl; intros; auto; discriminate.
  - apply Nat.eqb_neq in E. apply nth_error_upd_other; auto.
Qed.

(* ------------------------------------------------------------------ reachability *)
Inductive reachable (c0 : cfg) : cfg -> Prop :=
| r_init : reachable c0 c0
| r_step c t c' : reachable c0 c -> step c t = Some c' -> reachable c0 c'.

Lemma run_reachable c0 sched : forall c, reachable c0 c -> reachable c0 (run c sched).
Proof.
  induction sched; simpl; intros; auto. apply IHsched. unfold sstep.
  destruct (step c a) eqn:E; auto. econstructor; eauto.
Qed.

(* ------------------------------------------------------------------ step destructor *)
Ltac step_cases H :=
  unfold step in H;
  repeat match type of H with
  | context [match ?x with _ => _ end] => destruct x eqn:?; try discriminate
  end;
  try (injection H as H); subst.

(* ------------------------------------------------------------------ generation is monotone *)
Definition ids_le (a b : list idword) : Prop :=
  length a = length b /\ forall i w w', nth_error a i = Some w -> nth_error b i = Some w' -> (gen w <= gen w')%N.

Lemma ids_le_refl a : ids_le a a.
Proof. split; auto. intros. rewrite H in H0. injection H0 as <-. lia. Qed.
Lemma ids_le_upd a i w w' : nth_error a i = Some w -> (gen w <= gen w')%N -> ids_le a (upd a i w').
Proof.
  intros. split. now rewrite upd_length. intros j x y Hx Hy. rewrite nth_error_upd in Hy.
  destruct (Nat.eqb i j) eqn:E.
  - apply Nat.eqb_eq in E; subst. rewrite H in *. injection Hx as <-. injection Hy as <-. auto.
  - rewrite Hx in Hy. injection Hy as <-. lia.
Qed.
Lemma gen_add1 w : (gen w <= gen (add1 w))%N.
Proof. unfold add1. destruct (cnt w <? 7)%N; simpl; try lia. destruct (dl w); lia. Qed.
Lemma gen_sub1 w : (gen w <= gen (sub1 w))%N.
Proof. unfold sub1. destruct (0 <? cnt w)%N; simpl; try lia. destruct (dl w); unfold gmod; lia. Qed.
Lemma gen_bump w : (gen w <= gen (bump w))%N. Proof. simpl; lia. Qed.
Lemma gen_set_dl w b : (gen w <= gen (set_dl w b))%N. Proof. simpl; lia. Qed.
Lemma gen_notify_le w w' : (gen w <= gen w')%N -> (gen w <= gen (notify w'))%N. Proof. auto. Qed.

(* ------------------------------------------------------------------ projections through the ghost updates *)
Lemma ids_post_ret c u o : ids (post_ret c u o) = ids c.
Proof. unfold post_ret, add_posted. destruct o; reflexivity. Qed.
Lemma threads_post_ret c u o : threads (post_ret c u o) = threads c.
Proof. unfold post_ret, add_posted. destruct o; reflexivity. Qed.
Lemma boxes_post_ret c u o : boxes (post_ret c u o) = boxes c.
Proof. unfold post_ret, add_posted. destruct o; reflexivity. Qed.
Lemma crashed_post_ret c u o : crashed (post_ret c u o) = crashed c.
Proof. unfold post_ret, add_posted. destruct o; reflexivity. Qed.
Lemma fin1_post_ret c u o : fin1 (post_ret c u o) = fin1 c.
Proof. unfold post_ret, add_posted. destruct o; reflexivity. Qed.
Lemma log_post_ret c u o : log (post_ret c u o) = EvPostRet u :: log c.
Proof. unfold post_ret, add_posted. destruct o; reflexivity. Qed.
Lemma posted_post_ret c u o : posted (post_ret c u o) = match o with Some i => (u, i) :: posted c | None => posted c end.
Proof. unfold post_ret, add_posted. destruct o; reflexivity. Qed.
Lemma ids_cw_ret c t th i two : ids (cw_ret c t th i two) = ids c.
Proof. unfold cw_ret, add_fin. destruct two; reflexivity. Qed.
Lemma threads_cw_ret c t th i two : threads (cw_ret c t th i two) = threads c.
Proof. unfold cw_ret, add_fin. destruct two; reflexivity. Qed.
Lemma boxes_cw_ret c t th i two : boxes (cw_ret c t th i two) = boxes c.
Proof. unfold cw_ret, add_fin. destruct two; reflexivity. Qed.
Lemma crashed_cw_ret c t th i two : crashed (cw_ret c t th i two) = crashed c.
Proof. unfold cw_ret, add_fin. destruct two; reflexivity. Qed.
Lemma posted_cw_ret c t th i two : posted (cw_ret c t th i two) = posted c.
Proof. unfold cw_ret, add_fin. destruct two; reflexivity. Qed.
Lemma log_cw_ret c t th i two : log (cw_ret c t th i two) = EvCwRet t i two :: log c.
Proof. unfold cw_ret, add_fin. destruct two; reflexivity. Qed.
Lemma fin1_cw_ret c t th i two : fin1 (cw_ret c t th i two) =
  if two then fin1 c else filter (fun p => Nat.eqb (snd p) i && negb (ouid_is (cur th) (fst p))) (cwsnap th) ++ fin1 c.
Proof. unfold cw_ret, add_fin. destruct two; reflexivity. Qed.

(* notify_all() only moves the ghost notify count *)
Lemma cnt_notify w : cnt (notify w) = cnt w. Proof. reflexivity. Qed.
Lemma dl_notify w : dl (notify w) = dl w. Proof. reflexivity. Qed.
Lemma gen_notify w : gen (notify w) = gen w. Proof. reflexivity. Qed.
Lemma word_N_notify w : word_N (notify w) = word_N w. Proof. reflexivity. Qed.
Lemma upper_notify w : upper (notify w) = upper w. Proof. reflexivity. Qed.
Lemma word_eqb_notify w o : word_eqb (notify w) o = word_eqb w o. Proof. reflexivity. Qed.
#[export] Hint Rewrite cnt_notify dl_notify gen_notify word_N_notify upper_notify word_eqb_notify : c17proj.

#[export] Hint Rewrite ids_post_ret threads_post_ret boxes_post_ret crashed_post_ret fin1_post_ret log_post_ret posted_post_ret
  ids_cw_ret threads_cw_ret boxes_cw_ret crashed_cw_ret posted_cw_ret log_cw_ret fin1_cw_ret : c17proj.

Lemma push_to_spec c tgt k e c1 f :
  push_to c tgt k e = Some (c1, f) ->
  exists b, nth_error (boxes c) tgt = Some b /\
    c1 = set_box c tgt (fst (push_entry b k e)) /\ f = snd (push_entry b k e).
Proof.
  unfold push_to. destruct (nth_error (boxes c) tgt) eqn:E; try discriminate.
  destruct (push_entry m k e) eqn:P. intros H; injection H as <- <-. eexists; split; eauto. rewrite P; auto.
Qed.
Lemma interrupt_spec c tgt c1 :
  interrupt c tgt = Some c1 -> exists b, nth_error (boxes c) tgt = Some b /\ c1 = set_box c tgt (set_intr b).
Proof. unfold interrupt. destruct (nth_error (boxes c) tgt) eqn:E; try discriminate. intros H; injection H as <-. eauto. Qed.

Ltac more_cases H :=
  repeat match type of H with
  | context [match ?x with _ => _ end] => destruct x eqn:?; try discriminate
  end;
  try (injection H as H); subst.

Ltac open_step H th it rest Ht Htd :=
  unfold step in H;
  match type of H with context [nth_error (threads ?c) ?t] =>
    destruct (nth_error (threads c) t) as [th|] eqn:Ht; try discriminate;
    destruct (todo th) as [|it rest] eqn:Htd; try discriminate
  end.

Ltac split_all :=
  repeat match goal with
  | H : _ \/ _ |- _ => destruct H
  | H : exists _, _ |- _ => destruct H
  | H : _ /\ _ |- _ => destruct H
  end.

Ltac inj_items :=
  repeat match goal with
  | H : ICmd _ = ICmd _ |- _ => injection H as H; subst
  | H : IRet _ = IRet _ |- _ => injection H as H; subst
  | H : IRun _ = IRun _ |- _ => injection H as H; subst
  | H : IBatch _ _ = IBatch _ _ |- _ => injection H as ? ?; subst
  | H : IDlAdd _ = IDlAdd _ |- _ => injection H as H; subst
  | H : IDlCancel _ = IDlCancel _ |- _ => injection H as H; subst
  | H : ISkipSub _ _ = ISkipSub _ _ |- _ => injection H as ? ?; subst
  | H : IEndCb _ _ = IEndCb _ _ |- _ => injection H as ? ?; subst
  end; subst.

Ltac use_specs :=
  repeat match goal with
  | H : push_to _ _ _ _ = Some _ |- _ => apply push_to_spec in H; destruct H as (? & ? & -> & ?)
  | H : interrupt _ _ = Some _ |- _ => apply interrupt_spec in H; destruct H as (? & ? & ->)
  | H : begin_cw _ _ _ _ = _ |- _ => unfold begin_cw in H; injection H as <- <-
  end.

Ltac proj_simpl :=
  unfold start_entry in *; autorewrite with c17proj in *; simpl in *; autorewrite with c17proj in *; simpl in *.

Lemma step_gen_monotone c t c' : step c t = Some c' -> ids_le (ids c) (ids c').
Proof.
  intros H. unfold step in H. more_cases H. all: use_specs. all: proj_simpl.
  all: try apply ids_le_refl.
  all: try (eapply ids_le_upd; eauto using gen_add1, gen_sub1, gen_bump, gen_set_dl, gen_notify_le).
Qed.

Lemma step_crashed_mono c t c' : step c t = Some c' -> crashed c = true -> crashed c' = true.
Proof.
  intros H C. unfold step in H. more_cases H. all: use_specs. all: proj_simpl; auto.
Qed.

(* ------------------------------------------------------------------ shape of the pending-operation stack *)
Definition is_micro (it : item) : bool :=
  match it with
  | IPostLock _ _ _ _ _ _ | IPostSub _ _ _ _ | IPostIntr _ _ _ | ICwLoad _ | ICwWait _ _ | ICwBlk _ _ _ | ICwCas _ _
  | IDlLoad _ | IDlCas _ _ | IDlAnd _ | IDlWLoad _ | IDlWWait _ _ | IDlWBlk _ _ _ | IPollWait _ | IPollLeave => true
  | _ => false
  end.

(* what the thread knew when it decided to wait / to CAS in cancel_callback_and_wait(id) *)
Definition micro_ok (pr : option idx) (m : item) : Prop :=
  match m with
  | ICwWait i old | ICwBlk i old _ => (2 <= cnt old)%N \/ (cnt old = 1%N /\ oidx_is pr i = false)
  | ICwCas i old => cnt old = 0%N \/ (cnt old = 1%N /\ oidx_is pr i = true)
  | _ => True
  end.

(* at a command boundary: either at top level, or inside the body of a running callback *)
Inductive cshape : list item -> option uid -> option idx -> Prop :=
| cs_top p : cshape (map ICmd p) None None
| cs_body b e es oi p :
    cshape (map ICmd b ++ IRet e :: IBatch es oi :: map ICmd p) (Some (e_uid e)) (e_id e).

Inductive shape : list item -> option uid -> option idx -> Prop :=
| sh_c rest cu pr : cshape rest cu pr -> shape rest cu pr
| sh_m m rest cu pr : is_micro m = true -> micro_ok pr m -> cshape rest cu pr -> shape (m :: rest) cu pr
| sh_dl1 i rest cu pr : cshape rest cu pr -> shape (IDlAdd i :: IDlAnd i :: rest) cu pr
| sh_dl2 i rest cu pr : cshape rest cu pr -> shape (IDlCancel i :: IDlWLoad i :: rest) cu pr
| sh_batch es oi p : shape (IBatch es oi :: map ICmd p) None None
| sh_run e i es oi p : e_id e = Some i -> shape (IRun e :: IBatch es oi :: map ICmd p) None (Some i)
| sh_skip i u es oi p : shape (ISkipSub i u :: IBatch es oi :: map ICmd p) None None
| sh_end i u es oi p : shape (IEndCb i u :: IBatch es oi :: map ICmd p) None None.

Definition wf_thread (th : thread) : Prop := shape (todo th) (cur th) (proc th).

Lemma cshape_cons it rest cu pr :
  cshape (it :: rest) cu pr ->
  (exists c, it = ICmd c /\ cshape rest cu pr) \/
  (exists e es oi p, it = IRet e /\ rest = IBatch es oi :: map ICmd p /\ cu = Some (e_uid e) /\ pr = e_id e).
Proof.
  intros H. remember (it :: rest) as l eqn:E. destruct H.
  - destruct p; simpl in *; try discriminate. injection E as <- <-. left. eexists; split; eauto. constructor.
  - destruct b; simpl in *.
    + injection E as <- <-. right. repeat eexists.
    + injection E as <- <-. left. eexists; split; eauto. constructor.
Qed.
Lemma cshape_none rest pr : cshape rest None pr -> pr = None /\ exists p, rest = map ICmd p.
Proof. intros H; inversion H; subst. split; eauto. Qed.
Lemma cshape_some rest u pr : cshape rest (Some u) pr ->
  exists b e es oi p, rest = map ICmd b ++ IRet e :: IBatch es oi :: map ICmd p /\ u = e_uid e /\ pr = e_id e.
Proof. intros H; inversion H; subst. repeat eexists. Qed.

Lemma shape_cons it rest cu pr :
  shape (it :: rest) cu pr ->
  (is_micro it = true /\ micro_ok pr it /\ cshape rest cu pr) \/
  (exists i r, it = IDlAdd i /\ rest = IDlAnd i :: r /\ cshape r cu pr) \/
  (exists i r, it = IDlCancel i /\ rest = IDlWLoad i :: r /\ cshape r cu pr) \/
  (exists c, it = ICmd c /\ cshape rest cu pr) \/
  (exists e es oi p, it = IRet e /\ rest = IBatch es oi :: map ICmd p /\ cu = Some (e_uid e) /\ pr = e_id e) \/
  (exists es oi p, it = IBatch es oi /\ rest = map ICmd p /\ cu = None /\ pr = None) \/
  (exists e i es oi p, it = IRun e /\ e_id e = Some i /\ rest = IBatch es oi :: map ICmd p /\ cu = None /\ pr = Some i) \/
  (exists i u es oi p, it = ISkipSub i u /\ rest = IBatch es oi :: map ICmd p /\ cu = None /\ pr = None) \/
  (exists i u es oi p, it = IEndCb i u /\ rest = IBatch es oi :: map ICmd p /\ cu = None /\ pr = None).
Proof.
  intros H. inversion H; subst.
  - match goal with H0 : cshape _ _ _ |- _ => apply cshape_cons in H0; destruct H0 as [(c & -> & Hc) | (e & es & oi & p & -> & -> & -> & ->)] end.
    + do 3 right; left; eauto.
    + do 4 right; left; repeat eexists.
  - left; auto.
  - right; left; eauto.
  - do 2 right; left; eauto.
  - do 5 right; left; repeat eexists.
  - do 6 right; left; repeat eexists; eauto.
  - do 7 right; left; repeat eexists.
  - do 8 right; repeat eexists.
Qed.

Lemma Forall_upd {A} (P : A -> Prop) l n x : Forall P l -> P x -> Forall P (upd l n x).
Proof. intros H; revert n; induction H; destruct n; simpl; intros; constructor; auto. Qed.
Lemma Forall_nth_error {A} (P : A -> Prop) l n x : Forall P l -> nth_error l n = Some x -> P x.
Proof. intros H; revert n; induction H; destruct n; simpl; intros; try discriminate; eauto. injection H1 as <-; auto. Qed.

Lemma cw_after_load_micro th i w : is_micro (cw_after_load th i w) = true.
Proof. unfold cw_after_load. destruct (2 <=? cnt w)%N; auto. destruct ((cnt w =? 1)%N && negb (oidx_is (proc th) i)); auto. Qed.
Lemma cw_after_load_ok th i w : micro_ok (proc th) (cw_after_load th i w).
Proof.
  unfold cw_after_load. destruct (2 <=? cnt w)%N eqn:E2.
  - simpl. left. apply N.leb_le; auto.
  - apply N.leb_gt in E2. destruct (cnt w =? 1)%N eqn:E1.
    + apply N.eqb_eq in E1. destruct (oidx_is (proc th) i) eqn:E3; simpl; rewrite ?E3; [right | right]; split; auto.
    + apply N.eqb_neq in E1. simpl. left. lia.
Qed.

#[export] Hint Constructors shape cshape : c17.
#[export] Hint Resolve cw_after_load_micro cw_after_load_ok : c17.
#[export] Hint Extern 1 (micro_ok _ _) => exact I : c17.

Lemma step_wf c t c' : crashed c' = false -> Forall wf_thread (threads c) -> step c t = Some c' -> Forall wf_thread (threads c').
Proof.
  intros NC W H. open_step H th it rest Ht Htd.
  pose proof (Forall_nth_error _ _ _ _ W Ht) as Hsh. unfold wf_thread in Hsh. rewrite Htd in Hsh. apply shape_cons in Hsh.
  more_cases H.
  all: split_all; try discriminate; inj_items.
  all: use_specs.
  all: proj_simpl; try discriminate.
  all: repeat (apply Forall_upd); auto.
  all: unfold wf_thread in *; simpl in *.
  all: repeat match goal with
    | H : cur ?x = _ |- context [cur ?x] => rewrite H
    | H : proc ?x = _ |- context [proc ?x] => rewrite H
    end.
  all: eauto 6 with c17.
  all: try match goal with H : e_id ?e = _ |- shape (_ ++ IRet ?e :: _) _ _ => rewrite <- H; apply sh_c; constructor end.
  all: try match goal with H : cshape _ None _ |- _ => apply cshape_none in H; destruct H as (HH & p & ->); rewrite ?HH; apply sh_batch end.
  all: try match goal with H : e_id ?x = None |- shape _ None (e_id ?x) => rewrite H; apply sh_batch end.
Qed.

(* ------------------------------------------------------------------ what a locked dispatch section does, for EVERY policy *)
Lemma disp_lock_spec b oi batch b1 oi' : disp_lock b oi = Some (batch, b1, oi') ->
  (exists ti tn : bool,
     batch = (if ti then qi b else []) ++ (if tn then qn b else []) /\
     qi b1 = (if ti then [] else qi b) /\ qn b1 = (if tn then [] else qn b)) /\
  (qn b1 <> [] -> hasn b1 = true \/ (hasn b1 = hasn b /\ qn b1 = qn b)) /\
  (qi b1 <> [] -> hasi b1 = true) /\
  intr b1 = intr b /\ pol b1 = pol b.
Proof.
  unfold disp_lock. destruct (snd oi) as [|ch chs].
  - unfold disp_default. destruct (qi b) eqn:Ei; [destruct (fst oi); [|destruct (qn b) eqn:En]|];
    intros H; injection H as <- <- <-; simpl.
    + split; [exists true, false; simpl; rewrite ?app_nil_r; auto|]. repeat split; auto; congruence.
    + split; [exists true, true; simpl; rewrite ?app_nil_r; auto|]. repeat split; auto; congruence.
    + split; [exists true, true; simpl; rewrite ?app_nil_r; auto|]. repeat split; auto; congruence.
    + split; [exists true, false; simpl; rewrite ?app_nil_r; auto|]. repeat split; auto; congruence.
  - destruct ((negb (ch_hn ch) && nonempty (if ch_tn ch then [] else qn b))
              || (negb (ch_hi ch) && nonempty (if ch_ti ch then [] else qi b))) eqn:E; try discriminate.
    intros H; injection H as <- <- <-; simpl. apply orb_false_iff in E. destruct E as (E1 & E2).
    split; [exists (ch_ti ch), (ch_tn ch); auto|]. repeat split; auto.
    + intros Hq. left. destruct (ch_hn ch); auto. simpl in E1. destruct (if ch_tn ch then [] else qn b); simpl in *; congruence.
    + intros Hq. destruct (ch_hi ch); auto. simpl in E2. destruct (if ch_ti ch then [] else qi b); simpl in *; congruence.
Qed.
