(* C17 proofs, part A: basic lemmas, generation monotonicity, shape of a thread's pending-operation
   stack, and the count invariant  cnt(id word) = number of holders. *)
From Coq Require Import List NArith Bool Arith Lia.
From LTV.C17 Require Import Model.
Import ListNotations.

Lemma nth_error_upd_same {A} (l : list A) n x y : nth_error l n = Some y -> nth_error (upd l n x) n = Some x.
Proof. revert n; induction l; destruct n; simpl; intros; try discriminate; auto. Qed.
Lemma nth_error_upd_other {A} (l : list A) n m x : n <> m -> nth_error (upd l n x) m = nth_error l m.
Proof. revert n m; induction l; destruct n, m; simpl; intros; auto; try congruence. Qed.
Lemma upd_length {A} (l : list A) n x : length (upd l n x) = length l.
Proof. revert n; induction l; destruct n; simpl; auto. Qed.
Lemma nth_error_upd {A} (l : list A) n m x :
  nth_error (upd l n x) m = if Nat.eqb n m then (match nth_error l n with Some _ => Some x | None => None end) else nth_error l m.
Proof.
  destruct (Nat.eqb n m) eqn:E.
  - apply Nat.eqb_eq in E; subst. destruct (nth_error l m) eqn:F.
    + eapply nth_error_upd_same; eauto.
    + revert m F; induction l; destruct m; simpl; intros; auto; discriminate.
  - apply Nat.eqb_neq in E. apply nth_error_upd_other; auto.
Qed.

(* ------------------------------------------------------------------ reachability *)
Inductive reachable (c0 : cfg) : cfg -> Prop :=
| r_init : reachable c0 c0
| r_step c t c' : reachable c0 c -> step c t = Some c' -> reachable c0 c'.

Lemma run_reachable c0 sched : forall c, reachable c0 c -> reachable c0 (run c sched).
Proof.
  induction sched; simpl; intros; auto. apply IHsched. unfold sstep.
  destruct (step c a) eqn:E; auto. econstructor; eauto.
Qed.

(* ------------------------------------------------------------------ step destructor *)
Ltac step_cases H :=
  unfold step in H;
  repeat match type of H with
  | context [match ?x with _ => _ end] => destruct x eqn:?; try discriminate
  end;
  try (injection H as H); subst.

(* ------------------------------------------------------------------ generation is monotone *)
Definition ids_le (a b : list idword) : Prop :=
  length a = length b /\ forall i w w', nth_error a i = Some w -> nth_error b i = Some w' -> (gen w <= gen w')%N.

Lemma ids_le_refl a : ids_le a a.
Proof. split; auto. intros. rewrite H in H0. injection H0 as <-. lia. Qed.
Lemma ids_le_upd a i w w' : nth_error a i = Some w -> (gen w <= gen w')%N -> ids_le a (upd a i w').
Proof.
  intros. split. now rewrite upd_length. intros j x y Hx Hy. rewrite nth_error_upd in Hy.
  destruct (Nat.eqb i j) eqn:E.
  - apply Nat.eqb_eq in E; subst. rewrite H in *. injection Hx as <-. injection Hy as <-. auto.
  - rewrite Hx in Hy. injection Hy as <-. lia.
Qed.
Lemma gen_add1 w : (gen w <= gen (add1 w))%N.
Proof. unfold add1. destruct (cnt w <? 7)%N; simpl; try lia. destruct (dl w); lia. Qed.
Lemma gen_sub1 w : (gen w <= gen (sub1 w))%N.
Proof. unfold sub1. destruct (0 <? cnt w)%N; simpl; try lia. destruct (dl w); unfold gmod; lia. Qed.
Lemma gen_bump w : (gen w <= gen (bump w))%N. Proof. simpl; lia. Qed.
Lemma gen_set_dl w b : (gen w <= gen (set_dl w b))%N. Proof. simpl; lia. Qed.

Lemma ids_post_ret c u o : ids (post_ret c u o) = ids c.
Proof. unfold post_ret, add_posted. destruct o; reflexivity. Qed.
Lemma ids_cw_ret c t th i two : ids (cw_ret c t th i two) = ids c.
Proof. unfold cw_ret, add_fin. destruct two; reflexivity. Qed.
Lemma ids_push_to c tgt k e c' f : push_to c tgt k e = Some (c', f) -> ids c' = ids c.
Proof. unfold push_to. destruct (nth_error (threads c) tgt); try discriminate. destruct (push_entry t k e). intros H; injection H as <- _. reflexivity. Qed.
Lemma ids_interrupt c tgt c' : interrupt c tgt = Some c' -> ids c' = ids c.
Proof. unfold interrupt. destruct (nth_error (threads c) tgt); try discriminate. intros H; injection H as <-. reflexivity. Qed.

Lemma step_gen_monotone c t c' : step c t = Some c' -> ids_le (ids c) (ids c').
Proof.
  intros H. step_cases H;
  repeat match goal with
  | H : push_to _ _ _ _ = Some _ |- _ => apply ids_push_to in H; simpl in H
  | H : interrupt _ _ = Some _ |- _ => apply ids_interrupt in H; simpl in H
  | H : begin_cw _ _ _ _ = _ |- _ => unfold begin_cw in H; injection H as <- <-
  end;
  unfold start_entry; rewrite ?ids_post_ret, ?ids_cw_ret; simpl; rewrite ?ids_post_ret, ?ids_cw_ret; simpl;
  try match goal with H : ids _ = _ |- _ => rewrite H end;
  try apply ids_le_refl;
  try (eapply ids_le_upd; eauto using gen_add1, gen_sub1, gen_bump, gen_set_dl).
Qed.

(* ------------------------------------------------------------------ shape of the pending-operation stack *)
Definition is_micro (it : item) : bool :=
  match it with
  | IPostLock _ _ _ _ _ _ | IPostSub _ _ _ _ | IPostIntr _ _ _ | ICwLoad _ | ICwWait _ _ | ICwCas _ _
  | IDlLoad _ | IDlCas _ _ | IDlAnd _ | IDlWLoad _ | IDlWWait _ _ => true
  | _ => false
  end.

(* at a command boundary: either at top level, or inside the body of a running callback *)
Inductive cshape : list item -> option uid -> option idx -> Prop :=
| cs_top p : cshape (map ICmd p) None None
| cs_body b e es oi p :
    cshape (map ICmd b ++ IRet e :: IBatch es oi :: map ICmd p) (Some (e_uid e)) (e_id e).

Inductive shape : list item -> option uid -> option idx -> Prop :=
| sh_c rest cu pr : cshape rest cu pr -> shape rest cu pr
| sh_m m rest cu pr : is_micro m = true -> cshape rest cu pr -> shape (m :: rest) cu pr
| sh_dl1 i rest cu pr : cshape rest cu pr -> shape (IDlAdd i :: IDlAnd i :: rest) cu pr
| sh_dl2 i rest cu pr : cshape rest cu pr -> shape (IDlCancel i :: IDlWLoad i :: rest) cu pr
| sh_batch es oi p : shape (IBatch es oi :: map ICmd p) None None
| sh_run e i es oi p : e_id e = Some i -> shape (IRun e :: IBatch es oi :: map ICmd p) None (Some i)
| sh_skip i u es oi p : shape (ISkipSub i u :: IBatch es oi :: map ICmd p) None None
| sh_end i u es oi p : shape (IEndCb i u :: IBatch es oi :: map ICmd p) None None.

Definition wf_thread (th : thread) : Prop := shape (todo th) (cur th) (proc th).
Definition wf (c : cfg) : Prop := Forall wf_thread (threads c).

Lemma cshape_cons it rest cu pr :
  cshape (it :: rest) cu pr ->
  (exists c, it = ICmd c /\ cshape rest cu pr) \/
  (exists e es oi p, it = IRet e /\ rest = IBatch es oi :: map ICmd p /\ cu = Some (e_uid e) /\ pr = e_id e).
Proof.
  intros H. remember (it :: rest) as l eqn:E. destruct H.
  - destruct p; simpl in *; try discriminate. injection E as <- <-. left. eexists; split; eauto. constructor.
  - destruct b; simpl in *.
    + injection E as <- <-. right. repeat eexists.
    + injection E as <- <-. left. eexists; split; eauto. constructor.
Qed.
Lemma cshape_none rest pr : cshape rest None pr -> pr = None /\ exists p, rest = map ICmd p.
Proof. intros H; inversion H; subst. split; eauto. Qed.
Lemma cshape_some rest u pr : cshape rest (Some u) pr ->
  exists b e es oi p, rest = map ICmd b ++ IRet e :: IBatch es oi :: map ICmd p /\ u = e_uid e /\ pr = e_id e.
Proof. intros H; inversion H; subst. repeat eexists. Qed.

Lemma shape_cons it rest cu pr :
  shape (it :: rest) cu pr ->
  (is_micro it = true /\ cshape rest cu pr) \/
  (exists i r, it = IDlAdd i /\ rest = IDlAnd i :: r /\ cshape r cu pr) \/
  (exists i r, it = IDlCancel i /\ rest = IDlWLoad i :: r /\ cshape r cu pr) \/
  (exists c, it = ICmd c /\ cshape rest cu pr) \/
  (exists e es oi p, it = IRet e /\ rest = IBatch es oi :: map ICmd p /\ cu = Some (e_uid e) /\ pr = e_id e) \/
  (exists es oi p, it = IBatch es oi /\ rest = map ICmd p /\ cu = None /\ pr = None) \/
  (exists e i es oi p, it = IRun e /\ e_id e = Some i /\ rest = IBatch es oi :: map ICmd p /\ cu = None /\ pr = Some i) \/
  (exists i u es oi p, it = ISkipSub i u /\ rest = IBatch es oi :: map ICmd p /\ cu = None /\ pr = None) \/
  (exists i u es oi p, it = IEndCb i u /\ rest = IBatch es oi :: map ICmd p /\ cu = None /\ pr = None).
Proof.
  intros H. inversion H; subst.
  - apply cshape_cons in H0. destruct H0 as [(c & -> & Hc) | (e & es & oi & p & -> & -> & -> & ->)].
    + do 3 right; left; eauto.
    + do 4 right; left; repeat eexists.
  - left; auto.
  - right; left; eauto.
  - do 2 right; left; eauto.
  - do 5 right; left; repeat eexists.
  - do 6 right; left; repeat eexists; eauto.
  - do 7 right; left; repeat eexists.
  - do 8 right; repeat eexists.
Qed.

Lemma Forall_upd {A} (P : A -> Prop) l n x : Forall P l -> P x -> Forall P (upd l n x).
Proof. intros H; revert n; induction H; destruct n; simpl; intros; constructor; auto. Qed.
Lemma Forall_nth_error {A} (P : A -> Prop) l n x : Forall P l -> nth_error l n = Some x -> P x.
Proof. intros H; revert n; induction H; destruct n; simpl; intros; try discriminate; eauto. injection H1 as <-; auto. Qed.

Definition same_ctl (a b : thread) : Prop := todo a = todo b /\ cur a = cur b /\ proc a = proc b.
Lemma push_entry_ctl th k e : same_ctl (fst (push_entry th k e)) th.
Proof. destruct k; simpl; repeat split. Qed.
Lemma wf_same_ctl a b : same_ctl a b -> wf_thread b -> wf_thread a.
Proof. intros (H1 & H2 & H3). unfold wf_thread. rewrite H1, H2, H3. auto. Qed.

Lemma push_to_spec c tgt k e c1 f :
  push_to c tgt k e = Some (c1, f) ->
  exists tth, nth_error (threads c) tgt = Some tth /\
    c1 = set_thread c tgt (fst (push_entry tth k e)) /\ f = snd (push_entry tth k e).
Proof.
  unfold push_to. destruct (nth_error (threads c) tgt) eqn:E; try discriminate.
  destruct (push_entry t k e) eqn:P. intros H; injection H as <- <-. eexists; split; eauto. rewrite P; auto.
Qed.
Lemma interrupt_spec c tgt c1 :
  interrupt c tgt = Some c1 -> exists tth, nth_error (threads c) tgt = Some tth /\ c1 = set_thread c tgt (set_intr tth).
Proof. unfold interrupt. destruct (nth_error (threads c) tgt) eqn:E; try discriminate. intros H; injection H as <-. eauto. Qed.

Lemma threads_post_ret c u o : threads (post_ret c u o) = threads c.
Proof. unfold post_ret, add_posted. destruct o; reflexivity. Qed.
Lemma threads_cw_ret c t th i two : threads (cw_ret c t th i two) = threads c.
Proof. unfold cw_ret, add_fin. destruct two; reflexivity. Qed.

Lemma cw_after_load_micro th i w : is_micro (cw_after_load th i w) = true.
Proof. unfold cw_after_load. destruct (2 <=? cnt w)%N; auto. destruct ((cnt w =? 1)%N && negb (oidx_is (proc th) i)); auto. Qed.

Lemma disp_lock_ctl th oi b th1 : disp_lock th oi = (b, th1) -> same_ctl th1 th.
Proof. unfold disp_lock. destruct (qi th); [destruct oi; [|destruct (qn th)]|]; intros H; injection H as <- <-; repeat split. Qed.

#[export] Hint Constructors shape cshape : c17.
#[export] Hint Resolve cw_after_load_micro : c17.

Lemma cshape_body_start body e es oi p :
  cshape (map ICmd body ++ IRet e :: IBatch es oi :: map ICmd p) (Some (e_uid e)) (e_id e).
Proof. constructor. Qed.

Lemma crashed_post_ret c u o : crashed (post_ret c u o) = crashed c.
Proof. unfold post_ret, add_posted. destruct o; reflexivity. Qed.
Lemma crashed_cw_ret c t th i two : crashed (cw_ret c t th i two) = crashed c.
Proof. unfold cw_ret, add_fin. destruct two; reflexivity. Qed.

Ltac more_cases H :=
  repeat match type of H with
  | context [match ?x with _ => _ end] => destruct x eqn:?; try discriminate
  end;
  try (injection H as H); subst.

Ltac open_step H W th it rest Ht Htd Hsh :=
  unfold step in H;
  match type of H with context [nth_error (threads ?c) ?t] =>
    destruct (nth_error (threads c) t) as [th|] eqn:Ht; try discriminate;
    pose proof (Forall_nth_error _ _ _ _ W Ht) as Hsh; unfold wf_thread in Hsh;
    destruct (todo th) as [|it rest] eqn:Htd; try discriminate;
    apply shape_cons in Hsh
  end.

Ltac split_all :=
  repeat match goal with
  | H : _ \/ _ |- _ => destruct H
  | H : exists _, _ |- _ => destruct H
  | H : _ /\ _ |- _ => destruct H
  end.

Ltac inj_items :=
  repeat match goal with
  | H : ICmd _ = ICmd _ |- _ => injection H as H; subst
  | H : IRet _ = IRet _ |- _ => injection H as H; subst
  | H : IRun _ = IRun _ |- _ => injection H as H; subst
  | H : IBatch _ _ = IBatch _ _ |- _ => injection H as H; subst
  | H : IDlAdd _ = IDlAdd _ |- _ => injection H as H; subst
  | H : IDlCancel _ = IDlCancel _ |- _ => injection H as H; subst
  | H : ISkipSub _ _ = ISkipSub _ _ |- _ => injection H as ? ?; subst
  | H : IEndCb _ _ = IEndCb _ _ |- _ => injection H as ? ?; subst
  end; subst.

Ltac use_specs :=
  repeat match goal with
  | H : push_to _ _ _ _ = Some _ |- _ => apply push_to_spec in H; destruct H as (? & ? & -> & ?)
  | H : interrupt _ _ = Some _ |- _ => apply interrupt_spec in H; destruct H as (? & ? & ->)
  | H : begin_cw _ _ _ _ = _ |- _ => unfold begin_cw in H; injection H as <- <-
  end.

Definition wfc (c : cfg) : Prop := crashed c = false -> Forall wf_thread (threads c).

Lemma nth_upd_P {A} (P : A -> Prop) l n x m y : Forall P l -> P x -> nth_error (upd l n x) m = Some y -> P y.
Proof. intros. eapply Forall_nth_error; [apply Forall_upd; eauto | eauto]. Qed.

Lemma read_back l t a tgt x k e y b0 :
  nth_error l t = Some b0 ->
  nth_error (upd l t a) tgt = Some x ->
  nth_error (upd (upd l t a) tgt (fst (push_entry x k e))) t = Some y -> same_ctl y a.
Proof.
  intros H0 H1 H2. rewrite nth_error_upd in H2. destruct (Nat.eqb tgt t) eqn:E.
  - apply Nat.eqb_eq in E; subst. rewrite H1 in H2. injection H2 as <-.
    erewrite nth_error_upd_same in H1 by eauto. injection H1 as <-. apply push_entry_ctl.
  - erewrite nth_error_upd_same in H2 by eauto. injection H2 as <-. repeat split.
Qed.

Lemma step_wf c t c' : crashed c' = false -> Forall wf_thread (threads c) -> step c t = Some c' -> Forall wf_thread (threads c').
Proof.
  intros NC W H. open_step H W th it rest Ht Htd Hsh.
  more_cases H.
  all: split_all; try discriminate; inj_items.
  all: use_specs.
  all: repeat match goal with H : disp_lock _ _ = _ |- _ => apply disp_lock_ctl in H; destruct H as (? & ? & ?) end.
  all: unfold start_entry in *; rewrite ?threads_post_ret, ?threads_cw_ret, ?crashed_post_ret, ?crashed_cw_ret in *; simpl in *;
       rewrite ?threads_post_ret, ?threads_cw_ret, ?crashed_post_ret, ?crashed_cw_ret in *; simpl in *; try discriminate.
  all: try match goal with
    | H : nth_error (upd (threads _) _ ?a) ?tgt = Some ?x |- _ =>
        assert (wf_thread a) by (unfold wf_thread; simpl; eauto 6 with c17);
        assert (wf_thread x) by (eapply (nth_upd_P wf_thread); eauto)
    end.
  all: try match goal with
    | H0 : nth_error (threads ?c) ?t = Some _,
      H1 : nth_error (upd (threads ?c) ?t ?a) ?tgt = Some ?x,
      H2 : nth_error (upd (upd (threads ?c) ?t ?a) ?tgt (fst (push_entry ?x ?k ?e))) ?t = Some ?y |- _ =>
        destruct (read_back _ _ _ _ _ _ _ _ _ H0 H1 H2) as (? & ? & ?); simpl in *
    end.
  all: repeat (apply Forall_upd); auto.
  all: try match goal with |- wf_thread (fst (push_entry ?x ?k ?e)) =>
         eapply wf_same_ctl; [apply push_entry_ctl | auto] end.
  all: unfold wf_thread in *; simpl in *;
       repeat match goal with H : cur _ = _ |- _ => rewrite H | H : proc _ = _ |- _ => rewrite H end;
       eauto 6 with c17.
  all: try match goal with H : e_id ?e = _ |- shape (_ ++ IRet ?e :: _) _ _ => rewrite <- H; apply sh_c; constructor end.
  all: try match goal with H : cshape _ None _ |- _ => apply cshape_none in H; destruct H as (HH & p & ->); rewrite ?HH; apply sh_batch end.
  all: try match goal with H : e_id ?x = None |- shape _ None (e_id ?x) => rewrite H; apply sh_batch end.
Qed.
