(* C17 proofs, part L: the 0x8 "deadlock" flag of the two-thread cancel protocol - whenever it is set its setter is
   enabled and clears it within two of its own steps; no deadlock between two threads both in the handshake. *)
From Coq Require Import List NArith Bool Arith Lia.
From LTV.C17 Require Import Model ProofsA ProofsB ProofsC.
Import ListNotations.

(* words remembered by pending operations were read from the id word: count <= 7, and the flag bit is what the
   code tested *)
Definition old_ok (it : item) : Prop :=
  match it with
  | ICwWait _ old | ICwBlk _ old _ | ICwCas _ old => (cnt old <= 7)%N
  | IDlCas _ old => (cnt old <= 7)%N /\ dl old = false
  | IDlWWait _ old | IDlWBlk _ old _ => (cnt old <= 7)%N /\ dl old = true
  | _ => True
  end.
Definition olds_ok (c : cfg) : Prop := Forall (fun th => Forall old_ok (todo th)) (threads c).

Lemma old_cmds l : Forall old_ok (map ICmd l).
Proof. induction l; simpl; constructor; simpl; auto. Qed.
Lemma old_cw th i w : (cnt w <= 7)%N -> old_ok (cw_after_load th i w).
Proof. intros H. unfold cw_after_load. destruct (2 <=? cnt w)%N; simpl; auto. destruct ((cnt w =? 1)%N && negb (oidx_is (proc th) i)); simpl; auto. Qed.

Lemma step_olds c t c' : cnt_inv c -> olds_ok c -> step c t = Some c' -> olds_ok c'.
Proof.
  unfold olds_ok. intros CI A H. open_step H th it rest Ht Htd.
  pose proof (Forall_nth_error _ _ _ _ A Ht) as Hth. cbv beta in Hth. rewrite Htd in Hth. inversion Hth as [|? ? Hit Hrest]; subst.
  more_cases H; use_specs; proj_simpl;
  repeat match goal with Hw : nth_error (ids _) ?i = Some ?w |- _ =>
         lazymatch goal with | _ : (cnt w <= 7)%N |- _ => fail | _ => destruct (CI _ _ Hw) as (? & _) end end.
  all: apply Forall_upd; auto; simpl.
  all: try (apply Forall_app; split; [apply old_cmds|]).
  all: repeat (constructor; simpl; auto using old_cw).
Qed.

Lemma init_olds progs nids bds : olds_ok (init progs nids bds).
Proof. unfold olds_ok, init; simpl. apply Forall_forall. intros th H. apply in_map_iff in H. destruct H as (p & <- & _). apply old_cmds. Qed.

Lemma reachable_olds progs nids bds c : reachable (init progs nids bds) c -> crashed c = false -> olds_ok c.
Proof.
  induction 1; intros NC. apply init_olds.
  assert (crashed c = false) as NC0. { destruct (crashed c) eqn:E; auto. erewrite step_crashed_mono in NC; eauto. }
  eapply step_olds; eauto. clear IHreachable.
  (* count invariant for non-crashed reachable states *)
  revert NC0. clear NC H0. induction H; intros NC0. apply init_cnt.
  eapply step_cnt; eauto. apply IHreachable. destruct (crashed c) eqn:E; auto. erewrite step_crashed_mono in NC0; eauto.
Qed.

Lemma word_eq_dl a b : word_eqb a b = true -> (cnt a <= 7)%N -> (cnt b <= 7)%N -> dl a = dl b.
Proof.
  unfold word_eqb, word_N. intros H La Lb. apply N.eqb_eq in H.
  assert (forall x d c, (c <= 7)%N -> (d = 0 \/ d = 8)%N -> ((x * 16 + d + c) mod 16 = d + c)%N) as M.
  { intros x d c Lc Hd. replace (x * 16 + d + c)%N with ((d + c) + x * 16)%N by lia. rewrite N.mod_add by lia. apply N.mod_small. lia. }
  pose proof (M (gen a mod gmod)%N (if dl a then 8 else 0)%N (cnt a) La) as Ma.
  pose proof (M (gen b mod gmod)%N (if dl b then 8 else 0)%N (cnt b) Lb) as Mb.
  rewrite H in Ma. destruct (dl a), (dl b); auto; rewrite Ma in Mb by auto; specialize (Mb ltac:(auto)); lia.
Qed.

(* the holder of the deadlock flag of id i: a thread between its successful dl_cas and its dl_fetch_and *)
Definition dlh (i : idx) (td : list item) : nat :=
  match td with
  | IDlAdd j :: _ | IDlAnd j :: _ => if Nat.eqb j i then 1 else 0
  | _ => 0
  end.
Definition dsum (i : idx) (ts : list thread) : nat := fold_right (fun th a => dlh i (todo th) + a) 0 ts.
Lemma dsum_upd i ts t th th' : nth_error ts t = Some th ->
  dsum i (upd ts t th') + dlh i (todo th) = dsum i ts + dlh i (todo th').
Proof.
  revert t; induction ts; destruct t; simpl; intros; try discriminate.
  - injection H as ->. lia.
  - specialize (IHts _ H). lia.
Qed.
Definition b2n (b : bool) : nat := if b then 1 else 0.
Definition dl_inv (c : cfg) : Prop := forall i w, nth_error (ids c) i = Some w -> b2n (dl w) = dsum i (threads c).

Lemma cshape_dlh i rest cu pr : cshape rest cu pr -> dlh i rest = 0.
Proof. intros H; destruct H. destruct p; reflexivity. destruct b; reflexivity. Qed.
Lemma dlh_cw i th j w r : dlh i (cw_after_load th j w :: r) = 0.
Proof. unfold cw_after_load. destruct (2 <=? cnt w)%N; simpl; auto. destruct ((cnt w =? 1)%N && negb (oidx_is (proc th) j)); simpl; auto. Qed.

Lemma dlh_cmds i l : dlh i (map ICmd l) = 0.
Proof. destruct l; reflexivity. Qed.
Lemma dlh_body i b e r : dlh i (map ICmd b ++ IRet e :: r) = 0.
Proof. destruct b; reflexivity. Qed.

Lemma dl_add1 w : (cnt w <= 7)%N -> (cnt w =? 7)%N = false -> dl (add1 w) = dl w.
Proof. intros L E. apply N.eqb_neq in E. unfold add1. destruct (cnt w <? 7)%N eqn:K; simpl; auto. apply N.ltb_ge in K. lia. Qed.
Lemma dl_sub1 w : (0 < cnt w)%N -> dl (sub1 w) = dl w.
Proof. intros L. unfold sub1. destruct (0 <? cnt w)%N eqn:K; simpl; auto. apply N.ltb_ge in K. lia. Qed.

Lemma step_dl c t c' : crashed c' = false -> Forall wf_thread (threads c) -> cnt_inv c -> olds_ok c -> dl_inv c ->
  step c t = Some c' -> dl_inv c'.
Proof.
  intros NC W CI OK D H. open_step H th it rest Ht Htd.
  pose proof (Forall_nth_error _ _ _ _ W Ht) as Hsh. unfold wf_thread in Hsh. rewrite Htd in Hsh. apply shape_cons in Hsh.
  pose proof (Forall_nth_error _ _ _ _ OK Ht) as Ho. cbv beta in Ho. rewrite Htd in Ho. inversion Ho as [|? ? Hoit _]; subst.
  more_cases H; use_specs; unfold dl_inv; intros j wj Hj; proj_simpl; try discriminate.
  all: match goal with |- context [dsum ?j (upd _ _ ?th')] =>
         pose proof (dsum_upd j _ _ _ th' Ht) as E; rewrite Htd in E; cbn [todo set_todo set_proc set_cur inc_posted set_snap] in E; rewrite ?dlh_cw, ?dlh_cmds, ?dlh_body in E; simpl in E end.
  all: split_all; try discriminate; inj_items.
  all: repeat match goal with Hc : cshape _ _ _ |- _ => pose proof (cshape_dlh j _ _ _ Hc); clear Hc end.
  all: rewrite ?dlh_cw in *; simpl in *.
  all: try rewrite nth_error_upd in Hj.
  all: repeat match goal with Hw : nth_error (ids _) ?i = Some ?w |- _ =>
         lazymatch goal with | _ : (cnt w <= 7)%N |- _ => fail | _ =>
           let L7 := fresh "L7" in let Cn := fresh "Cn" in destruct (CI _ _ Hw) as (L7 & Cn);
           pose proof (D _ _ Hw) end end.
  all: try match goal with Hx : context [Nat.eqb ?a ?b] |- _ => destruct (Nat.eqb a b) eqn:Eij; [apply Nat.eqb_eq in Eij; subst|] end.
  all: repeat match goal with
    | H1 : nth_error ?l ?n = Some ?a, H2 : match nth_error ?l ?n with _ => _ end = Some _ |- _ => rewrite H1 in H2
    | H1 : nth_error ?l ?n = Some ?a, H2 : nth_error ?l ?n = Some ?b |- _ => rewrite H1 in H2
    end.
  all: repeat match goal with Hx : Some _ = Some _ |- _ => injection Hx as Hx; subst end.
  all: rewrite ?dl_add1 by auto.
  all: try lia.
  all: try (match goal with Hx : nth_error (ids _) ?j = Some ?wj |- b2n (dl ?wj) = _ => pose proof (D _ _ Hx) end).
  all: simpl dl; try lia.
  all: try (match goal with Hw : nth_error (ids _) ?ii = Some ?w |- context [sub1 ?w] =>
              pose proof (hsum_ge ii _ _ _ Ht) as G; rewrite Htd in G; simpl in G; rewrite ?Nat.eqb_refl in G;
              rewrite dl_sub1 by lia; lia end).
  all: try (match goal with He : word_eqb ?a ?b = true |- _ =>
              pose proof (word_eq_dl _ _ He ltac:(assumption) ltac:(assumption)) as Hd end).
  all: unfold b2n in *; simpl dl in *;
       repeat match goal with
       | |- context [if dl ?x then _ else _] => destruct (dl x) eqn:?
       | Hx : context [if dl ?x then _ else _] |- _ => destruct (dl x) eqn:?
       end; try congruence; try lia.
  all: rewrite ?dlh_cmds, ?dlh_body in *; lia.
Qed.

Lemma init_dl progs nids bds : dl_inv (init progs nids bds).
Proof.
  intros i w H. unfold init in *; simpl in *. apply nth_error_In in H. apply repeat_spec in H. subst. simpl.
  induction progs as [|p ps IH]; simpl; auto. rewrite dlh_cmds. auto.
Qed.
Lemma reachable_cnt_nc progs nids bds c : reachable (init progs nids bds) c -> crashed c = false -> cnt_inv c.
Proof.
  induction 1; intros NC. apply init_cnt. eapply step_cnt; eauto. apply IHreachable.
  destruct (crashed c) eqn:E; auto. erewrite step_crashed_mono in NC; eauto.
Qed.
Lemma reachable_dl progs nids bds c : reachable (init progs nids bds) c -> crashed c = false -> dl_inv c.
Proof.
  induction 1; intros NC. apply init_dl.
  assert (crashed c = false) as NC0. { destruct (crashed c) eqn:E; auto. erewrite step_crashed_mono in NC; eauto. }
  eapply step_dl; eauto. eapply reachable_wf; eauto. eapply reachable_cnt_nc; eauto. eapply reachable_olds; eauto.
Qed.

(* a positive holder sum means some thread is the holder *)
Lemma dsum_pos i ts : 1 <= dsum i ts -> exists t th, nth_error ts t = Some th /\ 1 <= dlh i (todo th).
Proof.
  induction ts as [|a ts IH]; simpl; intros H. lia.
  destruct (dlh i (todo a)) eqn:E.
  - destruct IH as (t & th & H1 & H2). lia. exists (S t), th. auto.
  - exists 0, a. simpl. split; auto. lia.
Qed.

(* DEADLOCK FLAG: whenever the 0x8 flag of an id is set, some thread is its setter, standing between its successful
   dl_cas and its dl_fetch_and; that thread is enabled, and its next one or two steps (dl_fetch_add, dl_fetch_and)
   clear the flag. A thread in wait_for_deadlock waits only while the flag is set, hence never forever. *)
Lemma deadlock_flag_has_enabled_setter progs nids bds c i w :
  reachable (init progs nids bds) c -> crashed c = false -> nth_error (ids c) i = Some w -> dl w = true ->
  exists t th r, nth_error (threads c) t = Some th /\
    (todo th = IDlAdd i :: IDlAnd i :: r \/ todo th = IDlAnd i :: r) /\ enabled c t = true.
Proof.
  intros R NC Hw Hd. pose proof (reachable_dl _ _ _ _ R NC _ _ Hw) as D. rewrite Hd in D. simpl in D.
  assert (1 <= dsum i (threads c)) as Hp by lia. destruct (dsum_pos i (threads c) Hp) as (t & th & Ht & Hh).
  pose proof (Forall_nth_error _ _ _ _ (reachable_wf _ _ _ _ R NC) Ht) as Sh. unfold wf_thread in Sh.
  destruct (todo th) as [|it r] eqn:Etd; simpl in Hh; try lia.
  destruct it; simpl in Hh; try lia; destruct (Nat.eqb i0 i) eqn:Ei; try lia; apply Nat.eqb_eq in Ei; subst i0.
  - apply shape_cons in Sh. split_all; try discriminate. inj_items.
    exists t, th, x0. split; auto. split; auto. unfold enabled, step. rewrite Ht, Etd, Hw. reflexivity.
  - exists t, th, r. split; auto. split; auto. unfold enabled, step. rewrite Ht, Etd, Hw. reflexivity.
Qed.

(* a thread blocked in wait_for_deadlock sees the flag set *)
Lemma blocked_in_handshake_wait_sees_flag progs nids bds c t th i old r w :
  reachable (init progs nids bds) c -> crashed c = false ->
  nth_error (threads c) t = Some th -> todo th = IDlWWait i old :: r ->
  nth_error (ids c) i = Some w -> word_eqb w old = true -> dl w = true.
Proof.
  intros R NC Ht Htd Hw He. pose proof (Forall_nth_error _ _ _ _ (reachable_olds _ _ _ _ R NC) Ht) as O. cbv beta in O.
  rewrite Htd in O. inversion O as [|? ? Hoo _]; subst. simpl in Hoo. destruct Hoo as (Lo & Do).
  destruct (reachable_cnt_nc _ _ _ _ R NC _ _ Hw) as (Lw & _). rewrite (word_eq_dl _ _ He Lw Lo). auto.
Qed.

(* MUTUAL_CANCEL_NO_DEADLOCK (general): if a thread is blocked in the two-thread handshake (wait_for_deadlock), ANOTHER
   thread - the setter of the flag - is enabled; so two threads both inside cancel_callback_and_wait(id, other) on the
   handshake path are never both blocked. For ALL programs, bodies, id counts and schedules. *)
Lemma mutual_cancel_no_deadlock progs nids bds c t th i old r w :
  reachable (init progs nids bds) c -> crashed c = false ->
  nth_error (threads c) t = Some th -> todo th = IDlWWait i old :: r ->
  nth_error (ids c) i = Some w -> word_eqb w old = true ->
  exists t2 th2 r2, t2 <> t /\ nth_error (threads c) t2 = Some th2 /\
    (todo th2 = IDlAdd i :: IDlAnd i :: r2 \/ todo th2 = IDlAnd i :: r2) /\ enabled c t2 = true.
Proof.
  intros R NC Ht Htd Hw He.
  pose proof (blocked_in_handshake_wait_sees_flag _ _ _ _ _ _ _ _ _ _ R NC Ht Htd Hw He) as Hd.
  destruct (deadlock_flag_has_enabled_setter _ _ _ _ _ _ R NC Hw Hd) as (t2 & th2 & r2 & Ht2 & Hs & En).
  exists t2, th2, r2. repeat split; auto. intros ->. rewrite Ht in Ht2. injection Ht2 as <-. rewrite Htd in Hs. destruct Hs; discriminate.
Qed.

(* the setter clears the flag: after its dl_fetch_and step the flag of the id is clear *)
Lemma setter_clears_flag c t th i r w c' :
  nth_error (threads c) t = Some th -> todo th = IDlAnd i :: r -> nth_error (ids c) i = Some w ->
  step c t = Some c' -> exists w', nth_error (ids c') i = Some w' /\ dl w' = false.
Proof.
  intros Ht Htd Hw H. unfold step in H. rewrite Ht, Htd, Hw in H. injection H as <-.
  rewrite ids_cw_ret. simpl. erewrite nth_error_upd_same by eauto. eexists; split; eauto.
Qed.
