(* C17 proofs, part C: the count invariant
     count bits of an id word = posts in flight + dispatches between their fetch_add and fetch_sub *)
From Coq Require Import List NArith Bool Arith Lia.
From LTV.C17 Require Import Model ProofsA.
Import ListNotations.

(* pending operations that have incremented the count of id j and not yet decremented it *)
Definition hold (j : idx) (it : item) : nat :=
  match it with
  | IPostLock _ _ i _ _ _ | IPostSub _ i _ _ | IEndCb i _ | ISkipSub i _ => if Nat.eqb i j then 1 else 0
  | IRun e | IRet e => if oidx_is (e_id e) j then 1 else 0
  | _ => 0
  end.
Definition hl (j : idx) (td : list item) : nat := fold_right (fun it a => hold j it + a) 0 td.
Definition hsum (j : idx) (ts : list thread) : nat := fold_right (fun th a => hl j (todo th) + a) 0 ts.

Lemma hl_app j a b : hl j (a ++ b) = hl j a + hl j b.
Proof. induction a; simpl; auto. rewrite IHa. lia. Qed.
Lemma hl_cmds j l : hl j (map ICmd l) = 0.
Proof. induction l; simpl; auto. Qed.
Lemma hsum_upd j ts t th th' : nth_error ts t = Some th ->
  hsum j (upd ts t th') + hl j (todo th) = hsum j ts + hl j (todo th').
Proof.
  revert t; induction ts; destruct t; simpl; intros; try discriminate.
  - injection H as ->. lia.
  - specialize (IHts _ H). lia.
Qed.
Lemma hsum_ge j ts t th : nth_error ts t = Some th -> hl j (todo th) <= hsum j ts.
Proof. revert t; induction ts; destruct t; simpl; intros; try discriminate. injection H as ->. lia. specialize (IHts _ H). lia. Qed.

Definition cnt_inv (c : cfg) : Prop :=
  forall j w, nth_error (ids c) j = Some w -> (cnt w <= 7)%N /\ cnt w = N.of_nat (hsum j (threads c)).

Lemma add1_cnt w : (cnt w <= 7)%N -> (cnt w =? 7)%N = false -> cnt (add1 w) = (cnt w + 1)%N /\ (cnt (add1 w) <= 7)%N.
Proof. intros H E. apply N.eqb_neq in E. unfold add1. destruct (cnt w <? 7)%N eqn:L; simpl. lia. apply N.ltb_ge in L. lia. Qed.
Lemma sub1_cnt w : (0 < cnt w)%N -> cnt (sub1 w) = (cnt w - 1)%N.
Proof. intros H. unfold sub1. destruct (0 <? cnt w)%N eqn:L; simpl. lia. apply N.ltb_ge in L. lia. Qed.

Ltac id_split j :=
  repeat match goal with
  | H : context [Nat.eqb ?i j] |- _ => destruct (Nat.eqb i j) eqn:?
  | |- context [Nat.eqb ?i j] => destruct (Nat.eqb i j) eqn:?
  end.

Ltac cnt_case Ht Htd :=
  use_specs; proj_simpl; try discriminate;
  let j := fresh "j" in let wj := fresh "wj" in let Hj := fresh "Hj" in
  intros j wj Hj;
  try match goal with |- context [hsum j (upd _ _ ?th')] =>
         pose proof (hsum_upd j _ _ _ th' Ht) as E; pose proof (hsum_ge j _ _ _ Ht) as G; rewrite Htd in E, G; simpl in E, G
       end;
  repeat match goal with H : e_id _ = _ |- _ => rewrite H in * end; simpl in *;
  rewrite ?hl_app, ?hl_cmds in *; simpl in *;
  try rewrite nth_error_upd in Hj;
  repeat match goal with H : e_id _ = _ |- _ => rewrite H in * end; simpl in *;
  id_split j;
  repeat match goal with H : Nat.eqb _ _ = true |- _ => apply Nat.eqb_eq in H; subst end;
  repeat match goal with
    | H1 : nth_error ?l ?n = Some ?a, H2 : match nth_error ?l ?n with _ => _ end = Some _ |- _ => rewrite H1 in H2
    end;
  repeat match goal with H : Some _ = Some _ |- _ => injection H as H; subst end.

Lemma step_cnt c t c' : crashed c' = false -> cnt_inv c -> step c t = Some c' -> cnt_inv c'.
Proof.
  intros NC I H. open_step H th it rest Ht Htd.
  more_cases H; cnt_case Ht Htd.


Qed.
