(* C17 proofs, part C: the count invariant
     count bits of an id word = posts in flight + dispatches between their fetch_add and fetch_sub *)
From Coq Require Import List NArith Bool Arith Lia.
From LTV.C17 Require Import Model ProofsA.
Import ListNotations.

(* pending operations that have incremented the count of id j and not yet decremented it *)
Definition hold (j : idx) (it : item) : nat :=
  match it with
  | IPostLock _ _ i _ _ _ | IPostSub _ i _ _ | IEndCb i _ | ISkipSub i _ => if Nat.eqb i j then 1 else 0
  | IRun e | IRet e => if oidx_is (e_id e) j then 1 else 0
  | _ => 0
  end.
Definition hl (j : idx) (td : list item) : nat := fold_right (fun it a => hold j it + a) 0 td.
Definition hsum (j : idx) (ts : list thread) : nat := fold_right (fun th a => hl j (todo th) + a) 0 ts.

Lemma hl_app j a b : hl j (a ++ b) = hl j a + hl j b.
Proof. induction a; simpl; auto. rewrite IHa. lia. Qed.
Lemma hl_cmds j l : hl j (map ICmd l) = 0.
Proof. induction l; simpl; auto. Qed.
Lemma hsum_upd j ts t th th' : nth_error ts t = Some th ->
  hsum j (upd ts t th') + hl j (todo th) = hsum j ts + hl j (todo th').
Proof.
  revert t; induction ts; destruct t; simpl; intros; try discriminate.
  - injection H as ->. lia.
  - specialize (IHts _ H). lia.
Qed.
Lemma hsum_ge j ts t th : nth_error ts t = Some th -> hl j (todo th) <= hsum j ts.
Proof. revert t; induction ts; destruct t; simpl; intros; try discriminate. injection H as ->. lia. specialize (IHts _ H). lia. Qed.

Definition cnt_inv (c : cfg) : Prop :=
  forall j w, nth_error (ids c) j = Some w -> (cnt w <= 7)%N /\ cnt w = N.of_nat (hsum j (threads c)).

Lemma add1_cnt w : (cnt w <= 7)%N -> (cnt w =? 7)%N = false -> cnt (add1 w) = (cnt w + 1)%N /\ (cnt (add1 w) <= 7)%N.
Proof. intros H E. apply N.eqb_neq in E. unfold add1. destruct (cnt w <? 7)%N eqn:L; simpl. lia. apply N.ltb_ge in L. lia. Qed.
Lemma sub1_cnt w : (0 < cnt w)%N -> cnt (sub1 w) = (cnt w - 1)%N.
Proof. intros H. unfold sub1. destruct (0 <? cnt w)%N eqn:L; simpl. lia. apply N.ltb_ge in L. lia. Qed.

Ltac id_split j :=
  repeat match goal with
  | H : context [if Nat.eqb ?i j then _ else _] |- _ => destruct (Nat.eqb i j) eqn:?
  | |- context [if Nat.eqb ?i j then _ else _] => destruct (Nat.eqb i j) eqn:?
  end.

Ltac cnt_case Ht Htd :=
  use_specs; intros ? ? ?; proj_simpl; try discriminate;
  match goal with Hj : nth_error _ ?j = Some _ |- context [hsum ?j ?ts] =>
  try match ts with upd _ _ ?th' =>
         pose proof (hsum_upd j _ _ _ th' Ht) as E
       end;
  pose proof (hsum_ge j _ _ _ Ht) as G; rewrite Htd in *; simpl in *;
  repeat match goal with H : e_id _ = _ |- _ => rewrite H in * end; simpl in *;
  rewrite ?hl_app, ?hl_cmds in *; simpl in *;
  try rewrite nth_error_upd in Hj;
  repeat match goal with H : e_id _ = _ |- _ => rewrite H in * end; simpl in *;
  id_split j;
  repeat match goal with H : Nat.eqb _ _ = true |- _ => apply Nat.eqb_eq in H; subst end;
  repeat match goal with
    | H1 : nth_error ?l ?n = Some ?a, H2 : match nth_error ?l ?n with _ => _ end = Some _ |- _ => rewrite H1 in H2
    end;
  repeat match goal with H : Some _ = Some _ |- _ => injection H as H; subst end
  end.

Lemma hold_cw_after_load j th i w : hold j (cw_after_load th i w) = 0.
Proof. unfold cw_after_load. destruct (2 <=? cnt w)%N; auto. destruct ((cnt w =? 1)%N && negb (oidx_is (proc th) i)); auto. Qed.

Ltac cnt_fin I :=
  rewrite ?hold_cw_after_load, ?cnt_notify in *;
  repeat match goal with Hx : nth_error (ids _) _ = Some ?w |- _ =>
     lazymatch goal with | _ : cnt w = N.of_nat _ |- _ => fail | _ => destruct (I _ _ Hx) end end;
  try match goal with Hb : (cnt ?w =? 7)%N = false, Hl : (cnt ?w <= 7)%N |- _ => destruct (add1_cnt w Hl Hb) end;
  try (rewrite sub1_cnt by lia);
  simpl cnt; split; lia.

Lemma step_cnt c t c' : crashed c' = false -> cnt_inv c -> step c t = Some c' -> cnt_inv c'.
Proof.
  intros NC I H. open_step H th it rest Ht Htd.
  more_cases H; cnt_case Ht Htd.
  all: solve [cnt_fin I].
Qed.

(* ------------------------------------------------------------------ consequences *)
Lemma hsum_init j progs : hsum j (map init_thread progs) = 0.
Proof. induction progs; simpl; auto. rewrite hl_cmds, IHprogs. reflexivity. Qed.

Lemma init_cnt progs nids bds : cnt_inv (init progs nids bds).
Proof.
  intros j w H. unfold init in *; simpl in *. rewrite hsum_init.
  apply nth_error_In in H. apply repeat_spec in H. subst. simpl. split; lia.
Qed.

Lemma cshape_hl j rest cu pr : cshape rest cu pr -> hl j rest <= 1.
Proof.
  intros H; destruct H; rewrite ?hl_app, ?hl_cmds; simpl; rewrite ?hl_cmds.
  lia. destruct (oidx_is (e_id e) j); lia.
Qed.
Lemma hold_le1 j it : hold j it <= 1.
Proof. destruct it; simpl; auto; try (destruct (Nat.eqb i j); lia); destruct (oidx_is (e_id e) j); lia. Qed.
Lemma shape_hl j td cu pr : shape td cu pr -> hl j td <= 2.
Proof.
  intros H; destruct H; simpl; rewrite ?hl_cmds;
  try (match goal with H : cshape _ _ _ |- _ => apply (cshape_hl j) in H end);
  try (pose proof (hold_le1 j m));
  repeat match goal with |- context [if ?b then _ else _] => destruct b end; lia.
Qed.
Lemma hsum_bound j ts : Forall wf_thread ts -> hsum j ts <= 2 * length ts.
Proof.
  induction 1; simpl. lia. unfold wf_thread in H. apply (shape_hl j) in H. lia.
Qed.

Lemma step_length c t c' : step c t = Some c' -> length (threads c') = length (threads c).
Proof.
  intros H. unfold step in H. more_cases H. all: use_specs. all: proj_simpl; rewrite ?upd_length; auto.
Qed.

(* no count overflow (internal_error "lower id overflow") with at most 3 threads *)
Lemma step_no_crash c t c' :
  length (threads c) <= 3 -> crashed c = false -> cnt_inv c -> Forall wf_thread (threads c) ->
  step c t = Some c' -> crashed c' = false.
Proof.
  intros L NC I W H. unfold step in H.
  more_cases H; use_specs; proj_simpl; auto;
  match goal with Hx : nth_error (ids _) ?j = Some ?w, Hb : (cnt ?w =? 7)%N = true |- _ =>
         destruct (I _ _ Hx) as (_ & Hc); apply N.eqb_eq in Hb; pose proof (hsum_bound j _ W); lia end.
Qed.

Lemma reachable_all progs nids bds c :
  length progs <= 3 -> reachable (init progs nids bds) c ->
  crashed c = false /\ cnt_inv c /\ Forall wf_thread (threads c) /\ length (threads c) <= 3.
Proof.
  intros L R. induction R.
  - split; [reflexivity|]. split; [apply init_cnt|]. split.
    { unfold init; simpl. apply Forall_forall. intros th H. apply in_map_iff in H. destruct H as (p & <- & _).
      unfold wf_thread, init_thread; simpl. apply sh_c. constructor. }
    unfold init; simpl. rewrite map_length. auto.
  - destruct IHR as (NC & I & W & Ln).
    assert (crashed c' = false) by (eapply step_no_crash; eauto).
    split; auto. split; [eapply step_cnt; eauto|]. split; [eapply step_wf; eauto|].
    erewrite step_length; eauto.
Qed.

(* word equality decides count equality *)
Lemma word_eq_cnt a b : word_eqb a b = true -> (cnt a <= 7)%N -> (cnt b <= 7)%N -> cnt a = cnt b.
Proof.
  unfold word_eqb, word_N. intros H La Lb. apply N.eqb_eq in H.
  assert (forall x d c, (c <= 7)%N -> (d = 0 \/ d = 8)%N -> ((x * 16 + d + c) mod 8 = c)%N) as M.
  { intros x d c Lc [-> | ->].
    - replace (x * 16 + 0 + c)%N with (c + (2 * x) * 8)%N by lia. rewrite N.mod_add by lia. apply N.mod_small. lia.
    - replace (x * 16 + 8 + c)%N with (c + (2 * x + 1) * 8)%N by lia. rewrite N.mod_add by lia. apply N.mod_small. lia. }
  rewrite <- (M (gen a mod gmod)%N (if dl a then 8 else 0)%N (cnt a)) by (auto; destruct (dl a); auto).
  rewrite <- (M (gen b mod gmod)%N (if dl b then 8 else 0)%N (cnt b)) by (auto; destruct (dl b); auto).
  rewrite H. reflexivity.
Qed.

Lemma hsum_ge2 j ts t1 t2 a b : t1 <> t2 -> nth_error ts t1 = Some a -> nth_error ts t2 = Some b ->
  hl j (todo a) + hl j (todo b) <= hsum j ts.
Proof.
  revert t1 t2; induction ts; intros t1 t2 N H1 H2; destruct t1, t2; simpl in *; try discriminate; try congruence.
  - injection H1 as ->. pose proof (hsum_ge j _ _ _ H2). lia.
  - injection H2 as ->. pose proof (hsum_ge j _ _ _ H1). lia.
  - assert (t1 <> t2) by congruence. specialize (IHts _ _ H H1 H2). lia.
Qed.

(* a thread whose m_callback_processing_id is i holds one count of i *)
Lemma proc_holds i rest cu : cshape rest cu (Some i) -> hl i rest = 1.
Proof.
  intros H. remember (Some i) as pr eqn:E. destruct H; try discriminate.
  rewrite hl_app, hl_cmds. simpl. rewrite hl_cmds. rewrite E. simpl. rewrite Nat.eqb_refl. reflexivity.
Qed.

(* CAS success in cancel_callback_and_wait(id) => count = 0, or 1 and it is the caller's own dispatch;
   and then NO OTHER thread is posting under the id, between a dispatch's fetch_add and fetch_sub
   on the id, or inside a callback of the id *)
Lemma cas_success_quiescent progs nids bds c t th i old rest w :
  length progs <= 3 -> reachable (init progs nids bds) c ->
  nth_error (threads c) t = Some th -> todo th = ICwCas i old :: rest ->
  nth_error (ids c) i = Some w -> word_eqb w old = true ->
  (cnt w = 0%N \/ (cnt w = 1%N /\ proc th = Some i)) /\
  forall t2 th2, t2 <> t -> nth_error (threads c) t2 = Some th2 -> hl i (todo th2) = 0.
Proof.
  intros L R Ht Htd Hw He. destruct (reachable_all _ _ _ _ L R) as (NC & I & W & _).
  destruct (I _ _ Hw) as (Lw & Cw).
  pose proof (Forall_nth_error _ _ _ _ W Ht) as Sh. unfold wf_thread in Sh. rewrite Htd in Sh.
  apply shape_cons in Sh. split_all; try discriminate. simpl in H0.
  assert (Eo : cnt w = cnt old) by (apply word_eq_cnt; auto; destruct H0 as [-> | (-> & _)]; lia).
  assert (Hp : cnt w = 1%N -> oidx_is (proc th) i = true -> proc th = Some i).
  { intros _ Hx. destruct (proc th); simpl in Hx; try discriminate. apply Nat.eqb_eq in Hx. congruence. }
  split.
  - destruct H0 as [E0 | (E1 & Ep)]; [left | right]; try split; try congruence. apply Hp; congruence.
  - intros t2 th2 Nt Ht2. pose proof (hsum_ge2 i _ _ _ _ _ Nt Ht2 Ht) as G. rewrite Htd in G. simpl in G.
    destruct H0 as [E0 | (E1 & Ep)].
    + lia.
    + assert (proc th = Some i) by (apply Hp; congruence). rewrite H0 in H1. apply proc_holds in H1. lia.
Qed.

(* what "hl i (todo th2) = 0" excludes *)
Lemma not_holding_means i th2 : wf_thread th2 -> hl i (todo th2) = 0 ->
  proc th2 <> Some i /\
  (forall e, In (IRun e) (todo th2) \/ In (IRet e) (todo th2) -> e_id e <> Some i) /\
  (forall tgt k u x b, ~ In (IPostLock tgt k i u x b) (todo th2)) /\
  (forall tgt u si, ~ In (IPostSub tgt i u si) (todo th2)) /\
  (forall u, ~ In (IEndCb i u) (todo th2) /\ ~ In (ISkipSub i u) (todo th2)).
Proof.
  intros W Z.
  assert (forall it, In it (todo th2) -> hold i it = 0) as A.
  { revert Z. generalize (todo th2). induction l; simpl; intros Z it []; subst; try lia. apply IHl; auto; lia. }
  repeat split.
  - intros P. unfold wf_thread in W. rewrite P in W. inversion W; subst;
    try match goal with H : cshape _ _ (Some i) |- _ => apply proc_holds in H end.
    + lia.
    + rewrite <- H in Z. simpl in Z. lia.
    + rewrite <- H in Z. simpl in Z. lia.
    + rewrite <- H in Z. simpl in Z. lia.
    + rewrite <- H in Z. simpl in Z. match goal with E : e_id _ = Some i |- _ => rewrite E in Z end. simpl in Z. rewrite Nat.eqb_refl in Z. lia.
  - intros e [H | H] E; apply A in H; simpl in H; rewrite E in H; simpl in H; rewrite Nat.eqb_refl in H; lia.
  - intros tgt k u x b H. apply A in H. simpl in H. rewrite Nat.eqb_refl in H. lia.
  - intros tgt u si H. apply A in H. simpl in H. rewrite Nat.eqb_refl in H. lia.
  - intros H. apply A in H. simpl in H. rewrite Nat.eqb_refl in H. lia.
  - intros H. apply A in H. simpl in H. rewrite Nat.eqb_refl in H. lia.
Qed.
