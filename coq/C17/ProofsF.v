(* C17 proofs, part F: callback instances (uids) are unique - each uid occurs at most once among
   {posts in flight, queues, local batches, decided-to-run, run events} - hence runs_at_most_once. *)
From Coq Require Import List NArith Bool Arith Lia.
From LTV.C17 Require Import Model ProofsA ProofsC.
Import ListNotations.

Definition uid_dec (a b : uid) : {a = b} + {a <> b}.
Proof. decide equality; apply Nat.eq_dec. Defined.
Definition ub (a b : uid) : nat := if uid_dec a b then 1 else 0.

Definition oc (u : uid) (l : list entry) : nat := fold_right (fun e a => ub (e_uid e) u + a) 0 l.
Definition occ_item (u : uid) (it : item) : nat :=
  match it with
  | IBatch es _ => oc u es
  | IRun e => ub (e_uid e) u
  | IPostLock _ _ _ u' _ _ => ub u' u
  | _ => 0
  end.
Definition occ_td (u : uid) (td : list item) : nat := fold_right (fun it a => occ_item u it + a) 0 td.
Definition tsum (u : uid) (ts : list thread) : nat := fold_right (fun th a => occ_td u (todo th) + a) 0 ts.
Definition occ_box (u : uid) (b : mbox) : nat := oc u (qn b) + oc u (qi b).
Definition bsum (u : uid) (bs : list mbox) : nat := fold_right (fun b a => occ_box u b + a) 0 bs.
Definition ev_run (u : uid) (e : event) : nat := match e with EvRun v _ _ _ => ub v u | _ => 0 end.
Definition runs (u : uid) (l : list event) : nat := fold_right (fun e a => ev_run u e + a) 0 l.

Lemma oc_app u a b : oc u (a ++ b) = oc u a + oc u b.
Proof. induction a; simpl; auto. rewrite IHa. lia. Qed.
Lemma occ_td_app u a b : occ_td u (a ++ b) = occ_td u a + occ_td u b.
Proof. induction a; simpl; auto. rewrite IHa. lia. Qed.
Lemma occ_td_cmds u l : occ_td u (map ICmd l) = 0.
Proof. induction l; simpl; auto. Qed.
Lemma runs_app u a b : runs u (a ++ b) = runs u a + runs u b.
Proof. induction a; simpl; auto. rewrite IHa. lia. Qed.
Lemma tsum_upd u ts t th th' : nth_error ts t = Some th ->
  tsum u (upd ts t th') + occ_td u (todo th) = tsum u ts + occ_td u (todo th').
Proof.
  revert t; induction ts; destruct t; simpl; intros; try discriminate.
  - injection H as ->. lia.
  - specialize (IHts _ H). lia.
Qed.
Lemma bsum_upd u bs t b b' : nth_error bs t = Some b ->
  bsum u (upd bs t b') + occ_box u b = bsum u bs + occ_box u b'.
Proof.
  revert t; induction bs; destruct t; simpl; intros; try discriminate.
  - injection H as ->. lia.
  - specialize (IHbs _ H). lia.
Qed.

Definition total (u : uid) (c : cfg) : nat := tsum u (threads c) + bsum u (boxes c) + runs u (log c).
Definition fresh_ok (c : cfg) : Prop :=
  forall u, total u c <= 1 /\ (0 < total u c -> forall th, nth_error (threads c) (fst u) = Some th -> snd u < nposted th).

Lemma occ_box_push u b k e : occ_box u (fst (push_entry b k e)) = occ_box u b + ub (e_uid e) u.
Proof. unfold occ_box. destruct k; simpl; rewrite oc_app; simpl; lia. Qed.
Lemma occ_box_set_intr u b : occ_box u (set_intr b) = occ_box u b.
Proof. unfold set_intr. destruct (pol b && negb (intr b)); reflexivity. Qed.
Lemma occ_box_set_hasi u b v : occ_box u (set_hasi b v) = occ_box u b. Proof. reflexivity. Qed.
Lemma occ_box_set_poll u b p i : occ_box u (set_poll b p i) = occ_box u b. Proof. reflexivity. Qed.
Lemma disp_lock_occ u b oi batch b1 oi' : disp_lock b oi = Some (batch, b1, oi') -> oc u batch + occ_box u b1 = occ_box u b.
Proof.
  intros H. destruct (disp_lock_spec _ _ _ _ _ H) as ((ti & tn & -> & Ei & En) & _).
  unfold occ_box. rewrite Ei, En, oc_app. destruct ti, tn; simpl; lia.
Qed.
Lemma occ_cw u th i w : occ_item u (cw_after_load th i w) = 0.
Proof. unfold cw_after_load. destruct (2 <=? cnt w)%N; auto. destruct ((cnt w =? 1)%N && negb (oidx_is (proc th) i)); auto. Qed.

(* nposted never decreases and the thread list keeps its length: freshness bounds survive *)
Lemma step_nposted c t c' : step c t = Some c' ->
  forall k th, nth_error (threads c) k = Some th -> exists th', nth_error (threads c') k = Some th' /\ nposted th <= nposted th'.
Proof.
  intros H k th Hk. unfold step in H.
  destruct (nth_error (threads c) t) as [th0|] eqn:Ht; try discriminate.
  assert (forall th1 c1, threads c1 = upd (threads c) t th1 -> nposted th0 <= nposted th1 ->
            exists th', nth_error (threads c1) k = Some th' /\ nposted th <= nposted th') as K.
  { intros th1 c1 E L. rewrite E, nth_error_upd. destruct (Nat.eqb t k) eqn:Ek.
    - apply Nat.eqb_eq in Ek; subst. rewrite Ht. rewrite Ht in Hk. injection Hk as <-. eauto.
    - eauto. }
  more_cases H; use_specs; eapply K; proj_simpl; try reflexivity; simpl; auto.
Qed.

Lemma step_nposted_rev c t c' : step c t = Some c' ->
  forall k th', nth_error (threads c') k = Some th' -> exists th, nth_error (threads c) k = Some th /\ nposted th <= nposted th'.
Proof.
  intros H k th' Hk. unfold step in H.
  destruct (nth_error (threads c) t) as [th0|] eqn:Ht; try discriminate.
  assert (forall th1 c1, threads c1 = upd (threads c) t th1 -> nposted th0 <= nposted th1 ->
            nth_error (threads c1) k = Some th' ->
            exists th, nth_error (threads c) k = Some th /\ nposted th <= nposted th') as K.
  { intros th1 c1 E L Hk1. rewrite E, nth_error_upd in Hk1. destruct (Nat.eqb t k) eqn:Ek.
    - apply Nat.eqb_eq in Ek; subst. rewrite Ht in Hk1. injection Hk1 as <-. eauto.
    - eauto. }
  revert Hk. more_cases H; use_specs; intros Hk; eapply K; try exact Hk; proj_simpl; try reflexivity; simpl; auto.
Qed.

Definition created (c : cfg) (t : tid) : option uid :=
  match nth_error (threads c) t with
  | Some th => match todo th with ICmd (Post _ _ _ _) :: _ => Some (t, nposted th) | _ => None end
  | None => None
  end.

Ltac tot_case Ht Htd :=
  use_specs; proj_simpl;
  match goal with |- context [tsum ?u (upd _ _ ?th')] =>
    pose proof (tsum_upd u _ _ _ th' Ht) as E1; rewrite Htd in E1; simpl in E1;
    repeat match goal with Hd : disp_lock _ _ = _ |- _ => pose proof (disp_lock_occ u _ _ _ _ _ Hd); clear Hd end
  end;
  repeat match goal with
  | Hb : nth_error (boxes _) ?k = Some ?b |- context [bsum ?u (upd _ ?k ?b')] =>
      lazymatch goal with | _ : bsum u (upd _ k b') + _ = _ |- _ => fail | _ => pose proof (bsum_upd u _ _ _ b' Hb) end
  end;
  repeat match goal with Hd : disp_lock _ _ = _ |- _ => pose proof (disp_lock_occ _ _ _ _ _ Hd); clear Hd end;
  rewrite ?occ_box_push, ?occ_box_set_intr, ?occ_box_set_hasi, ?occ_box_set_poll, ?occ_td_app, ?occ_td_cmds, ?occ_cw in *; simpl in *;
  rewrite ?occ_td_app, ?occ_td_cmds, ?occ_cw in *; simpl in *.

Lemma step_total c t c' u : step c t = Some c' ->
  total u c' <= total u c + match created c t with Some u0 => ub u0 u | None => 0 end.
Proof.
  intros H. unfold total, created. unfold step in H.
  destruct (nth_error (threads c) t) as [th|] eqn:Ht; try discriminate.
  destruct (todo th) as [|it rest] eqn:Htd; try discriminate.
  more_cases H; tot_case Ht Htd.
  all: lia.
Qed.

Lemma created_incs c t c' u0 : created c t = Some u0 -> step c t = Some c' ->
  fst u0 = t /\ (exists th, nth_error (threads c) t = Some th /\ snd u0 = nposted th) /\
  forall th', nth_error (threads c') t = Some th' -> nposted th' = S (snd u0).
Proof.
  unfold created, step. destruct (nth_error (threads c) t) as [th|] eqn:Ht; try discriminate.
  destruct (todo th) as [|it rest] eqn:Htd; try discriminate. destruct it; try discriminate. destruct c0; try discriminate.
  intros E H. injection E as <-. split; auto. split; eauto. simpl.
  intros th' Hk. revert Hk. more_cases H; use_specs; proj_simpl; erewrite nth_error_upd_same by eauto; intros Hk; injection Hk as <-; reflexivity.
Qed.

Lemma step_fresh c t c' : fresh_ok c -> step c t = Some c' -> fresh_ok c'.
Proof.
  intros F H u. pose proof (step_total _ _ _ u H) as T. destruct (F u) as (L & Fr).
  destruct (created c t) as [u0|] eqn:Ec.
  - destruct (created_incs _ _ _ _ Ec H) as (E1 & (th & Ht & E2) & Inc).
    assert (total u0 c = 0) as Z.
    { destruct (F u0) as (_ & Fr0). destruct (total u0 c) eqn:Et; auto. exfalso.
      assert (snd u0 < nposted th) by (apply Fr0; [lia | rewrite E1; auto]). lia. }
    unfold ub in T. destruct (uid_dec u0 u) as [<- | N].
    + split. lia. intros _ th' Hk. rewrite E1 in Hk. rewrite (Inc _ Hk). lia.
    + split. lia. intros P th' Hk. destruct (step_nposted_rev _ _ _ H _ _ Hk) as (th0 & Hk0 & Le).
      assert (snd u < nposted th0) by (apply Fr; [lia | auto]). lia.
  - split. lia. intros P th' Hk. destruct (step_nposted_rev _ _ _ H _ _ Hk) as (th0 & Hk0 & Le).
    assert (snd u < nposted th0) by (apply Fr; [lia | auto]). lia.
Qed.

Lemma tsum_init u progs : tsum u (map init_thread progs) = 0.
Proof. induction progs; simpl; auto. rewrite occ_td_cmds, IHprogs. reflexivity. Qed.
Lemma bsum_init u (progs : list (list cmd)) : bsum u (map (fun _ => mkB [] [] false false false false) progs) = 0.
Proof. induction progs; simpl; auto. Qed.

Lemma reachable_fresh progs nids bds c : reachable (init progs nids bds) c -> fresh_ok c.
Proof.
  induction 1.
  - intros u. unfold total, init; simpl. rewrite tsum_init, bsum_init. split; lia.
  - eapply step_fresh; eauto.
Qed.

(* RUNS AT MOST ONCE: for every callback instance u, at most one run event is ever logged *)
Lemma runs_at_most_once progs nids bds c u : reachable (init progs nids bds) c -> runs u (log c) <= 1.
Proof. intros R. destruct (reachable_fresh _ _ _ _ R u) as (L & _). unfold total in L. lia. Qed.

(* [runs] is the number of EvRun events of u in the log *)
Lemma runs_is_count u l : runs u l = length (filter (fun e => match e with EvRun v _ _ _ => if uid_dec v u then true else false | _ => false end) l).
Proof.
  induction l as [|e l IH]; simpl; auto. destruct e; simpl; auto. unfold ub. destruct (uid_dec u0 u); simpl; lia.
Qed.

(* a uid that occurs anywhere (post in flight, queue, batch, decided-to-run) has not run and occurs only there *)
Lemma uid_unique progs nids bds c u : reachable (init progs nids bds) c ->
  tsum u (threads c) + bsum u (boxes c) + runs u (log c) <= 1.
Proof. intros R. apply (reachable_fresh _ _ _ _ R u). Qed.
