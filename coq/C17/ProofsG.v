(* C17 proofs, part G: bookkeeping of posts in flight vs. posts that have returned ([posted]) *)
From Coq Require Import List NArith Bool Arith Lia.
From LTV.C17 Require Import Model ProofsA ProofsC ProofsF.
Import ListNotations.

Definition pf_item (t : tid) (np : nat) (it : item) : Prop :=
  match it with
  | IPostLock _ _ _ u _ _ | IPostSub _ _ u _ | IPostIntr _ u _ => fst u = t /\ snd u < np
  | _ => True
  end.
Definition post_uid (it : item) : option uid :=
  match it with IPostLock _ _ _ u _ _ => Some u | _ => None end.

Definition pf (c : cfg) : Prop :=
  (forall t th, nth_error (threads c) t = Some th -> Forall (pf_item t (nposted th)) (todo th)) /\
  (forall u i, In (u, i) (posted c) -> forall th, nth_error (threads c) (fst u) = Some th -> snd u < nposted th) /\
  (forall t th it u, nth_error (threads c) t = Some th -> In it (todo th) -> post_uid it = Some u ->
     forall i, ~ In (u, i) (posted c)).

Lemma pf_item_mono t a b it : a <= b -> pf_item t a it -> pf_item t b it.
Proof. destruct it; simpl; auto; intros L (H1 & H2); split; auto; lia. Qed.
Lemma pf_cmds t np l : Forall (pf_item t np) (map ICmd l).
Proof. induction l; simpl; constructor; simpl; auto. Qed.
Lemma pf_cw t np th i w : pf_item t np (cw_after_load th i w).
Proof. unfold cw_after_load. destruct (2 <=? cnt w)%N; simpl; auto. destruct ((cnt w =? 1)%N && negb (oidx_is (proc th) i)); simpl; auto. Qed.

(* below a micro head / inside cshape there is no post in flight *)
Lemma cshape_no_post rest cu pr : cshape rest cu pr -> forall it, In it rest -> post_uid it = None.
Proof.
  intros H it Hin. destruct H.
  - apply in_map_iff in Hin. destruct Hin as (x & <- & _). reflexivity.
  - apply in_app_or in Hin. destruct Hin as [Hin | [<- | [<- | Hin]]]; auto.
    + apply in_map_iff in Hin. destruct Hin as (x & <- & _). reflexivity.
    + apply in_map_iff in Hin. destruct Hin as (x & <- & _). reflexivity.
Qed.

Lemma nth_upd_cases {A} (l : list A) t x k y : nth_error (upd l t x) k = Some y ->
  (k = t /\ y = x) \/ (k <> t /\ nth_error l k = Some y).
Proof.
  rewrite nth_error_upd. destruct (Nat.eqb t k) eqn:E.
  - apply Nat.eqb_eq in E; subst. destruct (nth_error l k); try discriminate. intros H; injection H as <-. auto.
  - apply Nat.eqb_neq in E. intros H. right; split; auto.
Qed.

Lemma shape_rest_no_post it rest cu pr : shape (it :: rest) cu pr -> forall x, In x rest -> post_uid x = None.
Proof.
  intros H x Hin. apply shape_cons in H. split_all; subst;
  try (eapply cshape_no_post; eauto; fail).
  - destruct Hin as [<- | Hin]; auto. eapply cshape_no_post; eauto.
  - destruct Hin as [<- | Hin]; auto. eapply cshape_no_post; eauto.
  - destruct Hin as [<- | Hin]; auto. apply in_map_iff in Hin. destruct Hin as (y & <- & _). reflexivity.
  - apply in_map_iff in Hin. destruct Hin as (y & <- & _). reflexivity.
  - destruct Hin as [<- | Hin]; auto. apply in_map_iff in Hin. destruct Hin as (y & <- & _). reflexivity.
  - destruct Hin as [<- | Hin]; auto. apply in_map_iff in Hin. destruct Hin as (y & <- & _). reflexivity.
  - destruct Hin as [<- | Hin]; auto. apply in_map_iff in Hin. destruct Hin as (y & <- & _). reflexivity.
Qed.

Lemma pf_general c c' t th th' :
  pf c -> nth_error (threads c) t = Some th ->
  threads c' = upd (threads c) t th' -> nposted th <= nposted th' ->
  Forall (pf_item t (nposted th')) (todo th') ->
  (forall x u, In x (todo th') -> post_uid x = Some u -> forall i, ~ In (u, i) (posted c')) ->
  (posted c' = posted c \/ exists u i, posted c' = (u, i) :: posted c /\ fst u = t /\ snd u < nposted th') ->
  pf c'.
Proof.
  intros (P1 & P2 & P3) Ht Et Le Fa Np Po. split; [|split].
  - intros k thk Hk. rewrite Et in Hk. apply nth_upd_cases in Hk. destruct Hk as [(-> & ->) | (N & Hk)]; auto.
  - intros u i Hin thk Hk. rewrite Et in Hk. apply nth_upd_cases in Hk.
    destruct Po as [Ep | (u0 & i0 & Ep & F1 & F2)]; rewrite Ep in *.
    + destruct Hk as [(E & ->) | (N & Hk)]. rewrite <- E in Ht. specialize (P2 _ _ Hin _ Ht). lia. eapply P2; eauto.
    + destruct Hin as [Hin | Hin].
      * injection Hin as <- <-. destruct Hk as [(E & ->) | (N & Hk)]; auto. congruence.
      * destruct Hk as [(E & ->) | (N & Hk)]. rewrite <- E in Ht. specialize (P2 _ _ Hin _ Ht). lia. eapply P2; eauto.
  - intros k thk it u Hk Hin Hp i. rewrite Et in Hk. apply nth_upd_cases in Hk.
    destruct Hk as [(-> & ->) | (N & Hk)]. eapply Np; eauto.
    destruct Po as [Ep | (u0 & i0 & Ep & F1 & F2)]; rewrite Ep in *. eapply P3; eauto.
    intros [E | Hin2]. 
    + injection E as <- <-. specialize (P1 _ _ Hk). rewrite Forall_forall in P1. specialize (P1 _ Hin).
      destruct it; simpl in Hp; try discriminate. injection Hp as <-. simpl in P1. destruct P1. congruence.
    + eapply P3; eauto.
Qed.

Lemma post_cw th i w : post_uid (cw_after_load th i w) = None.
Proof. unfold cw_after_load. destruct (2 <=? cnt w)%N; simpl; auto. destruct ((cnt w =? 1)%N && negb (oidx_is (proc th) i)); simpl; auto. Qed.

Lemma Forall_mono_pf t a b l : a <= b -> Forall (pf_item t a) l -> Forall (pf_item t b) l.
Proof. intros L H. eapply Forall_impl; [|exact H]. intros; eapply pf_item_mono; eauto. Qed.

Lemma step_pf c t c' : crashed c' = false -> Forall wf_thread (threads c) -> pf c -> step c t = Some c' -> pf c'.
Proof.
  intros NC W P H. pose proof P as (P1 & P2 & P3).
  open_step H th it rest Ht Htd.
  pose proof (Forall_nth_error _ _ _ _ W Ht) as Hsh. unfold wf_thread in Hsh. rewrite Htd in Hsh.
  pose proof (shape_rest_no_post _ _ _ _ Hsh) as Nr.
  pose proof (P1 _ _ Ht) as Fa. rewrite Htd in Fa. inversion Fa as [|? ? Fit Frest]; subst.
  more_cases H; use_specs; proj_simpl; try discriminate.
  all: eapply (pf_general c _ t th); [exact P | exact Ht | proj_simpl; reflexivity | simpl; lia | proj_simpl | proj_simpl | proj_simpl].
  all: try (left; reflexivity).
  all: try (repeat constructor; simpl; auto using pf_cmds, pf_cw; try (apply Forall_app; split; auto using pf_cmds; repeat constructor; simpl; auto); eauto using Forall_mono_pf; fail).
  all: try (match goal with |- forall (x : item) (u : uid), _ => idtac end;
            intros x0 u0 Hin Hp i1 Hi;
            try (apply in_app_or in Hin; destruct Hin as [Hin | Hin];
                 [apply in_map_iff in Hin; destruct Hin as (? & <- & _); discriminate|]);
            repeat (destruct Hin as [<- | Hin]; [simpl in Hp; rewrite ?post_cw in Hp; try discriminate |]);
            try (rewrite (Nr _ Hin) in Hp; discriminate);
            try (injection Hp as <-; specialize (P2 _ _ Hi _ Ht); simpl in P2; lia); fail).
  all: try (match goal with |- _ \/ _ => idtac end;
            repeat match goal with o : option idx |- _ => destruct o end; simpl;
            first [left; reflexivity | right; do 2 eexists; split; [reflexivity | simpl in Fit; simpl; tauto]]).
  all: try (constructor; [simpl; simpl in Fit; tauto | assumption]).
Qed.

Lemma init_pf progs nids bds : pf (init progs nids bds).
Proof.
  unfold pf, init; simpl. split; [|split].
  - intros t th H. apply nth_error_In in H. apply in_map_iff in H. destruct H as (p & <- & _). simpl. apply pf_cmds.
  - intros u i [].
  - intros t th it u H Hin Hp. apply nth_error_In in H. apply in_map_iff in H. destruct H as (p & <- & _). simpl in Hin.
    apply in_map_iff in Hin. destruct Hin as (x & <- & _). discriminate.
Qed.
