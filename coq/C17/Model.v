(* C17 — executable transition-system model (shape T) of libtorrent's cross-thread callback
   machinery: src/torrent/system/thread.cc
     Thread::callback(bool, fn)                      id-less post
     Thread::callback(bool, id, fn)                  post under a cancellation id
     Thread::cancel_callback(id)
     Thread::cancel_callback_and_wait(id)            single-argument form
     Thread::cancel_callback_and_wait(id, other)     two-argument form (0x8 "deadlock" handshake)
     Thread::process_callbacks(only_interrupt)
   Definitions only.

   Threads are stacks of pending micro-operations ([todo]); ONE model step of thread t executes the
   shared-memory operation that follows the schedule point (LT_VERIF_SCHED label) at which the real
   thread is parked, plus the thread-local code up to the next schedule point. A mutex-protected
   section is one step. Atomics are sequentially consistent (stated assumption); the weak CAS is
   modelled as a strong CAS (true on x86: lock cmpxchg); atomic::wait(old) is two-phase: entering it with a word
   different from [old] returns at once, otherwise the thread blocks (ICwBlk / IDlWBlk) and becomes enabled only after a
   later notify_all() on the id (ghost notify count [ntf]); fetch_sub+notify_all and fetch_and+notify_all are one step
   each, as in the source (no schedule point between them).

   The id word (std::atomic<uint32_t>): bits 0-2 in-progress count, bit 3 deadlock flag, bits
   4-31 generation (28 bits, wraps). It is kept as a record with an UNBOUNDED ghost generation;
   every comparison the code makes goes through the 28-bit truncation ([word_N], [upper]), so the
   model wraps exactly where the code wraps. *)
From Coq Require Import List NArith Bool Arith.
Import ListNotations.

Definition tid := nat.
Definition idx := nat.
Definition uid := (nat * nat)%type.          (* (posting thread, its post sequence number) *)

Inductive kind := KNormal | KIntr.

(* DISPATCH POLICY. Which queue(s) one locked section of process_callbacks takes, and what it leaves in the two
   has-flags, is NOT fixed by the property (only: each queue is popped FIFO and every popped callback is run or
   skipped once). A dispatch call therefore carries, besides only_interrupt, a list of per-lock-section CHOICES
   observed on the implementation (harness trace); when the list is exhausted the policy of the current source is
   used. Client programs are universally quantified in every theorem, so the theorems hold for EVERY policy. *)
Record choice := mkCh { ch_ti : bool; ch_tn : bool; ch_hn : bool; ch_hi : bool }.
Definition dpol := (bool * list choice)%type.

Inductive cmd :=
| Post (tgt : tid) (k : kind) (oid : option idx) (b : nat)   (* b: index of the callback body *)
| Cancel (i : idx)
| CancelWait (i : idx)
| CancelWait2 (i : idx)
| Dispatch (oi : dpol)
| PollOnce.                      (* Poll::do_poll(0): fetch_or(polling), timeout decision, epoll_wait, fetch_and *)

(* [ntf] is a ghost: the number of notify_all() calls made on the id so far. It is not part of the 32-bit word
   ([word_N]); a thread blocked inside id->wait() remembers the value it saw when it blocked and is enabled again only
   after a later notify - a changed word alone does not wake it (std::atomic::wait contract). *)
Record idword := mkW { cnt : N; dl : bool; gen : N; ntf : nat }.

Definition gmod : N := 268435456.            (* 2^28 generations *)
Definition word_N (w : idword) : N :=
  ((gen w mod gmod) * 16 + (if dl w then 8 else 0) + cnt w)%N.
Definition word_eqb (a b : idword) : bool := N.eqb (word_N a) (word_N b).
(* previous_id & ~0x7 *)
Definition upper (w : idword) : N * bool := ((gen w mod gmod)%N, dl w).
Definition upper_eqb (a b : N * bool) : bool := N.eqb (fst a) (fst b) && Bool.eqb (snd a) (snd b).

(* fetch_add(1): the carry out of the 3 count bits goes into the flag bit, as in the code *)
Definition add1 (w : idword) : idword :=
  if (cnt w <? 7)%N then mkW (cnt w + 1) (dl w) (gen w) (ntf w)
  else mkW 0 (negb (dl w)) (if dl w then gen w + 1 else gen w)%N (ntf w).
Definition sub1 (w : idword) : idword :=
  if (0 <? cnt w)%N then mkW (cnt w - 1) (dl w) (gen w) (ntf w)
  else mkW 7 (negb (dl w)) (if dl w then gen w else gen w + gmod - 1)%N (ntf w).
Definition bump (w : idword) : idword := mkW (cnt w) (dl w) (gen w + 1) (ntf w).   (* + 0x10 *)
Definition set_dl (w : idword) (b : bool) : idword := mkW (cnt w) b (gen w) (ntf w).
Definition notify (w : idword) : idword := mkW (cnt w) (dl w) (gen w) (S (ntf w)).   (* id->notify_all() *)

Record entry := mkE { e_uid : uid; e_id : option idx; e_exp : N * bool; e_body : nat;
                      e_kind : kind (* ghost: the kind it was posted as = the queue it was pushed into *) }.

Inductive item :=
| ICmd (c : cmd)
| IPostLock (tgt : tid) (k : kind) (i : idx) (u : uid) (exp : N * bool) (b : nat)
| IPostSub (tgt : tid) (i : idx) (u : uid) (si : bool)
| IPostIntr (tgt : tid) (u : uid) (oid : option idx)
| ICwLoad (i : idx)
| ICwWait (i : idx) (old : idword)
| ICwBlk (i : idx) (old : idword) (ep : nat)     (* blocked inside id->wait(old) since notify count ep *)
| ICwCas (i : idx) (old : idword)
| IDlLoad (i : idx)
| IDlCas (i : idx) (old : idword)
| IDlAdd (i : idx)
| IDlAnd (i : idx)
| IDlCancel (i : idx)
| IDlWLoad (i : idx)
| IDlWWait (i : idx) (old : idword)
| IDlWBlk (i : idx) (old : idword) (ep : nat)
| IBatch (es : list entry) (oi : dpol)
| IRun (e : entry)
| IRet (e : entry)
| IEndCb (i : idx) (u : uid)
| ISkipSub (i : idx) (u : uid)
| IPollWait (full : bool)        (* decided: full timeout (true) or cut short because work is pending *)
| IPollLeave.

Inductive event :=
| EvPost (u : uid) (tgt : tid) (k : kind) (oid : option idx)
| EvPushed (u : uid) (tgt : tid) (k : kind) (first : bool)
| EvIntr (u : uid) (tgt : tid)
| EvPostRet (u : uid)
| EvRun (u : uid) (t : tid) (oid : option idx) (k : kind)
| EvRet (u : uid)
| EvSkip (u : uid)
| EvCwBegin (t : tid) (i : idx)
| EvCwRet (t : tid) (i : idx) (two : bool).

(* control state of a thread *)
Record thread := mkT {
  todo : list item;
  proc : option idx;        (* m_callback_processing_id *)
  cur : option uid;         (* ghost: callback this thread is inside *)
  nposted : nat;
  cwsnap : list (uid * idx) (* ghost: posts under the id that had returned when cancel-wait began *)
}.

(* the part of a Thread object other threads write: callback queues, flags, poll state *)
Record mbox := mkB {
  qn : list entry;          (* m_callbacks *)
  qi : list entry;          (* m_interrupt_callbacks *)
  hasn : bool;              (* m_has_callbacks *)
  hasi : bool;              (* m_has_interrupt_callbacks *)
  intr : bool;              (* poll state has flag_interrupted *)
  pol : bool                (* poll state has flag_polling: the thread is inside Poll::poll *)
}.

Record cfg := mkCfg {
  threads : list thread;
  boxes : list mbox;                (* same length as threads *)
  ids : list idword;
  bodies : list (list cmd);
  log : list event;                 (* newest first *)
  crashed : bool;                   (* internal_error thrown (count overflow) *)
  posted : list (uid * idx);        (* ghost: posts under an id that have returned *)
  fin1 : list (uid * idx);          (* ghost: finalised by a returned counter-draining cancel-wait *)
  fin2 : list (uid * idx)           (* ghost: same, for returns of the 0x8 handshake path *)
}.

Inductive label :=
| L_cb_fetch_add | L_cb_lock | L_cb_fetch_sub | L_cb_interrupt | L_cbn_lock
| L_cc_fetch_add | L_cw_load | L_cw_wait | L_cw_cas
| L_dl_load | L_dl_cas | L_dl_fetch_add | L_dl_fetch_and | L_dl_wload | L_dl_wwait | L_fx_wake
| L_pc_store | L_pc_lock | L_pc_fetch_add | L_pc_fetch_sub | L_pc_skip_sub
| L_run | L_ret | L_nop | L_poll_enter | L_poll_wait_short | L_poll_wait_full | L_poll_leave.

Fixpoint upd {A} (l : list A) (n : nat) (x : A) : list A :=
  match l, n with
  | [], _ => []
  | _ :: r, O => x :: r
  | y :: r, S m => y :: upd r m x
  end.

Definition uid_eqb (a b : uid) : bool := Nat.eqb (fst a) (fst b) && Nat.eqb (snd a) (snd b).
Definition oidx_is (o : option idx) (i : idx) : bool :=
  match o with Some j => Nat.eqb j i | None => false end.
Definition ouid_is (o : option uid) (u : uid) : bool :=
  match o with Some v => uid_eqb v u | None => false end.

Definition set_todo (th : thread) (td : list item) : thread :=
  mkT td (proc th) (cur th) (nposted th) (cwsnap th).
Definition set_proc (th : thread) (p : option idx) : thread :=
  mkT (todo th) p (cur th) (nposted th) (cwsnap th).
Definition set_cur (th : thread) (p : option uid) : thread :=
  mkT (todo th) (proc th) p (nposted th) (cwsnap th).
Definition inc_posted (th : thread) : thread :=
  mkT (todo th) (proc th) (cur th) (S (nposted th)) (cwsnap th).
Definition set_snap (th : thread) (s : list (uid * idx)) : thread :=
  mkT (todo th) (proc th) (cur th) (nposted th) s.

(* Poll::do_interrupt: CAS(flag_polling -> flag_polling|flag_interrupted); a no-op unless the target is
   polling and not yet interrupted *)
Definition set_intr (b : mbox) : mbox :=
  if pol b && negb (intr b) then mkB (qn b) (qi b) (hasn b) (hasi b) true (pol b) else b.
Definition set_poll (b : mbox) (p i : bool) : mbox := mkB (qn b) (qi b) (hasn b) (hasi b) i p.
Definition set_hasi (b : mbox) (v : bool) : mbox := mkB (qn b) (qi b) (hasn b) v (intr b) (pol b).
(* the locked section of Thread::callback on the TARGET thread object; returns should_interrupt *)
Definition push_entry (b : mbox) (k : kind) (e : entry) : mbox * bool :=
  match k with
  | KIntr =>
      let first := match qi b with [] => true | _ => false end in
      (mkB (qn b) (qi b ++ [e]) (hasn b) (if first then true else hasi b) (intr b) (pol b), first)
  | KNormal =>
      let first := match qn b with [] => true | _ => false end in
      (mkB (qn b ++ [e]) (qi b) (if first then true else hasn b) (hasi b) (intr b) (pol b), first)
  end.

Definition set_threads (c : cfg) (ts : list thread) : cfg :=
  mkCfg ts (boxes c) (ids c) (bodies c) (log c) (crashed c) (posted c) (fin1 c) (fin2 c).
Definition set_boxes (c : cfg) (bs : list mbox) : cfg :=
  mkCfg (threads c) bs (ids c) (bodies c) (log c) (crashed c) (posted c) (fin1 c) (fin2 c).
Definition set_ids (c : cfg) (ws : list idword) : cfg :=
  mkCfg (threads c) (boxes c) ws (bodies c) (log c) (crashed c) (posted c) (fin1 c) (fin2 c).
Definition add_log (c : cfg) (evs : list event) : cfg :=
  mkCfg (threads c) (boxes c) (ids c) (bodies c) (evs ++ log c) (crashed c) (posted c) (fin1 c) (fin2 c).
Definition set_crashed (c : cfg) : cfg :=
  mkCfg (threads c) (boxes c) (ids c) (bodies c) (log c) true (posted c) (fin1 c) (fin2 c).
Definition add_posted (c : cfg) (u : uid) (oid : option idx) : cfg :=
  match oid with
  | Some i => mkCfg (threads c) (boxes c) (ids c) (bodies c) (log c) (crashed c) ((u, i) :: posted c) (fin1 c) (fin2 c)
  | None => c
  end.
Definition add_fin (c : cfg) (two : bool) (us : list (uid * idx)) : cfg :=
  if two then mkCfg (threads c) (boxes c) (ids c) (bodies c) (log c) (crashed c) (posted c) (fin1 c) (us ++ fin2 c)
  else mkCfg (threads c) (boxes c) (ids c) (bodies c) (log c) (crashed c) (posted c) (us ++ fin1 c) (fin2 c).

Definition set_thread (c : cfg) (t : tid) (th : thread) : cfg := set_threads c (upd (threads c) t th).
Definition set_box (c : cfg) (t : tid) (b : mbox) : cfg := set_boxes c (upd (boxes c) t b).
Definition set_id (c : cfg) (i : idx) (w : idword) : cfg := set_ids c (upd (ids c) i w).

Definition snapshot (c : cfg) (i : idx) : list (uid * idx) :=
  filter (fun p => Nat.eqb (snd p) i) (posted c).

(* post returned: ghost bookkeeping *)
Definition post_ret (c : cfg) (u : uid) (oid : option idx) : cfg :=
  add_log (add_posted c u oid) [EvPostRet u].

(* cancel-wait on id i returned on thread t (whose record is th) *)
Definition cw_ret (c : cfg) (t : tid) (th : thread) (i : idx) (two : bool) : cfg :=
  let us := filter (fun p => Nat.eqb (snd p) i && negb (ouid_is (cur th) (fst p))) (cwsnap th) in
  add_log (add_fin c two us) [EvCwRet t i two].

Definition begin_cw (c : cfg) (t : tid) (th : thread) (i : idx) : cfg * thread :=
  (add_log c [EvCwBegin t i], set_snap th (snapshot c i)).

(* the decision after `current_id = id->load()` in cancel_callback_and_wait(id) *)
Definition cw_after_load (th : thread) (i : idx) (w : idword) : item :=
  if (2 <=? cnt w)%N then ICwWait i w
  else if (cnt w =? 1)%N && negb (oidx_is (proc th) i) then ICwWait i w
  else ICwCas i w.

(* the locked section of process_callbacks as the current source has it: (batch, box) ; batch = [] means return *)
Definition disp_default (b : mbox) (oi : bool) : list entry * mbox :=
  match qi b with
  | _ :: _ => (qi b, mkB (qn b) [] (hasn b) (hasi b) (intr b) (pol b))
  | [] =>
      if oi then ([], mkB (qn b) [] (hasn b) false (intr b) (pol b))
      else match qn b with
        | _ :: _ => (qn b, mkB [] [] (hasn b) (hasi b) (intr b) (pol b))
        | [] => ([], mkB [] [] false false (intr b) (pol b))
        end
  end.
Definition nonempty {A} (l : list A) : bool := match l with [] => false | _ => true end.
(* ... and under an observed choice: the taken queues are moved whole and in order (interrupt batch first), the flags
   become what was observed; a choice that clears a flag over a non-empty queue is rejected (side condition of the
   poll theorems; such an implementation loses wake-ups and is reported by the oracle) *)
Definition disp_lock (b : mbox) (oi : dpol) : option (list entry * mbox * dpol) :=
  match snd oi with
  | [] => let '(batch, b1) := disp_default b (fst oi) in Some (batch, b1, oi)
  | ch :: chs =>
      let qi' := if ch_ti ch then [] else qi b in
      let qn' := if ch_tn ch then [] else qn b in
      if (negb (ch_hn ch) && nonempty qn') || (negb (ch_hi ch) && nonempty qi') then None
      else Some ((if ch_ti ch then qi b else []) ++ (if ch_tn ch then qn b else []),
                 mkB qn' qi' (ch_hn ch) (ch_hi ch) (intr b) (pol b), (fst oi, chs))
  end.

Definition label_of_cmd (th : thread) (c : cmd) : label :=
  match c with
  | Post _ _ (Some _) _ => L_cb_fetch_add
  | Post _ _ None _ => L_cbn_lock
  | Cancel _ => L_cc_fetch_add
  | CancelWait _ => L_cw_load
  | CancelWait2 i => if oidx_is (proc th) i then L_dl_load else L_cw_load
  | Dispatch _ => match cur th with Some _ => L_nop | None => L_pc_store end
  | PollOnce => L_poll_enter
  end.

Definition label_of_item (th : thread) (it : item) : label :=
  match it with
  | ICmd c => label_of_cmd th c
  | IPostLock _ _ _ _ _ _ => L_cb_lock
  | IPostSub _ _ _ _ => L_cb_fetch_sub
  | IPostIntr _ _ _ => L_cb_interrupt
  | ICwLoad _ => L_cw_load
  | ICwWait _ _ => L_cw_wait
  | ICwBlk _ _ _ => L_fx_wake
  | ICwCas _ _ => L_cw_cas
  | IDlLoad _ => L_dl_load
  | IDlCas _ _ => L_dl_cas
  | IDlAdd _ => L_dl_fetch_add
  | IDlAnd _ => L_dl_fetch_and
  | IDlCancel _ => L_cc_fetch_add
  | IDlWLoad _ => L_dl_wload
  | IDlWWait _ _ => L_dl_wwait
  | IDlWBlk _ _ _ => L_fx_wake
  | IBatch [] _ => L_pc_lock
  | IBatch (e :: _) _ => match e_id e with Some _ => L_pc_fetch_add | None => L_run end
  | IRun _ => L_run
  | IRet _ => L_ret
  | IEndCb _ _ => L_pc_fetch_sub
  | ISkipSub _ _ => L_pc_skip_sub
  | IPollWait full => if full then L_poll_wait_full else L_poll_wait_short
  | IPollLeave => L_poll_leave
  end.

(* push e into the mailbox of thread tgt *)
Definition push_to (c : cfg) (tgt : tid) (k : kind) (e : entry) : option (cfg * bool) :=
  match nth_error (boxes c) tgt with
  | None => None
  | Some b => let '(b', first) := push_entry b k e in Some (set_box c tgt b', first)
  end.
Definition interrupt (c : cfg) (tgt : tid) : option cfg :=
  match nth_error (boxes c) tgt with
  | None => None
  | Some b => Some (set_box c tgt (set_intr b))
  end.

Definition start_entry (c : cfg) (t : tid) (th : thread) (e : entry) (rest : list item) : cfg :=
  let body := nth (e_body e) (bodies c) [] in
  add_log (set_thread c t (set_cur (set_todo th (map ICmd body ++ IRet e :: rest)) (Some (e_uid e))))
          [EvRun (e_uid e) t (e_id e) (e_kind e)].

(* one step of thread t; None = not enabled (finished, blocked in a wait, or ill-formed target) *)
Definition step (c : cfg) (t : tid) : option cfg :=
  match nth_error (threads c) t with
  | None => None
  | Some th =>
    match todo th with
    | [] => None
    | it :: rest =>
      let th0 := set_todo th rest in
      match it with
      | ICmd (Post tgt k (Some i) b) =>
          match nth_error (ids c) i with
          | None => None
          | Some w =>
              let u := (t, nposted th) in
              let c1 := add_log (set_id c i (add1 w)) [EvPost u tgt k (Some i)] in
              if (cnt w =? 7)%N then
                Some (set_crashed (set_thread c1 t (set_todo (inc_posted th) [])))
              else
                Some (set_thread c1 t (set_todo (inc_posted th) (IPostLock tgt k i u (upper w) b :: rest)))
          end
      | IPostLock tgt k i u exp b =>
          match push_to c tgt k (mkE u (Some i) exp b k) with
          | None => None
          | Some (c1, first) =>
              Some (add_log (set_thread c1 t (set_todo th (IPostSub tgt i u first :: rest)))
                            [EvPushed u tgt k first])
          end
      | IPostSub tgt i u si =>
          match nth_error (ids c) i with
          | None => None
          | Some w =>
              let c1 := set_id c i (notify (sub1 w)) in     (* fetch_sub(1); notify_all() *)
              if si then Some (set_thread c1 t (set_todo th (IPostIntr tgt u (Some i) :: rest)))
              else Some (post_ret (set_thread c1 t th0) u (Some i))
          end
      | IPostIntr tgt u oid =>
          match interrupt c tgt with
          | None => None
          | Some c1 => Some (post_ret (add_log (set_thread c1 t th0) [EvIntr u tgt]) u oid)
          end
      | ICmd (Post tgt k None b) =>
          let u := (t, nposted th) in
          match push_to c tgt k (mkE u None (0%N, false) b k) with
          | None => None
          | Some (c1, first) =>
              let c2 := add_log c1 [EvPushed u tgt k first; EvPost u tgt k None] in
              if first then Some (set_thread c2 t (set_todo (inc_posted th) (IPostIntr tgt u None :: rest)))
              else Some (post_ret (set_thread c2 t (set_todo (inc_posted th) rest)) u None)
          end
      | ICmd (Cancel i) =>
          match nth_error (ids c) i with
          | None => None
          | Some w => Some (set_thread (set_id c i (bump w)) t th0)
          end
      | ICmd (CancelWait i) =>
          match nth_error (ids c) i with
          | None => None
          | Some w =>
              let '(c1, th1) := begin_cw c t th i in
              Some (set_thread c1 t (set_todo th1 (cw_after_load th i w :: rest)))
          end
      | ICmd (CancelWait2 i) =>
          match nth_error (ids c) i with
          | None => None
          | Some w =>
              let '(c1, th1) := begin_cw c t th i in
              if oidx_is (proc th) i then
                (* dl_load *)
                if dl w then Some (set_thread c1 t (set_todo th1 (IDlCancel i :: IDlWLoad i :: rest)))
                else Some (set_thread c1 t (set_todo th1 (IDlCas i w :: rest)))
              else Some (set_thread c1 t (set_todo th1 (cw_after_load th i w :: rest)))
          end
      | ICwLoad i =>
          match nth_error (ids c) i with
          | None => None
          | Some w => Some (set_thread c t (set_todo th (cw_after_load th i w :: rest)))
          end
      | ICwWait i old =>                (* enters id->wait(old): returns at once if the word differs, else blocks *)
          match nth_error (ids c) i with
          | None => None
          | Some w => if word_eqb w old then Some (set_thread c t (set_todo th (ICwBlk i old (ntf w) :: rest)))
                      else Some (set_thread c t (set_todo th (ICwLoad i :: rest)))
          end
      | ICwBlk i old ep =>              (* enabled only by a notify since it blocked; then re-checks the word *)
          match nth_error (ids c) i with
          | None => None
          | Some w => if Nat.eqb (ntf w) ep then None
                      else if word_eqb w old then Some (set_thread c t (set_todo th (ICwBlk i old (ntf w) :: rest)))
                      else Some (set_thread c t (set_todo th (ICwLoad i :: rest)))
          end
      | ICwCas i old =>
          match nth_error (ids c) i with
          | None => None
          | Some w =>
              if word_eqb w old then Some (cw_ret (set_thread (set_id c i (bump w)) t th0) t th0 i false)
              else Some (set_thread c t (set_todo th (ICwLoad i :: rest)))
          end
      | IDlLoad i =>
          match nth_error (ids c) i with
          | None => None
          | Some w =>
              if dl w then Some (set_thread c t (set_todo th (IDlCancel i :: IDlWLoad i :: rest)))
              else Some (set_thread c t (set_todo th (IDlCas i w :: rest)))
          end
      | IDlCas i old =>
          match nth_error (ids c) i with
          | None => None
          | Some w =>
              if word_eqb w old then
                Some (set_thread (set_id c i (set_dl w true)) t (set_todo th (IDlAdd i :: IDlAnd i :: rest)))
              else Some (set_thread c t (set_todo th (IDlLoad i :: rest)))
          end
      | IDlAdd i =>
          match nth_error (ids c) i with
          | None => None
          | Some w => Some (set_thread (set_id c i (bump w)) t th0)
          end
      | IDlAnd i =>
          match nth_error (ids c) i with
          | None => None
          | Some w => Some (cw_ret (set_thread (set_id c i (notify (set_dl w false))) t th0) t th0 i true)
          end
      | IDlCancel i =>
          match nth_error (ids c) i with
          | None => None
          | Some w => Some (set_thread (set_id c i (bump w)) t th0)
          end
      | IDlWLoad i =>
          match nth_error (ids c) i with
          | None => None
          | Some w =>
              if dl w then Some (set_thread c t (set_todo th (IDlWWait i w :: rest)))
              else Some (cw_ret (set_thread c t th0) t th0 i true)
          end
      | IDlWWait i old =>
          match nth_error (ids c) i with
          | None => None
          | Some w => if word_eqb w old then Some (set_thread c t (set_todo th (IDlWBlk i old (ntf w) :: rest)))
                      else Some (set_thread c t (set_todo th (IDlWLoad i :: rest)))
          end
      | IDlWBlk i old ep =>
          match nth_error (ids c) i with
          | None => None
          | Some w => if Nat.eqb (ntf w) ep then None
                      else if word_eqb w old then Some (set_thread c t (set_todo th (IDlWBlk i old (ntf w) :: rest)))
                      else Some (set_thread c t (set_todo th (IDlWLoad i :: rest)))
          end
      | ICmd (Dispatch oi) =>
          match cur th with
          | Some _ => Some (set_thread c t th0)                       (* nested dispatch: not modelled, no-op *)
          | None =>
              match nth_error (boxes c) t with
              | None => None
              | Some b => Some (set_thread (set_box c t (set_hasi b false)) t (set_todo th (IBatch [] oi :: rest)))
              end
          end
      | IBatch [] oi =>
          match nth_error (boxes c) t with
          | None => None
          | Some b =>
              match disp_lock b oi with
              | None => None
              | Some (batch, b1, oi') =>
                  match batch with
                  | [] => Some (set_thread (set_box c t b1) t th0)
                  | _ => Some (set_thread (set_box c t b1) t (set_todo th (IBatch batch oi' :: rest)))
                  end
              end
          end
      | IBatch (e :: es) oi =>
          match e_id e with
          | None => Some (start_entry c t th e (IBatch es oi :: rest))
          | Some i =>
              match nth_error (ids c) i with
              | None => None
              | Some w =>
                  let c1 := set_id c i (add1 w) in
                  if (cnt w =? 7)%N then Some (set_crashed (set_thread c1 t (set_todo th [])))
                  else if upper_eqb (upper w) (e_exp e) then
                    Some (set_thread c1 t (set_proc (set_todo th (IRun e :: IBatch es oi :: rest)) (Some i)))
                  else
                    Some (set_thread c1 t (set_todo th (ISkipSub i (e_uid e) :: IBatch es oi :: rest)))
              end
          end
      | IRun e => Some (start_entry c t th e rest)
      | IRet e =>
          let th1 := set_cur th None in
          match e_id e with
          | Some i => Some (add_log (set_thread c t (set_proc (set_todo th1 (IEndCb i (e_uid e) :: rest)) None)) [EvRet (e_uid e)])
          | None => Some (add_log (set_thread c t (set_todo th1 rest)) [EvRet (e_uid e)])
          end
      | IEndCb i u =>
          match nth_error (ids c) i with
          | None => None
          | Some w => Some (set_thread (set_id c i (notify (sub1 w))) t th0)
          end
      | ISkipSub i u =>
          match nth_error (ids c) i with
          | None => None
          | Some w => Some (add_log (set_thread (set_id c i (notify (sub1 w))) t th0) [EvSkip u])
          end
      | ICmd PollOnce =>
          match nth_error (boxes c) t with
          | None => None
          | Some b =>
              let full := negb (intr b || hasn b || hasi b) in
              Some (set_thread (set_box c t (set_poll b true (intr b))) t (set_todo th (IPollWait full :: rest)))
          end
      | IPollWait _ => Some (set_thread c t (set_todo th (IPollLeave :: rest)))
      | IPollLeave =>
          match nth_error (boxes c) t with
          | None => None
          | Some b => Some (set_thread (set_box c t (set_poll b false false)) t th0)
          end
      end
    end
  end.

Definition label_at (c : cfg) (t : tid) : option label :=
  match nth_error (threads c) t with
  | None => None
  | Some th => match todo th with [] => None | it :: _ => Some (label_of_item th it) end
  end.

Definition init_thread (p : list cmd) : thread := mkT (map ICmd p) None None 0 [].
Definition init (progs : list (list cmd)) (nids : nat) (bds : list (list cmd)) : cfg :=
  mkCfg (map init_thread progs) (map (fun _ => mkB [] [] false false false false) progs)
        (repeat (mkW 0 false 0 0) nids) bds [] false [] [] [].

(* a schedule step on a thread that is not enabled leaves the configuration unchanged *)
Definition sstep (c : cfg) (t : tid) : cfg := match step c t with Some c' => c' | None => c end.
Definition run (c : cfg) (sched : list tid) : cfg := fold_left sstep sched c.

Definition finished (c : cfg) : bool := forallb (fun th => match todo th with [] => true | _ => false end) (threads c).
Definition enabled (c : cfg) (t : tid) : bool := match step c t with Some _ => true | None => false end.
