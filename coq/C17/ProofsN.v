(* C17 proofs, part N: the notify / wait discipline of id->wait().
   A thread inside id->wait(old) whose word equalled [old] is BLOCKED (ICwBlk / IDlWBlk) and is enabled again only by a
   notify_all() on the id issued after it blocked (ghost notify count Model.ntf) - not by a changed word. Proved here:
   no wake-up is lost, i.e. every store that can make a waited-for condition true (count decrement, clearing of the 0x8
   flag) happens in the same step as a notify, so a blocked thread that has NOT been notified still has its reason to
   wait: the count has not dropped / the flag is still set, and some OTHER thread holds the count unit / the flag. *)
From Coq Require Import List NArith Bool Arith Lia.
From LTV.C17 Require Import Model ProofsA ProofsB ProofsC ProofsG ProofsL.
Import ListNotations.

(* what one step may do to the id words: the notify count never decreases, and while it stays the same the in-progress
   count does not drop and a set 0x8 flag is not cleared *)
Definition ids_rel (a b : list idword) : Prop :=
  forall i w', nth_error b i = Some w' -> exists w, nth_error a i = Some w /\
    ntf w <= ntf w' /\ (ntf w' = ntf w -> (cnt w <= cnt w')%N /\ (dl w = true -> dl w' = true)).

Lemma ids_rel_refl a : ids_rel a a.
Proof. intros i w H. exists w. repeat split; auto; lia. Qed.
Lemma ids_rel_upd a i w x : nth_error a i = Some w ->
  ntf w <= ntf x -> (ntf x = ntf w -> (cnt w <= cnt x)%N /\ (dl w = true -> dl x = true)) -> ids_rel a (upd a i x).
Proof.
  intros Hw L C j w' Hj. rewrite nth_error_upd in Hj. destruct (Nat.eqb i j) eqn:E.
  - apply Nat.eqb_eq in E; subst. rewrite Hw in Hj. injection Hj as <-. exists w. auto.
  - exists w'. repeat split; auto; lia.
Qed.

Lemma ntf_add1 w : ntf (add1 w) = ntf w.
Proof. unfold add1. destruct (cnt w <? 7)%N; reflexivity. Qed.
Lemma ntf_sub1 w : ntf (sub1 w) = ntf w.
Proof. unfold sub1. destruct (0 <? cnt w)%N; reflexivity. Qed.

(* RELEASE_STORE_NOTIFIES: every store that lowers the in-progress count of an id or clears its 0x8 flag is made in the
   same step as a notify_all() on that id (ALL programs, ALL steps) *)
Lemma step_ids_rel c t c' : crashed c' = false -> cnt_inv c -> step c t = Some c' -> ids_rel (ids c) (ids c').
Proof.
  intros NC CI H. unfold step in H. more_cases H; use_specs; proj_simpl; try discriminate.
  all: try apply ids_rel_refl.
  all: repeat match goal with Hw : nth_error (ids _) ?i = Some ?w |- _ =>
         lazymatch goal with | _ : (cnt w <= 7)%N |- _ => fail | _ => destruct (CI _ _ Hw) as (? & _) end end.
  all: eapply ids_rel_upd; eauto; simpl; rewrite ?ntf_add1, ?ntf_sub1; try lia.
  all: try (intros _; split; auto; try lia).
  all: try match goal with Hb : (cnt ?w =? 7)%N = false, Hl : (cnt ?w <= 7)%N |- _ =>
             destruct (add1_cnt w Hl Hb); rewrite ?(dl_add1 w Hl Hb); auto; lia end.
Qed.

(* a blocked waiter that has not been notified since it blocked still has its reason to wait *)
Definition wait_ok (ids : list idword) (it : item) : Prop :=
  match it with
  | ICwBlk i old ep => forall w, nth_error ids i = Some w -> ep <= ntf w /\ (ntf w = ep -> (cnt old <= cnt w)%N)
  | IDlWBlk i old ep => forall w, nth_error ids i = Some w -> ep <= ntf w /\ (ntf w = ep -> dl w = true)
  | _ => True
  end.
Definition winv (c : cfg) : Prop := forall t th, nth_error (threads c) t = Some th -> Forall (wait_ok (ids c)) (todo th).

Lemma wait_ok_rel a b it : ids_rel a b -> wait_ok a it -> wait_ok b it.
Proof.
  intros R H. destruct it; simpl in *; auto; intros w' Hw'; destruct (R _ _ Hw') as (w & Hw & L & C); destruct (H _ Hw) as (L1 & C1).
  - split. lia. intros E. assert (ntf w = ep) as E1 by lia. assert (ntf w' = ntf w) as E2 by lia.
    destruct (C E2) as (C2 & C3). specialize (C1 E1). eapply N.le_trans; eauto.
  - split. lia. intros E. assert (ntf w = ep) as E1 by lia. assert (ntf w' = ntf w) as E2 by lia.
    destruct (C E2) as (C2 & C3). specialize (C1 E1). auto.
Qed.
Lemma wait_cmds ids l : Forall (wait_ok ids) (map ICmd l).
Proof. induction l; simpl; constructor; simpl; auto. Qed.
Lemma wait_cw ids th i w : wait_ok ids (cw_after_load th i w).
Proof. unfold cw_after_load. destruct (2 <=? cnt w)%N; simpl; auto. destruct ((cnt w =? 1)%N && negb (oidx_is (proc th) i)); simpl; auto. Qed.

Lemma winv_general c c' t th th' :
  winv c -> nth_error (threads c) t = Some th -> threads c' = upd (threads c) t th' ->
  ids_rel (ids c) (ids c') -> Forall (wait_ok (ids c')) (todo th') -> winv c'.
Proof.
  intros I Ht Et R F k thk Hk. rewrite Et in Hk. apply nth_upd_cases in Hk. destruct Hk as [(-> & ->) | (N & Hk)]; auto.
  eapply Forall_impl; [|apply (I _ _ Hk)]. intros; eapply wait_ok_rel; eauto.
Qed.

Lemma word_eq_cnt a b : word_eqb a b = true -> (cnt a <= 7)%N -> (cnt b <= 7)%N -> cnt a = cnt b.
Proof.
  unfold word_eqb, word_N. intros H La Lb. apply N.eqb_eq in H.
  assert (forall x d c, (c <= 7)%N -> (d = 0 \/ d = 8)%N -> ((x * 16 + d + c) mod 8 = c)%N) as M.
  { intros x d c Lc Hd. replace (x * 16 + d + c)%N with (c + (x * 2 + d / 8) * 8)%N.
    rewrite N.mod_add by lia. apply N.mod_small. lia.
    destruct Hd as [-> | ->]; [change (0 / 8)%N with 0%N | change (8 / 8)%N with 1%N]; lia. }
  pose proof (M (gen a mod gmod)%N (if dl a then 8 else 0)%N (cnt a) La) as Ma.
  pose proof (M (gen b mod gmod)%N (if dl b then 8 else 0)%N (cnt b) Lb) as Mb.
  assert (forall x : bool, (if x then 8 else 0) = 0 \/ (if x then 8 else 0) = 8)%N as D by (destruct x; auto).
  specialize (Ma (D _)). specialize (Mb (D _)). rewrite H in Ma. congruence.
Qed.

Lemma step_winv c t c' : crashed c' = false -> cnt_inv c -> olds_ok c -> winv c -> step c t = Some c' -> winv c'.
Proof.
  intros NC CI OK I H. pose proof (step_ids_rel _ _ _ NC CI H) as R.
  open_step H th it rest Ht Htd.
  pose proof (I _ _ Ht) as Hth. rewrite Htd in Hth. inversion Hth as [|? ? Hit Hrest]; subst.
  pose proof (Forall_nth_error _ _ _ _ OK Ht) as Ho. cbv beta in Ho. rewrite Htd in Ho. inversion Ho as [|? ? Hoit _]; subst.
  assert (Forall (wait_ok (ids c')) rest) as Hrest'.
  { eapply Forall_impl; [|exact Hrest]. intros; eapply wait_ok_rel; eauto. }
  clear Hrest.
  more_cases H; use_specs; proj_simpl; try discriminate.
  all: eapply winv_general; [exact I | exact Ht | proj_simpl; reflexivity | proj_simpl; exact R | ].
  all: proj_simpl.
  all: try assumption.
  all: try (apply Forall_app; split; [apply wait_cmds|]).
  all: repeat (constructor; simpl; auto using wait_cw).
  all: match goal with H1 : nth_error (ids ?cc) ?i = Some ?a, H2 : nth_error (ids ?cc) ?i = Some ?b |- _ =>
         rewrite H1 in H2; injection H2 as <- end.
  all: try lia.
  all: intros _.
  all: match goal with Hw : nth_error (ids _) _ = Some ?w, He : word_eqb ?w ?o = true, Ho : _ |- _ =>
         match type of Ho with
         | (cnt o <= 7)%N => destruct (CI _ _ Hw) as (L7 & _); rewrite (word_eq_cnt _ _ He L7 Ho); apply N.le_refl
         | (cnt o <= 7)%N /\ _ => destruct (CI _ _ Hw) as (L7 & _); destruct Ho as (Lo & Do); rewrite (word_eq_dl _ _ He L7 Lo); exact Do
         end end.
Qed.

Lemma init_winv progs nids bds : winv (init progs nids bds).
Proof.
  intros t th H. unfold init in H; simpl in H. apply nth_error_In in H. apply in_map_iff in H. destruct H as (p & <- & _).
  apply wait_cmds.
Qed.
Lemma reachable_winv progs nids bds c : reachable (init progs nids bds) c -> crashed c = false -> winv c.
Proof.
  induction 1; intros NC. apply init_winv.
  assert (crashed c = false) as NC0. { destruct (crashed c) eqn:E; auto. erewrite step_crashed_mono in NC; eauto. }
  eapply step_winv; eauto. eapply reachable_cnt_nc; eauto. eapply reachable_olds; eauto.
Qed.


Lemma hsum_other j ts t th : nth_error ts t = Some th -> hl j (todo th) < hsum j ts ->
  exists t2 th2, t2 <> t /\ nth_error ts t2 = Some th2 /\ 1 <= hl j (todo th2).
Proof.
  revert t; induction ts as [|a ts IH]; destruct t; simpl; intros Ht L; try discriminate.
  - injection Ht as ->.
    assert (exists t2 th2, nth_error ts t2 = Some th2 /\ 1 <= hl j (todo th2)) as (t2 & th2 & H2 & L2).
    { clear IH. assert (0 < hsum j ts) as P by lia. clear L. induction ts as [|b ts IH2]; simpl in *. lia.
      destruct (hl j (todo b)) eqn:E. destruct (IH2 P) as (t2 & th2 & ? & ?). exists (S t2), th2; auto.
      exists 0, b. simpl. split; auto. lia. }
    exists (S t2), th2. repeat split; auto.
  - destruct (hl j (todo a)) eqn:E.
    + destruct (IH _ Ht ltac:(lia)) as (t2 & th2 & N & H2 & L2). exists (S t2), th2. repeat split; auto.
    + exists 0, a. repeat split; auto. simpl. lia.
Qed.

Lemma cshape_hl_proc j rest cu pr : cshape rest cu pr -> oidx_is pr j = false -> hl j rest = 0.
Proof.
  intros H E; destruct H; rewrite ?hl_app, ?hl_cmds; simpl; rewrite ?hl_cmds; auto. rewrite E. reflexivity.
Qed.

(* NO_LOST_WAKEUP_CANCEL_WAIT (ALL programs, bodies, ids, thread counts, schedules): a thread blocked inside
   id->wait() in cancel_callback_and_wait(id) that has not been notified since it blocked (= is not enabled) still
   sees the in-progress count it waits for, and ANOTHER thread holds a unit of that count (a post between its
   fetch_add and fetch_sub, or a dispatch between pc_fetch_add and pc_fetch_sub / pc_skip_sub); by
   step_ids_rel that thread's decrement comes with a notify_all in the same step, after which the waiter is enabled
   (notified_waiter_enabled). *)
Lemma no_lost_wakeup_cancel_wait progs nids bds c t th i old ep rest w :
  reachable (init progs nids bds) c -> crashed c = false ->
  nth_error (threads c) t = Some th -> todo th = ICwBlk i old ep :: rest ->
  nth_error (ids c) i = Some w -> ntf w = ep ->
  (cnt old <= cnt w)%N /\
  exists t2 th2, t2 <> t /\ nth_error (threads c) t2 = Some th2 /\ 1 <= hl i (todo th2).
Proof.
  intros R NC Ht Htd Hw En.
  pose proof (reachable_winv _ _ _ _ R NC _ _ Ht) as Wt. rewrite Htd in Wt. inversion Wt as [|? ? Hit _]; subst.
  simpl in Hit. destruct (Hit _ Hw) as (_ & Hc). specialize (Hc eq_refl). split; auto.
  destruct (reachable_cnt_nc _ _ _ _ R NC _ _ Hw) as (L7 & Ec).
  pose proof (Forall_nth_error _ _ _ _ (reachable_wf _ _ _ _ R NC) Ht) as Hsh. unfold wf_thread in Hsh. rewrite Htd in Hsh.
  apply shape_cons in Hsh. split_all; try discriminate.
  match goal with Hm : micro_ok _ _ |- _ => simpl in Hm; rename Hm into Hm0 end.
  match goal with Hc0 : cshape _ _ _ |- _ => rename Hc0 into Hcs end.
  apply (hsum_other i _ _ _ Ht). rewrite Htd. simpl.
  destruct Hm0 as [L2 | (E1 & Ep)].
  - pose proof (cshape_hl i _ _ _ Hcs). lia.
  - rewrite (cshape_hl_proc i _ _ _ Hcs Ep). lia.
Qed.

Lemma notified_waiter_enabled c t th i old ep rest w :
  nth_error (threads c) t = Some th -> todo th = ICwBlk i old ep :: rest \/ todo th = IDlWBlk i old ep :: rest ->
  nth_error (ids c) i = Some w -> ntf w <> ep -> enabled c t = true.
Proof.
  intros Ht Htd Hw N. apply Nat.eqb_neq in N. unfold enabled, step. rewrite Ht.
  destruct Htd as [-> | ->]; rewrite Hw, N; destruct (word_eqb w old); reflexivity.
Qed.

(* the same for the 0x8 handshake: a thread blocked in wait_for_deadlock's id->wait() that has not been notified still sees
   the flag set, and ANOTHER thread - the setter of the flag - is ENABLED and clears it (with a notify) within two of
   its own steps (ProofsL.setter_clears_flag): two threads in the handshake are never both blocked *)
Lemma no_lost_wakeup_handshake progs nids bds c t th i old ep rest w :
  reachable (init progs nids bds) c -> crashed c = false ->
  nth_error (threads c) t = Some th -> todo th = IDlWBlk i old ep :: rest ->
  nth_error (ids c) i = Some w -> ntf w = ep ->
  dl w = true /\
  exists t2 th2 r2, t2 <> t /\ nth_error (threads c) t2 = Some th2 /\
    (todo th2 = IDlAdd i :: IDlAnd i :: r2 \/ todo th2 = IDlAnd i :: r2) /\ enabled c t2 = true.
Proof.
  intros R NC Ht Htd Hw En.
  pose proof (reachable_winv _ _ _ _ R NC _ _ Ht) as Wt. rewrite Htd in Wt. inversion Wt as [|? ? Hit _]; subst.
  simpl in Hit. destruct (Hit _ Hw) as (_ & Hd). specialize (Hd eq_refl). split; auto.
  destruct (deadlock_flag_has_enabled_setter _ _ _ _ _ _ R NC Hw Hd) as (t2 & th2 & r2 & Ht2 & Hs & En2).
  exists t2, th2, r2. repeat split; auto. intros ->. rewrite Ht in Ht2. injection Ht2 as <-. rewrite Htd in Hs. destruct Hs; discriminate.
Qed.
