From Coq Require Import List NArith Bool.
From LTV.C17 Require Import Model Proofs ProofsA ProofsB.
Import ListNotations.

(* bit layout of the id word re-extracted from thread.cc / common.h *)
Theorem params_ok_now : Proofs.params_ok = true.
Proof. exact Proofs.params_ok_now. Qed.
Print Assumptions params_ok_now.

(* ALL programs, bodies, schedules: in every reachable state in which no count overflow was thrown,
   every thread's pending-operation stack has the shape of ProofsA.shape: at most one callback is
   being executed per thread, m_callback_processing_id is exactly that callback's id, a post /
   cancel in progress sits on top of it. *)
Theorem shape_invariant : forall progs nids bds c,
  reachable (init progs nids bds) c -> crashed c = false -> Forall wf_thread (threads c).
Proof. exact ProofsB.reachable_wf. Qed.
Print Assumptions shape_invariant.

Theorem in_callback_shape : forall progs nids bds c t th u,
  reachable (init progs nids bds) c -> crashed c = false ->
  nth_error (threads c) t = Some th -> cur th = Some u ->
  exists pre b e es oi p,
    todo th = pre ++ map ICmd b ++ IRet e :: IBatch es oi :: map ICmd p /\ e_uid e = u /\ proc th = e_id e /\
    (forall x, In x pre -> is_micro x = true \/ (exists i, x = IDlAdd i) \/ (exists i, x = IDlCancel i)).
Proof. exact ProofsB.in_callback_shape. Qed.
Print Assumptions in_callback_shape.

(* ALL schedules from ANY configuration: the (ghost, unbounded) generation of every id never decreases *)
Theorem generation_monotone : forall sched c, ids_le (ids c) (ids (run c sched)).
Proof. exact ProofsB.run_gen_monotone. Qed.
Print Assumptions generation_monotone.

(* cancel_final is FALSE for the two-argument form when the caller is inside a callback of the id
   (0x8 handshake path): computed witness, replayed on the real code by corpus/C17/refuted.case *)
Theorem cancel_final_two_arg_refuted :
  exists progs bds nids sched u t i,
    let c := run (init progs nids bds) sched in
    crashed c = false /\ In u (fin2 c) /\ runs_after_cancel (rev (log c)) u t i = true.
Proof. exact ProofsB.cancel_final_two_arg_refuted. Qed.
Print Assumptions cancel_final_two_arg_refuted.

(* mutual cancellation through the single-argument form deadlocks (why the two-argument form exists) *)
Theorem single_arg_mutual_cancel_deadlocks :
  exists sched, let c := run (init dead_progs 1 dead_bodies) sched in
    finished c = false /\ enabled c 0 = false /\ enabled c 1 = false.
Proof. exact ProofsB.single_arg_mutual_cancel_deadlocks. Qed.
Print Assumptions single_arg_mutual_cancel_deadlocks.

(* finite instance (bound in the statement): from the reachable state in which both threads are inside a
   callback of the shared id and about to call cancel_callback_and_wait(id, other), every maximal
   interleaving finishes both threads within 40 steps *)
Theorem mutual_cancel_no_deadlock_instance :
  reachable (init dead_progs 1 mut_bodies) mut_mid /\ all_paths_finish 40 mut_mid = true.
Proof. exact ProofsB.mutual_cancel_no_deadlock_instance. Qed.
Print Assumptions mutual_cancel_no_deadlock_instance.
