From Coq Require Import List NArith Bool.
From LTV.C17 Require Import Model Proofs ProofsA ProofsB ProofsC ProofsD ProofsE ProofsF ProofsG ProofsH ProofsI ProofsJ ProofsK ProofsL ProofsM ProofsN ProofsO.
Import ListNotations.

(* Conventions: all theorems quantify over ALL client programs [progs], callback bodies [bds], id counts and
   ALL schedules (reachable = closure of [step c t] over every thread choice). Assumptions of the
   model: sequentially consistent atomics, strong CAS; id->wait(old) returns at once if the word differs from old, otherwise
   the thread is blocked until a LATER notify_all() on the id (ghost notify count Model.ntf) - see the NOTIFY / WAIT section. *)

(* bit layout of the id word re-extracted from thread.cc / common.h *)
Theorem params_ok_now : Proofs.params_ok = true.
Proof. exact Proofs.params_ok_now. Qed.
Print Assumptions params_ok_now.

(* at most one callback is being executed per thread, m_callback_processing_id is exactly that
   callback's id, a post / cancel in progress sits on top of it; a thread parked at cw_wait / cw_cas
   carries the facts it observed (ProofsA.micro_ok) *)
Theorem shape_invariant : forall progs nids bds c,
  reachable (init progs nids bds) c -> crashed c = false -> Forall wf_thread (threads c).
Proof. exact ProofsB.reachable_wf. Qed.
Print Assumptions shape_invariant.

Theorem in_callback_shape : forall progs nids bds c t th u,
  reachable (init progs nids bds) c -> crashed c = false ->
  nth_error (threads c) t = Some th -> cur th = Some u ->
  exists pre b e es oi p,
    todo th = pre ++ map ICmd b ++ IRet e :: IBatch es oi :: map ICmd p /\ e_uid e = u /\ proc th = e_id e /\
    (forall x, In x pre -> is_micro x = true \/ (exists i, x = IDlAdd i) \/ (exists i, x = IDlCancel i)).
Proof. exact ProofsB.in_callback_shape. Qed.
Print Assumptions in_callback_shape.

(* the (ghost, unbounded) generation of every id never decreases *)
Theorem generation_monotone : forall sched c, ids_le (ids c) (ids (run c sched)).
Proof. exact ProofsB.run_gen_monotone. Qed.
Print Assumptions generation_monotone.

(* COUNT INVARIANT: count bits of every id word = posts in flight (between fetch_add and fetch_sub)
   + dispatches between their fetch_add and fetch_sub, summed over all threads; and <= 7 *)
Theorem count_invariant : forall progs nids bds c j w,
  reachable (init progs nids bds) c -> crashed c = false -> nth_error (ids c) j = Some w ->
  (cnt w <= 7)%N /\ cnt w = N.of_nat (hsum j (threads c)).
Proof. intros. eapply ProofsE.reachable_cnt; eauto. Qed.
Print Assumptions count_invariant.

(* with at most 3 threads the "lower id overflow" internal_error is unreachable, under every schedule *)
Theorem no_count_overflow : forall progs nids bds c,
  length progs <= 3 -> reachable (init progs nids bds) c -> crashed c = false.
Proof. intros. eapply ProofsC.reachable_all; eauto. Qed.
Print Assumptions no_count_overflow.

(* every queued / locally batched callback of an id has expected generation <= the id's generation *)
Theorem expected_le_generation : forall progs nids bds c e i w,
  reachable (init progs nids bds) c -> entry_of c e -> e_id e = Some i -> nth_error (ids c) i = Some w ->
  (fst (e_exp e) <= gen w)%N.
Proof. exact ProofsD.entries_expected_le. Qed.
Print Assumptions expected_le_generation.

(* CAS success in cancel_callback_and_wait(id)  =>  count = 0, or count = 1 and it is the caller's own
   dispatch; and no OTHER thread holds a count of the id (hl = 0: not posting under it, not between a
   dispatch's fetch_add and fetch_sub, not inside a callback of it - see not_holding_means) *)
Theorem cas_success_quiescent : forall progs nids bds c t th i old rest w,
  length progs <= 3 -> reachable (init progs nids bds) c ->
  nth_error (threads c) t = Some th -> todo th = ICwCas i old :: rest ->
  nth_error (ids c) i = Some w -> word_eqb w old = true ->
  (cnt w = 0%N \/ (cnt w = 1%N /\ proc th = Some i)) /\
  forall t2 th2, t2 <> t -> nth_error (threads c) t2 = Some th2 -> hl i (todo th2) = 0.
Proof. exact ProofsC.cas_success_quiescent. Qed.
Print Assumptions cas_success_quiescent.

Theorem not_holding_means : forall i th2, wf_thread th2 -> hl i (todo th2) = 0 ->
  proc th2 <> Some i /\
  (forall e, In (IRun e) (todo th2) \/ In (IRet e) (todo th2) -> e_id e <> Some i) /\
  (forall tgt k u x b, ~ In (IPostLock tgt k i u x b) (todo th2)) /\
  (forall tgt u si, ~ In (IPostSub tgt i u si) (todo th2)) /\
  (forall u, ~ In (IEndCb i u) (todo th2) /\ ~ In (ISkipSub i u) (todo th2)).
Proof. exact ProofsC.not_holding_means. Qed.
Print Assumptions not_holding_means.

(* CANCEL_FINAL for the counter-draining cancel-and-wait (single-argument form; by
   cancel_two_arg_outside_is_single also the two-argument form called from outside a callback of the id).
   [fin1 c] is the ghost list of pairs (u, i) such that a cancel_callback_and_wait(i) has RETURNED whose call
   began after the post of callback instance u under id i had returned, u not being the callback the canceller
   itself runs in (Model.begin_cw / Model.cw_ret). For every such pair, in every reachable state:
   (1) no thread is inside that callback; (2) it is never run afterwards under ANY further schedule.
   Explicit assumptions: at most 3 threads (count field), and [nowrap]: the 28-bit generation of no id has
   wrapped, i.e. fewer than 2^28 = gmod cancellations per id. *)
Theorem cancel_final_single : forall progs nids bds c u i,
  length progs <= 3 -> reachable (init progs nids bds) c -> In (u, i) (fin1 c) -> nowrap c ->
  (forall th, In th (threads c) -> ~ (cur th = Some u /\ proc th = Some i)) /\
  (forall sched, nowrap (run c sched) -> runs_ui u i (log (run c sched)) = runs_ui u i (log c)).
Proof. exact ProofsH.cancel_final_single. Qed.
Print Assumptions cancel_final_single.

(* the mechanism-level facts behind it (kept: they do not need the no-wrap assumption) *)
Theorem cancel_final_mechanism : forall progs nids bds c t th i old rest w,
  length progs <= 3 -> reachable (init progs nids bds) c ->
  nth_error (threads c) t = Some th -> todo th = ICwCas i old :: rest ->
  nth_error (ids c) i = Some w -> word_eqb w old = true ->
  (forall t2 th2, t2 <> t -> nth_error (threads c) t2 = Some th2 -> hl i (todo th2) = 0) /\
  (forall e, entry_of c e -> e_id e = Some i -> (fst (e_exp e) < gen (bump w))%N) /\
  (forall e w', (fst (e_exp e) < gen w')%N -> (gen w' < gmod)%N -> upper_eqb (upper w') (e_exp e) = false).
Proof. exact ProofsE.cancel_final_single_partial. Qed.
Print Assumptions cancel_final_mechanism.

(* two-argument form called from OUTSIDE a callback of the id behaves exactly as the single-argument
   form (so everything above applies to it) *)
Theorem cancel_two_arg_outside_is_single : forall c t th i rest,
  nth_error (threads c) t = Some th -> todo th = ICmd (CancelWait2 i) :: rest -> oidx_is (proc th) i = false ->
  step c t = step (set_thread c t (set_todo th (ICmd (CancelWait i) :: rest))) t.
Proof. exact ProofsE.two_arg_outside_is_single. Qed.
Print Assumptions cancel_two_arg_outside_is_single.

(* ... and from INSIDE a callback of the id cancel_final is FALSE (0x8 handshake path): computed witness,
   replayed on the real code by corpus/C17/refuted.case; known finding cw2-handshake-does-not-wait *)
Theorem cancel_final_two_arg_refuted :
  exists progs bds nids sched u t i,
    let c := run (init progs nids bds) sched in
    crashed c = false /\ In (u, i) (fin2 c) /\ runs_after_cancel (rev (log c)) u t i = true.
Proof. exact ProofsB.cancel_final_two_arg_refuted. Qed.
Print Assumptions cancel_final_two_arg_refuted.

(* SELF_CANCEL_OK: a thread inside a callback of id i never waits for its own dispatch count (entering the wait, or
   blocked in it) *)
Theorem self_cancel_ok : forall progs nids bds c t th i old rest,
  reachable (init progs nids bds) c -> crashed c = false ->
  nth_error (threads c) t = Some th -> todo th = ICwWait i old :: rest \/ (exists ep, todo th = ICwBlk i old ep :: rest) ->
  proc th = Some i ->
  (2 <= cnt old)%N.
Proof. exact ProofsE.self_cancel_ok. Qed.
Print Assumptions self_cancel_ok.
Theorem self_cancel_no_wait : forall th i w, proc th = Some i -> cnt w = 1%N -> cw_after_load th i w = ICwCas i w.
Proof. exact ProofsE.self_cancel_no_wait. Qed.
Print Assumptions self_cancel_no_wait.

(* RUNS_AT_MOST_ONCE: for ALL programs and schedules (any number of threads), every callback instance u has at
   most one run event in the log; more precisely a uid occurs at most once among {posts in flight, queues, local
   batches, decided-to-run items, run events} *)
Theorem runs_at_most_once : forall progs nids bds c u, reachable (init progs nids bds) c -> runs u (log c) <= 1.
Proof. exact ProofsF.runs_at_most_once. Qed.
Print Assumptions runs_at_most_once.
Theorem uid_unique : forall progs nids bds c u, reachable (init progs nids bds) c ->
  tsum u (threads c) + bsum u (boxes c) + runs u (log c) <= 1.
Proof. exact ProofsF.uid_unique. Qed.
Print Assumptions uid_unique.
Theorem runs_is_count : forall u l,
  runs u l = length (filter (fun e => match e with EvRun v _ _ _ => if uid_dec v u then true else false | _ => false end) l).
Proof. exact ProofsF.runs_is_count. Qed.
Print Assumptions runs_is_count.

(* FIFO_PER_KIND (trace level, ALL programs and schedules, any number of threads, including a thread posting to itself).
   A callback's uid is (poster, the poster's post counter at the time of the post), so [snd u] is the poster's post order
   (posts_in_counter_order: the EvPost events of one poster appear in the log in strictly increasing counter order).
   fifo_per_kind: the callbacks that poster P put into target T's queue of kind K have run on T in strictly increasing
   counter order ([run_keys T K P log] = the counters of the events [EvRun u T _ K] with [fst u = P], oldest first).
   The invariant behind it (ProofsM.finv): run log ++ running/batched entries of T ++ T's queue of kind K ++ the entry P
   is pushing, restricted to (P, T, K), is strictly increasing and below P's post counter; a step of T only deletes
   elements (cancelled entries are skipped), a step of P only appends, other threads do not touch it.
   fifo_per_kind_trace: the same on the event log alone. *)
Theorem posts_in_counter_order : forall progs nids bds c P,
  P < length progs -> reachable (init progs nids bds) c -> Sorted.StronglySorted lt (ProofsM.pk P (log c)).
Proof. exact ProofsM.posts_in_counter_order. Qed.
Print Assumptions posts_in_counter_order.
Theorem fifo_per_kind : forall progs nids bds c P T K,
  P < length progs -> T < length progs ->
  reachable (init progs nids bds) c -> crashed c = false ->
  Sorted.StronglySorted lt (ProofsM.run_keys T K P (log c)).
Proof. exact ProofsM.fifo_per_kind. Qed.
Print Assumptions fifo_per_kind.
Theorem fifo_per_kind_trace : forall progs nids bds c T K u1 u2 a1 a2 a3 l1 l2 l3 t1 t2 k1 k2 o1 o2 o3 o4,
  fst u1 < length progs -> T < length progs -> fst u2 = fst u1 ->
  reachable (init progs nids bds) c -> crashed c = false ->
  log c = a1 ++ EvPost u2 t2 k2 o2 :: a2 ++ EvPost u1 t1 k1 o1 :: a3 ->
  log c = l1 ++ EvRun u1 T o3 K :: l2 ++ EvRun u2 T o4 K :: l3 ->
  False.
Proof. exact ProofsM.fifo_per_kind_trace. Qed.
Print Assumptions fifo_per_kind_trace.
(* the queue mechanics used above: a post appends at the tail of the queue of its kind and leaves the other queue
   alone; a dispatch takes whole queues in order *)
Theorem fifo_queue_mechanics :
  (forall b k e,
    (k = KNormal -> qn (fst (push_entry b k e)) = qn b ++ [e] /\ qi (fst (push_entry b k e)) = qi b) /\
    (k = KIntr -> qi (fst (push_entry b k e)) = qi b ++ [e] /\ qn (fst (push_entry b k e)) = qn b)) /\
  (forall b oi batch b1 oi', disp_lock b oi = Some (batch, b1, oi') ->
    exists ti tn : bool,
      batch = (if ti then qi b else []) ++ (if tn then qn b else []) /\
      qi b1 = (if ti then [] else qi b) /\ qn b1 = (if tn then [] else qn b)).
Proof. split. exact ProofsE.push_appends. exact ProofsE.dispatch_takes_queue_in_order. Qed.
Print Assumptions fifo_queue_mechanics.

(* FIRST_PUSH_INTERRUPTS (trace level, ALL programs and schedules, any number of threads): a post that pushed into an
   empty queue of its kind ([EvPushed u tgt k true]) and has returned ([EvPostRet u]) has called Poll::do_interrupt on
   the target before returning ([EvIntr u tgt]). (What do_interrupt does to a polling target is Model.set_intr; that the
   target then does not sleep is poll_never_full_with_queued.) *)
Theorem first_push_interrupts : forall progs nids bds c u tgt k,
  reachable (init progs nids bds) c -> crashed c = false ->
  In (EvPushed u tgt k true) (log c) -> In (EvPostRet u) (log c) -> In (EvIntr u tgt) (log c).
Proof. exact ProofsK.first_push_interrupts. Qed.
Print Assumptions first_push_interrupts.
Theorem first_push_iff_queue_empty : forall b k e,
  snd (push_entry b k e) = match k with KNormal => match qn b with [] => true | _ => false end
                                      | KIntr => match qi b with [] => true | _ => false end end.
Proof. exact ProofsE.push_first_iff_empty. Qed.
Print Assumptions first_push_iff_queue_empty.

(* POLL ("without waiting for a poll timeout"). Invariants for ALL programs and schedules:
     m_callbacks non-empty            => m_has_callbacks
     m_interrupt_callbacks non-empty  => m_has_interrupt_callbacks, UNLESS the owner is between the unlocked
                                         store(false) at the start of process_callbacks (pc_store) and its first
                                         locked section (pc_lock)  [interrupt_flag_invariant]
   hence: when a thread runs Poll::poll's entry step (fetch_or(flag_polling) + timeout decision) while ANY callback
   is queued for it, it takes the SHORT timeout [poll_never_full_with_queued]: the exception cannot coincide with
   the owner standing at the entry of poll. *)
Theorem poll_never_full_with_queued_normal : forall progs nids bds c t th b rest c',
  reachable (init progs nids bds) c ->
  nth_error (threads c) t = Some th -> todo th = ICmd PollOnce :: rest -> nth_error (boxes c) t = Some b ->
  qn b <> [] -> step c t = Some c' ->
  exists th', nth_error (threads c') t = Some th' /\ todo th' = IPollWait false :: rest.
Proof. exact ProofsI.poll_never_full_with_queued_normal. Qed.
Print Assumptions poll_never_full_with_queued_normal.
Theorem interrupt_flag_invariant : forall progs nids bds c t th b,
  reachable (init progs nids bds) c -> nth_error (threads c) t = Some th -> nth_error (boxes c) t = Some b ->
  qi b <> [] -> hasi b = true \/ exists oi r, todo th = IBatch [] oi :: r.
Proof. exact ProofsJ.interrupt_flag_invariant. Qed.
Print Assumptions interrupt_flag_invariant.
Theorem poll_never_full_with_queued : forall progs nids bds c t th b rest c',
  reachable (init progs nids bds) c ->
  nth_error (threads c) t = Some th -> todo th = ICmd PollOnce :: rest -> nth_error (boxes c) t = Some b ->
  qn b <> [] \/ qi b <> [] -> step c t = Some c' ->
  exists th', nth_error (threads c') t = Some th' /\ todo th' = IPollWait false :: rest.
Proof. exact ProofsJ.poll_never_full_with_queued. Qed.
Print Assumptions poll_never_full_with_queued.

(* mutual cancellation through the single-argument form deadlocks (why the two-argument form exists) *)
Theorem single_arg_mutual_cancel_deadlocks :
  exists sched, let c := run (init dead_progs 1 dead_bodies) sched in
    finished c = false /\ enabled c 0 = false /\ enabled c 1 = false.
Proof. exact ProofsB.single_arg_mutual_cancel_deadlocks. Qed.
Print Assumptions single_arg_mutual_cancel_deadlocks.

(* MUTUAL_CANCEL_NO_DEADLOCK for the general two-thread 0x8 protocol - ALL programs, bodies, id counts, thread counts
   and schedules. Invariant [deadlock_flag_invariant]: the 0x8 flag of an id is set iff exactly one thread stands between
   its successful dl_cas and its dl_fetch_and (the setter). Hence:
   - whenever the flag is set, the setter exists, is ENABLED, and its next one or two steps (dl_fetch_add, dl_fetch_and)
     clear the flag [deadlock_flag_has_enabled_setter, setter_clears_flag];
   - a thread blocked in wait_for_deadlock sees the flag set, so ANOTHER thread - the setter - is enabled
     [mutual_cancel_no_deadlock]: two threads both inside cancel_callback_and_wait(id, other) on the handshake path are
     never both blocked, and the wait ends after at most two steps of the setter (the handshake path contains no
     other wait: Model.step, the IDl items).
   The counter path of a caller that is NOT inside a callback of the id waits for the count as the single-argument
   form does (cancel_two_arg_outside_is_single); with several ids two threads can still block each other there
   (each inside a callback of a different id, cancelling the other's): outside the property ("a shared id"). *)
Theorem deadlock_flag_invariant : forall progs nids bds c i w,
  reachable (init progs nids bds) c -> crashed c = false -> nth_error (ids c) i = Some w ->
  b2n (dl w) = dsum i (threads c).
Proof. intros. eapply ProofsL.reachable_dl; eauto. Qed.
Print Assumptions deadlock_flag_invariant.
Theorem deadlock_flag_has_enabled_setter : forall progs nids bds c i w,
  reachable (init progs nids bds) c -> crashed c = false -> nth_error (ids c) i = Some w -> dl w = true ->
  exists t th r, nth_error (threads c) t = Some th /\
    (todo th = IDlAdd i :: IDlAnd i :: r \/ todo th = IDlAnd i :: r) /\ enabled c t = true.
Proof. exact ProofsL.deadlock_flag_has_enabled_setter. Qed.
Print Assumptions deadlock_flag_has_enabled_setter.
Theorem mutual_cancel_no_deadlock : forall progs nids bds c t th i old r w,
  reachable (init progs nids bds) c -> crashed c = false ->
  nth_error (threads c) t = Some th -> todo th = IDlWWait i old :: r ->
  nth_error (ids c) i = Some w -> word_eqb w old = true ->
  exists t2 th2 r2, t2 <> t /\ nth_error (threads c) t2 = Some th2 /\
    (todo th2 = IDlAdd i :: IDlAnd i :: r2 \/ todo th2 = IDlAnd i :: r2) /\ enabled c t2 = true.
Proof. exact ProofsL.mutual_cancel_no_deadlock. Qed.
Print Assumptions mutual_cancel_no_deadlock.
Theorem setter_clears_flag : forall c t th i r w c',
  nth_error (threads c) t = Some th -> todo th = IDlAnd i :: r -> nth_error (ids c) i = Some w ->
  step c t = Some c' -> exists w', nth_error (ids c') i = Some w' /\ dl w' = false.
Proof. exact ProofsL.setter_clears_flag. Qed.
Print Assumptions setter_clears_flag.

(* NOTIFY / WAIT DISCIPLINE of id->wait() (ALL programs, bodies, id counts, thread counts, schedules). In the model a thread
   that entered id->wait(old) with the word equal to [old] is blocked (ICwBlk / IDlWBlk) and becomes enabled ONLY through a
   notify_all() on the id issued after it blocked (Model.ntf), never through a changed word alone.
   release_store_notifies: one step never lowers the in-progress count of an id or clears its 0x8 flag without also
     notifying the id (ProofsN.ids_rel: notify count monotone; while it is unchanged the count does not drop and a set flag
     stays set).
   no_lost_wakeup_cancel_wait: a thread blocked in cancel_callback_and_wait(id) and not notified since still has the
     count it waits for, and ANOTHER thread holds a unit of it (post in flight, or dispatch between fetch_add and
     fetch_sub) - whose decrement notifies (release_store_notifies), which enables the waiter (notified_waiter_enabled).
   no_lost_wakeup_handshake: a thread blocked in wait_for_deadlock and not notified since still sees the 0x8 flag, and the
     flag's setter is another, ENABLED thread that clears it with a notify within two steps: two threads in the handshake
     are never both blocked (this is mutual_cancel_no_deadlock for the blocked state). *)
Theorem release_store_notifies : forall c t c', crashed c' = false -> ProofsC.cnt_inv c -> step c t = Some c' ->
  forall i w', nth_error (ids c') i = Some w' -> exists w, nth_error (ids c) i = Some w /\
    ntf w <= ntf w' /\ (ntf w' = ntf w -> (cnt w <= cnt w')%N /\ (dl w = true -> dl w' = true)).
Proof. exact ProofsN.step_ids_rel. Qed.
Print Assumptions release_store_notifies.
Theorem no_lost_wakeup_cancel_wait : forall progs nids bds c t th i old ep rest w,
  reachable (init progs nids bds) c -> crashed c = false ->
  nth_error (threads c) t = Some th -> todo th = ICwBlk i old ep :: rest ->
  nth_error (ids c) i = Some w -> ntf w = ep ->
  (cnt old <= cnt w)%N /\
  exists t2 th2, t2 <> t /\ nth_error (threads c) t2 = Some th2 /\ 1 <= ProofsC.hl i (todo th2).
Proof. exact ProofsN.no_lost_wakeup_cancel_wait. Qed.
Print Assumptions no_lost_wakeup_cancel_wait.
Theorem notified_waiter_enabled : forall c t th i old ep rest w,
  nth_error (threads c) t = Some th -> todo th = ICwBlk i old ep :: rest \/ todo th = IDlWBlk i old ep :: rest ->
  nth_error (ids c) i = Some w -> ntf w <> ep -> enabled c t = true.
Proof. exact ProofsN.notified_waiter_enabled. Qed.
Print Assumptions notified_waiter_enabled.
Theorem no_lost_wakeup_handshake : forall progs nids bds c t th i old ep rest w,
  reachable (init progs nids bds) c -> crashed c = false ->
  nth_error (threads c) t = Some th -> todo th = IDlWBlk i old ep :: rest ->
  nth_error (ids c) i = Some w -> ntf w = ep ->
  dl w = true /\
  exists t2 th2 r2, t2 <> t /\ nth_error (threads c) t2 = Some th2 /\
    (todo th2 = IDlAdd i :: IDlAnd i :: r2 \/ todo th2 = IDlAnd i :: r2) /\ enabled c t2 = true.
Proof. exact ProofsN.no_lost_wakeup_handshake. Qed.
Print Assumptions no_lost_wakeup_handshake.

(* BOUNDED PROGRESS OF THE HANDSHAKE (ALL programs, bodies, id counts, thread counts, schedules) - the progress measure for
   mutual_cancel_no_deadlock: from EVERY reachable state in which a thread is blocked in wait_for_deadlock's id->wait() and
   has not been notified,
   handshake_wait_ends_within_2: one or two steps of ANOTHER thread (the flag's setter: dl_fetch_add, then
     dl_fetch_and + notify_all) leave the waiter's stack as it is, clear the 0x8 flag, raise the notify count, keep the
     in-progress count, do not crash - and the waiter is ENABLED;
   handshake_wait_returns: hence there is a schedule of at most 4 steps (the setter's one or two, then the waiter's wake-up
     and reload) after which the waiter's cancel_callback_and_wait(id, other) call HAS RETURNED (its stack is the
     continuation [rest], the return event is logged);
   handshake_not_both_blocked: in a two-thread system two threads standing in the handshake wait of one id are both
     enabled (each has been notified since it blocked) - "never both blocked" for the blocked state itself.
   The measure: (setter steps left: 2 at dl_fetch_add, 1 at dl_fetch_and, 0 once notified) then (waiter steps left: 2).
   Explicit assumptions: SC atomics, the wait/notify model of the header. *)
Theorem handshake_wait_ends_within_2 : forall progs nids bds c t th i old ep rest w,
  reachable (init progs nids bds) c -> crashed c = false ->
  nth_error (threads c) t = Some th -> todo th = IDlWBlk i old ep :: rest ->
  nth_error (ids c) i = Some w -> ntf w = ep ->
  exists t2 n, t2 <> t /\ 1 <= n <= 2 /\
    let c' := run c (repeat t2 n) in
    crashed c' = false /\ nth_error (threads c') t = Some th /\ enabled c' t = true /\
    exists w', nth_error (ids c') i = Some w' /\ dl w' = false /\ ntf w' = S ep /\ cnt w' = cnt w.
Proof. exact ProofsO.handshake_wait_ends_within_2. Qed.
Print Assumptions handshake_wait_ends_within_2.
Theorem handshake_wait_returns : forall progs nids bds c t th i old ep rest w,
  reachable (init progs nids bds) c -> crashed c = false ->
  nth_error (threads c) t = Some th -> todo th = IDlWBlk i old ep :: rest ->
  nth_error (ids c) i = Some w -> ntf w = ep ->
  exists sched, length sched <= 4 /\
    crashed (run c sched) = false /\
    exists th', nth_error (threads (run c sched)) t = Some th' /\ todo th' = rest /\
      In (EvCwRet t i true) (log (run c sched)).
Proof. exact ProofsO.handshake_wait_returns. Qed.
Print Assumptions handshake_wait_returns.
Theorem handshake_not_both_blocked : forall progs nids bds c t1 t2 th1 th2 i w o1 o2 e1 e2 r1 r2,
  reachable (init progs nids bds) c -> crashed c = false -> length (threads c) = 2 -> t1 <> t2 ->
  nth_error (ids c) i = Some w ->
  nth_error (threads c) t1 = Some th1 -> todo th1 = IDlWBlk i o1 e1 :: r1 ->
  nth_error (threads c) t2 = Some th2 -> todo th2 = IDlWBlk i o2 e2 :: r2 ->
  enabled c t1 = true /\ enabled c t2 = true.
Proof. exact ProofsO.handshake_not_both_blocked. Qed.
Print Assumptions handshake_not_both_blocked.

(* sanity instance of the above (finite, bound in the statement; kept as an Example-style check): from the reachable
   state in which both threads are inside a callback of the shared id and about to call
   cancel_callback_and_wait(id, other), every maximal interleaving finishes both threads within 40
   steps. The progress measure for arbitrary programs is handshake_wait_ends_within_2 / handshake_wait_returns above
   (existence of a short schedule from every blocked state). STILL MISSING for dropping the suffix: termination of
   cancel_callback_and_wait(id, other) under EVERY fair schedule for arbitrary programs - the dl_cas retry loop
   (dl_load / dl_cas failing because a third party changed the word) has no bound without a fairness predicate over
   infinite schedules, which is not formalised; this instance bounds every maximal interleaving of ONE program. *)
Theorem mutual_cancel_no_deadlock_partial :
  reachable (init dead_progs 1 mut_bodies) mut_mid /\ all_paths_finish 40 mut_mid = true.
Proof. exact ProofsB.mutual_cancel_no_deadlock_instance. Qed.
Print Assumptions mutual_cancel_no_deadlock_partial.
