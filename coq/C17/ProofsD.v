(* C17 proofs, part D: expected generation of every queued / batched / about-to-be-pushed callback
   is <= the current generation of its id; stale entries are skipped. *)
From Coq Require Import List NArith Bool Arith Lia.
From LTV.C17 Require Import Model ProofsA ProofsC.
Import ListNotations.

Definition eok (ws : list idword) (e : entry) : Prop :=
  match e_id e with
  | Some j => forall w, nth_error ws j = Some w -> (fst (e_exp e) <= gen w)%N
  | None => True
  end.
Definition iok (ws : list idword) (it : item) : Prop :=
  match it with
  | IBatch es _ => Forall (eok ws) es
  | IPostLock _ _ j _ x _ => forall w, nth_error ws j = Some w -> (fst x <= gen w)%N
  | _ => True
  end.
Definition box_ok (ws : list idword) (b : mbox) : Prop := Forall (eok ws) (qn b) /\ Forall (eok ws) (qi b).
Definition inv1 (c : cfg) : Prop :=
  Forall (fun th => Forall (iok (ids c)) (todo th)) (threads c) /\ Forall (box_ok (ids c)) (boxes c).

Lemma ids_le_lookup a b j w' : ids_le a b -> nth_error b j = Some w' -> exists w, nth_error a j = Some w /\ (gen w <= gen w')%N.
Proof.
  intros (L & H) Hb. destruct (nth_error a j) eqn:E.
  - eexists; split; eauto.
  - apply nth_error_None in E. assert (j < length b) by (apply nth_error_Some; congruence). lia.
Qed.
Lemma eok_mono a b e : ids_le a b -> eok a e -> eok b e.
Proof.
  unfold eok. intros L H. destruct (e_id e); auto. intros w' Hw.
  destruct (ids_le_lookup _ _ _ _ L Hw) as (w & Hw0 & G). specialize (H _ Hw0). lia.
Qed.
Lemma iok_mono a b it : ids_le a b -> iok a it -> iok b it.
Proof.
  intros L H. destruct it; simpl in *; auto.
  - intros w' Hw. destruct (ids_le_lookup _ _ _ _ L Hw) as (w & Hw0 & G). specialize (H _ Hw0). lia.
  - eapply Forall_impl; [|exact H]. intros; eapply eok_mono; eauto.
Qed.
Lemma inv1_mono ws' c : ids_le (ids c) ws' -> inv1 c ->
  Forall (fun th => Forall (iok ws') (todo th)) (threads c) /\ Forall (box_ok ws') (boxes c).
Proof.
  intros L (A & B). split.
  - eapply Forall_impl; [|exact A]. intros th H. eapply Forall_impl; [|exact H]. intros; eapply iok_mono; eauto.
  - eapply Forall_impl; [|exact B]. intros b (H1 & H2). split; (eapply Forall_impl; [|eassumption]); intros; eapply eok_mono; eauto.
Qed.
Lemma iok_cmds ws l : Forall (iok ws) (map ICmd l).
Proof. induction l; simpl; constructor; simpl; auto. Qed.
Lemma iok_cw ws th i w : iok ws (cw_after_load th i w).
Proof. unfold cw_after_load. destruct (2 <=? cnt w)%N; simpl; auto. destruct ((cnt w =? 1)%N && negb (oidx_is (proc th) i)); simpl; auto. Qed.
Lemma push_ok ws b k e : box_ok ws b -> eok ws e -> box_ok ws (fst (push_entry b k e)).
Proof. intros (H1 & H2) He. destruct k; simpl; split; auto; apply Forall_app; split; auto. Qed.
Lemma disp_lock_ok ws b oi batch b1 oi' : box_ok ws b -> disp_lock b oi = Some (batch, b1, oi') -> Forall (eok ws) batch /\ box_ok ws b1.
Proof.
  intros (H1 & H2) H. destruct (disp_lock_spec _ _ _ _ _ H) as ((ti & tn & -> & Ei & En) & _).
  unfold box_ok. rewrite Ei, En. split; [apply Forall_app; split|split]; destruct ti, tn; auto.
Qed.

Lemma step_inv1 c t c' : inv1 c -> step c t = Some c' -> inv1 c'.
Proof.
  intros I H. pose proof (step_gen_monotone _ _ _ H) as M.
  destruct (inv1_mono _ _ M I) as (A & B). clear I.
  open_step H th it rest Ht Htd.
  pose proof (Forall_nth_error _ _ _ _ A Ht) as Hth. cbv beta in Hth. rewrite Htd in Hth. inversion Hth as [|? ? Hit Hrest]; subst.
  unfold inv1.
  more_cases H; use_specs; proj_simpl; try discriminate.
  all: repeat match goal with
    | Hb : nth_error (boxes _) _ = Some ?b |- _ =>
        lazymatch goal with | _ : box_ok _ b |- _ => fail | _ => pose proof (Forall_nth_error _ _ _ _ B Hb) end
    | Hd : disp_lock _ _ = _ |- _ => eapply disp_lock_ok in Hd; [destruct Hd | eassumption]
    end.
  all: split; repeat (apply Forall_upd); auto; simpl.
  all: try match goal with |- box_ok _ (fst (push_entry _ _ _)) => apply push_ok; [assumption | unfold eok; simpl; auto] end.
  all: try match goal with |- box_ok _ _ => assumption || (unfold box_ok in *; simpl in *; tauto) end.
  all: try match goal with |- box_ok _ (set_intr ?b) => unfold set_intr; destruct (pol b && negb (intr b)); [unfold box_ok in *; simpl in *; tauto | assumption] end.
  all: repeat (constructor; simpl; auto); auto using iok_cmds, iok_cw.
  all: try (apply Forall_app; split; auto using iok_cmds; repeat (constructor; simpl; auto)).
  all: try match goal with Hx : nth_error ?l ?i = Some ?w0 |- forall w, nth_error (upd ?l ?i _) ?i = Some w -> _ =>
         let w := fresh in let Hw := fresh in intros w Hw; erewrite nth_error_upd_same in Hw by eauto; injection Hw as <-;
         pose proof (gen_add1 w0); pose proof (N.mod_le (gen w0) gmod); unfold gmod in *; lia end.
  all: try match goal with Hx : Forall ?P (_ :: ?l) |- Forall ?P ?l => inversion Hx; assumption end.
Qed.

Lemma init_inv1 progs nids bds : inv1 (init progs nids bds).
Proof.
  unfold inv1, init; simpl. split.
  - apply Forall_forall. intros th H. apply in_map_iff in H. destruct H as (p & <- & _). simpl. apply iok_cmds.
  - apply Forall_forall. intros b H. apply in_map_iff in H. destruct H as (p & <- & _). split; constructor.
Qed.
Lemma reachable_inv1 progs nids bds c : reachable (init progs nids bds) c -> inv1 c.
Proof. induction 1. apply init_inv1. eapply step_inv1; eauto. Qed.

(* the generation check of process_callbacks rejects an entry whose expected generation is below the
   current one, as long as the 28-bit generation has not wrapped *)
Lemma stale_entry_skipped w e : (fst (e_exp e) < gen w)%N -> (gen w < gmod)%N -> upper_eqb (upper w) (e_exp e) = false.
Proof.
  intros H G. unfold upper_eqb, upper. simpl. rewrite N.mod_small by auto.
  destruct (N.eqb_spec (gen w) (fst (e_exp e))); simpl; auto. lia.
Qed.

(* every entry of id i that exists (queued, in a dispatcher's local batch, or about to be pushed by a
   post in flight) is stale w.r.t. any word whose generation is above the current one, in particular
   w.r.t. the word written by a successful cancel (gen + 1) *)
Definition entry_of (c : cfg) (e : entry) : Prop :=
  (exists b, In b (boxes c) /\ (In e (qn b) \/ In e (qi b))) \/
  (exists th es oi, In th (threads c) /\ In (IBatch es oi) (todo th) /\ In e es).
Lemma entries_expected_le progs nids bds c e i w :
  reachable (init progs nids bds) c -> entry_of c e -> e_id e = Some i -> nth_error (ids c) i = Some w ->
  (fst (e_exp e) <= gen w)%N.
Proof.
  intros R E Hi Hw. destruct (reachable_inv1 _ _ _ _ R) as (A & B).
  assert (eok (ids c) e) as K.
  { destruct E as [(b & Hb & Hq) | (th & es & oi & Hth & Hit & He)].
    - rewrite Forall_forall in B. destruct (B _ Hb) as (K1 & K2). rewrite Forall_forall in K1, K2. destruct Hq; auto.
    - rewrite Forall_forall in A. specialize (A _ Hth). rewrite Forall_forall in A. specialize (A _ Hit). simpl in A.
      rewrite Forall_forall in A. auto. }
  unfold eok in K. rewrite Hi in K. auto.
Qed.

