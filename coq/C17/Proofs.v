From Coq Require Import List NArith Bool Arith Lia.
From LTV.C17 Require Import ParamsProbe.
From LTV.C17 Require Import Model.
Import ListNotations.

(* the generated constants are the bit layout the model assumes *)
Definition params_ok : bool :=
  (Probe.c17_cancel_increment =? 16)%N && (Probe.c17_cw_increment =? 16)%N &&
  (Probe.c17_count_mask =? 7)%N && (Probe.c17_expected_mask_inv =? 7)%N &&
  (Probe.c17_deadlock_flag =? 8)%N && (Probe.c17_id_word_bits =? 32)%N &&
  (gmod * Probe.c17_cancel_increment =? 2 ^ Probe.c17_id_word_bits)%N.
Lemma params_ok_now : params_ok = true.
Proof. vm_compute. reflexivity. Qed.
