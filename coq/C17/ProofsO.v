(* C17 proofs, part O: BOUNDED PROGRESS of the two-thread 0x8 handshake, for ALL programs, bodies, id counts, thread counts
   and schedules (the progress measure missing from mutual_cancel_no_deadlock_partial): a thread blocked in
   wait_for_deadlock's id->wait() is enabled again after at most TWO steps of ANOTHER thread - the flag's setter
   (dl_fetch_add, dl_fetch_and+notify_all) - which leave the waiter untouched and the flag clear; the waiter's next two
   steps then end its cancel_callback_and_wait(id, other) call. So from every reachable state with a blocked handshake
   waiter there is a schedule of at most 4 steps after which its call has returned. *)
From Coq Require Import List NArith Bool Arith Lia.
From LTV.C17 Require Import Model ProofsA ProofsB ProofsC ProofsG ProofsL ProofsN.
Import ListNotations.

Lemma run_one c (t : nat) c' : step c t = Some c' -> run c [t] = c'.
Proof. intros H. simpl. unfold sstep. rewrite H. reflexivity. Qed.
Lemma run_two c (t : nat) c1 c2 : step c t = Some c1 -> step c1 t = Some c2 -> run c (repeat t 2) = c2.
Proof. intros H1 H2. simpl. unfold sstep. rewrite H1, H2. reflexivity. Qed.
Lemma run_app c a b : run c (a ++ b) = run (run c a) b.
Proof. unfold run. apply fold_left_app. Qed.

(* the setter standing at dl_fetch_and: one step clears the flag with a notify and leaves every other thread alone *)
Lemma setter_and_step c t th t2 th2 i r2 w :
  t2 <> t -> nth_error (threads c) t = Some th ->
  nth_error (threads c) t2 = Some th2 -> todo th2 = IDlAnd i :: r2 -> nth_error (ids c) i = Some w ->
  exists c', step c t2 = Some c' /\ crashed c' = crashed c /\ nth_error (threads c') t = Some th /\
    nth_error (ids c') i = Some (notify (set_dl w false)).
Proof.
  intros Ne Ht Ht2 Htd Hw. unfold step. rewrite Ht2, Htd, Hw. eexists; split; [reflexivity|].
  rewrite crashed_cw_ret, threads_cw_ret, ids_cw_ret. simpl.
  split; [reflexivity|]. split.
  - rewrite nth_error_upd_other by auto. exact Ht.
  - eapply nth_error_upd_same; eauto.
Qed.
Lemma setter_add_step c t th t2 th2 i r2 w :
  t2 <> t -> nth_error (threads c) t = Some th ->
  nth_error (threads c) t2 = Some th2 -> todo th2 = IDlAdd i :: IDlAnd i :: r2 -> nth_error (ids c) i = Some w ->
  exists c', step c t2 = Some c' /\ crashed c' = crashed c /\ nth_error (threads c') t = Some th /\
    nth_error (ids c') i = Some (bump w) /\ nth_error (threads c') t2 = Some (set_todo th2 (IDlAnd i :: r2)).
Proof.
  intros Ne Ht Ht2 Htd Hw. unfold step. rewrite Ht2, Htd, Hw. eexists; split; [reflexivity|]. simpl.
  split; [reflexivity|]. split; [|split].
  - rewrite nth_error_upd_other by auto. exact Ht.
  - eapply nth_error_upd_same; eauto.
  - eapply nth_error_upd_same; eauto.
Qed.

Lemma handshake_wait_ends_within_2 progs nids bds c t th i old ep rest w :
  reachable (init progs nids bds) c -> crashed c = false ->
  nth_error (threads c) t = Some th -> todo th = IDlWBlk i old ep :: rest ->
  nth_error (ids c) i = Some w -> ntf w = ep ->
  exists t2 n, t2 <> t /\ 1 <= n <= 2 /\
    let c' := run c (repeat t2 n) in
    crashed c' = false /\ nth_error (threads c') t = Some th /\ enabled c' t = true /\
    exists w', nth_error (ids c') i = Some w' /\ dl w' = false /\ ntf w' = S ep /\ cnt w' = cnt w.
Proof.
  intros R NC Ht Htd Hw En.
  destruct (no_lost_wakeup_handshake _ _ _ _ _ _ _ _ _ _ _ R NC Ht Htd Hw En) as (Hd & t2 & th2 & r2 & Ne & Ht2 & Hs & En2).
  exists t2. destruct Hs as [Hs | Hs].
  - exists 2. split; auto. split; [lia|].
    destruct (setter_add_step _ _ _ _ _ _ _ _ Ne Ht Ht2 Hs Hw) as (c1 & S1 & C1 & T1 & I1 & T21).
    destruct (setter_and_step c1 t th t2 _ i r2 _ Ne T1 T21 eq_refl I1) as (c2 & S2 & C2 & T2 & I2).
    cbv zeta. rewrite (run_two _ _ _ _ S1 S2).
    split; [congruence|]. split; [exact T2|]. split.
    + eapply notified_waiter_enabled; eauto. simpl. lia.
    + eexists; split; [exact I2|]. simpl. repeat split; auto; lia.
  - exists 1. split; auto. split; [lia|].
    destruct (setter_and_step _ _ _ _ _ _ _ _ Ne Ht Ht2 Hs Hw) as (c2 & S2 & C2 & T2 & I2).
    cbv zeta. change (repeat t2 1) with [t2]. rewrite (run_one _ _ _ S2).
    split; [congruence|]. split; [exact T2|]. split.
    + eapply notified_waiter_enabled; eauto. simpl. lia.
    + eexists; split; [exact I2|]. simpl. repeat split; auto; lia.
Qed.

Lemma wload_returns c t th i rest w :
  nth_error (threads c) t = Some th -> todo th = IDlWLoad i :: rest -> nth_error (ids c) i = Some w -> dl w = false ->
  step c t = Some (cw_ret (set_thread c t (set_todo th rest)) t (set_todo th rest) i true).
Proof. intros Ht Htd Hw Hd. unfold step. rewrite Ht, Htd, Hw, Hd. reflexivity. Qed.

(* ... and then the waiter's own next two steps (wake: the word differs, reload: flag clear) end its call *)
Lemma handshake_wait_returns progs nids bds c t th i old ep rest w :
  reachable (init progs nids bds) c -> crashed c = false ->
  nth_error (threads c) t = Some th -> todo th = IDlWBlk i old ep :: rest ->
  nth_error (ids c) i = Some w -> ntf w = ep ->
  exists sched, length sched <= 4 /\
    crashed (run c sched) = false /\
    exists th', nth_error (threads (run c sched)) t = Some th' /\ todo th' = rest /\
      In (EvCwRet t i true) (log (run c sched)).
Proof.
  intros R NC Ht Htd Hw En.
  destruct (handshake_wait_ends_within_2 _ _ _ _ _ _ _ _ _ _ _ R NC Ht Htd Hw En) as (t2 & n & Ne & Ln & H).
  cbv zeta in H. destruct H as (C' & T' & _ & w' & I' & D' & N' & K').
  set (c' := run c (repeat t2 n)) in *.
  (* the remembered word had the flag set *)
  pose proof (Forall_nth_error _ _ _ _ (reachable_olds _ _ _ _ R NC) Ht) as O. cbv beta in O.
  rewrite Htd in O. inversion O as [|? ? Hoo _]; subst. simpl in Hoo. destruct Hoo as (Lo & Do).
  destruct (reachable_cnt_nc _ _ _ _ R NC _ _ Hw) as (Lw & _).
  assert (word_eqb w' old = false) as Wne.
  { destruct (word_eqb w' old) eqn:E; auto. assert (cnt w' <= 7)%N as L' by (rewrite K'; exact Lw).
    pose proof (word_eq_dl _ _ E L' Lo). congruence. }
  assert (Nat.eqb (ntf w') (ntf w) = false) as Nne by (apply Nat.eqb_neq; lia).
  (* step 1 of the waiter *)
  assert (step c' t = Some (set_thread c' t (set_todo th (IDlWLoad i :: rest)))) as S1.
  { unfold step. rewrite T', Htd, I', Nne, Wne. reflexivity. }
  set (c1 := set_thread c' t (set_todo th (IDlWLoad i :: rest))) in *.
  assert (nth_error (threads c1) t = Some (set_todo th (IDlWLoad i :: rest))) as T1
    by (unfold c1; simpl; eapply nth_error_upd_same; eauto).
  assert (nth_error (ids c1) i = Some w') as I1 by exact I'.
  pose proof (wload_returns c1 t _ i rest w' T1 eq_refl I1 D') as S2.
  exists (repeat t2 n ++ [t; t]). split.
  { rewrite app_length, repeat_length. simpl. lia. }
  rewrite run_app. fold c'. simpl. unfold sstep. rewrite S1. fold c1. rewrite S2.
  rewrite crashed_cw_ret, threads_cw_ret. split; [exact C'|].
  eexists. split; [unfold c1; simpl; eapply nth_error_upd_same; simpl; eapply nth_error_upd_same; eauto|]. split; [reflexivity|].
  unfold cw_ret, add_log. simpl. left. reflexivity.
Qed.

(* two threads both blocked in the handshake wait of one id, in a two-thread system: impossible without a pending
   notification - each of them has been notified since it blocked, so BOTH are enabled *)
Lemma handshake_not_both_blocked progs nids bds c t1 t2 th1 th2 i w o1 o2 e1 e2 r1 r2 :
  reachable (init progs nids bds) c -> crashed c = false -> length (threads c) = 2 -> t1 <> t2 ->
  nth_error (ids c) i = Some w ->
  nth_error (threads c) t1 = Some th1 -> todo th1 = IDlWBlk i o1 e1 :: r1 ->
  nth_error (threads c) t2 = Some th2 -> todo th2 = IDlWBlk i o2 e2 :: r2 ->
  enabled c t1 = true /\ enabled c t2 = true.
Proof.
  intros R NC L2 Ne Hw H1 D1 H2 D2.
  assert (t1 < 2) as B1 by (rewrite <- L2; apply nth_error_Some; congruence).
  assert (t2 < 2) as B2 by (rewrite <- L2; apply nth_error_Some; congruence).
  assert (forall ta tb tha thb oa ea ra ob eb rb, ta <> tb -> ta < 2 -> tb < 2 ->
            nth_error (threads c) ta = Some tha -> todo tha = IDlWBlk i oa ea :: ra ->
            nth_error (threads c) tb = Some thb -> todo thb = IDlWBlk i ob eb :: rb -> enabled c ta = true) as K.
  { intros ta tb tha thb oa ea ra ob eb rb Nab Ba Bb Ha Da Hb Db.
    destruct (Nat.eq_dec (ntf w) ea) as [E | E]; [|eapply notified_waiter_enabled; eauto].
    destruct (no_lost_wakeup_handshake _ _ _ _ _ _ _ _ _ _ _ R NC Ha Da Hw E) as (_ & t3 & th3 & r3 & N3 & H3 & S3 & _).
    assert (t3 < 2) by (rewrite <- L2; apply nth_error_Some; congruence).
    assert (t3 = tb) by lia. subst t3. rewrite Hb in H3. injection H3 as <-. rewrite Db in S3. destruct S3; discriminate. }
  split; [eapply (K t1 t2) | eapply (K t2 t1)]; eauto.
Qed.

(* non-vacuity: a blocked, un-notified handshake waiter is reachable (thread 1 of the mutual-cancel program: thread 0 won
   dl_cas and stands at dl_fetch_and; thread 1 saw the flag, cancelled, and blocked in wait_for_deadlock) *)
Definition mut_blocked : cfg := run mut_mid [0;0;0;1;1;1;1;1;1].
Example handshake_blocked_reachable :
  reachable (init dead_progs 1 mut_bodies) mut_blocked /\ crashed mut_blocked = false /\ length (threads mut_blocked) = 2 /\
  enabled mut_blocked 1 = false /\ enabled mut_blocked 0 = true /\
  exists th old rest w, nth_error (threads mut_blocked) 1 = Some th /\ todo th = IDlWBlk 0 old 2 :: rest /\
    nth_error (ids mut_blocked) 0 = Some w /\ ntf w = 2.
Proof.
  split. { unfold mut_blocked, mut_mid. do 2 apply run_reachable. constructor. }
  vm_compute. repeat split; auto. do 4 eexists. repeat split; reflexivity.
Qed.
