(* C17 proofs, part H: CANCEL_FINAL for the counter-draining cancel-and-wait (single-argument form and the
   two-argument form outside a callback of the id). *)
From Coq Require Import List NArith Bool Arith Lia.
From LTV.C17 Require Import Model ProofsA ProofsB ProofsC ProofsD ProofsF ProofsG.
Import ListNotations.

Definition pairs := list (uid * idx).

(* an entry whose (uid, id) has been finalised is stale *)
Definition eokF (ws : list idword) (fin : pairs) (e : entry) : Prop :=
  forall j, e_id e = Some j -> In (e_uid e, j) fin -> forall w, nth_error ws j = Some w -> (fst (e_exp e) < gen w)%N.
Definition fin_item (ws : list idword) (fin : pairs) (it : item) : Prop :=
  match it with
  | IBatch es _ => Forall (eokF ws fin) es
  | IRun e => forall j, e_id e = Some j -> ~ In (e_uid e, j) fin
  | _ => True
  end.
Definition boxF (ws : list idword) (fin : pairs) (b : mbox) : Prop := Forall (eokF ws fin) (qn b) /\ Forall (eokF ws fin) (qi b).
Definition thrF (po : pairs) (fin : pairs) (th : thread) : Prop :=
  incl (cwsnap th) po /\ (forall u i, cur th = Some u -> proc th = Some i -> ~ In (u, i) fin).

Definition FIN (c : cfg) : Prop :=
  Forall (fun th => Forall (fin_item (ids c) (fin1 c)) (todo th)) (threads c) /\
  Forall (boxF (ids c) (fin1 c)) (boxes c) /\
  incl (fin1 c) (posted c) /\
  Forall (thrF (posted c) (fin1 c)) (threads c).

Definition nowrap (c : cfg) : Prop := forall j w, nth_error (ids c) j = Some w -> (gen w < gmod)%N.

Lemma eokF_mono a b fin e : ids_le a b -> eokF a fin e -> eokF b fin e.
Proof.
  intros L H j Hj Hin w' Hw. destruct (ids_le_lookup _ _ _ _ L Hw) as (w & Hw0 & G). specialize (H j Hj Hin w Hw0). lia.
Qed.
Lemma fin_item_mono a b fin it : ids_le a b -> fin_item a fin it -> fin_item b fin it.
Proof. intros L H. destruct it; simpl in *; auto. eapply Forall_impl; [|exact H]. intros; eapply eokF_mono; eauto. Qed.
Lemma fin_cmds ws fin l : Forall (fin_item ws fin) (map ICmd l).
Proof. induction l; simpl; constructor; simpl; auto. Qed.
Lemma fin_cw ws fin th i w : fin_item ws fin (cw_after_load th i w).
Proof. unfold cw_after_load. destruct (2 <=? cnt w)%N; simpl; auto. destruct ((cnt w =? 1)%N && negb (oidx_is (proc th) i)); simpl; auto. Qed.
Lemma boxF_push ws fin b k e : boxF ws fin b -> eokF ws fin e -> boxF ws fin (fst (push_entry b k e)).
Proof. intros (H1 & H2) He. destruct k; simpl; split; auto; apply Forall_app; split; auto. Qed.
Lemma boxF_disp ws fin b oi batch b1 oi' : boxF ws fin b -> disp_lock b oi = Some (batch, b1, oi') -> Forall (eokF ws fin) batch /\ boxF ws fin b1.
Proof.
  intros (H1 & H2) H. destruct (disp_lock_spec _ _ _ _ _ H) as ((ti & tn & -> & Ei & En) & _).
  unfold boxF. rewrite Ei, En. split; [apply Forall_app; split|split]; destruct ti, tn; auto.
Qed.
Lemma boxF_set_intr ws fin b : boxF ws fin b -> boxF ws fin (set_intr b).
Proof. unfold set_intr. destruct (pol b && negb (intr b)); auto. Qed.

(* weaken the whole invariant to newer id words / a larger posted list (fin unchanged) *)
Lemma FIN_weaken c ws po : ids_le (ids c) ws -> incl (posted c) po -> FIN c ->
  Forall (fun th => Forall (fin_item ws (fin1 c)) (todo th)) (threads c) /\
  Forall (boxF ws (fin1 c)) (boxes c) /\ incl (fin1 c) po /\ Forall (thrF po (fin1 c)) (threads c).
Proof.
  intros L Ip (A & B & C & D). repeat split.
  - eapply Forall_impl; [|exact A]. intros th H. eapply Forall_impl; [|exact H]. intros; eapply fin_item_mono; eauto.
  - eapply Forall_impl; [|exact B]. intros b (H1 & H2). split; (eapply Forall_impl; [|eassumption]); intros; eapply eokF_mono; eauto.
  - intros x Hx. auto.
  - eapply Forall_impl; [|exact D]. intros th (H1 & H2). split; auto. intros x Hx; auto.
Qed.

Lemma step_posted_incl c t c' : step c t = Some c' -> incl (posted c) (posted c').
Proof.
  intros H. unfold step in H. more_cases H; use_specs; proj_simpl; try apply incl_refl;
  repeat match goal with o : option idx |- _ => destruct o end; try apply incl_refl; try apply incl_tl; apply incl_refl.
Qed.

Lemma cas_quiet c t th i old rest w :
  Forall wf_thread (threads c) -> cnt_inv c ->
  nth_error (threads c) t = Some th -> todo th = ICwCas i old :: rest ->
  nth_error (ids c) i = Some w -> word_eqb w old = true ->
  forall t2 th2, t2 <> t -> nth_error (threads c) t2 = Some th2 -> hl i (todo th2) = 0.
Proof.
  intros W I Ht Htd Hw He. destruct (I _ _ Hw) as (Lw & Cw).
  pose proof (Forall_nth_error _ _ _ _ W Ht) as Sh. unfold wf_thread in Sh. rewrite Htd in Sh.
  apply shape_cons in Sh. split_all; try discriminate. simpl in H0.
  assert (Eo : cnt w = cnt old) by (apply word_eq_cnt; auto; destruct H0 as [-> | (-> & _)]; lia).
  intros t2 th2 Nt Ht2. pose proof (hsum_ge2 i _ _ _ _ _ Nt Ht2 Ht) as G. rewrite Htd in G. simpl in G.
  destruct H0 as [E0 | (E1 & Ep)].
  - lia.
  - assert (proc th = Some i). { destruct (proc th); simpl in Ep; try discriminate. apply Nat.eqb_eq in Ep. congruence. }
    rewrite H0 in H1. apply proc_holds in H1. lia.
Qed.

Lemma uid_eqb_refl u : uid_eqb u u = true.
Proof. unfold uid_eqb. rewrite !Nat.eqb_refl. reflexivity. Qed.

Lemma hl_in_run i e td : In (IRun e) td -> e_id e = Some i -> 1 <= hl i td.
Proof.
  induction td as [|it r IH]; simpl; intros [] E.
  - subst it. simpl. rewrite E. simpl. rewrite Nat.eqb_refl. lia.
  - specialize (IH H E). lia.
Qed.
Lemma cshape_no_run rest cu pr e : cshape rest cu pr -> ~ In (IRun e) rest.
Proof.
  intros H Hin. destruct H.
  - apply in_map_iff in Hin. destruct Hin as (x & E & _). discriminate.
  - apply in_app_or in Hin. destruct Hin as [Hin | [E | [E | Hin]]]; try discriminate;
    apply in_map_iff in Hin; destruct Hin as (x & E & _); discriminate.
Qed.

Lemma eokF_ext ws i w fin new e :
  nth_error ws i = Some w -> eok ws e -> eokF (upd ws i (bump w)) fin e -> (forall p, In p new -> snd p = i) ->
  eokF (upd ws i (bump w)) (new ++ fin) e.
Proof.
  intros Hw Hk Ho Hs j Hj Hin w' Hw'. apply in_app_or in Hin. destruct Hin as [Hn | Hf].
  - apply Hs in Hn. simpl in Hn. subst j. erewrite nth_error_upd_same in Hw' by eauto. injection Hw' as <-.
    unfold eok in Hk. rewrite Hj in Hk. specialize (Hk _ Hw). simpl. lia.
  - eapply Ho; eauto.
Qed.

Lemma cas_FIN c t th i old rest w :
  Forall wf_thread (threads c) -> cnt_inv c -> inv1 c ->
  nth_error (threads c) t = Some th -> todo th = ICwCas i old :: rest ->
  nth_error (ids c) i = Some w -> word_eqb w old = true ->
  let ws := upd (ids c) i (bump w) in
  let new := filter (fun p : uid * nat => (snd p =? i) && negb (ouid_is (cur th) (fst p))) (cwsnap th) in
  Forall (fun th0 => Forall (fin_item ws (fin1 c)) (todo th0)) (threads c) ->
  Forall (boxF ws (fin1 c)) (boxes c) -> incl (fin1 c) (posted c) -> Forall (thrF (posted c) (fin1 c)) (threads c) ->
  Forall (fun th0 => Forall (fin_item ws (new ++ fin1 c)) (todo th0)) (threads c) /\
  Forall (boxF ws (new ++ fin1 c)) (boxes c) /\ incl (new ++ fin1 c) (posted c) /\
  Forall (thrF (posted c) (new ++ fin1 c)) (threads c) /\
  Forall (fin_item ws (new ++ fin1 c)) rest /\ thrF (posted c) (new ++ fin1 c) (set_todo th rest).
Proof.
  intros W CI (I1a & I1b) Ht Htd Hw He ws new A B C D.
  pose proof (cas_quiet _ _ _ _ _ _ _ W CI Ht Htd Hw He) as Q.
  assert (forall p, In p new -> snd p = i /\ In p (cwsnap th) /\ ouid_is (cur th) (fst p) = false) as Hn.
  { intros p Hp. apply filter_In in Hp. destruct Hp as (H1 & H2). apply andb_true_iff in H2. destruct H2 as (H2 & H3).
    apply Nat.eqb_eq in H2. apply negb_true_iff in H3. auto. }
  assert (forall p, In p new -> snd p = i) as Hs by (intros p Hp; apply Hn; auto).
  pose proof (Forall_nth_error _ _ _ _ W Ht) as Sh. unfold wf_thread in Sh. rewrite Htd in Sh.
  apply shape_cons in Sh. split_all; try discriminate. rename H1 into Crest.
  assert (G1 : Forall (fun th0 => Forall (fin_item ws (new ++ fin1 c)) (todo th0)) (threads c)).
  { apply Forall_forall. intros th0 Hin0. apply In_nth_error in Hin0. destruct Hin0 as (t2 & Ht2).
    pose proof (Forall_nth_error _ _ _ _ A Ht2) as A0. cbv beta in A0.
    pose proof (Forall_nth_error _ _ _ _ I1a Ht2) as K0. cbv beta in K0.
    apply Forall_forall. intros it Hit. rewrite Forall_forall in A0, K0. specialize (A0 _ Hit). specialize (K0 _ Hit).
    destruct it; simpl in *; auto.
    - rewrite Forall_forall in *. intros e He0. apply eokF_ext; auto.
    - intros j Hj Hin. apply in_app_or in Hin. destruct Hin as [Hin | Hin]; [|eapply A0; eauto].
      apply Hs in Hin. simpl in Hin. subst j.
      destruct (Nat.eq_dec t2 t) as [-> | N].
      + rewrite Ht in Ht2. injection Ht2 as <-. rewrite Htd in Hit. destruct Hit as [Hit | Hit]; try discriminate.
        eapply cshape_no_run; eauto.
      + pose proof (Q _ _ N Ht2). pose proof (hl_in_run _ _ _ Hit Hj). lia. }
  assert (G4 : Forall (thrF (posted c) (new ++ fin1 c)) (threads c)).
  { apply Forall_forall. intros th0 Hin0. apply In_nth_error in Hin0. destruct Hin0 as (t2 & Ht2).
    pose proof (Forall_nth_error _ _ _ _ D Ht2) as (D1 & D2). split; auto.
    intros u i' Hc Hp Hin. apply in_app_or in Hin. destruct Hin as [Hin | Hin]; [|eapply D2; eauto].
    destruct (Hn _ Hin) as (E1 & _ & E3). simpl in E1, E3. subst i'.
    destruct (Nat.eq_dec t2 t) as [-> | N].
    + rewrite Ht in Ht2. injection Ht2 as <-. rewrite Hc in E3. simpl in E3. rewrite uid_eqb_refl in E3. discriminate.
    + pose proof (Q _ _ N Ht2) as Z. pose proof (Forall_nth_error _ _ _ _ W Ht2) as W2.
      destruct (not_holding_means _ _ W2 Z) as (Np & _). congruence. }
  split; auto. split; [|split; [|split; [auto|split]]].
  - apply Forall_forall. intros b Hb. rewrite Forall_forall in B, I1b. destruct (B _ Hb) as (B1 & B2). destruct (I1b _ Hb) as (K1 & K2).
    rewrite Forall_forall in *. split; apply Forall_forall; intros e He0; apply eokF_ext; auto.
  - intros p Hp. apply in_app_or in Hp. destruct Hp as [Hp | Hp]; auto.
    pose proof (Forall_nth_error _ _ _ _ D Ht) as (D1 & _). apply D1. apply Hn; auto.
  - pose proof (Forall_nth_error _ _ _ _ G1 Ht) as G. cbv beta in G. rewrite Htd in G. inversion G; auto.
  - pose proof (Forall_nth_error _ _ _ _ G4 Ht) as (T1 & T2). split; simpl; auto.
Qed.

Lemma gen_add1_eq w : (cnt w <= 7)%N -> (cnt w =? 7)%N = false -> gen (add1 w) = gen w.
Proof. intros L E. apply N.eqb_neq in E. unfold add1. destruct (cnt w <? 7)%N eqn:K; simpl; auto. apply N.ltb_ge in K. lia. Qed.

Lemma Forall_tl {A} (P : A -> Prop) x l : Forall P (x :: l) -> Forall P l.
Proof. intros H; inversion H; auto. Qed.

Lemma step_FIN c t c' :
  crashed c' = false -> Forall wf_thread (threads c) -> cnt_inv c -> inv1 c -> pf c -> nowrap c' ->
  FIN c -> step c t = Some c' -> FIN c'.
Proof.
  intros NC W CI I1 PF NW F H.
  pose proof (step_gen_monotone _ _ _ H) as M. pose proof (step_posted_incl _ _ _ H) as Ip.
  destruct (FIN_weaken _ _ _ M Ip F) as (A & B & C & D).
  destruct F as (_ & _ & C0 & _).
  open_step H th it rest Ht Htd.
  pose proof (Forall_nth_error _ _ _ _ A Ht) as Hth. cbv beta in Hth. rewrite Htd in Hth. inversion Hth as [|? ? Hit Hrest]; subst.
  pose proof (Forall_nth_error _ _ _ _ D Ht) as (Hsnap & Hcur).
  pose proof (Forall_nth_error _ _ _ _ W Ht) as Hsh. unfold wf_thread in Hsh. rewrite Htd in Hsh.
  unfold FIN.
  more_cases H; use_specs; proj_simpl; try discriminate.
  all: repeat match goal with
    | Hb : nth_error (boxes _) _ = Some ?b |- _ =>
        lazymatch goal with | _ : boxF _ _ b |- _ => fail | _ => pose proof (Forall_nth_error _ _ _ _ B Hb) end
    | Hd : disp_lock _ _ = _ |- _ => eapply boxF_disp in Hd; [destruct Hd | eassumption]
    end.
  all: try match goal with Hw : nth_error (ids _) ?i = Some ?w, He : word_eqb ?w ?old = true, Hx : todo _ = ICwCas ?i ?old :: _ |- _ =>
         destruct (cas_FIN _ _ _ _ _ _ _ W CI I1 Ht Hx Hw He A B C D) as (G1 & G2 & G3 & G4 & G5 & G6);
         split; [apply Forall_upd; auto | split; [exact G2 | split; [exact G3 | apply Forall_upd; auto]]] end.
  all: split; [|split; [|split]]; auto.
  all: repeat (apply Forall_upd); auto; simpl.
  all: try (apply boxF_set_intr; auto; fail).
  all: try (apply boxF_push; auto; unfold eokF; simpl; intros; discriminate).
  all: try (unfold thrF; simpl; split; auto; fail).
  all: try (repeat (constructor; simpl; auto); auto using fin_cmds, fin_cw; fail).
  all: try (unfold thrF; simpl; split; auto; unfold snapshot; intros x Hx; apply filter_In in Hx; tauto).
  all: try (unfold thrF; simpl; split; auto; intros u' i' Hc Hp; apply (Hcur u' i'); congruence).
  all: try (apply boxF_push; auto; unfold eokF; simpl; intros j Hj Hin; injection Hj as <-; exfalso;
            destruct PF as (_ & _ & P3); eapply (P3 t th); [exact Ht | rewrite Htd; left; reflexivity | reflexivity | apply C0; exact Hin]).
  all: try (simpl in Hit; pose proof (Forall_tl _ _ _ Hit) as Htl).
  all: try (match goal with |- Forall (fin_item _ _) _ => idtac end;
            try (apply Forall_app; split; [apply fin_cmds|]);
            repeat (constructor; simpl; auto); fail).
  all: try (match goal with |- thrF _ _ _ => idtac end;
            apply shape_cons in Hsh; split_all; try discriminate; inj_items;
            unfold thrF; simpl; split; auto; intros u' i' Hc Hp; try congruence;
            injection Hc as <-;
            match goal with Hr : forall j, e_id ?e = Some j -> _ |- _ => eapply Hr; congruence end).
  all: match goal with
       Hid : e_id ?e = Some ?i, Hw : nth_error (ids _) ?i = Some ?w, Hc7 : (cnt ?w =? 7)%N = false,
       Hm : upper_eqb (upper ?w) (e_exp ?e) = true |- _ =>
         constructor; [| constructor; [exact Htl | exact Hrest]];
         simpl; intros j Hj Hin; rewrite Hid in Hj; injection Hj as <-;
         inversion Hit as [|? ? He0 ?]; subst;
         destruct (CI _ _ Hw) as (Lw & _);
         assert (nth_error (upd (ids c) i (add1 w)) i = Some (add1 w)) as Hn by (eapply nth_error_upd_same; eauto);
         specialize (He0 i Hid Hin _ Hn); rewrite gen_add1_eq in He0 by auto;
         unfold nowrap in NW; simpl in NW; specialize (NW i _ Hn); rewrite gen_add1_eq in NW by auto;
         rewrite (stale_entry_skipped w e He0 NW) in Hm; discriminate
       end.
Qed.

(* ------------------------------------------------------------------ assembling *)
Lemma ids_le_fwd a b j w : ids_le a b -> nth_error a j = Some w -> exists w', nth_error b j = Some w' /\ (gen w <= gen w')%N.
Proof.
  intros (L & H) Ha. destruct (nth_error b j) eqn:E.
  - eexists; split; eauto.
  - apply nth_error_None in E. assert (j < length a) by (apply nth_error_Some; congruence). lia.
Qed.
Lemma nowrap_back a b : ids_le (ids a) (ids b) -> nowrap b -> nowrap a.
Proof. intros L N j w Hw. destruct (ids_le_fwd _ _ _ _ L Hw) as (w' & Hw' & G). specialize (N _ _ Hw'). lia. Qed.
Lemma nowrap_run_back sched : forall c, nowrap (run c sched) -> nowrap c.
Proof. intros c. apply nowrap_back. apply run_gen_monotone. Qed.

Lemma reachable_pf progs nids bds c : length progs <= 3 -> reachable (init progs nids bds) c -> pf c.
Proof.
  intros L R. induction R. apply init_pf.
  destruct (reachable_all _ _ _ _ L R) as (NC & CI & W & _).
  assert (reachable (init progs nids bds) c') as R' by (econstructor; eauto).
  destruct (reachable_all _ _ _ _ L R') as (NC' & _). eapply step_pf; eauto.
Qed.

Lemma init_FIN progs nids bds : FIN (init progs nids bds).
Proof.
  unfold FIN, init; simpl. repeat split.
  - apply Forall_forall. intros th H. apply in_map_iff in H. destruct H as (p & <- & _). simpl. apply fin_cmds.
  - apply Forall_forall. intros b H. apply in_map_iff in H. destruct H as (p & <- & _). split; constructor.
  - intros x [].
  - apply Forall_forall. intros th H. apply in_map_iff in H. destruct H as (p & <- & _). split; simpl. intros x []. intros; discriminate.
Qed.

Lemma reachable_FIN progs nids bds c : length progs <= 3 -> reachable (init progs nids bds) c -> nowrap c -> FIN c.
Proof.
  intros L R. induction R; intros NW. apply init_FIN.
  destruct (reachable_all _ _ _ _ L R) as (NC & CI & W & _).
  assert (reachable (init progs nids bds) c') as R' by (econstructor; eauto).
  destruct (reachable_all _ _ _ _ L R') as (NC' & _).
  eapply step_FIN; eauto.
  - eapply reachable_inv1; eauto.
  - eapply reachable_pf; eauto.
  - apply IHR. eapply nowrap_back; [eapply step_gen_monotone; eauto | auto].
Qed.

(* run events of the callback instance u posted under id i *)
Definition ev_run_ui (u : uid) (i : idx) (e : event) : nat :=
  match e with EvRun v _ (Some j) _ => if uid_dec v u then (if Nat.eq_dec j i then 1 else 0) else 0 | _ => 0 end.
Definition runs_ui (u : uid) (i : idx) (l : list event) : nat := fold_right (fun e a => ev_run_ui u i e + a) 0 l.

Lemma step_fin1_incl c t c' : step c t = Some c' -> incl (fin1 c) (fin1 c').
Proof.
  intros H. unfold step in H. more_cases H; use_specs; proj_simpl; try apply incl_refl.
  apply incl_appr. apply incl_refl.
Qed.

Lemma step_runs_ui c t c' u i : FIN c -> In (u, i) (fin1 c) -> step c t = Some c' ->
  runs_ui u i (log c') = runs_ui u i (log c).
Proof.
  intros (A & _) Hin H. open_step H th it rest Ht Htd.
  pose proof (Forall_nth_error _ _ _ _ A Ht) as Hth. cbv beta in Hth. rewrite Htd in Hth. inversion Hth as [|? ? Hit Hrest]; subst.
  more_cases H; use_specs; proj_simpl; auto.
  all: try match goal with Hn : e_id ?e = None |- _ => rewrite Hn; simpl; auto end.
  all: simpl in Hit; destruct (e_id e) as [j|] eqn:Ej; simpl; auto;
       destruct (uid_dec (e_uid e) u) as [Eu|]; auto; destruct (Nat.eq_dec j i) as [Ei|]; auto;
       exfalso; subst; eapply Hit; eauto.
Qed.

(* CANCEL_FINAL (counter-draining cancel-and-wait: single-argument form, and the two-argument form called
   from outside a callback of the id). [fin1 c] holds the pairs (u, i) such that a cancel_callback_and_wait(i)
   has RETURNED whose call began after the post of callback instance u under id i had returned (and u is not
   the callback the canceller itself runs in). For every such pair, in every reachable state:
   (1) no thread is inside that callback; (2) it is never run afterwards, under any further schedule,
   as long as the 28-bit generation of no id has wrapped (fewer than 2^28 cancellations per id). *)
Lemma cancel_final_single progs nids bds c u i :
  length progs <= 3 -> reachable (init progs nids bds) c -> In (u, i) (fin1 c) -> nowrap c ->
  (forall th, In th (threads c) -> ~ (cur th = Some u /\ proc th = Some i)) /\
  (forall sched, nowrap (run c sched) -> runs_ui u i (log (run c sched)) = runs_ui u i (log c)).
Proof.
  intros L R Hin NW. split.
  - destruct (reachable_FIN _ _ _ _ L R NW) as (_ & _ & _ & D). intros th Hth (Hc & Hp).
    rewrite Forall_forall in D. destruct (D _ Hth) as (_ & D2). eapply D2; eauto.
  - intros sched. revert c R Hin NW. induction sched as [|a s IH]; intros c R Hin NW NWr; simpl in *; auto.
    unfold sstep at 1. unfold sstep at 1 in NWr. destruct (step c a) as [c1|] eqn:E.
    + assert (reachable (init progs nids bds) c1) as R1 by (econstructor; eauto).
      pose proof (nowrap_run_back _ _ NWr) as NW1.
      rewrite (IH c1 R1 (step_fin1_incl _ _ _ E _ Hin) NW1 NWr).
      eapply step_runs_ui; eauto. eapply reachable_FIN; eauto.
    + apply IH; auto.
Qed.
