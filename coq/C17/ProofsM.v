(* C17 proofs, part M: FIFO_PER_KIND at trace level. *)
From Coq Require Import List NArith Bool Arith Lia Sorted.
From LTV.C17 Require Import Model ProofsA ProofsB ProofsC ProofsF ProofsG ProofsK.
Import ListNotations.

Section Fifo.
Variable T : tid.     (* target thread *)
Variable K : kind.    (* kind of callback *)
Variable P : tid.     (* posting thread *)

Definition kind_eqb (a b : kind) : bool := match a, b with KNormal, KNormal | KIntr, KIntr => true | _, _ => false end.
Definition fm (e : entry) : bool := Nat.eqb (fst (e_uid e)) P && kind_eqb (e_kind e) K.
Definition keys (l : list entry) : list nat := map (fun e => snd (e_uid e)) (filter fm l).

(* run events of callbacks of (P, T, K), oldest first (the log is newest first) *)
Fixpoint rk (l : list event) : list nat :=
  match l with
  | [] => []
  | e :: r => rk r ++ match e with
                      | EvRun u t' _ k' => if Nat.eqb t' T && Nat.eqb (fst u) P && kind_eqb k' K then [snd u] else []
                      | _ => []
                      end
  end.
Definition titems (td : list item) : list entry :=
  flat_map (fun it => match it with IRun e => [e] | IBatch es _ => es | _ => [] end) td.
Definition inflight (td : list item) : list nat :=
  match td with
  | IPostLock tgt kk _ u _ _ :: _ => if Nat.eqb tgt T && kind_eqb kk K && Nat.eqb (fst u) P then [snd u] else []
  | _ => []
  end.
Definition qk (b : mbox) : list entry := match K with KNormal => qn b | KIntr => qi b end.

(* everything of (P, T, K) that has run, is about to run, is batched, is queued or is being pushed - in that order *)
Definition Rv (lg : list event) (tdT : list item) (bT : mbox) (tdP : list item) : list nat :=
  rk lg ++ keys (titems tdT) ++ keys (qk bT) ++ inflight tdP.
Definition R (c : cfg) : list nat :=
  match nth_error (threads c) T, nth_error (boxes c) T, nth_error (threads c) P with
  | Some a, Some b, Some d => Rv (log c) (todo a) b (todo d)
  | _, _, _ => []
  end.

Lemma keys_app a b : keys (a ++ b) = keys a ++ keys b.
Proof. unfold keys. rewrite filter_app, map_app. reflexivity. Qed.
Lemma rk_app a b : rk (a ++ b) = rk b ++ rk a.
Proof. induction a; simpl. rewrite app_nil_r; auto. rewrite IHa, app_assoc. reflexivity. Qed.
Lemma titems_app a b : titems (a ++ b) = titems a ++ titems b.
Proof. unfold titems. apply flat_map_app. Qed.
Lemma titems_cmds l : titems (map ICmd l) = [].
Proof. induction l; simpl; auto. Qed.

(* queue discipline: the interrupt queue holds interrupt-kind entries, the normal queue normal-kind ones *)
Definition kq_ok (b : mbox) : Prop := Forall (fun e => e_kind e = KNormal) (qn b) /\ Forall (fun e => e_kind e = KIntr) (qi b).
Definition kq (c : cfg) : Prop := Forall kq_ok (boxes c).

Lemma kq_push b k e : kq_ok b -> e_kind e = k -> kq_ok (fst (push_entry b k e)).
Proof. intros (A & B) E. destruct k; simpl; split; auto; apply Forall_app; split; auto. Qed.
Lemma kq_set_intr b : kq_ok b -> kq_ok (set_intr b).
Proof. unfold set_intr. destruct (pol b && negb (intr b)); auto. Qed.
Lemma kq_disp b oi batch b1 oi' : kq_ok b -> disp_lock b oi = Some (batch, b1, oi') -> kq_ok b1.
Proof.
  intros (A & B) H. destruct (disp_lock_spec _ _ _ _ _ H) as ((ti & tn & _ & Ei & En) & _).
  unfold kq_ok. rewrite Ei, En. destruct ti, tn; split; auto.
Qed.
Lemma step_kq c t c' : kq c -> step c t = Some c' -> kq c'.
Proof.
  unfold kq. intros F H. unfold step in H.
  more_cases H; use_specs; proj_simpl; auto.
  all: repeat match goal with
    | Hb : nth_error (boxes _) _ = Some ?b |- _ =>
        lazymatch goal with | _ : kq_ok b |- _ => fail | _ => pose proof (Forall_nth_error _ _ _ _ F Hb) end
    end.
  all: try (apply Forall_upd; auto; first [apply kq_push; auto | apply kq_set_intr; auto | eapply kq_disp; eauto | assumption]).
Qed.

Lemma rk_cons e l : rk (e :: l) = rk l ++ match e with
                      | EvRun u t' _ k' => if Nat.eqb t' T && Nat.eqb (fst u) P && kind_eqb k' K then [snd u] else []
                      | _ => [] end.
Proof. reflexivity. Qed.

Lemma keys_push_other b k e : Nat.eqb (fst (e_uid e)) P = false -> keys (qk (fst (push_entry b k e))) = keys (qk b).
Proof.
  intros E. unfold qk. destruct K, k; simpl; auto; rewrite keys_app; unfold keys at 2; simpl; unfold fm; rewrite E; simpl; rewrite app_nil_r; auto.
Qed.
Lemma qk_set_intr b : qk (set_intr b) = qk b.
Proof. unfold set_intr, qk. destruct (pol b && negb (intr b)); destruct K; reflexivity. Qed.

(* a step of a thread that is neither the target nor the poster leaves the sequence alone *)
Lemma step_R_other c t0 c' : t0 <> T -> t0 <> P -> pf c -> step c t0 = Some c' -> R c' = R c.
Proof.
  intros N1 N2 (P1 & _ & _) H. open_step H th it rest Ht Htd.
  pose proof (P1 _ _ Ht) as Fa. rewrite Htd in Fa. inversion Fa as [|? ? Fit _]; subst. clear Fa.
  assert (Nat.eqb t0 T = false) as E1 by (apply Nat.eqb_neq; auto).
  assert (Nat.eqb t0 P = false) as E2 by (apply Nat.eqb_neq; auto).
  more_cases H; use_specs; unfold R, Rv; proj_simpl.
  all: rewrite ?nth_error_upd_other by auto.
  all: rewrite ?nth_error_upd.
  all: repeat match goal with |- context [Nat.eqb ?a T] => destruct (Nat.eqb a T) eqn:Eaa; [apply Nat.eqb_eq in Eaa; subst|] end.
  all: repeat match goal with
       | H1 : nth_error ?l ?n = Some _ |- context [nth_error ?l ?n] => rewrite H1
       end.
  all: repeat match goal with |- context [match nth_error ?l ?n with _ => _ end] => destruct (nth_error l n) eqn:? end.
  all: rewrite ?E1, ?E2.
  all: repeat match goal with
       | H1 : nth_error ?l ?n = Some _ |- context [nth_error ?l ?n] => rewrite H1
       | H1 : nth_error ?l ?n = None |- context [nth_error ?l ?n] => rewrite H1
       end.
  all: rewrite ?rk_cons, ?E1; simpl; rewrite ?app_nil_r.
  all: try reflexivity.
  all: try (rewrite keys_push_other; [reflexivity | simpl; try (simpl in Fit; destruct Fit as (Ef & _); rewrite Ef); auto]).
  all: try (rewrite qk_set_intr; reflexivity).
Qed.

Inductive subseq {A} : list A -> list A -> Prop :=
| ss_nil : subseq [] []
| ss_skip x l1 l2 : subseq l1 l2 -> subseq l1 (x :: l2)
| ss_keep x l1 l2 : subseq l1 l2 -> subseq (x :: l1) (x :: l2).
Lemma subseq_refl {A} (l : list A) : subseq l l.
Proof. induction l; [apply ss_nil | apply ss_keep; auto]. Qed.
Lemma subseq_app {A} (a1 a2 b1 b2 : list A) : subseq a1 a2 -> subseq b1 b2 -> subseq (a1 ++ b1) (a2 ++ b2).
Proof. induction 1; simpl; intros; auto; [apply ss_skip | apply ss_keep]; auto. Qed.
Lemma subseq_nil {A} (l : list A) : subseq [] l.
Proof. induction l; [apply ss_nil | apply ss_skip; auto]. Qed.

Lemma keys_cons e l : keys (e :: l) = (if fm e then [snd (e_uid e)] else []) ++ keys l.
Proof. unfold keys. simpl. destruct (fm e); reflexivity. Qed.

Lemma keys_disp b oi batch b1 oi' : kq_ok b -> disp_lock b oi = Some (batch, b1, oi') -> keys batch ++ keys (qk b1) = keys (qk b).
Proof.
  intros (A & B) H. destruct (disp_lock_spec _ _ _ _ _ H) as ((ti & tn & -> & Ei & En) & _).
  assert (forall l, Forall (fun e => e_kind e = KNormal) l -> K = KIntr -> keys l = []) as Z1.
  { intros l Hl Ek. unfold keys. induction Hl; simpl; auto. unfold fm at 1. rewrite H0, Ek. simpl. rewrite andb_false_r. auto. }
  assert (forall l, Forall (fun e => e_kind e = KIntr) l -> K = KNormal -> keys l = []) as Z2.
  { intros l Hl Ek. unfold keys. induction Hl; simpl; auto. unfold fm at 1. rewrite H0, Ek. simpl. rewrite andb_false_r. auto. }
  rewrite keys_app. unfold qk. rewrite Ei, En. destruct K eqn:EK.
  - rewrite (Z2 (if ti then qi b else [])) by (destruct ti; auto). destruct tn; simpl; rewrite ?app_nil_r; auto.
  - rewrite (Z1 (if tn then qn b else [])) by (destruct tn; auto). destruct ti; simpl; rewrite ?app_nil_r; auto.
Qed.

Lemma titems_cw th i w r : titems (cw_after_load th i w :: r) = titems r.
Proof. unfold cw_after_load. destruct (2 <=? cnt w)%N; simpl; auto. destruct ((cnt w =? 1)%N && negb (oidx_is (proc th) i)); simpl; auto. Qed.

(* a step of the target thread: entries move from the queue into the batch, from the batch into the run log, or are
   skipped; the sequence only loses elements *)
Lemma step_R_target c c' : T <> P -> crashed c' = false -> Forall wf_thread (threads c) -> pf c -> kq c ->
  step c T = Some c' -> subseq (R c') (R c).
Proof.
  intros NTP NC W (P1 & _ & _) KQ H. open_step H th it rest Ht Htd.
  pose proof (P1 _ _ Ht) as Fa. rewrite Htd in Fa. inversion Fa as [|? ? Fit _]; subst. clear Fa.
  pose proof (Forall_nth_error _ _ _ _ W Ht) as Hsh. unfold wf_thread in Hsh. rewrite Htd in Hsh. apply shape_cons in Hsh.
  assert (Nat.eqb T P = false) as E2 by (apply Nat.eqb_neq; auto).
  more_cases H; use_specs; unfold R, Rv; proj_simpl; try discriminate.
  all: rewrite ?Ht.
  all: rewrite ?nth_error_upd.
  all: rewrite ?Nat.eqb_refl, ?E2, ?Ht.
  all: repeat match goal with |- context [Nat.eqb ?a T] => destruct (Nat.eqb a T) eqn:Eaa; [apply Nat.eqb_eq in Eaa; subst|] end.
  all: repeat match goal with
       | H1 : nth_error ?l ?n = Some _ |- context [nth_error ?l ?n] => rewrite H1
       end.
  all: rewrite ?Nat.eqb_refl, ?E2, ?Ht.
  all: repeat match goal with |- context [match nth_error ?l ?n with _ => _ end] => destruct (nth_error l n) eqn:? end.
  all: try apply subseq_nil.
  all: rewrite ?Htd, ?rk_cons, ?Nat.eqb_refl, ?E2; simpl; rewrite ?app_nil_r.
  all: try apply subseq_refl.
  all: try (rewrite keys_push_other; [apply subseq_refl | simpl; try (simpl in Fit; destruct Fit as (Ef & _); rewrite Ef); auto]).
  all: try (rewrite qk_set_intr; apply subseq_refl).
  all: try (change (match cw_after_load ?a ?b ?cc with IBatch es _ => es | IRun e => [e] | _ => [] end ++ titems ?r) with (titems (cw_after_load a b cc :: r)); rewrite titems_cw; apply subseq_refl).
  all: try (match goal with Hd : disp_lock ?m _ = Some (_, _, _), Hb : nth_error (boxes _) T = Some ?m |- _ =>
              pose proof (keys_disp _ _ _ _ _ (Forall_nth_error _ _ _ _ KQ Hb) Hd) as Kd; rewrite <- Kd end;
            split_all; try discriminate; inj_items;
            rewrite ?titems_cmds, ?app_nil_r; simpl; rewrite ?app_nil_r, <- ?app_assoc; simpl; apply subseq_refl).
  all: rewrite ?keys_cons, ?keys_app, <- ?app_assoc.
  all: try (apply subseq_app; [apply subseq_refl|]; destruct (fm e); simpl; [apply ss_skip|]; apply subseq_refl).
  all: rewrite ?titems_app, ?titems_cmds; simpl; rewrite ?keys_app, <- ?app_assoc; unfold fm; apply subseq_refl.
Qed.

Lemma cshape_inflight rest cu pr : cshape rest cu pr -> inflight rest = [].
Proof. destruct 1; [destruct p | destruct b]; reflexivity. Qed.
Lemma shape_inflight_tl it rest cu pr : shape (it :: rest) cu pr -> inflight rest = [].
Proof.
  intros H. apply shape_cons in H.
  repeat match goal with H : _ \/ _ |- _ => destruct H | H : _ /\ _ |- _ => destruct H | H : exists _, _ |- _ => destruct H end; subst; simpl; eauto using cshape_inflight.
  all: try (match goal with |- inflight (map ICmd ?p) = _ => destruct p; reflexivity end).
Qed.

Lemma keys_push_self b k e : fst (e_uid e) = P -> e_kind e = k ->
  keys (qk (fst (push_entry b k e))) = keys (qk b) ++ (if kind_eqb k K then [snd (e_uid e)] else []).
Proof.
  intros E1 E2. unfold qk. destruct K eqn:EK, k; simpl; rewrite ?app_nil_r; auto; rewrite keys_app; unfold keys at 2; simpl; unfold fm;
    rewrite E1, E2, EK, Nat.eqb_refl; simpl; auto.
Qed.

Lemma inflight_cw th i w r : inflight (cw_after_load th i w :: r) = [].
Proof. unfold cw_after_load. destruct (2 <=? cnt w)%N; simpl; auto. destruct ((cnt w =? 1)%N && negb (oidx_is (proc th) i)); simpl; auto. Qed.

Lemma inflight_body l e r : inflight (map ICmd l ++ IRet e :: r) = [].
Proof. destruct l; reflexivity. Qed.

Lemma step_R_poster c c' thP : T <> P -> crashed c' = false -> Forall wf_thread (threads c) -> pf c ->
  nth_error (threads c) P = Some thP -> step c P = Some c' ->
  exists thP', nth_error (threads c') P = Some thP' /\
   ((R c' = R c /\ nposted thP <= nposted thP') \/ (R c' = R c ++ [nposted thP] /\ nposted thP' = S (nposted thP))).
Proof.
  intros NTP NC W (P1 & _ & _) HP H. open_step H th it rest Ht Htd.
  injection HP as <-. pose proof Ht as HP.
  pose proof (P1 _ _ HP) as Fa. rewrite Htd in Fa. inversion Fa as [|? ? Fit _]; subst. clear Fa.
  pose proof (Forall_nth_error _ _ _ _ W HP) as Hsh. unfold wf_thread in Hsh. rewrite Htd in Hsh.
  pose proof (shape_inflight_tl _ _ _ _ Hsh) as Hir.
  assert (Nat.eqb P T = false) as E2 by (apply Nat.eqb_neq; auto).
  more_cases H; use_specs; proj_simpl; try discriminate.
  all: rewrite ?nth_error_upd, ?Nat.eqb_refl, ?HP.
  all: eexists; (split; [reflexivity|]).
  all: unfold R, Rv; proj_simpl.
  all: assert (Nat.eqb T P = false) as E3 by (apply Nat.eqb_neq; auto).
  all: rewrite ?nth_error_upd, ?Nat.eqb_refl, ?E2, ?E3, ?HP.
  all: repeat match goal with |- context [Nat.eqb ?a T] => destruct (Nat.eqb a T) eqn:Eaa; [apply Nat.eqb_eq in Eaa; subst|] end.
  all: repeat match goal with
       | H1 : nth_error ?l ?n = Some _ |- context [nth_error ?l ?n] => rewrite H1
       end.
  all: rewrite ?Nat.eqb_refl, ?E2, ?E3, ?HP.
  all: repeat match goal with |- context [match nth_error ?l ?n with _ => _ end] => destruct (nth_error l n) eqn:? end.
  all: rewrite ?Htd, ?rk_cons, ?Nat.eqb_refl, ?E2, ?E3, ?inflight_cw; simpl; rewrite ?Hir, ?inflight_body, ?qk_set_intr, ?app_nil_r.
  all: try (left; split; [reflexivity | simpl; lia]).
  all: try match type of Fit with _ /\ _ => destruct Fit as (Ef & Fl) end.
  all: try (rewrite keys_push_self by (simpl; auto)).
  all: unfold cw_after_load.
  all: repeat (match goal with |- context [if ?x then _ else _] => destruct x eqn:? end; simpl); rewrite ?app_nil_r, <- ?app_assoc.
  all: try (left; split; [reflexivity | simpl; lia]).
  all: try (right; split; [reflexivity | simpl; lia]).
  all: try (exfalso; match goal with Hb : _ && _ && _ = _ |- _ => rewrite ?Ef, ?Nat.eqb_refl, ?Eaa in Hb; simpl in Hb; discriminate end).
Qed.

Lemma step_thread_other c t0 c' k : t0 <> k -> step c t0 = Some c' -> nth_error (threads c') k = nth_error (threads c) k.
Proof.
  intros N H. open_step H th it rest Ht Htd.
  more_cases H; use_specs; proj_simpl; rewrite ?nth_error_upd_other by auto; auto.
Qed.

Lemma subseq_Forall {A} (Q : A -> Prop) l1 l2 : subseq l1 l2 -> Forall Q l2 -> Forall Q l1.
Proof. induction 1; intros F; auto; inversion F; subst; auto. Qed.
Lemma subseq_sorted l1 l2 : subseq l1 l2 -> StronglySorted lt l2 -> StronglySorted lt l1.
Proof.
  induction 1; intros S; auto; inversion S; subst; auto.
  constructor; auto. eapply subseq_Forall; eauto.
Qed.
Lemma sorted_snoc l n : StronglySorted lt l -> Forall (fun k => k < n) l -> StronglySorted lt (l ++ [n]).
Proof.
  induction 1; intros F; simpl. repeat constructor.
  inversion F; subst. constructor; auto. apply Forall_app; split; auto.
Qed.

(* the sequence is strictly increasing in the poster's post counter, and bounded by it *)
Definition finv (c : cfg) : Prop :=
  forall thP, nth_error (threads c) P = Some thP -> StronglySorted lt (R c) /\ Forall (fun k => k < nposted thP) (R c).

Lemma step_finv c t0 c' : T <> P -> crashed c' = false -> Forall wf_thread (threads c) -> pf c -> kq c ->
  finv c -> step c t0 = Some c' -> finv c'.
Proof.
  intros NTP NC W PF KQ I H thP' HP'.
  destruct (Nat.eq_dec t0 P) as [->|NP].
  - destruct (step_nposted_rev _ _ _ H _ _ HP') as (thP & HP & _).
    destruct (I _ HP) as (S1 & F1).
    destruct (step_R_poster _ _ _ NTP NC W PF HP H) as (th2 & HP2 & [(-> & L) | (-> & L)]); rewrite HP2 in HP'; injection HP' as <-.
    + split; auto. eapply Forall_impl; [|exact F1]. simpl; intros; lia.
    + split. apply sorted_snoc; auto. apply Forall_app; split. eapply Forall_impl; [|exact F1]. simpl; intros; lia. repeat constructor. lia.
  - rewrite (step_thread_other _ _ _ _ NP H) in HP'. destruct (I _ HP') as (S1 & F1).
    destruct (Nat.eq_dec t0 T) as [->|NT].
    + pose proof (step_R_target _ _ NTP NC W PF KQ H) as SS. split; [eapply subseq_sorted | eapply subseq_Forall]; eauto.
    + rewrite (step_R_other _ _ _ NT NP PF H). auto.
Qed.

Lemma init_kq progs nids bds : kq (init progs nids bds).
Proof. unfold kq, init; simpl. apply Forall_forall. intros b Hb. apply in_map_iff in Hb. destruct Hb as (? & <- & _). split; constructor. Qed.
Lemma reachable_kq progs nids bds c : reachable (init progs nids bds) c -> kq c.
Proof. induction 1. apply init_kq. eapply step_kq; eauto. Qed.

Lemma init_finv progs nids bds : finv (init progs nids bds).
Proof.
  intros thP HP. unfold R, init in *; simpl in *. rewrite HP.
  destruct (nth_error (map init_thread progs) T) eqn:E1; [|split; constructor].
  destruct (nth_error (map (fun _ => mkB [] [] false false false false) progs) T) eqn:E2; [|split; constructor].
  apply nth_error_In in E1, E2, HP. apply in_map_iff in E1, E2, HP.
  destruct E1 as (? & <- & _), E2 as (? & <- & _), HP as (pp & <- & _).
  unfold Rv; simpl. rewrite titems_cmds. unfold qk; destruct K; simpl; destruct pp; simpl; split; constructor.
Qed.
Lemma reachable_finv progs nids bds c : T <> P -> reachable (init progs nids bds) c -> crashed c = false -> finv c.
Proof.
  intros NTP. induction 1; intros NC. apply init_finv.
  assert (crashed c = false) as NC0. { destruct (crashed c) eqn:E; auto. erewrite step_crashed_mono in NC; eauto. }
  eapply step_finv; eauto. eapply reachable_wf; eauto. eapply ProofsK.reachable_pf_nc; eauto. eapply reachable_kq; eauto.
Qed.

Lemma sorted_app_l l1 l2 : StronglySorted lt (l1 ++ l2) -> StronglySorted lt l1.
Proof. intros H. eapply subseq_sorted; [|exact H]. rewrite <- (app_nil_r l1) at 1. apply subseq_app. apply subseq_refl. apply subseq_nil. Qed.
End Fifo.

(* a thread posting to itself: the same sequence, the thread both consumes and appends *)
Section Self.
Variable K : kind.
Variable P : tid.
Lemma step_R_self c c' th : crashed c' = false -> Forall wf_thread (threads c) -> pf c -> kq c ->
  nth_error (threads c) P = Some th -> step c P = Some c' ->
  exists th', nth_error (threads c') P = Some th' /\
   ((subseq (R P K P c') (R P K P c) /\ nposted th <= nposted th') \/ (R P K P c' = R P K P c ++ [nposted th] /\ nposted th' = S (nposted th))).
Proof.
  intros NC W (P1 & _ & _) KQ HP H. open_step H th0 it rest Ht Htd.
  injection HP as <-. pose proof Ht as HP.
  pose proof (P1 _ _ HP) as Fa. rewrite Htd in Fa. inversion Fa as [|? ? Fit _]; subst. clear Fa.
  pose proof (Forall_nth_error _ _ _ _ W HP) as Hsh. unfold wf_thread in Hsh. rewrite Htd in Hsh.
  pose proof (shape_inflight_tl P K P _ _ _ _ Hsh) as Hir.
  apply shape_cons in Hsh.
  more_cases H; use_specs; proj_simpl; try discriminate.
  all: rewrite ?nth_error_upd, ?Nat.eqb_refl, ?HP.
  all: eexists; (split; [reflexivity|]).
  all: unfold R, Rv; proj_simpl.
  all: rewrite ?nth_error_upd, ?Nat.eqb_refl, ?HP.
  all: repeat match goal with |- context [Nat.eqb ?a P] => destruct (Nat.eqb a P) eqn:Eaa; [apply Nat.eqb_eq in Eaa; subst|] end.
  all: repeat match goal with
       | H1 : nth_error ?l ?n = Some _ |- context [nth_error ?l ?n] => rewrite H1
       end.
  all: rewrite ?Nat.eqb_refl, ?HP.
  all: repeat match goal with |- context [match nth_error ?l ?n with _ => _ end] => destruct (nth_error l n) eqn:? end.
  all: try (left; split; [apply subseq_nil | simpl; lia]).
  all: rewrite ?Htd, ?rk_cons, ?Nat.eqb_refl, ?inflight_cw; simpl; rewrite ?Hir, ?inflight_body, ?qk_set_intr, ?app_nil_r.
  all: try (left; split; [apply subseq_refl | simpl; lia]).
  all: try match type of Fit with _ /\ _ => destruct Fit as (Ef & Fl) end.
  all: try (rewrite keys_push_self by (simpl; auto)).
  all: try (rewrite keys_push_other by (simpl; auto)).
  all: try (change (match cw_after_load ?a ?b ?cc with IBatch es _ => es | IRun e => [e] | _ => [] end ++ titems ?r) with (titems (cw_after_load a b cc :: r)); rewrite titems_cw).
  all: try (left; split; [apply subseq_refl | simpl; lia]).
  all: unfold cw_after_load.
  all: repeat (match goal with |- context [if ?x then _ else _] => destruct x eqn:? end; simpl); rewrite ?app_nil_r, <- ?app_assoc.
  all: try (left; split; [apply subseq_refl | simpl; lia]).
  all: try (right; split; [reflexivity | simpl; lia]).
  all: try (exfalso; match goal with Hb : _ && _ && _ = _ |- _ => rewrite ?Ef, ?Nat.eqb_refl, ?Eaa in Hb; simpl in Hb; discriminate end).
  all: left; (split; [|simpl; lia]).
  all: try (match goal with Hd : disp_lock ?m _ = Some (_, _, _), Hb : nth_error (boxes _) _ = Some ?m |- _ =>
              pose proof (keys_disp K P _ _ _ _ _ (Forall_nth_error _ _ _ _ KQ Hb) Hd) as Kd; rewrite <- Kd end;
            split_all; try discriminate; inj_items;
            rewrite ?titems_cmds, ?app_nil_r; simpl; rewrite ?app_nil_r, <- ?app_assoc; simpl; apply subseq_refl).
  all: rewrite ?keys_cons, ?keys_app, <- ?app_assoc.
  all: try (apply subseq_app; [apply subseq_refl|]; destruct (fm K P e); simpl; [apply ss_skip|]; apply subseq_refl).
  all: try (rewrite ?titems_app, ?titems_cmds; simpl; rewrite ?keys_app, <- ?app_assoc; unfold fm; apply subseq_refl).
  all: unfold fm; rewrite ?Nat.eqb_refl;
       repeat match goal with
              | Hq : ?x = true |- context [if ?x && _ then _ else _] => rewrite Hq
              | Hq : ?x = false |- context [if ?x && _ then _ else _] => rewrite Hq
              | Hq : ?x = true |- context [if _ && ?x then _ else _] => rewrite Hq
              | Hq : ?x = false |- context [if _ && ?x then _ else _] => rewrite Hq
              end; simpl;
       rewrite ?titems_app, ?titems_cmds; simpl; rewrite ?keys_app, <- ?app_assoc; try apply subseq_refl.
Qed.

End Self.

Lemma step_finv_all T K P c t0 c' : crashed c' = false -> Forall wf_thread (threads c) -> pf c -> kq c ->
  finv T K P c -> step c t0 = Some c' -> finv T K P c'.
Proof.
  destruct (Nat.eq_dec T P) as [->|NTP]; [|intros; eapply step_finv; eauto].
  intros NC W PF KQ I H thP' HP'.
  destruct (Nat.eq_dec t0 P) as [->|NP].
  - destruct (step_nposted_rev _ _ _ H _ _ HP') as (thP & HP & _).
    destruct (I _ HP) as (S1 & F1).
    destruct (step_R_self K P _ _ _ NC W PF KQ HP H) as (th2 & HP2 & [(SS & L) | (E & L)]); rewrite HP2 in HP'; injection HP' as <-.
    + split. eapply subseq_sorted; eauto. eapply subseq_Forall in F1; [|exact SS]. eapply Forall_impl; [|exact F1]. simpl; intros; lia.
    + rewrite E. split. apply sorted_snoc; auto. apply Forall_app; split. eapply Forall_impl; [|exact F1]. simpl; intros; lia. repeat constructor. lia.
  - rewrite (step_thread_other _ _ _ _ NP H) in HP'. destruct (I _ HP') as (S1 & F1).
    rewrite (step_R_other P K P _ _ _ NP NP PF H). auto.
Qed.
Lemma reachable_finv_all T K P progs nids bds c : reachable (init progs nids bds) c -> crashed c = false -> finv T K P c.
Proof.
  induction 1; intros NC. apply init_finv.
  assert (crashed c = false) as NC0. { destruct (crashed c) eqn:E; auto. erewrite step_crashed_mono in NC; eauto. }
  eapply step_finv_all; eauto. eapply reachable_wf; eauto. eapply ProofsK.reachable_pf_nc; eauto. eapply reachable_kq; eauto.
Qed.

Lemma step_blength c t c' : step c t = Some c' -> length (boxes c') = length (boxes c).
Proof.
  intros H. unfold step in H. more_cases H. all: use_specs. all: proj_simpl; rewrite ?upd_length; auto.
Qed.
Lemma reachable_lengths progs nids bds c : reachable (init progs nids bds) c ->
  length (threads c) = length progs /\ length (boxes c) = length progs.
Proof.
  induction 1. unfold init; simpl. rewrite !map_length. auto.
  destruct IHreachable as (A & B). erewrite step_length, step_blength by eauto. auto.
Qed.

(* FIFO_PER_KIND, trace level: the callbacks that poster P put into target T's queue of kind K have run on T in the order
   of P's post counter ([snd u], which is the order of P's post calls - posts_in_counter_order) *)
Definition run_keys := rk.
Theorem fifo_per_kind progs nids bds c P T K :
  P < length progs -> T < length progs ->
  reachable (init progs nids bds) c -> crashed c = false ->
  StronglySorted lt (run_keys T K P (log c)).
Proof.
  intros LP LT Hr NC.
  destruct (reachable_lengths _ _ _ _ Hr) as (L1 & L2).
  destruct (nth_error (threads c) P) as [thP|] eqn:EP; [|apply nth_error_None in EP; lia].
  destruct (reachable_finv_all T K P _ _ _ _ Hr NC _ EP) as (S1 & _).
  unfold R in S1. rewrite EP in S1.
  destruct (nth_error (threads c) T) eqn:ET; [|apply nth_error_None in ET; lia].
  destruct (nth_error (boxes c) T) eqn:EB; [|apply nth_error_None in EB; lia].
  unfold Rv in S1. eapply sorted_app_l; eauto.
Qed.

Section Posts.
Variable P : tid.
Fixpoint pk (l : list event) : list nat :=
  match l with
  | [] => []
  | e :: r => pk r ++ match e with EvPost u _ _ _ => if Nat.eqb (fst u) P then [snd u] else [] | _ => [] end
  end.
Definition pinv (c : cfg) : Prop :=
  forall thP, nth_error (threads c) P = Some thP -> StronglySorted lt (pk (log c)) /\ Forall (fun k => k < nposted thP) (pk (log c)).

Lemma step_pinv c t0 c' : pinv c -> step c t0 = Some c' -> pinv c'.
Proof.
  intros I H thP' HP'. open_step H th it rest Ht Htd.
  more_cases H; use_specs; proj_simpl; autorewrite with c17proj in HP'; simpl in HP'.
  all: rewrite ?nth_error_upd, ?Ht in HP'.
  all: destruct (Nat.eqb t0 P) eqn:E0; [apply Nat.eqb_eq in E0; subst; injection HP' as <-; destruct (I _ Ht) as (S1 & F1) | destruct (I _ HP') as (S1 & F1)].
  all: simpl; rewrite ?app_nil_r, ?E0, ?Nat.eqb_refl.
  all: try (split; [assumption | (eapply Forall_impl; [|exact F1]); simpl; intros; lia]).
  all: split; [apply sorted_snoc; auto | apply Forall_app; split; [(eapply Forall_impl; [|exact F1]); simpl; intros; lia | repeat constructor; lia]].
Qed.
Lemma reachable_pinv progs nids bds c : reachable (init progs nids bds) c -> pinv c.
Proof. induction 1. intros thP _. simpl. split; constructor. eapply step_pinv; eauto. Qed.
End Posts.

Lemma sorted_mid l1 x l2 y l3 : StronglySorted lt (l1 ++ x :: l2 ++ y :: l3) -> x < y.
Proof.
  induction l1; simpl; intros H; inversion H; subst; auto.
  rewrite Forall_app in H3. destruct H3 as (_ & F). inversion F; auto.
Qed.

(* a poster's posts appear in the log in the order of its post counter *)
Theorem posts_in_counter_order progs nids bds c P :
  P < length progs -> reachable (init progs nids bds) c -> StronglySorted lt (pk P (log c)).
Proof.
  intros LP Hr. destruct (reachable_lengths _ _ _ _ Hr) as (L1 & _).
  destruct (nth_error (threads c) P) as [thP|] eqn:EP; [|apply nth_error_None in EP; lia].
  apply (reachable_pinv P _ _ _ _ Hr _ EP).
Qed.

Lemma pk_app P a b : pk P (a ++ b) = pk P b ++ pk P a.
Proof. induction a; simpl. rewrite app_nil_r; auto. rewrite IHa, app_assoc. reflexivity. Qed.

(* FIFO_PER_KIND on the event log alone (the log is newest first): if poster P posted u1 and later u2, then it is never the
   case that u2 ran on T (kind K) before u1 ran on T (kind K) *)
Theorem fifo_per_kind_trace progs nids bds c T K u1 u2 a1 a2 a3 l1 l2 l3 t1 t2 k1 k2 o1 o2 o3 o4 :
  fst u1 < length progs -> T < length progs -> fst u2 = fst u1 ->
  reachable (init progs nids bds) c -> crashed c = false ->
  log c = a1 ++ EvPost u2 t2 k2 o2 :: a2 ++ EvPost u1 t1 k1 o1 :: a3 ->
  log c = l1 ++ EvRun u1 T o3 K :: l2 ++ EvRun u2 T o4 K :: l3 ->
  False.
Proof.
  intros LP LT E12 Hr NC Hp Hrn.
  pose proof (posts_in_counter_order _ _ _ _ _ LP Hr) as S1.
  pose proof (fifo_per_kind _ _ _ _ _ _ K LP LT Hr NC) as S2. unfold run_keys in S2.
  rewrite Hp in S1. rewrite Hrn in S2.
  rewrite pk_app in S1. simpl in S1. rewrite pk_app in S1. simpl in S1. rewrite E12, Nat.eqb_refl in S1.
  rewrite rk_app in S2. simpl in S2. rewrite rk_app in S2. simpl in S2. rewrite E12, !Nat.eqb_refl in S2.
  assert (kind_eqb K K = true) as EK by (destruct K; reflexivity). rewrite EK in S2. simpl in S2.
  rewrite <- !app_assoc in S1, S2. simpl in S1, S2.
  apply sorted_mid in S1. apply sorted_mid in S2. lia.
Qed.

