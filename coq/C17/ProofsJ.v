(* C17 proofs, part J: the interrupt half of the poll theorem. *)
From Coq Require Import List NArith Bool Arith Lia.
From LTV.C17 Require Import Model ProofsA ProofsG ProofsI.
Import ListNotations.

Definition batch0 (td : list item) : Prop := exists oi r, td = IBatch [] oi :: r.
Definition hasi_ok (c : cfg) : Prop :=
  forall t th b, nth_error (threads c) t = Some th -> nth_error (boxes c) t = Some b ->
  qi b <> [] -> hasi b = true \/ batch0 (todo th).

Lemma push_qi b k e : qi (fst (push_entry b k e)) <> [] ->
  (k = KIntr /\ (qi b = [] -> hasi (fst (push_entry b k e)) = true) /\ (qi b <> [] -> hasi (fst (push_entry b k e)) = hasi b)) \/
  (k = KNormal /\ qi (fst (push_entry b k e)) = qi b /\ hasi (fst (push_entry b k e)) = hasi b).
Proof. destruct k; simpl; intros H. right; auto. left. split; auto. destruct (qi b); split; intros; congruence. Qed.

Lemma qi_set_intr x : qi (set_intr x) = qi x. Proof. unfold set_intr. destruct (pol x && negb (intr x)); reflexivity. Qed.
Lemma hasi_set_intr x : hasi (set_intr x) = hasi x. Proof. unfold set_intr. destruct (pol x && negb (intr x)); reflexivity. Qed.

Lemma disp_lock_qi b oi batch b1 oi' : disp_lock b oi = Some (batch, b1, oi') -> qi b1 <> [] -> hasi b1 = true.
Proof. intros H. destruct (disp_lock_spec _ _ _ _ _ H) as (_ & _ & Hi & _). exact Hi. Qed.

Lemma step_hasi c t0 c' : hasi_ok c -> step c t0 = Some c' -> hasi_ok c'.
Proof.
  intros F H. open_step H th0 it rest Ht Htd.
  assert (forall b, nth_error (boxes c) t0 = Some b -> qi b <> [] -> (forall oi, it <> IBatch [] oi) -> hasi b = true) as K0.
  { intros b Hb Hq Hn. destruct (F _ _ _ Ht Hb Hq) as [|(oi & r & E)]; auto. rewrite Htd in E. injection E as -> _. exfalso. eapply Hn; eauto. }
  more_cases H; use_specs; unfold hasi_ok; intros t1 th1 b1 Hth Hb Hq; proj_simpl.
  all: try (apply nth_upd_cases in Hth; destruct Hth as [(E1 & E2) | (N1 & Hth)]; subst).
  all: try (apply nth_upd_cases in Hb; destruct Hb as [(E3 & E4) | (N3 & Hb)]; subst).
  all: simpl in *.
  all: try (left; eapply K0; eauto; intros; discriminate).
  all: try (eapply F; eauto; fail).
  all: try (right; do 2 eexists; reflexivity).
  all: try match goal with Hq : qi (fst (push_entry ?x _ _)) <> [] |- _ =>
         destruct (push_qi _ _ _ Hq) as [(Ek & A1 & A2) | (Ek & A1 & A2)];
         [ destruct (qi x) eqn:Eq; [left; apply A1; reflexivity | rewrite A2 by congruence; assert (qi x <> []) as Hx by congruence]
         | rewrite A2; assert (qi x <> []) as Hx by congruence ];
         first [ left; eapply K0; eauto; intros; discriminate | eapply F; eauto ] end.
  all: try (exfalso; congruence).
  all: rewrite ?qi_set_intr, ?hasi_set_intr in *.
  all: try (left; eapply K0; eauto; intros; discriminate).
  all: try (eapply F; eauto; fail).
  all: match goal with Hd : disp_lock _ _ = _ |- _ => left; eapply disp_lock_qi; eauto end.
Qed.

Lemma init_hasi progs nids bds : hasi_ok (init progs nids bds).
Proof.
  unfold hasi_ok, init; simpl. intros t th b _ Hb Hq. apply nth_error_In in Hb. apply in_map_iff in Hb. destruct Hb as (p & <- & _). simpl in Hq. congruence.
Qed.
Lemma reachable_hasi progs nids bds c : reachable (init progs nids bds) c -> hasi_ok c.
Proof. induction 1. apply init_hasi. eapply step_hasi; eauto. Qed.

(* POLL, both kinds: when a thread runs Poll::poll's entry step while ANY callback is queued for it, it takes the
   SHORT timeout. (The exception of the interrupt-flag invariant - owner between pc_store and pc_lock - cannot
   coincide with the owner being at the entry of poll.) *)
Lemma poll_never_full_with_queued progs nids bds c t th b rest c' :
  reachable (init progs nids bds) c ->
  nth_error (threads c) t = Some th -> todo th = ICmd PollOnce :: rest -> nth_error (boxes c) t = Some b ->
  qn b <> [] \/ qi b <> [] -> step c t = Some c' ->
  exists th', nth_error (threads c') t = Some th' /\ todo th' = IPollWait false :: rest.
Proof.
  intros R Ht Htd Hb Hq H.
  assert (hasn b = true \/ hasi b = true) as Hf.
  { destruct Hq as [Hq | Hq].
    - left. apply (Forall_nth_error _ _ _ _ (reachable_flags _ _ _ _ R) Hb Hq).
    - right. destruct (reachable_hasi _ _ _ _ R _ _ _ Ht Hb Hq) as [|(oi & r & E)]; auto. rewrite Htd in E. discriminate. }
  unfold step in H. rewrite Ht, Htd, Hb in H. injection H as <-. simpl.
  erewrite nth_error_upd_same by eauto. eexists; split; eauto. simpl.
  destruct Hf as [-> | ->]; destruct (intr b); destruct (hasn b); simpl; reflexivity.
Qed.

(* the interrupt-flag invariant itself, with its exception *)
Lemma interrupt_flag_invariant progs nids bds c t th b :
  reachable (init progs nids bds) c -> nth_error (threads c) t = Some th -> nth_error (boxes c) t = Some b ->
  qi b <> [] -> hasi b = true \/ exists oi r, todo th = IBatch [] oi :: r.
Proof. intros R Ht Hb Hq. exact (reachable_hasi _ _ _ _ R _ _ _ Ht Hb Hq). Qed.
