(* C17 proofs, part I: the poll handshake - a thread never chooses the full poll timeout while a NORMAL
   callback is queued for it. *)
From Coq Require Import List NArith Bool Arith Lia.
From LTV.C17 Require Import Model ProofsA.
Import ListNotations.

Definition hasn_ok (b : mbox) : Prop := qn b <> [] -> hasn b = true.
Definition flags_ok (c : cfg) : Prop := Forall hasn_ok (boxes c).

Lemma hasn_push b k e : hasn_ok b -> hasn_ok (fst (push_entry b k e)).
Proof.
  unfold hasn_ok. destruct k; simpl; auto. intros H _. destruct (qn b) eqn:E; auto. apply H. congruence.
Qed.
Lemma hasn_disp b oi batch b1 oi' : hasn_ok b -> disp_lock b oi = Some (batch, b1, oi') -> hasn_ok b1.
Proof.
  unfold hasn_ok. intros Hb H Hq. destruct (disp_lock_spec _ _ _ _ _ H) as (_ & Hn & _).
  destruct (Hn Hq) as [|(E1 & E2)]; auto. rewrite E1. apply Hb. congruence.
Qed.
Lemma hasn_set_intr b : hasn_ok b -> hasn_ok (set_intr b).
Proof. unfold set_intr. destruct (pol b && negb (intr b)); auto. Qed.

Lemma step_flags c t c' : flags_ok c -> step c t = Some c' -> flags_ok c'.
Proof.
  unfold flags_ok. intros F H. unfold step in H.
  more_cases H; use_specs; proj_simpl; auto.
  all: repeat match goal with
    | Hb : nth_error (boxes _) _ = Some ?b |- _ =>
        lazymatch goal with | _ : hasn_ok b |- _ => fail | _ => pose proof (Forall_nth_error _ _ _ _ F Hb) end
    end.
  all: try (apply Forall_upd; auto; first [apply hasn_push; auto | apply hasn_set_intr; auto | eapply hasn_disp; eauto | assumption]).
Qed.

Lemma init_flags progs nids bds : flags_ok (init progs nids bds).
Proof. unfold flags_ok, init; simpl. apply Forall_forall. intros b H. apply in_map_iff in H. destruct H as (p & <- & _). intros E; simpl in E; congruence. Qed.

Lemma reachable_flags progs nids bds c : reachable (init progs nids bds) c -> flags_ok c.
Proof. induction 1. apply init_flags. eapply step_flags; eauto. Qed.

(* POLL: if thread t executes Poll::poll's entry step (fetch_or + timeout decision) while a normal callback is queued
   for it, the decision is the SHORT timeout (IPollWait false) - it never sleeps the full timeout on it *)
Lemma poll_never_full_with_queued_normal progs nids bds c t th b rest c' :
  reachable (init progs nids bds) c ->
  nth_error (threads c) t = Some th -> todo th = ICmd PollOnce :: rest -> nth_error (boxes c) t = Some b ->
  qn b <> [] -> step c t = Some c' ->
  exists th', nth_error (threads c') t = Some th' /\ todo th' = IPollWait false :: rest.
Proof.
  intros R Ht Htd Hb Hq H. pose proof (Forall_nth_error _ _ _ _ (reachable_flags _ _ _ _ R) Hb) as Hn.
  unfold step in H. rewrite Ht, Htd, Hb in H. injection H as <-. simpl.
  erewrite nth_error_upd_same by eauto. eexists; split; eauto. simpl. rewrite (Hn Hq).
  destruct (intr b); simpl; reflexivity.
Qed.
