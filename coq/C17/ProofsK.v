(* C17 proofs, part K: FIRST_PUSH_INTERRUPTS at trace level. *)
From Coq Require Import List NArith Bool Arith Lia.
From LTV.C17 Require Import Model ProofsA ProofsB ProofsC ProofsF ProofsG.
Import ListNotations.

Definition inflight_uid (it : item) : option uid :=
  match it with IPostLock _ _ _ u _ _ | IPostSub _ _ u _ | IPostIntr _ u _ => Some u | _ => None end.
Definition retd (c : cfg) (u : uid) : Prop := In (EvPostRet u) (log c).

Definition rinv (c : cfg) : Prop :=
  (forall u, retd c u -> forall th, nth_error (threads c) (fst u) = Some th -> snd u < nposted th) /\
  (forall t th it u, nth_error (threads c) t = Some th -> In it (todo th) -> inflight_uid it = Some u -> ~ retd c u).

Lemma cshape_no_inflight rest cu pr : cshape rest cu pr -> forall it, In it rest -> inflight_uid it = None.
Proof.
  intros H it Hin. destruct H.
  - apply in_map_iff in Hin. destruct Hin as (x & <- & _). reflexivity.
  - apply in_app_or in Hin. destruct Hin as [Hin | [<- | [<- | Hin]]]; auto;
    apply in_map_iff in Hin; destruct Hin as (x & <- & _); reflexivity.
Qed.
Lemma shape_rest_no_inflight it rest cu pr : shape (it :: rest) cu pr -> forall x, In x rest -> inflight_uid x = None.
Proof.
  intros H x Hin. apply shape_cons in H. split_all; subst;
  try (eapply cshape_no_inflight; eauto; fail);
  try (destruct Hin as [<- | Hin]; auto; try (eapply cshape_no_inflight; eauto; fail));
  try (apply in_map_iff in Hin; destruct Hin as (y & <- & _); reflexivity).
Qed.

Lemma pf_inflight t np it u : pf_item t np it -> inflight_uid it = Some u -> fst u = t /\ snd u < np.
Proof. destruct it; simpl; intros H E; try discriminate; injection E as <-; auto. Qed.

Lemma rinv_general c c' t th th' (newret : option uid) :
  rinv c -> (forall k thk, nth_error (threads c) k = Some thk -> Forall (pf_item k (nposted thk)) (todo thk)) ->
  nth_error (threads c) t = Some th ->
  threads c' = upd (threads c) t th' -> nposted th <= nposted th' ->
  (forall x u, In x (todo th') -> inflight_uid x = Some u -> ~ retd c' u) ->
  (forall u, retd c' u -> retd c u \/ (newret = Some u /\ fst u = t /\ snd u < nposted th')) ->
  rinv c'.
Proof.
  intros (R1 & R2) P1 Ht Et Le Np Nr. split.
  - intros u Hr thk Hk. rewrite Et in Hk. apply nth_upd_cases in Hk.
    destruct (Nr _ Hr) as [Ho | (_ & F1 & F2)].
    + destruct Hk as [(E & ->) | (N & Hk)]. rewrite <- E in Ht. specialize (R1 _ Ho _ Ht). lia. eapply R1; eauto.
    + destruct Hk as [(E & ->) | (N & Hk)]; auto. congruence.
  - intros k thk it u Hk Hin Hp Hr. rewrite Et in Hk. apply nth_upd_cases in Hk.
    destruct Hk as [(-> & ->) | (N & Hk)]. eapply Np; eauto.
    destruct (Nr _ Hr) as [Ho | (_ & F1 & F2)]. eapply R2; eauto.
    specialize (P1 _ _ Hk). rewrite Forall_forall in P1. destruct (pf_inflight _ _ _ _ (P1 _ Hin) Hp). congruence.
Qed.

Lemma inflight_cw th i w : inflight_uid (cw_after_load th i w) = None.
Proof. unfold cw_after_load. destruct (2 <=? cnt w)%N; simpl; auto. destruct ((cnt w =? 1)%N && negb (oidx_is (proc th) i)); simpl; auto. Qed.

Lemma step_rinv c t c' : crashed c' = false -> Forall wf_thread (threads c) -> pf c -> rinv c -> step c t = Some c' -> rinv c'.
Proof.
  intros NC W (P1 & _ & _) R H. pose proof R as (R1 & R2).
  open_step H th it rest Ht Htd.
  pose proof (Forall_nth_error _ _ _ _ W Ht) as Hsh. unfold wf_thread in Hsh. rewrite Htd in Hsh.
  pose proof (shape_rest_no_inflight _ _ _ _ Hsh) as Nr.
  pose proof (P1 _ _ Ht) as Fa. rewrite Htd in Fa. inversion Fa as [|? ? Fit Frest]; subst.
  assert (forall u, inflight_uid it = Some u -> ~ retd c u) as Hhead.
  { intros u E. eapply (R2 t th it); eauto. rewrite Htd; left; auto. }
  more_cases H; use_specs; proj_simpl; try discriminate.
  all: match goal with
       | |- rinv (post_ret _ ?u _) => eapply (rinv_general c _ t th _ (Some u))
       | _ => eapply (rinv_general c _ t th _ None)
       end; [exact R | exact P1 | exact Ht | proj_simpl; reflexivity | simpl; lia | proj_simpl | proj_simpl].
  all: unfold retd in *; proj_simpl.
  all: try (match goal with |- forall (x : item) (u : uid), _ => idtac end;
            intros x0 u0 Hin Hp Hr;
            try (apply in_app_or in Hin; destruct Hin as [Hin | Hin];
                 [apply in_map_iff in Hin; destruct Hin as (? & <- & _); discriminate|]);
            repeat (destruct Hin as [<- | Hin]; [simpl in Hp; rewrite ?inflight_cw in Hp; try discriminate |]);
            try (rewrite (Nr _ Hin) in Hp; discriminate);
            repeat (destruct Hr as [Hr | Hr]; [try discriminate|]);
            try (injection Hp as <-);
            first [ eapply Hhead; [reflexivity | exact Hr]
                  | specialize (R1 _ Hr _ Ht); simpl in R1; lia ]).
  all: try (intros u0 Hr;
            repeat (match type of Hr with _ \/ _ => destruct Hr as [Hr | Hr]; [try discriminate|] end);
            first [ left; exact Hr
                  | injection Hr as <-; right; split; [reflexivity | simpl in Fit; simpl; first [tauto | split; auto; lia]] ]).
Qed.

Lemma reachable_pf_nc progs nids bds c : reachable (init progs nids bds) c -> crashed c = false -> pf c.
Proof.
  induction 1; intros NC. apply init_pf.
  assert (crashed c = false) as NC0. { destruct (crashed c) eqn:E; auto. erewrite step_crashed_mono in NC; eauto. }
  eapply step_pf; eauto. eapply reachable_wf; eauto.
Qed.
Lemma init_rinv progs nids bds : rinv (init progs nids bds).
Proof.
  unfold rinv, retd, init; simpl. split. intros u []. 
  intros t th it u H Hin Hp. apply nth_error_In in H. apply in_map_iff in H. destruct H as (p & <- & _). simpl in Hin.
  apply in_map_iff in Hin. destruct Hin as (x & <- & _). discriminate.
Qed.
Lemma reachable_rinv progs nids bds c : reachable (init progs nids bds) c -> crashed c = false -> rinv c.
Proof.
  induction 1; intros NC. apply init_rinv.
  assert (crashed c = false) as NC0. { destruct (crashed c) eqn:E; auto. erewrite step_crashed_mono in NC; eauto. }
  eapply step_rinv; eauto. eapply reachable_wf; eauto. eapply reachable_pf_nc; eauto.
Qed.

(* ------------------------------------------------------------------ first push => interrupt *)
Definition pendh (u : uid) (tgt : tid) (td : list item) : Prop :=
  match td with
  | IPostSub tg _ u' true :: _ => tg = tgt /\ u' = u
  | IPostIntr tg u' _ :: _ => tg = tgt /\ u' = u
  | _ => False
  end.
Definition fpinv (c : cfg) : Prop :=
  forall u tgt k, In (EvPushed u tgt k true) (log c) ->
    In (EvIntr u tgt) (log c) \/ exists th, nth_error (threads c) (fst u) = Some th /\ pendh u tgt (todo th).

Lemma step_fpinv c t c' : pf c -> fpinv c -> step c t = Some c' -> fpinv c'.
Proof.
  intros (P1 & _ & _) F H. open_step H th it rest Ht Htd.
  pose proof (P1 _ _ Ht) as Fa. rewrite Htd in Fa. inversion Fa as [|? ? Fit Frest]; subst.
  assert (forall u tgt k, In (EvPushed u tgt k true) (log c) -> fst u = t -> ~ pendh u tgt (it :: rest) -> In (EvIntr u tgt) (log c)) as K.
  { intros u tgt k Hin E Np. destruct (F _ _ _ Hin) as [|(th1 & H1 & H2)]; auto. rewrite E, Ht in H1. injection H1 as <-. rewrite Htd in H2. contradiction. }
  more_cases H; use_specs; unfold fpinv; intros u1 tgt1 k1 Hin; proj_simpl.
  all: repeat (match type of Hin with _ \/ _ => destruct Hin as [Hin | Hin]; [try discriminate|] end).
  (* new EvPushed ... true event of this step *)
  all: try (match type of Hin with _ = EvPushed _ _ _ _ => idtac end;
            inversion Hin; subst; clear Hin; right; simpl in Fit; simpl;
            first [ destruct Fit as (Ef & _); rewrite Ef | idtac ];
            erewrite nth_error_upd_same by eauto; eexists; split; [reflexivity | simpl;
              repeat match goal with Hx : true = snd _ |- _ => rewrite <- Hx | Hx : snd _ = true |- _ => rewrite Hx end; auto]).
  (* old event *)
  all: try (destruct (Nat.eq_dec (fst u1) t) as [Ef | Nf];
            [ | destruct (F _ _ _ Hin) as [Hl | (th1 & H1 & H2)];
                [ left; simpl; tauto | right; rewrite nth_error_upd_other by auto; eauto ] ]).
  all: try (left; simpl; repeat right; eapply K; eauto; tauto).
  all: match goal with Kx : forall u0 tgt0 k, _ -> _ -> ~ (?tgt = tgt0 /\ ?u = u0) -> _ |- _ =>
         destruct (Nat.eq_dec tgt tgt1) as [Et | Nt]; [destruct (uid_dec u u1) as [Eu | Nu]|];
         [ subst; first [ right; eexists; split; [eapply nth_error_upd_same; eauto | simpl; auto]; fail
                        | left; simpl; auto ]
         | left; simpl; repeat right; eapply Kx; eauto; tauto
         | left; simpl; repeat right; eapply Kx; eauto; tauto ] end.
Qed.

Lemma reachable_fpinv progs nids bds c : reachable (init progs nids bds) c -> crashed c = false -> fpinv c.
Proof.
  induction 1; intros NC. intros u tgt k [].
  assert (crashed c = false) as NC0. { destruct (crashed c) eqn:E; auto. erewrite step_crashed_mono in NC; eauto. }
  eapply step_fpinv; eauto. eapply reachable_pf_nc; eauto.
Qed.

(* FIRST_PUSH_INTERRUPTS (trace level): a post that pushed into an empty queue of its kind ([EvPushed u tgt k true])
   and has returned ([EvPostRet u]) has called Poll::do_interrupt on the target before returning ([EvIntr u tgt]) *)
Lemma first_push_interrupts progs nids bds c u tgt k :
  reachable (init progs nids bds) c -> crashed c = false ->
  In (EvPushed u tgt k true) (log c) -> In (EvPostRet u) (log c) -> In (EvIntr u tgt) (log c).
Proof.
  intros R NC Hp Hr. destruct (reachable_fpinv _ _ _ _ R NC _ _ _ Hp) as [|(th & Ht & Hd)]; auto.
  exfalso. destruct (reachable_rinv _ _ _ _ R NC) as (_ & R2).
  destruct (todo th) as [|it r] eqn:Etd; simpl in Hd; try contradiction.
  apply (R2 _ _ it u Ht). rewrite Etd; left; auto.
  destruct it; simpl in Hd; try contradiction. destruct si; try contradiction. destruct Hd as (_ & ->); reflexivity.
  destruct Hd as (_ & ->); reflexivity. exact Hr.
Qed.
