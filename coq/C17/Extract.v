From Coq Require Import Extraction ExtrOcamlBasic ZArith.
From LTV.C17 Require Import Model.
Set Extraction Optimize.
Extraction Language OCaml.
Extraction "extracted/c17_model.ml" init step label_at word_N finished enabled Z.of_N.
