(* WRITTEN by props/c17.py from `harness/c17.cc --params` (compiled code) on every run. Do not edit. *)
From Coq Require Import NArith.
Module Probe.
Definition c17_cancel_increment : N := 16%N.
Definition c17_cw_increment : N := 16%N.
Definition c17_count_mask : N := 7%N.
Definition c17_expected_mask_inv : N := 7%N.
Definition c17_deadlock_flag : N := 8%N.
Definition c17_id_word_bits : N := 32%N.
End Probe.
