(* Byte strings as lists of N (< 256), lexicographic order, decimal printing. Definitions only
   that are shared by several models; lemmas about them live in Common/BytesFacts.v. *)
From Coq Require Import List NArith ZArith Bool.
Import ListNotations.
Local Open Scope N_scope.

Definition byte := N.
Definition bytes := list N.

Definition wf_byte (b : N) : bool := b <? 256.
Definition wf_bytes (s : bytes) : bool := forallb wf_byte s.

Fixpoint bytes_eqb (a b : bytes) : bool :=
  match a, b with
  | [], [] => true
  | x :: a', y :: b' => (x =? y) && bytes_eqb a' b'
  | _, _ => false
  end.

(* std::string::compare / memcmp order on unsigned bytes: a < b *)
Fixpoint bytes_ltb (a b : bytes) : bool :=
  match a, b with
  | [], [] => false
  | [], _ :: _ => true
  | _ :: _, [] => false
  | x :: a', y :: b' => if x <? y then true else if y <? x then false else bytes_ltb a' b'
  end.

Definition bytes_leb (a b : bytes) : bool := negb (bytes_ltb b a).

(* ASCII helpers *)
Definition ch_0 : N := 48.
Definition ch_9 : N := 57.
Definition is_digit (c : N) : bool := (48 <=? c) && (c <=? 57).
Definition digit_val (c : N) : N := c - 48.

(* decimal digits of a positive number, most significant first; fuel = number of bits + 1 *)
Fixpoint dec_digits_fuel (fuel : nat) (n : N) (acc : bytes) : bytes :=
  match fuel with
  | O => acc
  | S f => if n =? 0 then acc else dec_digits_fuel f (n / 10) ((48 + n mod 10) :: acc)
  end.

Definition dec_of_N (n : N) : bytes :=
  if n =? 0 then [48] else dec_digits_fuel (S (N.to_nat (N.size n))) n [].
