(* C09 — proofs, part C: the theorems over op lists. *)
From Coq Require Import List NArith Bool Arith Lia.
From LTV.C09 Require Import ParamsGen Model ProofsA ProofsB.
Import ListNotations.

Section Run.
Variable H : list N -> list N.
Variable pl : N.
Variable expected : nat -> list N.

Lemma step_S fs0 s o : invS H pl expected fs0 s -> invS H pl expected fs0 (step H pl expected s o).
Proof.
  intros HI. destruct o; unfold step.
  - apply do_open_S; auto.
  - apply do_check_S; auto.
  - apply do_deliver_S; auto.
  - apply do_stop_S; auto.
  - apply wrapper_close_S; auto.
  - apply do_tick_S; auto.
  - apply run_all_S; auto.
  - eapply invS_same; eauto.
  - unfold do_advance. apply do_tick_S. unfold do_retry_fire.
    pose proof (do_tick_S H pl expected fs0 s HI) as H1.
    destruct (negb (s_retry (do_tick s))); [assumption|].
    destruct (is_checking (set_retry (do_tick s) false)).
    + apply queue_S. eapply invS_same; eauto.
    + eapply invS_same; eauto.
Qed.

Lemma run_S fs0 ops : forall s, invS H pl expected fs0 s -> invS H pl expected fs0 (run H pl expected ops s).
Proof.
  induction ops as [|o r IH]; intros s HI; simpl; auto.
  apply IH. apply step_S; auto.
Qed.

Lemma init_S fs0 : invS H pl expected fs0 (init fs0).
Proof.
  constructor; simpl.
  - apply files_le_refl.
  - intros i b [].
  - intros [|i] nd b Hn; discriminate.
  - discriminate.
Qed.

(* the disk after ANY sequence of client calls and hash deliveries: every file is as it was, or it
   was absent (directory present) and now exists with zero length *)
Definition disk_le (a b : fstate) : Prop := a = b \/ (a = Absent /\ b = Bytes []).

Theorem check_readonly fs0 ops :
  Forall2 (fun f g => f_size f = f_size g /\ f_pad f = f_pad g /\ disk_le (f_disk f) (f_disk g))
          fs0 (s_files (run H pl expected ops (init fs0))).
Proof. exact (iS_files _ _ _ _ _ (run_S fs0 ops _ (init_S fs0))). Qed.

(* never a wrong 'present': at every moment of every history, a set bit is a piece all of whose
   file windows exist on disk (the ORIGINAL disk: creation of empty files changes no verdict) and
   whose bytes hash to the torrent's value *)
Theorem check_sound fs0 ops bl i :
  s_bits (run H pl expected ops (init fs0)) = Some bl ->
  nth i bl false = true ->
  valid H pl expected fs0 i = true.
Proof.
  intros Hb Hi.
  pose proof (run_S fs0 ops _ (init_S fs0)) as HI.
  rewrite (valid_le H pl expected _ _ i (iS_files _ _ _ _ _ HI)).
  eapply iS_bits; eauto.
Qed.

(* every piece waiting in the hash queue carries exactly the bytes that are on disk for it: the
   digest compared by receive_hash_done is H of the piece's on-disk bytes *)
Theorem queued_bytes_faithful fs0 ops i b :
  In (i, b) (s_hq (run H pl expected ops (init fs0))) ->
  piece_bytes pl fs0 i = Some b.
Proof.
  intros Hin.
  pose proof (run_S fs0 ops _ (init_S fs0)) as HI.
  rewrite (piece_bytes_le pl _ _ i (iS_files _ _ _ _ _ HI)).
  eapply iS_hq; eauto.
Qed.

Lemma valid_spec fs i :
  valid H pl expected fs i = true <->
  exists b, read_windows (piece_windows pl fs i) fs [] = Some b /\ bytes_eqb (H b) (expected i) = true.
Proof.
  unfold valid, piece_bytes. destruct (read_windows (piece_windows pl fs i) fs []) as [b|].
  - split; [intros Hv; exists b; auto | intros (b' & Hb & Hv); inversion Hb; subst; auto].
  - split; [discriminate | intros (b' & Hb & _); discriminate].
Qed.

(* ---------------------------------------------------------------- stop / close *)
Lemma ht_clear_fields s :
  s_out (ht_clear s) = None /\ s_delay (ht_clear s) = false /\ s_pos (ht_clear s) = O /\ s_hq (ht_clear s) = s_hq s.
Proof. unfold ht_clear; simpl; auto. Qed.

Lemma cleared_one_delay s i : s_delay (cleared_one s i) = s_delay s.
Proof.
  unfold cleared_one, chunk_release.
  repeat match goal with
         | |- context [if ?c then _ else _] => destruct c
         | |- context [match ?x with _ => _ end] => destruct x
         end; simpl; auto.
Qed.

Lemma cleared_one_notchecking s i : s_out s = None -> s_out (cleared_one s i) = None.
Proof.
  intros Ho. unfold cleared_one, is_checking. rewrite Ho. unfold chunk_release.
  repeat match goal with
         | |- context [if ?c then _ else _] => destruct c
         | |- context [match ?x with _ => _ end] => destruct x
         end; simpl; auto.
Qed.

Lemma fold_cleared_fields (l : list (nat * list N)) : forall s,
  s_out s = None -> s_delay s = false ->
  s_out (fold_left (fun a e => cleared_one a (fst e)) l s) = None /\
  s_delay (fold_left (fun a e => cleared_one a (fst e)) l s) = false.
Proof.
  induction l as [|e l IH]; intros s Ho Hd; simpl; auto.
  apply IH; [apply cleared_one_notchecking; auto | rewrite cleared_one_delay; auto].
Qed.

Lemma cleared_one_open s i : s_open (cleared_one s i) = s_open s.
Proof.
  unfold cleared_one, chunk_release.
  repeat match goal with
         | |- context [if ?c then _ else _] => destruct c
         | |- context [match ?x with _ => _ end] => destruct x
         end; simpl; auto.
Qed.

Lemma fold_cleared_open (l : list (nat * list N)) : forall s,
  s_open (fold_left (fun a e => cleared_one a (fst e)) l s) = s_open s.
Proof.
  induction l as [|e l IH]; intros s; simpl; auto. rewrite IH. apply cleared_one_open.
Qed.

Lemma fold_cleared_hq (l : list (nat * list N)) : forall s, s_hq s = [] ->
  s_hq (fold_left (fun a e => cleared_one a (fst e)) l s) = [].
Proof.
  induction l as [|e l IH]; intros s Hs; simpl; auto. apply IH. rewrite cleared_one_hq. exact Hs.
Qed.

(* After hash_stop (whenever a check is running) and after close (always): nothing is queued for
   hashing any more, the checker is idle, no completion/error notification is pending.  After close
   the chunk list is empty; had any node still been mapped or referenced at that point,
   ChunkList::clear would throw (s_ierr).
   PARTIAL: that every node's reference count is zero after hash_stop (the model's cleared_one
   releases each queued piece's blocking reference; the matching invariant "a node is referenced
   iff its piece is queued" is checked on every case by the correspondence run and the oracle,
   not proved here). *)
Theorem stop_releases_partial s :
  (is_checking s = true ->
     s_hq (do_stop s) = [] /\ is_checking (do_stop s) = false /\ s_delay (do_stop s) = false) /\
  (s_hq (do_close s) = [] /\ is_checking (do_close s) = false /\ s_delay (do_close s) = false /\
   (s_open s = true -> s_nodes (do_close s) = [] /\ s_open (do_close s) = false /\ s_bits (do_close s) = None)).
Proof.
  split.
  - intros Hc. unfold do_stop. rewrite Hc. cbn [negb].
    destruct (ht_clear_fields (hq_remove_all (set_ranges s (erase_below (s_ranges s) (s_pos s))))) as (Ho & Hd & _ & Hh).
    unfold is_checking. rewrite Ho, Hd, Hh. repeat split; auto.
    unfold hq_remove_all. apply fold_cleared_hq. reflexivity.
  - unfold do_close, wrapper_close.
    set (s1 := hq_remove_all (ht_clear s)).
    assert (Hh1 : s_hq s1 = []).
    { unfold s1, hq_remove_all. apply fold_cleared_hq. reflexivity. }
    assert (Hf1 : s_out s1 = None /\ s_delay s1 = false).
    { unfold s1, hq_remove_all. apply fold_cleared_fields; reflexivity. }
    assert (Ho1 : s_open s1 = s_open s).
    { unfold s1, hq_remove_all. rewrite fold_cleared_open. reflexivity. }
    destruct Hf1 as [Hout Hdel].
    destruct (s_open s1) eqn:Hop.
    + unfold is_checking. simpl.
      destruct (existsb node_busy (s_nodes s1)); simpl; rewrite ?Hh1, ?Hout, ?Hdel; repeat split; auto.
    + unfold is_checking. rewrite Hh1, Hout, Hdel. repeat split; auto.
      all: congruence.
Qed.

End Run.

(* ---------------------------------------------------------------- a legal call sequence that
   the code answered with internal_error ("HashTorrent::start() call failed.", replayed on the
   implementation) as long as HashTorrent::start did not erase a timer left over from an earlier
   check: hash_check(false) runs into an I/O error (error notification scheduled), hash_check(true)
   is issued before the scheduler ran, the stale timer then confirms the quick check at position 1,
   and the next hash_check(false) finds m_position > 0.  The hypothesis is the re-extracted fact
   about the source; once the source erases the timer it is false and the witness is harmless. *)
Theorem recheck_stale_delay_timer_refuted :
  (Params.c09_start_erases_delay =? 0)%N = true ->
  exists (fs : list fnode) (ops : list op),
    s_ierr (run (fun b => b) 1100%N (fun _ => []) ops (init fs)) = true.
Proof.
  intros Hp.
  exists [fresh_file 1100%N false Absent; fresh_file 1100%N false Unreadable].
  exists [OOpen; OCheck false; OCheck true; OTick; OCheck false].
  revert Hp. vm_compute. intros Hq; first [reflexivity | exact Hq].
Qed.
