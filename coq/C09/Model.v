(* C09 — executable model of the initial hash check over an abstract file system.
   Definitions only.

   Modelled code (as it is): HashTorrent::{start, queue, receive_chunkdone, receive_chunk_cleared,
   clear, confirm_checked} (src/data/hash_torrent.cc), Download::{open, close, hash_check,
   hash_stop} (src/torrent/download.cc), DownloadWrapper::{receive_hash_done (both branches as
   far as the check can reach them), check_chunk_hash, receive_initial_hash, receive_storage_error,
   close} (src/download/download_wrapper.cc), ChunkList::{get, release, clear} reference and
   blocking counts (src/data/chunk_list.cc), HashQueue::{push_back, remove, work} as the list of
   queued pieces (src/data/hash_queue.cc; the disk thread's HashCheckQueue/HashChunk compute
   H over the mapped bytes), FileList::{open(open_no_create), create_chunk, create_chunk_part,
   close} and SocketFile::create_chunk's "window must lie within the current size" test
   (src/torrent/data/file_list.cc, src/data/socket_file.cc), File::prepare's create-queued rule
   (src/torrent/data/file.cc).

   Disk: one [fstate] per file.  [Absent] = no such file but its directory exists (open with
   O_CREAT succeeds), [NoDir] = a directory of its path is missing (open fails ENOENT even with
   O_CREAT), [Bytes l] = regular file with content l, [Unreadable] = open fails with an errno
   other than ENOENT (symlink loop, directory in place of the file, path component not a
   directory; EACCES for a non-root user).
   SHA-1 is the Section variable H.  Internal errors the code would throw are the sticky flag
   s_ierr; a theorem excludes it for all op lists. *)
From Coq Require Import List NArith Bool Arith.
From LTV.C09 Require Import ParamsGen.
Import ListNotations.

Inductive fstate := Absent | NoDir | Bytes (l : list N) | Unreadable.

Record fnode := mkF {
  f_size : N;          (* size in the torrent *)
  f_pad : bool;        (* BEP 47 padding file: never touches the disk, maps as zeros *)
  f_disk : fstate;
  f_open : bool;       (* File::is_open() (read-only descriptor held by FileManager) *)
  f_createq : bool     (* File::flag_create_queued *)
}.

Inductive merr := ENOENT | EOTHER.
Inductive mapres := MapOk (b : list N) | MapErr (e : merr).

Record node := mkN { n_chunk : option (list N); n_refs : nat; n_blk : nat }.

Record st := mkSt {
  s_open : bool;                   (* DownloadInfo::flag_open *)
  s_files : list fnode;
  s_bits : option (list bool);     (* completed bitfield; None = not allocated *)
  s_ranges : list bool;            (* HashTorrent::m_ranges as membership, length = piece count *)
  s_pos : nat;                     (* m_position *)
  s_out : option nat;              (* m_outstanding; None = -1 *)
  s_hq : list (nat * list N);      (* HashQueue nodes of this download: piece, mapped bytes *)
  s_nodes : list node;             (* ChunkList *)
  s_delay : bool;                  (* m_delay_checked is scheduled *)
  s_errno : bool;                  (* m_errno != 0 *)
  s_storerr : bool;                (* receive_storage_error was called *)
  s_ierr : bool;                   (* an internal_error would have been thrown *)
  s_mem : nat;                     (* ChunkManager: blocks accounted with the memory manager (allocate / deallocate) *)
  s_retry : bool;                  (* m_delay_retry is scheduled (waiting 100 ms for chunk memory) *)
  s_lim : option nat               (* blocks the memory manager still grants in total; None = no pressure *)
}.

Definition set_open s v := mkSt v (s_files s) (s_bits s) (s_ranges s) (s_pos s) (s_out s) (s_hq s) (s_nodes s) (s_delay s) (s_errno s) (s_storerr s) (s_ierr s) (s_mem s) (s_retry s) (s_lim s).
Definition set_files s v := mkSt (s_open s) v (s_bits s) (s_ranges s) (s_pos s) (s_out s) (s_hq s) (s_nodes s) (s_delay s) (s_errno s) (s_storerr s) (s_ierr s) (s_mem s) (s_retry s) (s_lim s).
Definition set_bits s v := mkSt (s_open s) (s_files s) v (s_ranges s) (s_pos s) (s_out s) (s_hq s) (s_nodes s) (s_delay s) (s_errno s) (s_storerr s) (s_ierr s) (s_mem s) (s_retry s) (s_lim s).
Definition set_ranges s v := mkSt (s_open s) (s_files s) (s_bits s) v (s_pos s) (s_out s) (s_hq s) (s_nodes s) (s_delay s) (s_errno s) (s_storerr s) (s_ierr s) (s_mem s) (s_retry s) (s_lim s).
Definition set_pos s v := mkSt (s_open s) (s_files s) (s_bits s) (s_ranges s) v (s_out s) (s_hq s) (s_nodes s) (s_delay s) (s_errno s) (s_storerr s) (s_ierr s) (s_mem s) (s_retry s) (s_lim s).
Definition set_out s v := mkSt (s_open s) (s_files s) (s_bits s) (s_ranges s) (s_pos s) v (s_hq s) (s_nodes s) (s_delay s) (s_errno s) (s_storerr s) (s_ierr s) (s_mem s) (s_retry s) (s_lim s).
Definition set_hq s v := mkSt (s_open s) (s_files s) (s_bits s) (s_ranges s) (s_pos s) (s_out s) v (s_nodes s) (s_delay s) (s_errno s) (s_storerr s) (s_ierr s) (s_mem s) (s_retry s) (s_lim s).
Definition set_nodes s v := mkSt (s_open s) (s_files s) (s_bits s) (s_ranges s) (s_pos s) (s_out s) (s_hq s) v (s_delay s) (s_errno s) (s_storerr s) (s_ierr s) (s_mem s) (s_retry s) (s_lim s).
Definition set_delay s v := mkSt (s_open s) (s_files s) (s_bits s) (s_ranges s) (s_pos s) (s_out s) (s_hq s) (s_nodes s) v (s_errno s) (s_storerr s) (s_ierr s) (s_mem s) (s_retry s) (s_lim s).
Definition set_errno s v := mkSt (s_open s) (s_files s) (s_bits s) (s_ranges s) (s_pos s) (s_out s) (s_hq s) (s_nodes s) (s_delay s) v (s_storerr s) (s_ierr s) (s_mem s) (s_retry s) (s_lim s).
Definition set_storerr s v := mkSt (s_open s) (s_files s) (s_bits s) (s_ranges s) (s_pos s) (s_out s) (s_hq s) (s_nodes s) (s_delay s) (s_errno s) v (s_ierr s) (s_mem s) (s_retry s) (s_lim s).
Definition set_mem s v := mkSt (s_open s) (s_files s) (s_bits s) (s_ranges s) (s_pos s) (s_out s) (s_hq s) (s_nodes s) (s_delay s) (s_errno s) (s_storerr s) (s_ierr s) v (s_retry s) (s_lim s).
Definition set_retry s v := mkSt (s_open s) (s_files s) (s_bits s) (s_ranges s) (s_pos s) (s_out s) (s_hq s) (s_nodes s) (s_delay s) (s_errno s) (s_storerr s) (s_ierr s) (s_mem s) v (s_lim s).
Definition set_lim s v := mkSt (s_open s) (s_files s) (s_bits s) (s_ranges s) (s_pos s) (s_out s) (s_hq s) (s_nodes s) (s_delay s) (s_errno s) (s_storerr s) (s_ierr s) (s_mem s) (s_retry s) v.
Definition set_ierr s := mkSt (s_open s) (s_files s) (s_bits s) (s_ranges s) (s_pos s) (s_out s) (s_hq s) (s_nodes s) (s_delay s) (s_errno s) (s_storerr s) true (s_mem s) (s_retry s) (s_lim s).

(* ---------------------------------------------------------------- lists *)
Fixpoint upd {A} (l : list A) (i : nat) (v : A) : list A :=
  match l, i with
  | [], _ => []
  | _ :: r, O => v :: r
  | x :: r, S j => x :: upd r j v
  end.

Fixpoint first_true (l : list bool) : option nat :=
  match l with
  | [] => None
  | true :: _ => Some O
  | false :: r => option_map S (first_true r)
  end.

(* ranges::find(p) followed by "if (p < itr->first) p = itr->first": least member >= p *)
Definition next_range (r : list bool) (p : nat) : option nat :=
  option_map (fun j => p + j) (first_true (skipn p r)).

(* ranges::erase(0, p) *)
Fixpoint erase_below (r : list bool) (p : nat) : list bool :=
  match r, p with
  | [], _ => []
  | _, O => r
  | _ :: t, S q => false :: erase_below t q
  end.

(* bitfield->unset_range over every range *)
Fixpoint unset_ranges (bits ranges : list bool) : list bool :=
  match bits, ranges with
  | b :: bt, r :: rt => (b && negb r) :: unset_ranges bt rt
  | _, _ => bits
  end.

(* ---------------------------------------------------------------- layout *)
Local Open Scope N_scope.

Definition total (fs : list fnode) : N := fold_right (fun f a => f_size f + a) 0 fs.

(* file windows of the global byte range [a, b): (file index, offset in file, length), in file
   order, zero-length files skipped (FileList::create_chunk) *)
Fixpoint windows (fs : list fnode) (k : nat) (foff a b : N) : list (nat * N * N) :=
  match fs with
  | [] => []
  | f :: r =>
      let fend := foff + f_size f in
      let lo := N.max a foff in
      let hi := N.min b fend in
      (if lo <? hi then [(k, lo - foff, hi - lo)] else []) ++ windows r (S k) fend a b
  end.

Definition slice (l : list N) (off len : N) : option (list N) :=
  if off + len <=? N.of_nat (length l)
  then Some (firstn (N.to_nat len) (skipn (N.to_nat off) l))
  else None.

(* File::prepare(hashing, prot_read, 0) on a non-padding file *)
Definition prepare (f : fnode) : fnode * option merr :=
  if f_open f then (f, None)
  else match f_disk f with
       | Bytes l => (mkF (f_size f) (f_pad f) (Bytes l) true false, None)
       | Absent =>
           if f_createq f
           then (mkF (f_size f) (f_pad f) (Bytes []) true false, None)   (* O_CREAT: created empty *)
           else (f, Some ENOENT)
       | NoDir => (f, Some ENOENT)
       | Unreadable => (f, Some EOTHER)
       end.

(* FileList::create_chunk: map the windows in order; the first failure aborts.
   errno: a failing open reports its errno; a window outside the current size leaves errno 0,
   which ChunkHandle::from_error turns into ENOENT. *)
Fixpoint map_windows (ws : list (nat * N * N)) (fs : list fnode) (acc : list N) : list fnode * mapres :=
  match ws with
  | [] => (fs, MapOk acc)
  | (k, off, len) :: r =>
      match nth_error fs k with
      | None => (fs, MapErr EOTHER)
      | Some f =>
          if f_pad f then map_windows r fs (acc ++ repeat 0 (N.to_nat len))
          else
            let (f', e) := prepare f in
            let fs' := upd fs k f' in
            match e with
            | Some e => (fs', MapErr e)
            | None =>
                match f_disk f' with
                | Bytes l =>
                    match slice l off len with
                    | Some b => map_windows r fs' (acc ++ b)
                    | None => (fs', MapErr ENOENT)
                    end
                | _ => (fs', MapErr EOTHER)
                end
            end
      end
  end.

(* FileList::open(hashing, open_no_create): every closed non-padding file is prepared; failures
   are ignored *)
Definition open_files (fs : list fnode) : list fnode :=
  map (fun f => if f_pad f then f else fst (prepare f)) fs.

Definition close_files (fs : list fnode) : list fnode :=
  map (fun f => mkF (f_size f) (f_pad f) (f_disk f) false (f_createq f)) fs.

Definition queue_create (fs : list fnode) : list fnode :=
  map (fun f => mkF (f_size f) (f_pad f) (f_disk f) (f_open f) true) fs.

Section Check.
Variable H : list N -> list N.          (* SHA-1 *)
Variable pl : N.                        (* piece length (chunk_size) *)
Variable expected : nat -> list N.      (* the torrent's piece hashes *)

Fixpoint bytes_eqb (a b : list N) : bool :=
  match a, b with
  | [], [] => true
  | x :: a', y :: b' => (x =? y) && bytes_eqb a' b'
  | _, _ => false
  end.

Definition npieces (fs : list fnode) : nat := N.to_nat ((total fs + pl - 1) / pl).

Definition piece_windows (fs : list fnode) (i : nat) : list (nat * N * N) :=
  let a := N.of_nat i * pl in
  windows fs O 0 a (N.min (a + pl) (total fs)).

(* ---------------------------------------------------------------- ChunkList *)
Definition chunk_get (s : st) (i : nat) (blk : bool) : st * mapres :=
  match nth_error (s_nodes s) i with
  | None => (set_ierr s, MapErr EOTHER)
  | Some nd =>
      match n_chunk nd with
      | Some b =>
          (set_nodes s (upd (s_nodes s) i (mkN (Some b) (S (n_refs nd)) (if blk then S (n_blk nd) else n_blk nd))), MapOk b)
      | None =>
          let (fs', r) := map_windows (piece_windows (s_files s) i) (s_files s) [] in
          match r with
          | MapOk b =>
              (* ChunkManager::allocate before the mapping; a failed mapping deallocates again (MapErr below) *)
              (set_mem (set_nodes (set_files s fs') (upd (s_nodes s) i (mkN (Some b) (S (n_refs nd)) (if blk then S (n_blk nd) else n_blk nd))))
                       (S (s_mem s)), MapOk b)
          | MapErr e => (set_files s fs', MapErr e)
          end
      end
  end.

Definition chunk_release (s : st) (i : nat) (blk : bool) : st :=
  match nth_error (s_nodes s) i with
  | None => set_ierr s
  | Some nd =>
      if (Nat.eqb (n_refs nd) 0) || (blk && Nat.eqb (n_blk nd) 0) || (match n_chunk nd with None => true | _ => false end)
      then set_ierr s
      else
        let refs := pred (n_refs nd) in
        (* last reference: clear_chunk unmaps and ChunkManager::deallocate *)
        set_mem (set_nodes s (upd (s_nodes s) i
          (mkN (if Nat.eqb refs 0 then None else n_chunk nd) refs (if blk then pred (n_blk nd) else n_blk nd))))
          (if Nat.eqb refs 0 then pred (s_mem s) else s_mem s)
  end.

(* ---------------------------------------------------------------- HashTorrent *)
Definition is_checking (s : st) : bool := match s_out s with Some _ => true | None => false end.

Definition is_checked (s : st) : bool :=
  negb (match s_nodes s with [] => true | _ => false end) &&
  Nat.eqb (s_pos s) (length (s_nodes s)) && negb (is_checking s).

(* HashTorrent::clear *)
Definition ht_clear (s : st) : st :=
  set_retry (set_delay (set_errno (set_pos (set_out s None) O) false) false) false.

(* HashTorrent::queue returns early when "enough" chunks are outstanding.  How many is a tuning choice the
   property leaves open; the policy is probed on the compiled code (harness --probe: how many of
   c09_probe_pieces tiny pieces one hash_check queues at once) instead of being read from the source.
   The proofs only need that the throttle never fires with nothing outstanding. *)
Definition throttle (out : nat) : bool :=
  (Params.c09_throttle_small <? Params.c09_probe_pieces) &&
  (Params.c09_throttle_small <=? N.of_nat out).

(* ChunkManager::allocate refuses: usage + chunk_size > limit *)
Definition mem_full (s : st) : bool :=
  match s_lim s with Some k => Nat.leb k (s_mem s) | None => false end.

Definition out_val (s : st) : nat := match s_out s with Some k => k | None => O end.

(* tail of queue(): "if (m_outstanding == 0) schedule m_delay_checked" *)
Definition queue_tail (s : st) : st :=
  if Nat.eqb (out_val s) 0 then set_delay s true else s.

(* DownloadWrapper::check_chunk_hash(handle, true) + m_outstanding++ *)
Definition check_chunk (s : st) (i : nat) (b : list N) : st :=
  let (s1, _) := chunk_get s i true in
  let s2 := chunk_release s1 i false in
  let s3 := set_hq s2 (s_hq s2 ++ [(i, b)]) in
  set_out s3 (Some (S (out_val s3))).

(* HashTorrent::queue(quick); fuel = iterations of the while loop *)
Fixpoint queue (fuel : nat) (quick : bool) (s : st) : st :=
  match fuel with
  | O => set_ierr s
  | S fuel' =>
      let n := length (s_nodes s) in
      if Nat.leb n (s_pos s) then queue_tail s
      else if throttle (out_val s) then s
      else
        match next_range (s_ranges s) (s_pos s) with
        | None => queue_tail (set_pos s n)
        | Some p =>
            let s0 := set_pos s p in
            (* ChunkList::get on an unmapped node asks ChunkManager::allocate first: ENOMEM touches no file.
               quick: any error other than ENOENT just returns; full: retry in 100 ms if nothing is outstanding
               (otherwise the next finished chunk calls queue again) *)
            if mem_full s0 then
              (if quick then (if negb (Nat.eqb (out_val s0) 0) then set_ierr s0 else s0)
               else if Nat.eqb (out_val s0) 0 then set_retry s0 true else s0)
            else
            let (s1, r) := chunk_get s0 p false in
            if quick then
              if negb (Nat.eqb (out_val s1) 0) then set_ierr s1
              else match r with
                   | MapOk _ => chunk_release s1 p false
                   | MapErr EOTHER => s1
                   | MapErr ENOENT => queue fuel' quick (set_pos s1 (S p))
                   end
            else
              match r with
              | MapErr EOTHER =>
                  if negb (Nat.eqb (out_val s1) 0) then s1
                  else set_delay (set_errno (ht_clear s1) true) true
              | MapErr ENOENT => queue fuel' quick (set_pos s1 (S p))
              | MapOk b => queue fuel' quick (check_chunk (set_pos s1 (S p)) p b)
              end
        end
  end.

Definition queue_fuel (s : st) : nat := S (length (s_nodes s) - s_pos s).

(* ---------------------------------------------------------------- close / storage error *)
(* HashQueue::remove(data) -> slot_done(chunk, NULL) for every queued piece *)
Definition cleared_one (s : st) (i : nat) : st :=
  let s1 :=
    if is_checking s then
      (* receive_chunk_cleared *)
      match s_out s with
      | Some (S k) =>
          if nth i (s_ranges s) false then set_ierr s
          else set_ranges (set_out s (Some k)) (upd (s_ranges s) i true)
      | _ => set_ierr s
      end
    else s in
  chunk_release s1 i true.

Definition hq_remove_all (s : st) : st :=
  fold_left (fun a e => cleared_one a (fst e)) (s_hq s) (set_hq s []).

Definition node_busy (nd : node) : bool :=
  (match n_chunk nd with Some _ => true | None => false end) ||
  negb (Nat.eqb (n_refs nd) 0) || negb (Nat.eqb (n_blk nd) 0).

(* DownloadWrapper::close *)
Definition wrapper_close (s : st) : st :=
  let s1 := hq_remove_all (ht_clear s) in
  if s_open s1 then
    let s2 := set_bits (set_files (set_open s1 false) (close_files (s_files s1))) None in
    let s3 := if existsb node_busy (s_nodes s2) then set_ierr s2 else s2 in
    set_nodes s3 []
  else s1.

(* ---------------------------------------------------------------- client calls *)
Definition all_true (n : nat) : list bool := repeat true n.

(* Download::open(0) *)
Definition do_open (s : st) : st :=
  if s_open s then s
  else
    let fs := open_files (s_files s) in
    let n := npieces fs in
    let s1 := set_nodes (set_files (set_open s true) (queue_create fs)) (repeat (mkN None O O) n) in
    set_ranges s1 (all_true n).

(* Download::hash_check(try_quick); a call the API forbids (already checking / checked / closed)
   throws at entry before any change: the drivers do not issue it, here it is a no-op *)
Definition do_check (quick : bool) (s : st) : st :=
  if is_checking s || negb (s_open s) || is_checked s then s
  else
    let n := length (s_nodes s) in
    let s1 :=
      match s_bits s with
      | None => set_ranges (set_bits s (Some (repeat false n))) (all_true n)
      | Some b => if quick then s else set_bits s (Some (unset_ranges b (s_ranges s)))
      end in
    (* HashTorrent::start *)
    if Nat.eqb (s_pos s1) n then s1
    else if negb (Nat.eqb (s_pos s1) 0) || Nat.eqb n 0 then set_ierr s1
    else
      (* a timer left over from an earlier check is erased here iff the source does so *)
      let s2 := if (0 <? Params.c09_start_erases_delay)%N then set_delay s1 false else s1 in
      queue (queue_fuel s2) quick (set_out s2 (Some O)).

(* Download::hash_stop *)
Definition do_stop (s : st) : st :=
  if negb (is_checking s) then s
  else
    let s1 := set_ranges s (erase_below (s_ranges s) (s_pos s)) in
    ht_clear (hq_remove_all s1).

(* Download::close(0) on an inactive download *)
Definition do_close (s : st) : st := wrapper_close s.

(* the scheduler fires m_delay_checked: DownloadWrapper::receive_initial_hash *)
Definition do_tick (s : st) : st :=
  if negb (s_delay s) then s
  else
    let s0 := set_delay s false in
    if negb (is_checking s0) then wrapper_close (set_storerr s0 true)
    else
      let s1 := if Nat.eqb (out_val s0) 0 then s0 else set_ierr s0 in
      let s2 := set_out s1 None in
      match s_hq s2 with [] => s2 | _ => set_ierr s2 end.

Fixpoint hq_take (i : nat) (q : list (nat * list N)) : option (list N * list (nat * list N)) :=
  match q with
  | [] => None
  | (j, b) :: r =>
      if Nat.eqb i j then Some (b, r)
      else match hq_take i r with
           | Some (b', r') => Some (b', (j, b) :: r')
           | None => None
           end
  end.

Definition mark_completed (s : st) (i : nat) : st :=
  match s_bits s with
  | None => set_ierr s
  | Some b => if nth i b true then set_ierr s else set_bits s (Some (upd b i true))
  end.

(* HashQueue::work hands piece i's digest to DownloadWrapper::receive_hash_done *)
Definition receive_hash_done (s : st) (i : nat) (b : list N) : st :=
  if negb (s_open s) then set_ierr s
  else if is_checking s then
    let s1 := if bytes_eqb (H b) (expected i) then mark_completed s i else s in
    (* receive_chunkdone *)
    let s2 := match s_out s1 with
              | Some (S k) => queue (queue_fuel s1) false (set_out s1 (Some k))
              | _ => set_ierr s1
              end in
    chunk_release s2 i true
  else set_ierr s.

Definition do_deliver (s : st) (i : nat) : st :=
  match hq_take i (s_hq s) with
  | None => s
  | Some (b, q') => do_tick (receive_hash_done (set_hq s q') i b)
  end.

(* let every queued piece finish, oldest first, until nothing is outstanding *)
Fixpoint run_all (fuel : nat) (s : st) : st :=
  match fuel with
  | O => s
  | S f =>
      match s_hq s with
      | [] => do_tick s
      | (i, _) :: _ => run_all f (do_deliver s i)
      end
  end.

Definition run_all_fuel (s : st) : nat := S (length (s_nodes s) - s_pos s + length (s_hq s)).

(* m_delay_retry fires: HashTorrent::queue(false), which throws when the checker is not running *)
Definition do_retry_fire (s : st) : st :=
  if negb (s_retry s) then s
  else
    let s0 := set_retry s false in
    if is_checking s0 then queue (queue_fuel s0) false s0 else set_ierr s0.

(* the clock moves past every pending timer: the completion / error notification (due at once) first, then the
   100 ms retry, then whatever notification that retry scheduled *)
Definition do_advance (s : st) : st := do_tick (do_retry_fire (do_tick s)).

Inductive op := OOpen | OCheck (quick : bool) | ODeliver (i : nat) | OStop | OClose | OTick | ORunAll
              | OLimit (l : option nat) | OAdvance.

Definition step (s : st) (o : op) : st :=
  match o with
  | OOpen => do_open s
  | OCheck q => do_check q s
  | ODeliver i => do_deliver s i
  | OStop => do_stop s
  | OClose => do_close s
  | OTick => do_tick s
  | ORunAll => run_all (run_all_fuel s) s
  | OLimit l => set_lim s l
  | OAdvance => do_advance s
  end.

Definition run (ops : list op) (s : st) : st := fold_left step ops s.

End Check.
(* keep the probed policy folded in proofs (simpl would decide it from the concrete probed numbers) *)
Global Opaque throttle.

(* a freshly added download: closed, nothing allocated *)
Definition init (fs : list fnode) : st :=
  mkSt false fs None [] O None [] [] false false false false O false None.

(* what the torrent describes + what is on disk, before the library touched anything *)
Definition fresh_file (size : N) (pad : bool) (d : fstate) : fnode := mkF size pad d false false.
