(* C09 — proofs, part A: the abstract file system.  What mapping a piece can do to the files
   (at most create an absent file empty), and what a successful / ENOENT mapping says about the
   bytes on disk. *)
From Coq Require Import List NArith Bool Arith Lia.
From LTV.C09 Require Import ParamsGen Model.
Import ListNotations.

(* a file after some library activity: same description, same disk state or created empty *)
Definition fle (a b : fnode) : Prop :=
  f_size a = f_size b /\ f_pad a = f_pad b /\
  (f_disk a = f_disk b \/ (f_disk a = Absent /\ f_disk b = Bytes [])).

Definition files_le : list fnode -> list fnode -> Prop := Forall2 fle.

Lemma fle_refl f : fle f f.
Proof. unfold fle; auto. Qed.

Lemma fle_trans a b c : fle a b -> fle b c -> fle a c.
Proof.
  unfold fle. intros (s1 & p1 & d1) (s2 & p2 & d2).
  repeat split; try congruence.
  destruct d1 as [d1 | [d1 d1']]; destruct d2 as [d2 | [d2 d2']].
  - left; congruence.
  - right; split; congruence.
  - right; split; congruence.
  - congruence.
Qed.

Lemma files_le_refl fs : files_le fs fs.
Proof. induction fs; constructor; auto using fle_refl. Qed.

Lemma files_le_trans a b c : files_le a b -> files_le b c -> files_le a c.
Proof.
  intros Hab; revert c. induction Hab; intros c Hbc; inversion Hbc; subst; constructor; eauto using fle_trans.
  apply IHHab; assumption.
Qed.

Lemma files_le_upd fs k f f' :
  nth_error fs k = Some f -> fle f f' -> files_le fs (upd fs k f').
Proof.
  revert k. induction fs as [|x r IH]; intros [|k] Hn Hle; simpl in *; try discriminate.
  - inversion Hn; subst. constructor; [assumption | apply files_le_refl].
  - constructor; [apply fle_refl | apply IH; assumption].
Qed.

Lemma files_le_map (g : fnode -> fnode) fs :
  (forall f, fle f (g f)) -> files_le fs (map g fs).
Proof. intros Hg. induction fs; simpl; constructor; auto. Qed.

Lemma files_le_nth fs fs' k f :
  files_le fs fs' -> nth_error fs k = Some f -> exists f', nth_error fs' k = Some f' /\ fle f f'.
Proof.
  intros Hle; revert k. induction Hle; intros [|k] Hn; simpl in *; try discriminate.
  - inversion Hn; subst. eauto.
  - eauto.
Qed.

Lemma files_le_nth_none fs fs' k :
  files_le fs fs' -> nth_error fs k = None -> nth_error fs' k = None.
Proof.
  intros Hle; revert k. induction Hle; intros [|k] Hn; simpl in *; try discriminate; auto.
Qed.

Lemma prepare_le f : fle f (fst (prepare f)).
Proof.
  unfold prepare, fle. destruct (f_open f); simpl; auto.
  destruct (f_disk f) eqn:D; simpl; auto.
  destruct (f_createq f); simpl; auto.
Qed.

Lemma open_files_le fs : files_le fs (open_files fs).
Proof.
  apply files_le_map. intros f. destruct (f_pad f); auto using fle_refl, prepare_le.
Qed.

Lemma close_files_le fs : files_le fs (close_files fs).
Proof. apply files_le_map. intros f. unfold fle; simpl; auto. Qed.

Lemma queue_create_le fs : files_le fs (queue_create fs).
Proof. apply files_le_map. intros f. unfold fle; simpl; auto. Qed.

Lemma map_windows_le ws : forall fs acc, files_le fs (fst (map_windows ws fs acc)).
Proof.
  induction ws as [|[[k off] len] r IH]; intros fs acc; simpl.
  - apply files_le_refl.
  - destruct (nth_error fs k) as [f|] eqn:Hn; simpl; [|apply files_le_refl].
    destruct (f_pad f); [apply IH|].
    pose proof (prepare_le f) as Hp. destruct (prepare f) as [f' e]; simpl in Hp.
    pose proof (files_le_upd _ _ _ _ Hn Hp) as Hu.
    destruct e; simpl; auto.
    destruct (f_disk f'); simpl; auto.
    destruct (slice l off len); simpl; auto.
    eapply files_le_trans; [exact Hu | apply IH].
Qed.

(* ---------------------------------------------------------------- reading without side effects *)
Fixpoint read_windows (ws : list (nat * N * N)) (fs : list fnode) (acc : list N) : option (list N) :=
  match ws with
  | [] => Some acc
  | (k, off, len) :: r =>
      match nth_error fs k with
      | None => None
      | Some f =>
          if f_pad f then read_windows r fs (acc ++ repeat 0%N (N.to_nat len))
          else match f_disk f with
               | Bytes l =>
                   match slice l off len with
                   | Some b => read_windows r fs (acc ++ b)
                   | None => None
                   end
               | _ => None
               end
      end
  end.

Definition lenpos (w : nat * N * N) : Prop := (0 < snd w)%N.

Lemma slice_nil_pos off len : (0 < len)%N -> slice [] off len = None.
Proof.
  intros Hl. unfold slice. simpl.
  destruct (N.leb_spec (off + len) 0); auto. lia.
Qed.

Lemma read_windows_le ws : forall fs fs' acc,
  files_le fs fs' -> Forall lenpos ws -> read_windows ws fs acc = read_windows ws fs' acc.
Proof.
  induction ws as [|[[k off] len] r IH]; intros fs fs' acc Hle Hpos; simpl; auto.
  inversion Hpos as [|? ? Hp Hr]; subst. unfold lenpos in Hp; simpl in Hp.
  destruct (nth_error fs k) as [f|] eqn:Hn.
  - destruct (files_le_nth _ _ _ _ Hle Hn) as (f' & Hn' & (Hs & Hpd & Hd)). rewrite Hn'.
    rewrite <- Hpd. destruct (f_pad f); [apply IH; auto|].
    destruct Hd as [Hd | [Hd Hd']].
    + rewrite <- Hd. destruct (f_disk f); auto. destruct (slice l off len); auto.
    + rewrite Hd, Hd'. rewrite slice_nil_pos; auto.
  - rewrite (files_le_nth_none _ _ _ Hle Hn). reflexivity.
Qed.

Lemma map_windows_spec ws : forall fs acc fs' r,
  Forall lenpos ws -> map_windows ws fs acc = (fs', r) ->
  match r with
  | MapOk b => read_windows ws fs acc = Some b
  | MapErr ENOENT => read_windows ws fs acc = None
  | MapErr EOTHER => True
  end.
Proof.
  induction ws as [|[[k off] len] rest IH]; intros fs acc fs' r Hpos Hm; simpl in *.
  - inversion Hm; subst. reflexivity.
  - inversion Hpos as [|? ? Hp Hr]; subst. unfold lenpos in Hp; simpl in Hp.
    destruct (nth_error fs k) as [f|] eqn:Hn.
    2:{ inversion Hm; subst. exact I. }
    destruct (f_pad f) eqn:Hpad.
    { eapply IH; eauto. }
    pose proof (prepare_le f) as Hple.
    unfold prepare in *.
    destruct (f_open f) eqn:Ho; simpl in *.
    + (* already open *)
      destruct (f_disk f) as [| |l|] eqn:Hd; try (inversion Hm; subst; exact I).
      destruct (slice l off len) as [b0|] eqn:Hsl.
      * assert (Hle : files_le fs (upd fs k f)) by (eapply files_le_upd; eauto using fle_refl).
        specialize (IH _ _ _ _ Hr Hm).
        rewrite (read_windows_le rest fs (upd fs k f) (acc ++ b0) Hle Hr). exact IH.
      * inversion Hm; subst. reflexivity.
    + destruct (f_disk f) as [| |l|] eqn:Hd; simpl in *.
      * (* Absent *)
        destruct (f_createq f); simpl in *.
        -- rewrite slice_nil_pos in Hm by assumption. inversion Hm; subst. reflexivity.
        -- inversion Hm; subst. reflexivity.
      * inversion Hm; subst. reflexivity.
      * destruct (slice l off len) as [b0|] eqn:Hsl.
        -- set (f' := mkF (f_size f) (f_pad f) (Bytes l) true false) in *.
           assert (Hle : files_le fs (upd fs k f')).
           { eapply files_le_upd; [eassumption|]. unfold fle; simpl. rewrite Hd. auto. }
           specialize (IH _ _ _ _ Hr Hm).
           rewrite (read_windows_le rest fs (upd fs k f') (acc ++ b0) Hle Hr). exact IH.
        -- inversion Hm; subst. reflexivity.
      * inversion Hm; subst. exact I.
Qed.

(* ---------------------------------------------------------------- windows depend on sizes only *)
Lemma total_le fs fs' : files_le fs fs' -> total fs = total fs'.
Proof.
  induction 1 as [|a b l l' (Hs & _) _ IH]; simpl; auto. rewrite Hs, IH. reflexivity.
Qed.

Lemma windows_le fs fs' : files_le fs fs' -> forall k foff a b,
  windows fs k foff a b = windows fs' k foff a b.
Proof.
  induction 1 as [|x y l l' (Hs & _) _ IH]; intros; simpl; auto.
  rewrite Hs. f_equal. apply IH.
Qed.

Lemma windows_lenpos fs : forall k foff a b, Forall lenpos (windows fs k foff a b).
Proof.
  induction fs as [|f r IH]; intros; simpl; [constructor|].
  apply Forall_app; split; [|apply IH].
  destruct (N.ltb_spec (N.max a foff) (N.min b (foff + f_size f))); constructor; [|constructor].
  unfold lenpos; simpl. lia.
Qed.

Section Valid.
Variable H : list N -> list N.
Variable pl : N.
Variable expected : nat -> list N.

Definition piece_bytes (fs : list fnode) (i : nat) : option (list N) :=
  read_windows (piece_windows pl fs i) fs [].

(* "all bytes of piece i exist in the files and hash correctly" *)
Definition valid (fs : list fnode) (i : nat) : bool :=
  match piece_bytes fs i with
  | Some b => bytes_eqb (H b) (expected i)
  | None => false
  end.

Lemma piece_windows_le fs fs' i : files_le fs fs' -> piece_windows pl fs i = piece_windows pl fs' i.
Proof.
  intros Hle. unfold piece_windows. rewrite (total_le _ _ Hle). apply windows_le; assumption.
Qed.

Lemma piece_windows_lenpos fs i : Forall lenpos (piece_windows pl fs i).
Proof. unfold piece_windows. apply windows_lenpos. Qed.

Lemma piece_bytes_le fs fs' i : files_le fs fs' -> piece_bytes fs i = piece_bytes fs' i.
Proof.
  intros Hle. unfold piece_bytes. rewrite <- (piece_windows_le _ _ i Hle).
  apply read_windows_le; auto using piece_windows_lenpos.
Qed.

Lemma valid_le fs fs' i : files_le fs fs' -> valid fs i = valid fs' i.
Proof. intros Hle. unfold valid. rewrite (piece_bytes_le _ _ i Hle). reflexivity. Qed.

Lemma npieces_le fs fs' : files_le fs fs' -> npieces pl fs = npieces pl fs'.
Proof. intros Hle. unfold npieces. rewrite (total_le _ _ Hle). reflexivity. Qed.

End Valid.
