(* C09 — proofs, part D: list facts used by the full invariant (ProofsE). *)
From Coq Require Import List NArith Bool Arith Lia.
From LTV.C09 Require Import ParamsGen Model.
Import ListNotations.

Lemma upd_length {A} (l : list A) i v : length (upd l i v) = length l.
Proof. revert i. induction l; intros [|i]; simpl; auto. Qed.

Lemma nth_error_upd_eq {A} (l : list A) i v : i < length l -> nth_error (upd l i v) i = Some v.
Proof. revert i. induction l; intros [|i] Hl; simpl in *; try lia; auto. apply IHl; lia. Qed.

Lemma nth_error_upd_neq {A} (l : list A) i j v : i <> j -> nth_error (upd l i v) j = nth_error l j.
Proof.
  revert i j. induction l; intros [|i] [|j] Hn; simpl; auto; try congruence.
Qed.

Lemma upd_same {A} (l : list A) i v : nth_error l i = Some v -> upd l i v = l.
Proof.
  revert i. induction l; intros [|i] Hn; simpl in *; try discriminate.
  - inversion Hn; reflexivity.
  - f_equal; auto.
Qed.

Lemma upd_upd {A} (l : list A) i v w : upd (upd l i v) i w = upd l i w.
Proof. revert i. induction l; intros [|i]; simpl; auto. f_equal; auto. Qed.

Lemma nth_upd_eq (l : list bool) i v : i < length l -> nth i (upd l i v) false = v.
Proof. revert i. induction l; intros [|i] Hl; simpl in *; try lia; auto. apply IHl; lia. Qed.

Lemma nth_upd_neq (l : list bool) i j v : i <> j -> nth j (upd l i v) false = nth j l false.
Proof. revert i j. induction l; intros [|i] [|j] Hn; simpl; auto; try congruence. Qed.

Lemma nth_skipn (l : list bool) p k : nth k (skipn p l) false = nth (p + k) l false.
Proof.
  revert l. induction p; intros l; simpl; auto.
  destruct l; simpl; auto; destruct k; auto.
Qed.

Lemma first_true_some l j :
  first_true l = Some j -> nth j l false = true /\ j < length l /\ forall k, k < j -> nth k l false = false.
Proof.
  revert j. induction l as [|[|] l IH]; intros j Hf; simpl in *; try discriminate.
  - inversion Hf; subst. repeat split; auto; try lia; intros; lia.
  - destruct (first_true l) as [j'|]; simpl in Hf; try discriminate. inversion Hf; subst.
    destruct (IH _ eq_refl) as (A & B & C). repeat split; auto; try lia.
    all: intros [|k] Hk; auto; apply C; lia.
Qed.

Lemma first_true_none l : first_true l = None -> forall k, nth k l false = false.
Proof.
  induction l as [|[|] l IH]; intros Hf k; simpl in *; try discriminate.
  - destruct k; auto.
  - destruct (first_true l); simpl in Hf; try discriminate. destruct k; auto.
Qed.

Lemma next_range_some r p q :
  next_range r p = Some q ->
  p <= q /\ q < length r /\ nth q r false = true /\ forall k, p <= k -> k < q -> nth k r false = false.
Proof.
  unfold next_range. destruct (first_true (skipn p r)) as [j|] eqn:Hf; simpl; intros Hq; try discriminate.
  inversion Hq; subst. destruct (first_true_some _ _ Hf) as (A & B & C).
  rewrite nth_skipn in A. rewrite skipn_length in B. repeat split; auto; try lia.
  intros k Hk1 Hk2. specialize (C (k - p)). rewrite nth_skipn in C.
  replace (p + (k - p)) with k in C by lia. apply C; lia.
Qed.

Lemma next_range_none r p : next_range r p = None -> forall k, p <= k -> nth k r false = false.
Proof.
  unfold next_range. destruct (first_true (skipn p r)) as [j|] eqn:Hf; simpl; intros Hq; try discriminate.
  intros k Hk. pose proof (first_true_none _ Hf (k - p)) as C. rewrite nth_skipn in C.
  replace (p + (k - p)) with k in C by lia. exact C.
Qed.

Lemma erase_below_length r p : length (erase_below r p) = length r.
Proof. revert p. induction r; intros [|p]; simpl; auto. Qed.

Lemma nth_erase_below r p i :
  nth i (erase_below r p) false = if i <? p then false else nth i r false.
Proof.
  revert p i. induction r as [|a r IH]; intros p i.
  - destruct p; simpl; destruct i; simpl; try destruct (_ <? _); auto.
  - destruct p; simpl.
    + destruct i; auto.
    + destruct i; simpl; auto. rewrite IH. reflexivity.
Qed.

Lemma unset_ranges_length b r : length (unset_ranges b r) = length b.
Proof. revert r. induction b; intros [|y r]; simpl; auto. Qed.

Lemma nth_unset_ranges_eq b : forall r i, length b = length r ->
  nth i (unset_ranges b r) false = nth i b false && negb (nth i r false).
Proof.
  induction b as [|x b IH]; intros [|y r] i Hl; simpl in *; try discriminate.
  - destruct i; reflexivity.
  - destruct i; auto.
Qed.

Lemma nth_repeat_true n i : i < n -> nth i (repeat true n) false = true.
Proof. revert i. induction n; intros [|i] Hi; simpl; auto; try lia. apply IHn; lia. Qed.

Lemma nth_overflow_false (l : list bool) i : length l <= i -> nth i l false = false.
Proof. intros. apply nth_overflow; auto. Qed.

(* ---------------------------------------------------------------- hq_take *)
Lemma hq_take_none i q : hq_take i q = None -> ~ In i (map fst q).
Proof.
  induction q as [|[j c] r IH]; simpl; intros Ht.
  - auto.
  - destruct (Nat.eqb_spec i j); [discriminate|].
    destruct (hq_take i r) as [[b' r']|]; [discriminate|].
    intros [Hj|Hin]; [congruence | exact (IH eq_refl Hin)].
Qed.

Lemma hq_take_some i q b q' :
  hq_take i q = Some (b, q') -> NoDup (map fst q) ->
  length q = S (length q') /\ NoDup (map fst q') /\ ~ In i (map fst q') /\
  (forall j, In j (map fst q) <-> (j = i \/ In j (map fst q'))).
Proof.
  revert b q'. induction q as [|[j c] r IH]; intros b q' Ht Hnd; simpl in *; try discriminate.
  inversion Hnd as [|? ? Hnj Hnd']; subst.
  destruct (Nat.eqb_spec i j) as [->|Hne].
  - inversion Ht; subst. repeat split; auto; intros; intuition congruence.
  - destruct (hq_take i r) as [[b' r']|] eqn:Hr; try discriminate. inversion Ht; subst.
    destruct (IH _ _ eq_refl Hnd') as (A & B & C & D). simpl.
    repeat split.
    + lia.
    + constructor; auto. intros Hin. apply Hnj. apply D. auto.
    + intros [Hj|Hin]; [congruence | auto].
    + intros [Hj|Hin]; [auto | apply D in Hin; tauto].
    + intros [Hj|[Hj|Hin]]; [right; apply D; auto | auto | right; apply D; auto].
Qed.

Lemma in_map_fst_app (q : list (nat * list N)) i b j :
  In j (map fst (q ++ [(i, b)])) <-> In j (map fst q) \/ j = i.
Proof.
  rewrite map_app, in_app_iff. simpl. intuition.
Qed.

Lemma NoDup_app_single (l : list nat) a : NoDup l -> ~ In a l -> NoDup (l ++ [a]).
Proof.
  induction l as [|x l IH]; intros Hnd Hn; simpl.
  - repeat constructor; auto.
  - inversion Hnd; subst. constructor.
    + intros Hin. apply in_app_or in Hin. destruct Hin as [Hin|[Heq|[]]]; [auto|]. apply Hn. left; auto.
    + apply IH; auto. intros Hin. apply Hn. right; auto.
Qed.
