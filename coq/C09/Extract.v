From Coq Require Import Extraction ExtrOcamlBasic NArith ZArith.
From LTV.C09 Require Import Model.
Set Extraction Optimize.
Extraction Language OCaml.
(* Z.of_N only so that the shared ocaml/conv.ml (which mentions type z) compiles *)
Extraction "extracted/c09_model.ml" init fresh_file run step npieces piece_windows is_checking is_checked Z.of_N.
