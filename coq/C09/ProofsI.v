(* C09 — proofs, part I: HashTorrent's queue bookkeeping (m_position, m_outstanding, the HashQueue
   nodes of the download, the ChunkList reference / blocking counts) as theorems of their own.
   Part 1: unconditional facts about HashTorrent::queue (any state, any fuel): it only APPENDS to the
   hash queue, the appended pieces lie at or beyond m_position and are strictly increasing, and
   m_outstanding grows by exactly the number of appended pieces unless the checker was cleared.
   Part 2: the bookkeeping clauses of the invariant of part E, for every reachable state of a
   polite history. *)
From Coq Require Import List NArith Bool Arith Lia.
From LTV.C09 Require Import ParamsGen Model Proofs ProofsA ProofsB ProofsC ProofsD ProofsE ProofsF ProofsG ProofsL ProofsH.
Import ListNotations.

(* strictly increasing, first element >= p *)
Fixpoint incr_from (p : nat) (l : list nat) : Prop :=
  match l with
  | [] => True
  | i :: r => p <= i /\ incr_from (S i) r
  end.

Lemma incr_from_weaken l : forall p q, q <= p -> incr_from p l -> incr_from q l.
Proof. destruct l as [|i r]; simpl; intros p q Hq Hi; [exact I|]. destruct Hi. split; [lia | assumption]. Qed.

Lemma incr_from_ge l : forall p i, incr_from p l -> In i l -> p <= i.
Proof.
  induction l as [|j r IH]; simpl; intros p i Hi Hin; [contradiction|].
  destruct Hi as [Hj Hr]. destruct Hin as [->|Hin]; [assumption|].
  specialize (IH (S j) i Hr Hin). lia.
Qed.

Lemma incr_from_nodup l : forall p, incr_from p l -> NoDup l.
Proof.
  induction l as [|j r IH]; simpl; intros p Hi; constructor.
  - intros Hin. destruct Hi as [_ Hr]. pose proof (incr_from_ge r (S j) j Hr Hin). lia.
  - destruct Hi as [_ Hr]. eapply IH; eauto.
Qed.

Section Q.
Variable pl : N.

(* ---------------------------------------------------------------- frames *)
Lemma chunk_get_frame s i blk :
  s_hq (fst (chunk_get pl s i blk)) = s_hq s /\ s_pos (fst (chunk_get pl s i blk)) = s_pos s /\
  s_out (fst (chunk_get pl s i blk)) = s_out s /\ s_ranges (fst (chunk_get pl s i blk)) = s_ranges s.
Proof.
  unfold chunk_get. destruct (nth_error (s_nodes s) i) as [nd|]; [|simpl; auto].
  destruct (n_chunk nd); [simpl; auto|].
  destruct (map_windows (piece_windows pl (s_files s) i) (s_files s) []) as [fs' r].
  destruct r; simpl; auto.
Qed.

Lemma chunk_release_frame s i blk :
  s_hq (chunk_release s i blk) = s_hq s /\ s_pos (chunk_release s i blk) = s_pos s /\
  s_out (chunk_release s i blk) = s_out s /\ s_ranges (chunk_release s i blk) = s_ranges s.
Proof.
  unfold chunk_release. destruct (nth_error (s_nodes s) i); [|simpl; auto].
  match goal with |- context [if ?c then _ else _] => destruct c end; simpl; auto.
Qed.

Lemma check_chunk_frame s i b :
  s_hq (check_chunk pl s i b) = s_hq s ++ [(i, b)] /\ s_pos (check_chunk pl s i b) = s_pos s /\
  s_out (check_chunk pl s i b) = Some (S (out_val s)).
Proof.
  unfold check_chunk. pose proof (chunk_get_frame s i true) as (A & B & C & _).
  destruct (chunk_get pl s i true) as [s1 r]. simpl in A, B, C.
  destruct (chunk_release_frame s1 i false) as (A2 & B2 & C2 & _).
  unfold out_val. simpl. rewrite A2, B2, C2, A, B, C. auto.
Qed.

(* what one call of HashTorrent::queue does to the hash queue and to m_outstanding *)
Definition queue_eff (s s' : st) : Prop :=
  exists nw, s_hq s' = s_hq s ++ nw /\ incr_from (s_pos s) (map fst nw) /\
             (s_out s' = None \/ out_val s' = out_val s + length nw).

Lemma qe_nil s s' : s_hq s' = s_hq s -> (s_out s' = None \/ out_val s' = out_val s) -> queue_eff s s'.
Proof.
  intros Hh Ho. exists []. rewrite app_nil_r. split; [assumption|]. split; [exact I|].
  simpl. destruct Ho; [left; assumption | right; lia].
Qed.

Lemma queue_effect fuel : forall quick s, queue_eff s (queue pl fuel quick s).
Proof.
  induction fuel as [|fuel IH]; intros quick s; cbn [queue].
  { apply qe_nil; simpl; auto. }
  destruct (Nat.leb (length (s_nodes s)) (s_pos s)).
  { unfold queue_tail. destruct (Nat.eqb (out_val s) 0); apply qe_nil; simpl; auto. }
  destruct (throttle (out_val s)); [apply qe_nil; auto|].
  destruct (next_range (s_ranges s) (s_pos s)) as [p|] eqn:Hn.
  2:{ unfold queue_tail. match goal with |- queue_eff _ (if ?c then _ else _) => destruct c end; apply qe_nil; simpl; auto. }
  destruct (next_range_some _ _ _ Hn) as (Hp & _).
  destruct (mem_full (set_pos s p)).
  { destruct quick; [destruct (negb (Nat.eqb (out_val (set_pos s p)) 0)) | destruct (Nat.eqb (out_val (set_pos s p)) 0)];
      apply qe_nil; simpl; auto. }
  pose proof (chunk_get_frame (set_pos s p) p false) as (Gh & Gp & Go & _).
  destruct (chunk_get pl (set_pos s p) p false) as [s1 r]. simpl in Gh, Gp, Go.
  assert (Hov : out_val s1 = out_val s) by (unfold out_val; rewrite Go; reflexivity).
  destruct quick.
  - destruct (negb (Nat.eqb (out_val s1) 0)); [apply qe_nil; simpl; auto|].
    destruct r as [b|[|]].
    + destruct (chunk_release_frame s1 p false) as (A & _ & C & _).
      apply qe_nil; [congruence | right; unfold out_val; rewrite C, Go; reflexivity].
    + destruct (IH true (set_pos s1 (S p))) as (nw & A & B & C). exists nw. simpl in A, B, C.
      split; [congruence|]. split; [eapply incr_from_weaken; [|exact B]; lia|].
      destruct C as [C|C]; [left; assumption | right]. unfold out_val in *. simpl in C. rewrite Go in C. exact C.
    + apply qe_nil; auto.
  - destruct r as [b|[|]].
    + destruct (check_chunk_frame (set_pos s1 (S p)) p b) as (A1 & B1 & C1). simpl in A1, B1, C1.
      destruct (IH false (check_chunk pl (set_pos s1 (S p)) p b)) as (nw & A & B & C).
      exists ((p, b) :: nw). rewrite A, A1, Gh, <- app_assoc. split; [reflexivity|].
      rewrite B1 in B. split; [simpl; split; [assumption | exact B]|].
      destruct C as [C|C]; [left; assumption | right].
      rewrite C. unfold out_val at 1. rewrite C1. unfold out_val. simpl. rewrite Go. simpl. lia.
    + destruct (IH false (set_pos s1 (S p))) as (nw & A & B & C). exists nw. simpl in A, B, C.
      split; [congruence|]. split; [eapply incr_from_weaken; [|exact B]; lia|].
      destruct C as [C|C]; [left; assumption | right]. unfold out_val in *. simpl in C. rewrite Go in C. exact C.
    + destruct (negb (Nat.eqb (out_val s1) 0)); apply qe_nil; simpl; auto.
Qed.

(* the probed throttle bounds m_outstanding whenever it is active at all *)
Transparent throttle.
Lemma throttle_false_lt k :
  (Params.c09_throttle_small <? Params.c09_probe_pieces)%N = true -> throttle k = false ->
  k < N.to_nat Params.c09_throttle_small.
Proof.
  intros Ha Ht. unfold throttle in Ht. rewrite Ha in Ht. cbn [andb] in Ht.
  apply N.leb_gt in Ht. lia.
Qed.
Opaque throttle.

Definition out_max : nat := N.to_nat Params.c09_throttle_small.

Lemma queue_out_bound fuel : forall quick s,
  (Params.c09_throttle_small <? Params.c09_probe_pieces)%N = true ->
  out_val s <= out_max -> out_val (queue pl fuel quick s) <= out_max.
Proof.
  intros quick s Ha. revert quick s.
  induction fuel as [|fuel IH]; intros quick s Hb; cbn [queue]; [exact Hb|].
  destruct (Nat.leb (length (s_nodes s)) (s_pos s)).
  { unfold queue_tail. destruct (Nat.eqb (out_val s) 0); exact Hb. }
  destruct (throttle (out_val s)) eqn:Ht; [exact Hb|].
  pose proof (throttle_false_lt _ Ha Ht) as Hlt.
  destruct (next_range (s_ranges s) (s_pos s)) as [p|].
  2:{ unfold queue_tail. match goal with |- out_val (if ?c then _ else _) <= _ => destruct c end; exact Hb. }
  destruct (mem_full (set_pos s p)).
  { destruct quick; [destruct (negb (Nat.eqb (out_val (set_pos s p)) 0)) | destruct (Nat.eqb (out_val (set_pos s p)) 0)]; exact Hb. }
  pose proof (chunk_get_frame (set_pos s p) p false) as (_ & _ & Go & _).
  destruct (chunk_get pl (set_pos s p) p false) as [s1 r]. simpl in Go.
  assert (Hov : out_val s1 = out_val s) by (unfold out_val; rewrite Go; reflexivity).
  destruct quick.
  - destruct (negb (Nat.eqb (out_val s1) 0)); [unfold out_val in *; simpl; rewrite Go; exact Hb|].
    destruct r as [b|[|]].
    + destruct (chunk_release_frame s1 p false) as (_ & _ & C & _). unfold out_val in *. rewrite C, Go. exact Hb.
    + apply IH. unfold out_val in *. simpl. rewrite Go. exact Hb.
    + rewrite Hov. exact Hb.
  - destruct r as [b|[|]].
    + apply IH. destruct (check_chunk_frame (set_pos s1 (S p)) p b) as (_ & _ & C1).
      unfold out_val at 1. rewrite C1. unfold out_val in *. simpl. rewrite Go. unfold out_max. lia.
    + apply IH. unfold out_val in *. simpl. rewrite Go. exact Hb.
    + destruct (negb (Nat.eqb (out_val s1) 0)); [rewrite Hov; exact Hb|]. unfold out_val, ht_clear. simpl. lia.
Qed.

End Q.

(* ---------------------------------------------------------------- reachable states of polite histories *)
Section Reach.
Variable H : list N -> list N.
Variable pl : N.
Variable expected : nat -> list N.
Variable fs0 : list fnode.

Notation run := (run H pl expected).
Notation polite := (polite H pl expected).

Lemma nodup_lt_length (l : list nat) p : NoDup l -> (forall i, In i l -> i < p) -> length l <= p.
Proof.
  intros Hnd Hlt. rewrite <- (seq_length p 0). apply NoDup_incl_length; [assumption|].
  intros i Hi. apply in_seq. specialize (Hlt i Hi). lia.
Qed.

Theorem queue_bookkeeping ops :
  polite (init fs0) ops ->
  let s := run ops (init fs0) in
  length (s_nodes s) = (if s_open s then npieces pl fs0 else 0) /\
  s_pos s <= length (s_nodes s) /\
  NoDup (map fst (s_hq s)) /\
  (forall i, In i (map fst (s_hq s)) -> i < s_pos s /\ nth i (s_ranges s) false = true) /\
  match s_out s with
  | Some k => k = length (s_hq s) /\ k <= s_pos s /\ s_open s = true
  | None => s_hq s = [] /\ (s_pos s = 0 \/ s_pos s = length (s_nodes s))
  end.
Proof.
  intros Hp s. destruct (run_inv H pl expected fs0 ops _ (init_inv H pl expected fs0) Hp) as [HR _]. fold s in HR.
  destruct HR as [S0 I0 NL RL B ND X NDP HL HRg P O D]. unfold hqi in *.
  split; [exact NL|]. split; [exact P|]. split; [exact NDP|]. split; [intros i Hi; split; auto|].
  destruct (s_out s) as [k|]; [|exact O].
  destruct O as (Ok & Oo & _). split; [exact Ok|]. split; [|exact Oo].
  rewrite Ok, <- (map_length fst). apply nodup_lt_length; assumption.
Qed.

Theorem chunk_refs_exact ops :
  polite (init fs0) ops ->
  let s := run ops (init fs0) in
  forall i nd, nth_error (s_nodes s) i = Some nd ->
    (In i (map fst (s_hq s)) -> exists b, nd = mkN (Some b) 1 1 /\ piece_bytes pl fs0 i = Some b) /\
    (~ In i (map fst (s_hq s)) -> nd = mkN None 0 0).
Proof.
  intros Hp s i nd Hn. destruct (run_inv H pl expected fs0 ops _ (init_inv H pl expected fs0) Hp) as [HR _]. fold s in HR.
  destruct HR as [S0 I0 NL RL B ND X NDP HL HRg P O D]. unfold hqi in *.
  destruct (ND i nd Hn) as [A C]. split.
  - intros Hin. destruct (A Hin) as [b ->]. exists b. split; [reflexivity|].
    rewrite (piece_bytes_le pl _ _ i (iS_files _ _ _ _ _ S0)).
    eapply (iS_nodes _ _ _ _ _ S0); [exact Hn | reflexivity].
  - intros Hnin. apply C; [assumption | discriminate].
Qed.

End Reach.
