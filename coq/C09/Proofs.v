(* C09 — proofs, part 0: side conditions on the constants re-extracted from the source. *)
From Coq Require Import List NArith Bool Arith.
From LTV.C09 Require Import ParamsGen Model.
Import ListNotations.

(* the probed throttle never fires with nothing outstanding *)
Definition params_ok : bool := (0 <? Params.c09_throttle_small)%N.

Lemma params_ok_now : params_ok = true.
Proof. vm_compute. reflexivity. Qed.
