(* C09 — proofs, part 0: side conditions on the constants re-extracted from the source. *)
From Coq Require Import List NArith Bool Arith.
From LTV.C09 Require Import ParamsGen Model.
Import ListNotations.

(* throttle: more than [count] chunks and more than [bytes] mapped; piece length window of the
   constructor (so a piece always has at least one byte and fits uint32) *)
Definition params_ok : bool :=
  (0 <? Params.c09_throttle_count)%N && (0 <? Params.c09_throttle_bytes)%N &&
  (Params.c09_throttle_bytes <? 4294967296)%N &&
  (0 <? Params.c09_piece_len_min_excl)%N && (Params.c09_piece_len_min_excl <? Params.c09_piece_len_max)%N &&
  (Params.c09_piece_len_max <? 4294967296)%N.

Lemma params_ok_now : params_ok = true.
Proof. vm_compute. reflexivity. Qed.
