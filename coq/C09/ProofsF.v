(* C09 — proofs, part F: HashQueue::remove as used by hash_stop and close, and the client calls. *)
From Coq Require Import List NArith Bool Arith Lia.
From LTV.C09 Require Import ParamsGen Model ProofsA ProofsB ProofsD ProofsE.
Import ListNotations.

Definition nodes_for (nodes : list node) (l : list nat) : Prop :=
  forall i nd, nth_error nodes i = Some nd ->
    (In i l -> exists b, nd = mkN (Some b) 1 1) /\ (~ In i l -> nd = free_node).

Lemma nodes_for_release nodes i l b :
  nodes_for nodes (i :: l) -> ~ In i l -> nth_error nodes i = Some (mkN (Some b) 1 1) ->
  nodes_for (upd nodes i free_node) l.
Proof.
  intros Hnf Hni Hn j nd Hj. destruct (Nat.eq_dec i j) as [<-|Hne].
  - assert (Hl : i < length nodes) by (apply nth_error_Some; rewrite Hn; discriminate).
    rewrite nth_error_upd_eq in Hj by assumption. inversion Hj; subst. split; [contradiction | auto].
  - rewrite nth_error_upd_neq in Hj by assumption. destruct (Hnf j nd Hj) as [A B]. split.
    + intros Hin. apply A. right; assumption.
    + intros Hnin. apply B. intros [Heq|Hin]; [congruence | contradiction].
Qed.

(* hash_stop: every queued piece goes back into the ranges and is released *)
Lemma fold_cleared_stop (l : list (nat * list N)) : forall t,
  s_ierr t = false -> s_out t = Some (length l) -> NoDup (map fst l) ->
  (forall i, In i (map fst l) -> nth i (s_ranges t) false = false /\ i < length (s_ranges t)) ->
  nodes_for (s_nodes t) (map fst l) ->
  (forall i, In i (map fst l) -> i < length (s_nodes t)) ->
  exists r' nd',
    fold_left (fun a e => cleared_one a (fst e)) l t =
      set_mem (set_nodes (set_ranges (set_out t (Some 0)) r') nd') (s_mem t - length l) /\
    nodes_for nd' [] /\ length nd' = length (s_nodes t) /\ length r' = length (s_ranges t) /\
    (forall i, nth i r' false = true <-> (nth i (s_ranges t) false = true \/ In i (map fst l))).
Proof.
  induction l as [|[i b0] l IH]; intros t Hie Ho Hnd Hrg Hnf Hlt; simpl in *.
  - exists (s_ranges t), (s_nodes t).
    split; [apply st_ext; simpl; auto; lia|]. split; [exact Hnf|]. split; [reflexivity|]. split; [reflexivity|].
    intros; tauto.
  - inversion Hnd as [|? ? Hni Hnd']; subst.
    destruct (Hrg i (or_introl eq_refl)) as [Hri Hril].
    assert (Hil : i < length (s_nodes t)) by (apply Hlt; auto).
    destruct (nth_error (s_nodes t) i) as [ndi|] eqn:Hn; [|apply nth_error_None in Hn; lia].
    destruct (Hnf i ndi Hn) as [A _]. destruct (A (or_introl eq_refl)) as [b Hb]. subst ndi.
    assert (Hc : cleared_one t i =
                 set_mem (set_nodes (set_ranges (set_out t (Some (length l))) (upd (s_ranges t) i true)) (upd (s_nodes t) i free_node))
                         (pred (s_mem t))).
    { unfold cleared_one, is_checking. rewrite Ho. rewrite Hri.
      rewrite (chunk_release_ok _ i true b 0 1); [reflexivity | simpl; assumption | discriminate]. }
    rewrite Hc.
    destruct (IH (set_mem (set_nodes (set_ranges (set_out t (Some (length l))) (upd (s_ranges t) i true)) (upd (s_nodes t) i free_node)) (pred (s_mem t))))
      as (r' & nd' & Heq & Hnf' & Hl1 & Hl2 & Hr'); simpl; auto.
    + intros j Hj. rewrite upd_length. destruct (Hrg j (or_intror Hj)) as [Hrj Hjl]. split; [|assumption].
      rewrite nth_upd_neq; [assumption|]. intros ->. contradiction.
    + eapply nodes_for_release; eauto.
    + intros j Hj. rewrite upd_length. apply Hlt. auto.
    + exists r', nd'. rewrite Heq.
      split; [apply st_ext; try reflexivity; simpl; lia|]. split; [exact Hnf'|].
      split; [rewrite Hl1; simpl; apply upd_length|]. split; [rewrite Hl2; simpl; apply upd_length|].
      intros i0. split.
      * intros Hr. apply Hr' in Hr. simpl in Hr. destruct Hr as [Hr|Hr]; [|auto].
        destruct (Nat.eq_dec i i0) as [<-|Hne]; [auto|]. rewrite nth_upd_neq in Hr by assumption. auto.
      * intros Hr. apply Hr'. simpl. destruct Hr as [Hr|[Hr|Hr]]; [|subst|auto].
        -- left. destruct (Nat.eq_dec i i0) as [<-|Hne]; [rewrite Hri in Hr; discriminate|].
           rewrite nth_upd_neq by assumption. assumption.
        -- left. apply nth_upd_eq. assumption.
Qed.

(* close: the checker is already cleared; every queued piece is just released *)
Lemma fold_cleared_close (l : list (nat * list N)) : forall t,
  s_out t = None -> NoDup (map fst l) -> nodes_for (s_nodes t) (map fst l) ->
  (forall i, In i (map fst l) -> i < length (s_nodes t)) ->
  exists nd',
    fold_left (fun a e => cleared_one a (fst e)) l t = set_mem (set_nodes t nd') (s_mem t - length l) /\
    nodes_for nd' [] /\ length nd' = length (s_nodes t).
Proof.
  induction l as [|[i b0] l IH]; intros t Ho Hnd Hnf Hlt; simpl in *.
  - exists (s_nodes t). split; [apply st_ext; try reflexivity; simpl; lia|]. split; [exact Hnf | reflexivity].
  - inversion Hnd as [|? ? Hni Hnd']; subst.
    assert (Hil : i < length (s_nodes t)) by (apply Hlt; auto).
    destruct (nth_error (s_nodes t) i) as [ndi|] eqn:Hn; [|apply nth_error_None in Hn; lia].
    destruct (Hnf i ndi Hn) as [A _]. destruct (A (or_introl eq_refl)) as [b Hb]. subst ndi.
    assert (Hc : cleared_one t i = set_mem (set_nodes t (upd (s_nodes t) i free_node)) (pred (s_mem t))).
    { unfold cleared_one, is_checking. rewrite Ho.
      rewrite (chunk_release_ok _ i true b 0 1); [reflexivity | assumption | discriminate]. }
    rewrite Hc.
    destruct (IH (set_mem (set_nodes t (upd (s_nodes t) i free_node)) (pred (s_mem t)))) as (nd' & Heq & Hnf' & Hl1); simpl; auto.
    + eapply nodes_for_release; eauto.
    + intros j Hj. rewrite upd_length. apply Hlt. auto.
    + exists nd'. rewrite Heq.
      split; [apply st_ext; try reflexivity; simpl; lia|]. split; [exact Hnf'|]. rewrite Hl1. simpl. apply upd_length.
Qed.

Lemma existsb_busy_free nd : nodes_for nd [] -> existsb node_busy nd = false.
Proof.
  intros Hnf. destruct (existsb node_busy nd) eqn:He; [|reflexivity].
  apply existsb_exists in He. destruct He as (x & Hin & Hb).
  apply In_nth_error in Hin. destruct Hin as [i Hi].
  destruct (Hnf i x Hi) as [_ B]. rewrite (B (fun f => f)) in Hb. discriminate.
Qed.

Section Ops.
Variable H : list N -> list N.
Variable pl : N.
Variable expected : nat -> list N.
Variable fs0 : list fnode.

Notation n := (npieces pl fs0).
Notation inv := (inv H pl expected fs0).
Notation invR := (invR H pl expected fs0).
Notation invC := (invC H pl expected fs0).
Notation valid := (valid H pl expected).

Lemma invR_nodes_for s : invR None s -> nodes_for (s_nodes s) (hqi s).
Proof.
  intros HR i nd Hn. destruct (r_node _ _ _ _ _ _ HR i nd Hn) as [A B]. split; [assumption|].
  intros Hni. apply B; [assumption | discriminate].
Qed.

Definition all_free (s : st) : Prop := nodes_for (s_nodes s) [].

(* ---------------------------------------------------------------- hash_stop *)
Lemma do_stop_inv s :
  inv None s -> is_checking s = true ->
  inv None (do_stop s) /\ all_free (do_stop s) /\ s_hq (do_stop s) = [] /\
  s_out (do_stop s) = None /\ s_delay (do_stop s) = false /\ length (s_nodes (do_stop s)) = length (s_nodes s).
Proof.
  intros [HR [C2 C9]] Hc.
  pose proof HR as [S0 I0 NL RL B ND X NDP HL HRg P O D].
  unfold is_checking in Hc. destruct (s_out s) as [k|] eqn:Ho; [|discriminate].
  destruct O as (Ok & Oo & Ob).
  assert (Hlen : length (s_ranges s) = length (s_nodes s)) by (rewrite NL, Oo; apply RL; assumption).
  unfold do_stop, is_checking. rewrite Ho. cbn [negb]. unfold hq_remove_all. cbn [s_hq set_ranges].
  destruct (fold_cleared_stop (s_hq s) (set_hq (set_ranges s (erase_below (s_ranges s) (s_pos s))) []))
    as (r' & nd' & Heq & Hnf' & Hl1 & Hl2 & Hr'); simpl; auto.
  { rewrite Ho, Ok. reflexivity. }
  { intros i Hi. rewrite nth_erase_below, erase_below_length. specialize (HL i Hi).
    destruct (Nat.ltb_spec i (s_pos s)); [split; [reflexivity | lia] | lia]. }
  { apply invR_nodes_for. assumption. }
  { intros i Hi. specialize (HL i Hi). lia. }
  rewrite Heq. unfold ht_clear. simpl in Hl1, Hl2. rewrite erase_below_length in Hl2.
  assert (Hs : settled s) by (intros e; congruence).
  split; [split|].
  - constructor; unfold hqi; simpl.
    + destruct S0 as [A1 A2 A3 A4]. constructor; simpl; auto.
      * intros i b [].
      * intros i nd b Hn Hcn. destruct (Hnf' i nd Hn) as [_ F]. rewrite (F (fun f => f)) in Hcn. discriminate.
    + assumption.
    + rewrite Hl1. assumption.
    + intros _. rewrite Hl2. apply RL. assumption.
    + assumption.
    + intros i nd Hn. destruct (Hnf' i nd Hn) as [_ F]. split; [intros [] | intros _ _; apply F; auto].
    + intros i Hx. discriminate.
    + constructor.
    + intros i [].
    + intros i [].
    + lia.
    + auto.
    + intros Hd. discriminate.
  - constructor; intros bl Hb Hst i Hi; simpl in Hb; unfold pend; simpl.
    + intros Hbit Hv. destruct (C2 bl Hb Hs i Hi Hbit Hv) as [Hr Hm]. split; [|reflexivity].
      apply Hr'. simpl. rewrite Ho in Hm. destruct Hm as [Hge|Hin]; [left | right; assumption].
      rewrite nth_erase_below. destruct (Nat.ltb_spec i (s_pos s)); [lia | assumption].
    + intros [Hr _]. apply (C9 bl Hb Hs i Hi). apply Hr' in Hr. simpl in Hr. unfold pend. rewrite Ho.
      destruct Hr as [Hr|Hin].
      * rewrite nth_erase_below in Hr. destruct (Nat.ltb_spec i (s_pos s)); [discriminate|]. split; auto.
      * split; [apply HRg; assumption | right; assumption].
  - unfold all_free. simpl. split; [exact Hnf'|]. split; [reflexivity|]. split; [reflexivity|]. split; [reflexivity|]. exact Hl1.
Qed.


(* ---------------------------------------------------------------- close *)
Lemma wrapper_close_inv s :
  invR None s ->
  inv None (wrapper_close s) /\ s_hq (wrapper_close s) = [] /\ s_out (wrapper_close s) = None /\
  s_delay (wrapper_close s) = false /\ s_nodes (wrapper_close s) = [] /\ s_open (wrapper_close s) = false /\
  s_bits (wrapper_close s) = None /\ s_pos (wrapper_close s) = 0.
Proof.
  intros HR. pose proof HR as [S0 I0 NL RL B ND X NDP HL HRg P O D].
  unfold wrapper_close, hq_remove_all. cbn [s_hq ht_clear set_delay set_errno set_pos set_out set_retry].
  destruct (fold_cleared_close (s_hq s) (set_hq (ht_clear s) [])) as (nd' & Heq & Hnf' & Hl1); simpl; auto.
  { apply invR_nodes_for. assumption. }
  { intros i Hi. specialize (HL i Hi). lia. }
  unfold ht_clear in *. rewrite Heq. cbn [s_open set_nodes set_hq set_delay set_errno set_pos set_out set_mem set_retry].
  simpl in Hl1.
  destruct (s_open s) eqn:Hop.
  - cbn [s_nodes set_bits set_files set_open set_nodes set_mem]. rewrite (existsb_busy_free nd' Hnf').
    split; [split|simpl; repeat split; auto].
    + constructor; unfold hqi; simpl.
      * destruct S0 as [A1 A2 A3 A4]. constructor; simpl.
        -- eapply files_le_trans; [exact A1 | apply close_files_le].
        -- intros i b [].
        -- intros [|i] nd b Hn; discriminate.
        -- discriminate.
      * assumption.
      * reflexivity.
      * discriminate.
      * discriminate.
      * intros [|i] nd Hn; discriminate.
      * discriminate.
      * constructor.
      * intros i [].
      * intros i [].
      * lia.
      * auto.
      * discriminate.
    + constructor; intros bl Hb; simpl in Hb; discriminate.
  - assert (Hnd : nd' = []) by (destruct nd'; [reflexivity | simpl in Hl1; rewrite NL in Hl1; discriminate]).
    subst nd'.
    assert (Hbn : s_bits s = None).
    { destruct (s_bits s) as [bl|] eqn:Hb; [|reflexivity]. destruct (B bl eq_refl) as [Hx _]. discriminate. }
    split; [split|simpl; repeat split; auto].
    + constructor; unfold hqi; simpl.
      * destruct S0 as [A1 A2 A3 A4]. constructor; simpl; auto.
        -- intros i b [].
        -- intros [|i] nd b Hn; discriminate.
      * assumption.
      * rewrite Hop. reflexivity.
      * rewrite Hop. discriminate.
      * rewrite Hbn; discriminate.
      * intros [|i] nd Hn; discriminate.
      * discriminate.
      * constructor.
      * intros i [].
      * intros i [].
      * lia.
      * auto.
      * discriminate.
    + constructor; intros bl Hb; simpl in Hb; rewrite Hbn in Hb; discriminate.
Qed.

(* ---------------------------------------------------------------- open *)
Lemma do_open_inv s : inv None s -> inv None (do_open pl s).
Proof.
  intros [HR HC]. pose proof HR as [S0 I0 NL RL B ND X NDP HL HRg P O D].
  unfold do_open. destruct (s_open s) eqn:Hop; [split; assumption|].
  assert (Hbn : s_bits s = None).
  { destruct (s_bits s) as [bl|] eqn:Hb; [|reflexivity]. destruct (B bl eq_refl) as [Hx _]. discriminate. }
  assert (Hon : s_out s = None).
  { destruct (s_out s) eqn:Ho; [|reflexivity]. destruct O as (_ & Hx & _). discriminate. }
  rewrite Hon in O. destruct O as [Hhq _].
  assert (Hp0 : s_pos s = 0) by lia.
  assert (Hle : files_le (s_files s) (queue_create (open_files (s_files s)))).
  { eapply files_le_trans; [apply open_files_le | apply queue_create_le]. }
  assert (Hn : npieces pl (open_files (s_files s)) = n).
  { symmetry. apply npieces_le. eapply files_le_trans; [exact (iS_files _ _ _ _ _ S0) | apply open_files_le]. }
  cbv zeta. rewrite Hn.
  split.
  - constructor; unfold hqi; simpl; rewrite ?Hhq; simpl.
    + destruct (invS_files H pl expected fs0 _ _ S0 Hle) as [A1 A2 A3 A4]. constructor; simpl in *.
      * exact A1.
      * exact A2.
      * intros i nd b Hni Hc. apply nth_error_In in Hni. apply repeat_spec in Hni. subst. discriminate.
      * exact A4.
    + assumption.
    + apply repeat_length.
    + intros _. apply repeat_length.
    + rewrite Hbn. discriminate.
    + intros i nd Hni. apply nth_error_In in Hni. apply repeat_spec in Hni. subst. split; [intros [] | reflexivity].
    + discriminate.
    + constructor.
    + intros i [].
    + intros i [].
    + lia.
    + rewrite Hon. split; [first [reflexivity | assumption] | left; assumption].
    + intros Hd. rewrite Hon. assumption.
  - constructor; intros bl Hb; simpl in Hb; rewrite Hbn in Hb; discriminate.
Qed.

End Ops.
