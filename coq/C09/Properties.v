(* C09 — property theorems. Statements only; proofs are in Proofs*.v. Each theorem is followed by
   Print Assumptions. Model: coq/C09/Model.v (tied to /repo by the correspondence check).
   H (SHA-1), pl (piece length) and expected (the torrent's piece hashes) are universally
   quantified; fs0 is ANY layout with ANY on-disk state; ops is ANY sequence of client calls
   (open / hash_check(quick or full) / hash_stop / close), scheduler ticks and hash-result
   deliveries in any order. *)
From Coq Require Import List NArith Bool Arith.
From LTV.C09 Require Import ParamsGen Model Proofs ProofsA ProofsB ProofsC ProofsE ProofsG ProofsH ProofsI ProofsJ.
Import ListNotations.

(* constants re-extracted from the source satisfy the side conditions *)
Theorem params_ok_now : Proofs.params_ok = true.
Proof. exact Proofs.params_ok_now. Qed.
Print Assumptions params_ok_now.

(* check_exact, direction "reported present => valid", at EVERY moment of EVERY history (not only
   after a completed check): a set bit is a piece whose every file window exists on the original
   disk and whose bytes hash to the torrent's value.
   No assumption on the client.  The converse (and hence the iff) is check_exact below. *)
Theorem check_exact_sound : forall H pl expected fs0 ops bl i,
  s_bits (run H pl expected ops (init fs0)) = Some bl ->
  nth i bl false = true ->
  valid H pl expected fs0 i = true.
Proof. exact ProofsC.check_sound. Qed.
Print Assumptions check_exact_sound.

Example check_exact_sound_nonvacuous :
  let fs0 := [fresh_file 3 false (Bytes [1;2;3]%N); fresh_file 2 false (Bytes [4;9]%N)] in
  let expected := fun i : nat => match i with O => [1;2]%N | 1 => [3;4]%N | _ => [5]%N end in
  s_bits (run (fun b => b) 2%N expected [OOpen; OCheck false; ORunAll] (init fs0)) = Some [true; true; false].
Proof. vm_compute. reflexivity. Qed.

(* what "valid" means, spelled out: valid fs i = true iff reading piece i's windows off the disk
   succeeds (each window's file is a regular file long enough, or padding) and H of those bytes
   equals the expected digest *)
Theorem valid_spec : forall H pl expected fs i,
  valid H pl expected fs i = true <->
  exists b, read_windows (piece_windows pl fs i) fs [] = Some b /\ bytes_eqb (H b) (expected i) = true.
Proof. exact ProofsC.valid_spec. Qed.
Print Assumptions valid_spec.

(* the digest the main thread compares is H of exactly the piece's on-disk bytes *)
Theorem queued_bytes_faithful : forall H pl expected fs0 ops i b,
  In (i, b) (s_hq (run H pl expected ops (init fs0))) -> piece_bytes pl fs0 i = Some b.
Proof. exact ProofsC.queued_bytes_faithful. Qed.
Print Assumptions queued_bytes_faithful.

(* check_readonly: after any history every file has its original size description and its original
   disk state, or it was absent (directory present) and has been created empty *)
Theorem check_readonly : forall H pl expected fs0 ops,
  Forall2 (fun f g => f_size f = f_size g /\ f_pad f = f_pad g /\
                      (f_disk f = f_disk g \/ (f_disk f = Absent /\ f_disk g = Bytes [])))
          fs0 (s_files (run H pl expected ops (init fs0))).
Proof. exact ProofsC.check_readonly. Qed.
Print Assumptions check_readonly.

Example check_readonly_nonvacuous :
  let fs0 := [fresh_file 3 false Absent; fresh_file 2 false (Bytes [4;9]%N)] in
  map f_disk (s_files (run (fun b => b) 2%N (fun _ => []) [OOpen; OCheck false; ORunAll] (init fs0)))
  = [Bytes []; Bytes [4;9]%N].
Proof. vm_compute. reflexivity. Qed.

(* ------------------------------------------------------------------------------------------
   The remaining theorems are about clients that do not call hash_check while the completion /
   error notification of a previous check is still waiting in the scheduler (explicit
   hypothesis [polite]: at every OCheck in the list, s_delay = false) and where the memory manager
   is not under pressure whenever pieces get queued (OLimit None at OCheck / ODeliver / ORunAll; no
   retry timer pending at OAdvance).  Everything else — order and number of deliveries, stop/close at
   any point, quick or full checks, re-opening, memory pressure switched on and off in between — is
   arbitrary.  Histories that queue pieces UNDER memory pressure (ENOMEM retry) are covered by the
   unconditional theorems (check_exact_sound, check_readonly, stop_erases_all_timers) and by the
   correspondence run. *)

(* no legal history raises an internal_error (the model's s_ierr covers every throw site of the
   modelled functions, including ChunkList::clear's "still referenced" and the fuel of queue()) *)
Theorem check_no_internal_error : forall H pl expected fs0 ops,
  polite H pl expected (init fs0) ops -> s_ierr (run H pl expected ops (init fs0)) = false.
Proof. exact ProofsH.check_no_internal_error. Qed.
Print Assumptions check_no_internal_error.

(* check_exact: after a completed check, bit i is set IF AND ONLY IF every file window of piece i
   exists on disk and the bytes hash to the torrent's value *)
Theorem check_exact : forall H pl expected fs0 ops bl i,
  polite H pl expected (init fs0) ops ->
  is_checked (run H pl expected ops (init fs0)) = true ->
  s_bits (run H pl expected ops (init fs0)) = Some bl -> i < npieces pl fs0 ->
  (nth i bl false = true <-> valid H pl expected fs0 i = true).
Proof. exact ProofsH.check_exact. Qed.
Print Assumptions check_exact.

Example check_exact_nonvacuous :
  let fs0 := [fresh_file 3 false (Bytes [1;2;3]%N); fresh_file 2 false (Bytes [4;9]%N)] in
  let expected := fun i : nat => match i with O => [1;2]%N | 1 => [3;4]%N | _ => [5]%N end in
  let ops := [OOpen; OCheck false; ODeliver 2; OStop; OCheck false; ORunAll] in
  polite (fun b => b) 2%N expected (init fs0) ops /\
  is_checked (run (fun b => b) 2%N expected ops (init fs0)) = true /\
  s_bits (run (fun b => b) 2%N expected ops (init fs0)) = Some [true; true; false].
Proof. vm_compute. repeat split; reflexivity. Qed.

(* stop_releases: hash_stop during a check leaves every chunk list node unmapped with reference and
   blocking count zero, nothing queued, no notification pending; close (in any state) leaves no
   chunk list at all; neither raises an internal error *)
Theorem stop_releases : forall H pl expected fs0 ops,
  polite H pl expected (init fs0) ops ->
  let s := run H pl expected ops (init fs0) in
  (is_checking s = true ->
     Forall (fun nd => nd = mkN None 0 0) (s_nodes (do_stop s)) /\ s_hq (do_stop s) = [] /\
     is_checking (do_stop s) = false /\ s_delay (do_stop s) = false /\ s_ierr (do_stop s) = false) /\
  (s_nodes (do_close s) = [] /\ s_hq (do_close s) = [] /\ is_checking (do_close s) = false /\
   s_delay (do_close s) = false /\ s_ierr (do_close s) = false /\ s_open (do_close s) = false).
Proof. exact ProofsH.stop_releases. Qed.
Print Assumptions stop_releases.

Example stop_releases_nonvacuous :
  let fs0 := [fresh_file 4 false (Bytes [1;2;3;4]%N)] in
  let ops := [OOpen; OCheck false] in
  let s := run (fun b => b) 2%N (fun _ => []) ops (init fs0) in
  polite (fun b => b) 2%N (fun _ => []) (init fs0) ops /\ is_checking s = true /\ length (s_hq s) = 2 /\
  map n_refs (s_nodes s) = [1; 1] /\ map n_refs (s_nodes (do_stop s)) = [0; 0] /\ s_ranges (do_stop s) = [true; true].
Proof. vm_compute. repeat split; reflexivity. Qed.

(* check_terminates: a full hash_check followed by "every queued piece is answered" (any number of
   rounds; measure size - position + outstanding strictly decreases with every delivery) always
   ends the check — completed or aborted with a storage error *)
Theorem check_terminates : forall H pl expected fs0 ops,
  polite H pl expected (init fs0) ops ->
  let s := run H pl expected ops (init fs0) in
  is_checking s = false -> s_delay s = false -> s_lim s = None ->
  let s1 := do_check pl false s in
  is_checking (run_all H pl expected (run_all_fuel s1) s1) = false.
Proof. exact ProofsH.check_terminates. Qed.
Print Assumptions check_terminates.

Example check_terminates_nonvacuous :
  let fs0 := [fresh_file 4 false (Bytes [1;2;3;4]%N); fresh_file 2 false Unreadable] in
  let s := run (fun b => b) 2%N (fun _ => []) [OOpen] (init fs0) in
  let s1 := do_check 2%N false s in
  is_checking s1 = true /\ s_storerr (run_all (fun b => b) 2%N (fun _ => []) (run_all_fuel s1) s1) = true.
Proof. vm_compute. split; reflexivity. Qed.

(* a legal call sequence answered with internal_error (confirmed on the implementation) for as long
   as HashTorrent::start does not erase a stale m_delay_checked (re-extracted from the source) *)
Theorem recheck_stale_delay_timer_refuted :
  (Params.c09_start_erases_delay =? 0)%N = true ->
  exists (fs : list fnode) (ops : list op),
    s_ierr (run (fun b => b) 1100%N (fun _ => []) ops (init fs)) = true.
Proof. exact ProofsC.recheck_stale_delay_timer_refuted. Qed.
Print Assumptions recheck_stale_delay_timer_refuted.

(* storage_error_sound ("... or a storage error"): unreadable files at ANY piece.  No wrong bit at any
   moment; in the aborted state the pending notification reports the storage error and closes the
   download completely; afterwards the torrent can be opened and checked again and that check
   terminates without an internal error. *)
Theorem storage_error_sound : forall H pl expected fs0 ops,
  polite H pl expected (init fs0) ops ->
  let s := run H pl expected ops (init fs0) in
  (forall bl i, s_bits s = Some bl -> nth i bl false = true -> valid H pl expected fs0 i = true) /\
  (s_delay s = true -> is_checking s = false -> s_lim s = None ->
     let s1 := do_tick s in
     s_storerr s1 = true /\ s_open s1 = false /\ s_bits s1 = None /\ s_nodes s1 = [] /\ s_hq s1 = [] /\
     s_ierr s1 = false /\
     let s2 := do_check pl false (do_open pl s1) in
     s_ierr s2 = false /\ is_checking (run_all H pl expected (run_all_fuel s2) s2) = false).
Proof. exact ProofsH.storage_error_sound. Qed.
Print Assumptions storage_error_sound.

Example storage_error_sound_nonvacuous :
  let fs0 := [fresh_file 2 false Absent; fresh_file 2 false Unreadable; fresh_file 2 false (Bytes [7;7]%N)] in
  let ops := [OOpen; OCheck false] in
  let s := run (fun b => b) 2%N (fun _ => []) ops (init fs0) in
  polite (fun b => b) 2%N (fun _ => []) (init fs0) ops /\ s_delay s = true /\ is_checking s = false /\
  s_errno s = true /\ s_storerr (do_tick s) = true.
Proof. vm_compute. repeat split; reflexivity. Qed.

(* stop_erases_all_timers: in ANY state, after hash_stop during a check and after close, neither the
   completion/error notification (m_delay_checked) nor the ENOMEM retry (m_delay_retry) is scheduled,
   and advancing the clock changes nothing: HashTorrent::queue cannot run on a stopped checker. *)
Theorem stop_erases_all_timers : forall pl s,
  (is_checking s = true -> s_delay (do_stop s) = false /\ s_retry (do_stop s) = false /\
                           do_advance pl (do_stop s) = do_stop s) /\
  (s_delay (do_close s) = false /\ s_retry (do_close s) = false /\ do_advance pl (do_close s) = do_close s).
Proof. exact ProofsH.stop_erases_all_timers. Qed.
Print Assumptions stop_erases_all_timers.

(* under memory pressure with nothing outstanding the check waits on the retry timer; stop erases it *)
Example stop_erases_all_timers_nonvacuous :
  let fs0 := [fresh_file 4 false (Bytes [1;2;3;4]%N)] in
  let s := run (fun b => b) 2%N (fun _ => []) [OOpen; OLimit (Some 0); OCheck false] (init fs0) in
  is_checking s = true /\ s_retry s = true /\ s_retry (do_stop s) = false /\
  s_ierr (run (fun b => b) 2%N (fun _ => []) [OOpen; OLimit (Some 0); OCheck false; OStop; OAdvance] (init fs0)) = false.
Proof. vm_compute. repeat split; reflexivity. Qed.

(* ------------------------------------------------------------------------------------------
   HashTorrent's bookkeeping (m_position, m_outstanding, the download's HashQueue nodes, ChunkList
   reference / blocking counts).  The correspondence run compares p (m_position), u (m_outstanding),
   hq (number of queued nodes), q (the queued piece indices in queue order) and nd (per-node
   references:blocking:mapped) with the real objects after every op. *)

(* queue_appends_ahead: ONE call of HashTorrent::queue, from ANY state with ANY fuel, quick or full: the hash queue
   only grows at its end, the pieces appended are strictly increasing and none lies below m_position as it was
   at the call (incr_from p l: l is strictly increasing and starts at or after p), and m_outstanding has grown
   by exactly the number of appended pieces unless the checker was cleared (I/O error). *)
Theorem queue_appends_ahead : forall pl fuel quick s,
  exists nw, s_hq (queue pl fuel quick s) = s_hq s ++ nw /\ incr_from (s_pos s) (map fst nw) /\
             (s_out (queue pl fuel quick s) = None \/
              out_val (queue pl fuel quick s) = out_val s + length nw).
Proof. exact ProofsI.queue_effect. Qed.
Print Assumptions queue_appends_ahead.

Example queue_appends_ahead_nonvacuous :
  let fs0 := [fresh_file 6 false (Bytes [1;2;3;4;5;6]%N)] in
  let s := set_out (set_bits (run (fun b => b) 2%N (fun _ => []) [OOpen] (init fs0)) (Some [false; false; false])) (Some 0) in
  map fst (s_hq (queue 2%N 4 false (set_pos s 1))) = [1; 2] /\ s_out (queue 2%N 4 false (set_pos s 1)) = Some 2 /\
  incr_from 1 [1; 2].
Proof. vm_compute. repeat split; auto. Qed.

(* deliver_queues_only_ahead: a hash result arriving in ANY state (receive_hash_done -> receive_chunkdone -> queue, then
   the notification if it is due): every piece queued afterwards was queued before or lies at or beyond the old
   m_position.  With queue_bookkeeping (everything queued lies below m_position) no piece is queued twice in one check. *)
Theorem deliver_queues_only_ahead : forall H pl expected s i j,
  In j (map fst (s_hq (do_deliver H pl expected s i))) -> In j (map fst (s_hq s)) \/ s_pos s <= j.
Proof. exact ProofsJ.deliver_queues_only_ahead. Qed.
Print Assumptions deliver_queues_only_ahead.

(* queue_bookkeeping: in every state of every polite history: the chunk list has exactly the torrent's piece count
   while open; m_position never passes it; the queued pieces are distinct, lie below m_position and are members of
   m_ranges; while checking m_outstanding equals the number of queued nodes (hence <= m_position <= piece count);
   when idle nothing is queued and m_position is 0 or the piece count. *)
Theorem queue_bookkeeping : forall H pl expected fs0 ops,
  polite H pl expected (init fs0) ops ->
  let s := run H pl expected ops (init fs0) in
  length (s_nodes s) = (if s_open s then npieces pl fs0 else 0) /\
  s_pos s <= length (s_nodes s) /\
  NoDup (map fst (s_hq s)) /\
  (forall i, In i (map fst (s_hq s)) -> i < s_pos s /\ nth i (s_ranges s) false = true) /\
  match s_out s with
  | Some k => k = length (s_hq s) /\ k <= s_pos s /\ s_open s = true
  | None => s_hq s = [] /\ (s_pos s = 0 \/ s_pos s = length (s_nodes s))
  end.
Proof. exact ProofsI.queue_bookkeeping. Qed.
Print Assumptions queue_bookkeeping.

Example queue_bookkeeping_nonvacuous :
  let fs0 := [fresh_file 6 false (Bytes [1;2;3;4;5;6]%N)] in
  let ops := [OOpen; OCheck false; ODeliver 1] in
  let s := run (fun b => b) 2%N (fun _ => []) ops (init fs0) in
  polite (fun b => b) 2%N (fun _ => []) (init fs0) ops /\ s_pos s = 3 /\ s_out s = Some 2 /\ map fst (s_hq s) = [0; 2].
Proof. vm_compute. repeat split; reflexivity. Qed.

(* chunk_refs_exact: in every state of every polite history a chunk list node is EITHER the node of a queued piece
   - mapped with exactly the piece's original on-disk bytes, one reference, one blocking reference -
   OR completely free (unmapped, no references): the check holds no other reference at any time. *)
Theorem chunk_refs_exact : forall H pl expected fs0 ops,
  polite H pl expected (init fs0) ops ->
  let s := run H pl expected ops (init fs0) in
  forall i nd, nth_error (s_nodes s) i = Some nd ->
    (In i (map fst (s_hq s)) -> exists b, nd = mkN (Some b) 1 1 /\ piece_bytes pl fs0 i = Some b) /\
    (~ In i (map fst (s_hq s)) -> nd = mkN None 0 0).
Proof. exact ProofsI.chunk_refs_exact. Qed.
Print Assumptions chunk_refs_exact.

Example chunk_refs_exact_nonvacuous :
  let fs0 := [fresh_file 6 false (Bytes [1;2;3;4;5;6]%N)] in
  let ops := [OOpen; OCheck false; ODeliver 1] in
  let s := run (fun b => b) 2%N (fun _ => []) ops (init fs0) in
  s_nodes s = [mkN (Some [1;2]%N) 1 1; mkN None 0 0; mkN (Some [5;6]%N) 1 1].
Proof. vm_compute. reflexivity. Qed.

(* outstanding_bounded: for EVERY op list (no assumption on the client): if the probe of the compiled code found
   HashTorrent::queue's throttle inside the probed range (fewer than c09_probe_pieces tiny pieces handed out at once),
   m_outstanding never exceeds that throttle.  For the present /repo the probe finds none (the source throttles at
   128 MiB of outstanding data), so the first disjunct holds now; then the bound is queue_bookkeeping's
   m_outstanding <= m_position <= piece count. *)
Theorem outstanding_bounded : forall H pl expected fs0 ops,
  (Params.c09_throttle_small <? Params.c09_probe_pieces)%N = false \/
  out_val (run H pl expected ops (init fs0)) <= N.to_nat Params.c09_throttle_small.
Proof. exact ProofsJ.outstanding_bounded_now. Qed.
Print Assumptions outstanding_bounded.
