(* C09 — property theorems. Statements only; proofs are in Proofs*.v. *)
From Coq Require Import List NArith Bool Arith.
From LTV.C09 Require Import Model Proofs.
Import ListNotations.

Theorem params_ok_now : Proofs.params_ok = true.
Proof. exact Proofs.params_ok_now. Qed.
Print Assumptions params_ok_now.
