(* C09 — proofs, part H: op lists of a client that lets the scheduler deliver a check's
   notification before it calls hash_check again; the final theorems. *)
From Coq Require Import List NArith Bool Arith Lia.
From LTV.C09 Require Import ParamsGen Model ProofsA ProofsB ProofsC ProofsD ProofsE ProofsF ProofsG.
Import ListNotations.

Section Top.
Variable H : list N -> list N.
Variable pl : N.
Variable expected : nat -> list N.

Notation step := (step H pl expected).
Notation run := (run H pl expected).

(* hash_check is not called while the completion/error notification of a previous check is
   still waiting in the scheduler *)
Fixpoint polite (s : st) (ops : list op) : Prop :=
  match ops with
  | [] => True
  | o :: r => (match o with OCheck _ => s_delay s = false | _ => True end) /\ polite (step s o) r
  end.

Section Fixed.
Variable fs0 : list fnode.
Notation n := (npieces pl fs0).
Notation inv := (inv H pl expected fs0 None).

Lemma not_checking_run_all fuel : forall s,
  inv s -> is_checking s = false ->
  inv (run_all H pl expected fuel s) /\ is_checking (run_all H pl expected fuel s) = false.
Proof.
  induction fuel as [|f IH]; intros s HI Hc; simpl; [auto|].
  assert (Hh : s_hq s = []).
  { destruct HI as [[_ _ _ _ _ _ _ _ _ _ _ O _] _]. unfold is_checking in Hc. destruct (s_out s); [discriminate | tauto]. }
  rewrite Hh. destruct (do_tick_inv H pl expected fs0 s HI) as (A & B & _). auto.
Qed.

Lemma run_all_inv fuel : forall s, inv s -> inv (run_all H pl expected fuel s).
Proof.
  induction fuel as [|f IH]; intros s HI; simpl; [auto|].
  destruct (s_hq s) as [|[i b] r].
  - apply (do_tick_inv H pl expected fs0 s HI).
  - apply IH. apply (do_deliver_inv H pl expected fs0 s i HI).
Qed.

Lemma run_all_terminates fuel : forall s,
  inv s -> live s -> meas s < fuel -> is_checking (run_all H pl expected fuel s) = false.
Proof.
  induction fuel as [|f IH]; intros s HI Hl Hm; [lia|]. simpl.
  destruct (s_hq s) as [|[i b] r] eqn:Hh.
  - destruct (do_tick_inv H pl expected fs0 s HI) as (_ & _ & C & _). apply C; auto.
  - destruct (do_deliver_inv H pl expected fs0 s i HI) as (A & _ & C).
    destruct C as [C|[C1 C2]]; auto.
    + unfold hqi. rewrite Hh. left; reflexivity.
    + apply not_checking_run_all; assumption.
    + apply IH; auto. lia.
Qed.

Lemma step_inv s o :
  inv s -> (match o with OCheck _ => s_delay s = false | _ => True end) -> inv (step s o).
Proof.
  intros HI Hp. destruct o; unfold Model.step.
  - apply do_open_inv; assumption.
  - apply do_check_inv; assumption.
  - apply do_deliver_inv; assumption.
  - destruct (is_checking s) eqn:Hc.
    + apply do_stop_inv; assumption.
    + unfold do_stop. rewrite Hc. assumption.
  - destruct HI as [HR _]. apply (wrapper_close_inv H pl expected fs0 s HR).
  - apply do_tick_inv; assumption.
  - apply run_all_inv; assumption.
Qed.

Lemma init_inv : inv (init fs0).
Proof.
  split.
  - constructor; unfold hqi; simpl.
    + apply init_S.
    + reflexivity.
    + reflexivity.
    + discriminate.
    + discriminate.
    + intros [|i] nd Hn; discriminate.
    + discriminate.
    + constructor.
    + intros i [].
    + intros i [].
    + auto.
    + auto.
    + discriminate.
  - constructor; intros bl Hb; discriminate.
Qed.

Lemma run_inv ops : forall s, inv s -> polite s ops -> inv (run ops s).
Proof.
  induction ops as [|o r IH]; intros s HI Hp; simpl; auto.
  destruct Hp as [Hp1 Hp2]. apply IH; [apply step_inv; assumption | assumption].
Qed.

(* ---------------------------------------------------------------- theorems *)
Theorem check_no_internal_error ops :
  polite (init fs0) ops -> s_ierr (run ops (init fs0)) = false.
Proof. intros Hp. destruct (run_inv ops _ init_inv Hp) as [HR _]. apply (r_ierr _ _ _ _ _ _ HR). Qed.

Theorem check_exact ops bl i :
  polite (init fs0) ops ->
  is_checked (run ops (init fs0)) = true ->
  s_bits (run ops (init fs0)) = Some bl -> i < n ->
  (nth i bl false = true <-> valid H pl expected fs0 i = true).
Proof.
  intros Hp Hc Hb Hi. split; [apply check_sound with (ops := ops); assumption|].
  intros Hv. pose proof (run_inv ops _ init_inv Hp) as [HR [C2 _]].
  set (s := run ops (init fs0)) in *.
  pose proof HR as [S0 I0 NL RL B ND X NDP HL HRg P O D].
  unfold is_checked, is_checking in Hc.
  destruct (s_out s) eqn:Ho; [rewrite !andb_false_r in Hc; discriminate|].
  rewrite andb_true_r in Hc. apply andb_true_iff in Hc. destruct Hc as [Hne Hpe]. apply Nat.eqb_eq in Hpe.
  assert (Hlen : length (s_nodes s) <> 0) by (destruct (s_nodes s); [discriminate | simpl; lia]).
  assert (Hst : settled s).
  { intros _. destruct (s_delay s) eqn:Hd; [|reflexivity]. specialize (D eq_refl). try rewrite Ho in D. lia. }
  destruct (nth i bl false) eqn:Hbit; [reflexivity|].
  rewrite (valid_le H pl expected _ _ i (iS_files _ _ _ _ _ S0)) in Hv.
  destruct (C2 bl Hb Hst i Hi Hbit Hv) as [_ Hm]. try rewrite Ho in Hm. lia.
Qed.

Theorem stop_releases ops :
  polite (init fs0) ops ->
  let s := run ops (init fs0) in
  (is_checking s = true ->
     Forall (fun nd => nd = free_node) (s_nodes (do_stop s)) /\ s_hq (do_stop s) = [] /\
     is_checking (do_stop s) = false /\ s_delay (do_stop s) = false /\ s_ierr (do_stop s) = false) /\
  (s_nodes (do_close s) = [] /\ s_hq (do_close s) = [] /\ is_checking (do_close s) = false /\
   s_delay (do_close s) = false /\ s_ierr (do_close s) = false /\ s_open (do_close s) = false).
Proof.
  intros Hp s. pose proof (run_inv ops _ init_inv Hp) as HI. fold s in HI. split.
  - intros Hc. destruct (do_stop_inv H pl expected fs0 s HI Hc) as (A & B & C & D & E & _).
    split; [|split; [assumption | split; [unfold is_checking; rewrite D; reflexivity | split; [assumption|]]]].
    + apply Forall_forall. intros nd Hin. apply In_nth_error in Hin. destruct Hin as [j Hj].
      destruct (B j nd Hj) as [_ F]. apply F. intros [].
    + destruct A as [AR _]. apply (r_ierr _ _ _ _ _ _ AR).
  - destruct HI as [HR _].
    destruct (wrapper_close_inv H pl expected fs0 s HR) as (A & A2 & A3 & A4 & A5 & A6 & A7 & A8).
    unfold do_close. unfold is_checking. rewrite A3. repeat split; auto.
    destruct A as [AR _]. apply (r_ierr _ _ _ _ _ _ AR).
Qed.

Theorem check_terminates ops :
  polite (init fs0) ops ->
  let s := run ops (init fs0) in
  is_checking s = false -> s_delay s = false ->
  let s1 := do_check pl false s in
  is_checking (run_all H pl expected (run_all_fuel s1) s1) = false.
Proof.
  intros Hp s Hc Hd s1. pose proof (run_inv ops _ init_inv Hp) as HI. fold s in HI.
  destruct (do_check_inv H pl expected fs0 false s HI Hd) as [HI1 Hl]. fold s1 in HI1, Hl.
  apply run_all_terminates; [assumption | apply Hl; auto | unfold run_all_fuel, meas; lia].
Qed.

Lemma cleared_one_storerr s i : s_storerr (cleared_one s i) = s_storerr s.
Proof.
  unfold cleared_one, chunk_release.
  repeat match goal with
         | |- context [if ?c then _ else _] => destruct c
         | |- context [match ?x with _ => _ end] => destruct x
         end; simpl; auto.
Qed.

Lemma wrapper_close_storerr s : s_storerr (wrapper_close s) = s_storerr s.
Proof.
  unfold wrapper_close.
  assert (Hf : forall (l : list (nat * list N)) t, s_storerr (fold_left (fun a e => cleared_one a (fst e)) l t) = s_storerr t).
  { induction l as [|e l IH]; intros t; simpl; auto. rewrite IH. apply cleared_one_storerr. }
  unfold hq_remove_all.
  destruct (s_open (fold_left (fun a e => cleared_one a (fst e)) (s_hq (ht_clear s)) (set_hq (ht_clear s) []))).
  - match goal with |- context [if ?c then _ else _] => destruct c end; simpl; rewrite Hf; reflexivity.
  - rewrite Hf. reflexivity.
Qed.

Lemma do_open_fields s : s_delay (do_open pl s) = s_delay s /\ s_out (do_open pl s) = s_out s.
Proof. unfold do_open. destruct (s_open s); simpl; auto. Qed.

(* "... or a storage error": when a file cannot be opened (errno other than ENOENT) at ANY piece, the
   check is aborted.  In that state — and at every other moment — no wrong bit is set; the pending
   notification then reports the storage error and closes the download completely (no bitfield, no
   chunk list, nothing queued, no internal error); after that the torrent can be opened and checked
   again, and that check terminates (completed, or aborted again if the file is still unreadable)
   without an internal error. *)
Theorem storage_error_sound ops :
  polite (init fs0) ops ->
  let s := run ops (init fs0) in
  (forall bl i, s_bits s = Some bl -> nth i bl false = true -> valid H pl expected fs0 i = true) /\
  (s_delay s = true -> is_checking s = false ->
     let s1 := do_tick s in
     s_storerr s1 = true /\ s_open s1 = false /\ s_bits s1 = None /\ s_nodes s1 = [] /\ s_hq s1 = [] /\
     s_ierr s1 = false /\
     let s2 := do_check pl false (do_open pl s1) in
     s_ierr s2 = false /\ is_checking (run_all H pl expected (run_all_fuel s2) s2) = false).
Proof.
  intros Hp s. split.
  { intros bl i Hb Hi. eapply check_sound; eauto. }
  intros Hd Hc s1.
  pose proof (run_inv ops _ init_inv Hp) as HI. fold s in HI.
  destruct HI as [HR HC].
  assert (Hs1 : s1 = wrapper_close (set_storerr (set_delay s false) true)).
  { unfold s1, do_tick. rewrite Hd. cbn [negb]. unfold is_checking in *. cbn [s_out set_delay].
    destruct (s_out s); [discriminate | reflexivity]. }
  assert (HR' : invR H pl expected fs0 None (set_storerr (set_delay s false) true)).
  { eapply invR_frame; eauto; simpl; discriminate. }
  destruct (wrapper_close_inv H pl expected fs0 _ HR') as (A & A2 & A3 & A4 & A5 & A6 & A7 & A8).
  rewrite <- Hs1 in *.
  assert (Hst : s_storerr s1 = true) by (rewrite Hs1, wrapper_close_storerr; reflexivity).
  assert (Hie : s_ierr s1 = false) by (destruct A as [AR _]; apply (r_ierr _ _ _ _ _ _ AR)).
  repeat (split; [assumption|]).
  intros s2.
  pose proof (do_open_inv H pl expected fs0 s1 A) as HIo.
  destruct (do_open_fields s1) as [Fd Fo].
  destruct (do_check_inv H pl expected fs0 false (do_open pl s1) HIo) as [HI2 Hl]; [rewrite Fd; assumption|].
  fold s2 in HI2, Hl. split.
  - destruct HI2 as [AR _]. apply (r_ierr _ _ _ _ _ _ AR).
  - apply (run_all_terminates (run_all_fuel s2) s2); [assumption| |unfold run_all_fuel, meas; lia].
    apply Hl; [reflexivity|]. unfold is_checking. rewrite Fo, A3. reflexivity.
Qed.

End Fixed.
End Top.
