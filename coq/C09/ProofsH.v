(* C09 — proofs, part H: op lists of a client that lets the scheduler deliver a check's
   notification before it calls hash_check again; the final theorems. *)
From Coq Require Import List NArith Bool Arith Lia.
From LTV.C09 Require Import ParamsGen Model ProofsA ProofsB ProofsC ProofsD ProofsE ProofsF ProofsG ProofsL.
Import ListNotations.

Section Top.
Variable H : list N -> list N.
Variable pl : N.
Variable expected : nat -> list N.

Notation step := (step H pl expected).
Notation run := (run H pl expected).

(* The client
     - does not call hash_check while the completion/error notification of a previous check is still
       waiting in the scheduler, and
     - the memory manager is not under pressure (OLimit None) whenever pieces get queued (hash_check,
       delivery of a hash result, run-all), and no retry timer is pending when the clock is advanced.
   Histories WITH memory pressure are covered by the unconditional theorems (check_exact_sound,
   check_readonly, stop_erases_all_timers) and by the correspondence run. *)
Definition step_ok (s : st) (o : op) : Prop :=
  match o with
  | OCheck _ => s_delay s = false /\ s_lim s = None
  | ODeliver _ | ORunAll => s_lim s = None
  | OAdvance => s_retry (do_tick s) = false
  | _ => True
  end.

Fixpoint polite (s : st) (ops : list op) : Prop :=
  match ops with
  | [] => True
  | o :: r => step_ok s o /\ polite (step s o) r
  end.

Section Fixed.
Variable fs0 : list fnode.
Notation n := (npieces pl fs0).
Notation inv := (inv H pl expected fs0 None).

Lemma not_checking_run_all fuel : forall s,
  inv s -> is_checking s = false ->
  inv (run_all H pl expected fuel s) /\ is_checking (run_all H pl expected fuel s) = false.
Proof.
  induction fuel as [|f IH]; intros s HI Hc; simpl; [auto|].
  assert (Hh : s_hq s = []).
  { destruct HI as [[_ _ _ _ _ _ _ _ _ _ _ O _] _]. unfold is_checking in Hc. destruct (s_out s); [discriminate | tauto]. }
  rewrite Hh. destruct (do_tick_inv H pl expected fs0 s HI) as (A & B & _). auto.
Qed.

Lemma run_all_inv fuel : forall s, inv s -> s_lim s = None -> inv (run_all H pl expected fuel s).
Proof.
  induction fuel as [|f IH]; intros s HI Hl; simpl; [auto|].
  destruct (s_hq s) as [|[i b] r].
  - apply (do_tick_inv H pl expected fs0 s HI).
  - apply IH; [apply (do_deliver_inv H pl expected fs0 s i HI Hl) | rewrite do_deliver_lim; assumption].
Qed.

Lemma run_all_terminates fuel : forall s,
  inv s -> s_lim s = None -> live s -> meas s < fuel -> is_checking (run_all H pl expected fuel s) = false.
Proof.
  induction fuel as [|f IH]; intros s HI Hlim Hl Hm; [lia|]. simpl.
  destruct (s_hq s) as [|[i b] r] eqn:Hh.
  - destruct (do_tick_inv H pl expected fs0 s HI) as (_ & _ & C & _). apply C; auto.
  - destruct (do_deliver_inv H pl expected fs0 s i HI Hlim) as (A & _ & C).
    destruct C as [C|[C1 C2]]; auto.
    + unfold hqi. rewrite Hh. left; reflexivity.
    + apply not_checking_run_all; assumption.
    + apply IH; auto; [rewrite do_deliver_lim; assumption | lia].
Qed.

Lemma inv_set_lim s l : inv s -> inv (set_lim s l).
Proof.
  intros [HR HC]. split.
  - eapply invR_frame; eauto.
  - eapply invC_same; eauto.
Qed.

Lemma step_inv s o : inv s -> step_ok s o -> inv (step s o).
Proof.
  intros HI Hp. destruct o; unfold Model.step; simpl in Hp.
  - apply do_open_inv; assumption.
  - destruct Hp as [Hd Hl]. apply do_check_inv; assumption.
  - apply do_deliver_inv; assumption.
  - destruct (is_checking s) eqn:Hc.
    + apply do_stop_inv; assumption.
    + unfold do_stop. rewrite Hc. assumption.
  - destruct HI as [HR _]. apply (wrapper_close_inv H pl expected fs0 s HR).
  - apply do_tick_inv; assumption.
  - apply run_all_inv; assumption.
  - apply inv_set_lim; assumption.
  - unfold do_advance, do_retry_fire. rewrite Hp. cbn [negb].
    apply do_tick_inv. apply do_tick_inv. assumption.
Qed.

Lemma init_inv : inv (init fs0).
Proof.
  split.
  - constructor; unfold hqi; simpl.
    + apply init_S.
    + reflexivity.
    + reflexivity.
    + discriminate.
    + discriminate.
    + intros [|i] nd Hn; discriminate.
    + discriminate.
    + constructor.
    + intros i [].
    + intros i [].
    + auto.
    + auto.
    + discriminate.
  - constructor; intros bl Hb; discriminate.
Qed.

Lemma run_inv ops : forall s, inv s -> polite s ops -> inv (run ops s).
Proof.
  induction ops as [|o r IH]; intros s HI Hp; simpl; auto.
  destruct Hp as [Hp1 Hp2]. apply IH; [apply step_inv; assumption | assumption].
Qed.

(* ---------------------------------------------------------------- theorems *)
Theorem check_no_internal_error ops :
  polite (init fs0) ops -> s_ierr (run ops (init fs0)) = false.
Proof. intros Hp. destruct (run_inv ops _ init_inv Hp) as [HR _]. apply (r_ierr _ _ _ _ _ _ HR). Qed.

Theorem check_exact ops bl i :
  polite (init fs0) ops ->
  is_checked (run ops (init fs0)) = true ->
  s_bits (run ops (init fs0)) = Some bl -> i < n ->
  (nth i bl false = true <-> valid H pl expected fs0 i = true).
Proof.
  intros Hp Hc Hb Hi. split; [apply check_sound with (ops := ops); assumption|].
  intros Hv. pose proof (run_inv ops _ init_inv Hp) as [HR [C2 _]].
  set (s := run ops (init fs0)) in *.
  pose proof HR as [S0 I0 NL RL B ND X NDP HL HRg P O D].
  unfold is_checked, is_checking in Hc.
  destruct (s_out s) eqn:Ho; [rewrite !andb_false_r in Hc; discriminate|].
  rewrite andb_true_r in Hc. apply andb_true_iff in Hc. destruct Hc as [Hne Hpe]. apply Nat.eqb_eq in Hpe.
  assert (Hlen : length (s_nodes s) <> 0) by (destruct (s_nodes s); [discriminate | simpl; lia]).
  assert (Hst : settled s).
  { intros _. destruct (s_delay s) eqn:Hd; [|reflexivity]. specialize (D eq_refl). try rewrite Ho in D. lia. }
  destruct (nth i bl false) eqn:Hbit; [reflexivity|].
  rewrite (valid_le H pl expected _ _ i (iS_files _ _ _ _ _ S0)) in Hv.
  destruct (C2 bl Hb Hst i Hi Hbit Hv) as [_ Hm]. try rewrite Ho in Hm. lia.
Qed.

Theorem stop_releases ops :
  polite (init fs0) ops ->
  let s := run ops (init fs0) in
  (is_checking s = true ->
     Forall (fun nd => nd = free_node) (s_nodes (do_stop s)) /\ s_hq (do_stop s) = [] /\
     is_checking (do_stop s) = false /\ s_delay (do_stop s) = false /\ s_ierr (do_stop s) = false) /\
  (s_nodes (do_close s) = [] /\ s_hq (do_close s) = [] /\ is_checking (do_close s) = false /\
   s_delay (do_close s) = false /\ s_ierr (do_close s) = false /\ s_open (do_close s) = false).
Proof.
  intros Hp s. pose proof (run_inv ops _ init_inv Hp) as HI. fold s in HI. split.
  - intros Hc. destruct (do_stop_inv H pl expected fs0 s HI Hc) as (A & B & C & D & E & _).
    split; [|split; [assumption | split; [unfold is_checking; rewrite D; reflexivity | split; [assumption|]]]].
    + apply Forall_forall. intros nd Hin. apply In_nth_error in Hin. destruct Hin as [j Hj].
      destruct (B j nd Hj) as [_ F]. apply F. intros [].
    + destruct A as [AR _]. apply (r_ierr _ _ _ _ _ _ AR).
  - destruct HI as [HR _].
    destruct (wrapper_close_inv H pl expected fs0 s HR) as (A & A2 & A3 & A4 & A5 & A6 & A7 & A8).
    unfold do_close. unfold is_checking. rewrite A3. repeat split; auto.
    destruct A as [AR _]. apply (r_ierr _ _ _ _ _ _ AR).
Qed.

Theorem check_terminates ops :
  polite (init fs0) ops ->
  let s := run ops (init fs0) in
  is_checking s = false -> s_delay s = false -> s_lim s = None ->
  let s1 := do_check pl false s in
  is_checking (run_all H pl expected (run_all_fuel s1) s1) = false.
Proof.
  intros Hp s Hc Hd Hlim s1. pose proof (run_inv ops _ init_inv Hp) as HI. fold s in HI.
  destruct (do_check_inv H pl expected fs0 false s HI Hd Hlim) as [HI1 Hl]. fold s1 in HI1, Hl.
  apply run_all_terminates; [assumption | unfold s1; rewrite do_check_lim; assumption | apply Hl; auto | unfold run_all_fuel, meas; lia].
Qed.

Lemma cleared_one_storerr s i : s_storerr (cleared_one s i) = s_storerr s.
Proof.
  unfold cleared_one, chunk_release.
  repeat match goal with
         | |- context [if ?c then _ else _] => destruct c
         | |- context [match ?x with _ => _ end] => destruct x
         end; simpl; auto.
Qed.

Lemma wrapper_close_storerr s : s_storerr (wrapper_close s) = s_storerr s.
Proof.
  unfold wrapper_close.
  assert (Hf : forall (l : list (nat * list N)) t, s_storerr (fold_left (fun a e => cleared_one a (fst e)) l t) = s_storerr t).
  { induction l as [|e l IH]; intros t; simpl; auto. rewrite IH. apply cleared_one_storerr. }
  unfold hq_remove_all.
  destruct (s_open (fold_left (fun a e => cleared_one a (fst e)) (s_hq (ht_clear s)) (set_hq (ht_clear s) []))).
  - match goal with |- context [if ?c then _ else _] => destruct c end; simpl; rewrite Hf; reflexivity.
  - rewrite Hf. reflexivity.
Qed.

Lemma do_open_fields s : s_delay (do_open pl s) = s_delay s /\ s_out (do_open pl s) = s_out s.
Proof. unfold do_open. destruct (s_open s); simpl; auto. Qed.

(* "... or a storage error": when a file cannot be opened (errno other than ENOENT) at ANY piece, the
   check is aborted.  In that state — and at every other moment — no wrong bit is set; the pending
   notification then reports the storage error and closes the download completely (no bitfield, no
   chunk list, nothing queued, no internal error); after that the torrent can be opened and checked
   again, and that check terminates (completed, or aborted again if the file is still unreadable)
   without an internal error. *)
Theorem storage_error_sound ops :
  polite (init fs0) ops ->
  let s := run ops (init fs0) in
  (forall bl i, s_bits s = Some bl -> nth i bl false = true -> valid H pl expected fs0 i = true) /\
  (s_delay s = true -> is_checking s = false -> s_lim s = None ->
     let s1 := do_tick s in
     s_storerr s1 = true /\ s_open s1 = false /\ s_bits s1 = None /\ s_nodes s1 = [] /\ s_hq s1 = [] /\
     s_ierr s1 = false /\
     let s2 := do_check pl false (do_open pl s1) in
     s_ierr s2 = false /\ is_checking (run_all H pl expected (run_all_fuel s2) s2) = false).
Proof.
  intros Hp s. split.
  { intros bl i Hb Hi. eapply check_sound; eauto. }
  intros Hd Hc Hlim s1.
  pose proof (run_inv ops _ init_inv Hp) as HI. fold s in HI.
  destruct HI as [HR HC].
  assert (Hs1 : s1 = wrapper_close (set_storerr (set_delay s false) true)).
  { unfold s1, do_tick. rewrite Hd. cbn [negb]. unfold is_checking in *. cbn [s_out set_delay].
    destruct (s_out s); [discriminate | reflexivity]. }
  assert (HR' : invR H pl expected fs0 None (set_storerr (set_delay s false) true)).
  { eapply invR_frame; eauto; simpl; discriminate. }
  destruct (wrapper_close_inv H pl expected fs0 _ HR') as (A & A2 & A3 & A4 & A5 & A6 & A7 & A8).
  rewrite <- Hs1 in *.
  assert (Hst : s_storerr s1 = true) by (rewrite Hs1, wrapper_close_storerr; reflexivity).
  assert (Hie : s_ierr s1 = false) by (destruct A as [AR _]; apply (r_ierr _ _ _ _ _ _ AR)).
  repeat (split; [assumption|]).
  intros s2.
  pose proof (do_open_inv H pl expected fs0 s1 A) as HIo.
  destruct (do_open_fields s1) as [Fd Fo].
  assert (Hlim2 : s_lim (do_open pl s1) = None) by (rewrite do_open_lim, Hs1, wrapper_close_lim; simpl; assumption).
  destruct (do_check_inv H pl expected fs0 false (do_open pl s1) HIo) as [HI2 Hl]; [rewrite Fd; assumption | assumption|].
  fold s2 in HI2, Hl. split.
  - destruct HI2 as [AR _]. apply (r_ierr _ _ _ _ _ _ AR).
  - apply (run_all_terminates (run_all_fuel s2) s2); [assumption | unfold s2; rewrite do_check_lim; assumption | |unfold run_all_fuel, meas; lia].
    apply Hl; [reflexivity|]. unfold is_checking. rewrite Fo, A3. reflexivity.
Qed.

End Fixed.

(* stop_erases_all_timers: in ANY state (no assumption on the history, memory pressure included), after
   hash_stop during a check and after close, neither the completion/error notification (m_delay_checked)
   nor the ENOMEM retry (m_delay_retry) is scheduled any more — so advancing the clock afterwards cannot
   run HashTorrent::queue on a checker that is not running. *)
Lemma cleared_one_timers s i :
  s_delay (cleared_one s i) = s_delay s /\ s_retry (cleared_one s i) = s_retry s.
Proof.
  unfold cleared_one, chunk_release.
  repeat match goal with
         | |- context [if ?c then _ else _] => destruct c
         | |- context [match ?x with _ => _ end] => destruct x
         end; simpl; auto.
Qed.

Lemma fold_cleared_timers (l : list (nat * list N)) : forall s,
  s_delay (fold_left (fun a e => cleared_one a (fst e)) l s) = s_delay s /\
  s_retry (fold_left (fun a e => cleared_one a (fst e)) l s) = s_retry s.
Proof.
  induction l as [|e l IH]; intros s; simpl; auto.
  destruct (IH (cleared_one s (fst e))) as [A B]. destruct (cleared_one_timers s (fst e)) as [C D].
  split; congruence.
Qed.

Theorem stop_erases_all_timers s :
  (is_checking s = true -> s_delay (do_stop s) = false /\ s_retry (do_stop s) = false /\
                           do_advance pl (do_stop s) = do_stop s) /\
  (s_delay (do_close s) = false /\ s_retry (do_close s) = false /\ do_advance pl (do_close s) = do_close s).
Proof.
  assert (Hadv : forall t, s_delay t = false -> s_retry t = false -> do_advance pl t = t).
  { intros t Hd Hr. unfold do_advance, do_retry_fire, do_tick. rewrite Hd. cbn [negb]. rewrite Hr. cbn [negb]. rewrite Hd. reflexivity. }
  split.
  - intros Hc. assert (Hd : s_delay (do_stop s) = false /\ s_retry (do_stop s) = false).
    { unfold do_stop. rewrite Hc. cbn [negb]. unfold ht_clear. simpl. auto. }
    destruct Hd as [Hd Hr]. repeat split; auto.
  - assert (Hd : s_delay (do_close s) = false /\ s_retry (do_close s) = false).
    { unfold do_close, wrapper_close, hq_remove_all.
      destruct (fold_cleared_timers (s_hq (ht_clear s)) (set_hq (ht_clear s) [])) as [A B].
      destruct (s_open (fold_left (fun a e => cleared_one a (fst e)) (s_hq (ht_clear s)) (set_hq (ht_clear s) []))).
      - match goal with |- context [if ?c then _ else _] => destruct c end;
          cbn [s_delay s_retry set_nodes set_ierr set_bits set_files set_open]; rewrite A, B; simpl; auto.
      - rewrite A, B. simpl. auto. }
    destruct Hd as [Hd Hr]. repeat split; auto.
Qed.

End Top.
