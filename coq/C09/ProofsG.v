(* C09 — proofs, part G: hash_check, the scheduler tick, delivery of a hash result. *)
From Coq Require Import List NArith Bool Arith Lia.
From LTV.C09 Require Import ParamsGen Model ProofsA ProofsB ProofsD ProofsE ProofsF.
Import ListNotations.

Section Ops2.
Variable H : list N -> list N.
Variable pl : N.
Variable expected : nat -> list N.
Variable fs0 : list fnode.

Notation n := (npieces pl fs0).
Notation inv := (inv H pl expected fs0).
Notation invR := (invR H pl expected fs0).
Notation invC := (invC H pl expected fs0).
Notation valid := (valid H pl expected).

(* nothing outstanding in a running full check => its completion is scheduled *)
Definition live (s : st) : Prop := s_out s <> None -> s_hq s = [] -> s_delay s = true.

Definition started (s : st) (bl' rg' : list bool) : st :=
  set_out (set_delay (set_ranges (set_bits s (Some bl')) rg') false) (Some 0).

Lemma check_start_inv s bl' rg' :
  inv None s -> s_out s = None -> s_pos s = 0 -> s_open s = true ->
  length bl' = n -> length rg' = n ->
  (forall i, nth i bl' false = true -> valid (s_files s) i = true) ->
  (forall i, i < n -> nth i bl' false = false -> valid (s_files s) i = true -> nth i rg' false = true) ->
  (forall i, i < n -> nth i rg' false = true -> nth i bl' false = false) ->
  inv None (started s bl' rg').
Proof.
  intros [HR HC] Ho Hp Hop Hlb Hlr Hsound Hc2 Hc9.
  pose proof HR as [S0 I0 NL RL B ND X NDP HL HRg P O D].
  rewrite Ho in O. destruct O as [Hhq _]. unfold started. split.
  - constructor; unfold hqi; simpl; rewrite ?Hhq; simpl.
    + destruct S0 as [A1 A2 A3 A4]. constructor; simpl.
      * exact A1.
      * exact A2.
      * exact A3.
      * intros bl Hb i Hi. inversion Hb; subst. auto.
    + assumption.
    + assumption.
    + intros _. assumption.
    + intros bl Hb. inversion Hb; subst. auto.
    + intros i nd Hn. destruct (ND i nd Hn) as [_ F]. unfold hqi in F. rewrite Hhq in F. split; [intros [] | assumption].
    + discriminate.
    + constructor.
    + intros i [].
    + intros i [].
    + lia.
    + repeat split; auto. discriminate.
    + discriminate.
  - constructor; intros bl Hb Hs i Hi; simpl in Hb; inversion Hb; subst; unfold pend; simpl.
    + intros Hbit Hv. split; [auto | left; lia].
    + intros [Hr _]. auto.
Qed.

Lemma do_check_inv q s :
  inv None s -> s_delay s = false ->
  inv None (do_check pl q s) /\ (q = false -> is_checking s = false -> live (do_check pl q s)).
Proof.
  intros HI Hd. pose proof HI as [HR [C2 C9]].
  pose proof HR as [S0 I0 NL RL B ND X NDP HL HRg P O D].
  unfold do_check.
  destruct (is_checking s) eqn:Hck; [split; [assumption | intros _ Hx; discriminate]|].
  destruct (s_open s) eqn:Hop; cbn [negb orb]; [|split; [assumption|]].
  2:{ intros _ _ Hne. unfold is_checking in Hck. destruct (s_out s); [discriminate | contradiction]. }
  destruct (is_checked s) eqn:Hcd; [split; [assumption|]|].
  { intros _ _ Hne. unfold is_checking in Hck. destruct (s_out s); [discriminate | contradiction]. }
  unfold is_checking in Hck. destruct (s_out s) as [k|] eqn:Ho; [discriminate|].
  destruct O as [Hhq Hpos].
  simpl in NL. specialize (RL eq_refl).
  assert (Hsett : settled s) by (intros _; assumption).
  (* what hash_check does to bitfield and ranges *)
  assert (Hex : exists bl' rg',
    (match s_bits s with
     | None => set_ranges (set_bits s (Some (repeat false (length (s_nodes s))))) (all_true (length (s_nodes s)))
     | Some b => if q then s else set_bits s (Some (unset_ranges b (s_ranges s)))
     end) = set_ranges (set_bits s (Some bl')) rg' /\
    length bl' = n /\ length rg' = n /\
    (forall i, nth i bl' false = true -> valid (s_files s) i = true) /\
    (forall i, i < n -> nth i bl' false = false -> valid (s_files s) i = true -> nth i rg' false = true) /\
    (forall i, i < n -> nth i rg' false = true -> nth i bl' false = false)).
  { destruct (s_bits s) as [b|] eqn:Hb.
    - destruct (B b eq_refl) as [_ Hlb].
      assert (Hold2 : forall i, i < n -> nth i b false = false -> valid (s_files s) i = true -> nth i (s_ranges s) false = true).
      { intros i Hi Hbit Hv. destruct (C2 b eq_refl Hsett i Hi Hbit Hv) as [Hr _]. exact Hr. }
      assert (Hold9 : forall i, i < n -> nth i (s_ranges s) false = true -> s_pos s = 0 -> nth i b false = false).
      { intros i Hi Hr Hp0. apply (C9 b eq_refl Hsett i Hi). unfold pend. rewrite Ho. auto. }
      destruct q.
      + exists b, (s_ranges s). split; [apply st_ext; simpl; auto|]. repeat split; auto.
        * intros i Hi. eapply iS_bits; eauto.
        * intros i Hi Hr. destruct Hpos as [Hp0|Hpl]; [auto|].
          (* pos = length nodes and not checked: no pieces *)
          unfold is_checked, is_checking in Hcd. rewrite Ho, Hpl, Nat.eqb_refl in Hcd. simpl in Hcd.
          destruct (s_nodes s); [simpl in NL; lia | discriminate].
      + exists (unset_ranges b (s_ranges s)), (s_ranges s). split; [apply st_ext; simpl; auto|].
        split; [rewrite unset_ranges_length; assumption|]. split; [assumption|]. repeat split.
        * intros i Hi. apply nth_unset_ranges in Hi. eapply iS_bits; eauto.
        * intros i Hi Hbit Hv. rewrite nth_unset_ranges_eq in Hbit by congruence.
          destruct (nth i (s_ranges s) false) eqn:Hr; [reflexivity|].
          rewrite andb_true_r in Hbit. rewrite <- Hr. apply Hold2; assumption.
        * intros i Hi Hr. rewrite nth_unset_ranges_eq by congruence. rewrite Hr. apply andb_false_r.
    - exists (repeat false (length (s_nodes s))), (all_true (length (s_nodes s))).
      split; [reflexivity|]. unfold all_true. rewrite !repeat_length. repeat split; auto.
      + intros i Hi. rewrite nth_repeat_false in Hi. discriminate.
      + intros i Hi _ _. apply nth_repeat_true. lia.
      + intros i Hi _. apply nth_repeat_false. }
  destruct Hex as (bl' & rg' & Heq & Hlb & Hlr & Hsound & Hc2 & Hc9).
  cbv zeta. rewrite Heq. cbn [s_pos set_ranges set_bits].
  destruct (Nat.eqb_spec (s_pos s) (length (s_nodes s))) as [Hpe|Hpne].
  - (* nothing to check: only possible without pieces *)
    assert (Hn0 : n = 0).
    { unfold is_checked, is_checking in Hcd. rewrite Ho, Hpe, Nat.eqb_refl in Hcd. simpl in Hcd.
      destruct (s_nodes s); [simpl in NL; lia | discriminate]. }
    split.
    + split.
      * constructor; simpl.
        -- destruct S0 as [A1 A2 A3 A4]. constructor; simpl; auto. intros bl Hb i Hi. inversion Hb; subst. auto.
        -- assumption.
        -- rewrite Hop. assumption.
        -- intros _. assumption.
        -- intros bl Hb. inversion Hb; subst. auto.
        -- exact ND.
        -- exact X.
        -- exact NDP.
        -- exact HL.
        -- unfold hqi; simpl; rewrite Hhq. intros i [].
        -- exact P.
        -- rewrite Ho. split; assumption.
        -- intros Hd'. congruence.
      * constructor; intros bl Hb Hs i Hi; lia.
    + intros _ _ Hne. simpl in Hne. rewrite Ho in Hne. contradiction.
  - assert (Hp0 : s_pos s = 0) by (destruct Hpos; [assumption | contradiction]).
    rewrite Hp0. cbn [Nat.eqb negb orb].
    destruct (Nat.eqb_spec (length (s_nodes s)) 0) as [Hl0|Hl0]; [lia|].
    match goal with |- context [queue pl ?f q ?t] =>
      replace t with (started s bl' rg')
        by (unfold started; destruct (0 <? Params.c09_start_erases_delay)%N; apply st_ext; simpl; auto);
      replace f with (S (length (s_nodes s)))
        by (unfold queue_fuel; destruct (0 <? Params.c09_start_erases_delay)%N; simpl; rewrite Hp0; lia)
    end.
    assert (HIs : inv None (started s bl' rg')) by (apply check_start_inv; auto).
    destruct (queue_inv H pl expected fs0 (S (length (s_nodes s))) q None (started s bl' rg') 0 HIs)
      as (A & B1 & C & D1); simpl; auto; try discriminate; try lia.
    split; [assumption|]. intros Hq _. unfold live. intros Hne Hh. apply D1; assumption.
Qed.

End Ops2.
