(* C09 — proofs, part G: hash_check, the scheduler tick, delivery of a hash result. *)
From Coq Require Import List NArith Bool Arith Lia.
From LTV.C09 Require Import ParamsGen Model ProofsA ProofsB ProofsD ProofsE ProofsF.
Import ListNotations.

Section Ops2.
Variable H : list N -> list N.
Variable pl : N.
Variable expected : nat -> list N.
Variable fs0 : list fnode.

Notation n := (npieces pl fs0).
Notation inv := (inv H pl expected fs0).
Notation invR := (invR H pl expected fs0).
Notation invC := (invC H pl expected fs0).
Notation valid := (valid H pl expected).

(* nothing outstanding in a running full check => its completion is scheduled *)
Definition live (s : st) : Prop := s_out s <> None -> s_hq s = [] -> s_delay s = true.

Definition started (s : st) (bl' rg' : list bool) : st :=
  set_out (set_delay (set_ranges (set_bits s (Some bl')) rg') false) (Some 0).

Lemma check_start_inv s bl' rg' :
  inv None s -> s_out s = None -> s_pos s = 0 -> s_open s = true ->
  length bl' = n -> length rg' = n ->
  (forall i, nth i bl' false = true -> valid (s_files s) i = true) ->
  (forall i, i < n -> nth i bl' false = false -> valid (s_files s) i = true -> nth i rg' false = true) ->
  (forall i, i < n -> nth i rg' false = true -> nth i bl' false = false) ->
  inv None (started s bl' rg').
Proof.
  intros [HR HC] Ho Hp Hop Hlb Hlr Hsound Hc2 Hc9.
  pose proof HR as [S0 I0 NL RL B ND X NDP HL HRg P O D].
  rewrite Ho in O. destruct O as [Hhq _]. unfold started. split.
  - constructor; unfold hqi; simpl; rewrite ?Hhq; simpl.
    + destruct S0 as [A1 A2 A3 A4]. constructor; simpl.
      * exact A1.
      * exact A2.
      * exact A3.
      * intros bl Hb i Hi. inversion Hb; subst. auto.
    + assumption.
    + assumption.
    + intros _. assumption.
    + intros bl Hb. inversion Hb; subst. auto.
    + intros i nd Hn. destruct (ND i nd Hn) as [_ F]. unfold hqi in F. rewrite Hhq in F. split; [intros [] | assumption].
    + discriminate.
    + constructor.
    + intros i [].
    + intros i [].
    + lia.
    + repeat split; auto. discriminate.
    + discriminate.
  - constructor; intros bl Hb Hs i Hi; simpl in Hb; inversion Hb; subst; unfold pend; simpl.
    + intros Hbit Hv. split; [auto | left; lia].
    + intros [Hr _]. auto.
Qed.

Lemma do_check_inv q s :
  inv None s -> s_delay s = false -> s_lim s = None ->
  inv None (do_check pl q s) /\ (q = false -> is_checking s = false -> live (do_check pl q s)).
Proof.
  intros HI Hd Hlim. pose proof HI as [HR [C2 C9]].
  pose proof HR as [S0 I0 NL RL B ND X NDP HL HRg P O D].
  unfold do_check.
  destruct (is_checking s) eqn:Hck; [split; [assumption | intros _ Hx; discriminate]|].
  destruct (s_open s) eqn:Hop; cbn [negb orb]; [|split; [assumption|]].
  2:{ intros _ _ Hne. unfold is_checking in Hck. destruct (s_out s); [discriminate | contradiction]. }
  destruct (is_checked s) eqn:Hcd; [split; [assumption|]|].
  { intros _ _ Hne. unfold is_checking in Hck. destruct (s_out s); [discriminate | contradiction]. }
  unfold is_checking in Hck. destruct (s_out s) as [k|] eqn:Ho; [discriminate|].
  destruct O as [Hhq Hpos].
  simpl in NL. specialize (RL eq_refl).
  assert (Hsett : settled s) by (intros _; assumption).
  (* what hash_check does to bitfield and ranges *)
  assert (Hex : exists bl' rg',
    (match s_bits s with
     | None => set_ranges (set_bits s (Some (repeat false (length (s_nodes s))))) (all_true (length (s_nodes s)))
     | Some b => if q then s else set_bits s (Some (unset_ranges b (s_ranges s)))
     end) = set_ranges (set_bits s (Some bl')) rg' /\
    length bl' = n /\ length rg' = n /\
    (forall i, nth i bl' false = true -> valid (s_files s) i = true) /\
    (forall i, i < n -> nth i bl' false = false -> valid (s_files s) i = true -> nth i rg' false = true) /\
    (forall i, i < n -> nth i rg' false = true -> nth i bl' false = false)).
  { destruct (s_bits s) as [b|] eqn:Hb.
    - destruct (B b eq_refl) as [_ Hlb].
      assert (Hold2 : forall i, i < n -> nth i b false = false -> valid (s_files s) i = true -> nth i (s_ranges s) false = true).
      { intros i Hi Hbit Hv. destruct (C2 b eq_refl Hsett i Hi Hbit Hv) as [Hr _]. exact Hr. }
      assert (Hold9 : forall i, i < n -> nth i (s_ranges s) false = true -> s_pos s = 0 -> nth i b false = false).
      { intros i Hi Hr Hp0. apply (C9 b eq_refl Hsett i Hi). unfold pend. rewrite Ho. auto. }
      destruct q.
      + exists b, (s_ranges s). split; [apply st_ext; simpl; auto|]. repeat split; auto.
        * intros i Hi. eapply iS_bits; eauto.
        * intros i Hi Hr. destruct Hpos as [Hp0|Hpl]; [auto|].
          (* pos = length nodes and not checked: no pieces *)
          unfold is_checked, is_checking in Hcd. rewrite Ho, Hpl, Nat.eqb_refl in Hcd. simpl in Hcd.
          destruct (s_nodes s); [simpl in NL; lia | discriminate].
      + exists (unset_ranges b (s_ranges s)), (s_ranges s). split; [apply st_ext; simpl; auto|].
        split; [rewrite unset_ranges_length; assumption|]. split; [assumption|]. repeat split.
        * intros i Hi. apply nth_unset_ranges in Hi. eapply iS_bits; eauto.
        * intros i Hi Hbit Hv. rewrite nth_unset_ranges_eq in Hbit by congruence.
          destruct (nth i (s_ranges s) false) eqn:Hr; [reflexivity|].
          rewrite andb_true_r in Hbit. rewrite <- Hr. apply Hold2; assumption.
        * intros i Hi Hr. rewrite nth_unset_ranges_eq by congruence. rewrite Hr. apply andb_false_r.
    - exists (repeat false (length (s_nodes s))), (all_true (length (s_nodes s))).
      split; [reflexivity|]. unfold all_true. rewrite !repeat_length. repeat split; auto.
      + intros i Hi. rewrite nth_repeat_false in Hi. discriminate.
      + intros i Hi _ _. apply nth_repeat_true. lia.
      + intros i Hi _. apply nth_repeat_false. }
  destruct Hex as (bl' & rg' & Heq & Hlb & Hlr & Hsound & Hc2 & Hc9).
  cbv zeta. rewrite Heq. cbn [s_pos set_ranges set_bits].
  destruct (Nat.eqb_spec (s_pos s) (length (s_nodes s))) as [Hpe|Hpne].
  - (* nothing to check: only possible without pieces *)
    assert (Hn0 : n = 0).
    { unfold is_checked, is_checking in Hcd. rewrite Ho, Hpe, Nat.eqb_refl in Hcd. simpl in Hcd.
      destruct (s_nodes s); [simpl in NL; lia | discriminate]. }
    split.
    + split.
      * constructor; simpl.
        -- destruct S0 as [A1 A2 A3 A4]. constructor; simpl; auto. intros bl Hb i Hi. inversion Hb; subst. auto.
        -- assumption.
        -- rewrite Hop. assumption.
        -- intros _. assumption.
        -- intros bl Hb. inversion Hb; subst. auto.
        -- exact ND.
        -- exact X.
        -- exact NDP.
        -- exact HL.
        -- unfold hqi; simpl; rewrite Hhq. intros i [].
        -- exact P.
        -- rewrite Ho. split; assumption.
        -- intros Hd'. congruence.
      * constructor; intros bl Hb Hs i Hi; lia.
    + intros _ _ Hne. simpl in Hne. rewrite Ho in Hne. contradiction.
  - assert (Hp0 : s_pos s = 0) by (destruct Hpos; [assumption | contradiction]).
    rewrite Hp0. cbn [Nat.eqb negb orb].
    destruct (Nat.eqb_spec (length (s_nodes s)) 0) as [Hl0|Hl0]; [lia|].
    match goal with |- context [queue pl ?f q ?t] =>
      replace t with (started s bl' rg')
        by (unfold started; destruct (0 <? Params.c09_start_erases_delay)%N; apply st_ext; simpl; auto);
      replace f with (S (length (s_nodes s)))
        by (unfold queue_fuel; destruct (0 <? Params.c09_start_erases_delay)%N; simpl; rewrite Hp0; lia)
    end.
    assert (HIs : inv None (started s bl' rg')) by (apply check_start_inv; auto).
    destruct (queue_inv H pl expected fs0 (S (length (s_nodes s))) q None (started s bl' rg') 0 HIs)
      as (A & B1 & C & D1); simpl; auto; try discriminate; try lia.
    split; [assumption|]. intros Hq _. unfold live. intros Hne Hh. apply D1; assumption.
Qed.


Lemma invR_frame x s s' :
  invR x s -> s_open s' = s_open s -> s_files s' = s_files s -> s_bits s' = s_bits s ->
  s_ranges s' = s_ranges s -> s_pos s' = s_pos s -> s_out s' = s_out s -> s_hq s' = s_hq s ->
  s_nodes s' = s_nodes s -> s_ierr s' = s_ierr s -> (s_delay s' = true -> s_delay s = true) ->
  invR x s'.
Proof.
  intros [S0 I0 NL RL B ND X NDP HL HRg P O D] E1 E2 E3 E4 E5 E6 E7 E8 E9 E10.
  constructor; unfold hqi in *; rewrite ?E1, ?E2, ?E3, ?E4, ?E5, ?E6, ?E7, ?E8, ?E9; auto;
    try (eapply invS_same; eauto; fail); try (intros Hd'; apply D; auto; fail).
Qed.

(* ---------------------------------------------------------------- scheduler tick *)
Lemma do_tick_inv s :
  inv None s ->
  inv None (do_tick s) /\
  (is_checking s = false -> is_checking (do_tick s) = false) /\
  (s_hq s = [] -> live s -> is_checking (do_tick s) = false) /\
  (s_delay s = false -> do_tick s = s).
Proof.
  intros [HR [C2 C9]]. pose proof HR as [S0 I0 NL RL B ND X NDP HL HRg P O D].
  unfold do_tick. destruct (s_delay s) eqn:Hd; cbn [negb].
  2:{ split; [split; [assumption | constructor; assumption]|]. split; [auto|]. split; [|reflexivity].
      intros Hh Hl. unfold is_checking. destruct (s_out s) eqn:Ho; [|reflexivity].
      unfold live in Hl. rewrite Ho in Hl. rewrite Hl in Hd; [discriminate | discriminate | assumption]. }
  specialize (D eq_refl). unfold is_checking. cbn [s_out set_delay].
  destruct (s_out s) as [k|] eqn:Ho; cbn [negb].
  - destruct D as [-> Hpl]. destruct O as (Ok & Oo & Ob).
    assert (Hhq : s_hq s = []) by (destruct (s_hq s); [reflexivity | discriminate]).
    unfold out_val. cbn [s_out set_delay]. rewrite Ho. cbn [Nat.eqb s_hq set_out set_delay]. rewrite Hhq.
    split; [|split; [intros Hx; discriminate | split; [reflexivity | intros Hx; discriminate]]].
    assert (Hlen : length (s_nodes s) = n) by (rewrite NL, Oo; reflexivity).
    split.
    + constructor; unfold hqi; simpl; rewrite ?Hhq.
      * same_S.
      * assumption.
      * assumption.
      * assumption.
      * assumption.
      * intros i nd Hn. destruct (ND i nd Hn) as [_ A2].
        split; [intros [] | intros _ _; apply A2; [unfold hqi; rewrite Hhq; intros [] | discriminate]].
      * discriminate.
      * constructor.
      * intros i [].
      * intros i [].
      * assumption.
      * split; [reflexivity | right; assumption].
      * discriminate.
    + assert (Hs : settled s) by (intros e; congruence).
      constructor; intros bl Hb Hst i Hi; simpl in Hb; unfold pend; simpl.
      * intros Hbit Hv. destruct (C2 bl Hb Hs i Hi Hbit Hv) as [_ Hm]. rewrite Ho in Hm.
        unfold hqi in Hm. rewrite Hhq in Hm. destruct Hm as [Hm|[]]. lia.
      * intros [_ Hp0]. lia.
  - assert (HR' : invR None (set_storerr (set_delay s false) true)).
    { eapply invR_frame; eauto; simpl; discriminate. }
    destruct (wrapper_close_inv H pl expected fs0 _ HR') as (A & A2 & A3 & A4 & A5 & A6 & A7 & A8).
    split; [assumption|]. rewrite A3. split; [reflexivity | split; [reflexivity | intros Hx; discriminate]].
Qed.


(* ---------------------------------------------------------------- delivery of one hash result *)
Lemma release_x s i :
  inv (Some i) s ->
  inv None (chunk_release s i true) /\
  s_out (chunk_release s i true) = s_out s /\ s_hq (chunk_release s i true) = s_hq s /\
  s_delay (chunk_release s i true) = s_delay s /\ s_pos (chunk_release s i true) = s_pos s /\
  length (s_nodes (chunk_release s i true)) = length (s_nodes s).
Proof.
  intros [HR HC]. pose proof HR as [S0 I0 NL RL B ND X NDP HL HRg P O D].
  destruct (X i eq_refl) as [Hni [b Hn]].
  rewrite (chunk_release_ok s i true b 0 1 Hn); [|discriminate]. cbn [Nat.eqb pred].
  assert (Hil : i < length (s_nodes s)) by (apply nth_error_Some; rewrite Hn; discriminate).
  split; [|simpl; rewrite upd_length; auto].
  split.
  - constructor; unfold hqi in *; simpl.
    + destruct S0 as [A1 A2 A3 A4]. constructor; simpl; auto.
      intros j nd c Hj Hc. destruct (Nat.eq_dec i j) as [<-|Hne].
      * rewrite nth_error_upd_eq in Hj by assumption. inversion Hj; subst. discriminate.
      * rewrite nth_error_upd_neq in Hj by assumption. eauto.
    + assumption.
    + rewrite upd_length. assumption.
    + assumption.
    + assumption.
    + intros j nd Hj. destruct (Nat.eq_dec i j) as [<-|Hne].
      * rewrite nth_error_upd_eq in Hj by assumption. inversion Hj; subst. split; [contradiction | auto].
      * rewrite nth_error_upd_neq in Hj by assumption. destruct (ND j nd Hj) as [N1 N2].
        split; [assumption | intros Hnj _; apply N2; [assumption | congruence]].
    + discriminate.
    + assumption.
    + assumption.
    + assumption.
    + rewrite upd_length. assumption.
    + rewrite upd_length. assumption.
    + rewrite upd_length. assumption.
  - eapply invC_same; eauto.
Qed.

Lemma do_deliver_inv s i :
  inv None s -> s_lim s = None ->
  inv None (do_deliver H pl expected s i) /\
  (is_checking s = false -> do_deliver H pl expected s i = s) /\
  (In i (hqi s) -> live s ->
     is_checking (do_deliver H pl expected s i) = false \/
     (live (do_deliver H pl expected s i) /\ meas (do_deliver H pl expected s i) < meas s)).
Proof.
  intros HI Hlim. pose proof HI as [HR [C2 C9]]. pose proof HR as [S0 I0 NL RL B ND X NDP HL HRg P O D].
  unfold do_deliver. destruct (hq_take i (s_hq s)) as [[b q']|] eqn:Ht.
  2:{ split; [assumption|]. split; [reflexivity|]. intros Hin. apply hq_take_none in Ht. contradiction. }
  destruct (hq_take_some _ _ _ _ Ht NDP) as (Hlq & Hndq & Hniq & Hiff).
  destruct (hq_take_in _ _ _ _ Ht) as [Hinb _].
  assert (Hin : In i (hqi s)) by (apply Hiff; auto).
  destruct (s_out s) as [k|] eqn:Ho.
  2:{ destruct O as [Hh _]. rewrite Hh in Hinb. destruct Hinb. }
  destruct O as (Ok & Oo & Ob).
  destruct (s_bits s) as [bl|] eqn:Hb; [|congruence]. destruct (B bl eq_refl) as [_ Hlb].
  assert (Hlen : length (s_nodes s) = n) by (rewrite NL, Oo; reflexivity).
  assert (Hs : settled s) by (intros e; congruence).
  assert (Hdel : s_delay s = false).
  { destruct (s_delay s) eqn:Hd; [|reflexivity]. destruct (D eq_refl) as [Hk0 _]. rewrite Hk0 in Ok. rewrite Hlq in Ok. discriminate. }
  assert (Hipos : i < s_pos s) by (apply HL; assumption).
  assert (Hin' : i < n) by lia.
  assert (Hbit : nth i bl false = false).
  { apply (C9 bl eq_refl Hs i Hin'). unfold pend. rewrite Ho. split; [apply HRg; assumption | right; assumption]. }
  assert (Hpb : piece_bytes pl (s_files s) i = Some b) by (eapply iS_hq; eauto).
  (* the state handed to queue() *)
  set (bl' := if bytes_eqb (H b) (expected i) then upd bl i true else bl).
  set (t := set_out (set_bits (set_hq s q') (Some bl')) (Some (length q'))).
  assert (Hrhd : receive_hash_done H pl expected (set_hq s q') i b =
                 chunk_release (queue pl (queue_fuel t) false t) i true).
  { unfold receive_hash_done, is_checking. cbn [s_open set_hq s_out]. rewrite Oo, Ho. cbn [negb].
    assert (Hs1 : (if bytes_eqb (H b) (expected i) then mark_completed (set_hq s q') i else set_hq s q')
                  = set_bits (set_hq s q') (Some bl')).
    { unfold bl', mark_completed. cbn [s_bits set_hq]. rewrite Hb.
      destruct (bytes_eqb (H b) (expected i)).
      - rewrite (nth_indep bl true false) by lia. rewrite Hbit. reflexivity.
      - apply st_ext; simpl; auto. }
    rewrite Hs1. cbn [s_out set_bits set_hq]. rewrite Ho, Ok, Hlq. reflexivity. }
  assert (Hlb' : length bl' = n) by (unfold bl'; destruct (bytes_eqb _ _); [rewrite upd_length|]; assumption).
  assert (Hvi : bytes_eqb (H b) (expected i) = false -> valid (s_files s) i = false).
  { intros He. unfold ProofsA.valid. rewrite Hpb. exact He. }
  assert (Hbl'j : forall j, j <> i -> nth j bl' false = nth j bl false).
  { intros j Hj. unfold bl'. destruct (bytes_eqb _ _); [apply nth_upd_neq; congruence | reflexivity]. }
  assert (HIt : inv (Some i) t).
  { split.
    - constructor; unfold hqi in *; simpl.
      + destruct S0 as [A1 A2 A3 A4]. constructor; simpl; auto.
        * intros j c Hj. apply A2. eapply hq_take_in; eauto.
        * intros bl0 Hb0 j Hj. inversion Hb0; subst bl0. unfold bl' in Hj.
          destruct (bytes_eqb (H b) (expected i)) eqn:He; [|eauto].
          destruct (nth_upd_bool _ _ _ _ Hj) as [[-> _]|Hx]; [|eauto].
          unfold ProofsA.valid. rewrite Hpb. exact He.
      + assumption.
      + assumption.
      + assumption.
      + intros bl0 Hb0. inversion Hb0; subst. auto.
      + intros j nd Hj. destruct (ND j nd Hj) as [N1 N2]. split.
        * intros Hjq. apply N1. apply Hiff. auto.
        * intros Hjq Hji. apply N2; [|discriminate]. intros Hjh. apply Hiff in Hjh. destruct Hjh; [congruence | contradiction].
      + intros j Hj. inversion Hj; subst j. split; [assumption|]. 
        destruct (nth_error (s_nodes s) i) as [nd|] eqn:Hn; [|apply nth_error_None in Hn; lia].
        destruct (ND i nd Hn) as [N1 _]. destruct (N1 Hin) as [c Hc]. subst. eauto.
      + assumption.
      + intros j Hj. apply HL. apply Hiff. auto.
      + intros j Hj. apply HRg. apply Hiff. auto.
      + assumption.
      + repeat split; auto. discriminate.
      + intros Hd'. congruence.
    - constructor; intros bl0 Hb0 Hst j Hj; simpl in Hb0; inversion Hb0; subst bl0; unfold pend, hqi; simpl.
      + intros Hbj Hv. assert (Hji : j <> i).
        { intros ->. unfold bl' in Hbj. destruct (bytes_eqb (H b) (expected i)) eqn:He.
          - rewrite nth_upd_eq in Hbj by lia. discriminate.
          - rewrite (Hvi eq_refl) in Hv. discriminate. }
        rewrite Hbl'j in Hbj by assumption.
        destruct (C2 bl eq_refl Hs j Hj Hbj Hv) as [Hr Hm]. rewrite Ho in Hm. split; [assumption|].
        destruct Hm as [Hm|Hm]; [left; assumption|]. apply Hiff in Hm. destruct Hm; [contradiction | right; assumption].
      + intros [Hr Hm]. assert (Hji : j <> i).
        { intros ->. destruct Hm as [Hm|Hm]; [lia | contradiction]. }
        rewrite Hbl'j by assumption. apply (C9 bl eq_refl Hs j Hj). unfold pend. rewrite Ho. split; [assumption|].
        destruct Hm as [Hm|Hm]; [left; assumption | right; apply Hiff; auto]. }
  destruct (queue_inv H pl expected fs0 (queue_fuel t) false (Some i) t (length q') HIt) as (A & B1 & C & D1);
    try reflexivity; try discriminate; auto;
    try (intros j Hj; inversion Hj; subst; assumption);
    try (unfold queue_fuel, t; simpl; lia); try (unfold t; simpl; assumption).
  set (u := queue pl (queue_fuel t) false t) in *.
  destruct (release_x u i A) as (HIu & Eo & Eh & Ed & Ep & El).
  rewrite Hrhd.
  destruct (do_tick_inv (chunk_release u i true) HIu) as (T1 & T2 & T3 & T4).
  split; [assumption|]. split; [intros Hx; unfold is_checking in Hx; rewrite Ho in Hx; discriminate|].
  intros _ _.
  assert (Hmt : meas t < meas s) by (unfold meas, t; simpl; lia).
  destruct C as [C|[[k' C1] C2']].
  - left. apply T2. unfold is_checking. rewrite Eo, C. reflexivity.
  - destruct (s_delay (chunk_release u i true)) eqn:Hdu.
    + (* completion scheduled: the tick confirms it *)
      left. apply T3.
      * destruct HIu as [[_ _ _ _ _ _ _ _ _ _ _ Ou Du] _]. specialize (Du Hdu). rewrite Eo, C1 in Du, Ou.
        destruct Du as [-> _]. destruct Ou as [Ou _]. destruct (s_hq (chunk_release u i true)); [reflexivity | discriminate].
      * intros _ _. assumption.
    + right. rewrite (T4 eq_refl). split.
      * unfold live. intros Hne Hh. rewrite Eo in Hne. rewrite Eh in Hh. specialize (D1 eq_refl Hne Hh). congruence.
      * unfold meas in *. rewrite El, Ep, Eh. lia.
Qed.

End Ops2.
