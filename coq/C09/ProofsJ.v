(* C09 — proofs, part J: m_outstanding never exceeds the (probed) throttle of HashTorrent::queue, for
   EVERY op list (no assumption on the client), whenever the throttle is active at all in the probed range. *)
From Coq Require Import List NArith Bool Arith Lia.
From LTV.C09 Require Import ParamsGen Model Proofs ProofsA ProofsB ProofsC ProofsD ProofsI.
Import ListNotations.

Section J.
Variable H : list N -> list N.
Variable pl : N.
Variable expected : nat -> list N.
Hypothesis Hact : (Params.c09_throttle_small <? Params.c09_probe_pieces)%N = true.

Definition OB (s : st) : Prop := out_val s <= out_max.

Lemma OB_none s : s_out s = None -> OB s.
Proof. unfold OB, out_val. intros ->. lia. Qed.

Lemma OB_same s s' : s_out s' = s_out s -> OB s -> OB s'.
Proof. unfold OB, out_val. intros ->. auto. Qed.

Lemma not_checking_none s : is_checking s = false -> s_out s = None.
Proof. unfold is_checking. destruct (s_out s); [discriminate | reflexivity]. Qed.

Lemma wrapper_close_OB s : OB (wrapper_close s).
Proof.
  apply OB_none. apply not_checking_none.
  destruct (stop_releases_partial s) as [_ (_ & A & _)]. exact A.
Qed.

Lemma do_tick_OB s : OB s -> OB (do_tick s).
Proof.
  intros Hb. unfold do_tick. destruct (negb (s_delay s)); [exact Hb|].
  destruct (negb (is_checking (set_delay s false))); [apply wrapper_close_OB|].
  apply OB_none. destruct (s_hq _); reflexivity.
Qed.

Lemma queue_OB fuel quick s : OB s -> OB (queue pl fuel quick s).
Proof. apply queue_out_bound. exact Hact. Qed.

Lemma do_check_OB q s : OB s -> OB (do_check pl q s).
Proof.
  intros Hb. unfold do_check.
  destruct (is_checking s || negb (s_open s) || is_checked s); [exact Hb|].
  set (s1 := match s_bits s with None => _ | Some b => _ end).
  assert (H1 : s_out s1 = s_out s).
  { unfold s1. destruct (s_bits s); [destruct q|]; reflexivity. }
  assert (Hb1 : OB s1) by (eapply OB_same; eauto).
  destruct (Nat.eqb (s_pos s1) (length (s_nodes s))); [exact Hb1|].
  destruct (negb (Nat.eqb (s_pos s1) 0) || Nat.eqb (length (s_nodes s)) 0); [exact Hb1|].
  apply queue_OB. unfold OB, out_val. simpl. lia.
Qed.

Lemma receive_hash_done_OB s i b : OB s -> OB (receive_hash_done H pl expected s i b).
Proof.
  intros Hb. unfold receive_hash_done.
  destruct (negb (s_open s)); [exact Hb|].
  destruct (is_checking s); [|exact Hb].
  set (s1 := if bytes_eqb (H b) (expected i) then mark_completed s i else s).
  assert (H1 : s_out s1 = s_out s).
  { unfold s1. destruct (bytes_eqb (H b) (expected i)); [|reflexivity].
    unfold mark_completed. destruct (s_bits s) as [bl|]; [|reflexivity]. destruct (nth i bl true); reflexivity. }
  destruct (chunk_release_frame
              (match s_out s1 with Some (S k) => queue pl (queue_fuel s1) false (set_out s1 (Some k)) | _ => set_ierr s1 end)
              i true) as (_ & _ & C & _).
  eapply OB_same; [exact C|].
  destruct (s_out s1) as [[|k]|] eqn:Ho.
  - eapply OB_same; [|exact Hb]. simpl. congruence.
  - apply queue_OB. unfold OB, out_val in *. simpl. rewrite <- H1 in Hb. lia.
  - eapply OB_same; [|exact Hb]. simpl. congruence.
Qed.

Lemma do_deliver_OB s i : OB s -> OB (do_deliver H pl expected s i).
Proof.
  intros Hb. unfold do_deliver. destruct (hq_take i (s_hq s)) as [[b q']|]; [|exact Hb].
  apply do_tick_OB. apply receive_hash_done_OB. exact Hb.
Qed.

Lemma run_all_OB fuel : forall s, OB s -> OB (run_all H pl expected fuel s).
Proof.
  induction fuel as [|f IH]; intros s Hb; simpl; [exact Hb|].
  destruct (s_hq s) as [|[i b] r] eqn:Hq; [apply do_tick_OB; exact Hb|].
  apply IH. apply do_deliver_OB. exact Hb.
Qed.

Lemma do_stop_OB s : OB s -> OB (do_stop s).
Proof.
  intros Hb. unfold do_stop. destruct (negb (is_checking s)); [exact Hb|]. apply OB_none. reflexivity.
Qed.

Lemma do_retry_fire_OB s : OB s -> OB (do_retry_fire pl s).
Proof.
  intros Hb. unfold do_retry_fire. destruct (negb (s_retry s)); [exact Hb|].
  destruct (is_checking (set_retry s false)); [apply queue_OB; exact Hb | exact Hb].
Qed.

Lemma step_OB s o : OB s -> OB (step H pl expected s o).
Proof.
  intros Hb. destruct o; cbn [step].
  - unfold do_open. destruct (s_open s); exact Hb.
  - apply do_check_OB; exact Hb.
  - apply do_deliver_OB; exact Hb.
  - apply do_stop_OB; exact Hb.
  - apply wrapper_close_OB.
  - apply do_tick_OB; exact Hb.
  - apply run_all_OB; exact Hb.
  - exact Hb.
  - unfold do_advance. apply do_tick_OB. apply do_retry_fire_OB. apply do_tick_OB. exact Hb.
Qed.

Theorem outstanding_bounded fs0 ops : OB (run H pl expected ops (init fs0)).
Proof.
  unfold run. assert (H0 : OB (init fs0)) by (apply OB_none; reflexivity).
  revert H0. generalize (init fs0). induction ops as [|o r IH]; intros s Hs; simpl; [exact Hs|].
  apply IH. apply step_OB. exact Hs.
Qed.

End J.

(* ---------------------------------------------------------------- a delivery never queues a piece below m_position *)
Section K.
Variable H : list N -> list N.
Variable pl : N.
Variable expected : nat -> list N.

Lemma wrapper_close_hq t : s_hq (wrapper_close t) = [].
Proof.
  unfold wrapper_close. set (s1 := hq_remove_all (ht_clear t)).
  assert (Hh1 : s_hq s1 = []) by (unfold s1, hq_remove_all; apply fold_cleared_hq; reflexivity).
  destruct (s_open s1); [|exact Hh1].
  destruct (existsb node_busy _); cbn [s_hq set_nodes set_ierr set_bits set_files set_open]; exact Hh1.
Qed.

Lemma tick_tail_hq t : s_hq (match s_hq t with [] => t | _ => set_ierr t end) = s_hq t.
Proof. destruct (s_hq t) eqn:E; exact E. Qed.

Lemma do_tick_hq s : s_hq (do_tick s) = s_hq s \/ s_hq (do_tick s) = [].
Proof.
  unfold do_tick. destruct (negb (s_delay s)); [left; reflexivity|].
  destruct (negb (is_checking (set_delay s false))).
  - right. apply wrapper_close_hq.
  - left. rewrite tick_tail_hq. cbn [s_hq set_out].
    destruct (Nat.eqb (out_val (set_delay s false)) 0); reflexivity.
Qed.

(* ODeliver i: whatever is queued afterwards was queued before (and is not the delivered node) or lies at or beyond
   the old m_position, and the newly queued pieces are strictly increasing *)
Theorem deliver_queues_only_ahead s i :
  forall j, In j (map fst (s_hq (do_deliver H pl expected s i))) ->
            In j (map fst (s_hq s)) \/ s_pos s <= j.
Proof.
  intros j Hj. unfold do_deliver in Hj.
  destruct (hq_take i (s_hq s)) as [[b q']|] eqn:Ht; [|left; exact Hj].
  destruct (hq_take_in _ _ _ _ Ht) as [_ Hsub].
  set (X := receive_hash_done H pl expected (set_hq s q') i b) in *.
  assert (HX : exists nw, s_hq X = q' ++ nw /\ incr_from (s_pos s) (map fst nw)).
  { unfold X, receive_hash_done.
    destruct (negb (s_open (set_hq s q'))); [exists []; rewrite app_nil_r; simpl; auto|].
    destruct (is_checking (set_hq s q')); [|exists []; rewrite app_nil_r; simpl; auto].
    set (s1 := if bytes_eqb (H b) (expected i) then mark_completed (set_hq s q') i else set_hq s q').
    assert (H1 : s_hq s1 = q' /\ s_pos s1 = s_pos s).
    { unfold s1. destruct (bytes_eqb (H b) (expected i)); [|simpl; auto].
      unfold mark_completed. destruct (s_bits (set_hq s q')) as [bl|]; [|simpl; auto]. destruct (nth i bl true); simpl; auto. }
    destruct H1 as [H1 H2].
    match goal with |- context [chunk_release ?t i true] => destruct (chunk_release_frame t i true) as (C & _) end.
    rewrite C.
    destruct (s_out s1) as [[|k]|].
    - exists []. rewrite app_nil_r. simpl. auto.
    - destruct (queue_effect pl (queue_fuel s1) false (set_out s1 (Some k))) as (nw & A & B & _).
      exists nw. change (s_hq (set_out s1 (Some k))) with (s_hq s1) in A.
      change (s_pos (set_out s1 (Some k))) with (s_pos s1) in B. rewrite A, H1. rewrite H2 in B. auto.
    - exists []. rewrite app_nil_r. simpl. auto. }
  destruct HX as (nw & A & B).
  destruct (do_tick_hq X) as [E|E]; rewrite E in Hj; [|destruct Hj].
  rewrite A, map_app in Hj. apply in_app_or in Hj. destruct Hj as [Hj|Hj].
  - left. apply in_map_iff in Hj. destruct Hj as (e & <- & He). apply in_map. apply Hsub. exact He.
  - right. eapply incr_from_ge; eauto.
Qed.

End K.

Theorem outstanding_bounded_now H pl expected fs0 ops :
  (Params.c09_throttle_small <? Params.c09_probe_pieces)%N = false \/
  out_val (run H pl expected ops (init fs0)) <= N.to_nat Params.c09_throttle_small.
Proof.
  destruct (Params.c09_throttle_small <? Params.c09_probe_pieces)%N eqn:E; [right | left; reflexivity].
  apply (outstanding_bounded H pl expected E).
Qed.
