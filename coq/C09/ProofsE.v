(* C09 — proofs, part E: the full invariant of the check for clients that do not call hash_check
   while the notification of the previous check is still pending in the scheduler.
   It gives: no internal_error, exact reference/blocking counts per chunk list node, and the two
   halves of exactness (a pending piece has its bit clear; a valid piece whose bit is clear is
   pending). *)
From Coq Require Import List NArith Bool Arith Lia.
From LTV.C09 Require Import ParamsGen Model Proofs ProofsA ProofsB ProofsD.
Import ListNotations.

Lemma st_ext (a b : st) :
  s_open a = s_open b -> s_files a = s_files b -> s_bits a = s_bits b -> s_ranges a = s_ranges b ->
  s_pos a = s_pos b -> s_out a = s_out b -> s_hq a = s_hq b -> s_nodes a = s_nodes b ->
  s_delay a = s_delay b -> s_errno a = s_errno b -> s_storerr a = s_storerr b -> s_ierr a = s_ierr b ->
  s_mem a = s_mem b -> s_retry a = s_retry b -> s_lim a = s_lim b ->
  a = b.
Proof. destruct a, b; simpl; intros; subst; reflexivity. Qed.

Definition free_node : node := mkN None 0 0.

Section Full.
Variable H : list N -> list N.
Variable pl : N.
Variable expected : nat -> list N.
Variable fs0 : list fnode.

Notation n := (npieces pl fs0).
Notation valid := (valid H pl expected).

Definition hqi (s : st) : list nat := map fst (s_hq s).

(* piece i is still to be decided by the running / next check *)
Definition pend (s : st) (i : nat) : Prop :=
  nth i (s_ranges s) false = true /\
  match s_out s with
  | None => s_pos s = 0
  | Some _ => s_pos s <= i \/ In i (hqi s)
  end.

(* not in the state "check aborted with an I/O error, notification pending" *)
Definition settled (s : st) : Prop := s_out s = None -> s_delay s = false.

(* x: a node whose hash result is being handed over (removed from the queue, not yet released) *)
Record invR (x : option nat) (s : st) : Prop := {
  r_S : invS H pl expected fs0 s;
  r_ierr : s_ierr s = false;
  r_nodes_len : length (s_nodes s) = if s_open s then n else 0;
  r_ranges_len : s_open s = true -> length (s_ranges s) = n;
  r_bits : forall bl, s_bits s = Some bl -> s_open s = true /\ length bl = n;
  r_node : forall i nd, nth_error (s_nodes s) i = Some nd ->
           (In i (hqi s) -> exists b, nd = mkN (Some b) 1 1) /\
           (~ In i (hqi s) -> x <> Some i -> nd = free_node);
  r_x : forall i, x = Some i -> ~ In i (hqi s) /\ exists b, nth_error (s_nodes s) i = Some (mkN (Some b) 1 1);
  r_nodup : NoDup (hqi s);
  r_hq_lt : forall i, In i (hqi s) -> i < s_pos s;
  r_hq_rng : forall i, In i (hqi s) -> nth i (s_ranges s) false = true;
  r_pos : s_pos s <= length (s_nodes s);
  r_out : match s_out s with
          | Some k => k = length (s_hq s) /\ s_open s = true /\ s_bits s <> None
          | None => s_hq s = [] /\ (s_pos s = 0 \/ s_pos s = length (s_nodes s))
          end;
  r_delay : s_delay s = true ->
            match s_out s with
            | Some k => k = 0 /\ s_pos s = length (s_nodes s)
            | None => s_pos s = 0
            end
}.

Record invC (s : st) : Prop := {
  c_2 : forall bl, s_bits s = Some bl -> settled s ->
        forall i, i < n -> nth i bl false = false -> valid (s_files s) i = true -> pend s i;
  c_9 : forall bl, s_bits s = Some bl -> settled s ->
        forall i, i < n -> pend s i -> nth i bl false = false
}.

Definition inv (x : option nat) (s : st) : Prop := invR x s /\ invC s.

(* ---------------------------------------------------------------- ChunkList computations *)
Lemma chunk_get_free s p blk :
  nth_error (s_nodes s) p = Some free_node ->
  chunk_get pl s p blk =
  match map_windows (piece_windows pl (s_files s) p) (s_files s) [] with
  | (fs', MapOk b) =>
      (set_mem (set_nodes (set_files s fs') (upd (s_nodes s) p (mkN (Some b) 1 (if blk then 1 else 0)))) (S (s_mem s)), MapOk b)
  | (fs', MapErr e) => (set_files s fs', MapErr e)
  end.
Proof.
  intros Hn. unfold chunk_get. rewrite Hn. simpl.
  destruct (map_windows (piece_windows pl (s_files s) p) (s_files s) []) as [fs' [b|e]]; destruct blk; reflexivity.
Qed.

Lemma chunk_get_cached s p blk b r k :
  nth_error (s_nodes s) p = Some (mkN (Some b) r k) ->
  chunk_get pl s p blk = (set_nodes s (upd (s_nodes s) p (mkN (Some b) (S r) (if blk then S k else k))), MapOk b).
Proof. intros Hn. unfold chunk_get. rewrite Hn. reflexivity. Qed.

Lemma chunk_release_ok s p blk b r k :
  nth_error (s_nodes s) p = Some (mkN (Some b) (S r) k) -> (blk = true -> k <> 0) ->
  chunk_release s p blk =
  set_mem (set_nodes s (upd (s_nodes s) p (mkN (if Nat.eqb r 0 then None else Some b) r (if blk then pred k else k))))
          (if Nat.eqb r 0 then pred (s_mem s) else s_mem s).
Proof.
  intros Hn Hk. unfold chunk_release. rewrite Hn. simpl.
  destruct blk; simpl; [|reflexivity].
  destruct k; [exfalso; apply Hk; reflexivity | reflexivity].
Qed.

(* check_chunk on a node just mapped by queue() *)
Lemma check_chunk_eq s p b :
  nth_error (s_nodes s) p = Some (mkN (Some b) 1 0) ->
  check_chunk pl s p b =
  set_out (set_hq (set_nodes s (upd (s_nodes s) p (mkN (Some b) 1 1))) (s_hq s ++ [(p, b)])) (Some (S (out_val s))).
Proof.
  intros Hn. unfold check_chunk.
  rewrite (chunk_get_cached s p true b 1 0 Hn).
  assert (Hl : p < length (s_nodes s)) by (apply nth_error_Some; rewrite Hn; discriminate).
  rewrite (chunk_release_ok _ p false b 1 1).
  - simpl. rewrite upd_upd. reflexivity.
  - simpl. apply nth_error_upd_eq. exact Hl.
  - discriminate.
Qed.

(* ---------------------------------------------------------------- frame lemmas *)
Lemma pend_files s fs' i : pend (set_files s fs') i <-> pend s i.
Proof. unfold pend, hqi; simpl; tauto. Qed.

Lemma inv_files x s fs' : inv x s -> files_le (s_files s) fs' -> inv x (set_files s fs').
Proof.
  intros [[S0 I0 NL RL B ND X NDP HL HR P O D] [C2 C9]] Hle. split.
  - constructor; simpl; auto. apply invS_files; assumption.
  - constructor; unfold settled; simpl; intros.
    + apply pend_files. eapply C2; eauto. rewrite (valid_le H pl expected _ _ i Hle). assumption.
    + eapply C9; eauto.
Qed.


(* ---------------------------------------------------------------- queue(): one loop iteration *)
Lemma inv_advance x s p k :
  inv x s -> s_out s = Some k -> s_delay s = false -> s_pos s <= p -> p <= length (s_nodes s) ->
  (forall j, s_pos s <= j -> j < p -> nth j (s_ranges s) false = false \/ valid (s_files s) j = false) ->
  inv x (set_pos s p).
Proof.
  intros [[S0 I0 NL RL B ND X NDP HL HR P O D] [C2 C9]] Ho Hd Hp Hpl Hskip. split.
  - constructor; simpl.
    + same_S.
    + assumption.
    + assumption.
    + assumption.
    + assumption.
    + assumption.
    + assumption.
    + assumption.
    + intros i Hi. specialize (HL i Hi). lia.
    + assumption.
    + assumption.
    + rewrite Ho in *. exact O.
    + intros Hd'. rewrite Hd in Hd'. discriminate.
  - assert (Hs' : settled s) by (intros e; congruence).
    constructor; intros bl Hb Hs i Hi; simpl in Hb.
    + intros Hbit Hv. simpl in Hv. destruct (C2 bl Hb Hs' i Hi Hbit Hv) as [Hr Hm].
      unfold pend in *; simpl. rewrite Ho in *. split; [assumption|].
      destruct Hm as [Hge|Hin]; [|right; assumption].
      destruct (le_lt_dec p i) as [Hle|Hlt]; [left; assumption|].
      destruct (Hskip i Hge Hlt) as [Hf|Hf]; congruence.
    + intros Hpe. apply (C9 bl Hb Hs' i Hi). unfold pend in *; simpl in *. rewrite Ho in *.
      destruct Hpe as [Hr [Hge|Hin]]; split; auto. left; lia.
Qed.

Definition enq (s : st) (p : nat) (b : list N) : st :=
  set_out (set_hq (set_nodes (set_pos s (S p)) (upd (s_nodes s) p (mkN (Some b) 1 1))) (s_hq s ++ [(p, b)]))
          (Some (S (out_val s))).

Lemma inv_enqueue x s p b k :
  inv x s -> s_out s = Some k -> s_delay s = false -> s_pos s = p -> p < length (s_nodes s) ->
  nth p (s_ranges s) false = true -> x <> Some p ->
  piece_bytes pl (s_files s) p = Some b ->
  inv x (enq s p b).
Proof.
  intros [[S0 I0 NL RL B ND X NDP HL HR P O D] [C2 C9]] Ho Hd Hpos Hlt Hrng Hx Hpb.
  assert (Hnin : ~ In p (hqi s)) by (intros Hin; specialize (HL p Hin); lia).
  unfold enq. rewrite Ho in O. destruct O as (Ok & Oo & Ob).
  split.
  - constructor; unfold hqi in *; simpl.
    + destruct S0 as [A1 A2 A3 A4]. constructor; simpl; auto.
      * intros i c Hin. apply in_app_or in Hin. destruct Hin as [Hin|[Heq|[]]]; auto.
        inversion Heq; subst; auto.
      * intros i nd c Hn Hc. destruct (Nat.eq_dec p i) as [<-|Hne].
        -- rewrite nth_error_upd_eq in Hn by assumption. inversion Hn; subst. simpl in Hc. inversion Hc; subst; auto.
        -- rewrite nth_error_upd_neq in Hn by assumption. eauto.
    + assumption.
    + rewrite upd_length. assumption.
    + assumption.
    + assumption.
    + intros i nd Hn. destruct (Nat.eq_dec p i) as [<-|Hne].
      * rewrite nth_error_upd_eq in Hn by assumption. inversion Hn; subst. split.
        -- intros _. eauto.
        -- intros Hc. exfalso. apply Hc. apply in_map_fst_app. auto.
      * rewrite nth_error_upd_neq in Hn by assumption. destruct (ND i nd Hn) as [N1 N2]. split.
        -- intros Hin. apply in_map_fst_app in Hin. destruct Hin as [Hin|Hin]; [auto | congruence].
        -- intros Hc. apply N2. intros Hin. apply Hc. apply in_map_fst_app. auto.
    + intros i Hxi. destruct (X i Hxi) as [X1 [c X2]]. split.
      * intros Hin. apply in_map_fst_app in Hin. destruct Hin as [Hin|Hin]; [auto | subst; congruence].
      * exists c. rewrite nth_error_upd_neq; [assumption | congruence].
    + rewrite map_app. simpl. apply NoDup_app_single; assumption.
    + intros i Hin. apply in_map_fst_app in Hin. destruct Hin as [Hin|Hin]; [specialize (HL i Hin); lia | lia].
    + intros i Hin. apply in_map_fst_app in Hin. destruct Hin as [Hin|Hin]; [auto | subst; assumption].
    + rewrite upd_length. lia.
    + unfold out_val. rewrite Ho. rewrite app_length. simpl. repeat split; auto; lia.
    + intros Hd'. rewrite Hd in Hd'. discriminate.
  - assert (Hs' : settled s) by (intros e; congruence).
    constructor; intros bl Hb Hs i Hi; simpl in Hb.
    + intros Hbit Hv. simpl in Hv. unfold pend, hqi; simpl.
      destruct (Nat.eq_dec i p) as [->|Hne].
      * split; auto. right. apply in_map_fst_app. auto.
      * destruct (C2 bl Hb Hs' i Hi Hbit Hv) as [Hr Hm]. rewrite Ho in Hm. split; [assumption|].
        destruct Hm as [Hge|Hin]; [left; lia | right; apply in_map_fst_app; auto].
    + intros Hpe. apply (C9 bl Hb Hs' i Hi). unfold pend, hqi in *; simpl in *. rewrite Ho.
      destruct Hpe as [Hr [Hge|Hin]]; split; auto; [left; lia|].
      apply in_map_fst_app in Hin. destruct Hin as [Hin|Hin]; [right; assumption | left; lia].
Qed.


Transparent throttle.
Lemma throttle_pos k : throttle k = true -> k <> 0.
Proof.
  intros Ht Hk. subst. unfold throttle in Ht.
  apply andb_true_iff in Ht. destruct Ht as [_ Ht]. apply N.leb_le in Ht.
  change (N.of_nat 0) with 0%N in Ht.
  pose proof Proofs.params_ok_now as Hp. unfold Proofs.params_ok in Hp. apply N.ltb_lt in Hp. lia.
Qed.
Opaque throttle.

Definition meas (s : st) : nat := length (s_nodes s) - s_pos s + length (s_hq s).

Definition queue_post (quick : bool) (x : option nat) (s s' : st) : Prop :=
  inv x s' /\ length (s_nodes s') = length (s_nodes s) /\
  (s_out s' = None \/ ((exists k', s_out s' = Some k') /\ meas s' <= meas s)) /\
  (quick = false -> s_out s' <> None -> s_hq s' = [] -> s_delay s' = true).

Lemma qp_intro quick x s s' :
  inv x s' -> length (s_nodes s') = length (s_nodes s) ->
  (s_out s' = None \/ ((exists k', s_out s' = Some k') /\ meas s' <= meas s)) ->
  (quick = false -> s_out s' <> None -> s_hq s' = [] -> s_delay s' = true) ->
  queue_post quick x s s'.
Proof. unfold queue_post; auto. Qed.

Lemma invC_same s s' :
  invC s -> s_bits s' = s_bits s -> s_files s' = s_files s -> s_ranges s' = s_ranges s ->
  s_out s' = s_out s -> s_pos s' = s_pos s -> s_hq s' = s_hq s -> (settled s' -> settled s) -> invC s'.
Proof.
  intros [C2 C9] Hb Hf Hr Ho Hp Hh Hs.
  assert (Hpe : forall i, pend s' i <-> pend s i).
  { intros i. unfold pend, hqi. rewrite Hr, Ho, Hp, Hh. tauto. }
  constructor; intros bl Hbl Hst i Hi.
  - intros Hbit Hv. apply Hpe. rewrite Hb in Hbl. rewrite Hf in Hv. eapply C2; eauto.
  - intros Hp'. rewrite Hb in Hbl. eapply C9; eauto. apply Hpe. assumption.
Qed.

Lemma inv_set_mem x s v : inv x s -> inv x (set_mem s v).
Proof.
  intros [[S0 I0 NL RL B ND X NDP HL HR P O D] HC]. split.
  - constructor; simpl; try assumption. same_S.
  - eapply invC_same; eauto.
Qed.

Lemma queue_tail_post quick x s k :
  inv x s -> s_out s = Some k -> s_delay s = false -> s_pos s = length (s_nodes s) ->
  queue_post quick x s (queue_tail s).
Proof.
  intros HI Ho Hd Hp. unfold queue_tail, out_val. rewrite Ho.
  destruct (Nat.eqb_spec k 0) as [->|Hk].
  - destruct HI as [[S0 I0 NL RL B ND X NDP HL HR P O D] HC].
    apply qp_intro; simpl; auto.
    + split.
      * constructor; simpl; auto.
        -- same_S.
        -- intros _. rewrite Ho. auto.
      * eapply invC_same; eauto. unfold settled; simpl. intros _ e. congruence.
    + right. split; [eauto | unfold meas; simpl; lia].
  - apply qp_intro; auto.
    + right. split; [eauto | lia].
    + intros _ _ Hh. destruct HI as [[S0 I0 NL RL B ND X NDP HL HR P O D] _]. rewrite Ho in O.
      destruct O as [Ok _]. rewrite Hh in Ok. simpl in Ok. congruence.
Qed.

Lemma queue_inv fuel : forall quick x s k,
  inv x s -> s_out s = Some k -> s_delay s = false -> (quick = true -> k = 0) ->
  (forall i, x = Some i -> i < s_pos s) ->
  length (s_nodes s) - s_pos s < fuel ->
  s_lim s = None ->                       (* no memory pressure: ChunkManager::allocate never refuses *)
  queue_post quick x s (queue pl fuel quick s).
Proof.
  induction fuel as [|fuel IH]; intros quick x s k HI Ho Hd Hq Hx Hf Hlim; [lia|].
  cbn [queue].
  pose proof HI as [[S0 I0 NL RL B ND X NDP HL HR P O D] [C2 C9]].
  pose proof O as O'. rewrite Ho in O'. destruct O' as (Ok & Oo & Ob).
  assert (Hlen : length (s_ranges s) = length (s_nodes s)).
  { rewrite NL, Oo. apply RL. assumption. }
  destruct (Nat.leb_spec (length (s_nodes s)) (s_pos s)) as [Hge|Hlt].
  { eapply queue_tail_post; eauto. lia. }
  unfold out_val. rewrite Ho.
  destruct (throttle k) eqn:Hth.
  { apply qp_intro; auto.
    - right. split; [eauto | lia].
    - intros _ _ Hh. apply throttle_pos in Hth. rewrite Hh in Ok. simpl in Ok. congruence. }
  destruct (next_range (s_ranges s) (s_pos s)) as [p|] eqn:Hnr.
  2:{ pose proof (next_range_none _ _ Hnr) as Hnone.
      assert (HI1 : inv x (set_pos s (length (s_nodes s)))).
      { eapply inv_advance; eauto; try lia; try (intros j Hj _; left; apply Hnone; assumption). }
      destruct (queue_tail_post quick x (set_pos s (length (s_nodes s))) k HI1 Ho Hd eq_refl) as (A & B1 & C & D1).
      apply qp_intro; auto.
      destruct C as [C|[C1 C2']]; [left; assumption | right; split; [assumption|]].
      unfold meas in *. simpl in *. lia. }
  destruct (next_range_some _ _ _ Hnr) as (Hpge & Hplt & Hprng & Hpskip).
  rewrite Hlen in Hplt.
  assert (HI0 : inv x (set_pos s p)).
  { eapply inv_advance; eauto; try lia. }
  assert (Hnin : ~ In p (hqi s)) by (intros Hin; specialize (HL p Hin); lia).
  assert (Hxp : x <> Some p) by (intros Hxe; specialize (Hx p Hxe); lia).
  assert (Hnode : nth_error (s_nodes s) p = Some free_node).
  { destruct (nth_error (s_nodes s) p) as [nd|] eqn:Hn.
    - destruct (ND p nd Hn) as [_ N2]. rewrite (N2 Hnin Hxp). reflexivity.
    - apply nth_error_None in Hn. lia. }
  assert (Hmf : mem_full (set_pos s p) = false) by (unfold mem_full; simpl; rewrite Hlim; reflexivity).
  rewrite Hmf.
  rewrite (chunk_get_free (set_pos s p) p false Hnode). cbn [s_files set_pos s_nodes].
  destruct (map_windows (piece_windows pl (s_files s) p) (s_files s) []) as [fs' r] eqn:Hm.
  pose proof (map_windows_le (piece_windows pl (s_files s) p) (s_files s) []) as Hle.
  rewrite Hm in Hle. simpl in Hle.
  pose proof (map_windows_spec _ _ _ _ _ (piece_windows_lenpos pl (s_files s) p) Hm) as Hsp.
  assert (HI1 : inv x (set_files (set_pos s p) fs')) by (apply inv_files; assumption).
  destruct r as [b|e].
  - (* mapped *)
    assert (Hpb : piece_bytes pl fs' p = Some b).
    { rewrite <- (piece_bytes_le pl _ _ p Hle). exact Hsp. }
    destruct quick.
    + (* quick: release again and stop *)
      cbn [out_val s_out set_nodes set_files set_pos set_mem]. rewrite Ho. rewrite (Hq eq_refl). cbn [Nat.eqb negb].
      rewrite (chunk_release_ok _ p false b 0 0); [|simpl; apply nth_error_upd_eq; lia | discriminate].
      cbn [Nat.eqb s_nodes set_nodes set_mem]. rewrite upd_upd. rewrite (upd_same (s_nodes s) p (mkN None 0 0) Hnode).
      match goal with |- queue_post _ _ _ ?t => replace t with (set_files (set_pos s p) fs') by (apply st_ext; reflexivity) end.
      apply qp_intro; auto; try discriminate.
      right. split; [simpl; eauto | unfold meas; simpl; lia].
    + (* full: queue it for hashing and go on *)
      rewrite check_chunk_eq; [|simpl; apply nth_error_upd_eq; lia].
      match goal with |- queue_post _ _ _ (queue _ _ _ ?t) =>
        replace t with (enq (set_mem (set_files (set_pos s p) fs') (S (s_mem s))) p b)
          by (apply st_ext; try reflexivity; unfold enq; simpl; rewrite upd_upd; reflexivity) end.
      assert (HI2 : inv x (enq (set_mem (set_files (set_pos s p) fs') (S (s_mem s))) p b)).
      { eapply inv_enqueue; eauto; try (apply inv_set_mem; assumption); simpl; auto; lia. }
      assert (Ho2 : s_out (enq (set_mem (set_files (set_pos s p) fs') (S (s_mem s))) p b) = Some (S k)).
      { unfold enq, out_val. simpl. rewrite Ho. reflexivity. }
      destruct (IH false x _ (S k) HI2 Ho2) as (A & B1 & C & D1); simpl; auto; try discriminate.
      { intros i Hxi. specialize (Hx i Hxi). lia. }
      { rewrite upd_length. lia. }
      apply qp_intro; auto.
      * rewrite B1. simpl. apply upd_length.
      * destruct C as [C|[C1 C2']]; [left; assumption | right; split; [assumption|]].
        unfold meas in *. simpl in *. rewrite upd_length, app_length in C2'. simpl in C2'. lia.
  - destruct e.
    + (* ENOENT: skip the piece *)
      assert (Hinv : valid fs' p = false).
      { unfold ProofsA.valid. rewrite <- (piece_bytes_le pl _ _ p Hle). unfold piece_bytes. rewrite Hsp. reflexivity. }
      assert (HI2 : inv x (set_pos (set_files (set_pos s p) fs') (S p))).
      { eapply inv_advance; eauto; simpl; try lia.
        intros j Hj1 Hj2. assert (j = p) by lia. subst. right. assumption. }
      assert (Hgoal : queue_post quick x s (queue pl fuel quick (set_pos (set_files (set_pos s p) fs') (S p)))).
      { destruct (IH quick x _ k HI2) as (A & B1 & C & D1); simpl; auto; try lia.
        { intros i Hxi. specialize (Hx i Hxi). lia. }
        apply qp_intro; auto.
        destruct C as [C|[C1 C2']]; [left; assumption | right; split; [assumption|]].
        unfold meas in *. simpl in *. lia. }
      destruct quick; [|exact Hgoal].
      cbn [out_val s_out set_files set_pos]. rewrite Ho. rewrite (Hq eq_refl). cbn [Nat.eqb negb]. exact Hgoal.
    + (* other errno *)
      destruct quick.
      * cbn [out_val s_out set_files set_pos]. rewrite Ho. rewrite (Hq eq_refl). cbn [Nat.eqb negb].
        apply qp_intro; auto; try discriminate.
        right. split; [simpl; eauto | unfold meas; simpl; lia].
      * cbn [out_val s_out set_files set_pos]. rewrite Ho.
        destruct (Nat.eqb_spec k 0) as [->|Hk]; cbn [negb].
        -- (* abort *)
           destruct HI1 as [[S1 I1 NL1 RL1 B1 ND1 X1 NDP1 HL1 HR1 P1 O1 D1] [C21 C91]].
           assert (Hhq : s_hq s = []) by (destruct (s_hq s); [reflexivity | simpl in Ok; discriminate]).
           assert (HIa : inv x (set_delay (set_errno (ht_clear (set_files (set_pos s p) fs')) true) true)).
           { unfold ht_clear. split.
             - constructor; simpl in *; auto.
               + same_S.
               + unfold hqi in *. simpl in *. rewrite Hhq. simpl. intros i [].
               + lia.
             - constructor; intros bl Hb Hs; exfalso; unfold settled in Hs; simpl in Hs; specialize (Hs eq_refl); discriminate. }
           apply qp_intro; auto; try (unfold ht_clear; simpl; auto; fail);
             try (intros _ Hc; exfalso; apply Hc; reflexivity).
        -- apply qp_intro; simpl; auto.
           ++ right. split; [eauto | unfold meas; simpl; lia].
           ++ intros _ _ Hh. rewrite Hh in Ok. simpl in Ok. congruence.
Qed.

End Full.
