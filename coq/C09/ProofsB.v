(* C09 — proofs, part B: invariants of the check that hold for EVERY op list (no assumption on
   the client): the files only ever change by "absent -> created empty", every queued or mapped
   piece carries exactly the bytes that are on disk, and every set bit is a valid piece. *)
From Coq Require Import List NArith Bool Arith Lia.
From LTV.C09 Require Import ParamsGen Model ProofsA.
Import ListNotations.

Lemma nth_error_upd {A} (l : list A) i v j x :
  nth_error (upd l i v) j = Some x ->
  (j = i /\ x = v) \/ (j <> i /\ nth_error l j = Some x).
Proof.
  revert i j. induction l as [|a r IH]; intros [|i] [|j] Hn; simpl in *; try discriminate.
  - inversion Hn; auto.
  - right; split; [discriminate | assumption].
  - right; split; [discriminate | assumption].
  - destruct (IH _ _ Hn) as [[-> ->] | [Hne Hx]]; [left; auto | right; split; [congruence | assumption]].
Qed.

Lemma nth_upd_bool (l : list bool) i j v :
  nth j (upd l i v) false = true -> (j = i /\ v = true) \/ nth j l false = true.
Proof.
  revert i j. induction l as [|a r IH]; intros [|i] [|j] Hn; simpl in *; auto.
  destruct (IH _ _ Hn) as [[-> ->] | Hx]; auto.
Qed.

Lemma nth_unset_ranges b : forall r i, nth i (unset_ranges b r) false = true -> nth i b false = true.
Proof.
  induction b as [|x b IH]; intros r i Hn; destruct r as [|y r]; simpl in *; auto.
  destruct i; simpl in *.
  - apply andb_true_iff in Hn; tauto.
  - eauto.
Qed.

Lemma nth_repeat_false n i : nth i (repeat false n) false = false.
Proof. revert i. induction n; intros [|i]; simpl; auto. Qed.

Lemma hq_take_in i q b q' :
  hq_take i q = Some (b, q') -> In (i, b) q /\ (forall e, In e q' -> In e q).
Proof.
  revert b q'. induction q as [|[j c] r IH]; intros b q' Ht; simpl in *; try discriminate.
  destruct (Nat.eqb_spec i j) as [->|Hne].
  - inversion Ht; subst. auto.
  - destruct (hq_take i r) as [[b' r']|]; try discriminate. inversion Ht; subst.
    destruct (IH _ _ eq_refl) as [Hin Hsub]. split; [auto|].
    intros e [He|He]; auto.
Qed.

Section Inv.
Variable H : list N -> list N.
Variable pl : N.
Variable expected : nat -> list N.
Variable fs0 : list fnode.

Notation piece_bytes := (piece_bytes pl).
Notation valid := (valid H pl expected).

Record invS (s : st) : Prop := {
  iS_files : files_le fs0 (s_files s);
  iS_hq : forall i b, In (i, b) (s_hq s) -> piece_bytes (s_files s) i = Some b;
  iS_nodes : forall i nd b, nth_error (s_nodes s) i = Some nd -> n_chunk nd = Some b ->
             piece_bytes (s_files s) i = Some b;
  iS_bits : forall bl, s_bits s = Some bl -> forall i, nth i bl false = true -> valid (s_files s) i = true
}.

(* changing only fields the invariant does not mention *)
Lemma invS_same s s' :
  invS s -> s_files s' = s_files s -> s_hq s' = s_hq s -> s_nodes s' = s_nodes s -> s_bits s' = s_bits s ->
  invS s'.
Proof.
  intros [A B C D] Hf Hh Hn Hb. constructor; rewrite ?Hf, ?Hh, ?Hn, ?Hb; auto.
Qed.

(* the invariant does not mention the field that changed: pick the hypothesis for which the four relevant fields agree *)
Ltac same_S :=
  match goal with
  | Hs : invS ?x |- _ =>
      solve [eapply invS_same with (s := x); [exact Hs | reflexivity | reflexivity | reflexivity | reflexivity]]
  end.


Lemma invS_files s fs' :
  invS s -> files_le (s_files s) fs' -> invS (set_files s fs').
Proof.
  intros [A B C D] Hle. constructor; simpl.
  - eapply files_le_trans; eauto.
  - intros i b Hin. rewrite <- (piece_bytes_le pl _ _ i Hle). auto.
  - intros i nd b Hn Hc. rewrite <- (piece_bytes_le pl _ _ i Hle). eauto.
  - intros bl Hb i Hi. rewrite <- (valid_le H pl expected _ _ i Hle). eauto.
Qed.

Lemma chunk_get_S s i blk s' r :
  invS s -> chunk_get pl s i blk = (s', r) ->
  invS s' /\ s_hq s' = s_hq s /\ s_bits s' = s_bits s /\ files_le (s_files s) (s_files s') /\
  (forall b, r = MapOk b -> piece_bytes (s_files s') i = Some b).
Proof.
  intros HI Hg. unfold chunk_get in Hg.
  destruct (nth_error (s_nodes s) i) as [nd|] eqn:Hn.
  2:{ inversion Hg; subst. split; [same_S|]. repeat split; auto using files_le_refl. discriminate. }
  destruct (n_chunk nd) as [b0|] eqn:Hc.
  - inversion Hg; subst; clear Hg.
    assert (Hpb : piece_bytes (s_files s) i = Some b0) by (eapply iS_nodes; eauto).
    split; [|repeat split; simpl; auto using files_le_refl; intros b Hb; inversion Hb; subst; auto].
    destruct HI as [A B C D]. constructor; simpl; auto.
    intros j nd' b Hj Hcj. destruct (nth_error_upd _ _ _ _ _ Hj) as [[-> ->] | [_ Hj']]; simpl in *.
    + inversion Hcj; subst; auto.
    + eauto.
  - destruct (map_windows (piece_windows pl (s_files s) i) (s_files s) []) as [fs' r'] eqn:Hm.
    pose proof (map_windows_le (piece_windows pl (s_files s) i) (s_files s) []) as Hle.
    rewrite Hm in Hle; simpl in Hle.
    pose proof (map_windows_spec _ _ _ _ _ (piece_windows_lenpos pl (s_files s) i) Hm) as Hsp.
    pose proof (invS_files _ _ HI Hle) as HI'.
    destruct r' as [b0|e]; inversion Hg; subst; clear Hg.
    + assert (Hpb : piece_bytes fs' i = Some b0).
      { rewrite <- (piece_bytes_le pl _ _ i Hle). exact Hsp. }
      split; [|repeat split; simpl; auto; intros b Hb; inversion Hb; subst; auto].
      destruct HI' as [A B C D]. constructor; simpl in *; auto.
      intros j nd' b Hj Hcj. destruct (nth_error_upd _ _ _ _ _ Hj) as [[-> ->] | [_ Hj']]; simpl in *.
      * inversion Hcj; subst; auto.
      * eauto.
    + split; [exact HI'|]. repeat split; simpl; auto. discriminate.
Qed.

Lemma chunk_release_S s i blk : invS s -> invS (chunk_release s i blk).
Proof.
  intros HI. unfold chunk_release.
  destruct (nth_error (s_nodes s) i) as [nd|] eqn:Hn; [|same_S].
  match goal with |- invS (if ?c then _ else _) => destruct c end; [same_S|].
  destruct HI as [A B C D]. constructor; simpl; auto.
  intros j nd' b Hj Hcj. destruct (nth_error_upd _ _ _ _ _ Hj) as [[-> ->] | [_ Hj']]; simpl in *.
  - destruct (Nat.eqb (pred (n_refs nd)) 0); [discriminate | eauto].
  - eauto.
Qed.

Lemma chunk_release_same s i blk :
  s_files (chunk_release s i blk) = s_files s /\ s_hq (chunk_release s i blk) = s_hq s /\
  s_bits (chunk_release s i blk) = s_bits s.
Proof.
  unfold chunk_release. destruct (nth_error (s_nodes s) i); [|simpl; auto].
  match goal with |- context [if ?c then _ else _] => destruct c end; simpl; auto.
Qed.

Lemma check_chunk_S s i b :
  invS s -> piece_bytes (s_files s) i = Some b -> invS (check_chunk pl s i b).
Proof.
  intros HI Hpb. unfold check_chunk.
  destruct (chunk_get pl s i true) as [s1 r] eqn:Hg.
  destruct (chunk_get_S _ _ _ _ _ HI Hg) as (HI1 & Hh & Hb & Hle & _).
  pose proof (chunk_release_S s1 i false HI1) as HI2.
  destruct (chunk_release_same s1 i false) as (Hf2 & Hh2 & Hb2).
  set (s2 := chunk_release s1 i false) in *.
  destruct HI2 as [A B C D]. constructor; simpl; auto.
  intros j c Hin. apply in_app_or in Hin. destruct Hin as [Hin | [Heq | []]]; [auto|].
  inversion Heq; subst. rewrite Hf2. rewrite <- (piece_bytes_le pl _ _ j Hle). exact Hpb.
Qed.

Lemma queue_S fuel : forall quick s, invS s -> invS (queue pl fuel quick s).
Proof.
  induction fuel as [|fuel IH]; intros quick s HI; simpl.
  - same_S.
  - destruct (Nat.leb (length (s_nodes s)) (s_pos s)).
    { unfold queue_tail. destruct (Nat.eqb (out_val s) 0); [same_S | auto]. }
    destruct (throttle (out_val s)); [auto|].
    destruct (next_range (s_ranges s) (s_pos s)) as [p|].
    2:{ unfold queue_tail. match goal with |- invS (if ?c then _ else _) => destruct c end; same_S. }
    assert (HI0 : invS (set_pos s p)) by (same_S).
    destruct (mem_full (set_pos s p)).
    { destruct quick; [destruct (negb (Nat.eqb (out_val (set_pos s p)) 0)) | destruct (Nat.eqb (out_val (set_pos s p)) 0)];
        try assumption; same_S. }
    destruct (chunk_get pl (set_pos s p) p false) as [s1 r] eqn:Hg.
    destruct (chunk_get_S _ _ _ _ _ HI0 Hg) as (HI1 & Hh & Hb & Hle & Hok).
    destruct quick.
    + destruct (negb (Nat.eqb (out_val s1) 0)); [same_S|].
      destruct r as [b|[|]]; auto using chunk_release_S.
      apply IH. same_S.
    + destruct r as [b|[|]].
      * apply IH. apply check_chunk_S; [same_S|]. simpl. auto.
      * apply IH. same_S.
      * destruct (negb (Nat.eqb (out_val s1) 0)); [auto | same_S].
Qed.

Lemma cleared_one_S s i : invS s -> invS (cleared_one s i).
Proof.
  intros HI. unfold cleared_one. apply chunk_release_S.
  destruct (is_checking s); [|auto].
  destruct (s_out s) as [[|k]|]; try (same_S).
  destruct (nth i (s_ranges s) false); same_S.
Qed.

Lemma cleared_one_hq s i : s_hq (cleared_one s i) = s_hq s.
Proof.
  unfold cleared_one. destruct (chunk_release_same
    (if is_checking s then match s_out s with
       | Some (S k) => if nth i (s_ranges s) false then set_ierr s else set_ranges (set_out s (Some k)) (upd (s_ranges s) i true)
       | _ => set_ierr s end else s) i true) as (_ & Hh & _).
  rewrite Hh. destruct (is_checking s); auto.
  destruct (s_out s) as [[|k]|]; auto. destruct (nth i (s_ranges s) false); auto.
Qed.

Lemma fold_cleared_S (l : list (nat * list N)) : forall s, invS s -> s_hq s = [] ->
  invS (fold_left (fun a e => cleared_one a (fst e)) l s) /\
  s_hq (fold_left (fun a e => cleared_one a (fst e)) l s) = [].
Proof.
  induction l as [|e l IH]; intros s HI Hh; simpl; auto.
  apply IH; [apply cleared_one_S; auto | rewrite cleared_one_hq; auto].
Qed.

Lemma hq_remove_all_S s : invS s -> invS (hq_remove_all s) /\ s_hq (hq_remove_all s) = [].
Proof.
  intros HI. unfold hq_remove_all. apply fold_cleared_S; [|reflexivity].
  destruct HI as [A B C D]. constructor; simpl; auto. intros i b [].
Qed.

Lemma ht_clear_S s : invS s -> invS (ht_clear s).
Proof. intros HI. same_S. Qed.

Lemma wrapper_close_S s : invS s -> invS (wrapper_close s).
Proof.
  intros HI. unfold wrapper_close.
  destruct (hq_remove_all_S _ (ht_clear_S _ HI)) as [HI1 Hh1].
  set (s1 := hq_remove_all (ht_clear s)) in *.
  destruct (s_open s1); [|auto].
  match goal with |- invS (set_nodes ?s3 []) => assert (Hx : invS s3) end.
  { assert (H2 : invS (set_files (set_open s1 false) (close_files (s_files s1)))).
    { apply invS_files; [same_S | apply close_files_le]. }
    assert (H3 : invS (set_bits (set_files (set_open s1 false) (close_files (s_files s1))) None)).
    { destruct H2 as [A B C D]. constructor; simpl in *; auto. discriminate. }
    match goal with |- invS (if ?c then _ else _) => destruct c end; [same_S | auto]. }
  destruct Hx as [A B C D]. constructor; simpl; auto.
  intros i nd b Hn. destruct i; discriminate.
Qed.

Lemma do_open_S s : invS s -> invS (do_open pl s).
Proof.
  intros HI. unfold do_open. destruct (s_open s) eqn:Ho; [auto|].
  assert (H1 : invS (set_files (set_open s true) (queue_create (open_files (s_files s))))).
  { apply invS_files; [same_S|].
    eapply files_le_trans; [apply open_files_le | apply queue_create_le]. }
  destruct H1 as [A B C D]. constructor; simpl in *; auto.
  intros i nd b Hn Hc. apply nth_error_In in Hn. apply repeat_spec in Hn. subst. discriminate.
Qed.

Lemma do_check_S q s : invS s -> invS (do_check pl q s).
Proof.
  intros HI. unfold do_check.
  destruct (is_checking s || negb (s_open s) || is_checked s); [auto|].
  cbv zeta.
  match goal with |- context [Nat.eqb (s_pos ?x) _] => set (s1 := x) in * end.
  assert (H1 : invS s1).
  { subst s1. destruct (s_bits s) as [b|] eqn:Hb.
    - destruct q; [auto|]. destruct HI as [A B C D]. constructor; simpl; auto.
      intros bl Hbl i Hi. inversion Hbl; subst. apply nth_unset_ranges in Hi. eauto.
    - destruct HI as [A B C D]. constructor; simpl; auto.
      intros bl Hbl i Hi. inversion Hbl; subst. rewrite nth_repeat_false in Hi. discriminate. }
  clearbody s1.
  match goal with |- invS (if ?c then _ else _) => destruct c end; [auto|].
  match goal with |- invS (if ?c then _ else _) => destruct c end; [same_S|].
  apply queue_S. destruct (0 <? Params.c09_start_erases_delay)%N; same_S.
Qed.

Lemma do_stop_S s : invS s -> invS (do_stop s).
Proof.
  intros HI. unfold do_stop. destruct (negb (is_checking s)); [auto|].
  apply ht_clear_S. apply hq_remove_all_S. same_S.
Qed.

Lemma do_tick_S s : invS s -> invS (do_tick s).
Proof.
  intros HI. unfold do_tick. destruct (negb (s_delay s)); [auto|].
  destruct (negb (is_checking (set_delay s false))).
  - apply wrapper_close_S. same_S.
  - cbv zeta.
    assert (H2 : invS (set_out (if Nat.eqb (out_val (set_delay s false)) 0 then set_delay s false
                                else set_ierr (set_delay s false)) None)).
    { destruct (Nat.eqb (out_val (set_delay s false)) 0); same_S. }
    match goal with |- context [s_hq ?x] => destruct (s_hq x) end; [auto | same_S].
Qed.

Lemma mark_completed_S s i :
  invS s -> valid (s_files s) i = true -> invS (mark_completed s i).
Proof.
  intros HI Hv. unfold mark_completed. destruct (s_bits s) as [b|] eqn:Hb; [|same_S].
  destruct (nth i b true); [same_S|].
  destruct HI as [A B C D]. constructor; simpl; auto.
  intros bl Hbl j Hj. inversion Hbl; subst.
  destruct (nth_upd_bool _ _ _ _ Hj) as [[-> _] | Hx]; eauto.
Qed.

Lemma mark_completed_same s i :
  s_files (mark_completed s i) = s_files s /\ s_hq (mark_completed s i) = s_hq s /\
  s_nodes (mark_completed s i) = s_nodes s.
Proof.
  unfold mark_completed. destruct (s_bits s); simpl; auto. destruct (nth i l true); simpl; auto.
Qed.

Lemma receive_hash_done_S s i b :
  invS s -> piece_bytes (s_files s) i = Some b -> invS (receive_hash_done H pl expected s i b).
Proof.
  intros HI Hpb. unfold receive_hash_done.
  destruct (negb (s_open s)); [same_S|].
  destruct (is_checking s); [|same_S].
  apply chunk_release_S.
  match goal with |- context [if ?c then mark_completed s i else s] =>
    assert (H1 : invS (if c then mark_completed s i else s)); [destruct c eqn:Hc|] end.
  { apply mark_completed_S; auto. unfold ProofsA.valid. rewrite Hpb. exact Hc. }
  { auto. }
  match goal with |- context [s_out ?x] => set (s1' := x) in * end.
  destruct (s_out s1') as [[|k]|]; try (same_S).
  apply queue_S. same_S.
Qed.

Lemma do_deliver_S s i : invS s -> invS (do_deliver H pl expected s i).
Proof.
  intros HI. unfold do_deliver. destruct (hq_take i (s_hq s)) as [[b q']|] eqn:Ht; [|auto].
  destruct (hq_take_in _ _ _ _ Ht) as [Hin Hsub].
  apply do_tick_S. apply receive_hash_done_S.
  - destruct HI as [A B C D]. constructor; simpl; auto.
  - simpl. eapply iS_hq; eauto.
Qed.

Lemma run_all_S fuel : forall s, invS s -> invS (run_all H pl expected fuel s).
Proof.
  induction fuel as [|f IH]; intros s HI; simpl; auto.
  destruct (s_hq s) as [|[i b] r]; [apply do_tick_S; auto|].
  apply IH. apply do_deliver_S; auto.
Qed.

End Inv.

Ltac same_S :=
  match goal with
  | Hs : invS _ _ _ _ ?x |- _ =>
      solve [eapply invS_same with (s := x); [exact Hs | reflexivity | reflexivity | reflexivity | reflexivity]]
  end.
