(* C09 — proofs, part L: only OLimit changes the memory limit. *)
From Coq Require Import List NArith Bool Arith Lia.
From LTV.C09 Require Import ParamsGen Model.
Import ListNotations.

Ltac crunch :=
  repeat match goal with
         | |- context [let (_, _) := ?x in _] => destruct x
         | |- context [if ?c then _ else _] => destruct c
         | |- context [match ?x with _ => _ end] => destruct x
         end; simpl; auto.

Section Lim.
Variable H : list N -> list N.
Variable pl : N.
Variable expected : nat -> list N.

Lemma chunk_get_lim s i b : s_lim (fst (chunk_get pl s i b)) = s_lim s.
Proof. unfold chunk_get. crunch. Qed.

Lemma chunk_release_lim s i b : s_lim (chunk_release s i b) = s_lim s.
Proof. unfold chunk_release. crunch. Qed.

Lemma check_chunk_lim s i b : s_lim (check_chunk pl s i b) = s_lim s.
Proof.
  unfold check_chunk. pose proof (chunk_get_lim s i true) as Hg.
  destruct (chunk_get pl s i true) as [s1 r]. simpl in *. rewrite chunk_release_lim. assumption.
Qed.

Lemma queue_lim fuel : forall q s, s_lim (queue pl fuel q s) = s_lim s.
Proof.
  induction fuel as [|fuel IH]; intros q s; simpl; [reflexivity|].
  destruct (Nat.leb (length (s_nodes s)) (s_pos s)); [unfold queue_tail; crunch|].
  destruct (throttle (out_val s)); [reflexivity|].
  destruct (next_range (s_ranges s) (s_pos s)) as [p|]; [|unfold queue_tail; crunch].
  destruct (mem_full (set_pos s p)); [crunch|].
  pose proof (chunk_get_lim (set_pos s p) p false) as Hg.
  destruct (chunk_get pl (set_pos s p) p false) as [s1 r]. simpl in Hg.
  destruct q.
  - destruct (negb (Nat.eqb (out_val s1) 0)); [simpl; assumption|].
    destruct r as [b|[|]]; [rewrite chunk_release_lim; assumption | rewrite IH; simpl; assumption | assumption].
  - destruct r as [b|[|]].
    + rewrite IH, check_chunk_lim. simpl. assumption.
    + rewrite IH. simpl. assumption.
    + destruct (negb (Nat.eqb (out_val s1) 0)); simpl; assumption.
Qed.

Lemma cleared_one_lim s i : s_lim (cleared_one s i) = s_lim s.
Proof. unfold cleared_one. rewrite chunk_release_lim. crunch. Qed.

Lemma fold_cleared_lim (l : list (nat * list N)) : forall s,
  s_lim (fold_left (fun a e => cleared_one a (fst e)) l s) = s_lim s.
Proof. induction l as [|e l IH]; intros s; simpl; auto. rewrite IH. apply cleared_one_lim. Qed.

Lemma wrapper_close_lim s : s_lim (wrapper_close s) = s_lim s.
Proof.
  unfold wrapper_close, hq_remove_all.
  destruct (s_open (fold_left (fun a e => cleared_one a (fst e)) (s_hq (ht_clear s)) (set_hq (ht_clear s) []))).
  - match goal with |- context [if ?c then _ else _] => destruct c end; simpl; rewrite fold_cleared_lim; reflexivity.
  - rewrite fold_cleared_lim. reflexivity.
Qed.

Lemma do_tick_lim s : s_lim (do_tick s) = s_lim s.
Proof.
  unfold do_tick. destruct (negb (s_delay s)); [reflexivity|].
  destruct (negb (is_checking (set_delay s false))); [rewrite wrapper_close_lim; reflexivity|].
  crunch.
Qed.

Lemma do_stop_lim s : s_lim (do_stop s) = s_lim s.
Proof.
  unfold do_stop. destruct (negb (is_checking s)); [reflexivity|].
  unfold ht_clear, hq_remove_all. simpl. rewrite fold_cleared_lim. reflexivity.
Qed.

Lemma do_open_lim s : s_lim (do_open pl s) = s_lim s.
Proof. unfold do_open. crunch. Qed.

Lemma do_check_lim q s : s_lim (do_check pl q s) = s_lim s.
Proof.
  unfold do_check. destruct (is_checking s || negb (s_open s) || is_checked s); [reflexivity|].
  cbv zeta.
  match goal with |- context [Nat.eqb (s_pos ?x) _] => set (s1 := x) end.
  assert (H1 : s_lim s1 = s_lim s) by (unfold s1; crunch).
  destruct (Nat.eqb (s_pos s1) (length (s_nodes s))); [assumption|].
  destruct (negb (Nat.eqb (s_pos s1) 0) || Nat.eqb (length (s_nodes s)) 0); [simpl; assumption|].
  rewrite queue_lim. crunch.
Qed.

Lemma receive_hash_done_lim s i b : s_lim (receive_hash_done H pl expected s i b) = s_lim s.
Proof.
  unfold receive_hash_done. destruct (negb (s_open s)); [reflexivity|].
  destruct (is_checking s); [|reflexivity].
  rewrite chunk_release_lim.
  match goal with |- context [s_out ?x] => set (s1 := x) end.
  assert (H1 : s_lim s1 = s_lim s) by (unfold s1, mark_completed; crunch).
  destruct (s_out s1) as [[|k]|]; [exact H1 | rewrite queue_lim; exact H1 | exact H1].
Qed.

Lemma do_deliver_lim s i : s_lim (do_deliver H pl expected s i) = s_lim s.
Proof.
  unfold do_deliver. destruct (hq_take i (s_hq s)) as [[b q']|]; [|reflexivity].
  rewrite do_tick_lim, receive_hash_done_lim. reflexivity.
Qed.

Lemma run_all_lim fuel : forall s, s_lim (run_all H pl expected fuel s) = s_lim s.
Proof.
  induction fuel as [|f IH]; intros s; simpl; [reflexivity|].
  destruct (s_hq s) as [|[i b] r]; [apply do_tick_lim|]. rewrite IH. apply do_deliver_lim.
Qed.

End Lim.
