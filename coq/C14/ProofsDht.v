(* C14 — proofs, part C: DHT datagrams and ut_pex payloads from the raw bytes (ModelDht.v), on top of
   C07's static-map theorems *)
From Coq Require Import List NArith ZArith Bool Lia Arith.
From Coq Require Import ZifyBool ZifyNat ZifyN.
From LTV Require Import Common.Bytes.
From LTV.C07 Require Import Model StaticMap ProofsSafe ProofsSM ProofsSMTotal.
From LTV.C14 Require Import ParamsGen Model Proofs ProofsB ModelDht.
Import ListNotations.
Local Open Scope N_scope.

Lemma dht_table_ok : table_ok dht = true.
Proof. vm_compute. reflexivity. Qed.
Lemma pex_table_ok : table_ok ext_pex = true.
Proof. vm_compute. reflexivity. Qed.

(* the error handler never yields DFault *)
Lemma dht_fail_not_fault : forall e ty nid code m, dht_fail e ty nid code m <> DFault.
Proof.
  intros e ty nid code m. unfold dht_fail. destruct nid as [id|]; [|discriminate].
  destruct ((ty =? ch_r) || (ty =? ch_e)); discriminate.
Qed.

(* ANY byte string (shorter than 2^32) as a DHT datagram: decoding and all envelope / type checks stay in range *)
Lemma dht_envelope_never_faults : forall own dgram, short dgram -> dht_envelope own dgram <> DFault.
Proof.
  intros own dgram Hs. unfold dht_envelope.
  destruct (static_map_total dht dgram dht_table_ok Hs) as (Hf & Ho & _).
  destruct (sm_read dht dgram) as [e rest| | |]; try congruence; try discriminate.
  destruct (ent_raw_string e k_t) as [t|]; [|apply dht_fail_not_fault].
  destruct (20 <? N.of_nat (length t)); [apply dht_fail_not_fault|].
  destruct (ent_raw_string e k_y) as [y|]; [|apply dht_fail_not_fault].
  destruct y as [|ty [|y2 y]]; try apply dht_fail_not_fault.
  destruct ((ty =? ch_r) || (ty =? ch_q)) eqn:Hrq.
  - destruct (ent_raw_string e (if ty =? ch_q then k_a_id else k_r_id)) as [idb|]; [|apply dht_fail_not_fault].
    destruct (length idb <? id_size)%nat; [apply dht_fail_not_fault|].
    destruct (((ty =? ch_r) || (ty =? ch_e)) && negb (length t =? 1)%nat); [apply dht_fail_not_fault|].
    destruct (bytes_eqb (firstn id_size idb) own); [apply dht_fail_not_fault|].
    destruct (ty =? ch_q); [discriminate|]. destruct (ty =? ch_r); [discriminate|].
    destruct (ty =? ch_e); [discriminate|apply dht_fail_not_fault].
  - apply orb_false_iff in Hrq. destruct Hrq as [Hr Hq]. rewrite Hr, Hq.
    destruct (((false || (ty =? ch_e)) && negb (length t =? 1)%nat)); [apply dht_fail_not_fault|].
    destruct (ty =? ch_e); [discriminate|apply dht_fail_not_fault].
Qed.

Lemma firstn_short : forall n (l : bytes), N.of_nat n < 4294967296 -> short (firstn n l).
Proof.
  intros n l H. unfold short, LTV.C07.Model.two32. pose proof (firstn_le_length n l). lia.
Qed.

Lemma dht_datagram_never_faults : forall own dgram, dht_datagram own dgram <> DFault.
Proof.
  intros own dgram. unfold dht_datagram. apply dht_envelope_never_faults, firstn_short.
  unfold dht_buffer_size, Params.dht_datagram_buffer. rewrite N2Nat.id. lia.
Qed.

(* a datagram the static-map reader rejects is dropped: no reply, no state touched (the envelope is a pure
   function of the own id and the datagram, so a malformed packet can only fail itself) *)
Lemma dht_malformed_ignored : forall own dgram, sm_read dht dgram = Reject -> dht_envelope own dgram = DIgnore.
Proof. intros own dgram H. unfold dht_envelope. rewrite H. reflexivity. Qed.

(* a query is dispatched only with a string t of at most 20 bytes, y = "q" and an a.id of at least 20 bytes that
   is not the own id *)
Lemma dht_query_needs_envelope : forall own dgram id, dht_envelope own dgram = DQuery id ->
  exists e rest t idb, sm_read dht dgram = Ok e rest /\ ent_raw_string e k_t = Some t /\ (length t <= 20)%nat /\
    ent_raw_string e k_y = Some [ch_q] /\ ent_raw_string e k_a_id = Some idb /\ (id_size <= length idb)%nat /\
    id = firstn id_size idb /\ bytes_eqb id own = false.
Proof.
  intros own dgram id. unfold dht_envelope.
  destruct (sm_read dht dgram) as [e rest| | |]; try discriminate.
  destruct (ent_raw_string e k_t) as [t|] eqn:Ht; [|intro H; exfalso; revert H; unfold dht_fail; discriminate].
  destruct (20 <? N.of_nat (length t)) eqn:Hl; [unfold dht_fail; discriminate|].
  destruct (ent_raw_string e k_y) as [y|] eqn:Hy; [|unfold dht_fail; discriminate].
  destruct y as [|ty [|y2 y]]; try (unfold dht_fail; discriminate).
  assert (F : forall nid code m, dht_fail e ty nid code m <> DQuery id).
  { intros nid code m. unfold dht_fail. destruct nid; [|discriminate]. destruct ((ty =? ch_r) || (ty =? ch_e)); discriminate. }
  destruct ((ty =? ch_r) || (ty =? ch_q)) eqn:Hrq.
  - destruct (N.eqb_spec ty ch_q) as [->|Hq].
    + cbn [N.eqb]. change (ch_q =? ch_q) with true. cbn [orb].
      destruct (ent_raw_string e k_a_id) as [idb|] eqn:Hid; [|intro H; exfalso; exact (F _ _ _ H)].
      destruct (Nat.ltb_spec (length idb) id_size) as [Hlt|Hge]; [intro H; exfalso; exact (F _ _ _ H)|].
      change ((ch_q =? ch_r) || (ch_q =? ch_e)) with false. cbn [andb].
      destruct (bytes_eqb (firstn id_size idb) own) eqn:Ho; [intro H; exfalso; exact (F _ _ _ H)|].
      intro H. inversion H. subst id. exists e, rest, t, idb. repeat split; try assumption; try reflexivity. lia.
    + replace (ty =? ch_q) with false by (symmetry; apply N.eqb_neq; exact Hq).
      destruct (ent_raw_string e k_r_id) as [idb|]; [|intro H; exfalso; exact (F _ _ _ H)].
      destruct (length idb <? id_size)%nat; [intro H; exfalso; exact (F _ _ _ H)|].
      destruct (((ty =? ch_r) || (ty =? ch_e)) && negb (length t =? 1)%nat); [intro H; exfalso; exact (F _ _ _ H)|].
      destruct (bytes_eqb (firstn id_size idb) own); [intro H; exfalso; exact (F _ _ _ H)|].
      destruct (ty =? ch_r); [discriminate|]. destruct (ty =? ch_e); [discriminate|]. intro H; exfalso; exact (F _ _ _ H).
  - apply orb_false_iff in Hrq. destruct Hrq as [Hr Hq]. rewrite Hr, Hq.
    destruct (((false || (ty =? ch_e)) && negb (length t =? 1)%nat)); [intro H; exfalso; exact (F _ _ _ H)|].
    destruct (ty =? ch_e); [discriminate|]. intro H; exfalso; exact (F _ _ _ H).
Qed.

(* peers of a get_peers reply: exactly the leading "6:" + 6-byte entries of the raw r.values list *)
Lemma dht_values_exact : forall dgram r, dht_reply_values dgram = Some r ->
  exists e rest v, sm_read dht dgram = Ok e rest /\ ent_raw_list e k_r_values = Some v /\
                   r = POk (spec_bencode (S (length v)) v).
Proof.
  intros dgram r. unfold dht_reply_values.
  destruct (sm_read dht dgram) as [e rest| | |]; try discriminate.
  destruct (ent_raw_list e k_r_values) as [v|] eqn:Hv; [|discriminate].
  intro H. inversion H. exists e, rest, v. repeat split; try assumption. apply bencode_peers_exact.
Qed.

(* ------------------------------------------------------------------ ut_pex from the raw payload *)

Lemma pex_never_faults : forall av maxsz payload, short payload -> pex_apply av maxsz payload <> PexFault.
Proof.
  intros av maxsz payload Hs. unfold pex_apply, pex_message.
  destruct (static_map_total ext_pex payload pex_table_ok Hs) as (Hf & Ho & _).
  destruct (sm_read ext_pex payload) as [e rest| | |]; try congruence; try discriminate.
  destruct (ent_raw_string e k_pex_added) as [added|]; [|discriminate].
  cbn [pl_step]. destruct added as [|c added]; [cbn; discriminate|].
  rewrite compact_exact. destruct (insert_available no_skip av maxsz _) as [av' r]. cbn. discriminate.
Qed.

(* what ut_pex contributes, from the raw extension payload: the "added" string's whole 6-byte records, sorted and
   made unique, offered to insert_available; nothing when "added" is absent or not a string *)
Lemma pex_exact : forall av maxsz payload av' ret, pex_apply av maxsz payload = PexDone av' ret ->
  exists e rest, sm_read ext_pex payload = Ok e rest /\
    match ent_raw_string e k_pex_added with
    | None => av' = av /\ ret = None
    | Some [] => av' = av /\ ret = Some 1
    | Some added => (av', ret) = (let '(a, r) := insert_available no_skip av maxsz (sort_and_unique (whole_records false added))
                                  in (a, Some r))
    end.
Proof.
  intros av maxsz payload av' ret. unfold pex_apply, pex_message.
  destruct (sm_read ext_pex payload) as [e rest| | |]; try discriminate.
  intro H. exists e, rest. split; [reflexivity|].
  destruct (ent_raw_string e k_pex_added) as [added|]; [|inversion H; auto].
  cbn [pl_step] in H. destruct added as [|c added].
  - cbn in H. inversion H. auto.
  - rewrite compact_exact in H. destruct (insert_available no_skip av maxsz _) as [a r]. cbn in H. inversion H. reflexivity.
Qed.

Lemma pex_retained_usable_and_cap : forall av maxsz payload av' ret,
  (forall a, In a av -> usable a) -> alen av <= maxsz ->
  pex_apply av maxsz payload = PexDone av' ret ->
  (forall a, In a av' -> usable a) /\ alen av' <= maxsz.
Proof.
  intros av maxsz payload av' ret Hu Hc. unfold pex_apply.
  destruct (pex_message payload) as [[added|] rest| | |]; try discriminate.
  - pose proof (pl_step_inv maxsz (POk (av, [])) (OpPex added) (conj Hu Hc)) as I.
    destruct (pl_step maxsz (POk (av, [])) (OpPex added)) as [[a rs]| |]; try discriminate.
    destruct rs as [|r [|r2 rs]]; try discriminate. intro H. inversion H. subst. exact I.
  - intro H. inversion H. subst. split; assumption.
Qed.

Example ex_dht_ping :
  dht_envelope (repeat 17 20)
    ([100;49;58;97;100;50;58;105;100;50;48;58] ++ repeat 34 20 ++ [101;49;58;113;52;58;112;105;110;103;49;58;116;50;58;97;97;49;58;121;49;58;113;101])
  = DQuery (repeat 34 20).
Proof. vm_compute. reflexivity. Qed.
Example ex_dht_no_tid : dht_envelope [] [100;49;58;121;49;58;113;101] = DError None 203 MNoTid.
Proof. vm_compute. reflexivity. Qed.
Example ex_dht_garbage : dht_envelope [] [104;101;108;108;111] = DIgnore.
Proof. vm_compute. reflexivity. Qed.
Example ex_pex :
  pex_apply [] 10 [100;53;58;97;100;100;101;100;49;50;58; 1;2;3;4;26;225; 0;0;0;0;0;80; 101] = PexDone [A4 16909060 6881] (Some 1).
Proof. vm_compute. reflexivity. Qed.

(* ------------------------------------------------------------------ PeerList with PeerInfo entries *)

Lemma skip_of_set_ap : forall now x port ps y, skip_of now (pi_set_ap x port ps) y = skip_of now ps y.
Proof.
  intros now x port ps y. unfold skip_of. induction ps as [|p ps IH]; [reflexivity|].
  cbn [pi_set_ap pi_find]. destruct (key_eqb (pi_key p) x) eqn:Hx; cbn [pi_find pi_key].
  - destruct (key_eqb (pi_key p) y); reflexivity.
  - destruct (key_eqb (pi_key p) y); [reflexivity|exact IH].
Qed.

(* the concrete PeerInfo-carrying loop is the abstract loop of Model.v instantiated with skip_of: all theorems
   about insert_available (retained_usable, retained_from_input, cap) apply to it *)
Lemma ia_loop_pi_projection : forall now sk al av old maxsz ins ps,
  (forall y, skip_of now ps y = sk y) ->
  fst (ia_loop_pi now al av old maxsz ins ps) = ia_loop sk al av old maxsz ins.
Proof.
  intros now sk. induction al as [|x al IH]; intros av old maxsz ins ps Hsk; [reflexivity|].
  cbn [ia_loop_pi ia_loop].
  destruct (negb (alen av <? maxsz)); [reflexivity|].
  destruct ((addr_port x =? 0) || addr_is_any x); [apply IH; exact Hsk|].
  assert (Hs : sk x = match pi_find x ps with Some p => pi_skips now p | None => false end) by (rewrite <- Hsk; reflexivity).
  assert (Hsk' : forall port y, skip_of now (pi_set_ap x port ps) y = sk y) by (intros; rewrite skip_of_set_ap; apply Hsk).
  destruct (find_less old x) as [|e old1].
  - destruct (pi_find x ps) as [p|]; rewrite Hs.
    + destruct (pi_lp p =? 0); destruct (pi_skips now p); apply IH; auto.
    + apply IH; exact Hsk.
  - destruct (negb (addr_ltb_addr e x)); [apply IH; exact Hsk|].
    destruct (pi_find x ps) as [p|]; rewrite Hs.
    + destruct (pi_lp p =? 0); destruct (pi_skips now p); apply IH; auto.
    + apply IH; exact Hsk.
Qed.

Lemma insert_available_pi_projection : forall now av maxsz ps al,
  fst (insert_available_pi now av maxsz ps al) = insert_available (skip_of now ps) av maxsz al.
Proof.
  intros now av maxsz ps al. unfold insert_available_pi, insert_available.
  destruct (maxsz <=? alen av); [reflexivity|]. apply ia_loop_pi_projection. reflexivity.
Qed.

Lemma pi_retained_usable_and_cap : forall now av maxsz ps al,
  (forall a, In a av -> usable a) ->
  (forall a, In a (fst (fst (insert_available_pi now av maxsz ps al))) -> usable a) /\
  alen (fst (fst (insert_available_pi now av maxsz ps al))) <= N.max (alen av) maxsz /\
  (forall a, In a (fst (fst (insert_available_pi now av maxsz ps al))) -> In a av \/ In a al).
Proof.
  intros now av maxsz ps al Hu. rewrite insert_available_pi_projection.
  split; [apply retained_usable; exact Hu|]. split; [apply cap|]. intro a. apply retained_from_input.
Qed.

(* an address whose PeerInfo is connected (or shook hands less than 600 s ago) is never added *)
Lemma ia_loop_skipped_not_added : forall sk al av old maxsz ins a,
  sk a = true -> In a (fst (ia_loop sk al av old maxsz ins)) -> In a av.
Proof.
  intros sk. induction al as [|x al IH]; intros av old maxsz ins a Ha; [cbn; auto|].
  cbn [ia_loop].
  destruct (negb (alen av <? maxsz)); [cbn; auto|].
  destruct ((addr_port x =? 0) || addr_is_any x); [apply IH; exact Ha|].
  assert (K : sk x = false -> In a (insert_unique av x) -> In a av).
  { intros Hx Hin. apply insert_unique_in in Hin. destruct Hin as [Hin| ->]; [exact Hin|congruence]. }
  destruct (find_less old x) as [|e old1].
  - destruct (sk x) eqn:Hx; [apply IH; exact Ha|]. intro H. apply K; [reflexivity|]. eapply IH; [exact Ha|exact H].
  - destruct (negb (addr_ltb_addr e x)); [apply IH; exact Ha|].
    destruct (sk x) eqn:Hx; [apply IH; exact Ha|]. intro H. apply K; [reflexivity|]. eapply IH; [exact Ha|exact H].
Qed.

Lemma pi_connected_never_added : forall now av maxsz ps al a p,
  pi_find a ps = Some p -> pi_skips now p = true ->
  In a (fst (fst (insert_available_pi now av maxsz ps al))) -> In a av.
Proof.
  intros now av maxsz ps al a p Hf Hs. rewrite insert_available_pi_projection. unfold insert_available.
  destruct (maxsz <=? alen av); [cbn; auto|].
  apply ia_loop_skipped_not_added. unfold skip_of. rewrite Hf. exact Hs.
Qed.

Example ex_pi :
  fst (fst (insert_available_pi 1000 [] 10 [mkPi (A4 16909060 0) 0 0 true 0] [A4 16909060 6881; A4 84281096 80]))
  = [A4 84281096 80].
Proof. vm_compute. reflexivity. Qed.

(* ------------------------------------------------------------------ TrackerHttp, two address families *)

(* while the second family is still to be tried, a failing reply (malformed body, failure reason, …) reports
   nothing upwards: it only fails this request, and the tracker state is what the single-reply model computes *)
Lemma http_retry_fails_one_family : forall ih ev h body msg,
  h_next h = true -> snd (http_receive_done ih ev body (h_ts h)) = EvFailure msg ->
  snd (http_step ih ev h body) = HRetry /\
  h_ts (fst (http_step ih ev h body)) = fst (http_receive_done ih ev body (h_ts h)) /\
  h_next (fst (http_step ih ev h body)) = false.
Proof.
  intros ih ev h body msg Hn Hf. unfold http_step.
  destruct (http_receive_done ih ev body (h_ts h)) as [ts' e]. cbn [fst snd] in *.
  subst e. rewrite Hn. cbn. auto.
Qed.

(* a success is never turned into a failure by the other family: after a good first reply the announce ends as
   success whatever the second reply is *)
Lemma http_second_failure_after_success : forall ih ev h body msg,
  h_next h = false -> h_last_ok h = true -> snd (http_receive_done ih ev body (h_ts h)) = EvFailure msg ->
  snd (http_step ih ev h body) = HEv (EvSuccess []).
Proof.
  intros ih ev h body msg Hn Ho He. unfold http_step.
  destruct (http_receive_done ih ev body (h_ts h)) as [ts' e]. cbn [snd] in He. subst e. rewrite Hn, Ho. reflexivity.
Qed.

Example ex_http_two_families :
  snd (http_two_families [] 2 [[120]; [100;53;58;112;101;101;114;115;54;58;1;2;3;4;0;80;101]])
  = [HRetry; HEv (EvSuccess [A4 16909060 80])].
Proof. vm_compute. reflexivity. Qed.

(* ------------------------------------------------------------------ find_node reply: our own id is never contacted *)

Lemma contact_insert_in : forall target c l x, In x (contact_insert target c l) -> x = c \/ In x l.
Proof.
  intros target c. induction l as [|d l IH]; intros x H.
  - cbn in H. destruct H as [<-|[]]. left. reflexivity.
  - cbn [contact_insert] in H. destruct (fst c =? fst d); [right; exact H|].
    destruct (N.lxor (fst c) target <? N.lxor (fst d) target).
    + destruct H as [<-|H]; [left; reflexivity|right; exact H].
    + destruct H as [<-|H]; [right; left; reflexivity|].
      destruct (IH x H) as [->|Hin]; [left; reflexivity|right; right; exact Hin].
Qed.

Lemma find_node_contacts_spec : forall own target resp recs x,
  In x (find_node_contacts own target resp recs) -> fst x <> own /\ fst x <> resp /\ In x recs.
Proof.
  intros own target resp recs x. unfold find_node_contacts.
  assert (G : forall recs acc,
             (forall y, In y acc -> fst y <> own /\ fst y <> resp) ->
             In x (fold_left (fun acc r => if (fst r =? own) || (fst r =? resp) then acc else contact_insert target r acc) recs acc) ->
             (fst x <> own /\ fst x <> resp) /\ (In x acc \/ In x recs)).
  { induction recs0 as [|r recs0 IH]; intros acc Hacc H.
    - cbn in H. split; [apply Hacc, H|left; exact H].
    - cbn [fold_left] in H. destruct ((fst r =? own) || (fst r =? resp)) eqn:E.
      + destruct (IH acc Hacc H) as [P [Q|Q]]; (split; [exact P|]); [left; exact Q|right; right; exact Q].
      + apply orb_false_iff in E. destruct E as [E1 E2].
        assert (Hacc' : forall y, In y (contact_insert target r acc) -> fst y <> own /\ fst y <> resp).
        { intros y Hy. apply contact_insert_in in Hy. destruct Hy as [->|Hy]; [split; lia|apply Hacc, Hy]. }
        destruct (IH _ Hacc' H) as [P [Q|Q]]; (split; [exact P|]).
        * apply contact_insert_in in Q. destruct Q as [->|Q]; [right; left; reflexivity|left; exact Q].
        * right; right; exact Q. }
  intro H. destruct (G recs [] (fun y (F : In y []) => match F with end) H) as [[P1 P2] [[]|Q]]. auto.
Qed.

Lemma firstn_incl : forall (A : Type) n (l : list A) x, In x (firstn n l) -> In x l.
Proof.
  intros A n. induction n as [|n IH]; intros l x H; [destruct H|].
  destruct l as [|a l]; [destruct H|]. cbn in H. destruct H as [<-|H]; [left; reflexivity|right; apply IH, H].
Qed.

(* whatever the compact `nodes` string of a matched find_node reply holds: a query is only ever sent to a contact
   that the string names, whose id is neither OUR OWN id nor the responder's, and to at most 3 of them *)
Lemma own_id_never_contacted : forall announce matched own target resp nodes l,
  dht_find_node_reply announce matched own target resp nodes = FnQueries l ->
  (length l <= search_concurrency)%nat /\
  forall x, In x l -> fst x <> own /\ fst x <> resp /\
                      exists b recs, nodes = Some b /\ parse_compact_nodes b = POk recs /\ In x recs.
Proof.
  intros announce matched own target resp nodes l. unfold dht_find_node_reply.
  destruct (negb matched); [discriminate|]. destruct nodes as [b|]; [|discriminate].
  destruct (parse_compact_nodes b) as [recs| |] eqn:Hp; try discriminate.
  set (cs := find_node_contacts own target resp recs).
  assert (Hf : forall x, In x (firstn search_concurrency cs) -> In x cs) by (intros x Hx; eapply firstn_incl; exact Hx).
  assert (Hl : (length (firstn search_concurrency cs) <= search_concurrency)%nat) by apply firstn_le_length.
  destruct (firstn search_concurrency cs) as [|q0 q] eqn:Hq.
  - destruct announce; [discriminate|]. intro H. inversion H. split; [cbn; lia|intros x []].
  - intro H. inversion H. subst l. split; [exact Hl|].
    intros x Hx. destruct (find_node_contacts_spec own target resp recs x (Hf x Hx)) as (A & B & C).
    split; [exact A|]. split; [exact B|]. exists b, recs. auto.
Qed.

(* an unmatched reply (wrong transaction id, wrong node id, other source address) has no effect *)
Lemma unmatched_reply_ignored : forall announce own target resp nodes,
  dht_find_node_reply announce false own target resp nodes = FnIgnored.
Proof. reflexivity. Qed.

Example ex_find_node_own_id :
  dht_find_node_reply false true 5 7 9 (Some (repeat 0 19 ++ [5] ++ [127;0;0;3;3;235] ++ repeat 0 19 ++ [6] ++ [127;0;0;4;3;236]))
  = FnQueries [(6, A4 2130706436 1004)].
Proof. vm_compute. reflexivity. Qed.

(* ------------------------------------------------------------------ compact node records *)
Ltac Zify.zify_post_hook ::= Z.div_mod_to_equations.

(* the whole 26-byte compact node records (id, IPv4 address, port), in order, nothing else *)
Definition mk_node (l : bytes) : N * addr :=
  (be_value (firstn 20 l) 0, A4 (be_value (firstn 4 (skipn 20 l)) 0) (be_value (firstn 2 (skipn 24 l)) 0)).

Fixpoint spec_nodes (fuel : nat) (l : bytes) : list (N * addr) :=
  match fuel with
  | O => []
  | S f => if (length l <? 26)%nat then [] else mk_node l :: spec_nodes f (skipn 26 l)
  end.

Lemma copy_nodes_spec : forall fuel rest pre acc,
  (length rest < fuel)%nat ->
  copy_nodes fuel (pre ++ rest) (blen pre) (blen pre + (blen rest - blen rest mod 26)) acc
  = POk (rev acc ++ spec_nodes fuel rest).
Proof.
  induction fuel as [|fuel IH]; intros rest pre acc Hf; [lia|].
  cbn [copy_nodes spec_nodes].
  destruct (Nat.ltb_spec (length rest) 26) as [Hs|Hs].
  - assert (E : blen rest mod 26 = blen rest) by (apply N.mod_small; unfold blen; lia).
    rewrite E, N.sub_diag, N.add_0_r, N.eqb_refl, app_nil_r. reflexivity.
  - remember (blen pre + (blen rest - blen rest mod 26)) as endp eqn:Hendp.
    assert (Hne : (blen pre =? endp) = false) by (apply N.eqb_neq; subst endp; unfold blen in *; lia).
    rewrite Hne.
    destruct (split3 rest 20 6) as (Hd & HA & HQ); [lia|].
    remember (firstn 20 rest) as A eqn:HeqA. remember (firstn 6 (skipn 20 rest)) as Q eqn:HeqQ.
    remember (skipn (20 + 6) rest) as R eqn:HeqR.
    destruct (split3 Q 4 2) as (Hq & HB & HP); [lia|].
    remember (firstn 4 Q) as B eqn:HeqB. remember (firstn 2 (skipn 4 Q)) as P eqn:HeqP.
    assert (HQ6 : skipn (4 + 2) Q = []) by (apply skipn_all2; lia).
    rewrite HQ6, app_nil_r in Hq.
    assert (Hbuf : pre ++ rest = pre ++ A ++ B ++ P ++ R).
    { rewrite Hd at 1. rewrite Hq. rewrite <- !app_assoc. reflexivity. }
    assert (R1 : rd_be (pre ++ rest) (blen pre) 20 0 = Some (be_value A 0)).
    { rewrite Hbuf. replace 20%nat with (length A) by exact HA. apply rd_be_app. }
    assert (R2 : rd_be (pre ++ rest) (blen pre + 20) 4 0 = Some (be_value B 0)).
    { rewrite Hbuf. rewrite (app_assoc pre A).
      replace (blen pre + 20) with (blen (pre ++ A)) by (rewrite blen_app; unfold blen at 2; rewrite HA; reflexivity).
      replace 4%nat with (length B) by exact HB. apply rd_be_app. }
    assert (R3 : rd_be (pre ++ rest) (blen pre + 24) 2 0 = Some (be_value P 0)).
    { rewrite Hbuf. rewrite (app_assoc pre A), (app_assoc (pre ++ A) B).
      replace (blen pre + 24) with (blen ((pre ++ A) ++ B))
        by (rewrite !blen_app; unfold blen at 2 3; rewrite HA, HB; lia).
      replace 2%nat with (length P) by exact HP. apply rd_be_app. }
    rewrite R1, R2, R3. unfold node_record_size.
    assert (Hbuf2 : pre ++ rest = (pre ++ A ++ B ++ P) ++ R) by (rewrite Hbuf, <- !app_assoc; reflexivity).
    assert (Hlen : blen (pre ++ A ++ B ++ P) = blen pre + 26).
    { rewrite !blen_app. unfold blen at 2 3 4. rewrite HA, HB, HP. lia. }
    assert (HR : blen rest = 26 + blen R).
    { rewrite Hd at 1. rewrite !blen_app. unfold blen at 1 2. rewrite HA, HQ. lia. }
    assert (Hend : endp = blen (pre ++ A ++ B ++ P) + (blen R - blen R mod 26)) by (subst endp; rewrite Hlen, HR; lia).
    rewrite Hend, <- Hlen, Hbuf2, IH.
    + cbn [rev]. rewrite <- app_assoc. cbn [app]. unfold mk_node.
      rewrite <- HeqA.
      assert (E4 : firstn 4 (skipn 20 rest) = B).
      { rewrite HeqB, HeqQ. rewrite firstn_firstn. reflexivity. }
      assert (E2 : firstn 2 (skipn 24 rest) = P).
      { rewrite HeqP, HeqQ. change 6%nat with (4 + 2)%nat. rewrite <- firstn_skipn_comm.
        rewrite firstn_firstn. rewrite skipn_skipn. reflexivity. }
      rewrite E4, E2, HeqR. reflexivity.
    + rewrite HeqR, skipn_length. lia.
Qed.

Lemma compact_nodes_exact : forall buf, parse_compact_nodes buf = POk (spec_nodes (S (length buf)) buf).
Proof.
  intro buf. unfold parse_compact_nodes, node_record_size.
  pose proof (copy_nodes_spec (S (length buf)) buf [] []) as H.
  cbn [app rev] in H. unfold blen at 1 2 in H. cbn [length] in H.
  change (N.of_nat 0) with 0 in H. rewrite !N.add_0_l in H. apply H. lia.
Qed.

(* a matched reply never makes the server read outside the `nodes` string *)
Lemma find_node_reply_never_faults : forall announce matched own target resp nodes,
  dht_find_node_reply announce matched own target resp nodes <> FnFault.
Proof.
  intros announce matched own target resp nodes. unfold dht_find_node_reply.
  destruct (negb matched); [discriminate|]. destruct nodes as [b|]; [|discriminate].
  rewrite compact_nodes_exact.
  destruct (firstn search_concurrency _); [destruct announce; discriminate|discriminate].
Qed.

(* ------------------------------------------------------------------ the whole search: our own id is never a contact *)

Definition no_own (own : N) (l : list contact) : Prop := forall c, In c l -> c_id c <> own.

Lemma insert_contact_in : forall t c l l' x, insert_contact t c l = Some l' -> In x l' -> x = c \/ In x l.
Proof.
  intros t c. induction l as [|y l IH]; intros l' x H Hx.
  - cbn in H. inversion H. subst. destruct Hx as [<-|[]]. left; reflexivity.
  - cbn [insert_contact] in H. destruct (closer t (c_id c) (c_id y)).
    + inversion H. subst. destruct Hx as [<-|Hx]; [left; reflexivity|right; exact Hx].
    + destruct (closer t (c_id y) (c_id c)); [|discriminate].
      destruct (insert_contact t c l) as [r'|] eqn:E; [|discriminate]. inversion H. subst.
      destruct Hx as [<-|Hx]; [right; left; reflexivity|].
      destruct (IH r' x eq_refl Hx) as [->|Hin]; [left; reflexivity|right; right; exact Hin].
Qed.

Lemma add_contact_no_own : forall own t s id a, id <> own -> no_own own (s_cs s) -> no_own own (s_cs (s_add_contact t s id a)).
Proof.
  intros own t s id a Hid H. unfold s_add_contact.
  destruct (insert_contact t (mkC id a CNew) (s_cs s)) as [l|] eqn:E; [|exact H].
  cbn [s_cs]. intros c Hc. destruct (insert_contact_in _ _ _ _ _ E Hc) as [->|Hin]; [exact Hid|apply H, Hin].
Qed.

Lemma set_status_ids : forall id st l c, In c (set_status id st l) -> exists c', In c' l /\ c_id c = c_id c'.
Proof.
  intros id st. induction l as [|y l IH]; intros c H; [destruct H|].
  cbn [set_status] in H. destruct (c_id y =? id).
  - destruct H as [<-|H]; [exists y; split; [left; reflexivity|reflexivity]|exists c; split; [right; exact H|reflexivity]].
  - destruct H as [<-|H]; [exists y; split; [left; reflexivity|reflexivity]|].
    destruct (IH c H) as (c' & Hin & E). exists c'. split; [right; exact Hin|exact E].
Qed.

Lemma set_status_no_own : forall own id st l, no_own own l -> no_own own (set_status id st l).
Proof. intros own id st l H c Hc. destruct (set_status_ids _ _ _ _ Hc) as (c' & Hin & E). rewrite E. apply H, Hin. Qed.

Lemma trim_go_incl : forall need l c, In c (trim_go need l) -> In c l.
Proof.
  intros need l. revert need. induction l as [|y l IH]; intros need c H; [destruct H|].
  cbn [trim_go] in H. destruct (negb (is_active y) && (need =? 0)).
  - right. eapply IH. exact H.
  - destruct H as [<-|H]; [left; reflexivity|right; eapply IH; exact H].
Qed.

Lemma get_contact_no_own : forall own s, no_own own (s_cs s) ->
  no_own own (s_cs (fst (s_get_contact s))) /\ (forall c, snd (s_get_contact s) = Some c -> c_id c <> own).
Proof.
  intros own s H. unfold s_get_contact. destruct (s_conc s <=? s_pending s); [cbn; split; [exact H|discriminate]|].
  set (s1 := if s_restart s then s_trim s else s).
  assert (H1 : no_own own (s_cs s1)).
  { unfold s1. destruct (s_restart s); [|exact H]. cbn [s_trim s_cs]. intros c Hc. apply H. eapply trim_go_incl. exact Hc. }
  destruct (s_next s1) as [id|]; [|cbn; split; [exact H1|discriminate]].
  cbn [fst snd s_cs]. split; [apply set_status_no_own, H1|].
  intros c Hc. unfold find_contact in Hc. apply find_some in Hc. destruct Hc as [Hin _].
  exact (set_status_no_own own id CActive _ H1 c Hin).
Qed.

Lemma fill_no_own : forall own fuel s acc, no_own own (s_cs s) -> (forall c, In c acc -> c_id c <> own) ->
  no_own own (s_cs (fst (s_fill fuel s acc))) /\ (forall c, In c (snd (s_fill fuel s acc)) -> c_id c <> own).
Proof.
  intros own. induction fuel as [|fuel IH]; intros s acc Hs Hacc; [cbn; split; assumption|].
  cbn [s_fill]. destruct (get_contact_no_own own s Hs) as [G1 G2].
  destruct (s_get_contact s) as [s' [c|]]; cbn [fst snd] in *.
  - apply IH; [exact G1|]. intros x Hx. apply in_app_iff in Hx. destruct Hx as [Hx|[<-|[]]]; [apply Hacc, Hx|apply G2; reflexivity].
  - split; assumption.
Qed.

Lemma fold_add_no_own : forall own t (f : N * addr -> bool) recs s,
  (forall r, In r recs -> f r = false -> fst r <> own) -> no_own own (s_cs s) ->
  no_own own (s_cs (fold_left (fun s r => if f r then s else s_add_contact t s (fst r) (snd r)) recs s)).
Proof.
  intros own t f. induction recs as [|r recs IH]; intros s Hf Hs; [exact Hs|].
  cbn [fold_left]. apply IH; [intros x Hx; apply Hf; right; exact Hx|].
  destruct (f r) eqn:E; [exact Hs|]. apply add_contact_no_own; [apply Hf; [left; reflexivity|exact E]|exact Hs].
Qed.

Lemma search_reply_no_own : forall own t s resp recs, no_own own (s_cs s) ->
  no_own own (s_cs (fst (search_reply own t s resp recs))) /\
  (forall c, In c (snd (search_reply own t s resp recs)) -> c_id c <> own).
Proof.
  intros own t s resp recs Hs. unfold search_reply.
  destruct (find_contact resp (s_cs s)) as [c|]; [|cbn; split; [exact Hs|intros c []]].
  destruct (is_active c); [|cbn; split; [exact Hs|intros x []]].
  apply fill_no_own; [|intros x []].
  apply (fold_add_no_own own t (fun r => fst r =? own)).
  - intros r _ E. apply N.eqb_neq. exact E.
  - cbn [s_cs]. apply set_status_no_own, Hs.
Qed.

(* for every routing-table snapshot that does not hold our own id (C15: the table never does), every target and
   every sequence of replies with arbitrary `nodes` strings: no query of the search goes to our own id *)
Lemma search_never_contacts_own_id : forall own t init replies,
  (forall r, In r init -> fst r <> own) ->
  forall qs c, In qs (search_run own t init replies) -> In c qs -> c_id c <> own.
Proof.
  intros own t init replies Hinit. unfold search_run, search_start.
  set (s00 := fold_left (fun s r => s_add_contact t s (fst r) (snd r)) init (mkS [] 0 3 false None)).
  assert (H00 : no_own own (s_cs s00)).
  { unfold s00. apply (fold_add_no_own own t (fun _ => false)); [intros r Hr _; apply Hinit, Hr|intros c []]. }
  destruct (fill_no_own own fill_fuel s00 [] H00 (fun c (F : In c []) => match F with end)) as [F1 F2].
  destruct (s_fill fill_fuel s00 []) as [s0 q0]. cbn [fst snd] in *.
  assert (G : forall replies s outs, no_own own (s_cs s) -> (forall qs c, In qs outs -> In c qs -> c_id c <> own) ->
              forall qs c, In qs (snd (fold_left (fun st rp => let '(s, outs) := st in
                                      match parse_compact_nodes (snd rp) with
                                      | POk recs => let '(s', q) := search_reply own t s (fst rp) recs in (s', outs ++ [q])
                                      | _ => (s, outs ++ [[]])
                                      end) replies (s, outs))) -> In c qs -> c_id c <> own).
  { induction replies0 as [|rp replies0 IH]; intros s outs Hs Houts; [exact Houts|].
    cbn [fold_left]. destruct (parse_compact_nodes (snd rp)) as [recs| |].
    - destruct (search_reply_no_own own t s (fst rp) recs Hs) as [R1 R2].
      destruct (search_reply own t s (fst rp) recs) as [s' q]. cbn [fst snd] in *.
      apply IH; [exact R1|]. intros qs c Hq Hc. apply in_app_iff in Hq. destruct Hq as [Hq|[<-|[]]]; [eapply Houts; eassumption|apply R2, Hc].
    - apply IH; [exact Hs|]. intros qs c Hq Hc. apply in_app_iff in Hq. destruct Hq as [Hq|[<-|[]]]; [eapply Houts; eassumption|destruct Hc].
    - apply IH; [exact Hs|]. intros qs c Hq Hc. apply in_app_iff in Hq. destruct Hq as [Hq|[<-|[]]]; [eapply Houts; eassumption|destruct Hc]. }
  apply G; [exact F1|]. intros qs c [<-|[]] Hc. apply F2, Hc.
Qed.

Example ex_search_run :
  map (map c_id) (search_run 5 7 [(1, A4 1 1)] [(1, repeat 0 19 ++ [5; 0;0;0;2;0;2] ++ repeat 0 19 ++ [6; 0;0;0;3;0;3])])
  = [[1]; [6]].
Proof. vm_compute. reflexivity. Qed.

(* ------------------------------------------------------------------ unresolved UDP tracker / repeated announces *)

(* an unresolved connection accepts nothing: any sender, any transaction id, any length, any action *)
Lemma unresolved_accepts_nothing : forall u from_ok dgram, router_read_dns false u from_ok dgram = (u, EvDrop).
Proof. reflexivity. Qed.

Lemma udp_pending_all_dropped : forall v6 other dgrams,
  fst (udp_run_pending v6 other dgrams) = udp0 v6 other /\
  snd (udp_run_pending v6 other dgrams) = repeat EvDrop (length dgrams).
Proof.
  intros v6 other dgrams. unfold udp_run_pending.
  assert (G : forall ds u evs,
             fold_left (fun st d => let '(u, evs) := st in
                                    let '(u', e) := router_read_dns false u (fst d) (snd d) in (u', evs ++ [e])) ds (u, evs)
             = (u, evs ++ repeat EvDrop (length ds))).
  { induction ds as [|d ds IH]; intros u evs; [cbn; rewrite app_nil_r; reflexivity|].
    cbn [fold_left length repeat]. cbn [router_read_dns]. rewrite IH, <- app_assoc. reflexivity. }
  rewrite G. split; reflexivity.
Qed.

(* every announce starts with fresh per-request flags: a failing reply to a single-family announce is reported
   through the failure slot whatever earlier announces on the same tracker object did *)
Lemma http_announce_failure_is_failure : forall ih ev ts body msg,
  snd (http_receive_done ih ev body ts) = EvFailure msg ->
  snd (http_announce ih ev ts FamOne [body]) = [HEv (EvFailure msg)].
Proof.
  intros ih ev ts body msg H. unfold http_announce. cbn [fold_left]. unfold http_step. cbn [h_ts h_next h_last_ok h_last_err].
  destruct (http_receive_done ih ev body ts) as [ts' e]. cbn [snd] in H. subst e. reflexivity.
Qed.

Example ex_announces :
  snd (http_announces [] 2 [(FamBoth, [[100;53;58;112;101;101;114;115;48;58;101]; [100;53;58;112;101;101;114;115;48;58;101]]); (FamOne, [[60]])])
  = [[HEv (EvNewPeers []); HEv (EvSuccess [])]; [HEv (EvFailure m_parse)]].
Proof. vm_compute. reflexivity. Qed.
