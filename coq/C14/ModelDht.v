(* C14 (DHT / PEX part) — executable model, from the RAW datagram / extension payload bytes, of
     src/dht/dht_server.cc          DhtServer::event_read: static-map decoding, envelope and type checks,
                                    error handling (create_error / node_inactive), dispatch
                                    parse_get_peers_reply's peer extraction ("values" -> parse_address_bencode),
                                    parse_find_node_reply's compact node records
     src/protocol/extensions.cc     ProtocolExtension::parse_ut_pex (static-map decoding + insert_pex_list)
   The static-map reader is C07's model sm_read with the real key tables (LTV.C07.ParamsGen).
   Definitions only. *)
From Coq Require Import List NArith ZArith Bool.
From LTV Require Import Common.Bytes.
From LTV.C07 Require Import Model StaticMap.
From LTV.C14 Require Import ParamsGen Model.
Import ListNotations.
Local Open Scope N_scope.

(* enum dht_keys / ext_pex_keys: the index of a key is looked up BY ITS KEY STRING in the key table that is
   re-extracted from the sources on every run, so adding or reordering keys does not invalidate the model
   (an absent key maps to an index outside every entry array, i.e. "never present") *)
Fixpoint key_index (tbl : ktable) (k : bytes) : option nat :=
  match tbl with
  | [] => None
  | (i, k') :: t => if bytes_eqb k k' then Some (N.to_nat i) else key_index t k
  end.
Definition key_idx (tbl : ktable) (k : bytes) : nat :=
  match key_index tbl k with Some i => i | None => 4096 end.

Definition k_a_id : nat := key_idx dht [97;58;58;105;100;42;83].                       (* "a::id*S" *)
Definition k_q : nat := key_idx dht [113;42;83].                                        (* "q*S" *)
Definition k_r_id : nat := key_idx dht [114;58;58;105;100;42;83].                       (* "r::id*S" *)
Definition k_r_nodes : nat := key_idx dht [114;58;58;110;111;100;101;115;42;83].        (* "r::nodes*S" *)
Definition k_r_values : nat := key_idx dht [114;58;58;118;97;108;117;101;115;42;76].    (* "r::values*L" *)
Definition k_t : nat := key_idx dht [116;42;83].                                        (* "t*S" *)
Definition k_y : nat := key_idx dht [121;42;83].                                        (* "y*S" *)
Definition k_pex_added : nat := key_idx ext_pex [97;100;100;101;100;42;83].             (* "added*S" *)

(* message[key].is_raw_string() ? as_raw_string() *)
Definition ent_raw_string (e : entries) (k : nat) : option bytes :=
  match nth k e None with Some (SRaw RawS b) => Some b | _ => None end.
Definition ent_raw_list (e : entries) (k : nat) : option bytes :=
  match nth k e None with Some (SRaw RawL b) => Some b | _ => None end.

Definition dht_error_protocol : N := 203.
Definition dht_error_bad_method : N := 204.

Inductive dht_msg :=
| MNoTid | MTidLong | MNoType | MUnsupportedType | MBadId | MIdShort | MTidBadLen | MOwnId | MUnknownType.

Inductive dht_out :=
| DIgnore                                   (* not a bencoded dictionary: dropped, no reply *)
| DError (t : option bytes) (code : N) (m : dht_msg)   (* create_error: error packet to the source *)
| DInactive (id : bytes)                    (* reply / error message failing a check: node_inactive, no reply *)
| DQuery (id : bytes)                       (* process_query *)
| DResponse (id : bytes) (tid : N)          (* process_response *)
| DErrorMsg (tid : N)                       (* process_error *)
| DFault.

Definition id_size : nat := 20.
Definition ch_q : N := 113. Definition ch_r : N := 114.

(* create_error echoes t only if it is a raw string shorter than 67 bytes *)
Definition echo_t (e : entries) : option bytes :=
  match ent_raw_string e k_t with
  | Some t => if N.of_nat (length t) <? 67 then Some t else None
  | None => None
  end.

(* the catch (dht_error&) clause: type r/e with a node id -> node_inactive, else create_error *)
Definition dht_fail (e : entries) (type : N) (node_id : option bytes) (code : N) (m : dht_msg) : dht_out :=
  match node_id with
  | Some id => if (type =? ch_r) || (type =? ch_e) then DInactive id else DError (echo_t e) code m
  | None => DError (echo_t e) code m
  end.

Definition qmark : N := 63.   (* int type = '?' *)

Definition dht_envelope (own : bytes) (dgram : bytes) : dht_out :=
  match sm_read dht dgram with
  | Reject => DIgnore
  | Fault => DFault
  | OutOfFuel => DFault
  | Ok e _ =>
      match ent_raw_string e k_t with
      | None => dht_fail e qmark None dht_error_protocol MNoTid
      | Some t =>
          if 20 <? N.of_nat (length t) then dht_fail e qmark None dht_error_protocol MTidLong
          else match ent_raw_string e k_y with
               | None => dht_fail e qmark None dht_error_protocol MNoType
               | Some y =>
                   match y with
                   | [type] =>
                       let idchk :=
                         if (type =? ch_r) || (type =? ch_q) then
                           match ent_raw_string e (if type =? ch_q then k_a_id else k_r_id) with
                           | None => inl MBadId
                           | Some idb => if (length idb <? id_size)%nat then inl MIdShort
                                         else inr (Some (firstn id_size idb))
                           end
                         else inr None in
                       match idchk with
                       | inl m => dht_fail e type None dht_error_protocol m
                       | inr nid =>
                           if ((type =? ch_r) || (type =? ch_e)) && negb (length t =? 1)%nat
                           then dht_fail e type nid dht_error_protocol MTidBadLen
                           else if match nid with Some id => bytes_eqb id own | None => false end
                           then dht_fail e type nid dht_error_protocol MOwnId
                           else if type =? ch_q then match nid with Some id => DQuery id | None => DFault end
                           else if type =? ch_r then match nid with Some id => DResponse id (hd 0 t) | None => DFault end
                           else if type =? ch_e then DErrorMsg (hd 0 t)
                           else dht_fail e type nid dht_error_bad_method MUnknownType
                       end
                   | _ => dht_fail e qmark None dht_error_bad_method MUnsupportedType
                   end
               end
      end
  end.

(* read_datagram_sa(buffer, sizeof(buffer)): the kernel truncates to the 2048-byte buffer *)
Definition dht_buffer_size : N := Params.dht_datagram_buffer.
Definition dht_datagram (own : bytes) (dgram : bytes) : dht_out :=
  dht_envelope own (firstn (N.to_nat dht_buffer_size) dgram).

(* what a get_peers / find_node reply contributes when it is matched to a transaction:
   DhtAnnounce::receive_peers(values) = parse_address_bencode; parse_find_node_reply = whole 26-byte
   compact node records (id, address, port) *)
Definition dht_reply_values (dgram : bytes) : option (pres (list addr)) :=
  match sm_read dht dgram with
  | Ok e _ => match ent_raw_list e k_r_values with
              | Some v => Some (parse_bencode_peers v)
              | None => None
              end
  | _ => None
  end.

Definition node_record_size : N := 26.

Fixpoint copy_nodes (fuel : nat) (buf : bytes) (pos endp : N) (acc : list (N * addr)) : pres (list (N * addr)) :=
  match fuel with
  | O => POutOfFuel
  | S f =>
      if pos =? endp then POk (rev acc)
      else match rd_be buf pos 20 0, rd_be buf (pos + 20) 4 0, rd_be buf (pos + 24) 2 0 with
           | Some id, Some a, Some p => copy_nodes f buf (pos + node_record_size) endp ((id, A4 a p) :: acc)
           | _, _, _ => PFault
           end
  end.

Definition parse_compact_nodes (buf : bytes) : pres (list (N * addr)) :=
  let n := blen buf in
  copy_nodes (S (length buf)) buf 0 (n - n mod node_record_size) [].

Definition dht_reply_nodes (dgram : bytes) : option (pres (list (N * addr))) :=
  match sm_read dht dgram with
  | Ok e _ => match ent_raw_string e k_r_nodes with
              | Some v => Some (parse_compact_nodes v)
              | None => None
              end
  | _ => None
  end.

(* ------------------------------------------------------------------ ut_pex from the raw extension payload *)

(* ProtocolExtension::parse_ut_pex: static_map_read_bencode(ExtPEXMessage); "added*S" raw string ->
   PeerList::insert_pex_list.  Result: None = bencode_error escapes (the message is rejected by the caller),
   Some state otherwise *)
Definition pex_message (payload : bytes) : res (option bytes) :=
  match sm_read ext_pex payload with
  | Ok e rest => Ok (ent_raw_string e k_pex_added) rest
  | Reject => Reject | Fault => Fault | OutOfFuel => OutOfFuel
  end.

Inductive pex_out :=
| PexRejected
| PexDone (av : list addr) (ret : option N)
| PexFault.

Definition pex_apply (av : list addr) (maxsz : N) (payload : bytes) : pex_out :=
  match pex_message payload with
  | Reject => PexRejected
  | Fault => PexFault
  | OutOfFuel => PexFault
  | Ok None _ => PexDone av None
  | Ok (Some added) _ =>
      match pl_step maxsz (POk (av, [])) (OpPex added) with
      | POk (av', [r]) => PexDone av' (Some r)
      | POk (av', _) => PexFault
      | _ => PexFault
      end
  end.

(* ------------------------------------------------------------------ PeerList with PeerInfo entries
   PeerList::insert_address and the existing-PeerInfo branch of PeerList::insert_available.  The multimap is keyed
   by socket_address_key = (family, address), port excluded; at most one PeerInfo per key is ever created. *)
Record pinfo := mkPi {
  pi_key : addr;          (* port field unused *)
  pi_lp : N;              (* listen_port() *)
  pi_ap : N;              (* port of socket_address() *)
  pi_conn : bool;         (* connection() != nullptr *)
  pi_lh : N               (* last_handshake() *)
}.

Definition key_eqb (x y : addr) : bool :=
  match x, y with
  | A4 a _, A4 b _ => a =? b
  | A6 a _, A6 b _ => a =? b
  | _, _ => false
  end.

Fixpoint pi_find (x : addr) (ps : list pinfo) : option pinfo :=
  match ps with
  | [] => None
  | p :: ps' => if key_eqb (pi_key p) x then Some p else pi_find x ps'
  end.

Fixpoint pi_set_ap (x : addr) (port : N) (ps : list pinfo) : list pinfo :=
  match ps with
  | [] => []
  | p :: ps' => if key_eqb (pi_key p) x then mkPi (pi_key p) (pi_lp p) port (pi_conn p) (pi_lh p) :: ps'
                else p :: pi_set_ap x port ps'
  end.

Definition u32 : N := 4294967296.

(* peer_info->connection() != nullptr || peer_info->last_handshake() + 600 > uint32_t(cached_seconds) *)
Definition pi_skips (now : N) (p : pinfo) : bool :=
  pi_conn p || (now mod u32 <? (pi_lh p + 600) mod u32).

(* the decision function the theorems of Proofs.v quantify over *)
Definition skip_of (now : N) (ps : list pinfo) (x : addr) : bool :=
  match pi_find x ps with Some p => pi_skips now p | None => false end.

Fixpoint ia_loop_pi (now : N) (al : list addr) (av old : list addr) (maxsz : N) (inserted : N) (ps : list pinfo)
  : list addr * N * list pinfo :=
  match al with
  | [] => (av, inserted, ps)
  | x :: al' =>
      if negb (alen av <? maxsz) then (av, inserted, ps)
      else if (addr_port x =? 0) || addr_is_any x then ia_loop_pi now al' av old maxsz inserted ps
      else
        let old1 := find_less old x in
        let unneeded := match old1 with e :: _ => negb (addr_ltb_addr e x) | [] => false end in
        if unneeded then ia_loop_pi now al' av old1 maxsz inserted ps
        else match pi_find x ps with
             | Some p =>
                 let ps' := if pi_lp p =? 0 then pi_set_ap x (addr_port x) ps else ps in
                 if pi_skips now p then ia_loop_pi now al' av old1 maxsz inserted ps'
                 else ia_loop_pi now al' (insert_unique av x) old1 maxsz (inserted + 1) ps'
             | None => ia_loop_pi now al' (insert_unique av x) old1 maxsz (inserted + 1) ps
             end
  end.

Definition insert_available_pi (now : N) (av : list addr) (maxsz : N) (ps : list pinfo) (al : list addr)
  : list addr * N * list pinfo :=
  if maxsz <=? alen av then (av, 0, ps) else ia_loop_pi now al av av maxsz 0 ps.

(* PeerList::insert_address(sa, flags) *)
Definition insert_address (av : list addr) (ps : list pinfo) (x : addr) (available : bool) : list addr * list pinfo :=
  match pi_find x ps with
  | Some _ => (av, ps)
  | None =>
      let av' := if available && negb (addr_port x =? 0) then insert_unique av x else av in
      (av', ps ++ [mkPi x (addr_port x) (addr_port x) false 0])
  end.

Inductive pi_op :=
| PiInsert (x : addr) (available : bool)
| PiSet (x : addr) (conn : bool) (lh : N)       (* harness set-up of connection() / last_handshake() *)
| PiNow (now : N)
| PiList (op : pl_op).

Record pi_state := mkPs { ps_av : list addr; ps_rets : list N; ps_pi : list pinfo; ps_now : N }.

Fixpoint pi_update (x : addr) (conn : bool) (lh : N) (ps : list pinfo) : list pinfo :=
  match ps with
  | [] => []
  | p :: ps' => if key_eqb (pi_key p) x then mkPi (pi_key p) (pi_lp p) (pi_ap p) conn lh :: ps'
                else p :: pi_update x conn lh ps'
  end.

Definition pi_step (maxsz : N) (st : pres pi_state) (op : pi_op) : pres pi_state :=
  match st with
  | POk s =>
      match op with
      | PiInsert x available =>
          let '(av', ps') := insert_address (ps_av s) (ps_pi s) x available in
          POk (mkPs av' (ps_rets s) ps' (ps_now s))
      | PiSet x conn lh => POk (mkPs (ps_av s) (ps_rets s) (pi_update x conn lh (ps_pi s)) (ps_now s))
      | PiNow n => POk (mkPs (ps_av s) (ps_rets s) (ps_pi s) n)
      | PiList lop =>
          let run (parsed : pres (list addr)) (prep : list addr -> list addr) :=
            match parsed with
            | POk l => let '(av', r, ps') := insert_available_pi (ps_now s) (ps_av s) maxsz (ps_pi s) (prep l) in
                       POk (mkPs av' (ps_rets s ++ [r]) ps' (ps_now s))
            | PFault => PFault | POutOfFuel => POutOfFuel
            end in
          match lop with
          | OpTracker c4 c6 => run (parse_both c4 c6) sort_and_unique
          | OpPex c4 => match c4 with
                        | [] => POk (mkPs (ps_av s) (ps_rets s ++ [1]) (ps_pi s) (ps_now s))
                        | _ => run (parse_compact c4) sort_and_unique
                        end
          | OpBuffer c4 c6 => run (parse_both c4 c6) addr_sort
          | OpRaw c4 c6 => run (parse_both c4 c6) (fun l => l)
          end
      end
  | PFault => PFault | POutOfFuel => POutOfFuel
  end.

Definition pi_run (maxsz now : N) (ops : list pi_op) : pres pi_state :=
  fold_left (pi_step maxsz) ops (POk (mkPs [] [] [] now)).

(* ------------------------------------------------------------------ TrackerHttp with a second address family pending
   (m_next_family): receive_failed / process_success when send_next_family() can still start another request *)
Record hstate := mkHs {
  h_ts : tstate;
  h_next : bool;          (* m_next_family != AF_UNSPEC *)
  h_last_ok : bool;       (* m_last_success *)
  h_last_err : bytes      (* m_last_error_message *)
}.

Inductive hevent :=
| HEv (e : tevent)
| HRetry.                 (* no callback: the request was re-sent for the next family *)

(* " /// " *)
Definition m_sep : bytes := [32; 47; 47; 47; 32].

(* one reply (announce events only, not scrape) *)
Definition http_step (ih : bytes) (event : N) (h : hstate) (body : bytes) : hstate * hevent :=
  let '(ts', e) := http_receive_done ih event body (h_ts h) in
  match e with
  | EvFailure msg =>
      if h_next h then (mkHs ts' false false msg, HRetry)
      else if h_last_ok h then (mkHs ts' false (h_last_ok h) (h_last_err h), HEv (EvSuccess []))
      else match h_last_err h with
           | [] => (mkHs ts' false (h_last_ok h) (h_last_err h), HEv (EvFailure msg))
           | le => (mkHs ts' false (h_last_ok h) (h_last_err h), HEv (EvFailure (msg ++ m_sep ++ le)))
           end
  | EvSuccess l =>
      if h_next h then (mkHs ts' false true [], HEv (EvNewPeers l))
      else (mkHs ts' false (h_last_ok h) (h_last_err h), HEv (EvSuccess l))
  | _ => (mkHs ts' (h_next h) (h_last_ok h) (h_last_err h), HEv e)
  end.

(* send_event on a host name that is not numeric: IPv4 first, IPv6 pending; then up to two replies *)
Definition http_two_families (ih : bytes) (event : N) (bodies : list bytes) : hstate * list hevent :=
  fold_left (fun st b => let '(h, evs) := st in let '(h', e) := http_step ih event h b in (h', evs ++ [e]))
            bodies (mkHs tstate0 true false [], []).

(* ------------------------------------------------------------------ a find_node reply matched to its transaction
   DhtServer::process_response -> parse_find_node_reply -> DhtSearch::add_contact / find_node_next.
   The search holds the responder (contacted, now good) plus the contacts taken from the compact `nodes` string:
   every whole 26-byte record whose id is not OUR OWN id, keyed by id (std::map ordered by XOR distance to the
   target: equal keys = equal ids, the first record of an id wins).  find_node_next then queries the closest
   uncontacted ones, at most `search_concurrency` at a time (DhtSearch::m_concurrency). *)
Definition search_concurrency : nat := 3.

Fixpoint contact_insert (target : N) (c : N * addr) (l : list (N * addr)) : list (N * addr) :=
  match l with
  | [] => [c]
  | d :: l' =>
      if fst c =? fst d then l
      else if N.lxor (fst c) target <? N.lxor (fst d) target then c :: l
      else d :: contact_insert target c l'
  end.

(* the new contacts of the search, closest first *)
Definition find_node_contacts (own target resp : N) (recs : list (N * addr)) : list (N * addr) :=
  fold_left (fun acc r => if (fst r =? own) || (fst r =? resp) then acc else contact_insert target r acc) recs [].

Inductive fn_out :=
| FnIgnored                                  (* no transaction for (source, t), or r.id is not the node we asked *)
| FnFailed                                   (* reply without a `nodes` string: bencode_error, node marked inactive *)
| FnQueries (l : list (N * addr))            (* find_node queries sent to these contacts *)
| FnGetPeers                                 (* announce: search complete, get_peers sent to the responder *)
| FnFault.

Definition dht_find_node_reply (announce matched : bool) (own target resp : N) (nodes : option bytes) : fn_out :=
  if negb matched then FnIgnored
  else match nodes with
       | None => FnFailed
       | Some b =>
           match parse_compact_nodes b with
           | POk recs =>
               match firstn search_concurrency (find_node_contacts own target resp recs) with
               | [] => if announce then FnGetPeers else FnQueries []
               | q => FnQueries q
               end
           | _ => FnFault
           end
       end.

(* ------------------------------------------------------------------ a whole search driven by DhtServer
   dht::DhtSearch (contact set ordered by XOR distance, status per contact, m_pending / m_concurrency, m_restart /
   m_next) as driven by DhtServer::find_node, process_response -> parse_find_node_reply -> find_node_next.
   The DhtSearch part follows coq/C15/ModelSearch.v (copied, not imported); what is added here is the server side:
   which contacts a sequence of matched replies makes the server query. *)
Inductive cstat := CNew | CActive | CGood | CBad.
Record contact := mkC { c_id : N; c_addr : addr; c_st : cstat }.
Record search := mkS { s_cs : list contact; s_pending : N; s_conc : N; s_restart : bool; s_next : option N }.

Definition max_contacts : N := 18.
Definition closer (t a b : N) : bool := N.lxor a t <? N.lxor b t.
Definition is_new (c : contact) : bool := match c_st c with CNew => true | _ => false end.
Definition is_active (c : contact) : bool := match c_st c with CActive => true | _ => false end.

Fixpoint insert_contact (t : N) (c : contact) (l : list contact) : option (list contact) :=
  match l with
  | [] => Some [c]
  | x :: r => if closer t (c_id c) (c_id x) then Some (c :: l)
              else if closer t (c_id x) (c_id c) then
                     match insert_contact t c r with Some r' => Some (x :: r') | None => None end
              else None
  end.

(* DhtSearch::add_contact *)
Definition s_add_contact (t : N) (s : search) (id : N) (a : addr) : search :=
  match insert_contact t (mkC id a CNew) (s_cs s) with
  | Some l => mkS l (s_pending s) (s_conc s) true (s_next s)
  | None => s
  end.

Fixpoint trim_go (need : N) (l : list contact) : list contact :=
  match l with
  | [] => []
  | c :: r => if negb (is_active c) && (need =? 0) then trim_go need r else c :: trim_go (N.pred need) r
  end.

Definition first_new (l : list contact) : option N :=
  match find is_new l with Some c => Some (c_id c) | None => None end.

Definition s_trim (s : search) : search :=
  let l := trim_go max_contacts (s_cs s) in mkS l (s_pending s) (s_conc s) false (first_new l).

Fixpoint set_status (id : N) (st : cstat) (l : list contact) : list contact :=
  match l with
  | [] => []
  | c :: r => if c_id c =? id then mkC (c_id c) (c_addr c) st :: r else c :: set_status id st r
  end.

Fixpoint next_new_after (id : N) (l : list contact) : option N :=
  match l with
  | [] => None
  | c :: r => if c_id c =? id then first_new r else next_new_after id r
  end.

Definition find_contact (id : N) (l : list contact) : option contact := find (fun c => c_id c =? id) l.

(* DhtSearch::get_contact *)
Definition s_get_contact (s : search) : search * option contact :=
  if s_conc s <=? s_pending s then (s, None)
  else let s1 := if s_restart s then s_trim s else s in
       match s_next s1 with
       | None => (s1, None)
       | Some id =>
           let l := set_status id CActive (s_cs s1) in
           (mkS l (s_pending s1 + 1) (s_conc s1) (s_restart s1) (next_new_after id l), find_contact id l)
       end.

(* the loops  `while (n != search->end()) { add_transaction(FindNode(n)); n = search->get_contact(); }` *)
Fixpoint s_fill (fuel : nat) (s : search) (acc : list contact) : search * list contact :=
  match fuel with
  | O => (s, acc)
  | S f => match s_get_contact s with
           | (s', Some c) => s_fill f s' (acc ++ [c])
           | (s', None) => (s', acc)
           end
  end.

Definition fill_fuel : nat := 8.

(* DhtServer::find_node(contacts, target) *)
Definition search_start (t : N) (init : list (N * addr)) : search * list contact :=
  let s0 := fold_left (fun s r => s_add_contact t s (fst r) (snd r)) init (mkS [] 0 3 false None) in
  s_fill fill_fuel s0 [].

(* a reply from node `resp` carrying the compact `nodes` string (records already parsed) *)
Definition search_reply (own t : N) (s : search) (resp : N) (recs : list (N * addr)) : search * list contact :=
  match find_contact resp (s_cs s) with
  | Some c =>
      if is_active c then
        let s1 := mkS (set_status resp CGood (s_cs s)) (N.pred (s_pending s)) (s_conc s) (s_restart s) (s_next s) in
        let s2 := fold_left (fun s r => if fst r =? own then s else s_add_contact t s (fst r) (snd r)) recs s1 in
        s_fill fill_fuel s2 []
      else (s, [])                       (* no transaction outstanding for that node *)
  | None => (s, [])
  end.

(* the whole exchange: initial queries, then for every reply the queries it triggers *)
Definition search_run (own t : N) (init : list (N * addr)) (replies : list (N * bytes)) : list (list contact) :=
  let '(s0, q0) := search_start t init in
  snd (fold_left (fun st rp =>
                    let '(s, outs) := st in
                    match parse_compact_nodes (snd rp) with
                    | POk recs => let '(s', q) := search_reply own t s (fst rp) recs in (s', outs ++ [q])
                    | _ => (s, outs ++ [[]])
                    end) replies (s0, [q0])).

(* ------------------------------------------------------------------ UDP tracker whose host name is still being
   resolved: UdpRouter::connect(hostname, …) registers the connection with address == nullptr and hands the name
   to the resolver; until resolved_hostname() runs, event_read() drops every datagram for that connection
   (`if (itr->second.address == nullptr) continue;`), whatever its sender, length, action or transaction id *)
Definition router_read_dns (resolved : bool) (u : udp) (from_ok : bool) (dgram : bytes) : udp * tevent :=
  if resolved then router_read u from_ok dgram else (u, EvDrop).

Definition udp_run_pending (v6 : bool) (other_tx : N) (dgrams : list (bool * bytes)) : udp * list tevent :=
  fold_left (fun st d => let '(u, evs) := st in
                         let '(u', e) := router_read_dns false u (fst d) (snd d) in (u', evs ++ [e]))
            dgrams (udp0 v6 other_tx, []).

(* ------------------------------------------------------------------ several announces on one TrackerHttp object
   TrackerHttp::send_event resets the per-request flags (m_last_success = false, m_last_error_message = "") and
   recomputes the families from the network configuration; the interval / scrape state is kept *)
Inductive fam_config := FamBoth | FamOne | FamNone.   (* both allowed / one of them blocked / both blocked *)

(* "No valid address family available." *)
Definition m_no_family : bytes :=
  [78;111;32;118;97;108;105;100;32;97;100;100;114;101;115;115;32;102;97;109;105;108;121;32;97;118;97;105;108;97;98;108;101;46].

Definition http_announce (ih : bytes) (event : N) (ts : tstate) (cfg : fam_config) (bodies : list bytes)
  : tstate * list hevent :=
  match cfg with
  | FamNone => (ts, [HEv (EvFailure m_no_family)])
  | _ =>
      let h0 := mkHs ts (match cfg with FamBoth => true | _ => false end) false [] in
      let '(h, evs, _) :=
        fold_left (fun st b =>
                     let '(h, evs, isopen) := st in
                     if (isopen : bool) then
                       let '(h', e) := http_step ih event h b in
                       (h', evs ++ [e], match e with HRetry => true | HEv (EvNewPeers _) => true | _ => false end)
                     else (h, evs, false))
                  bodies (h0, [], true) in
      (h_ts h, evs)
  end.

Definition http_announces (ih : bytes) (event : N) (anns : list (fam_config * list bytes)) : tstate * list (list hevent) :=
  fold_left (fun st a => let '(ts, outs) := st in
                         let '(ts', evs) := http_announce ih event ts (fst a) (snd a) in (ts', outs ++ [evs]))
            anns (tstate0, []).
