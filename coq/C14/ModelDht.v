(* C14 (DHT / PEX part) — executable model, from the RAW datagram / extension payload bytes, of
     src/dht/dht_server.cc          DhtServer::event_read: static-map decoding, envelope and type checks,
                                    error handling (create_error / node_inactive), dispatch
                                    parse_get_peers_reply's peer extraction ("values" -> parse_address_bencode),
                                    parse_find_node_reply's compact node records
     src/protocol/extensions.cc     ProtocolExtension::parse_ut_pex (static-map decoding + insert_pex_list)
   The static-map reader is C07's model sm_read with the real key tables (LTV.C07.ParamsGen).
   Definitions only. *)
From Coq Require Import List NArith ZArith Bool.
From LTV Require Import Common.Bytes.
From LTV.C07 Require Import Model StaticMap.
From LTV.C14 Require Import ParamsGen Model.
Import ListNotations.
Local Open Scope N_scope.

(* enum dht_keys *)
Definition k_a_id : nat := 0.   Definition k_q : nat := 7.      Definition k_r_id : nat := 8.
Definition k_r_nodes : nat := 9. Definition k_r_values : nat := 11.
Definition k_t : nat := 12.     Definition k_y : nat := 14.

(* message[key].is_raw_string() ? as_raw_string() *)
Definition ent_raw_string (e : entries) (k : nat) : option bytes :=
  match nth k e None with Some (SRaw RawS b) => Some b | _ => None end.
Definition ent_raw_list (e : entries) (k : nat) : option bytes :=
  match nth k e None with Some (SRaw RawL b) => Some b | _ => None end.

Definition dht_error_protocol : N := 203.
Definition dht_error_bad_method : N := 204.

Inductive dht_msg :=
| MNoTid | MTidLong | MNoType | MUnsupportedType | MBadId | MIdShort | MTidBadLen | MOwnId | MUnknownType.

Inductive dht_out :=
| DIgnore                                   (* not a bencoded dictionary: dropped, no reply *)
| DError (t : option bytes) (code : N) (m : dht_msg)   (* create_error: error packet to the source *)
| DInactive (id : bytes)                    (* reply / error message failing a check: node_inactive, no reply *)
| DQuery (id : bytes)                       (* process_query *)
| DResponse (id : bytes) (tid : N)          (* process_response *)
| DErrorMsg (tid : N)                       (* process_error *)
| DFault.

Definition id_size : nat := 20.
Definition ch_q : N := 113. Definition ch_r : N := 114.

(* create_error echoes t only if it is a raw string shorter than 67 bytes *)
Definition echo_t (e : entries) : option bytes :=
  match ent_raw_string e k_t with
  | Some t => if N.of_nat (length t) <? 67 then Some t else None
  | None => None
  end.

(* the catch (dht_error&) clause: type r/e with a node id -> node_inactive, else create_error *)
Definition dht_fail (e : entries) (type : N) (node_id : option bytes) (code : N) (m : dht_msg) : dht_out :=
  match node_id with
  | Some id => if (type =? ch_r) || (type =? ch_e) then DInactive id else DError (echo_t e) code m
  | None => DError (echo_t e) code m
  end.

Definition qmark : N := 63.   (* int type = '?' *)

Definition dht_envelope (own : bytes) (dgram : bytes) : dht_out :=
  match sm_read dht dgram with
  | Reject => DIgnore
  | Fault => DFault
  | OutOfFuel => DFault
  | Ok e _ =>
      match ent_raw_string e k_t with
      | None => dht_fail e qmark None dht_error_protocol MNoTid
      | Some t =>
          if 20 <? N.of_nat (length t) then dht_fail e qmark None dht_error_protocol MTidLong
          else match ent_raw_string e k_y with
               | None => dht_fail e qmark None dht_error_protocol MNoType
               | Some y =>
                   match y with
                   | [type] =>
                       let idchk :=
                         if (type =? ch_r) || (type =? ch_q) then
                           match ent_raw_string e (if type =? ch_q then k_a_id else k_r_id) with
                           | None => inl MBadId
                           | Some idb => if (length idb <? id_size)%nat then inl MIdShort
                                         else inr (Some (firstn id_size idb))
                           end
                         else inr None in
                       match idchk with
                       | inl m => dht_fail e type None dht_error_protocol m
                       | inr nid =>
                           if ((type =? ch_r) || (type =? ch_e)) && negb (length t =? 1)%nat
                           then dht_fail e type nid dht_error_protocol MTidBadLen
                           else if match nid with Some id => bytes_eqb id own | None => false end
                           then dht_fail e type nid dht_error_protocol MOwnId
                           else if type =? ch_q then match nid with Some id => DQuery id | None => DFault end
                           else if type =? ch_r then match nid with Some id => DResponse id (hd 0 t) | None => DFault end
                           else if type =? ch_e then DErrorMsg (hd 0 t)
                           else dht_fail e type nid dht_error_bad_method MUnknownType
                       end
                   | _ => dht_fail e qmark None dht_error_bad_method MUnsupportedType
                   end
               end
      end
  end.

(* read_datagram_sa(buffer, sizeof(buffer)): the kernel truncates to the 2048-byte buffer *)
Definition dht_buffer_size : N := Params.dht_datagram_buffer.
Definition dht_datagram (own : bytes) (dgram : bytes) : dht_out :=
  dht_envelope own (firstn (N.to_nat dht_buffer_size) dgram).

(* what a get_peers / find_node reply contributes when it is matched to a transaction:
   DhtAnnounce::receive_peers(values) = parse_address_bencode; parse_find_node_reply = whole 26-byte
   compact node records (id, address, port) *)
Definition dht_reply_values (dgram : bytes) : option (pres (list addr)) :=
  match sm_read dht dgram with
  | Ok e _ => match ent_raw_list e k_r_values with
              | Some v => Some (parse_bencode_peers v)
              | None => None
              end
  | _ => None
  end.

Definition node_record_size : N := 26.

Fixpoint copy_nodes (fuel : nat) (buf : bytes) (pos endp : N) (acc : list (N * addr)) : pres (list (N * addr)) :=
  match fuel with
  | O => POutOfFuel
  | S f =>
      if pos =? endp then POk (rev acc)
      else match rd_be buf pos 20 0, rd_be buf (pos + 20) 4 0, rd_be buf (pos + 24) 2 0 with
           | Some id, Some a, Some p => copy_nodes f buf (pos + node_record_size) endp ((id, A4 a p) :: acc)
           | _, _, _ => PFault
           end
  end.

Definition parse_compact_nodes (buf : bytes) : pres (list (N * addr)) :=
  let n := blen buf in
  copy_nodes (S (length buf)) buf 0 (n - n mod node_record_size) [].

Definition dht_reply_nodes (dgram : bytes) : option (pres (list (N * addr))) :=
  match sm_read dht dgram with
  | Ok e _ => match ent_raw_string e k_r_nodes with
              | Some v => Some (parse_compact_nodes v)
              | None => None
              end
  | _ => None
  end.

(* ------------------------------------------------------------------ ut_pex from the raw extension payload *)

(* ProtocolExtension::parse_ut_pex: static_map_read_bencode(ExtPEXMessage); "added*S" raw string ->
   PeerList::insert_pex_list.  Result: None = bencode_error escapes (the message is rejected by the caller),
   Some state otherwise *)
Definition pex_message (payload : bytes) : res (option bytes) :=
  match sm_read ext_pex payload with
  | Ok e rest => Ok (ent_raw_string e 0) rest
  | Reject => Reject | Fault => Fault | OutOfFuel => OutOfFuel
  end.

Inductive pex_out :=
| PexRejected
| PexDone (av : list addr) (ret : option N)
| PexFault.

Definition pex_apply (av : list addr) (maxsz : N) (payload : bytes) : pex_out :=
  match pex_message payload with
  | Reject => PexRejected
  | Fault => PexFault
  | OutOfFuel => PexFault
  | Ok None _ => PexDone av None
  | Ok (Some added) _ =>
      match pl_step maxsz (POk (av, [])) (OpPex added) with
      | POk (av', [r]) => PexDone av' (Some r)
      | POk (av', _) => PexFault
      | _ => PexFault
      end
  end.
