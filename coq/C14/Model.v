(* C14 — executable model of the reply parsers of libtorrent:
     src/net/address_list.cc         parse_address_compact / _compact_ipv6 / _bencode / _normal,
                                     sort_and_unique
     src/torrent/peer/peer_list.cc   insert_available, insert_pex_list
     src/download/available_list.cc  insert_unique
     src/tracker/udp_router.cc       event_read filtering, peek_transaction_id
     src/tracker/tracker_udp.cc      process_header / _connect / _announce / _error, reset_family_with_error
     src/tracker/tracker_http.cc     receive_done, receive_failed, process_failure / _success / _scrape
   Definitions only. glibc's inet_pton (AF_INET / AF_INET6) is modelled as pton4 / pton6 (libc, not
   libtorrent: modelled-not-verified, checked by the correspondence run).

   Memory: every byte the code reads from a wire buffer goes through [rd]; a read outside the
   buffer is the result [PFault].  Loops run on fuel; [POutOfFuel] is a separate result. *)
From Coq Require Import List NArith ZArith Bool.
From LTV Require Import Common.Bytes.
From LTV.C14 Require Import ParamsGen.
From LTV.C07 Require Import Model.
Import ListNotations.
Local Open Scope N_scope.

(* ------------------------------------------------------------------ addresses *)

(* sockaddr_in / sockaddr_in6 as (address as a big-endian number, port in host order) *)
Inductive addr :=
| A4 (a : N) (port : N)
| A6 (a : N) (port : N).

Definition addr_port (x : addr) : N := match x with A4 _ p => p | A6 _ p => p end.
Definition addr_ip (x : addr) : N := match x with A4 a _ => a | A6 a _ => a end.
Definition addr_is_v4 (x : addr) : bool := match x with A4 _ _ => true | A6 _ _ => false end.
(* INADDR_ANY / in6addr_any *)
Definition addr_unspecified (x : addr) : bool := addr_ip x =? 0.
(* sa_is_any: INADDR_ANY, in6addr_any, and the v4-mapped ::ffff:0.0.0.0 *)
Definition addr_is_any (x : addr) : bool :=
  match x with
  | A4 a _ => a =? 0
  | A6 a _ => if a / 4294967296 =? 65535 then a mod 4294967296 =? 0 else a =? 0
  end.

Inductive pres (A : Type) :=
| POk (a : A)
| PFault
| POutOfFuel.
Arguments POk {A}. Arguments PFault {A}. Arguments POutOfFuel {A}.

Definition rd (buf : bytes) (pos : N) : option N := nth_error buf (N.to_nat pos).

(* k bytes at pos, big-endian *)
Fixpoint rd_be (buf : bytes) (pos : N) (k : nat) (acc : N) : option N :=
  match k with
  | O => Some acc
  | S k' => match rd buf pos with
            | None => None
            | Some b => rd_be buf (pos + 1) k' (acc * 256 + b)
            end
  end.

Definition blen (buf : bytes) : N := N.of_nat (length buf).

(* std::copy(reinterpret_cast<const SocketAddressCompact*>(first), ...(last), back_inserter):
   the loop condition is  first != last  on record pointers *)
Fixpoint copy_records (fuel : nat) (v6 : bool) (buf : bytes) (pos endp : N) (acc : list addr) : pres (list addr) :=
  match fuel with
  | O => POutOfFuel
  | S f =>
      if pos =? endp then POk (rev acc)
      else
        let alen := if v6 then 16%nat else 4%nat in
        let rsz := if v6 then 18 else 6 in
        match rd_be buf pos alen 0, rd_be buf (pos + (rsz - 2)) 2 0 with
        | Some a, Some p => copy_records f v6 buf (pos + rsz) endp ((if v6 then A6 a p else A4 a p) :: acc)
        | _, _ => PFault
        end
  end.

Definition compact_record_size : N := 6.
Definition compact6_record_size : N := 18.

(* AddressList::parse_address_compact(raw_string) *)
Definition parse_compact (buf : bytes) : pres (list addr) :=
  let n := blen buf in
  copy_records (S (length buf)) false buf 0 (n - n mod compact_record_size) [].

(* AddressList::parse_address_compact_ipv6(const std::string&) *)
Definition parse_compact6 (buf : bytes) : pres (list addr) :=
  let n := blen buf in
  copy_records (S (length buf)) true buf 0 (n - n mod compact6_record_size) [].

(* AddressList::parse_address_bencode(raw_list): "6:" + 6 bytes, repeated *)
Fixpoint bencode_loop (fuel : nat) (buf : bytes) (pos : N) (acc : list addr) : pres (list addr) :=
  match fuel with
  | O => POutOfFuel
  | S f =>
      if negb (pos + 2 + compact_record_size <=? blen buf) then POk (rev acc)
      else match rd buf pos with
           | None => PFault
           | Some c0 =>
               if negb (c0 =? 54) then POk (rev acc)            (* '6' *)
               else match rd buf (pos + 1) with
                    | None => PFault
                    | Some c1 =>
                        if negb (c1 =? 58) then POk (rev acc)   (* ':' *)
                        else match rd_be buf (pos + 2) 4 0, rd_be buf (pos + 6) 2 0 with
                             | Some a, Some p => bencode_loop f buf (pos + 2 + compact_record_size) (A4 a p :: acc)
                             | _, _ => PFault
                             end
                    end
           end
  end.

Definition parse_bencode_peers (buf : bytes) : pres (list addr) :=
  bencode_loop (S (length buf)) buf 0 [].

(* ------------------------------------------------------------------ inet_pton (glibc 2.36) *)

Definition ch_dot : N := 46.
Definition ch_col : N := 58.

(* state: completed octets (reversed), current octet, saw_digit, octets *)
Fixpoint pton4_loop (l : bytes) (done : list N) (cur : N) (saw : bool) (octets : N) : option (list N) :=
  match l with
  | [] => if octets <? 4 then None else Some (rev (cur :: done))
  | ch :: l' =>
      if is_digit ch then
        let nw := cur * 10 + digit_val ch in
        if saw && (cur =? 0) then None
        else if 255 <? nw then None
        else if saw then pton4_loop l' done nw true octets
        else if 4 <? octets + 1 then None
        else pton4_loop l' done nw true (octets + 1)
      else if (ch =? ch_dot) && saw then
        if octets =? 4 then None
        else pton4_loop l' (cur :: done) 0 false octets
      else None
  end.

Definition pton4_bytes (l : bytes) : option (list N) := pton4_loop l [] 0 false 0.

Fixpoint be_value (l : list N) (acc : N) : N :=
  match l with
  | [] => acc
  | b :: l' => be_value l' (acc * 256 + b)
  end.

Definition pton4 (l : bytes) : option N :=
  match pton4_bytes l with Some bs => Some (be_value bs 0) | None => None end.

Definition hex_digit_value (c : N) : option N :=
  if is_digit c then Some (c - 48)
  else if (97 <=? c) && (c <=? 102) then Some (c - 87)
  else if (65 <=? c) && (c <=? 70) then Some (c - 55)
  else None.

Definition len16 (out : bytes) : N := N.of_nat (length out).

Definition pton6_finish (out : bytes) (colonp : option nat) (xd : N) (val : N) : option bytes :=
  let out1 :=
    if 0 <? xd then
      if 16 <? len16 out + 2 then None else Some (out ++ [val / 256; val mod 256])
    else Some out in
  match out1 with
  | None => None
  | Some o =>
      match colonp with
      | Some c =>
          if len16 o =? 16 then None
          else Some (firstn c o ++ repeat 0 (16 - length o) ++ skipn c o)
      | None => if len16 o =? 16 then Some o else None
      end
  end.

(* the while loop of inet_pton6; curtok = input from the start of the current token *)
Fixpoint pton6_loop (l curtok : bytes) (out : bytes) (colonp : option nat) (xd val : N) : option bytes :=
  match l with
  | [] => pton6_finish out colonp xd val
  | ch :: l' =>
      match hex_digit_value ch with
      | Some d =>
          if xd =? 4 then None
          else pton6_loop l' curtok out colonp (xd + 1) (val * 16 + d)
      | None =>
          if ch =? ch_col then
            if xd =? 0 then
              match colonp with
              | Some _ => None
              | None => pton6_loop l' l' out (Some (length out)) xd val
              end
            else match l' with
                 | [] => None
                 | _ =>
                     if 16 <? len16 out + 2 then None
                     else pton6_loop l' l' (out ++ [val / 256; val mod 256]) colonp 0 0
                 end
          else if (ch =? ch_dot) && (len16 out + 4 <=? 16) then
            match pton4_bytes curtok with
            | Some bs => pton6_finish (out ++ bs) colonp 0 0
            | None => None
            end
          else None
      end
  end.

Definition pton6_bytes (l : bytes) : option bytes :=
  match l with
  | [] => None
  | c :: l' =>
      if c =? ch_col then
        match l' with
        | c1 :: _ => if c1 =? ch_col then pton6_loop l' l' [] None 0 0 else None
        | [] => None
        end
      else pton6_loop l l [] None 0 0
  end.

Definition pton6 (l : bytes) : option N :=
  match pton6_bytes l with Some bs => Some (be_value bs 0) | None => None end.

(* std::string::c_str() seen by a C function: up to the first NUL *)
Fixpoint cstr (l : bytes) : bytes :=
  match l with
  | [] => []
  | c :: l' => if c =? 0 then [] else c :: cstr l'
  end.

(* ------------------------------------------------------------------ dictionary-form peer list *)

Fixpoint map_lookup (k : bytes) (m : list (bytes * value)) : option value :=
  match m with
  | [] => None
  | (k', v) :: m' => if bytes_eqb k k' then Some v else map_lookup k m'
  end.

Definition key_ip : bytes := [105; 112].
Definition key_port : bytes := [112; 111; 114; 116].

Definition port_limit : Z := 65536%Z.

(* one element of the list: Some address = pushed, None = skipped *)
Definition normal_entry (v : value) : option addr :=
  match v with
  | VMap m =>
      match map_lookup key_ip m, map_lookup key_port m with
      | Some (VStr ip), Some (VInt port) =>
          if (port <=? 0)%Z || (port_limit <=? port)%Z then None
          else if existsb (fun c => c =? 0) ip then None          (* addr.find('\0') != npos *)
          else
            let s := cstr ip in
            match pton4 s with
            | Some a => if a =? 0 then None else Some (A4 a (Z.to_N port))
            | None =>
                match pton6 s with
                | Some a => if a =? 0 then None else Some (A6 a (Z.to_N port))
                | None => None
                end
            end
      | _, _ => None
      end
  | _ => None
  end.

Fixpoint parse_normal (l : list value) : list addr :=
  match l with
  | [] => []
  | v :: l' => match normal_entry v with
               | Some a => a :: parse_normal l'
               | None => parse_normal l'
               end
  end.

(* ------------------------------------------------------------------ sort_and_unique *)

(* sa_less *)
Definition addr_ltb (x y : addr) : bool :=
  match x, y with
  | A4 a p, A4 b q => if negb (a =? b) then a <? b else p <? q
  | A6 a p, A6 b q => if negb (a =? b) then a <? b else p <? q
  | A4 _ _, A6 _ _ => true
  | A6 _ _, A4 _ _ => false
  end.

(* sa_less_addr *)
Definition addr_ltb_addr (x y : addr) : bool :=
  match x, y with
  | A4 a _, A4 b _ => a <? b
  | A6 a _, A6 b _ => a <? b
  | A4 _ _, A6 _ _ => true
  | A6 _ _, A4 _ _ => false
  end.

(* sa_equal *)
Definition addr_eqb (x y : addr) : bool :=
  match x, y with
  | A4 a p, A4 b q => (a =? b) && (p =? q)
  | A6 a p, A6 b q => (a =? b) && (p =? q)
  | _, _ => false
  end.

(* std::sort with a strict total order whose equivalence is sa_equal: any correct sort gives the
   same sequence; modelled as insertion sort *)
Fixpoint sort_insert (x : addr) (l : list addr) : list addr :=
  match l with
  | [] => [x]
  | y :: l' => if addr_ltb y x then y :: sort_insert x l' else x :: l
  end.

Definition addr_sort (l : list addr) : list addr := fold_right sort_insert [] l.

(* std::unique with sa_equal *)
Fixpoint addr_unique (l : list addr) : list addr :=
  match l with
  | [] => []
  | x :: l' =>
      match l' with
      | [] => [x]
      | y :: _ => if addr_eqb x y then addr_unique l' else x :: addr_unique l'
      end
  end.

Definition sort_and_unique (l : list addr) : list addr := addr_unique (addr_sort l).

(* ------------------------------------------------------------------ PeerList::insert_available *)

(* AvailableList::insert_unique *)
Definition insert_unique (av : list addr) (x : addr) : list addr :=
  if existsb (fun a => addr_eqb a x) av then av else av ++ [x].

(* std::find_if(avail_itr, avail_last, [](sa){ return sa_less_addr(sa, addr); }) on the part of the
   list that existed when insert_available was entered *)
Fixpoint find_less (old : list addr) (x : addr) : list addr :=
  match old with
  | [] => []
  | e :: old' => if addr_ltb_addr e x then old else find_less old' x
  end.

Definition alen (l : list addr) : N := N.of_nat (length l).

Section InsertAvailable.
  (* what the existing-PeerInfo branch decides for an address (true = "updated", not inserted);
     a parameter: the theorems hold for every such function *)
  Variable peerinfo_skips : addr -> bool.

  (* the while loop; [old] is the suffix [avail_itr, avail_last) *)
  Fixpoint ia_loop (al : list addr) (av old : list addr) (maxsz : N) (inserted : N) : list addr * N :=
    match al with
    | [] => (av, inserted)
    | x :: al' =>
        if negb (alen av <? maxsz) then (av, inserted)
        else if (addr_port x =? 0) || addr_is_any x then ia_loop al' av old maxsz inserted
        else
          let old1 := find_less old x in
          match old1 with
          | e :: _ =>
              if negb (addr_ltb_addr e x) then ia_loop al' av old1 maxsz inserted     (* "unneeded" *)
              else if peerinfo_skips x then ia_loop al' av old1 maxsz inserted
              else ia_loop al' (insert_unique av x) old1 maxsz (inserted + 1)
          | [] =>
              if peerinfo_skips x then ia_loop al' av old1 maxsz inserted
              else ia_loop al' (insert_unique av x) old1 maxsz (inserted + 1)
          end
    end.

  Definition insert_available (av : list addr) (maxsz : N) (al : list addr) : list addr * N :=
    if maxsz <=? alen av then (av, 0) else ia_loop al av av maxsz 0.
End InsertAvailable.

(* operations on a PeerList that has no PeerInfo entries (the harness' configuration) *)
Inductive pl_op :=
| OpTracker (c4 c6 : bytes)     (* tracker reply: compact + compact6, sort_and_unique, insert_available *)
| OpPex (c4 : bytes)            (* PeerList::insert_pex_list *)
| OpBuffer (c4 c6 : bytes)      (* DownloadMain::receive_connect_peers: sort only *)
| OpRaw (c4 c6 : bytes).        (* insert_available on the list as parsed *)

Definition no_skip (_ : addr) : bool := false.

Definition parse_both (c4 c6 : bytes) : pres (list addr) :=
  match parse_compact c4 with
  | POk l4 => match parse_compact6 c6 with
              | POk l6 => POk (l4 ++ l6)
              | PFault => PFault | POutOfFuel => POutOfFuel
              end
  | PFault => PFault | POutOfFuel => POutOfFuel
  end.

Definition pl_step (maxsz : N) (st : pres (list addr * list N)) (op : pl_op) : pres (list addr * list N) :=
  match st with
  | POk (av, rets) =>
      let run (parsed : pres (list addr)) (prep : list addr -> list addr) :=
        match parsed with
        | POk l => let '(av', r) := insert_available no_skip av maxsz (prep l) in POk (av', rets ++ [r])
        | PFault => PFault | POutOfFuel => POutOfFuel
        end in
      match op with
      | OpTracker c4 c6 => run (parse_both c4 c6) sort_and_unique
      | OpPex c4 => match c4 with
                    | [] => POk (av, rets ++ [1])          (* "return true" *)
                    | _ => run (parse_compact c4) sort_and_unique
                    end
      | OpBuffer c4 c6 => run (parse_both c4 c6) addr_sort
      | OpRaw c4 c6 => run (parse_both c4 c6) (fun l => l)
      end
  | PFault => PFault | POutOfFuel => POutOfFuel
  end.

Definition pl_run (maxsz : N) (ops : list pl_op) : pres (list addr * list N) :=
  fold_left (pl_step maxsz) ops (POk ([], [])).

(* ------------------------------------------------------------------ UDP tracker *)

Definition udp_buffer_size : N := Params.udp_buffer_size.
Definition hdr_size : N := Params.udp_header_size.
Definition connect_size : N := Params.udp_connect_size.
Definition announce_size : N := Params.udp_announce_size.

Definition min_normal_interval : Z := Params.min_normal_interval.
Definition max_normal_interval : Z := Params.max_normal_interval.
Definition default_normal_interval : Z := Params.default_normal_interval.
Definition min_min_interval : Z := Params.min_min_interval.
Definition max_min_interval : Z := Params.max_min_interval.
Definition default_min_interval : Z := Params.default_min_interval.

Definition clamp (lo hi v : Z) : Z := Z.min (Z.max lo v) hi.

Definition ev_stopped : N := 3.
Definition ev_scrape : N := 4.

Record tstate := {
  ts_normal : Z;
  ts_min : Z;
  ts_complete : N;
  ts_incomplete : N;
  ts_downloaded : N;
  ts_scrape_counter : N;
  ts_tracker_id : bytes
}.

Definition tstate0 : tstate :=
  {| ts_normal := min_normal_interval; ts_min := min_min_interval; ts_complete := 0; ts_incomplete := 0;
     ts_downloaded := 0; ts_scrape_counter := 0; ts_tracker_id := [] |}.

Inductive phase := PhConnect | PhAnnounce.

(* what the tracker reports upwards *)
Inductive tevent :=
| EvDrop                          (* UdpRouter::event_read filtered the datagram out *)
| EvIgnore                        (* process_* returned true without effect *)
| EvFailure (msg : bytes)         (* m_slot_failure *)
| EvSuccess (l : list addr)       (* m_slot_success *)
| EvNewPeers (l : list addr)      (* m_slot_new_peers *)
| EvConnected (conn : N)          (* connect reply accepted: announce sent with this connection id *)
| EvFamilyReset                   (* this family failed, other family still pending: no callback *)
| EvScrapeSuccess
| EvScrapeFailure (msg : bytes)
| EvFault.

Record udp := {
  u_v6 : bool;                    (* family under test *)
  u_tx : N;                       (* state_for_family(family).transaction_id *)
  u_conn : N;
  u_other_tx : N;                 (* the other family's transaction id (0 = idle) *)
  u_routed : option (N * phase);  (* the router's connection for this tracker: id, process function *)
  u_ts : tstate
}.

(* symbolic transaction ids used by model and harness (the harness maps them onto the real ones) *)
Definition tx_connect : N := 3221225473.   (* 0xC0000001 *)
Definition tx_announce : N := 2684354562.  (* 0xA0000002 *)

Definition udp0 (v6 : bool) (other_tx : N) : udp :=
  {| u_v6 := v6; u_tx := tx_connect; u_conn := 0; u_other_tx := other_tx;
     u_routed := Some (tx_connect, PhConnect); u_ts := tstate0 |}.

(* "tracker message: " *)
Definition msg_tracker : bytes := [116;114;97;99;107;101;114;32;109;101;115;115;97;103;101;58;32].
(* "empty error message" *)
Definition msg_empty : bytes := [101;109;112;116;121;32;101;114;114;111;114;32;109;101;115;115;97;103;101].
(* "parse error: " *)
Definition msg_parse : bytes := [112;97;114;115;101;32;101;114;114;111;114;58;32].
(* "invalid connect response size" *)
Definition msg_connect_size : bytes :=
  [105;110;118;97;108;105;100;32;99;111;110;110;101;99;116;32;114;101;115;112;111;110;115;101;32;115;105;122;101].
(* "connection id is 0" *)
Definition msg_conn_zero : bytes := [99;111;110;110;101;99;116;105;111;110;32;105;100;32;105;115;32;48].
(* "invalid announce response size" *)
Definition msg_announce_size : bytes :=
  [105;110;118;97;108;105;100;32;97;110;110;111;117;110;99;101;32;114;101;115;112;111;110;115;101;32;115;105;122;101].

(* reset_family_with_error *)
Definition reset_family (u : udp) (msg : bytes) : udp * tevent :=
  if u_tx u =? 0 then (u, EvIgnore)
  else
    let u' := {| u_v6 := u_v6 u; u_tx := 0; u_conn := 0; u_other_tx := u_other_tx u;
                 u_routed := u_routed u; u_ts := u_ts u |} in
    if negb (u_other_tx u =? 0) then (u', EvFamilyReset) else (u', EvFailure msg).

Inductive hdr_result := HdrIgnore | HdrError | HdrOk | HdrFault.

(* TrackerUdp::process_header: returns the verdict, the new state and the event of process_error *)
Definition process_header (u : udp) (action : N) (buf : bytes) : hdr_result * udp * tevent :=
  if blen buf <? hdr_size then (HdrIgnore, u, EvIgnore)
  else match rd_be buf 0 4 0, rd_be buf 4 4 0 with
       | Some ra, Some tid =>
           if negb (tid =? u_tx u) then (HdrIgnore, u, EvIgnore)
           else if ra =? 3 then
             let m := skipn 8 buf in
             let '(u', e) := reset_family u (msg_tracker ++ (match m with [] => msg_empty | _ => m end)) in
             (HdrError, u', e)
           else if negb (ra =? action) then (HdrIgnore, u, EvIgnore)
           else (HdrOk, u, EvIgnore)
       | _, _ => (HdrFault, u, EvFault)
       end.

Definition set_routed (u : udp) (r : option (N * phase)) : udp :=
  {| u_v6 := u_v6 u; u_tx := u_tx u; u_conn := u_conn u; u_other_tx := u_other_tx u; u_routed := r; u_ts := u_ts u |}.

(* TrackerUdp::process_connect: (keep connection?, state, event) *)
Definition process_connect (u : udp) (buf : bytes) : bool * udp * tevent :=
  match process_header u 0 buf with
  | (HdrError, u', e) => (false, u', e)
  | (HdrIgnore, u', e) => (true, u', e)
  | (HdrFault, u', e) => (false, u', EvFault)
  | (HdrOk, u', _) =>
      if blen buf <? connect_size then
        let '(u2, e) := reset_family u' (msg_parse ++ msg_connect_size) in (false, u2, e)
      else match rd_be buf 8 8 0 with
           | None => (false, u', EvFault)
           | Some c =>
               if c =? 0 then
                 let '(u2, e) := reset_family u' (msg_parse ++ msg_conn_zero) in (false, u2, e)
               else
                 (* router->transfer: new connection id, connected(id), announce packet written *)
                 (true,
                  {| u_v6 := u_v6 u'; u_tx := tx_announce; u_conn := c; u_other_tx := u_other_tx u';
                     u_routed := Some (tx_announce, PhAnnounce); u_ts := u_ts u' |},
                  EvConnected c)
           end
  end.

Definition two32 : N := 4294967296.

(* TrackerUdp::process_announce *)
Definition process_announce (u : udp) (buf : bytes) : bool * udp * tevent :=
  match process_header u 1 buf with
  | (HdrError, u', e) => (false, u', e)
  | (HdrIgnore, u', e) => (true, u', e)
  | (HdrFault, u', e) => (false, u', EvFault)
  | (HdrOk, u', _) =>
      if blen buf <? announce_size then
        let '(u2, e) := reset_family u' (msg_parse ++ msg_announce_size) in (false, u2, e)
      else match rd_be buf 8 4 0, rd_be buf 12 4 0, rd_be buf 16 4 0 with
           | Some iv, Some leechers, Some seeders =>
               let ts := u_ts u' in
               let ts' := {| ts_normal := clamp min_normal_interval max_normal_interval (Z.of_N iv);
                             ts_min := clamp min_min_interval max_min_interval default_min_interval;
                             ts_complete := seeders; ts_incomplete := leechers;
                             ts_downloaded := ts_downloaded ts;
                             ts_scrape_counter := (ts_scrape_counter ts + 1) mod two32;
                             ts_tracker_id := ts_tracker_id ts |} in
               let n := blen buf in
               let rsz := if u_v6 u' then compact6_record_size else compact_record_size in
               let endp := n - (n - 20) mod rsz in
               match copy_records (S (length buf)) (u_v6 u') buf 20 endp [] with
               | POk l =>
                   let u2 := {| u_v6 := u_v6 u'; u_tx := 0; u_conn := 0; u_other_tx := u_other_tx u';
                                u_routed := u_routed u'; u_ts := ts' |} in
                   if negb (u_other_tx u' =? 0) then (false, u2, EvNewPeers l) else (false, u2, EvSuccess l)
               | _ => (false, u', EvFault)
               end
           | _, _, _ => (false, u', EvFault)
           end
  end.

(* UdpRouter::event_read for one datagram. from_ok: source address equals the connection's address.
   The kernel truncates the datagram to the 512-byte buffer. *)
Definition router_read (u : udp) (from_ok : bool) (dgram : bytes) : udp * tevent :=
  let buf := firstn (N.to_nat udp_buffer_size) dgram in
  if blen buf =? 0 then (u, EvDrop)
  else
    let tid := if blen buf <? hdr_size then Some 0 else rd_be buf 4 4 0 in
    match tid with
    | None => (u, EvFault)
    | Some tid =>
        if tid =? 0 then (u, EvDrop)
        else match u_routed u with
             | None => (u, EvDrop)
             | Some (id, ph) =>
                 if negb (tid =? id) then (u, EvDrop)
                 else if negb from_ok then (u, EvDrop)
                 else
                   let '(keep, u', e) := match ph with
                                         | PhConnect => process_connect u buf
                                         | PhAnnounce => process_announce u buf
                                         end in
                   if keep then (u', e) else (set_routed u' None, e)
             end
    end.

Definition udp_run (v6 : bool) (other_tx : N) (dgrams : list (bool * bytes)) : udp * list tevent :=
  fold_left (fun st d => let '(u, evs) := st in
                         let '(u', e) := router_read u (fst d) (snd d) in (u', evs ++ [e]))
            dgrams (udp0 v6 other_tx, []).

(* ------------------------------------------------------------------ HTTP tracker *)

Definition has_key (k : bytes) (m : list (bytes * value)) : bool :=
  match map_lookup k m with Some _ => true | None => false end.
Definition key_value (k : bytes) (m : list (bytes * value)) : option Z :=
  match map_lookup k m with Some (VInt z) => Some z | _ => None end.
Definition key_string (k : bytes) (m : list (bytes * value)) : option bytes :=
  match map_lookup k m with Some (VStr s) => Some s | _ => None end.

(* keys *)
Definition k_failure_reason : bytes := [102;97;105;108;117;114;101;32;114;101;97;115;111;110].
Definition k_warning_message : bytes := [119;97;114;110;105;110;103;32;109;101;115;115;97;103;101].
Definition k_tracker_id : bytes := [116;114;97;99;107;101;114;32;105;100].
Definition k_interval : bytes := [105;110;116;101;114;118;97;108].
Definition k_min_interval : bytes := [109;105;110;32;105;110;116;101;114;118;97;108].
Definition k_complete : bytes := [99;111;109;112;108;101;116;101].
Definition k_incomplete : bytes := [105;110;99;111;109;112;108;101;116;101].
Definition k_downloaded : bytes := [100;111;119;110;108;111;97;100;101;100].
Definition k_peers : bytes := [112;101;101;114;115].
Definition k_peers6 : bytes := [112;101;101;114;115;54].
Definition k_files : bytes := [102;105;108;101;115].

(* messages *)
Definition m_parse : bytes := [112;97;114;115;101].   (* canonical token for "Could not parse bencoded data…" *)
(* "Root not a bencoded map" *)
Definition m_root : bytes := [82;111;111;116;32;110;111;116;32;97;32;98;101;110;99;111;100;101;100;32;109;97;112].
(* Failure reason + double quote *)
Definition m_failure_pre : bytes := [70;97;105;108;117;114;101;32;114;101;97;115;111;110;32;34].
(* "failure reason not a string" *)
Definition m_failure_nostr : bytes :=
  [102;97;105;108;117;114;101;32;114;101;97;115;111;110;32;110;111;116;32;97;32;115;116;114;105;110;103].
(* "Tracker warning: " *)
Definition m_warning_pre : bytes := [84;114;97;99;107;101;114;32;119;97;114;110;105;110;103;58;32].
(* "No peers returned" *)
Definition m_no_peers : bytes := [78;111;32;112;101;101;114;115;32;114;101;116;117;114;110;101;100].
(* "Tracker scrape does not have files entry." *)
Definition m_scrape_files : bytes :=
  [84;114;97;99;107;101;114;32;115;99;114;97;112;101;32;100;111;101;115;32;110;111;116;32;104;97;118;101;32;
   102;105;108;101;115;32;101;110;116;114;121;46].
(* "Tracker scrape replay did not contain infohash." *)
Definition m_scrape_hash : bytes :=
  [84;114;97;99;107;101;114;32;115;99;114;97;112;101;32;114;101;112;108;97;121;32;100;105;100;32;110;111;116;32;
   99;111;110;116;97;105;110;32;105;110;102;111;104;97;115;104;46].
(* "unregistered", "not registered", "torrent cannot be found" *)
Definition w_unregistered : bytes := [117;110;114;101;103;105;115;116;101;114;101;100].
Definition w_not_registered : bytes := [110;111;116;32;114;101;103;105;115;116;101;114;101;100].
Definition w_cannot_be_found : bytes :=
  [116;111;114;114;101;110;116;32;99;97;110;110;111;116;32;98;101;32;102;111;117;110;100].

Fixpoint is_prefix (p s : bytes) : bool :=
  match p, s with
  | [], _ => true
  | x :: p', y :: s' => (x =? y) && is_prefix p' s'
  | _ :: _, [] => false
  end.

(* std::string::find(sub) != npos *)
Fixpoint contains (sub s : bytes) : bool :=
  is_prefix sub s || match s with [] => false | _ :: s' => contains sub s' end.

(* int64 -> uint32 after std::max<int64_t>(v, 0) *)
Definition clip_u32 (z : Z) : N := Z.to_N (Z.max z 0) mod two32.

Definition upd_tracker_id (m : list (bytes * value)) (ts : tstate) : tstate :=
  match key_string k_tracker_id m with
  | Some (c :: s) => {| ts_normal := ts_normal ts; ts_min := ts_min ts; ts_complete := ts_complete ts;
                        ts_incomplete := ts_incomplete ts; ts_downloaded := ts_downloaded ts;
                        ts_scrape_counter := ts_scrape_counter ts; ts_tracker_id := c :: s |}
  | _ => ts
  end.

Definition upd_intervals (dflt : bool) (m : list (bytes * value)) (ts : tstate) : tstate :=
  let n := match key_value k_interval m with
           | Some v => clamp min_normal_interval max_normal_interval v
           | None => if dflt then clamp min_normal_interval max_normal_interval default_normal_interval else ts_normal ts
           end in
  let mi := match key_value k_min_interval m with
            | Some v => clamp min_min_interval max_min_interval v
            | None => if dflt then clamp min_min_interval max_min_interval default_min_interval else ts_min ts
            end in
  {| ts_normal := n; ts_min := mi; ts_complete := ts_complete ts; ts_incomplete := ts_incomplete ts;
     ts_downloaded := ts_downloaded ts; ts_scrape_counter := ts_scrape_counter ts; ts_tracker_id := ts_tracker_id ts |}.

Definition upd_scrape (m : list (bytes * value)) (ts : tstate) : tstate :=
  let ts1 := match key_value k_complete m, key_value k_incomplete m with
             | Some c, Some i =>
                 {| ts_normal := ts_normal ts; ts_min := ts_min ts; ts_complete := clip_u32 c;
                    ts_incomplete := clip_u32 i; ts_downloaded := ts_downloaded ts;
                    ts_scrape_counter := (ts_scrape_counter ts + 1) mod two32; ts_tracker_id := ts_tracker_id ts |}
             | _, _ => ts
             end in
  match key_value k_downloaded m with
  | Some d => {| ts_normal := ts_normal ts1; ts_min := ts_min ts1; ts_complete := ts_complete ts1;
                 ts_incomplete := ts_incomplete ts1; ts_downloaded := clip_u32 d;
                 ts_scrape_counter := ts_scrape_counter ts1; ts_tracker_id := ts_tracker_id ts1 |}
  | None => ts1
  end.

(* process_failure / the locked first block of process_success *)
Definition process_fields (dflt : bool) (m : list (bytes * value)) (ts : tstate) : tstate :=
  upd_scrape m (upd_intervals dflt m (upd_tracker_id m ts)).

(* receive_failed with no second family to try *)
Definition http_failed (event : N) (msg : bytes) : tevent :=
  if event =? ev_scrape then EvScrapeFailure msg else EvFailure msg.

Definition process_success (event : N) (m : list (bytes * value)) (ts : tstate) : tstate * tevent :=
  let ts' := process_fields true m ts in
  let peers := match map_lookup k_peers m with
               | Some (VStr s) => match parse_compact s with POk l => Some (POk l) | r => Some r end
               | Some (VList l) => Some (POk (parse_normal l))
               | Some _ => Some (POk [])
               | None => None
               end in
  let l1 := match peers with Some r => r | None => POk [] end in
  let has1 := match peers with Some _ => true | None => false end in
  match l1 with
  | POk a1 =>
      let r6 := match key_string k_peers6 m with
                | Some s => Some (parse_compact6 s)
                | None => None
                end in
      match r6 with
      | Some PFault | Some POutOfFuel => (ts', EvFault)
      | _ =>
          let a6 := match r6 with Some (POk l) => l | _ => [] end in
          let has := has1 || match r6 with Some _ => true | None => false end in
          if negb has && negb (event =? ev_stopped) then (ts', http_failed event m_no_peers)
          else (ts', EvSuccess (a1 ++ a6))
      end
  | _ => (ts', EvFault)
  end.

Definition process_scrape (info_hash : bytes) (m : list (bytes * value)) (ts : tstate) : tstate * tevent :=
  match map_lookup k_files m with
  | Some (VMap files) =>
      match map_lookup info_hash files with
      | Some (VMap stats) =>
          let c := match key_value k_complete stats with Some v => clip_u32 v | None => ts_complete ts end in
          let i := match key_value k_incomplete stats with Some v => clip_u32 v | None => ts_incomplete ts end in
          let d := match key_value k_downloaded stats with Some v => clip_u32 v | None => ts_downloaded ts end in
          ({| ts_normal := ts_normal ts; ts_min := ts_min ts; ts_complete := c; ts_incomplete := i;
              ts_downloaded := d; ts_scrape_counter := ts_scrape_counter ts; ts_tracker_id := ts_tracker_id ts |},
           EvScrapeSuccess)
      | _ => (ts, EvScrapeFailure m_scrape_hash)
      end
  | _ => (ts, EvScrapeFailure m_scrape_files)
  end.

(* TrackerHttp::receive_done on the reply body; event = latest_event *)
Definition http_receive_done (info_hash : bytes) (event : N) (body : bytes) (ts : tstate) : tstate * tevent :=
  match decode_stream body with
  | Ok (VMap m, _) _ =>
      if has_key k_failure_reason m then
        let ts' := if event =? ev_scrape then ts else process_fields false m ts in
        let reason := match map_lookup k_failure_reason m with
                      | Some (VStr s) => s
                      | _ => m_failure_nostr
                      end in
        (ts', http_failed event (m_failure_pre ++ reason ++ [34]))
      else
        let warn := match key_string k_warning_message m with
                    | Some w => if contains w_unregistered w || contains w_not_registered w || contains w_cannot_be_found w
                                then Some w else None
                    | None => None
                    end in
        match warn with
        | Some w => (ts, http_failed event (m_warning_pre ++ w))
        | None =>
            if event =? ev_scrape then process_scrape info_hash m ts
            else process_success event m ts
        end
  | Ok (_, _) _ => (ts, http_failed event m_root)
  | Reject => (ts, http_failed event m_parse)
  | Fault => (ts, EvFault)
  | OutOfFuel => (ts, EvFault)
  end.
