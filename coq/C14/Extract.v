From Coq Require Import Extraction ExtrOcamlBasic.
From LTV.C07 Require Import Model.
From LTV.C07 Require Import StaticMap.
From LTV.C14 Require Import Model ModelDht.
Set Extraction Optimize.
Extraction Language OCaml.
Extraction "extracted/c14_model.ml" parse_compact parse_compact6 parse_bencode_peers parse_normal normalize
  pl_run udp_run http_receive_done tstate0 tx_connect tx_announce pton4 pton6 sort_and_unique
  dht_envelope dht_datagram dht_reply_values sm_read dht ent_raw_string pex_apply k_r_nodes pi_run http_two_families dht_find_node_reply search_run udp_run_pending http_announces.
