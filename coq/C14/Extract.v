From Coq Require Import Extraction ExtrOcamlBasic.
From LTV.C07 Require Import Model.
From LTV.C14 Require Import Model.
Set Extraction Optimize.
Extraction Language OCaml.
Extraction "extracted/c14_model.ml" parse_compact parse_compact6 parse_bencode_peers parse_normal normalize
  pl_run udp_run http_receive_done tstate0 tx_connect tx_announce pton4 pton6 sort_and_unique.
