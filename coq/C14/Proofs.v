(* C14 — lemmas and proofs about coq/C14/Model.v *)
From Coq Require Import List NArith ZArith Bool Lia Arith.
From Coq Require Import ZifyBool ZifyNat ZifyN.
From LTV Require Import Common.Bytes Params_gen.
From LTV.C07 Require Import Model.
From LTV.C14 Require Import Model.
Import ListNotations.
Local Open Scope N_scope.
Ltac Zify.zify_post_hook ::= Z.div_mod_to_equations.

(* the generated constants satisfy the side conditions the theorems need *)
Definition params_ok : bool :=
  (Params.udp_header_size =? 8) && (Params.udp_connect_size =? 16) && (Params.udp_announce_size =? 20) &&
  (Params.udp_router_peek_size =? 8) && (20 <=? Params.udp_buffer_size) &&
  (0 <? Params.min_normal_interval)%Z && (Params.min_normal_interval <=? Params.max_normal_interval)%Z &&
  (0 <? Params.min_min_interval)%Z && (Params.min_min_interval <=? Params.max_min_interval)%Z.
Lemma params_ok_now : params_ok = true.
Proof. vm_compute. reflexivity. Qed.

(* ------------------------------------------------------------------ buffers *)

Lemma blen_app a b : blen (a ++ b) = blen a + blen b.
Proof. unfold blen. rewrite app_length. lia. Qed.

Lemma blen_cons x l : blen (x :: l) = blen l + 1.
Proof. unfold blen. cbn [length]. lia. Qed.

Lemma rd_app_at pre x r : rd (pre ++ x :: r) (blen pre) = Some x.
Proof.
  unfold rd, blen. rewrite Nat2N.id. rewrite nth_error_app2 by lia.
  rewrite Nat.sub_diag. reflexivity.
Qed.

Lemma rd_be_app : forall l pre r acc,
  rd_be (pre ++ l ++ r) (blen pre) (length l) acc = Some (be_value l acc).
Proof.
  induction l as [|x l IH]; intros pre r acc.
  - reflexivity.
  - cbn [length rd_be be_value app]. rewrite rd_app_at.
    replace (pre ++ x :: l ++ r) with ((pre ++ [x]) ++ l ++ r) by (rewrite <- app_assoc; reflexivity).
    replace (blen pre + 1) with (blen (pre ++ [x])) by (rewrite blen_app; reflexivity).
    apply IH.
Qed.

(* ------------------------------------------------------------------ compact strings: specification *)

Definition rsz_of (v6 : bool) : nat := if v6 then 18%nat else 6%nat.

(* the record at the head of l (l has at least rsz_of v6 bytes): address bytes big-endian, then port *)
Definition mk_record (v6 : bool) (l : bytes) : addr :=
  let al := (rsz_of v6 - 2)%nat in
  let a := be_value (firstn al l) 0 in
  let p := be_value (firstn 2 (skipn al l)) 0 in
  if v6 then A6 a p else A4 a p.

(* the whole records of l, in order, nothing else *)
Fixpoint spec_rec (fuel : nat) (v6 : bool) (l : bytes) : list addr :=
  match fuel with
  | O => []
  | S f => if (length l <? rsz_of v6)%nat then []
           else mk_record v6 l :: spec_rec f v6 (skipn (rsz_of v6) l)
  end.

Definition whole_records (v6 : bool) (l : bytes) : list addr := spec_rec (S (length l)) v6 l.

Lemma skipn_skipn (A : Type) : forall (x y : nat) (l : list A), skipn x (skipn y l) = skipn (x + y) l.
Proof.
  intros x y. revert x. induction y as [|y IH]; intros x l.
  - rewrite Nat.add_0_r. reflexivity.
  - destruct l as [|a l].
    + rewrite !skipn_nil. reflexivity.
    + rewrite Nat.add_succ_r. cbn [skipn]. apply IH.
Qed.

Lemma split3 : forall (rest : bytes) (a b : nat),
  (a + b <= length rest)%nat ->
  rest = firstn a rest ++ firstn b (skipn a rest) ++ skipn (a + b) rest /\
  length (firstn a rest) = a /\ length (firstn b (skipn a rest)) = b.
Proof.
  intros rest a b H. repeat split.
  - rewrite <- (firstn_skipn a rest) at 1. f_equal.
    rewrite <- (firstn_skipn b (skipn a rest)) at 1. f_equal.
    rewrite skipn_skipn. f_equal. lia.
  - apply firstn_length_le. lia.
  - apply firstn_length_le. rewrite skipn_length. lia.
Qed.

Lemma copy_spec : forall fuel v6 rest pre acc,
  (length rest < fuel)%nat ->
  copy_records fuel v6 (pre ++ rest) (blen pre)
     (blen pre + (blen rest - blen rest mod N.of_nat (rsz_of v6))) acc
  = POk (rev acc ++ spec_rec fuel v6 rest).
Proof.
  induction fuel as [|fuel IH]; intros v6 rest pre acc Hf; [lia|].
  cbn [copy_records spec_rec].
  destruct (Nat.ltb_spec (length rest) (rsz_of v6)) as [Hs|Hs].
  - assert (E : blen rest mod N.of_nat (rsz_of v6) = blen rest).
    { apply N.mod_small. unfold blen. lia. }
    rewrite E, N.sub_diag, N.add_0_r, N.eqb_refl, app_nil_r. reflexivity.
  - set (endp := blen pre + (blen rest - blen rest mod N.of_nat (rsz_of v6))).
    assert (Hne : (blen pre =? endp) = false).
    { apply N.eqb_neq. unfold endp, blen in *. destruct v6; cbn [rsz_of] in *; lia. }
    rewrite Hne.
    destruct (split3 rest (rsz_of v6 - 2) 2) as (Hd & HA & HP).
    { destruct v6; cbn [rsz_of] in *; lia. }
    replace (rsz_of v6 - 2 + 2)%nat with (rsz_of v6) in Hd by (destruct v6; reflexivity).
    set (A := firstn (rsz_of v6 - 2) rest) in *.
    set (P := firstn 2 (skipn (rsz_of v6 - 2) rest)) in *.
    set (R := skipn (rsz_of v6) rest) in *.
    assert (R1 : rd_be (pre ++ rest) (blen pre) (if v6 then 16%nat else 4%nat) 0 = Some (be_value A 0)).
    { replace (if v6 then 16%nat else 4%nat) with (length A) by (rewrite HA; destruct v6; reflexivity).
      rewrite Hd. apply rd_be_app. }
    assert (R2 : rd_be (pre ++ rest) (blen pre + ((if v6 then 18 else 6) - 2)) 2 0 = Some (be_value P 0)).
    { replace 2%nat with (length P) by exact HP.
      rewrite Hd at 1. rewrite app_assoc.
      replace (blen pre + ((if v6 then 18 else 6) - 2)) with (blen (pre ++ A)).
      - apply rd_be_app.
      - rewrite blen_app. unfold blen at 2. rewrite HA. destruct v6; reflexivity. }
    rewrite R1, R2.
    assert (Hbuf : pre ++ rest = (pre ++ A ++ P) ++ R).
    { rewrite Hd at 1. rewrite <- !app_assoc. reflexivity. }
    assert (Hlen : blen (pre ++ A ++ P) = blen pre + (if v6 then 18 else 6)).
    { rewrite !blen_app. unfold blen at 2 3. rewrite HA, HP. destruct v6; cbn; lia. }
    assert (HR : blen rest = N.of_nat (rsz_of v6) + blen R).
    { rewrite Hd at 1. rewrite !blen_app. unfold blen at 1 2. rewrite HA, HP. destruct v6; cbn; lia. }
    assert (Hend : endp = blen (pre ++ A ++ P) + (blen R - blen R mod N.of_nat (rsz_of v6))).
    { unfold endp. rewrite Hlen, HR. destruct v6; cbn [rsz_of]; lia. }
    rewrite Hend, <- Hlen, Hbuf.
    rewrite IH.
    + cbn [rev]. rewrite <- app_assoc. cbn [app]. unfold mk_record. fold A. fold P.
      destruct v6; reflexivity.
    + unfold R. rewrite skipn_length. destruct v6; cbn [rsz_of] in *; lia.
Qed.

Lemma compact_exact : forall buf, parse_compact buf = POk (whole_records false buf).
Proof.
  intro buf. unfold parse_compact, whole_records, compact_record_size.
  pose proof (copy_spec (S (length buf)) false buf [] []) as H.
  cbn [app rev blen length rsz_of] in H. unfold blen at 1 in H. cbn [length] in H.
  change (N.of_nat 0) with 0 in H. rewrite !N.add_0_l in H.
  change (N.of_nat 6) with 6 in H. apply H. lia.
Qed.

Lemma compact6_exact : forall buf, parse_compact6 buf = POk (whole_records true buf).
Proof.
  intro buf. unfold parse_compact6, whole_records, compact6_record_size.
  pose proof (copy_spec (S (length buf)) true buf [] []) as H.
  cbn [app rev blen length rsz_of] in H. unfold blen at 1 in H. cbn [length] in H.
  change (N.of_nat 0) with 0 in H. rewrite !N.add_0_l in H.
  change (N.of_nat 18) with 18 in H. apply H. lia.
Qed.

(* "the floor(n/6) resp. floor(n/18) records": count and position of every element *)
Lemma spec_rec_length : forall fuel v6 l, (length l < fuel)%nat ->
  length (spec_rec fuel v6 l) = (length l / rsz_of v6)%nat.
Proof.
  induction fuel as [|fuel IH]; intros v6 l H; [lia|].
  cbn [spec_rec]. destruct (Nat.ltb_spec (length l) (rsz_of v6)) as [Hs|Hs].
  - rewrite Nat.div_small by exact Hs. reflexivity.
  - cbn [length]. rewrite IH.
    + rewrite skipn_length.
      assert (rsz_of v6 <> 0)%nat by (destruct v6; cbn; lia).
      replace (length l) with ((length l - rsz_of v6) + 1 * rsz_of v6)%nat at 2 by lia.
      rewrite Nat.div_add by assumption. lia.
    + rewrite skipn_length. destruct v6; cbn [rsz_of] in *; lia.
Qed.

Lemma whole_records_length : forall v6 l, length (whole_records v6 l) = (length l / rsz_of v6)%nat.
Proof. intros. apply spec_rec_length. lia. Qed.

Lemma spec_rec_nth : forall fuel v6 l i, (length l < fuel)%nat -> (i < length l / rsz_of v6)%nat ->
  nth_error (spec_rec fuel v6 l) i = Some (mk_record v6 (skipn (i * rsz_of v6) l)).
Proof.
  induction fuel as [|fuel IH]; intros v6 l i H Hi; [lia|].
  assert (Hr : (rsz_of v6 <> 0)%nat) by (destruct v6; cbn; lia).
  cbn [spec_rec]. destruct (Nat.ltb_spec (length l) (rsz_of v6)) as [Hs|Hs].
  - rewrite Nat.div_small in Hi by exact Hs. lia.
  - destruct i as [|i].
    + reflexivity.
    + cbn [nth_error]. rewrite IH.
      * rewrite skipn_skipn. do 3 f_equal. lia.
      * rewrite skipn_length. lia.
      * rewrite skipn_length.
        replace (length l) with ((length l - rsz_of v6) + 1 * rsz_of v6)%nat in Hi by lia.
        rewrite Nat.div_add in Hi by assumption. lia.
Qed.

Lemma whole_records_nth : forall v6 l i, (i < length l / rsz_of v6)%nat ->
  nth_error (whole_records v6 l) i = Some (mk_record v6 (skipn (i * rsz_of v6) l)).
Proof. intros. apply spec_rec_nth; [lia|assumption]. Qed.

Lemma parsers_no_fault : forall buf,
  parse_compact buf <> PFault /\ parse_compact buf <> POutOfFuel /\
  parse_compact6 buf <> PFault /\ parse_compact6 buf <> POutOfFuel.
Proof. intro buf. rewrite compact_exact, compact6_exact. repeat split; discriminate. Qed.
