(* C14 — lemmas and proofs about coq/C14/Model.v *)
From Coq Require Import List NArith ZArith Bool Lia Arith.
From Coq Require Import ZifyBool ZifyNat ZifyN.
From LTV Require Import Common.Bytes.
From LTV.C14 Require Import ParamsGen.
From LTV.C07 Require Import Model ProofsSafe.
From LTV.C14 Require Import Model.
Import ListNotations.
Local Open Scope N_scope.
Ltac Zify.zify_post_hook ::= Z.div_mod_to_equations.

(* the generated constants satisfy the side conditions the theorems need *)
Definition params_ok : bool :=
  (Params.udp_header_size =? 8) && (Params.udp_connect_size =? 16) && (Params.udp_announce_size =? 20) &&
  (Params.udp_router_peek_size =? 8) && (20 <=? Params.udp_buffer_size) &&
  (0 <? Params.min_normal_interval)%Z && (Params.min_normal_interval <=? Params.max_normal_interval)%Z &&
  (0 <? Params.min_min_interval)%Z && (Params.min_min_interval <=? Params.max_min_interval)%Z.
Lemma params_ok_now : params_ok = true.
Proof. vm_compute. reflexivity. Qed.

(* ------------------------------------------------------------------ buffers *)

Lemma blen_app a b : blen (a ++ b) = blen a + blen b.
Proof. unfold blen. rewrite app_length. lia. Qed.

Lemma blen_cons x l : blen (x :: l) = blen l + 1.
Proof. unfold blen. cbn [length]. lia. Qed.

Lemma rd_app_at pre x r : rd (pre ++ x :: r) (blen pre) = Some x.
Proof.
  unfold rd, blen. rewrite Nat2N.id. rewrite nth_error_app2 by lia.
  rewrite Nat.sub_diag. reflexivity.
Qed.

Lemma rd_be_app : forall l pre r acc,
  rd_be (pre ++ l ++ r) (blen pre) (length l) acc = Some (be_value l acc).
Proof.
  induction l as [|x l IH]; intros pre r acc.
  - reflexivity.
  - cbn [length rd_be be_value app]. rewrite rd_app_at.
    replace (pre ++ x :: l ++ r) with ((pre ++ [x]) ++ l ++ r) by (rewrite <- app_assoc; reflexivity).
    replace (blen pre + 1) with (blen (pre ++ [x])) by (rewrite blen_app; reflexivity).
    apply IH.
Qed.

(* ------------------------------------------------------------------ compact strings: specification *)

Definition rsz_of (v6 : bool) : nat := if v6 then 18%nat else 6%nat.

(* the record at the head of l (l has at least rsz_of v6 bytes): address bytes big-endian, then port *)
Definition mk_record (v6 : bool) (l : bytes) : addr :=
  let al := (rsz_of v6 - 2)%nat in
  let a := be_value (firstn al l) 0 in
  let p := be_value (firstn 2 (skipn al l)) 0 in
  if v6 then A6 a p else A4 a p.

(* the whole records of l, in order, nothing else *)
Fixpoint spec_rec (fuel : nat) (v6 : bool) (l : bytes) : list addr :=
  match fuel with
  | O => []
  | S f => if (length l <? rsz_of v6)%nat then []
           else mk_record v6 l :: spec_rec f v6 (skipn (rsz_of v6) l)
  end.

Definition whole_records (v6 : bool) (l : bytes) : list addr := spec_rec (S (length l)) v6 l.

Lemma skipn_skipn (A : Type) : forall (x y : nat) (l : list A), skipn x (skipn y l) = skipn (x + y) l.
Proof.
  intros x y. revert x. induction y as [|y IH]; intros x l.
  - rewrite Nat.add_0_r. reflexivity.
  - destruct l as [|a l].
    + rewrite !skipn_nil. reflexivity.
    + rewrite Nat.add_succ_r. cbn [skipn]. apply IH.
Qed.

Lemma split3 : forall (rest : bytes) (a b : nat),
  (a + b <= length rest)%nat ->
  rest = firstn a rest ++ firstn b (skipn a rest) ++ skipn (a + b) rest /\
  length (firstn a rest) = a /\ length (firstn b (skipn a rest)) = b.
Proof.
  intros rest a b H. repeat split.
  - rewrite <- (firstn_skipn a rest) at 1. f_equal.
    rewrite <- (firstn_skipn b (skipn a rest)) at 1. f_equal.
    rewrite skipn_skipn. f_equal. lia.
  - apply firstn_length_le. lia.
  - apply firstn_length_le. rewrite skipn_length. lia.
Qed.

Lemma copy_spec : forall fuel v6 rest pre acc,
  (length rest < fuel)%nat ->
  copy_records fuel v6 (pre ++ rest) (blen pre)
     (blen pre + (blen rest - blen rest mod N.of_nat (rsz_of v6))) acc
  = POk (rev acc ++ spec_rec fuel v6 rest).
Proof.
  induction fuel as [|fuel IH]; intros v6 rest pre acc Hf; [lia|].
  cbn [copy_records spec_rec].
  destruct (Nat.ltb_spec (length rest) (rsz_of v6)) as [Hs|Hs].
  - assert (E : blen rest mod N.of_nat (rsz_of v6) = blen rest).
    { apply N.mod_small. unfold blen. lia. }
    rewrite E, N.sub_diag, N.add_0_r, N.eqb_refl, app_nil_r. reflexivity.
  - set (endp := blen pre + (blen rest - blen rest mod N.of_nat (rsz_of v6))).
    assert (Hne : (blen pre =? endp) = false).
    { apply N.eqb_neq. unfold endp, blen in *. destruct v6; cbn [rsz_of] in *; lia. }
    rewrite Hne.
    destruct (split3 rest (rsz_of v6 - 2) 2) as (Hd & HA & HP).
    { destruct v6; cbn [rsz_of] in *; lia. }
    replace (rsz_of v6 - 2 + 2)%nat with (rsz_of v6) in Hd by (destruct v6; reflexivity).
    set (A := firstn (rsz_of v6 - 2) rest) in *.
    set (P := firstn 2 (skipn (rsz_of v6 - 2) rest)) in *.
    set (R := skipn (rsz_of v6) rest) in *.
    assert (R1 : rd_be (pre ++ rest) (blen pre) (if v6 then 16%nat else 4%nat) 0 = Some (be_value A 0)).
    { replace (if v6 then 16%nat else 4%nat) with (length A) by (rewrite HA; destruct v6; reflexivity).
      rewrite Hd. apply rd_be_app. }
    assert (R2 : rd_be (pre ++ rest) (blen pre + ((if v6 then 18 else 6) - 2)) 2 0 = Some (be_value P 0)).
    { replace 2%nat with (length P) by exact HP.
      rewrite Hd at 1. rewrite app_assoc.
      replace (blen pre + ((if v6 then 18 else 6) - 2)) with (blen (pre ++ A)).
      - apply rd_be_app.
      - rewrite blen_app. unfold blen at 2. rewrite HA. destruct v6; reflexivity. }
    rewrite R1, R2.
    assert (Hbuf : pre ++ rest = (pre ++ A ++ P) ++ R).
    { rewrite Hd at 1. rewrite <- !app_assoc. reflexivity. }
    assert (Hlen : blen (pre ++ A ++ P) = blen pre + (if v6 then 18 else 6)).
    { rewrite !blen_app. unfold blen at 2 3. rewrite HA, HP. destruct v6; cbn [rsz_of]; lia. }
    assert (HR : blen rest = N.of_nat (rsz_of v6) + blen R).
    { rewrite Hd at 1. rewrite !blen_app. unfold blen at 1 2. rewrite HA, HP. destruct v6; cbn [rsz_of]; lia. }
    assert (Hend : endp = blen (pre ++ A ++ P) + (blen R - blen R mod N.of_nat (rsz_of v6))).
    { unfold endp. rewrite Hlen, HR. destruct v6; cbn [rsz_of]; lia. }
    rewrite Hend, <- Hlen, Hbuf.
    rewrite IH.
    + cbn [rev]. rewrite <- app_assoc. cbn [app]. unfold mk_record. fold A. fold P.
      destruct v6; reflexivity.
    + unfold R. rewrite skipn_length. destruct v6; cbn [rsz_of] in *; lia.
Qed.

Lemma compact_exact : forall buf, parse_compact buf = POk (whole_records false buf).
Proof.
  intro buf. unfold parse_compact, whole_records, compact_record_size.
  pose proof (copy_spec (S (length buf)) false buf [] []) as H.
  cbn [app rev blen length rsz_of] in H. unfold blen at 1 in H. cbn [length] in H.
  change (N.of_nat 0) with 0 in H. rewrite !N.add_0_l in H.
  change (N.of_nat 6) with 6 in H. apply H. lia.
Qed.

Lemma compact6_exact : forall buf, parse_compact6 buf = POk (whole_records true buf).
Proof.
  intro buf. unfold parse_compact6, whole_records, compact6_record_size.
  pose proof (copy_spec (S (length buf)) true buf [] []) as H.
  cbn [app rev blen length rsz_of] in H. unfold blen at 1 in H. cbn [length] in H.
  change (N.of_nat 0) with 0 in H. rewrite !N.add_0_l in H.
  change (N.of_nat 18) with 18 in H. apply H. lia.
Qed.

(* "the floor(n/6) resp. floor(n/18) records": count and position of every element *)
Lemma spec_rec_length : forall fuel v6 l, (length l < fuel)%nat ->
  length (spec_rec fuel v6 l) = (length l / rsz_of v6)%nat.
Proof.
  induction fuel as [|fuel IH]; intros v6 l H; [lia|].
  cbn [spec_rec]. destruct (Nat.ltb_spec (length l) (rsz_of v6)) as [Hs|Hs].
  - rewrite Nat.div_small by exact Hs. reflexivity.
  - cbn [length]. rewrite IH.
    + rewrite skipn_length.
      assert (rsz_of v6 <> 0)%nat by (destruct v6; cbn; lia).
      replace (length l) with ((length l - rsz_of v6) + 1 * rsz_of v6)%nat at 2 by lia.
      rewrite Nat.div_add by assumption. lia.
    + rewrite skipn_length. destruct v6; cbn [rsz_of] in *; lia.
Qed.

Lemma whole_records_length : forall v6 l, length (whole_records v6 l) = (length l / rsz_of v6)%nat.
Proof. intros. apply spec_rec_length. lia. Qed.

Lemma spec_rec_nth : forall fuel v6 l i, (length l < fuel)%nat -> (i < length l / rsz_of v6)%nat ->
  nth_error (spec_rec fuel v6 l) i = Some (mk_record v6 (skipn (i * rsz_of v6) l)).
Proof.
  induction fuel as [|fuel IH]; intros v6 l i H Hi; [lia|].
  assert (Hr : (rsz_of v6 <> 0)%nat) by (destruct v6; cbn; lia).
  cbn [spec_rec]. destruct (Nat.ltb_spec (length l) (rsz_of v6)) as [Hs|Hs].
  - rewrite Nat.div_small in Hi by exact Hs. lia.
  - destruct i as [|i].
    + reflexivity.
    + cbn [nth_error]. rewrite IH.
      * rewrite skipn_skipn. do 3 f_equal. lia.
      * rewrite skipn_length. lia.
      * rewrite skipn_length.
        replace (length l) with ((length l - rsz_of v6) + 1 * rsz_of v6)%nat in Hi by lia.
        rewrite Nat.div_add in Hi by assumption. lia.
Qed.

Lemma whole_records_nth : forall v6 l i, (i < length l / rsz_of v6)%nat ->
  nth_error (whole_records v6 l) i = Some (mk_record v6 (skipn (i * rsz_of v6) l)).
Proof. intros. apply spec_rec_nth; [lia|assumption]. Qed.

Lemma parsers_no_fault : forall buf,
  parse_compact buf <> PFault /\ parse_compact buf <> POutOfFuel /\
  parse_compact6 buf <> PFault /\ parse_compact6 buf <> POutOfFuel.
Proof. intro buf. rewrite compact_exact, compact6_exact. repeat split; discriminate. Qed.

(* ------------------------------------------------------------------ dictionary form *)

Definition opt_list (A : Type) (o : option A) : list A := match o with Some a => [a] | None => [] end.

(* order-preserving: exactly the accepted entries, in the order of the list *)
Lemma normal_exact : forall l, parse_normal l = flat_map (fun v => opt_list _ (normal_entry v)) l.
Proof.
  induction l as [|v l IH]; [reflexivity|].
  cbn [parse_normal flat_map]. destruct (normal_entry v); cbn [opt_list app]; rewrite IH; reflexivity.
Qed.

Lemma normal_in : forall l a, In a (parse_normal l) <-> exists v, In v l /\ normal_entry v = Some a.
Proof.
  intros l a. rewrite normal_exact, in_flat_map. split; intros (v & Hv & H); exists v; split; try assumption.
  - destruct (normal_entry v); cbn in H; [destruct H as [->|[]]; reflexivity | destruct H].
  - rewrite H. left. reflexivity.
Qed.

Lemma cstr_id : forall s, existsb (fun c => c =? 0) s = false -> cstr s = s.
Proof.
  induction s as [|c s IH]; [reflexivity|]. cbn [existsb cstr]. intro H.
  apply orb_false_iff in H. destruct H as [H1 H2]. rewrite H1, IH by exact H2. reflexivity.
Qed.

(* what an accepted entry looks like: a dictionary with string "ip" and integer "port",
   0 < port < 65536, the ip text has no NUL byte, parses as IPv4 or else IPv6, and is not the unspecified address *)
Lemma normal_entry_spec : forall v a, normal_entry v = Some a <->
  exists m ip port, v = VMap m /\ map_lookup key_ip m = Some (VStr ip) /\ map_lookup key_port m = Some (VInt port) /\
    (0 < port < 65536)%Z /\ existsb (fun c => c =? 0) ip = false /\
    ((exists x, pton4 ip = Some x /\ x <> 0 /\ a = A4 x (Z.to_N port)) \/
     (pton4 ip = None /\ exists x, pton6 ip = Some x /\ x <> 0 /\ a = A6 x (Z.to_N port))).
Proof.
  intros v a. split.
  - destruct v as [z|s|l|m]; cbn [normal_entry]; try discriminate.
    destruct (map_lookup key_ip m) as [[z|ip|l|m']|] eqn:Hi; try discriminate.
    destruct (map_lookup key_port m) as [[port|s|l|m']|] eqn:Hq; try discriminate.
    unfold port_limit.
    destruct ((port <=? 0)%Z || (65536 <=? port)%Z) eqn:Hp; [discriminate|].
    destruct (existsb (fun c => c =? 0) ip) eqn:Hn; [discriminate|].
    rewrite (cstr_id ip Hn).
    intro H. exists m, ip, port.
    split; [reflexivity|]. split; [exact Hi|]. split; [exact Hq|]. split; [lia|]. split; [exact Hn|].
    destruct (pton4 ip) as [x|] eqn:H4.
    + destruct (x =? 0) eqn:Hx; [discriminate|]. left. exists x. repeat split; [lia|congruence].
    + destruct (pton6 ip) as [x|] eqn:H6; [|discriminate].
      destruct (x =? 0) eqn:Hx; [discriminate|]. right. split; [reflexivity|]. exists x. repeat split; [lia|congruence].
  - intros (m & ip & port & -> & Hi & Hp & Hr & Hn & H). cbn [normal_entry]. rewrite Hi, Hp. unfold port_limit.
    replace ((port <=? 0)%Z || (65536 <=? port)%Z) with false by lia.
    rewrite Hn, (cstr_id ip Hn).
    destruct H as [(x & H4 & Hx & ->)|(H4 & x & H6 & Hx & ->)].
    + rewrite H4. replace (x =? 0) with false by lia. reflexivity.
    + rewrite H4, H6. replace (x =? 0) with false by lia. reflexivity.
Qed.

Definition usable (a : addr) : Prop := addr_port a <> 0 /\ addr_unspecified a = false.

Lemma normal_usable : forall l a, In a (parse_normal l) -> usable a /\ addr_port a < 65536.
Proof.
  intros l a H. apply normal_in in H. destruct H as (v & _ & H). apply normal_entry_spec in H.
  destruct H as (m & ip & port & _ & _ & _ & Hr & _ & [(x & _ & Hx & ->)|(_ & x & _ & Hx & ->)]);
    unfold usable, addr_unspecified; cbn [addr_port addr_ip]; repeat split; lia.
Qed.

(* ------------------------------------------------------------------ insert_available *)

Lemma insert_unique_in : forall av x a, In a (insert_unique av x) -> In a av \/ a = x.
Proof.
  intros av x a. unfold insert_unique. destruct (existsb _ av); [auto|].
  rewrite in_app_iff. cbn. intuition.
Qed.

Lemma insert_unique_len : forall av x, alen (insert_unique av x) <= alen av + 1.
Proof.
  intros av x. unfold insert_unique, alen. destruct (existsb _ av); [lia|]. rewrite app_length. cbn [length]. lia.
Qed.

Lemma is_any_unspecified : forall a, addr_is_any a = false -> addr_unspecified a = false.
Proof.
  intros [a p|a p]; unfold addr_is_any, addr_unspecified; cbn [addr_ip]; [auto|].
  destruct (N.eqb_spec a 0) as [->|]; [|reflexivity].
  cbn. auto.
Qed.

Section IA.
  Variable skip : addr -> bool.

  Lemma ia_loop_inv : forall (P : addr -> Prop) al av old maxsz ins,
    (forall a, In a av -> P a) ->
    (forall a, In a al -> addr_port a <> 0 -> addr_is_any a = false -> P a) ->
    forall a, In a (fst (ia_loop skip al av old maxsz ins)) -> P a.
  Proof.
    intros P. induction al as [|x al IH]; intros av old maxsz ins Hav Hal a.
    - cbn. apply Hav.
    - cbn [ia_loop].
      assert (Hal' : forall a, In a al -> addr_port a <> 0 -> addr_is_any a = false -> P a) by (intros; apply Hal; [right| |]; assumption).
      destruct (negb (alen av <? maxsz)); [cbn; apply Hav|].
      destruct (addr_port x =? 0) eqn:Hp; cbn [orb]; [apply IH; assumption|].
      destruct (addr_is_any x) eqn:Hany; [apply IH; assumption|].
      assert (Hins : forall a, In a (insert_unique av x) -> P a).
      { intros b Hb. apply insert_unique_in in Hb. destruct Hb as [Hb| ->]; [apply Hav; assumption|].
        apply Hal; [left; reflexivity|lia|exact Hany]. }
      destruct (find_less old x) as [|e old1].
      + destruct (skip x); apply IH; assumption.
      + destruct (negb (addr_ltb_addr e x)); [apply IH; assumption|].
        destruct (skip x); apply IH; assumption.
  Qed.

  Lemma ia_loop_cap : forall al av old maxsz ins,
    alen av <= maxsz -> alen (fst (ia_loop skip al av old maxsz ins)) <= maxsz.
  Proof.
    induction al as [|x al IH]; intros av old maxsz ins H.
    - cbn. exact H.
    - cbn [ia_loop]. destruct (alen av <? maxsz) eqn:Hlt; cbn [negb]; [|cbn; exact H].
      assert (Hins : alen (insert_unique av x) <= maxsz) by (pose proof (insert_unique_len av x); lia).
      destruct ((addr_port x =? 0) || addr_is_any x); [apply IH; exact H|].
      destruct (find_less old x) as [|e old1].
      + destruct (skip x); apply IH; assumption.
      + destruct (negb (addr_ltb_addr e x)); [apply IH; assumption|].
        destruct (skip x); apply IH; assumption.
  Qed.

  (* nothing with port 0 or an unspecified address is ever retained, whatever the PeerInfo branch decides *)
  Lemma retained_usable : forall av maxsz al,
    (forall a, In a av -> usable a) ->
    forall a, In a (fst (insert_available skip av maxsz al)) -> usable a.
  Proof.
    intros av maxsz al Hav a. unfold insert_available. destruct (maxsz <=? alen av); [cbn; apply Hav|].
    apply ia_loop_inv; [exact Hav|]. intros b _ Hp Hany. split; [exact Hp|apply is_any_unspecified, Hany].
  Qed.

  (* nothing is invented: retained addresses were already there or are in the offered list *)
  Lemma retained_from_input : forall av maxsz al a,
    In a (fst (insert_available skip av maxsz al)) -> In a av \/ In a al.
  Proof.
    intros av maxsz al a. unfold insert_available. destruct (maxsz <=? alen av); [cbn; auto|].
    apply ia_loop_inv with (P := fun a => In a av \/ In a al); auto.
  Qed.

  Lemma cap : forall av maxsz al,
    alen (fst (insert_available skip av maxsz al)) <= N.max (alen av) maxsz.
  Proof.
    intros av maxsz al. unfold insert_available. destruct (maxsz <=? alen av) eqn:H; [cbn; lia|].
    pose proof (ia_loop_cap al av av maxsz 0). lia.
  Qed.

  (* the "unneeded" branch of insert_available is dead code: find_if returns an element that satisfies
     the very predicate whose negation is then tested *)
  Lemma find_less_head : forall old x e r, find_less old x = e :: r -> addr_ltb_addr e x = true.
  Proof.
    induction old as [|y old IH]; intros x e r H; [discriminate|].
    cbn [find_less] in H. destruct (addr_ltb_addr y x) eqn:Hy; [congruence|]. eapply IH; exact H.
  Qed.
End IA.

(* the whole pipeline on a PeerList: invariant over every op list *)
Definition pl_inv (maxsz : N) (st : pres (list addr * list N)) : Prop :=
  match st with
  | POk (av, _) => (forall a, In a av -> usable a) /\ alen av <= maxsz
  | _ => True
  end.

Lemma pl_step_inv : forall maxsz st op, pl_inv maxsz st -> pl_inv maxsz (pl_step maxsz st op).
Proof.
  intros maxsz st op H. destruct st as [[av rets]| |]; cbn [pl_step]; try exact I.
  destruct H as [Hp Hc].
  assert (K : forall (parsed : pres (list addr)) (prep : list addr -> list addr),
             pl_inv maxsz (match parsed with
                           | POk l => let '(av', r) := insert_available no_skip av maxsz (prep l) in POk (av', rets ++ [r])
                           | PFault => PFault | POutOfFuel => POutOfFuel end)).
  { intros parsed prep. destruct parsed as [l| |]; try exact I.
    pose proof (retained_usable no_skip av maxsz (prep l) Hp) as R.
    pose proof (cap no_skip av maxsz (prep l)) as C.
    destruct (insert_available no_skip av maxsz (prep l)) as [av' r]. cbn [fst] in *. split; [exact R|lia]. }
  destruct op as [c4 c6|c4|c4 c6|c4 c6]; try apply K.
  destruct c4; [split; assumption|apply K].
Qed.

Lemma pl_run_inv : forall maxsz ops, pl_inv maxsz (pl_run maxsz ops).
Proof.
  intros maxsz ops. unfold pl_run.
  assert (G : forall st, pl_inv maxsz st -> pl_inv maxsz (fold_left (pl_step maxsz) ops st)).
  { induction ops as [|op ops IH]; intros st H; [exact H|]. cbn [fold_left]. apply IH, pl_step_inv, H. }
  apply G. cbn. split; [intros a []|lia].
Qed.

Lemma pl_never_faults : forall maxsz ops, pl_run maxsz ops <> PFault /\ pl_run maxsz ops <> POutOfFuel.
Proof.
  intros maxsz ops. unfold pl_run.
  assert (G : forall st, (exists x, st = POk x) -> exists x, fold_left (pl_step maxsz) ops st = POk x).
  { induction ops as [|op ops IH]; intros st H; [exact H|]. cbn [fold_left]. apply IH.
    destruct H as [[av rets] ->]. cbn [pl_step].
    assert (K : forall (l : list addr) (prep : list addr -> list addr), exists x, (let '(av', r) := insert_available no_skip av maxsz (prep l) in POk (av', rets ++ [r])) = POk x).
    { intros l prep. destruct (insert_available no_skip av maxsz (prep l)). eexists. reflexivity. }
    destruct op as [c4 c6|c4|c4 c6|c4 c6]; unfold parse_both; rewrite ?compact_exact, ?compact6_exact; try apply K.
    destruct c4; [eexists; reflexivity|]. apply K. }
  destruct (G (POk ([], []))) as [x Hx]; [eexists; reflexivity|]. rewrite Hx. split; discriminate.
Qed.

(* ------------------------------------------------------------------ HTTP *)

Definition is_failure (e : tevent) : Prop :=
  match e with EvFailure _ | EvScrapeFailure _ => True | _ => False end.

Lemma http_failed_is_failure : forall ev m, is_failure (http_failed ev m).
Proof. intros ev m. unfold http_failed. destruct (ev =? ev_scrape); exact I. Qed.

Lemma http_failed_not_fault : forall ev m, http_failed ev m <> EvFault.
Proof. intros ev m. unfold http_failed. destruct (ev =? ev_scrape); discriminate. Qed.

Local Opaque http_failed m_no_peers m_root m_parse m_failure_pre m_failure_nostr m_warning_pre m_scrape_hash
  m_scrape_files process_fields.

(* a body that does not decode to a dictionary fails this request and leaves the tracker state alone *)
Lemma http_malformed_fails : forall ih ev body ts,
  (forall m fl rest, decode_stream body <> Ok (VMap m, fl) rest) ->
  (decode_stream body <> Fault /\ decode_stream body <> OutOfFuel) ->
  fst (http_receive_done ih ev body ts) = ts /\ is_failure (snd (http_receive_done ih ev body ts)).
Proof.
  intros ih ev body ts Hm [Hf Ho]. unfold http_receive_done.
  destruct (decode_stream body) as [[v fl] rest| | |] eqn:E; try congruence.
  - destruct v as [z|s|l|m]; try (cbn [fst snd]; split; [reflexivity|apply http_failed_is_failure]).
    exfalso. eapply Hm. reflexivity.
  - cbn [fst snd]. split; [reflexivity|apply http_failed_is_failure].
Qed.

Lemma process_success_no_fault : forall ev m ts, snd (process_success ev m ts) <> EvFault.
Proof.
  intros ev m ts. unfold process_success.
  destruct (map_lookup k_peers m) as [[z|s|l|m']|]; rewrite ?compact_exact;
    (destruct (key_string k_peers6 m) as [s6|]; [rewrite compact6_exact|]);
    cbn -[http_failed];
    repeat match goal with
           | |- context [if ?c then _ else _] => destruct c
           end; cbn [snd]; try discriminate; apply http_failed_not_fault.
Qed.

Lemma process_scrape_no_fault : forall ih m ts, snd (process_scrape ih m ts) <> EvFault.
Proof.
  intros ih m ts. unfold process_scrape.
  destruct (map_lookup k_files m) as [[z|s|l|files]|]; cbn [snd]; try discriminate.
  destruct (map_lookup ih files) as [[z|s|l|stats]|]; cbn [snd]; discriminate.
Qed.

(* only the bencode decoder (C07's obligation) could make the HTTP path read out of range *)
Lemma http_fault_only_from_decoder : forall ih ev body ts,
  snd (http_receive_done ih ev body ts) = EvFault -> decode_stream body = Fault \/ decode_stream body = OutOfFuel.
Proof.
  intros ih ev body ts. unfold http_receive_done.
  destruct (decode_stream body) as [[v fl] rest| | |] eqn:E; auto.
  - destruct v as [z|s|l|m]; try (cbn [snd]; intro H; exfalso; exact (http_failed_not_fault _ _ H)).
    destruct (has_key k_failure_reason m).
    + cbn [snd]. intro H; exfalso; exact (http_failed_not_fault _ _ H).
    + match goal with |- context [match ?w with Some _ => _ | None => _ end] => destruct w end.
      * cbn [snd]. intro H; exfalso; exact (http_failed_not_fault _ _ H).
      * destruct (ev =? ev_scrape); intro H; exfalso.
        -- exact (process_scrape_no_fault _ _ _ H).
        -- exact (process_success_no_fault _ _ _ H).
  - cbn [snd]. intro H; exfalso; exact (http_failed_not_fault _ _ H).
Qed.

(* with C07's decode_stream_total: the HTTP reply path never reads out of range, for every body *)
Lemma http_never_faults : forall ih ev body ts, snd (http_receive_done ih ev body ts) <> EvFault.
Proof.
  intros ih ev body ts H. destruct (decode_stream_total body) as (Hf & Ho & _).
  destruct (http_fault_only_from_decoder ih ev body ts H); contradiction.
Qed.

Lemma http_malformed_fails_total : forall ih ev body ts,
  (forall m fl rest, decode_stream body <> Ok (VMap m, fl) rest) ->
  fst (http_receive_done ih ev body ts) = ts /\ is_failure (snd (http_receive_done ih ev body ts)).
Proof.
  intros ih ev body ts Hm. destruct (decode_stream_total body) as (Hf & Ho & _).
  apply http_malformed_fails; [exact Hm|split; assumption].
Qed.

(* ------------------------------------------------------------------ UDP *)

Lemma rd_be_some : forall k buf pos acc, pos + N.of_nat k <= blen buf -> exists v, rd_be buf pos k acc = Some v.
Proof.
  induction k as [|k IH]; intros buf pos acc H; [eexists; reflexivity|].
  cbn [rd_be]. unfold rd. destruct (nth_error buf (N.to_nat pos)) as [b|] eqn:E.
  - apply IH. lia.
  - apply nth_error_None in E. unfold blen in H. lia.
Qed.

Lemma reset_family_not_fault : forall u msg, snd (reset_family u msg) <> EvFault.
Proof.
  intros u msg. unfold reset_family. destruct (u_tx u =? 0); [discriminate|].
  destruct (negb (u_other_tx u =? 0)); discriminate.
Qed.

(* a reply header is accepted iff the datagram has at least 8 bytes and carries the expected action
   and the transaction id of this request *)
Lemma udp_header : forall u action buf, action <> 3 ->
  (fst (fst (process_header u action buf)) = HdrOk <->
   hdr_size <= blen buf /\ rd_be buf 0 4 0 = Some action /\ rd_be buf 4 4 0 = Some (u_tx u)).
Proof.
  intros u action buf Ha. unfold process_header.
  destruct (blen buf <? hdr_size) eqn:Hl.
  - cbn [fst]. split; [discriminate|]. intros (H & _). lia.
  - assert (H8 : 8 <= blen buf) by (unfold hdr_size, Params.udp_header_size in Hl; lia).
    destruct (rd_be_some 4 buf 0 0) as [ra Hra]; [cbn; lia|].
    destruct (rd_be_some 4 buf 4 0) as [tid Htid]; [cbn; lia|].
    rewrite Hra, Htid.
    destruct (N.eqb_spec tid (u_tx u)) as [->|Ht]; cbn [negb].
    + destruct (N.eqb_spec ra 3) as [->|H3].
      * destruct (reset_family u _) as [u' e]. cbn [fst]. split; [discriminate|]. intros (_ & H & _). congruence.
      * destruct (N.eqb_spec ra action) as [->|Hra']; cbn [negb fst].
        -- split; [intros _; repeat split; lia|reflexivity].
        -- split; [discriminate|]. intros (_ & H & _). congruence.
    + cbn [fst]. split; [discriminate|]. intros (_ & _ & H). congruence.
Qed.

Lemma process_header_not_fault : forall u action buf,
  fst (fst (process_header u action buf)) <> HdrFault /\ snd (process_header u action buf) <> EvFault.
Proof.
  intros u action buf. unfold process_header.
  destruct (blen buf <? hdr_size) eqn:Hl; [split; discriminate|].
  assert (H8 : 8 <= blen buf) by (unfold hdr_size, Params.udp_header_size in Hl; lia).
  destruct (rd_be_some 4 buf 0 0) as [ra Hra]; [cbn; lia|].
  destruct (rd_be_some 4 buf 4 0) as [tid Htid]; [cbn; lia|].
  rewrite Hra, Htid.
  destruct (negb (tid =? u_tx u)); [split; discriminate|].
  destruct (ra =? 3).
  - pose proof (reset_family_not_fault u (msg_tracker ++ match skipn 8 buf with [] => msg_empty | _ :: _ => skipn 8 buf end)) as R.
    destruct (reset_family u _) as [u' e]. cbn [fst snd] in *. split; [discriminate|exact R].
  - destruct (negb (ra =? action)); split; discriminate.
Qed.

(* UdpRouter::event_read + process_*: a datagram has an effect (anything but drop / ignore) only if it comes
   from the tracker's address, has at least 8 bytes and carries the id of a live connection *)
Lemma udp_effect_needs_match : forall u from_ok dgram u' e,
  router_read u from_ok dgram = (u', e) -> e <> EvDrop -> e <> EvFault ->
  let buf := firstn (N.to_nat udp_buffer_size) dgram in
  from_ok = true /\ hdr_size <= blen buf /\
  exists id ph, u_routed u = Some (id, ph) /\ id <> 0 /\ rd_be buf 4 4 0 = Some id.
Proof.
  intros u from_ok dgram u' e H Hd Hf buf. unfold router_read in H. fold buf in H.
  destruct (blen buf =? 0); [congruence|].
  destruct (blen buf <? hdr_size) eqn:Hl.
  - cbn [N.eqb] in H. congruence.
  - destruct (rd_be buf 4 4 0) as [tid|] eqn:Ht; [|congruence].
    destruct (N.eqb_spec tid 0) as [->|H0]; [congruence|].
    destruct (u_routed u) as [[id ph]|]; [|congruence].
    destruct (N.eqb_spec tid id) as [->|Hi]; cbn [negb] in H; [|congruence].
    destruct from_ok; cbn [negb] in H; [|congruence].
    repeat split; [lia|]. exists id, ph. repeat split; assumption.
Qed.

(* a failing reply touches only this request: the other family's request and the tracker's
   interval / scrape state are unchanged *)
Lemma reset_family_local : forall u msg, u_other_tx (fst (reset_family u msg)) = u_other_tx u /\
  u_ts (fst (reset_family u msg)) = u_ts u /\ u_v6 (fst (reset_family u msg)) = u_v6 u.
Proof.
  intros u msg. unfold reset_family. destruct (u_tx u =? 0); [auto|].
  destruct (negb (u_other_tx u =? 0)); cbn; auto.
Qed.

Lemma process_header_local : forall u action buf,
  u_other_tx (snd (fst (process_header u action buf))) = u_other_tx u /\
  u_ts (snd (fst (process_header u action buf))) = u_ts u /\
  u_v6 (snd (fst (process_header u action buf))) = u_v6 u.
Proof.
  intros u action buf. unfold process_header.
  destruct (blen buf <? hdr_size); [cbn; auto|].
  destruct (rd_be buf 0 4 0) as [ra|]; [|cbn; auto].
  destruct (rd_be buf 4 4 0) as [tid|]; [|cbn; auto].
  destruct (negb (tid =? u_tx u)); [cbn; auto|].
  destruct (ra =? 3).
  - pose proof (reset_family_local u (msg_tracker ++ match skipn 8 buf with [] => msg_empty | _ :: _ => skipn 8 buf end)) as R.
    destruct (reset_family u _) as [u' e]. cbn [fst snd] in *. exact R.
  - destruct (negb (ra =? action)); cbn; auto.
Qed.

Definition is_udp_failure (e : tevent) : Prop :=
  match e with EvFailure _ | EvFamilyReset => True | _ => False end.

(* connect reply: never reads out of range; a malformed or error reply fails only this family's request *)
Lemma process_connect_safe : forall u buf,
  snd (process_connect u buf) <> EvFault /\
  (is_udp_failure (snd (process_connect u buf)) ->
   u_other_tx (snd (fst (process_connect u buf))) = u_other_tx u /\ u_ts (snd (fst (process_connect u buf))) = u_ts u).
Proof.
  intros u buf. unfold process_connect.
  pose proof (process_header_not_fault u 0 buf) as [N1 N2].
  pose proof (process_header_local u 0 buf) as (L1 & L2 & _).
  destruct (process_header u 0 buf) as [[h u1] e1]. cbn [fst snd] in *.
  destruct h; cbn [fst snd]; try (split; [assumption|auto]); try congruence.
  destruct (blen buf <? connect_size) eqn:Hl.
  - pose proof (reset_family_not_fault u1 (msg_parse ++ msg_connect_size)) as R.
    pose proof (reset_family_local u1 (msg_parse ++ msg_connect_size)) as (R1 & R2 & _).
    destruct (reset_family u1 _) as [u2 e2]. cbn [fst snd] in *. split; [exact R|]. intros _. split; congruence.
  - assert (H16 : 16 <= blen buf) by (unfold connect_size, Params.udp_connect_size in Hl; lia).
    destruct (rd_be_some 8 buf 8 0) as [c Hc]; [cbn; lia|]. rewrite Hc.
    destruct (c =? 0).
    + pose proof (reset_family_not_fault u1 (msg_parse ++ msg_conn_zero)) as R.
      pose proof (reset_family_local u1 (msg_parse ++ msg_conn_zero)) as (R1 & R2 & _).
      destruct (reset_family u1 _) as [u2 e2]. cbn [fst snd] in *. split; [exact R|]. intros _. split; congruence.
    + cbn [fst snd]. split; [discriminate|]. intros [].
Qed.

Lemma reset_family_event : forall u msg,
  match snd (reset_family u msg) with EvIgnore | EvFailure _ | EvFamilyReset => True | _ => False end.
Proof.
  intros u msg. unfold reset_family. destruct (u_tx u =? 0); [exact I|].
  destruct (negb (u_other_tx u =? 0)); exact I.
Qed.

Lemma process_header_event : forall u action buf,
  match snd (process_header u action buf) with EvIgnore | EvFailure _ | EvFamilyReset | EvFault => True | _ => False end.
Proof.
  intros u action buf. unfold process_header.
  destruct (blen buf <? hdr_size); [exact I|].
  destruct (rd_be buf 0 4 0) as [ra|]; [|exact I].
  destruct (rd_be buf 4 4 0) as [tid|]; [|exact I].
  destruct (negb (tid =? u_tx u)); [exact I|].
  destruct (ra =? 3).
  - pose proof (reset_family_event u (msg_tracker ++ match skipn 8 buf with [] => msg_empty | _ :: _ => skipn 8 buf end)) as R.
    destruct (reset_family u _) as [u' e]. cbn [fst snd] in *. destruct e; try exact I; destruct R.
  - destruct (negb (ra =? action)); exact I.
Qed.

(* announce reply: never reads out of range, and the peers reported are exactly the whole records after
   the 20-byte header *)
Lemma process_announce_safe : forall u buf,
  snd (process_announce u buf) <> EvFault /\
  (forall l, snd (process_announce u buf) = EvSuccess l \/ snd (process_announce u buf) = EvNewPeers l ->
     l = spec_rec (S (length buf)) (u_v6 u) (skipn 20 buf)) /\
  (is_udp_failure (snd (process_announce u buf)) ->
   u_other_tx (snd (fst (process_announce u buf))) = u_other_tx u /\ u_ts (snd (fst (process_announce u buf))) = u_ts u).
Proof.
  intros u buf. unfold process_announce.
  pose proof (process_header_not_fault u 1 buf) as [N1 N2].
  pose proof (process_header_local u 1 buf) as (L1 & L2 & L3).
  pose proof (process_header_event u 1 buf) as HE.
  destruct (process_header u 1 buf) as [[h u1] e1]. cbn [fst snd] in *.
  destruct h; cbn [fst snd]; try congruence.
  - split; [assumption|]. split; [intros l [H|H]; subst e1; destruct HE|auto].
  - split; [assumption|]. split; [intros l [H|H]; subst e1; destruct HE|auto].
  - destruct (blen buf <? announce_size) eqn:Hl.
    + pose proof (reset_family_not_fault u1 (msg_parse ++ msg_announce_size)) as R.
      pose proof (reset_family_local u1 (msg_parse ++ msg_announce_size)) as (R1 & R2 & _).
      pose proof (reset_family_event u1 (msg_parse ++ msg_announce_size)) as RE.
      destruct (reset_family u1 _) as [u2 e2]. cbn [fst snd] in *. split; [exact R|].
      split; [intros l [H|H]; subst e2; destruct RE|]. intros _. split; congruence.
    + assert (H20 : 20 <= blen buf) by (unfold announce_size, Params.udp_announce_size in Hl; lia).
      destruct (rd_be_some 4 buf 8 0) as [iv Hiv]; [cbn; lia|].
      destruct (rd_be_some 4 buf 12 0) as [le Hle]; [cbn; lia|].
      destruct (rd_be_some 4 buf 16 0) as [se Hse]; [cbn; lia|].
      rewrite Hiv, Hle, Hse.
      assert (Hlen : (20 <= length buf)%nat) by (unfold blen in H20; lia).
      pose proof (copy_spec (S (length buf)) (u_v6 u1) (skipn 20 buf) (firstn 20 buf) []) as C.
      rewrite firstn_skipn in C.
      assert (Hpre : blen (firstn 20 buf) = 20) by (unfold blen; rewrite firstn_length_le by exact Hlen; reflexivity).
      assert (Hrest : blen (skipn 20 buf) = blen buf - 20) by (unfold blen; rewrite skipn_length; lia).
      rewrite Hpre, Hrest in C.
      replace (20 + (blen buf - 20 - (blen buf - 20) mod N.of_nat (rsz_of (u_v6 u1))))
        with (blen buf - (blen buf - 20) mod (if u_v6 u1 then compact6_record_size else compact_record_size)) in C
        by (unfold compact6_record_size, compact_record_size; destruct (u_v6 u1); cbn [rsz_of]; lia).
      rewrite C by (rewrite skipn_length; lia). cbn [rev app].
      destruct (negb (u_other_tx u1 =? 0)); cbn [fst snd]; (split; [discriminate|]);
        (split; [intros l [H|H]; inversion H; congruence|intros []]).
Qed.

Lemma router_never_faults : forall u from_ok dgram, snd (router_read u from_ok dgram) <> EvFault.
Proof.
  intros u from_ok dgram. unfold router_read.
  remember (firstn (N.to_nat udp_buffer_size) dgram) as buf eqn:Hbuf. clear Hbuf.
  destruct (blen buf =? 0); [discriminate|].
  destruct (blen buf <? hdr_size) eqn:Hl.
  - cbn [N.eqb]. discriminate.
  - assert (H8 : 8 <= blen buf) by (unfold hdr_size, Params.udp_header_size in Hl; lia).
    destruct (rd_be_some 4 buf 4 0) as [tid Ht]; [cbn; lia|]. rewrite Ht.
    destruct (tid =? 0); [discriminate|].
    destruct (u_routed u) as [[id ph]|]; [|discriminate].
    destruct (negb (tid =? id)); [discriminate|].
    destruct (negb from_ok); [discriminate|].
    destruct ph.
    + pose proof (process_connect_safe u buf) as [S _].
      destruct (process_connect u buf) as [[k u1] e1]. cbn [fst snd] in *. destruct k; exact S.
    + pose proof (process_announce_safe u buf) as [S _].
      destruct (process_announce u buf) as [[k u1] e1]. cbn [fst snd] in *. destruct k; exact S.
Qed.

(* ------------------------------------------------------------------ non-vacuity examples *)

Example ex_compact : parse_compact [1;2;3;4;0;80; 10;11;12;13;31;144; 255] = POk [A4 16909060 80; A4 168496141 8080].
Proof. vm_compute. reflexivity. Qed.
Example ex_compact6 : whole_records true (repeat 0 15 ++ [1; 26; 225] ++ repeat 255 17) = [A6 1 6881].
Proof. vm_compute. reflexivity. Qed.
Example ex_normal_accepts :
  normal_entry (VMap [([105;112], VStr [49;46;50;46;51;46;52]); ([112;111;114;116], VInt 6881)]) = Some (A4 16909060 6881).
Proof. vm_compute. reflexivity. Qed.
Example ex_normal_v6 :
  normal_entry (VMap [([105;112], VStr [58;58;49]); ([112;111;114;116], VInt 80)]) = Some (A6 1 80).
Proof. vm_compute. reflexivity. Qed.
Example ex_normal_rejects_nul :
  normal_entry (VMap [([105;112], VStr [49;46;50;46;51;46;52;0;120]); ([112;111;114;116], VInt 6881)]) = None.
Proof. vm_compute. reflexivity. Qed.
(* the pipeline drops 0.0.0.0:6881, 1.2.3.4:0 and the duplicate, keeps the rest up to the cap of 2 *)
Example ex_pipeline :
  pl_run 2 [OpTracker [0;0;0;0;26;225; 1;2;3;4;0;0; 1;2;3;4;0;80; 1;2;3;4;0;80; 9;9;9;9;0;1; 8;8;8;8;0;1] []]
  = POk ([A4 16909060 80; A4 134744072 1], [2]).
Proof. vm_compute. reflexivity. Qed.
Example ex_udp_header_ok :
  fst (fst (process_header (udp0 false 0) 0 [0;0;0;0; 192;0;0;1; 0;0;0;0;0;0;0;1])) = HdrOk.
Proof. vm_compute. reflexivity. Qed.
Example ex_udp_flow :
  snd (udp_run false 0 [(true, [0;0;0;0; 192;0;0;1; 0;0;0;0;0;0;0;1]);
                        (true, [0;0;0;1; 160;0;0;2; 0;0;7;8; 0;0;0;1; 0;0;0;2; 1;2;3;4;26;225; 9])])
  = [EvConnected 1; EvSuccess [A4 16909060 6881]].
Proof. vm_compute. reflexivity. Qed.
Example ex_udp_error_fails_one :
  snd (udp_run false 5 [(true, [0;0;0;3; 192;0;0;1; 98;97;100])]) = [EvFamilyReset].
Proof. vm_compute. reflexivity. Qed.
Example ex_http_malformed : decode_stream [100; 101; 120] <> Fault /\ snd (http_receive_done [] 2 [0] tstate0) = EvFailure m_parse.
Proof. split; [vm_compute; discriminate|vm_compute; reflexivity]. Qed.
