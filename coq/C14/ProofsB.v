(* C14 — proofs, part B: DHT "6:" peer lists (parse_address_bencode) *)
From Coq Require Import List NArith ZArith Bool Lia Arith.
From Coq Require Import ZifyBool ZifyNat ZifyN.
From LTV Require Import Common.Bytes.
From LTV.C07 Require Import Model.
From LTV.C14 Require Import Model Proofs.
Import ListNotations.
Local Open Scope N_scope.
Ltac Zify.zify_post_hook ::= Z.div_mod_to_equations.

(* ------------------------------------------------------------------ DHT "6:" peer lists *)

(* the longest prefix made of "6:" + six bytes *)
Fixpoint spec_bencode (fuel : nat) (l : bytes) : list addr :=
  match fuel with
  | O => []
  | S f => if (8 <=? length l)%nat && (hd 0 l =? 54) && (hd 0 (tl l) =? 58)
           then mk_record false (skipn 2 l) :: spec_bencode f (skipn 8 l)
           else []
  end.

Lemma bencode_spec : forall fuel rest pre acc,
  (length rest < fuel)%nat ->
  bencode_loop fuel (pre ++ rest) (blen pre) acc = POk (rev acc ++ spec_bencode fuel rest).
Proof.
  induction fuel as [|fuel IH]; intros rest pre acc Hf; [lia|].
  cbn [bencode_loop spec_bencode]. unfold compact_record_size. rewrite blen_app.
  destruct (Nat.leb_spec 8 (length rest)) as [H8|H8].
  - replace (blen pre + 2 + 6 <=? blen pre + blen rest) with true by (unfold blen; lia).
    cbn [negb andb].
    destruct rest as [|c0 [|c1 rest2]]; cbn [length] in H8; try lia.
    rewrite rd_app_at. cbn [hd tl].
    destruct (c0 =? 54); cbn [negb andb]; [|rewrite app_nil_r; reflexivity].
    replace (pre ++ c0 :: c1 :: rest2) with ((pre ++ [c0]) ++ c1 :: rest2) by (rewrite <- app_assoc; reflexivity).
    replace (blen pre + 1) with (blen (pre ++ [c0])) by (rewrite blen_app; reflexivity).
    rewrite rd_app_at.
    destruct (c1 =? 58); cbn [negb]; [|rewrite app_nil_r; reflexivity].
    destruct (split3 rest2 4 2) as (Hd & HA & HP); [cbn [length] in *; lia|].
    remember (firstn 4 rest2) as A. remember (firstn 2 (skipn 4 rest2)) as P. remember (skipn (4 + 2) rest2) as R.
    assert (R1 : rd_be ((pre ++ [c0]) ++ c1 :: rest2) (blen pre + 2) 4 0 = Some (be_value A 0)).
    { replace ((pre ++ [c0]) ++ c1 :: rest2) with ((pre ++ [c0; c1]) ++ A ++ P ++ R)
        by (rewrite Hd; rewrite <- !app_assoc; reflexivity).
      replace (blen pre + 2) with (blen (pre ++ [c0; c1])) by (rewrite blen_app; reflexivity).
      replace 4%nat with (length A) by exact HA. apply rd_be_app. }
    assert (R2 : rd_be ((pre ++ [c0]) ++ c1 :: rest2) (blen pre + 6) 2 0 = Some (be_value P 0)).
    { replace ((pre ++ [c0]) ++ c1 :: rest2) with ((pre ++ [c0; c1] ++ A) ++ P ++ R)
        by (rewrite Hd; rewrite <- !app_assoc; reflexivity).
      replace (blen pre + 6) with (blen (pre ++ [c0; c1] ++ A))
        by (rewrite !blen_app; unfold blen at 2 3; rewrite HA; cbn; lia).
      replace 2%nat with (length P) by exact HP. apply rd_be_app. }
    rewrite R1, R2.
    replace ((pre ++ [c0]) ++ c1 :: rest2) with ((pre ++ [c0; c1] ++ A ++ P) ++ R)
      by (rewrite Hd; rewrite <- !app_assoc; reflexivity).
    replace (blen pre + 2 + 6) with (blen (pre ++ [c0; c1] ++ A ++ P))
      by (rewrite !blen_app; unfold blen at 2 3 4; rewrite HA, HP; cbn; lia).
    rewrite IH.
    + cbn [rev skipn]. rewrite <- app_assoc. cbn [app]. unfold mk_record. cbn [rsz_of Nat.sub].
      rewrite <- HeqA, <- HeqP, HeqR. reflexivity.
    + rewrite HeqR, skipn_length. cbn [length] in *. lia.
  - replace (blen pre + 2 + 6 <=? blen pre + blen rest) with false by (unfold blen; lia).
    cbn [negb andb]. rewrite app_nil_r. reflexivity.
Qed.

Lemma bencode_peers_exact : forall buf, parse_bencode_peers buf = POk (spec_bencode (S (length buf)) buf).
Proof.
  intro buf. unfold parse_bencode_peers.
  pose proof (bencode_spec (S (length buf)) buf [] []) as H. cbn [app rev] in H. apply H. lia.
Qed.

Example ex_bencode : parse_bencode_peers [54;58;127;0;0;1;26;225; 54;58;10;0;0;1;0;80; 49;56;58] = POk [A4 2130706433 6881; A4 167772161 80].
Proof. vm_compute. reflexivity. Qed.
