From Coq Require Import List NArith ZArith Bool.
From LTV Require Import Common.Bytes.
From LTV.C07 Require Import Model.
From LTV.C07 Require Import StaticMap ProofsSafe.
From LTV.C14 Require Import Model Proofs ProofsB ModelDht ProofsDht.
Import ListNotations.
Local Open Scope N_scope.

Theorem params_ok_now : Proofs.params_ok = true.
Proof. exact Proofs.params_ok_now. Qed.
Print Assumptions params_ok_now.

(* compact strings: exactly the whole 6-byte (18-byte) records, in order, nothing else; no out-of-range
   read and termination for every byte string *)
Theorem compact_exact : forall buf, parse_compact buf = POk (whole_records false buf).
Proof. exact Proofs.compact_exact. Qed.
Print Assumptions compact_exact.

Theorem compact6_exact : forall buf, parse_compact6 buf = POk (whole_records true buf).
Proof. exact Proofs.compact6_exact. Qed.
Print Assumptions compact6_exact.

Theorem whole_records_length : forall v6 l, length (whole_records v6 l) = (length l / rsz_of v6)%nat.
Proof. exact Proofs.whole_records_length. Qed.
Print Assumptions whole_records_length.

Theorem whole_records_nth : forall v6 l i, (i < length l / rsz_of v6)%nat ->
  nth_error (whole_records v6 l) i = Some (mk_record v6 (skipn (i * rsz_of v6) l)).
Proof. exact Proofs.whole_records_nth. Qed.
Print Assumptions whole_records_nth.

Theorem parsers_no_fault : forall buf,
  parse_compact buf <> PFault /\ parse_compact buf <> POutOfFuel /\
  parse_compact6 buf <> PFault /\ parse_compact6 buf <> POutOfFuel.
Proof. exact Proofs.parsers_no_fault. Qed.
Print Assumptions parsers_no_fault.

(* DHT "6:" lists: exactly the longest prefix of "6:"+6-byte entries; never an out-of-range read *)
Theorem bencode_peers_exact : forall buf, parse_bencode_peers buf = POk (spec_bencode (S (length buf)) buf).
Proof. exact ProofsB.bencode_peers_exact. Qed.
Print Assumptions bencode_peers_exact.

(* dictionary form *)
Theorem normal_exact : forall l, parse_normal l = flat_map (fun v => opt_list _ (normal_entry v)) l.
Proof. exact Proofs.normal_exact. Qed.
Print Assumptions normal_exact.

Theorem normal_entry_spec : forall v a, normal_entry v = Some a <->
  exists m ip port, v = VMap m /\ map_lookup key_ip m = Some (VStr ip) /\ map_lookup key_port m = Some (VInt port) /\
    (0 < port < 65536)%Z /\ existsb (fun c => c =? 0) ip = false /\
    ((exists x, pton4 ip = Some x /\ x <> 0 /\ a = A4 x (Z.to_N port)) \/
     (pton4 ip = None /\ exists x, pton6 ip = Some x /\ x <> 0 /\ a = A6 x (Z.to_N port))).
Proof. exact Proofs.normal_entry_spec. Qed.
Print Assumptions normal_entry_spec.

Theorem normal_usable : forall l a, In a (parse_normal l) -> usable a /\ addr_port a < 65536.
Proof. exact Proofs.normal_usable. Qed.
Print Assumptions normal_usable.

(* PeerList::insert_available, for every decision function of the existing-PeerInfo branch *)
Theorem retained_usable : forall skip av maxsz al,
  (forall a, In a av -> usable a) ->
  forall a, In a (fst (insert_available skip av maxsz al)) -> usable a.
Proof. exact Proofs.retained_usable. Qed.
Print Assumptions retained_usable.

Theorem retained_from_input : forall skip av maxsz al a,
  In a (fst (insert_available skip av maxsz al)) -> In a av \/ In a al.
Proof. exact Proofs.retained_from_input. Qed.
Print Assumptions retained_from_input.

Theorem cap : forall skip av maxsz al,
  alen (fst (insert_available skip av maxsz al)) <= N.max (alen av) maxsz.
Proof. exact Proofs.cap. Qed.
Print Assumptions cap.

Theorem unneeded_branch_dead : forall old x e r, find_less old x = e :: r -> addr_ltb_addr e x = true.
Proof. exact Proofs.find_less_head. Qed.
Print Assumptions unneeded_branch_dead.

(* every sequence of tracker / PEX / buffered payloads on a PeerList: only usable addresses, at most maxsz,
   never an out-of-range read *)
Theorem pipeline_retained_usable_and_cap : forall maxsz ops, pl_inv maxsz (pl_run maxsz ops).
Proof. exact Proofs.pl_run_inv. Qed.
Print Assumptions pipeline_retained_usable_and_cap.

Theorem pipeline_never_faults : forall maxsz ops, pl_run maxsz ops <> PFault /\ pl_run maxsz ops <> POutOfFuel.
Proof. exact Proofs.pl_never_faults. Qed.
Print Assumptions pipeline_never_faults.

(* UDP tracker *)
Theorem udp_header : forall u action buf, action <> 3 ->
  (fst (fst (process_header u action buf)) = HdrOk <->
   hdr_size <= blen buf /\ rd_be buf 0 4 0 = Some action /\ rd_be buf 4 4 0 = Some (u_tx u)).
Proof. exact Proofs.udp_header. Qed.
Print Assumptions udp_header.

Theorem udp_effect_needs_match : forall u from_ok dgram u' e,
  router_read u from_ok dgram = (u', e) -> e <> EvDrop -> e <> EvFault ->
  let buf := firstn (N.to_nat udp_buffer_size) dgram in
  from_ok = true /\ hdr_size <= blen buf /\
  exists id ph, u_routed u = Some (id, ph) /\ id <> 0 /\ rd_be buf 4 4 0 = Some id.
Proof. exact Proofs.udp_effect_needs_match. Qed.
Print Assumptions udp_effect_needs_match.

Theorem udp_connect_malformed_fails_one_request : forall u buf,
  snd (process_connect u buf) <> EvFault /\
  (is_udp_failure (snd (process_connect u buf)) ->
   u_other_tx (snd (fst (process_connect u buf))) = u_other_tx u /\ u_ts (snd (fst (process_connect u buf))) = u_ts u).
Proof. exact Proofs.process_connect_safe. Qed.
Print Assumptions udp_connect_malformed_fails_one_request.

Theorem udp_announce_exact_and_malformed_fails_one_request : forall u buf,
  snd (process_announce u buf) <> EvFault /\
  (forall l, snd (process_announce u buf) = EvSuccess l \/ snd (process_announce u buf) = EvNewPeers l ->
     l = spec_rec (S (length buf)) (u_v6 u) (skipn 20 buf)) /\
  (is_udp_failure (snd (process_announce u buf)) ->
   u_other_tx (snd (fst (process_announce u buf))) = u_other_tx u /\ u_ts (snd (fst (process_announce u buf))) = u_ts u).
Proof. exact Proofs.process_announce_safe. Qed.
Print Assumptions udp_announce_exact_and_malformed_fails_one_request.

Theorem udp_router_never_faults : forall u from_ok dgram, snd (router_read u from_ok dgram) <> EvFault.
Proof. exact Proofs.router_never_faults. Qed.
Print Assumptions udp_router_never_faults.

(* HTTP tracker *)
Theorem http_malformed_fails_one_request : forall ih ev body ts,
  (forall m fl rest, decode_stream body <> Ok (VMap m, fl) rest) ->
  fst (http_receive_done ih ev body ts) = ts /\ is_failure (snd (http_receive_done ih ev body ts)).
Proof. exact Proofs.http_malformed_fails_total. Qed.
Print Assumptions http_malformed_fails_one_request.

(* every body: decoding (C07's decode_stream_total) and all key / type checks stay in range *)
Theorem http_never_faults : forall ih ev body ts, snd (http_receive_done ih ev body ts) <> EvFault.
Proof. exact Proofs.http_never_faults. Qed.
Print Assumptions http_never_faults.

(* DHT datagrams, from the raw bytes (static-map decoding by C07's sm_read with the real DhtMessage key table) *)
Theorem dht_datagram_never_faults : forall own dgram, dht_datagram own dgram <> DFault.
Proof. exact ProofsDht.dht_datagram_never_faults. Qed.
Print Assumptions dht_datagram_never_faults.

Theorem dht_envelope_never_faults : forall own dgram, short dgram -> dht_envelope own dgram <> DFault.
Proof. exact ProofsDht.dht_envelope_never_faults. Qed.
Print Assumptions dht_envelope_never_faults.

Theorem dht_malformed_ignored : forall own dgram, sm_read dht dgram = Reject -> dht_envelope own dgram = DIgnore.
Proof. exact ProofsDht.dht_malformed_ignored. Qed.
Print Assumptions dht_malformed_ignored.

Theorem dht_query_needs_envelope : forall own dgram id, dht_envelope own dgram = DQuery id ->
  exists e rest t idb, sm_read dht dgram = Ok e rest /\ ent_raw_string e k_t = Some t /\ (length t <= 20)%nat /\
    ent_raw_string e k_y = Some [ch_q] /\ ent_raw_string e k_a_id = Some idb /\ (id_size <= length idb)%nat /\
    id = firstn id_size idb /\ bytes_eqb id own = false.
Proof. exact ProofsDht.dht_query_needs_envelope. Qed.
Print Assumptions dht_query_needs_envelope.

Theorem dht_values_exact : forall dgram r, dht_reply_values dgram = Some r ->
  exists e rest v, sm_read dht dgram = Ok e rest /\ ent_raw_list e k_r_values = Some v /\
                   r = POk (spec_bencode (S (length v)) v).
Proof. exact ProofsDht.dht_values_exact. Qed.
Print Assumptions dht_values_exact.

(* ut_pex, from the raw extension payload *)
Theorem pex_never_faults : forall av maxsz payload, short payload -> pex_apply av maxsz payload <> PexFault.
Proof. exact ProofsDht.pex_never_faults. Qed.
Print Assumptions pex_never_faults.

Theorem pex_exact : forall av maxsz payload av' ret, pex_apply av maxsz payload = PexDone av' ret ->
  exists e rest, sm_read ext_pex payload = Ok e rest /\
    match ent_raw_string e k_pex_added with
    | None => av' = av /\ ret = None
    | Some [] => av' = av /\ ret = Some 1
    | Some added => (av', ret) = (let '(a, r) := insert_available no_skip av maxsz (sort_and_unique (whole_records false added))
                                  in (a, Some r))
    end.
Proof. exact ProofsDht.pex_exact. Qed.
Print Assumptions pex_exact.

Theorem pex_retained_usable_and_cap : forall av maxsz payload av' ret,
  (forall a, In a av -> usable a) -> alen av <= maxsz ->
  pex_apply av maxsz payload = PexDone av' ret ->
  (forall a, In a av' -> usable a) /\ alen av' <= maxsz.
Proof. exact ProofsDht.pex_retained_usable_and_cap. Qed.
Print Assumptions pex_retained_usable_and_cap.

(* PeerList with PeerInfo entries: the concrete loop is the abstract one instantiated with the PeerInfo decision *)
Theorem insert_available_pi_projection : forall now av maxsz ps al,
  fst (insert_available_pi now av maxsz ps al) = insert_available (skip_of now ps) av maxsz al.
Proof. exact ProofsDht.insert_available_pi_projection. Qed.
Print Assumptions insert_available_pi_projection.

Theorem pi_retained_usable_and_cap : forall now av maxsz ps al,
  (forall a, In a av -> usable a) ->
  (forall a, In a (fst (fst (insert_available_pi now av maxsz ps al))) -> usable a) /\
  alen (fst (fst (insert_available_pi now av maxsz ps al))) <= N.max (alen av) maxsz /\
  (forall a, In a (fst (fst (insert_available_pi now av maxsz ps al))) -> In a av \/ In a al).
Proof. exact ProofsDht.pi_retained_usable_and_cap. Qed.
Print Assumptions pi_retained_usable_and_cap.

Theorem pi_connected_never_added : forall now av maxsz ps al a p,
  pi_find a ps = Some p -> pi_skips now p = true ->
  In a (fst (fst (insert_available_pi now av maxsz ps al))) -> In a av.
Proof. exact ProofsDht.pi_connected_never_added. Qed.
Print Assumptions pi_connected_never_added.

(* TrackerHttp with a second address family pending *)
Theorem http_retry_fails_one_family : forall ih ev h body msg,
  h_next h = true -> snd (http_receive_done ih ev body (h_ts h)) = EvFailure msg ->
  snd (http_step ih ev h body) = HRetry /\
  h_ts (fst (http_step ih ev h body)) = fst (http_receive_done ih ev body (h_ts h)) /\
  h_next (fst (http_step ih ev h body)) = false.
Proof. exact ProofsDht.http_retry_fails_one_family. Qed.
Print Assumptions http_retry_fails_one_family.

Theorem http_second_failure_after_success : forall ih ev h body msg,
  h_next h = false -> h_last_ok h = true -> snd (http_receive_done ih ev body (h_ts h)) = EvFailure msg ->
  snd (http_step ih ev h body) = HEv (EvSuccess []).
Proof. exact ProofsDht.http_second_failure_after_success. Qed.
Print Assumptions http_second_failure_after_success.

(* a find_node reply matched to its transaction: our own id in a compact `nodes` string is never contacted *)
Theorem own_id_never_contacted : forall announce matched own target resp nodes l,
  dht_find_node_reply announce matched own target resp nodes = FnQueries l ->
  (length l <= search_concurrency)%nat /\
  forall x, In x l -> fst x <> own /\ fst x <> resp /\
                      exists b recs, nodes = Some b /\ parse_compact_nodes b = POk recs /\ In x recs.
Proof. exact ProofsDht.own_id_never_contacted. Qed.
Print Assumptions own_id_never_contacted.

Theorem unmatched_reply_ignored : forall announce own target resp nodes,
  dht_find_node_reply announce false own target resp nodes = FnIgnored.
Proof. exact ProofsDht.unmatched_reply_ignored. Qed.
Print Assumptions unmatched_reply_ignored.

Theorem compact_nodes_exact : forall buf, parse_compact_nodes buf = POk (spec_nodes (S (length buf)) buf).
Proof. exact ProofsDht.compact_nodes_exact. Qed.
Print Assumptions compact_nodes_exact.

Theorem find_node_reply_never_faults : forall announce matched own target resp nodes,
  dht_find_node_reply announce matched own target resp nodes <> FnFault.
Proof. exact ProofsDht.find_node_reply_never_faults. Qed.
Print Assumptions find_node_reply_never_faults.

(* the whole find_node search driven by DhtServer (initial contacts from the routing table, any sequence of matched
   replies with arbitrary compact `nodes` strings): no query ever goes to our own id *)
Theorem search_never_contacts_own_id : forall own t init replies,
  (forall r, In r init -> fst r <> own) ->
  forall qs c, In qs (search_run own t init replies) -> In c qs -> c_id c <> own.
Proof. exact ProofsDht.search_never_contacts_own_id. Qed.
Print Assumptions search_never_contacts_own_id.

(* UDP tracker with its host name still being resolved *)
Theorem unresolved_accepts_nothing : forall u from_ok dgram, router_read_dns false u from_ok dgram = (u, EvDrop).
Proof. exact ProofsDht.unresolved_accepts_nothing. Qed.
Print Assumptions unresolved_accepts_nothing.

Theorem udp_pending_all_dropped : forall v6 other dgrams,
  fst (udp_run_pending v6 other dgrams) = udp0 v6 other /\
  snd (udp_run_pending v6 other dgrams) = repeat EvDrop (length dgrams).
Proof. exact ProofsDht.udp_pending_all_dropped. Qed.
Print Assumptions udp_pending_all_dropped.

(* several announces on one tracker object *)
Theorem http_announce_failure_is_failure : forall ih ev ts body msg,
  snd (http_receive_done ih ev body ts) = EvFailure msg ->
  snd (http_announce ih ev ts FamOne [body]) = [HEv (EvFailure msg)].
Proof. exact ProofsDht.http_announce_failure_is_failure. Qed.
Print Assumptions http_announce_failure_is_failure.
