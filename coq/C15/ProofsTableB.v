(* C15 — routing table invariant, part B: std::partition, split, add_node_to_bucket. *)
From Coq Require Import List NArith Bool Lia Permutation.
From LTV.C15 Require Import ParamsGen.
From LTV.C15 Require Import Model ProofsMid ProofsTableA.
Import ListNotations.
Local Open Scope N_scope.

Lemma nodup_app_left : forall (a b : list N), NoDup (a ++ b) -> NoDup a.
Proof.
  induction a as [|x a IH]; simpl; intros b H; [constructor|]. inversion H; subst.
  constructor; [intro I; apply H2; apply in_or_app; left; assumption|eapply IH; eauto].
Qed.
Lemma nodup_app_right : forall (a b : list N), NoDup (a ++ b) -> NoDup b.
Proof. induction a as [|x a IH]; simpl; intros b H; [assumption|]. inversion H; subst. apply IH; assumption. Qed.

(* ---------------------------------------------------------------- std::partition *)
Lemma span_spec : forall p l a b, span p l = (a, b) ->
  l = a ++ b /\ Forall (fun n => p n = true) a /\ (match b with [] => True | x :: _ => p x = false end).
Proof.
  induction l as [|x r IH]; simpl; intros a b H.
  - inversion H; subst. repeat split; constructor.
  - destruct (p x) eqn:E.
    + destruct (span p r) as [a' b'] eqn:S. inversion H; subst.
      destruct (IH _ _ eq_refl) as [H1 [H2 H3]]. subst r. repeat split; [constructor; assumption|assumption].
    + inversion H; subst. repeat split; [constructor|assumption].
Qed.

Lemma hoare_partition_spec : forall p fuel l t f, (length l < fuel)%nat ->
  hoare_partition fuel p l = (t, f) ->
  Permutation l (t ++ f) /\ Forall (fun n => p n = true) t /\ Forall (fun n => p n = false) f.
Proof.
  induction fuel as [|fu IH]; intros l t f L H; [lia|].
  cbn [hoare_partition] in H.
  destruct (span p l) as [pre rest] eqn:S1. destruct (span_spec _ _ _ _ S1) as [E1 [F1 X1]].
  destruct rest as [|x r].
  - inversion H; subst. rewrite app_nil_r in *. repeat split; [apply Permutation_refl|assumption|constructor].
  - destruct (span (fun n => negb (p n)) (rev r)) as [fs_rev r'_rev] eqn:S2.
    destruct (span_spec _ _ _ _ S2) as [E2 [F2 X2]].
    assert (R : r = rev r'_rev ++ rev fs_rev).
    { rewrite <- (rev_involutive r), E2, rev_app_distr. reflexivity. }
    assert (FF : Forall (fun n => p n = false) (rev fs_rev)).
    { apply Forall_rev. eapply Forall_impl; [|exact F2]. simpl. intros a Ha. destruct (p a); [discriminate|reflexivity]. }
    destruct r'_rev as [|y mid_rev].
    + inversion H; subst. simpl in *. repeat split; [apply Permutation_refl|assumption|constructor; assumption].
    + destruct (hoare_partition fu p (rev mid_rev)) as [t' f'] eqn:HP. inversion H; subst t f. clear H.
      assert (Py : p y = true) by (simpl in X2; destruct (p y); [reflexivity|discriminate]).
      assert (L' : (length (rev mid_rev) < fu)%nat).
      { subst l r. rewrite !app_length in L. simpl in L. rewrite !app_length in L. simpl in L. lia. }
      destruct (IH _ _ _ L' HP) as [PM [FT FFa]].
      repeat split.
      * subst l r. simpl rev.
        replace (pre ++ x :: (rev mid_rev ++ [y]) ++ rev fs_rev) with (pre ++ (x :: rev mid_rev ++ y :: rev fs_rev))
          by (rewrite <- app_assoc; reflexivity).
        replace ((pre ++ y :: t') ++ f' ++ x :: rev fs_rev) with (pre ++ (y :: t' ++ f' ++ x :: rev fs_rev))
          by (rewrite <- app_assoc; reflexivity).
        apply Permutation_app_head.
        apply Permutation_trans with (l' := x :: y :: rev mid_rev ++ rev fs_rev).
        { apply perm_skip. apply Permutation_sym. apply Permutation_middle. }
        apply Permutation_trans with (l' := y :: x :: rev mid_rev ++ rev fs_rev); [apply perm_swap|].
        apply perm_skip.
        apply Permutation_trans with (l' := x :: (t' ++ f') ++ rev fs_rev).
        { apply perm_skip. apply Permutation_app_tail. assumption. }
        rewrite <- app_assoc.
        apply Permutation_trans with (l' := t' ++ x :: f' ++ rev fs_rev); [apply Permutation_middle|].
        apply Permutation_app_head. apply Permutation_middle.
      * apply Forall_app. split; [assumption|constructor; assumption].
      * apply Forall_app. split; [assumption|constructor; assumption].
Qed.

(* ---------------------------------------------------------------- sorted insertion after a split *)
Lemma insert_bucket_forall : forall (P : bucket -> Prop) nb bs, P nb -> Forall P bs -> Forall P (insert_bucket nb bs).
Proof.
  induction bs as [|b r IH]; simpl; intros Hn F; [constructor; [assumption|constructor]|].
  inversion F; subst. destruct (bhi nb <? bhi b); [constructor; assumption|constructor; [assumption|apply IH; assumption]].
Qed.

Lemma map_bucket_forall : forall (P : bucket -> Prop) k f bs, (forall b, P b -> P (f b)) -> Forall P bs -> Forall P (map_bucket k f bs).
Proof.
  intros. unfold map_bucket. apply Forall_map. eapply Forall_impl; [|eassumption].
  intros b Hb. simpl. destruct (bhi b =? k); [apply H|]; assumption.
Qed.

(* replacing bucket b = [lo, hi] by other = [lo, mid] and this = [mid+1, hi] keeps the list contiguous *)
Lemma split_contiguous : forall bs s k b other this,
  contiguous s bs -> Forall bucket_ok bs -> get_bucket k bs = Some b ->
  blo other = blo b -> blo b <= bhi other -> bhi other < bhi b -> blo this = bhi other + 1 -> bhi this = bhi b ->
  contiguous s (insert_bucket other (map_bucket k (fun _ => this) bs)).
Proof.
  induction bs as [|b0 r IH]; simpl; intros s k b other this C F G O1 O2 O3 T1 T2; [discriminate|].
  destruct C as [C1 C2]. inversion F as [|? ? Fb Fr]; subst.
  destruct (bhi b0 =? k) eqn:E.
  - inversion G; subst b0. apply N.eqb_eq in E.
    rewrite map_bucket_id.
    + simpl. rewrite T2. apply N.ltb_lt in O3. rewrite O3. simpl.
      split; [congruence|]. split; [assumption|]. rewrite T2. assumption.
    + intros b' I. destruct (contiguous_bounds _ _ _ C2 Fr I). pose proof (ok_le _ (proj1 (Forall_forall _ _) Fr _ I)). lia.
  - simpl. destruct (get_bucket_in _ _ _ G) as [I Hk].
    destruct (contiguous_bounds _ _ _ C2 Fr I) as [B1 _].
    assert (NL : (bhi other <? bhi b0) = false) by (apply N.ltb_ge; lia).
    rewrite NL. simpl. split; [reflexivity|]. eapply IH; eauto.
Qed.

(* ---------------------------------------------------------------- the two halves of a split bucket *)
Lemma prefix_halves : forall lo hi k, 1 <= k -> prefix_range lo hi k ->
  prefix_range lo (lo + 2 ^ (k - 1) - 1) (k - 1) /\ prefix_range (lo + 2 ^ (k - 1)) hi (k - 1) /\
  lo + 2 ^ (k - 1) - 1 < hi /\ lo <= lo + 2 ^ (k - 1) - 1.
Proof.
  intros lo hi k K1 [H1 H2].
  assert (E : 2 ^ k = 2 * 2 ^ (k - 1)).
  { replace k with (N.succ (k - 1)) at 1 by lia. rewrite N.pow_succ_r'. reflexivity. }
  assert (P : 2 ^ (k - 1) <> 0) by (apply N.pow_nonzero; discriminate).
  assert (M : lo mod 2 ^ (k - 1) = 0).
  { apply N.mod_divide; [assumption|]. apply N.mod_divide in H2; [|apply N.pow_nonzero; discriminate].
    destruct H2 as [q Hq]. exists (q * 2). rewrite Hq, E. lia. }
  unfold prefix_range. repeat split; try lia; try assumption.
  rewrite <- (N.mul_1_l (2 ^ (k - 1))) at 1. rewrite N.mod_add by assumption. assumption.
Qed.

Lemma mid_point_prefix : forall lo hi k, 1 <= k -> k <= idbits -> prefix_range lo hi k -> hi + 1 <= idspace ->
  mid_point lo hi = lo + 2 ^ (k - 1) - 1.
Proof.
  intros lo hi k K1 K2 P U. unfold mid_point. apply mid_go_prefix with (k := k); try assumption.
  rewrite <- idspace_256. pose proof (prefix_le _ _ _ P).
  rewrite !N.div_small by lia. reflexivity.
Qed.

(* a full bucket holds two different ids, so its range has at least two elements *)
Lemma full_wide : forall b k, bucket_ok b -> is_full b = true -> prefix_range (blo b) (bhi b) k -> 1 <= k.
Proof.
  intros b k [_ [F [D _]]] Fu [P1 _].
  unfold is_full in Fu. apply N.leb_le in Fu. pose proof K_ge2 as K2.
  unfold lenN, ids_of in *. rewrite <- (map_length nid) in Fu.
  destruct (map nid (bnodes b)) as [|x [|y r]]; simpl in Fu; try lia.
  inversion F as [|? ? Fx Fr]; subst. inversion Fr as [|? ? Fy _]; subst.
  inversion D as [|? ? Nx _]; subst.
  assert (x <> y) by (intro; subst; apply Nx; left; reflexivity).
  destruct (N.eq_dec k 0) as [->|]; [|lia]. simpl in P1. lia.
Qed.

Definition half_ok (b h : bucket) (k : N) : Prop :=
  bucket_ok h /\ prefix_range (blo h) (bhi h) (k - 1) /\ blo b <= blo h /\ bhi h <= bhi b.

(* result of split_bucket on the table's bucket list *)
Lemma split_tinv : forall ownid ndid b t k kk t' k' bad,
  tinv (tb t) -> get_bucket k (tb t) = Some b -> is_full b = true ->
  prefix_range (blo b) (bhi b) kk -> kk <= idbits ->
  blo b <= ndid -> ndid <= bhi b ->
  split_bucket ownid ndid b t = (t', k', bad) ->
  tinv (tb t') /\ exists h, get_bucket k' (tb t') = Some h /\ half_ok b h kk /\ blo h <= ndid /\ ndid <= bhi h /\
  (forall x, In x (tb t) -> x <> b -> In x (tb t')) /\
  (forall x, In x (ids_of h) -> In x (ids_of b)).
Proof.
  intros ownid ndid b t k kk t' k' bad [C F] G Fu P Kk N1 N2 S.
  destruct (get_bucket_in _ _ _ G) as [I Hk]. rewrite <- Hk in G.
  assert (OKb : bucket_ok b) by (eapply Forall_forall; eauto).
  destruct (contiguous_bounds _ _ _ C F I) as [_ U].
  pose proof (full_wide _ _ OKb Fu P) as K1.
  pose proof (mid_point_prefix _ _ _ K1 Kk P U) as MP.
  destruct (prefix_halves _ _ _ K1 P) as [PL [PH [Mlt Mge]]].
  unfold split_bucket in S. rewrite MP in S.
  set (mid := blo b + 2 ^ (kk - 1) - 1) in *.
  assert (LO' : (mid + 1) mod idspace = mid + 1) by (apply N.mod_small; lia).
  rewrite LO' in S.
  destruct (hoare_partition _ _ (bnodes b)) as [keep moved] eqn:HP.
  destruct (hoare_partition_spec _ _ _ _ _ (PeanoNat.Nat.lt_succ_diag_r _) HP) as [PM [FK FM]].
  set (other := mkBucket (blo b) mid moved (bchanged b) (count is_good moved) (count is_bad moved) []) in *.
  set (this := mkBucket (mid + 1) (bhi b) keep (bchanged b) (count is_good keep) (count is_bad keep) (bcache b)) in *.
  inversion S; subst t' k' bad. clear S. simpl.
  destruct OKb as [_ [FR [ND LN]]].
  assert (PMi : Permutation (ids_of b) (map nid keep ++ map nid moved)).
  { unfold ids_of. rewrite <- map_app. apply Permutation_map. assumption. }
  assert (NDa : NoDup (map nid keep ++ map nid moved)) by (eapply Permutation_NoDup; eauto).
  assert (LNa : (length keep + length moved = length (bnodes b))%nat).
  { apply Permutation_length in PM. rewrite app_length in PM. lia. }
  assert (INk : forall x, In x (map nid keep) -> In x (ids_of b)).
  { intros x Hx. eapply Permutation_in; [apply Permutation_sym; exact PMi|]. apply in_or_app. left. assumption. }
  assert (INm : forall x, In x (map nid moved) -> In x (ids_of b)).
  { intros x Hx. eapply Permutation_in; [apply Permutation_sym; exact PMi|]. apply in_or_app. right. assumption. }
  assert (OKthis : bucket_ok this).
  { unfold bucket_ok, ids_of. simpl. split; [exists (kk - 1); split; [lia|]; replace (mid + 1) with (blo b + 2 ^ (kk - 1)) by (unfold mid; lia); assumption|].
    split.
    - rewrite Forall_forall. intros x Hx. apply in_map_iff in Hx. destruct Hx as [n [<- Hn]].
      rewrite Forall_forall in FK. specialize (FK _ Hn). simpl in FK. apply andb_true_iff in FK.
      destruct FK as [A B]. apply N.leb_le in A. apply N.leb_le in B. split; assumption.
    - split; [eapply nodup_app_left; eauto|]. unfold lenN, ids_of in *. rewrite map_length in *. lia. }
  assert (OKother : bucket_ok other).
  { unfold bucket_ok, ids_of. simpl. split; [exists (kk - 1); split; [lia|assumption]|].
    split.
    - rewrite Forall_forall. intros x Hx. pose proof (INm _ Hx) as Hb.
      rewrite Forall_forall in FR. destruct (FR _ Hb) as [A B]. split; [assumption|].
      apply in_map_iff in Hx. destruct Hx as [n [<- Hn]].
      rewrite Forall_forall in FM. specialize (FM _ Hn). simpl in FM. apply andb_false_iff in FM.
      destruct FM as [X|X]; [apply N.leb_gt in X; lia|apply N.leb_gt in X; lia].
    - split; [eapply nodup_app_right; eauto|]. unfold lenN, ids_of in *. rewrite map_length in *. lia. }
  split.
  - split.
    + eapply split_contiguous with (b := b); eauto; simpl; try lia; reflexivity.
    + apply insert_bucket_forall; [assumption|]. apply map_bucket_forall; [intros; assumption|assumption].
  - (* the half the new node goes to *)
    assert (GB : forall bs h, In h bs -> (forall x y, In x bs -> In y bs -> bhi x = bhi y -> x = y) -> get_bucket (bhi h) bs = Some h).
    { induction bs as [|b0 r IHr]; simpl; intros h Ih Uq; [destruct Ih|].
      destruct (bhi b0 =? bhi h) eqn:E.
      - apply N.eqb_eq in E. f_equal. apply Uq; [left; reflexivity|assumption|assumption].
      - destruct Ih as [->|Ih]; [rewrite N.eqb_refl in E; discriminate|]. apply IHr; [assumption|].
        intros; apply Uq; [right; assumption|right; assumption|assumption]. }
    set (bs' := insert_bucket other (map_bucket (bhi b) (fun _ => this) (tb t))).
    assert (C' : contiguous 0 bs') by (eapply split_contiguous with (b := b); eauto; simpl; try lia; reflexivity).
    assert (F' : Forall bucket_ok bs') by (apply insert_bucket_forall; [assumption|]; apply map_bucket_forall; [intros; assumption|assumption]).
    assert (UQ : forall bs s, contiguous s bs -> Forall bucket_ok bs -> forall x y, In x bs -> In y bs -> bhi x = bhi y -> x = y).
    { induction bs as [|b0 r IHr]; simpl; intros s Cs Fs x y Ix Iy Exy; [destruct Ix|].
      destruct Cs as [Cs1 Cs2]. inversion Fs as [|? ? F0 Fr']; subst.
      destruct Ix as [<-|Ix]; destruct Iy as [<-|Iy]; try reflexivity.
      - destruct (contiguous_bounds _ _ _ Cs2 Fr' Iy). pose proof (ok_le _ (proj1 (Forall_forall _ _) Fr' _ Iy)). lia.
      - destruct (contiguous_bounds _ _ _ Cs2 Fr' Ix). pose proof (ok_le _ (proj1 (Forall_forall _ _) Fr' _ Ix)). lia.
      - eapply IHr; eauto. }
    assert (INo : In other bs').
    { unfold bs'. clear. induction (map_bucket (bhi b) (fun _ => this) (tb t)) as [|b0 r IHr]; simpl; [left; reflexivity|].
      destruct (mid <? bhi b0); [left; reflexivity|right; assumption]. }
    assert (INins : forall x l, In x l -> In x (insert_bucket other l)).
    { clear. induction l as [|b0 r IHr]; simpl; intros Hx; [destruct Hx|].
      destruct (_ <? bhi b0); [right; assumption|]. destruct Hx; [left; assumption|right; apply IHr; assumption]. }
    assert (INt : In this bs').
    { unfold bs'. apply INins. unfold map_bucket. apply in_map_iff. exists b. rewrite N.eqb_refl. split; [reflexivity|assumption]. }
    assert (REST : forall x, In x (tb t) -> x <> b -> In x bs').
    { intros x Ix Nx. unfold bs'. apply INins. unfold map_bucket. apply in_map_iff. exists x. split; [|assumption].
      destruct (bhi x =? bhi b) eqn:E; [|reflexivity]. apply N.eqb_eq in E. exfalso. apply Nx.
      eapply (UQ _ _ C F); eauto. }
    destruct (in_range other ndid) eqn:IR.
    + exists other. split; [apply (GB bs' other INo (UQ _ _ C' F'))|].
      unfold in_range in IR. simpl in IR. apply andb_true_iff in IR. destruct IR as [A B]. apply N.leb_le in A. apply N.leb_le in B.
      split; [split; [assumption|split; [assumption|simpl; lia]]|]. simpl. repeat split; try assumption. 
    + exists this. split; [change (bhi b) with (bhi this); apply (GB bs' this INt (UQ _ _ C' F'))|].
      unfold in_range in IR. simpl in IR. apply andb_false_iff in IR.
      assert (mid < ndid) by (destruct IR as [X|X]; apply N.leb_gt in X; lia).
      split; [split; [assumption|split; [simpl; replace (mid + 1) with (blo b + 2 ^ (kk - 1)) by (unfold mid; lia); assumption|simpl; lia]]|].
      simpl. repeat split; try assumption; try lia.
Qed.
