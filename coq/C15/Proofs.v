From Coq Require Import List NArith Bool Lia.
From LTV.C15 Require Import ParamsGen.
From LTV.C15 Require Import Model.
Import ListNotations.
Local Open Scope N_scope.

Definition params_ok : bool :=
  (2 <=? Params.dht_bucket_num_nodes) && (Params.dht_hash_string_size =? 20) &&
  (1 <=? Params.dht_max_failed_replies) && (Params.dht_size_token <=? 20) && (1 <=? Params.dht_size_token).
Lemma params_ok_now : params_ok = true.
Proof. vm_compute. reflexivity. Qed.
