(* C15 — search_terminates for the model of dht::DhtSearch: a search hands out every contact it was
   offered at most once, never more contacts than it was offered, and with no new offers it runs dry. *)
From Coq Require Import List NArith Bool Lia Sorted.
From LTV.C15 Require Import ModelSearch.
Import ListNotations.
Local Open Scope N_scope.

Definition key (t : N) (c : contact) : N := N.lxor (c_id c) t.
Definition ssorted (t : N) (l : list contact) : Prop := StronglySorted (fun a b => key t a < key t b) l.
Definition count_new (l : list contact) : N := N.of_nat (length (filter is_new l)).
Definition count_active (l : list contact) : N := N.of_nat (length (filter is_active l)).

Definition next_valid (s : search) : Prop :=
  match s_next s with
  | None => True
  | Some id => exists c, In c (s_cs s) /\ c_id c = id /\ is_new c = true
  end.
Definition inv (s : search) : Prop :=
  ssorted (s_target s) (s_cs s) /\ next_valid s /\ s_pending s = count_active (s_cs s).

Lemma key_inj : forall t a b, key t a = key t b -> c_id a = c_id b.
Proof.
  intros t a b H. unfold key in H.
  assert (E : N.lxor (N.lxor (c_id a) t) t = N.lxor (N.lxor (c_id b) t) t) by (rewrite H; reflexivity).
  rewrite !N.lxor_assoc, !N.lxor_nilpotent, !N.lxor_0_r in E. exact E.
Qed.

(* in a sorted contact list an id occurs at most once *)
Lemma sorted_unique : forall t l a b, ssorted t l -> In a l -> In b l -> c_id a = c_id b -> a = b.
Proof.
  induction l as [|x r IH]; intros a b S Ia Ib E; [destruct Ia|].
  inversion S as [|? ? Sr Fx]; subst. rewrite Forall_forall in Fx.
  destruct Ia as [<-|Ia]; destruct Ib as [<-|Ib]; try reflexivity.
  - specialize (Fx _ Ib). unfold key in Fx. rewrite E in Fx. lia.
  - specialize (Fx _ Ia). unfold key in Fx. rewrite E in Fx. lia.
  - eapply IH; eauto.
Qed.

Lemma insert_spec : forall t c l l', ssorted t l -> insert_contact t c l = Some l' ->
  ssorted t l' /\ (forall x, In x l' <-> x = c \/ In x l) /\
  length (filter is_new l') = (length (filter is_new l) + (if is_new c then 1 else 0))%nat /\
  length (filter is_active l') = (length (filter is_active l) + (if is_active c then 1 else 0))%nat.
Proof.
  induction l as [|x r IH]; simpl; intros l' S H.
  - inversion H; subst. split; [constructor; constructor|]. split; [intros y; simpl; intuition congruence|].
    simpl. destruct (is_new c), (is_active c); simpl; split; reflexivity.
  - unfold closer in H. fold (key t c) in H. fold (key t x) in H.
    destruct (key t c <? key t x) eqn:E1.
    + inversion H; subst. apply N.ltb_lt in E1. split.
      * constructor; [assumption|]. constructor; [assumption|].
        inversion S as [|? ? Sr Fx]; subst. eapply Forall_impl; [|exact Fx]. intros a Ha. simpl in Ha. lia.
      * split; [intros y; simpl; intuition congruence|]. simpl. destruct (is_new c), (is_active c); simpl; split; lia.
    + destruct (key t x <? key t c) eqn:E2; [|discriminate]. apply N.ltb_lt in E2.
      destruct (insert_contact t c r) as [r'|] eqn:I; [|discriminate]. inversion H; subst.
      inversion S as [|? ? Sr Fx]; subst.
      destruct (IH r' Sr eq_refl) as [S' [M [C1 C2]]]. split.
      * constructor; [assumption|]. rewrite Forall_forall in *. intros y Hy. apply M in Hy. destruct Hy as [->|Hy]; [assumption|apply Fx; assumption].
      * split; [intros y; simpl; rewrite M; intuition congruence|]. simpl. destruct (is_new x), (is_active x); simpl; rewrite ?C1, ?C2; split; lia.
Qed.

Lemma trim_go_spec : forall t n l, ssorted t l ->
  ssorted t (trim_go n l) /\ (forall x, In x (trim_go n l) -> In x l) /\
  (length (filter is_new (trim_go n l)) <= length (filter is_new l))%nat /\
  length (filter is_active (trim_go n l)) = length (filter is_active l).
Proof.
  intros t n l. revert n. induction l as [|c r IH]; intros n S; simpl.
  - repeat split; [constructor|intros x []|lia].
  - inversion S as [|? ? Sr Fx]; subst.
    destruct (negb (is_active c) && (n =? 0)) eqn:E.
    + destruct (IH n Sr) as [S' [M [C1 C2]]]. apply andb_true_iff in E. destruct E as [E _]. apply negb_true_iff in E.
      split; [assumption|]. split; [intros x Hx; right; apply M; assumption|]. rewrite E.
      destruct (is_new c); simpl; split; lia.
    + destruct (IH (N.pred n) Sr) as [S' [M [C1 C2]]]. split.
      * constructor; [assumption|]. rewrite Forall_forall in *. intros y Hy. apply Fx. apply M. assumption.
      * split; [intros x [->|Hx]; [left; reflexivity|right; apply M; assumption]|].
        simpl. destruct (is_new c), (is_active c); simpl; split; lia.
Qed.

Lemma first_new_valid : forall l id, first_new l = Some id -> exists c, In c l /\ c_id c = id /\ is_new c = true.
Proof.
  intros l id H. unfold first_new in H. destruct (find is_new l) as [c|] eqn:F; [|discriminate].
  inversion H; subst. apply find_some in F. exists c. tauto.
Qed.

Lemma set_status_spec : forall t id st l c, ssorted t l -> In c l -> c_id c = id ->
  ssorted t (set_status id st l) /\
  (forall x, In x (set_status id st l) <-> (x = mkC (c_id c) (c_ip c) (c_port c) st \/ (In x l /\ x <> c))) .
Proof.
  induction l as [|x r IH]; intros c S I E; [destruct I|].
  inversion S as [|? ? Sr Fx]; subst. simpl.
  destruct (c_id x =? c_id c) eqn:Q.
  - apply N.eqb_eq in Q. assert (x = c) by (apply (sorted_unique t (x :: r) x c S (or_introl eq_refl) I Q)). subst x. split.
    + constructor; [assumption|]. eapply Forall_impl; [|exact Fx]. intros a Ha. exact Ha.
    + intros y. simpl. split.
      * intros [<-|Hy]; [left; reflexivity|right; split; [right; assumption|]]. intro; subst y.
        rewrite Forall_forall in Fx. specialize (Fx _ Hy). lia.
      * intros [->|[[<-|Hy] N]]; [left; reflexivity|contradiction|right; assumption].
  - destruct I as [->|I]; [rewrite N.eqb_refl in Q; discriminate|].
    destruct (IH c Sr I eq_refl) as [S' M]. split.
    + constructor; [assumption|]. rewrite Forall_forall in *. intros y Hy. apply M in Hy.
      destruct Hy as [->|[Hy _]]; [unfold key; simpl; specialize (Fx _ I); exact Fx|apply Fx; assumption].
    + intros y. simpl. rewrite M. split.
      * intros [<-|[H|[H N]]]; [right; split; [left; reflexivity|intro; subst; rewrite N.eqb_refl in Q; discriminate]|left; assumption|right; split; [right; assumption|assumption]].
      * intros [H|[[<-|H] N]]; [right; left; assumption|left; reflexivity|right; right; split; assumption].
Qed.

(* counting under a status change of one (unique) contact *)
Lemma set_status_counts : forall t id st l c, ssorted t l -> In c l -> c_id c = id ->
  (length (filter is_new (set_status id st l)) + (if is_new c then 1 else 0) =
   length (filter is_new l) + (match st with CNew => 1 | _ => 0 end))%nat /\
  (length (filter is_active (set_status id st l)) + (if is_active c then 1 else 0) =
   length (filter is_active l) + (match st with CActive => 1 | _ => 0 end))%nat.
Proof.
  induction l as [|x r IH]; intros c S I E; [destruct I|].
  inversion S as [|? ? Sr Fx]; subst. simpl.
  destruct (c_id x =? c_id c) eqn:Q.
  - apply N.eqb_eq in Q. assert (x = c) by (apply (sorted_unique t (x :: r) x c S (or_introl eq_refl) I Q)). subst x.
    simpl. unfold is_new at 1, is_active at 1. simpl. destruct st, (is_new c), (is_active c); simpl; split; lia.
  - destruct I as [->|I]; [rewrite N.eqb_refl in Q; discriminate|].
    destruct (IH c Sr I eq_refl) as [A B]. simpl. destruct (is_new x), (is_active x); simpl; split; lia.
Qed.

Lemma next_new_after_valid : forall id l x, next_new_after id l = Some x -> exists c, In c l /\ c_id c = x /\ is_new c = true.
Proof.
  induction l as [|c r IH]; simpl; intros x H; [discriminate|].
  destruct (c_id c =? id).
  - destruct (first_new_valid _ _ H) as [d [I [E Nw]]]. exists d. repeat split; [right|..]; assumption.
  - destruct (IH _ H) as [d [I [E Nw]]]. exists d. repeat split; [right|..]; assumption.
Qed.

Definition got (r : qres) : N := match r with SRid (Some _) => 1 | _ => 0 end.
Definition offered (o : qop) : N := match o with SAdd _ _ _ => 1 | _ => 0 end.

(* one step: the invariant is kept; the number of uncontacted nodes goes down by one with every
   contact handed out and up by at most one with every offer; contacted counts the hand-outs *)
Lemma step_measure : forall s o, inv s -> s_err s = false ->
  let s' := fst (search_step s o) in let r := snd (search_step s o) in
  inv s' /\ count_new (s_cs s') + got r <= count_new (s_cs s) + offered o /\
  s_contacted s' = s_contacted s + got r.
Proof.
  intros s o [S [NV P]] E. unfold search_step. rewrite E. destruct o as [id ip port| |id ok| |]; simpl.
  - unfold add_contact. destruct (insert_contact (s_target s) (mkC id ip port CNew) (s_cs s)) as [l|] eqn:I; simpl.
    + destruct (insert_spec _ _ _ _ S I) as [S' [M [C1 C2]]]. simpl in C1, C2. split; [split; [exact S'|split]|].
      * unfold next_valid in *. simpl. destruct (s_next s) as [x|]; [|exact Logic.I].
        destruct NV as [c [Ic [Ec Nc]]]. exists c. split; [apply M; right; assumption|split; assumption].
      * simpl. unfold count_active in *. rewrite C2, P. f_equal. lia.
      * unfold count_new. rewrite C1. split; [lia|lia].
    + split; [split; [exact S|split; assumption]|]. split; lia.
  - unfold get_contact. destruct (s_conc s <=? s_pending s); simpl; [split; [split; [exact S|split; assumption]|split; lia]|].
    set (s1 := if s_restart s then trim s false else s).
    assert (I1 : inv s1 /\ count_new (s_cs s1) <= count_new (s_cs s) /\ s_contacted s1 = s_contacted s).
    { unfold s1. destruct (s_restart s); [|split; [split; [exact S|split; assumption]|split; [lia|reflexivity]]].
      unfold trim. simpl. destruct (trim_go_spec (s_target s) max_contacts (s_cs s) S) as [S' [M [C1 C2]]].
      split; [split; [exact S'|split]|].
      - unfold next_valid. simpl. destruct (first_new _) eqn:F; [|exact Logic.I]. apply first_new_valid. assumption.
      - simpl. unfold count_active. rewrite C2. exact P.
      - unfold count_new. simpl. split; [lia|reflexivity]. }
    destruct I1 as [[S1 [NV1 P1]] [Cn1 Cc1]].
    destruct (s_next s1) as [x|] eqn:Nx; simpl.
    2:{ split; [split; [exact S1|split; [unfold next_valid; rewrite Nx; exact Logic.I|exact P1]]|]. split; lia. }
    unfold next_valid in NV1. rewrite Nx in NV1. destruct NV1 as [c [Ic [Ec Nc]]].
    destruct (set_status_spec (s_target s1) x CActive (s_cs s1) c S1 Ic Ec) as [S2 M2].
    destruct (set_status_counts (s_target s1) x CActive (s_cs s1) c S1 Ic Ec) as [K1 K2].
    rewrite Nc in K1. assert (Ac : is_active c = false) by (unfold is_new, is_active in *; destruct (c_st c); congruence).
    rewrite Ac in K2.
    split; [split; [exact S2|split]|].
    + unfold next_valid. simpl. destruct (next_new_after x _) eqn:F; [|exact Logic.I]. eapply next_new_after_valid; eauto.
    + simpl. unfold count_active in *. rewrite P1. lia.
    + unfold count_new in *. simpl. split; lia.
  - unfold node_status. destruct (find_contact id (s_cs s)) as [c|] eqn:F; simpl.
    2:{ split; [split; [exact S|split; assumption]|split; lia]. }
    unfold find_contact in F. apply find_some in F. destruct F as [Ic Ec]. apply N.eqb_eq in Ec.
    destruct (is_active c) eqn:Ac; simpl.
    2:{ split; [split; [exact S|split; assumption]|split; lia]. }
    set (st := if ok then CGood else CBad).
    destruct (set_status_spec (s_target s) id st (s_cs s) c S Ic Ec) as [S2 M2].
    destruct (set_status_counts (s_target s) id st (s_cs s) c S Ic Ec) as [K1 K2].
    rewrite Ac in K2. assert (Nc : is_new c = false) by (unfold is_new, is_active in *; destruct (c_st c); congruence).
    rewrite Nc in K1.
    assert (St1 : match st with CNew => 1%nat | _ => 0%nat end = 0%nat) by (unfold st; destruct ok; reflexivity).
    assert (St2 : match st with CActive => 1%nat | _ => 0%nat end = 0%nat) by (unfold st; destruct ok; reflexivity).
    rewrite St1 in K1. rewrite St2 in K2.
    split; [split; [exact S2|split]|].
    + unfold next_valid in *. simpl. destruct (s_next s) as [x|]; [|exact Logic.I].
      destruct NV as [d [Id [Ed Nd]]]. exists d. split; [|split; assumption].
      apply M2. right. split; [assumption|]. intro; subst d. congruence.
    + simpl. unfold count_active in *. rewrite P. lia.
    + unfold count_new. simpl. split; lia.
  - unfold trim. simpl. destruct (trim_go_spec (s_target s) 0 (s_cs s) S) as [S' [M [C1 C2]]].
    split; [split; [exact S'|split]|].
    + unfold next_valid. simpl. destruct (first_new _) eqn:F; [|exact Logic.I]. apply first_new_valid. assumption.
    + simpl. unfold count_active. rewrite C2. exact P.
    + unfold count_new. simpl. split; lia.
  - split; [split; [exact S|split; assumption]|split; lia].
Qed.

Fixpoint offers (ops : list qop) : N := match ops with [] => 0 | o :: r => offered o + offers r end.

Lemma run_err : forall ops s, s_err s = true -> search_run s ops = s.
Proof. induction ops as [|o r IH]; simpl; intros s E; [reflexivity|]. unfold search_step at 1. rewrite E. simpl. apply IH. exact E. Qed.

(* search_terminates, measure form: over ANY op list, the contacts handed out so far plus the
   contacts still uncontacted never exceed what was there plus what was offered *)
Theorem search_measure : forall ops s, inv s ->
  s_contacted (search_run s ops) + count_new (s_cs (search_run s ops)) <= s_contacted s + count_new (s_cs s) + offers ops.
Proof.
  induction ops as [|o r IH]; simpl; intros s I; [lia|].
  destruct (s_err s) eqn:E.
  - unfold search_step at 1 2. rewrite E. simpl. rewrite run_err by exact E. lia.
  - destruct (step_measure s o I E) as [I' [M C]]. specialize (IH _ I'). lia.
Qed.

Lemma init_inv : forall t, inv (search_init t).
Proof. intros t. split; [constructor|split; [exact Logic.I|reflexivity]]. Qed.

(* from a fresh search: at most as many nodes are ever contacted as were offered — each offered
   contact is handed out at most once — and the outstanding queries are exactly the Active contacts *)
Theorem search_terminates : forall t ops,
  let s := search_run (search_init t) ops in
  s_contacted s + count_new (s_cs s) <= offers ops.
Proof. intros t ops s. pose proof (search_measure ops (search_init t) (init_inv t)) as H. simpl in H. exact H. Qed.

(* ... and it ends: with nothing left uncontacted and every handed-out contact answered or timed
   out, nothing is pending; a started search is then complete *)
Lemma run_inv : forall ops s, inv s -> s_err (search_run s ops) = false -> inv (search_run s ops).
Proof.
  induction ops as [|o r IH]; simpl; intros s I E; [exact I|].
  destruct (s_err s) eqn:E0.
  - unfold search_step in E |- *. rewrite E0 in *. simpl in *. rewrite run_err in E by exact E0. congruence.
  - apply IH; [apply (step_measure s o I E0)|exact E].
Qed.

Theorem search_ends : forall t ops, let s := search_run (search_init t) ops in
  s_err s = false -> s_started s = true -> count_active (s_cs s) = 0 -> search_complete s = true.
Proof.
  intros t ops s E St A. destruct (run_inv ops _ (init_inv t) E) as [_ [_ P]]. fold s in P.
  unfold search_complete. rewrite St, P, A. reflexivity.
Qed.
