From Coq Require Import List NArith ZArith Bool.
From LTV.C15 Require Import ParamsGen.
From LTV.C15 Require Import Model Proofs ProofsMid ProofsTableA ProofsTableB ProofsTableC ProofsTokens ProofsCounters ProofsReply ProofsOwn ProofsPositive ProofsTx ModelSearch ProofsSearch ProofsPeers ProofsLive.
Import ListNotations.
Local Open Scope N_scope.

(* constants extracted from /repo satisfy what the proofs need *)
Theorem params_ok_now : Proofs.params_ok = true.
Proof. exact Proofs.params_ok_now. Qed.
Print Assumptions params_ok_now.

(* table_inv: after ANY op list (contacts as query / reply / timeout / invalid, clock steps,
   housekeeping, token and tracker ops) from the initial table, the buckets are consecutive prefix
   intervals [p*2^k, p*2^k + 2^k - 1] starting at 0 and ending at 2^160 - 1, every node id lies in
   the range of the bucket that holds it, ids are unique inside a bucket, and no bucket holds more
   than K = num_nodes nodes.  (sinv s = contiguous 0 buckets /\ Forall bucket_ok buckets) *)
Theorem table_inv : forall (sha : list N -> list N) (ownid c p t0 : N) (ops : list op),
  let s := run sha (init ownid c p t0) ops in
  contiguous 0 (tb (tab s)) /\ Forall bucket_ok (tb (tab s)).
Proof. intros. exact (run_sinv sha ops _ (init_sinv ownid c p t0)). Qed.
Print Assumptions table_inv.

(* consequence: the buckets partition the id space (every id < 2^160 is in exactly one bucket) *)
Theorem table_partitions_id_space : forall sha ownid c p t0 ops id, id < idspace ->
  let bs := tb (tab (run sha (init ownid c p t0) ops)) in
  exists b, In b bs /\ blo b <= id /\ id <= bhi b /\
            forall b', In b' bs -> blo b' <= id -> id <= bhi b' -> b' = b.
Proof.
  intros. destruct (run_sinv sha ops _ (init_sinv ownid c p t0)) as [C F].
  exact (tinv_partition _ 0 id C F (N.le_0_l _) H).
Qed.
Print Assumptions table_partitions_id_space.

(* consequence: node ids are unique across the whole table *)
Theorem table_ids_unique : forall sha ownid c p t0 ops,
  NoDup (all_ids (tb (tab (run sha (init ownid c p t0) ops)))).
Proof.
  intros. destruct (run_sinv sha ops _ (init_sinv ownid c p t0)) as [C F].
  exact (tinv_unique _ 0 C F).
Qed.
Print Assumptions table_ids_unique.

(* DhtBucket::get_mid_point (byte-wise) on a prefix interval of 2^k >= 2 ids is lo + 2^(k-1) - 1 *)
Theorem mid_point_of_prefix_interval : forall lo hi k, 1 <= k -> k <= idbits -> prefix_range lo hi k ->
  hi + 1 <= idspace -> mid_point lo hi = lo + 2 ^ (k - 1) - 1.
Proof. exact mid_point_prefix. Qed.
Print Assumptions mid_point_of_prefix_interval.

(* add_terminates: on a table satisfying the invariant, add_node_to_bucket with fuel 170 never runs
   out of fuel (each split halves the bucket under consideration; at most 160 halvings) *)
Theorem add_terminates : forall ownid tm nd t, tinv (tb t) -> lookup (nid nd) (tb t) = None ->
  add_node_to_bucket ownid tm nd t <> LFuel.
Proof.
  intros ownid tm nd t T L E. pose proof (add_node_tinv ownid tm nd t T L) as H. rewrite E in H. exact H.
Qed.
Print Assumptions add_terminates.

(* token_window, acceptance: a token is accepted iff it is H(secret, ip)[0..size_token] for the
   current or the previous secret; announce_peer is accepted iff its token is *)
Theorem token_window_accept : forall sha, (forall x, length (sha x) = 20%nat) -> forall s tok ip,
  token_valid sha s tok ip = true <-> (tok = token_for sha (cur s) ip \/ tok = token_for sha (prev s) ip).
Proof. exact token_valid_spec. Qed.
Print Assumptions token_window_accept.

Theorem announce_accepted_iff_token_valid : forall sha s ih ip port tok, err s = false -> port_ok port ->
  (snd (step sha s (OAnnounce ih ip port tok)) = Rnone <-> token_valid sha s tok ip = true) /\
  (snd (step sha s (OAnnounce ih ip port tok)) = Rerr 1 <-> token_valid sha s tok ip = false) /\
  (token_valid sha s tok ip = false -> fst (step sha s (OAnnounce ih ip port tok)) = s).
Proof. exact announce_accept_iff. Qed.
Print Assumptions announce_accepted_iff_token_valid.

(* a port outside 1..65535 is refused whatever the token (regression for /repo d3749d4) *)
Theorem announce_port_out_of_range_refused : forall sha s ih ip port tok, err s = false -> ~ port_ok port ->
  fst (step sha s (OAnnounce ih ip port tok)) = s /\ snd (step sha s (OAnnounce ih ip port tok)) <> Rnone.
Proof. exact announce_bad_port. Qed.
Print Assumptions announce_port_out_of_range_refused.

(* token_window, lifetime: over any op list a token issued now is still accepted after zero or one
   rotation, and after two or more only if it collides with a token of the two newest secrets *)
Theorem token_window_lifetime : forall sha, (forall x, length (sha x) = 20%nat) -> forall s ip ops,
  err (run sha s ops) = false ->
  let tok := token_for sha (cur s) ip in
  match rev (secrets ops) with
  | [] => token_valid sha (run sha s ops) tok ip = true
  | [_] => token_valid sha (run sha s ops) tok ip = true
  | s2 :: s1 :: _ => token_valid sha (run sha s ops) tok ip = true <-> (tok = token_for sha s2 ip \/ tok = token_for sha s1 ip)
  end.
Proof. exact token_lifetime. Qed.
Print Assumptions token_window_lifetime.

(* announce_then_get: after an accepted announce_peer(ih, port) from ip and then ANY list of ops
   without housekeeping (pruning) and without a further announce for ih, get_peers(ih) answers
   with values containing ip ++ port in network byte order (store of ih within max_peers entries) *)
Theorem announce_then_get : forall sha s ih ip port tok ops ip2 rnd,
  err s = false -> token_valid sha s tok ip = true -> port_ok port ->
  forallb (neutral ih) ops = true ->
  let s2 := run sha (fst (step sha s (OAnnounce ih ip port tok))) ops in
  err s2 = false ->
  (forall l, get_tracker ih (trackers s2) = Some l -> lenN l <= Params.dht_tracker_max_peers) ->
  exists t vals, snd (step sha s2 (OGetPeers ih ip2 rnd)) = Rpeers t vals /\
                 In (ipbytes ip ++ [(port16 port / 256) mod 256; port16 port mod 256]) vals.
Proof. exact ProofsTokens.announce_then_get. Qed.
Print Assumptions announce_then_get.

(* "until pruned": housekeeping keeps a stored peer that announced at most timeout_peer_announce
   seconds ago *)
Theorem housekeeping_keeps_fresh_peer : forall sha s ih ip port secret l p,
  err s = false -> get_tracker ih (trackers s) = Some l -> In p l -> pip p = ip -> pport p = htons16 (port16 port) ->
  now s < u32 -> Params.dht_timeout_peer_announce <= now s -> now s <= pseen p + Params.dht_timeout_peer_announce ->
  stored ih ip port (fst (step sha s (OHousekeeping secret))).
Proof. exact ProofsTokens.housekeeping_keeps. Qed.
Print Assumptions housekeeping_keeps_fresh_peer.

(* "counters = counts" (DESIGN.md) is false for the bad counter: witness op list after which a bucket
   has m_bad = 1 and no bad node (m_good stays exact in the witness) *)
Theorem counters_exact_refuted :
  exists sha ops, let s := run sha (init (2 ^ 159 + 1) 1 2 34560000) ops in
    err s = false /\
    exists b, In b (tb (tab s)) /\ bbad b = 1 /\ count is_bad (bnodes b) = 0 /\ bgood b = count is_good (bnodes b).
Proof. exact ProofsCounters.counters_exact_refuted. Qed.
Print Assumptions counters_exact_refuted.

(* ------------------------------------------------------------------ reply_shape (datagram level) *)

(* every datagram that reaches the dispatcher (a bencode dictionary whose y is not "r"/"e") gets
   exactly one answer, an error or a normal reply; the error flag (internal_error) never changes *)
Theorem reply_exactly_one : forall sha s ip rnd m,
  (exists t e, snd (dgram sha s ip rnd m) = RpErr t e) \/ (exists t a b c, snd (dgram sha s ip rnd m) = RpOk t a b c).
Proof. exact dgram_one_reply. Qed.
Print Assumptions reply_exactly_one.

Theorem reply_never_internal_error : forall sha s ip rnd m, err (fst (dgram sha s ip rnd m)) = err s.
Proof. exact dgram_no_internal_error. Qed.
Print Assumptions reply_never_internal_error.

(* t (a string of at most 20 bytes) is echoed by whatever is answered *)
Theorem reply_echoes_t : forall sha s ip rnd m t, m_t m = Some t -> lenN t <= 20 ->
  (exists e, snd (dgram sha s ip rnd m) = RpErr (Some t) e) \/ (exists a b c, snd (dgram sha s ip rnd m) = RpOk t a b c).
Proof. exact dgram_echo_t. Qed.
Print Assumptions reply_echoes_t.

(* well-formed ping: a normal reply (r.id = own id by construction of RpOk) without body *)
Theorem reply_shape_ping : forall sha s ip rnd m t id, envelope_ok s m t s_ping id ->
  snd (dgram sha s ip rnd m) = RpOk t None None None.
Proof. exact reply_ping. Qed.
Print Assumptions reply_shape_ping.

(* well-formed find_node: nodes only (or error 201 when the node knows nobody) *)
Theorem reply_shape_find_node : forall sha s ip rnd m t id tg, envelope_ok s m t s_find_node id ->
  m_target m = Some tg -> hs_len <= lenN tg ->
  let c := snd (closest_nodes (tab s) (be_to_N (firstn idbytes tg))) in
  (c = [] /\ snd (dgram sha s ip rnd m) = RpErr (Some t) E_no_nodes) \/
  (c <> [] /\ snd (dgram sha s ip rnd m) = RpOk t None (Some c) None).
Proof. exact reply_find_node. Qed.
Print Assumptions reply_shape_find_node.

(* the node list: at most K whole entries, each a non-bad node of the table, when the bucket's
   cache is not filled ... *)
Theorem reply_nodes_live_when_fresh : forall t id e, fresh_for t id -> In e (snd (closest_nodes t id)) ->
  lenN (snd (closest_nodes t id)) <= K /\
  exists b n, In b (tb t) /\ In n (bnodes b) /\ is_bad n = false /\ e = (nid n, nip n, nport n).
Proof. exact closest_fresh_live. Qed.
Print Assumptions reply_nodes_live_when_fresh.

(* ... and on a tree WITH /repo 5bd3da4 (probed behaviourally into chain_inval) the cache of every
   bucket is emptied when a node is deleted or turns bad, so the next reply is rebuilt from the table:
   reply_nodes_live = these two + reply_nodes_live_when_fresh *)
Theorem reply_nodes_live_after_delete : forall s id b, chain_inval = true -> lookup id (tb (tab s)) <> None ->
  In b (tb (tab (node_invalid s id))) -> bcache b = [].
Proof. exact delete_clears_all_caches. Qed.
Print Assumptions reply_nodes_live_after_delete.

Theorem reply_nodes_live_after_turning_bad : forall s id ip k n b, chain_inval = true ->
  lookup id (tb (tab s)) = Some (k, n) -> nip n = ip -> is_bad n = false -> ninact n + 1 = max_failed ->
  err (fst (node_inactive s id ip)) = false ->
  In b (tb (tab (fst (node_inactive s id ip)))) -> bcache b = [].
Proof. exact failed_query_clears_all_caches. Qed.
Print Assumptions reply_nodes_live_after_turning_bad.

(* on a tree WITHOUT the fix the strict form is refuted (kept so that an older tree is still modelled) *)
Theorem reply_nodes_stale_on_old_trees : chain_inval = false ->
  exists sha ops, let s := run sha (init (2 ^ 159 + 1) 1 2 34560000) ops in
    err s = false /\
    (exists b n, In b (tb (tab s)) /\ In n (bnodes b) /\ nid n = st_id /\ is_bad n = true) /\
    snd (step sha s (OFindNode 5)) = Rnodes [(st_id, 2130706434, 4000)].
Proof. exact ProofsReply.reply_nodes_stale_on_old_trees. Qed.
Print Assumptions reply_nodes_stale_on_old_trees.

(* well-formed get_peers: token = H(current secret, source ip)[0..8]; values are stored peers of
   the asked info-hash only, else nodes *)
Theorem reply_shape_get_peers : forall sha s ip rnd m t id h, envelope_ok s m t s_get_peers id ->
  m_ih m = Some h -> hs_len <= lenN h ->
  let ih := be_to_N (firstn idbytes h) in
  let tok := token_for sha (cur s) ip in
  match get_tracker ih (trackers s) with
  | Some (p :: l) =>
    exists vals, snd (dgram sha s ip rnd m) = RpOk t (Some tok) None (Some vals) /\ vals <> [] /\
                 forall v, In v vals -> In v (map peer_bytes (p :: l))
  | _ =>
    let c := snd (closest_nodes (tab s) ih) in
    (c = [] /\ snd (dgram sha s ip rnd m) = RpErr (Some t) E_no_peers_nodes) \/
    (c <> [] /\ snd (dgram sha s ip rnd m) = RpOk t (Some tok) (Some c) None)
  end.
Proof. exact reply_get_peers. Qed.
Print Assumptions reply_shape_get_peers.

(* well-formed announce_peer: refused with error 203 and no state change iff the token is not valid
   or the port is not an integer in 1..65535; else an empty normal reply and (ip, port) stored *)
Theorem reply_shape_announce : forall sha s ip rnd m t id h tk, envelope_ok s m t s_announce_peer id ->
  m_ih m = Some h -> hs_len <= lenN h -> m_token m = Some tk ->
  let ih := be_to_N (firstn idbytes h) in
  (token_valid sha s tk ip = false ->
     snd (dgram sha s ip rnd m) = RpErr (Some t) E_token /\ fst (dgram sha s ip rnd m) = s) /\
  (token_valid sha s tk ip = true -> forall z, m_port m = PInt z -> (1 <= z <= 65535)%Z ->
     snd (dgram sha s ip rnd m) = RpOk t None None None /\
     (err s = false -> stored ih ip (Z.to_N z) (fst (dgram sha s ip rnd m)))) /\
  (token_valid sha s tk ip = true -> (forall z, m_port m = PInt z -> (z < 1 \/ 65535 < z)%Z) ->
     (exists e, snd (dgram sha s ip rnd m) = RpErr (Some t) e) /\ fst (dgram sha s ip rnd m) = s).
Proof. exact reply_announce. Qed.
Print Assumptions reply_shape_announce.

(* ------------------------------------------------------------------ the own bucket *)

(* only_own_bucket_splits: along every op list from the initial state, a step can make a bucket
   range [lo, hi] disappear only if it contains the router's own id (ops: ids in replies are
   20-byte strings, the clock stays below 2^32 - 1 seconds) *)
Theorem only_own_bucket_splits : forall sha ownid c p t0 ops o, ownid < idspace ->
  t0 + ticks (ops ++ [o]) < u32 - 1 -> Forall op_ok (ops ++ [o]) ->
  let s := run sha (init ownid c p t0) ops in
  forall lo hi, In (lo, hi) (ranges (tb (tab s))) ->
    In (lo, hi) (ranges (tb (tab (fst (step sha s o))))) \/ (lo <= ownid /\ ownid <= hi).
Proof. exact only_own_splits_step. Qed.
Print Assumptions only_own_bucket_splits.

(* none of the internal_error throws of the modelled code is reachable: "router ID ended up in wrong
   bucket", "find_candidate returned no node", a node missing right after it was added or updated,
   fuel exhaustion; and the router's bucket pointer always designates the bucket covering the own
   id, which is the last link of the parent/child chain *)
Theorem no_internal_error : forall sha ownid c p t0 ops, ownid < idspace ->
  t0 + ticks ops < u32 - 1 -> Forall op_ok ops ->
  let s := run sha (init ownid c p t0) ops in
  err s = false /\ own s = ownid /\ own_in_town ownid (tab s) /\ chain_ok (tab s).
Proof.
  intros sha ownid c p t0 ops Ho Nw F s.
  destruct (run_from_init sha ownid c p t0 ops Ho Nw F) as [E [O [_ [[_ [A1 [A2 _]]] _]]]].
  fold s in E, O, A1, A2. rewrite O in A1. split; [exact E|split; [exact O|split; [exact A1|exact A2]]].
Qed.
Print Assumptions no_internal_error.

(* chain ordering by width: along the parent/child chain (root first) every bucket is exactly twice
   as wide as its child, except the last two (own bucket and its sibling), which are equally wide *)
Theorem chain_ordered_by_width : forall sha ownid c p t0 ops, ownid < idspace ->
  t0 + ticks ops < u32 - 1 -> Forall op_ok ops ->
  wok (cw (tab (run sha (init ownid c p t0) ops))).
Proof.
  intros sha ownid c p t0 ops Ho Nw F.
  destruct (run_from_init sha ownid c p t0 ops Ho Nw F) as [_ [_ [_ [[_ [_ [_ [_ W]]]] _]]]]. exact W.
Qed.
Print Assumptions chain_ordered_by_width.

(* ------------------------------------------------------------------ what holds about the two quirks *)

(* the counters are exact (and all node caches empty) right after every housekeeping pass *)
Theorem counters_exact_after_housekeeping : forall sha s secret b, err s = false ->
  In b (tb (tab (fst (step sha s (OHousekeeping secret))))) ->
  bgood b = count is_good (bnodes b) /\ bbad b = count is_bad (bnodes b) /\ bcache b = [].
Proof. exact ProofsPositive.counters_exact_after_housekeeping. Qed.
Print Assumptions counters_exact_after_housekeeping.

(* a filled cache is returned verbatim; a rebuild stores exactly the list it returns, and that list
   consists of nodes of the table that are not bad at that moment (reply_nodes_live_when_fresh):
   the nodes of a reply are the nodes that were non-bad when the bucket's cache was last rebuilt *)
Theorem reply_nodes_from_cache : forall t id b e c, find_bucket id (tb t) = Some b -> bcache b = e :: c ->
  closest_nodes t id = (t, e :: c).
Proof. exact closest_cached. Qed.
Print Assumptions reply_nodes_from_cache.

Theorem cache_rebuild_stores_reply : forall t id b, find_bucket id (tb t) = Some b -> bcache b = [] ->
  get_bucket (bhi b) (tb t) = Some b ->
  exists b', get_bucket (bhi b) (tb (fst (closest_nodes t id))) = Some b' /\
             bcache b' = snd (closest_nodes t id) /\ bnodes b' = bnodes b.
Proof. exact closest_rebuild_stores. Qed.
Print Assumptions cache_rebuild_stores_reply.

(* ------------------------------------------------------------------ transactions (y = "r" / "e" datagrams)
   Scope: ping transactions (node_queried of an unknown, wanted node); [tracked] = the server has not
   started a DhtSearch yet.  DhtSearch / DhtAnnounce state machines are not modelled. *)

Theorem unsolicited_reply_ignored : forall sha ss ip t idb tid id, tracked ss -> reply_ok ss t idb tid id ->
  find_tx ip tid (txs ss) = None ->
  snd (sstep sha ss (SReply ip t idb)) = Rdg RpNone /\
  rs (fst (sstep sha ss (SReply ip t idb))) = rs ss /\
  map (fun x => (x_ip x, x_tid x, x_id x)) (txs (fst (sstep sha ss (SReply ip t idb)))) = map (fun x => (x_ip x, x_tid x, x_id x)) (txs ss) /\
  netup (fst (sstep sha ss (SReply ip t idb))) = netup ss.
Proof. exact ProofsTx.unsolicited_reply_ignored. Qed.
Print Assumptions unsolicited_reply_ignored.

Theorem wrong_id_reply_ignored : forall sha ss ip t idb tid id x, tracked ss -> reply_ok ss t idb tid id ->
  find_tx ip tid (txs ss) = Some x -> id <> x_id x -> x_id x <> 0 ->
  snd (sstep sha ss (SReply ip t idb)) = Rdg RpNone /\
  rs (fst (sstep sha ss (SReply ip t idb))) = rs ss /\
  map (fun x => (x_ip x, x_tid x, x_id x)) (txs (fst (sstep sha ss (SReply ip t idb)))) = map (fun x => (x_ip x, x_tid x, x_id x)) (txs ss).
Proof. exact ProofsTx.wrong_id_reply_ignored. Qed.
Print Assumptions wrong_id_reply_ignored.

Theorem matched_reply_updates_table : forall sha ss ip t idb tid id x, tracked ss -> reply_ok ss t idb tid id ->
  find_tx ip tid (txs ss) = Some x -> (id = x_id x \/ x_id x = 0) ->
  snd (sstep sha ss (SReply ip t idb)) = Rdg RpNone /\
  rs (fst (sstep sha ss (SReply ip t idb))) = fst (step sha (rs ss) (OReplied id ip 0)) /\
  find_tx ip tid (txs (fst (sstep sha ss (SReply ip t idb)))) = None /\
  netup (fst (sstep sha ss (SReply ip t idb))) = true.
Proof. exact ProofsTx.matched_reply_updates_table. Qed.
Print Assumptions matched_reply_updates_table.

Theorem error_clears_transaction : forall sha ss ip tid, tracked ss ->
  snd (sstep sha ss (SError ip (Some [tid]))) = Rdg RpNone /\
  rs (fst (sstep sha ss (SError ip (Some [tid])))) = rs ss /\
  find_tx ip tid (txs (fst (sstep sha ss (SError ip (Some [tid]))))) = None.
Proof. exact ProofsTx.error_clears_transaction. Qed.
Print Assumptions error_clears_transaction.

Theorem timeout_blames_only_sent_known_nodes : forall sha ss x,
  rs (expire sha ss x) =
  (if netup ss && x_sent x && negb (x_id x =? 0) then fst (step sha (rs ss) (OInactive (x_id x) (x_ip x) 0)) else rs ss) /\
  find_tx (x_ip x) (x_tid x) (txs (expire sha ss x)) = None.
Proof. exact ProofsTx.timeout_blame. Qed.
Print Assumptions timeout_blames_only_sent_known_nodes.

Theorem one_ping_per_address : forall sha ownid c p t0 fl ops, one_per_ip (srun sha (sinit ownid c p t0 fl) ops).
Proof. exact ProofsTx.one_ping_per_address. Qed.
Print Assumptions one_ping_per_address.

Theorem table_inv_with_transactions : forall sha ownid c p t0 fl ops,
  let s := rs (srun sha (sinit ownid c p t0 fl) ops) in
  contiguous 0 (tb (tab s)) /\ Forall bucket_ok (tb (tab s)).
Proof. exact ProofsTx.table_inv_with_transactions. Qed.
Print Assumptions table_inv_with_transactions.

(* ------------------------------------------------------------------ outgoing search (dht::DhtSearch)
   Model of the contact set of a find_node search (ModelSearch.v), tied to the real DhtSearch object
   by its own correspondence (case lines "S ..."). *)

(* search_terminates, measure form: for ANY list of offers / hand-outs / answers / trims, the contacts
   handed out plus the contacts still uncontacted never exceed the offers: every offered contact is
   handed out at most once *)
Theorem search_terminates : forall t ops,
  let s := search_run (search_init t) ops in
  s_contacted s + count_new (s_cs s) <= offers ops.
Proof. exact ProofsSearch.search_terminates. Qed.
Print Assumptions search_terminates.

Theorem search_measure : forall ops s, ProofsSearch.inv s ->
  s_contacted (search_run s ops) + count_new (s_cs (search_run s ops)) <= s_contacted s + count_new (s_cs s) + offers ops.
Proof. exact ProofsSearch.search_measure. Qed.
Print Assumptions search_measure.

(* it ends: a started search with no contact being queried any more is complete (pending = number
   of Active contacts is an invariant) *)
Theorem search_ends : forall t ops, let s := search_run (search_init t) ops in
  s_err s = false -> s_started s = true -> count_active (s_cs s) = 0 -> search_complete s = true.
Proof. exact ProofsSearch.search_ends. Qed.
Print Assumptions search_ends.

(* every stored peer is reachable: for a store of 33..128 peers each peer lies in the 32-peer window
   get_peers returns for at least one value of random() (finite check over all sizes, lifted) *)
Theorem every_peer_reachable : forall l p, mp < lenN l -> lenN l <= Params.dht_tracker_max_size -> In p l ->
  exists rnd, In (peer_bytes p) (get_peers rnd l).
Proof. exact ProofsPeers.every_peer_reachable. Qed.
Print Assumptions every_peer_reachable.

(* reply_nodes_live (tree with /repo 5bd3da4, chain_inval probed behaviourally): for EVERY op list from
   the initial state, the node list of a find_node / get_peers reply (closest_nodes) consists of nodes
   that are in the routing table and not bad.  Invariant behind it: every entry of every bucket's
   reply cache is such a node (ProofsLive.cache_live). *)
Theorem reply_nodes_live : forall sha, chain_inval = true -> forall ownid c p t0 ops id e,
  let t := tab (run sha (init ownid c p t0) ops) in
  In e (snd (closest_nodes t id)) ->
  exists b n, In b (tb t) /\ In n (bnodes b) /\ is_bad n = false /\ e = (nid n, nip n, nport n).
Proof. exact ProofsLive.reply_nodes_live. Qed.
Print Assumptions reply_nodes_live.
