From Coq Require Import List NArith Bool.
From LTV.C15 Require Import ParamsGen.
From LTV.C15 Require Import Model Proofs ProofsMid ProofsTableA ProofsTableB ProofsTableC ProofsTokens ProofsCounters.
Import ListNotations.
Local Open Scope N_scope.

(* constants extracted from /repo satisfy what the proofs need *)
Theorem params_ok_now : Proofs.params_ok = true.
Proof. exact Proofs.params_ok_now. Qed.
Print Assumptions params_ok_now.

(* table_inv: after ANY op list (contacts as query / reply / timeout / invalid, clock steps,
   housekeeping, token and tracker ops) from the initial table, the buckets are consecutive prefix
   intervals [p*2^k, p*2^k + 2^k - 1] starting at 0 and ending at 2^160 - 1, every node id lies in
   the range of the bucket that holds it, ids are unique inside a bucket, and no bucket holds more
   than K = num_nodes nodes.  (sinv s = contiguous 0 buckets /\ Forall bucket_ok buckets) *)
Theorem table_inv : forall (sha : list N -> list N) (ownid c p t0 : N) (ops : list op),
  let s := run sha (init ownid c p t0) ops in
  contiguous 0 (tb (tab s)) /\ Forall bucket_ok (tb (tab s)).
Proof. intros. exact (run_sinv sha ops _ (init_sinv ownid c p t0)). Qed.
Print Assumptions table_inv.

(* consequence: the buckets partition the id space (every id < 2^160 is in exactly one bucket) *)
Theorem table_partitions_id_space : forall sha ownid c p t0 ops id, id < idspace ->
  let bs := tb (tab (run sha (init ownid c p t0) ops)) in
  exists b, In b bs /\ blo b <= id /\ id <= bhi b /\
            forall b', In b' bs -> blo b' <= id -> id <= bhi b' -> b' = b.
Proof.
  intros. destruct (run_sinv sha ops _ (init_sinv ownid c p t0)) as [C F].
  exact (tinv_partition _ 0 id C F (N.le_0_l _) H).
Qed.
Print Assumptions table_partitions_id_space.

(* consequence: node ids are unique across the whole table *)
Theorem table_ids_unique : forall sha ownid c p t0 ops,
  NoDup (all_ids (tb (tab (run sha (init ownid c p t0) ops)))).
Proof.
  intros. destruct (run_sinv sha ops _ (init_sinv ownid c p t0)) as [C F].
  exact (tinv_unique _ 0 C F).
Qed.
Print Assumptions table_ids_unique.

(* DhtBucket::get_mid_point (byte-wise) on a prefix interval of 2^k >= 2 ids is lo + 2^(k-1) - 1 *)
Theorem mid_point_of_prefix_interval : forall lo hi k, 1 <= k -> k <= idbits -> prefix_range lo hi k ->
  hi + 1 <= idspace -> mid_point lo hi = lo + 2 ^ (k - 1) - 1.
Proof. exact mid_point_prefix. Qed.
Print Assumptions mid_point_of_prefix_interval.

(* add_terminates: on a table satisfying the invariant, add_node_to_bucket with fuel 170 never runs
   out of fuel (each split halves the bucket under consideration; at most 160 halvings) *)
Theorem add_terminates : forall ownid tm nd t, tinv (tb t) -> lookup (nid nd) (tb t) = None ->
  add_node_to_bucket ownid tm nd t <> LFuel.
Proof.
  intros ownid tm nd t T L E. pose proof (add_node_tinv ownid tm nd t T L) as H. rewrite E in H. exact H.
Qed.
Print Assumptions add_terminates.

(* token_window, acceptance: a token is accepted iff it is H(secret, ip)[0..size_token] for the
   current or the previous secret; announce_peer is accepted iff its token is *)
Theorem token_window_accept : forall sha, (forall x, length (sha x) = 20%nat) -> forall s tok ip,
  token_valid sha s tok ip = true <-> (tok = token_for sha (cur s) ip \/ tok = token_for sha (prev s) ip).
Proof. exact token_valid_spec. Qed.
Print Assumptions token_window_accept.

Theorem announce_accepted_iff_token_valid : forall sha s ih ip port tok, err s = false ->
  (snd (step sha s (OAnnounce ih ip port tok)) = Rnone <-> token_valid sha s tok ip = true) /\
  (snd (step sha s (OAnnounce ih ip port tok)) = Rerr 1 <-> token_valid sha s tok ip = false) /\
  (token_valid sha s tok ip = false -> fst (step sha s (OAnnounce ih ip port tok)) = s).
Proof. exact announce_accept_iff. Qed.
Print Assumptions announce_accepted_iff_token_valid.

(* token_window, lifetime: over any op list a token issued now is still accepted after zero or one
   rotation, and after two or more only if it collides with a token of the two newest secrets *)
Theorem token_window_lifetime : forall sha, (forall x, length (sha x) = 20%nat) -> forall s ip ops,
  err (run sha s ops) = false ->
  let tok := token_for sha (cur s) ip in
  match rev (secrets ops) with
  | [] => token_valid sha (run sha s ops) tok ip = true
  | [_] => token_valid sha (run sha s ops) tok ip = true
  | s2 :: s1 :: _ => token_valid sha (run sha s ops) tok ip = true <-> (tok = token_for sha s2 ip \/ tok = token_for sha s1 ip)
  end.
Proof. exact token_lifetime. Qed.
Print Assumptions token_window_lifetime.

(* announce_then_get as stated by the property (network byte order) is false of the code *)
Theorem announce_then_get_refuted :
  exists (sha : list N -> list N) s ih ip port tok ip2 rnd,
    (forall x, length (sha x) = 20%nat) /\ err s = false /\ token_valid sha s tok ip = true /\ port16 port <> 0 /\
    let s1 := fst (step sha s (OAnnounce ih ip port tok)) in
    exists t vals, snd (step sha s1 (OGetPeers ih ip2 rnd)) = Rpeers t vals /\
      ~ In (ipbytes ip ++ [(port / 256) mod 256; port mod 256]) vals /\
      vals = [ipbytes ip ++ [port mod 256; (port / 256) mod 256]].
Proof. exact ProofsTokens.announce_then_get_refuted. Qed.
Print Assumptions announce_then_get_refuted.

(* what does hold: the announced peer is returned, with the port field in HOST byte order *)
Theorem announce_then_get_hostorder : forall sha s ih ip port tok ip2 rnd,
  err s = false -> token_valid sha s tok ip = true -> port16 port <> 0 ->
  let s1 := fst (step sha s (OAnnounce ih ip port tok)) in
  (forall l, get_tracker ih (trackers s1) = Some l -> lenN l <= Params.dht_tracker_max_peers) ->
  exists t vals, snd (step sha s1 (OGetPeers ih ip2 rnd)) = Rpeers t vals /\
                 In (ipbytes ip ++ [port16 port mod 256; (port16 port / 256) mod 256]) vals.
Proof. exact ProofsTokens.announce_then_get_hostorder. Qed.
Print Assumptions announce_then_get_hostorder.

(* "counters = counts" (DESIGN.md) is false for the bad counter: witness op list after which a bucket
   has m_bad = 1 and no bad node (m_good stays exact in the witness) *)
Theorem counters_exact_refuted :
  exists sha ops, let s := run sha (init (2 ^ 159 + 1) 1 2 34560000) ops in
    err s = false /\
    exists b, In b (tb (tab s)) /\ bbad b = 1 /\ count is_bad (bnodes b) = 0 /\ bgood b = count is_good (bnodes b).
Proof. exact ProofsCounters.counters_exact_refuted. Qed.
Print Assumptions counters_exact_refuted.
