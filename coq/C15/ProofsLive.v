(* C15 — reply_nodes_live: on a tree with /repo 5bd3da4 (chain_inval = true) every entry of every
   bucket's reply cache, at every moment, is the (id, ip, port) of a node that is in the routing
   table and not bad; hence find_node / get_peers replies list only live nodes. *)
From Coq Require Import List NArith ZArith Bool Lia Permutation.
From LTV.C15 Require Import ParamsGen.
From LTV.C15 Require Import Model ProofsMid ProofsTableA ProofsTableB ProofsTableC ProofsReply ProofsOwn.
Import ListNotations.
Local Open Scope N_scope.

Definition triple (n : node) : centry := (nid n, nip n, nport n).
Definition anodes (bs : list bucket) : list node := flat_map bnodes bs.
Definition lv (bs : list bucket) (e : centry) : Prop := exists n, In n (anodes bs) /\ is_bad n = false /\ e = triple n.
Definition cache_live (bs : list bucket) : Prop := forall b e, In b bs -> In e (bcache b) -> lv bs e.

Lemma in_anodes : forall bs n, In n (anodes bs) <-> exists b, In b bs /\ In n (bnodes b).
Proof. intros. unfold anodes. rewrite in_flat_map. reflexivity. Qed.

(* generic transfer: live entries stay live, and every cache is either justified afresh or inherited *)
Lemma cache_live_transfer : forall bs bs',
  cache_live bs -> (forall e, lv bs e -> lv bs' e) ->
  (forall b', In b' bs' -> (forall e, In e (bcache b') -> lv bs' e) \/ exists b, In b bs /\ bcache b' = bcache b) ->
  cache_live bs'.
Proof.
  intros bs bs' C M F b' e Ib Ie. destruct (F b' Ib) as [H|[b [I E]]]; [apply H; assumption|].
  apply M. apply (C b e I). rewrite <- E. assumption.
Qed.

Lemma cache_live_inval : forall bs, chain_inval = true -> cache_live (inval_tb bs).
Proof.
  intros bs H b e Ib Ie. rewrite (inval_all_empty bs b H Ib) in Ie. destruct Ie.
Qed.

(* ---------------------------------------------------------------- uniqueness: a node is found by its id *)
Lemma nodup_same : forall (l : list node) a b, NoDup (map nid l) -> In a l -> In b l -> nid a = nid b -> a = b.
Proof.
  induction l as [|x r IH]; intros a b N Ia Ib E; [destruct Ia|]. simpl in N. inversion N as [|? ? Nx Nr]; subst.
  destruct Ia as [<-|Ia]; destruct Ib as [<-|Ib]; try reflexivity.
  - exfalso. apply Nx. rewrite E. apply in_map. assumption.
  - exfalso. apply Nx. rewrite <- E. apply in_map. assumption.
  - apply IH; assumption.
Qed.

Lemma find_in_nodes_unique : forall l m, NoDup (map nid l) -> In m l -> find_in_nodes (nid m) l = Some m.
Proof.
  induction l as [|x r IH]; intros m N I; [destruct I|]. simpl. inversion N as [|? ? Nx Nr]; subst.
  destruct (nid x =? nid m) eqn:E.
  - apply N.eqb_eq in E. f_equal. apply (nodup_same (x :: r)); [assumption|left; reflexivity|assumption|assumption].
  - destruct I as [->|I]; [rewrite N.eqb_refl in E; discriminate|]. apply IH; assumption.
Qed.

Lemma lookup_unique : forall bs b m, NoDup (all_ids bs) -> In b bs -> In m (bnodes b) -> lookup (nid m) bs = Some (bhi b, m).
Proof.
  induction bs as [|b0 r IH]; intros b m N Ib Im; [destruct Ib|]. simpl in *.
  unfold all_ids in N. simpl in N. fold (all_ids r) in N.
  assert (N0 : NoDup (ids_of b0)) by (eapply nodup_app_left; eauto).
  assert (Nr : NoDup (all_ids r)) by (eapply nodup_app_right; eauto).
  destruct Ib as [->|Ib].
  - rewrite (find_in_nodes_unique _ _ N0 Im). reflexivity.
  - destruct (find_in_nodes (nid m) (bnodes b0)) as [x|] eqn:F.
    + exfalso. destruct (find_in_nodes_some _ _ _ F) as [Ix Ex].
      assert (A : In (nid m) (ids_of b0)) by (rewrite <- Ex; apply in_map; assumption).
      assert (B : In (nid m) (all_ids r)) by (unfold all_ids; apply in_flat_map; exists b; split; [assumption|apply in_map; assumption]).
      clear - N A B. induction (ids_of b0) as [|y l IHl]; [destruct A|]. simpl in N. inversion N; subst.
      destruct A as [->|A]; [apply H1; apply in_or_app; right; assumption|apply IHl; assumption].
    + apply IH; assumption.
Qed.

(* ---------------------------------------------------------------- in-place updates *)
Lemma upd_node_lv : forall id g l n,
  (forall m, In m l -> nid m = id -> triple (g m) = triple m /\ (is_bad m = false -> is_bad (g m) = false)) ->
  In n l -> is_bad n = false ->
  exists n', In n' (upd_node id g l) /\ is_bad n' = false /\ triple n' = triple n.
Proof.
  induction l as [|x r IH]; intros n G I B; [destruct I|]. simpl.
  destruct (nid x =? id) eqn:E.
  - destruct I as [->|I].
    + exists (g n). apply N.eqb_eq in E. destruct (G n (or_introl eq_refl) E) as [T NB].
      split; [left; reflexivity|split; [apply NB; assumption|assumption]].
    + exists n. split; [right; assumption|split; [assumption|reflexivity]].
  - destruct I as [->|I].
    + exists n. split; [left; reflexivity|split; [assumption|reflexivity]].
    + assert (G' : forall m, In m r -> nid m = id -> triple (g m) = triple m /\ (is_bad m = false -> is_bad (g m) = false))
        by (intros m Hm; apply G; right; assumption).
      destruct (IH n G' I B) as [n' [I' [B' T']]]. exists n'. split; [right; assumption|split; assumption].
Qed.

(* bucket functions applied to the buckets with key k: every non-bad node keeps a non-bad
   representative with the same (id, ip, port) *)
Definition ngentle_on (bs : list bucket) (k : N) (f : bucket -> bucket) : Prop :=
  forall b, In b bs -> bhi b = k ->
            forall n, In n (bnodes b) -> is_bad n = false -> exists n', In n' (bnodes (f b)) /\ is_bad n' = false /\ triple n' = triple n.

Lemma map_bucket_lv : forall k f bs e, ngentle_on bs k f -> lv bs e -> lv (map_bucket k f bs) e.
Proof.
  intros k f bs e G [n [I [B E]]]. apply in_anodes in I. destruct I as [b [Ib In_]].
  destruct (bhi b =? k) eqn:Q.
  - apply N.eqb_eq in Q. destruct (G b Ib Q n In_ B) as [n' [I' [B' T']]].
    exists n'. split; [|split; [assumption|congruence]].
    apply in_anodes. exists (f b). split; [|assumption]. unfold map_bucket. apply in_map_iff. exists b.
    rewrite Q, N.eqb_refl. split; [reflexivity|assumption].
  - exists n. split; [|split; assumption]. apply in_anodes. exists b. split; [|assumption].
    unfold map_bucket. apply in_map_iff. exists b. rewrite Q. split; [reflexivity|assumption].
Qed.

(* ... and the cache of a touched bucket is kept, emptied, or filled with live entries *)
Lemma cache_live_map_bucket : forall k f bs, ngentle_on bs k f ->
  (forall b, In b bs -> bhi b = k -> bcache (f b) = bcache b \/ (forall e, In e (bcache (f b)) -> lv (map_bucket k f bs) e)) ->
  cache_live bs -> cache_live (map_bucket k f bs).
Proof.
  intros k f bs G Cf C. apply (cache_live_transfer bs); [assumption|intros; apply map_bucket_lv; assumption|].
  intros b' Ib. unfold map_bucket in Ib. apply in_map_iff in Ib. destruct Ib as [b [E I]]. subst b'.
  destruct (bhi b =? k) eqn:Q; [|right; exists b; split; [assumption|reflexivity]].
  apply N.eqb_eq in Q. destruct (Cf b I Q) as [H|H]; [right; exists b; split; assumption|left; assumption].
Qed.

Lemma keep_nodes : forall (b : bucket) n, In n (bnodes b) -> is_bad n = false ->
  exists n', In n' (bnodes b) /\ is_bad n' = false /\ triple n' = triple n.
Proof. intros b n I B. exists n. repeat split; assumption. Qed.

Lemma set_good_nodes : forall t n0 b n, In n (bnodes b) -> is_bad n = false ->
  exists n', In n' (bnodes (b_set_good t n0 b)) /\ is_bad n' = false /\ triple n' = triple n.
Proof.
  intros t n0 b n I B. unfold b_set_good. destruct (is_good n0); simpl; apply upd_node_lv; try assumption;
    (intros m _ _; split; [reflexivity|intros _; reflexivity]).
Qed.


(* ---------------------------------------------------------------- closest_nodes *)
Lemma closest_live : forall t id, cache_live (tb t) -> cache_live (tb (fst (closest_nodes t id))).
Proof.
  intros t id C. unfold closest_nodes. destruct (find_bucket id (tb t)) as [b|]; [|exact C].
  destruct (bcache b) eqn:Cb; [|exact C]. simpl.
  apply cache_live_map_bucket; [intros x _ _ n In_ Bn; exists n; repeat split; assumption| |assumption].
  intros x Ix Kx. right. simpl. intros e Ie.
  apply map_bucket_lv; [intros y _ _ n In_ Bn; exists n; repeat split; assumption|].
  destruct (build_full_entries _ _ _ Ie) as [b' [n [Ib' [In_ [Bn En]]]]].
  exists n. split; [apply in_anodes; exists b'; split; assumption|split; assumption].
Qed.

Lemma node_queried_live : forall s id ip, cache_live (tb (tab s)) -> cache_live (tb (tab (fst (node_queried s id ip)))).
Proof.
  intros s id ip C. unfold node_queried. destruct (lookup id (tb (tab s))) as [[k n]|]; [|exact C].
  destruct (negb (nip n =? ip)); [exact C|]. simpl.
  apply cache_live_map_bucket; [| |assumption].
  - intros b _ _ m Im Bm. destruct (nseen n =? 0).
    + destruct (is_good n); exists m; repeat split; assumption.
    + simpl. apply set_good_nodes; assumption.
  - intros b _ _. left. destruct (nseen n =? 0); [destruct (is_good n); reflexivity|].
    unfold b_set_good. destruct (is_good n); reflexivity.
Qed.

Section Live.
Variable sha : list N -> list N.
Hypothesis CI : chain_inval = true.

Lemma query_body_live : forall s ip rnd q m, cache_live (tb (tab s)) -> cache_live (tb (tab (fst (query_body sha s ip rnd q m)))).
Proof.
  intros s ip rnd q m C. unfold query_body.
  destruct (bytes_eqb q s_find_node).
  { destruct (m_target m) as [tg|]; [|exact C]. destruct (lenN tg <? hs_len); [exact C|].
    pose proof (closest_live (tab s) (be_to_N (firstn idbytes tg)) C) as H.
    destruct (closest_nodes _ _) as [t' [|c l']]; exact H. }
  destruct (bytes_eqb q s_get_peers).
  { destruct (m_ih m) as [h|]; [|exact C]. destruct (lenN h <? hs_len); [exact C|].
    pose proof (closest_live (tab s) (be_to_N (firstn idbytes h)) C) as H.
    destruct (get_tracker _ _) as [[|p l0]|]; try exact C; destruct (closest_nodes _ _) as [t' [|c l']]; exact H. }
  destruct (bytes_eqb q s_announce_peer).
  { destruct (m_ih m) as [h|]; [|exact C]. destruct (lenN h <? hs_len); [exact C|].
    destruct (m_token m) as [tk|]; [|exact C]. destruct (negb _); [exact C|]. destruct (m_port m) as [z| |]; try exact C.
    destruct (_ || _); exact C. }
  destruct (bytes_eqb q s_ping); exact C.
Qed.

Lemma dgram_live : forall s ip rnd m, cache_live (tb (tab s)) -> cache_live (tb (tab (fst (dgram sha s ip rnd m)))).
Proof.
  intros s ip rnd m C. unfold dgram.
  destruct (m_t m) as [t|]; [|exact C]. destruct (20 <? lenN t); [exact C|].
  destruct (m_y m) as [[|ty [|? ?]]|]; try exact C.
  destruct (ty =? 113); [|exact C]. destruct (m_id m) as [idb|]; [|exact C].
  destruct (lenN idb <? hs_len); [exact C|].
  generalize (be_to_N (firstn idbytes idb)). intro nid0. destruct (nid0 =? own s); [exact C|].
  destruct (m_q m) as [q|]; [|exact C].
  pose proof (query_body_live s ip rnd q m C) as H.
  destruct (query_body sha s ip rnd q m) as [s1 [e|[[tok nodes] vals]]]; cbn [fst snd] in *; [exact H|].
  apply node_queried_live. exact H.
Qed.

(* ---------------------------------------------------------------- add_node_to_bucket *)
Lemma anodes_split : forall ownid ndid b t t' k' bad, tinv (tb t) -> In b (tb t) ->
  split_bucket ownid ndid b t = (t', k', bad) ->
  (forall n, In n (anodes (tb t')) <-> In n (anodes (tb t))) /\
  (forall x, In x (tb t') -> bcache x = [] \/ exists y, In y (tb t) /\ bcache x = bcache y).
Proof.
  intros ownid ndid b t t' k' bad T Ib S. unfold split_bucket in S.
  destruct (hoare_partition _ _ (bnodes b)) as [keep moved] eqn:HP.
  destruct (hoare_partition_spec _ _ _ _ _ (PeanoNat.Nat.lt_succ_diag_r _) HP) as [PM _].
  inversion S; subst t' k' bad. clear S. simpl.
  set (mid := mid_point (blo b) (bhi b)) in *.
  set (other := mkBucket (blo b) mid moved (bchanged b) (count is_good moved) (count is_bad moved) []).
  set (this := mkBucket ((mid + 1) mod idspace) (bhi b) keep (bchanged b) (count is_good keep) (count is_bad keep) (bcache b)).
  assert (UQ : forall y, In y (tb t) -> bhi y = bhi b -> y = b).
  { intros y Iy E. destruct T as [C F]. eapply tinv_keys_unique; eauto. }
  split.
  - intros n. rewrite !in_anodes. split.
    + intros [x [Ix In_]]. apply in_insert_bucket in Ix. destruct Ix as [->|Ix].
      * exists b. split; [assumption|]. eapply Permutation_in; [apply Permutation_sym; exact PM|]. apply in_or_app. right. exact In_.
      * unfold map_bucket in Ix. apply in_map_iff in Ix. destruct Ix as [y [E Iy]].
        destruct (bhi y =? bhi b) eqn:Q.
        -- subst x. exists b. split; [assumption|]. eapply Permutation_in; [apply Permutation_sym; exact PM|]. apply in_or_app. left. exact In_.
        -- subst x. exists y. split; assumption.
    + intros [y [Iy In_]]. destruct (N.eq_dec (bhi y) (bhi b)) as [E|Ne].
      * rewrite (UQ y Iy E) in In_. apply (Permutation_in _ PM) in In_. apply in_app_or in In_. destruct In_ as [K|M].
        -- exists this. split; [|exact K]. apply in_insert_bucket. right. unfold map_bucket. apply in_map_iff. exists b. rewrite N.eqb_refl. split; [reflexivity|assumption].
        -- exists other. split; [|exact M]. apply in_insert_bucket. left. reflexivity.
      * exists y. split; [|assumption]. apply in_insert_bucket. right. unfold map_bucket. apply in_map_iff. exists y.
        apply N.eqb_neq in Ne. rewrite Ne. split; [reflexivity|assumption].
  - intros x Ix. apply in_insert_bucket in Ix. destruct Ix as [->|Ix]; [left; reflexivity|].
    unfold map_bucket in Ix. apply in_map_iff in Ix. destruct Ix as [y [E Iy]]. right.
    destruct (bhi y =? bhi b); subst x; [exists b; split; [assumption|reflexivity]|exists y; split; [assumption|reflexivity]].
Qed.

Lemma lv_anodes : forall bs bs' e, (forall n, In n (anodes bs) -> is_bad n = false -> In n (anodes bs')) -> lv bs e -> lv bs' e.
Proof. intros bs bs' e H [n [I [B E]]]. exists n. split; [apply H; assumption|split; assumption]. Qed.

Lemma add_loop_live : forall fuel ownid tm nd k t,
  tinv (tb t) -> cache_live (tb t) -> at_bucket (tb t) k (nid nd) ->
  match add_loop fuel ownid tm nd k t with
  | LDone t' _ => cache_live (tb t')
  | LErr t' => cache_live (tb t')
  | LFuel => True
  end.
Proof.
  induction fuel as [|fu IH]; intros ownid tm nd k t T C [b [G [A1 [A2 A3]]]]; [exact I|].
  cbn [add_loop]. rewrite G.
  destruct (get_bucket_in _ _ _ G) as [Ib Hb].
  pose proof (tinv_bucket _ _ _ T G) as OKb.
  destruct (is_full b) eqn:Fu; simpl.
  2:{ apply (cache_live_transfer (tb t)); [assumption| |].
      - intros e. apply map_bucket_lv. intros x _ _ n In_ Bn. exists n. split; [|split; [assumption|reflexivity]].
        unfold b_add. simpl. apply in_or_app. left. assumption.
      - intros b' Ib'. unfold map_bucket in Ib'. apply in_map_iff in Ib'. destruct Ib' as [y [E Iy]]. subst b'.
        destruct (bhi y =? k); [left; simpl; intros e []|right; exists y; split; [assumption|reflexivity]]. }
  destruct (find_cand (bnodes b)) as [c|] eqn:FC; [|exact C].
  destruct (is_bad c) eqn:Bc.
  - apply IH.
    + simpl. apply tinv_map_bucket; [intros; split; reflexivity|apply ok_remove|assumption].
    + simpl. apply (cache_live_transfer (tb t)); [assumption| |].
      * intros e [n [In_ [Bn En]]]. apply in_anodes in In_. destruct In_ as [y [Iy Iny]].
        exists n. split; [|split; assumption]. apply in_anodes.
        exists (if bhi y =? k then b_remove c y else y). split.
        -- unfold map_bucket. apply in_map_iff. exists y. split; [reflexivity|assumption].
        -- destruct (bhi y =? k); [|assumption]. unfold b_remove. simpl.
           assert (Nq : nid n <> nid c).
           { intro E. destruct T as [Ct Ft]. pose proof (tinv_unique _ 0 Ct Ft) as U.
             pose proof (lookup_unique _ _ _ U Iy Iny) as L1.
             pose proof (lookup_unique _ _ _ U Ib (find_cand_in _ _ FC)) as L2.
             rewrite E in L1. rewrite L1 in L2. inversion L2; subst. congruence. }
           clear - Iny Nq. induction (bnodes y) as [|x r IHr]; [destruct Iny|]. simpl.
           destruct (nid x =? nid c) eqn:Q.
           ++ destruct Iny as [->|Iny]; [apply N.eqb_eq in Q; contradiction|assumption].
           ++ destruct Iny as [->|Iny]; [left; reflexivity|right; apply IHr; assumption].
      * intros b' Ib'. unfold map_bucket in Ib'. apply in_map_iff in Ib'. destruct Ib' as [y [E Iy]]. subst b'.
        destruct (bhi y =? k); [left; simpl; intros e []|right; exists y; split; [assumption|reflexivity]].
    + exists (b_remove c b). split; [apply get_map_bucket; [assumption|reflexivity]|].
      simpl. repeat split; try assumption. unfold ids_of. simpl. intro X. apply A3. eapply remove_id_in; eauto.
  - destruct (negb (k =? town t)); [exact C|].
    destruct (split_bucket ownid (nid nd) b t) as [[t' k'] bad] eqn:S.
    destruct OKb as [[kk [Kk P]] OKr].
    destruct (split_tinv _ _ _ _ _ _ _ _ _ T G Fu P Kk A1 A2 S) as [T' [h [Gh [HO [B1 [B2 [_ Sub]]]]]]].
    destruct (anodes_split _ _ _ _ _ _ _ T Ib S) as [AN CA].
    assert (C' : cache_live (tb t')).
    { apply (cache_live_transfer (tb t)); [assumption| |].
      - intros e. apply lv_anodes. intros n In_ _. apply AN. assumption.
      - intros x Ix. destruct (CA x Ix) as [E|[y [Iy E]]]; [left; rewrite E; intros e []|right; exists y; split; assumption]. }
    destruct bad; [exact C'|].
    apply IH; [assumption|assumption|]. exists h. repeat split; try assumption. intro X. apply A3. apply Sub. assumption.
Qed.

(* ---------------------------------------------------------------- every op *)
Lemma all_empty_live : forall bs, (forall b, In b bs -> bcache b = []) -> cache_live bs.
Proof. intros bs H b e Ib Ie. rewrite (H b Ib) in Ie. destruct Ie. Qed.

Lemma lookup_id : forall id bs k n, lookup id bs = Some (k, n) -> nid n = id.
Proof.
  induction bs as [|b0 r IHr]; simpl; intros k n H; [discriminate|].
  destruct (find_in_nodes id (bnodes b0)) eqn:F; [inversion H; subst; apply (find_in_nodes_some _ _ _ F)|eapply IHr; eauto].
Qed.

Lemma step_live : forall s o, sinv s -> cache_live (tb (tab s)) -> cache_live (tb (tab (fst (step sha s o)))).
Proof.
  intros s o T C. unfold sinv in T. unfold step. destruct (err s); [exact C|].
  destruct o as [ip rnd m|ip|dt|id ip port|id ip port|id ip port|id|secret|ip|tok ip|ih ip port tok|ih ip rnd|target|id|];
    simpl; try exact C.
  - pose proof (dgram_live s ip rnd m C) as H.
    destruct (m_y m) as [[|ty [|? ?]]|]; try (destruct (dgram sha s ip rnd m); exact H).
    destruct ((ty =? 114) || (ty =? 101)); [exact C|]. destruct (dgram sha s ip rnd m); exact H.
  - destruct (id =? own s); [exact C|]. rewrite (surjective_pairing (node_queried s id ip)). simpl.
    apply node_queried_live. exact C.
  - destruct (id =? own s); [exact C|]. unfold node_replied.
    assert (SG : forall bs k n, cache_live bs -> cache_live (map_bucket k (fun b => touch (now s) (b_set_good (now s) n b)) bs)).
    { intros bs k n Cb. apply cache_live_map_bucket; [| |assumption].
      - intros b _ _ m Im Bm. simpl. apply set_good_nodes; assumption.
      - intros b _ _. left. unfold b_set_good. destruct (is_good n); reflexivity. }
    destruct (lookup id (tb (tab s))) as [[k n]|] eqn:LK.
    + destruct (negb (nip n =? ip)); [exact C|]. simpl. apply SG. exact C.
    + destruct (negb (want_node s id)); [exact C|].
      set (nd := mkNode id ip port 0 false 0).
      unfold add_node_to_bucket.
      destruct (find_bucket (nid nd) (tb (tab s))) as [b|] eqn:FB; [|exact C].
      destruct T as [Ct Ft].
      destruct (find_bucket_covers _ _ _ _ Ct Ft (N.le_0_l _) FB) as [G [A1 A2]].
      destruct (get_bucket_in _ _ _ G) as [Ib _].
      assert (AT : at_bucket (tb (tab s)) (bhi b) (nid nd)).
      { exists b. repeat split; try assumption. eapply lookup_none; eauto. }
      pose proof (add_loop_live add_fuel (own s) (now s) nd (bhi b) (tab s) (conj Ct Ft) C AT) as HL.
      destruct (add_loop add_fuel (own s) (now s) nd (bhi b) (tab s)) as [t0 [|]|t0|]; simpl; try exact HL; try exact C.
      assert (H1 : cache_live (tb (if nodes_count t0 =? nodes_count (tab s) then inval_tab t0 else t0)))
        by (destruct (nodes_count t0 =? nodes_count (tab s)); [apply all_empty_live; intros x Ix; simpl in Ix; apply (inval_all_empty (tb t0) x CI Ix)|assumption]).
      generalize dependent (if nodes_count t0 =? nodes_count (tab s) then inval_tab t0 else t0). intros t1 H1.
      destruct (lookup id (tb t1)) as [[k n]|]; simpl; [apply SG|]; exact H1.
  - destruct (id =? own s); [exact C|]. unfold node_inactive.
    destruct (lookup id (tb (tab s))) as [[k n]|] eqn:LK; [|exact C]. destruct (negb (nip n =? ip)); [exact C|].
    assert (C1 : cache_live (if (ninact n + 1 =? max_failed) && negb (is_bad n) then inval_tb (map_bucket k (b_inactive n) (tb (tab s)))
                             else map_bucket k (b_inactive n) (tb (tab s)))).
    { destruct ((ninact n + 1 =? max_failed) && negb (is_bad n)) eqn:TB;
        [apply all_empty_live; intros x Ix; eapply inval_all_empty; eauto|].
      apply cache_live_map_bucket; [| |assumption].
      - intros b Ib Kb m Im Bm. unfold b_inactive.
        destruct (ninact n + 1 =? max_failed) eqn:Q.
        + apply andb_false_iff in TB. destruct TB as [TB|TB]; [discriminate|]. apply negb_false_iff in TB.
          exfalso. unfold is_bad in TB. apply N.leb_le in TB. apply N.eqb_eq in Q. lia.
        + simpl. apply upd_node_lv; try assumption. intros x Ix Ex. split; [reflexivity|].
          intros Bx. unfold is_bad, node_inc_inactive in *. simpl.
          assert (x = n).
          { destruct T as [Ct Ft]. pose proof (tinv_unique _ 0 Ct Ft) as U.
            pose proof (lookup_unique _ _ _ U Ib Ix) as L1. rewrite Ex in L1.
            rewrite (lookup_id _ _ _ _ LK), LK in L1. inversion L1. reflexivity. }
          subst x. apply N.leb_gt in Bx. apply N.leb_gt. apply N.eqb_neq in Q. lia.
      - intros b _ _. left. unfold b_inactive. destruct (ninact n + 1 =? max_failed); [destruct (is_bad n)|]; reflexivity. }
    generalize dependent (if (ninact n + 1 =? max_failed) && negb (is_bad n) then inval_tb (map_bucket k (b_inactive n) (tb (tab s)))
                          else map_bucket k (b_inactive n) (tb (tab s))). intros bs1 C1.
    destruct (lookup id bs1) as [[k' n1]|]; [|exact C].
    destruct (is_bad n1 && _); simpl; [|exact C1].
    apply all_empty_live. intros x Ix. apply (inval_all_empty _ x CI Ix).
  - unfold node_invalid. destruct (lookup id (tb (tab s))) as [[k n]|]; [|exact C]. simpl.
    apply all_empty_live. intros x Ix. apply (inval_all_empty _ x CI Ix).
  - apply all_empty_live. intros x Ix. apply in_map_iff in Ix. destruct Ix as [y [E _]]. subst x. reflexivity.
  - destruct (token_valid sha s tok ip); [destruct ((port <? 1) || (65535 <? port))|]; exact C.
  - pose proof (closest_live (tab s) ih C) as H.
    destruct (get_tracker ih (trackers s)) as [[|p l]|]; try exact C; (destruct (closest_nodes (tab s) ih) as [t' [|c l']]; exact H).
  - pose proof (closest_live (tab s) target C) as H. destruct (closest_nodes (tab s) target) as [t' [|c l']]; exact H.
Qed.

Theorem run_live : forall ops s, sinv s -> cache_live (tb (tab s)) -> cache_live (tb (tab (run sha s ops))).
Proof.
  induction ops as [|o r IH]; simpl; intros s T C; [exact C|]. apply IH; [apply step_sinv; assumption|apply step_live; assumption].
Qed.

(* reply_nodes_live: for every op list from the initial state, whatever closest_nodes returns (the
   `nodes` of find_node and get_peers replies) consists of nodes of the table that are not bad *)
Theorem reply_nodes_live : forall ownid c p t0 ops id e,
  let t := tab (run sha (init ownid c p t0) ops) in
  In e (snd (closest_nodes t id)) ->
  exists b n, In b (tb t) /\ In n (bnodes b) /\ is_bad n = false /\ e = (nid n, nip n, nport n).
Proof.
  intros ownid c p t0 ops id e t I.
  assert (C : cache_live (tb t)).
  { apply run_live; [apply init_sinv|]. intros b e0 Ib Ie. simpl in Ib. destruct Ib as [<-|[]]. destruct Ie. }
  unfold closest_nodes in I. destruct (find_bucket id (tb t)) as [b|] eqn:F; [|destruct I].
  destruct (bcache b) eqn:Cb.
  - simpl in I. apply (build_full_entries _ _ _ I).
  - cbn [snd] in I. assert (Ib : In b (tb t)).
    { clear - F. revert F. induction (tb t) as [|b0 r IHr]; simpl; [discriminate|].
      destruct (id <=? bhi b0); intros H; [inversion H; left; reflexivity|right; apply IHr; assumption]. }
    rewrite <- Cb in I. destruct (C b e Ib I) as [n [In_ [Bn En]]]. apply in_anodes in In_. destruct In_ as [b' [Ib' Inb]].
    exists b', n. repeat split; assumption.
Qed.

End Live.
