(* C15 — the stored good/bad counters of a bucket.  DESIGN.md asked for "counters = counts"; the
   m_bad half is false of the code: housekeeping (DhtNode::update) can make a bad node good again
   without clearing its failure count; when that node then replies, set_good() skips the counter
   update because the node already is good, and m_bad stays one too high until the next recount. *)
From Coq Require Import List NArith Bool.
From LTV.C15 Require Import Model.
Import ListNotations.
Local Open Scope N_scope.

Definition cw_sha (x : list N) : list N := repeat 0 20.
Definition cw_id : N := 17 * 2 ^ 152 + 1.
Definition cw_ip : N := 167772161.
Definition cw_ops : list op :=
  [OReplied cw_id cw_ip 1; OInactive cw_id cw_ip 1; OInactive cw_id cw_ip 1; OInactive cw_id cw_ip 1;
   OInactive cw_id cw_ip 1; OInactive cw_id cw_ip 1; OHousekeeping 3; OReplied cw_id cw_ip 1].

Lemma counters_exact_refuted :
  exists sha ops, let s := run sha (init (2 ^ 159 + 1) 1 2 34560000) ops in
    err s = false /\
    exists b, In b (tb (tab s)) /\ bbad b = 1 /\ count is_bad (bnodes b) = 0 /\ bgood b = count is_good (bnodes b).
Proof.
  exists cw_sha, cw_ops. cbv zeta. split; [vm_compute; reflexivity|].
  eexists. split; [vm_compute; left; reflexivity|]. vm_compute. repeat split; reflexivity.
Qed.
