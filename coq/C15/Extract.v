From Coq Require Import Extraction ExtrOcamlBasic NArith ZArith.
From LTV.C15 Require Import Model ModelSearch.
Set Extraction Optimize.
Extraction Language OCaml.
(* Z.of_N is extracted only because ocaml/conv.ml mentions the type z *)
Extraction "extracted/c15_model.ml" init step run idspace Z.of_N sinit sstep srun search_init search_step search_complete.
