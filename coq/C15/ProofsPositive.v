(* C15 — what DOES hold about the two quirks that refute "counters = counts" and "returned nodes are
   live": the counters are exact right after every housekeeping pass, and the node list a reply
   carries is exactly what was non-bad when the bucket's cache was last rebuilt. *)
From Coq Require Import List NArith Bool Lia.
From LTV.C15 Require Import ParamsGen.
From LTV.C15 Require Import Model ProofsReply.
Import ListNotations.
Local Open Scope N_scope.

Section Positive.
Variable sha : list N -> list N.

(* DhtRouter::receive_timeout recounts: afterwards m_good / m_bad of every bucket are the numbers of
   good / bad nodes, and every node cache is empty *)
Lemma counters_exact_after_housekeeping : forall s secret b, err s = false ->
  In b (tb (tab (fst (step sha s (OHousekeeping secret))))) ->
  bgood b = count is_good (bnodes b) /\ bbad b = count is_bad (bnodes b) /\ bcache b = [].
Proof.
  intros s secret b He I. unfold step in I. rewrite He in I. simpl in I.
  apply in_map_iff in I. destruct I as [b0 [E _]]. subst b. simpl. repeat split.
Qed.

(* a reply's node list when the cache is filled: the cache, verbatim, and nothing changes *)
Lemma closest_cached : forall t id b e c, find_bucket id (tb t) = Some b -> bcache b = e :: c ->
  closest_nodes t id = (t, e :: c).
Proof. intros t id b e c F C. unfold closest_nodes. rewrite F, C. reflexivity. Qed.

Lemma get_bucket_map_same : forall k f bs b, get_bucket k bs = Some b -> bhi (f b) = bhi b ->
  get_bucket k (map_bucket k f bs) = Some (f b).
Proof.
  induction bs as [|b0 r IH]; simpl; intros b G H; [discriminate|].
  destruct (bhi b0 =? k) eqn:E.
  - inversion G; subst b0. simpl. rewrite H, E. reflexivity.
  - simpl. rewrite E. apply IH; assumption.
Qed.

(* a rebuild (cache empty) stores exactly the list it returns, which consists of nodes of the table
   that are not bad at that moment (closest_fresh_live) *)
Lemma closest_rebuild_stores : forall t id b, find_bucket id (tb t) = Some b -> bcache b = [] ->
  get_bucket (bhi b) (tb t) = Some b ->
  exists b', get_bucket (bhi b) (tb (fst (closest_nodes t id))) = Some b' /\
             bcache b' = snd (closest_nodes t id) /\ bnodes b' = bnodes b.
Proof.
  intros t id b F C G. unfold closest_nodes. rewrite F, C. simpl.
  exists (set_cache b (build_full (bhi b) t)). split; [|split; reflexivity].
  apply (get_bucket_map_same (bhi b) (fun b0 => set_cache b0 (build_full (bhi b) t)) (tb t) b G). reflexivity.
Qed.

End Positive.
