(* C15 — executable model of the DHT routing table, node status, announce tokens and the
   per-torrent peer store of rakshasa/libtorrent:
     src/dht/dht_router.cc   node_queried / node_replied / node_inactive / node_invalid, want_node,
                             find_bucket, add_node_to_bucket, split_bucket, delete_node,
                             receive_timeout (housekeeping + token rotation), generate_token, token_valid
     src/dht/dht_bucket.cc   add_node, remove_node, count, update, find_replacement_candidate,
                             get_mid_point, split (incl. libstdc++ std::partition), build_full_cache
     src/dht/dht_node.h      set_good, set_bad, inactive, update, queried, replied
     src/dht/dht_tracker.cc  add_peer, get_peers, prune
     src/dht/dht_server.cc   create_find_node_response, create_get_peers_response,
                             create_announce_peer_response (bodies only)
   Definitions only (proofs are in Proofs*.v).  Ids are N < 2^160, an IPv4 address is the number
   a*2^24+b*2^16+c*2^8+d, time is in seconds.  SHA-1 is a Section variable. *)
From Coq Require Import List NArith ZArith Bool.
From LTV.C15 Require Import ParamsGen.
Import ListNotations.
Local Open Scope N_scope.

(* ---------------------------------------------------------------- constants *)
Definition idbits : N := 8 * Params.dht_hash_string_size.        (* 160 *)
Definition idbytes : nat := N.to_nat Params.dht_hash_string_size. (* 20 *)
Definition idspace : N := 2 ^ idbits.
Definition u32 : N := 4294967296.
Definition K : N := Params.dht_bucket_num_nodes.
Definition max_failed : N := Params.dht_max_failed_replies.

Definition dec32 (x : N) : N := if x =? 0 then u32 - 1 else x - 1.   (* unsigned -- *)
Definition inc32 (x : N) : N := (x + 1) mod u32.                      (* unsigned ++ *)
Definition lenN {A} (l : list A) : N := N.of_nat (length l).

(* ---------------------------------------------------------------- data *)
Record node := mkNode { nid : N; nip : N; nport : N; nseen : N; nact : bool; ninact : N }.
(* compact node info: id, ip, port *)
Definition centry := (N * N * N)%type.
Record bucket := mkBucket { blo : N; bhi : N; bnodes : list node; bchanged : N;
                            bgood : N; bbad : N; bcache : list centry (* [] = not built *) }.
(* a stored peer: ip, the uint16 port FIELD as the code stores it, last seen *)
Record peer := mkPeer { pip : N; pport : N; pseen : N }.
Record table := mkTable { tb : list bucket;   (* std::map keyed by bhi, ascending *)
                          tchain : list N;    (* parent/child chain as bucket keys, root first *)
                          town : N }.         (* key of the bucket DhtRouter::bucket() points to *)
Record state := mkState { own : N; now : N; cur : N; prev : N; tab : table;
                          trackers : list (N * list peer);   (* unordered_map; printed sorted *)
                          err : bool }.                       (* an internal_error was thrown *)

Definition is_good (n : node) : bool := nact n.
Definition is_bad (n : node) : bool := max_failed <=? ninact n.
Definition in_range (b : bucket) (id : N) : bool := (blo b <=? id) && (id <=? bhi b).
Definition count (p : node -> bool) (l : list node) : N := lenN (filter p l).

Definition set_nodes (b : bucket) (l : list node) : bucket :=
  mkBucket (blo b) (bhi b) l (bchanged b) (bgood b) (bbad b) (bcache b).
Definition set_counts (b : bucket) (g bd : N) : bucket :=
  mkBucket (blo b) (bhi b) (bnodes b) (bchanged b) g bd (bcache b).
Definition set_cache (b : bucket) (c : list centry) : bucket :=
  mkBucket (blo b) (bhi b) (bnodes b) (bchanged b) (bgood b) (bbad b) c.
Definition touch (t : N) (b : bucket) : bucket :=
  mkBucket (blo b) (bhi b) (bnodes b) t (bgood b) (bbad b) (bcache b).

(* ---------------------------------------------------------------- lookups *)
Fixpoint find_in_nodes (id : N) (l : list node) : option node :=
  match l with
  | [] => None
  | n :: r => if nid n =? id then Some n else find_in_nodes id r
  end.

(* m_nodes.find(id): which bucket (key) holds the node, and the node *)
Fixpoint lookup (id : N) (bs : list bucket) : option (N * node) :=
  match bs with
  | [] => None
  | b :: r => match find_in_nodes id (bnodes b) with
              | Some n => Some (bhi b, n)
              | None => lookup id r
              end
  end.

(* m_routingTable.lower_bound(id) *)
Fixpoint find_bucket (id : N) (bs : list bucket) : option bucket :=
  match bs with
  | [] => None
  | b :: r => if id <=? bhi b then Some b else find_bucket id r
  end.

Fixpoint get_bucket (k : N) (bs : list bucket) : option bucket :=
  match bs with
  | [] => None
  | b :: r => if bhi b =? k then Some b else get_bucket k r
  end.

Definition map_bucket (k : N) (f : bucket -> bucket) (bs : list bucket) : list bucket :=
  map (fun b => if bhi b =? k then f b else b) bs.

Fixpoint upd_node (id : N) (f : node -> node) (l : list node) : list node :=
  match l with
  | [] => []
  | n :: r => if nid n =? id then f n :: r else n :: upd_node id f r
  end.

Fixpoint remove_id (id : N) (l : list node) : list node :=
  match l with
  | [] => []
  | n :: r => if nid n =? id then r else n :: remove_id id r
  end.

(* ---------------------------------------------------------------- DhtNode status (with its bucket's counters) *)
Definition age32 (t seen : N) : N := (t + u32 - seen) mod u32.   (* unsigned int age() *)

Definition node_set_good (t : N) (n : node) : node := mkNode (nid n) (nip n) (nport n) (t mod u32) true 0.
Definition node_set_bad (n : node) : node := mkNode (nid n) (nip n) (nport n) (nseen n) false max_failed.
Definition node_inc_inactive (n : node) : node := mkNode (nid n) (nip n) (nport n) (nseen n) (nact n) (ninact n + 1).
Definition node_update (t : N) (n : node) : node :=
  mkNode (nid n) (nip n) (nport n) (nseen n) (age32 t (nseen n) <? Params.dht_node_active_age) (ninact n).

(* DhtNode::set_good on node [n] living in bucket [b] *)
Definition b_set_good (t : N) (n : node) (b : bucket) : bucket :=
  let b1 := if is_good n then b
            else set_counts b (inc32 (bgood b)) (if is_bad n then dec32 (bbad b) else bbad b) in
  set_nodes b1 (upd_node (nid n) (node_set_good t) (bnodes b1)).

(* DhtNode::inactive *)
Definition b_inactive (n : node) (b : bucket) : bucket :=
  if ninact n + 1 =? max_failed then
    (* set_bad *)
    let b1 := if is_bad n then b
              else set_counts b (if is_good n then dec32 (bgood b) else bgood b) (inc32 (bbad b)) in
    set_nodes b1 (upd_node (nid n) node_set_bad (bnodes b1))
  else set_nodes b (upd_node (nid n) node_inc_inactive (bnodes b)).

(* DhtBucket::remove_node *)
Definition b_remove (n : node) (b : bucket) : bucket :=
  let g := if is_good n then dec32 (bgood b) else bgood b in
  let bd := if is_good n then bbad b else if is_bad n then dec32 (bbad b) else bbad b in
  mkBucket (blo b) (bhi b) (remove_id (nid n) (bnodes b)) (bchanged b) g bd [].

(* DhtBucket::add_node *)
Definition b_add (t : N) (n : node) (b : bucket) : bucket :=
  let g := if is_good n then inc32 (bgood b) else bgood b in
  let bd := if is_good n then bbad b else if is_bad n then inc32 (bbad b) else bbad b in
  mkBucket (blo b) (bhi b) (bnodes b ++ [n]) t g bd [].

(* DhtBucket::find_replacement_candidate(false) *)
Fixpoint find_cand_go (l : list node) (best : option node) (bt : N) : option node :=
  match l with
  | [] => best
  | n :: r => if is_bad n then Some n
              else if nseen n <? bt then find_cand_go r (Some n) (nseen n)
              else find_cand_go r best bt
  end.
Definition find_cand (l : list node) : option node := find_cand_go l None (u32 - 1).

Definition is_full (b : bucket) : bool := K <=? lenN (bnodes b).
Definition has_space (b : bucket) : bool := negb (is_full b) || (0 <? bbad b).

(* ---------------------------------------------------------------- DhtBucket::get_mid_point (byte-wise) *)
Definition byte_at (j : nat) (x : N) : N := (x / 256 ^ N.of_nat j) mod 256.

(* i = bytes still to inspect, most significant first *)
Fixpoint mid_go (i : nat) (lo hi : N) : N :=
  match i with
  | O => hi
  | S j => let bl := byte_at j lo in
           let bh := byte_at j hi in
           if bl =? bh then mid_go j lo hi
           else hi - bh * 256 ^ N.of_nat j + ((bl + bh) / 2) * 256 ^ N.of_nat j
  end.
Definition mid_point (lo hi : N) : N := mid_go idbytes lo hi.

(* ---------------------------------------------------------------- libstdc++ std::partition (bidirectional version) *)
Fixpoint span (p : node -> bool) (l : list node) : list node * list node :=
  match l with
  | [] => ([], [])
  | x :: r => if p x then let (a, b) := span p r in (x :: a, b) else ([], l)
  end.

(* (trues, falses) in the order the vector holds them afterwards *)
Fixpoint hoare_partition (fuel : nat) (p : node -> bool) (l : list node) : list node * list node :=
  match fuel with
  | O => (l, [])
  | S f =>
    let (pre, rest) := span p l in
    match rest with
    | [] => (pre, [])
    | x :: r =>
      (* scan from the back over elements that fail p *)
      let (fs_rev, r'_rev) := span (fun n => negb (p n)) (rev r) in
      match r'_rev with
      | [] => (pre, x :: rev fs_rev)
      | y :: mid_rev =>
        let (t, f) := hoare_partition f p (rev mid_rev) in
        (pre ++ y :: t, f ++ x :: rev fs_rev)
      end
    end
  end.

(* ---------------------------------------------------------------- chain helpers *)
Fixpoint insert_after (k x : N) (l : list N) : list N :=
  match l with
  | [] => [x]
  | y :: r => if y =? k then y :: x :: r else y :: insert_after k x r
  end.
Fixpoint insert_before (k x : N) (l : list N) : list N :=
  match l with
  | [] => [x]
  | y :: r => if y =? k then x :: y :: r else y :: insert_before k x r
  end.
Fixpoint next_in_chain (k : N) (l : list N) : option N :=
  match l with
  | [] => None
  | y :: r => if y =? k then hd_error r else next_in_chain k r
  end.

Fixpoint insert_bucket (nb : bucket) (bs : list bucket) : list bucket :=
  match bs with
  | [] => [nb]
  | b :: r => if bhi nb <? bhi b then nb :: bs else b :: insert_bucket nb r
  end.

(* ---------------------------------------------------------------- split *)
(* DhtBucket::split(own id) followed by the rest of DhtRouter::split_bucket.
   Returns the new table, the key of the bucket the new node [nd] belongs to, and whether
   "router ID ended up in wrong bucket" was thrown. *)
Definition split_bucket (ownid : N) (ndid : N) (b : bucket) (t : table) : table * N * bool :=
  let mid := mid_point (blo b) (bhi b) in
  let lo' := (mid + 1) mod idspace in
  let '(keep, moved) := hoare_partition (S (length (bnodes b)))
                          (fun n => (lo' <=? nid n) && (nid n <=? bhi b)) (bnodes b) in
  let other := mkBucket (blo b) mid moved (bchanged b) (count is_good moved) (count is_bad moved) [] in
  let this := mkBucket lo' (bhi b) keep (bchanged b) (count is_good keep) (count is_bad keep) (bcache b) in
  let chain' := if in_range other ownid then insert_after (bhi b) mid (tchain t)
                else insert_before (bhi b) mid (tchain t) in
  let own' := match next_in_chain (town t) chain' with Some c => c | None => town t end in
  let bs' := insert_bucket other (map_bucket (bhi b) (fun _ => this) (tb t)) in
  let bad := match get_bucket own' bs' with Some ob => negb (in_range ob ownid) | None => true end in
  (mkTable bs' chain' own', (if in_range other ndid then mid else bhi b), bad).

(* ---------------------------------------------------------------- add_node_to_bucket *)
Inductive lres :=
| LDone (t : table) (added : bool)
| LErr (t : table)
| LFuel.

Fixpoint add_loop (fuel : nat) (ownid : N) (tm : N) (nd : node) (k : N) (t : table) : lres :=
  match fuel with
  | O => LFuel
  | S f =>
    match get_bucket k (tb t) with
    | None => LErr t
    | Some b =>
      if negb (is_full b) then
        LDone (mkTable (map_bucket k (b_add tm nd) (tb t)) (tchain t) (town t)) true
      else match find_cand (bnodes b) with
           | None => LErr t
           | Some c =>
             if is_bad c then
               add_loop f ownid tm nd k (mkTable (map_bucket k (b_remove c) (tb t)) (tchain t) (town t))
             else if negb (k =? town t) then LDone t false
             else let '(t', k', bad) := split_bucket ownid (nid nd) b t in
                  if bad then LErr t' else add_loop f ownid tm nd k' t'
           end
    end
  end.

Definition add_fuel : nat := 170.

Definition add_node_to_bucket (ownid tm : N) (nd : node) (t : table) : lres :=
  match find_bucket (nid nd) (tb t) with
  | None => LErr t
  | Some b => add_loop add_fuel ownid tm nd (bhi b) t
  end.

(* /repo 5bd3da4: DhtBucket::remove_node and node_now_bad reset the reply cache of EVERY bucket of the
   parent/child chain (= of the table), because buckets borrow each other's nodes.  Whether the tree
   under test does so is probed behaviourally (gen/params_c15.py) into Params.dht_cache_chain_invalidate;
   an older tree (0) keeps the stale caches. *)
Definition chain_inval : bool := negb (Params.dht_cache_chain_invalidate =? 0).
Definition inval_tb (bs : list bucket) : list bucket := if chain_inval then map (fun b => set_cache b []) bs else bs.
Definition inval_tab (t : table) : table := mkTable (inval_tb (tb t)) (tchain t) (town t).
Definition nodes_count (t : table) : N := lenN (flat_map bnodes (tb t)).

(* ---------------------------------------------------------------- router entry points *)
Definition with_tab (s : state) (t : table) : state :=
  mkState (own s) (now s) (cur s) (prev s) t (trackers s) (err s).
Definition with_tb (s : state) (bs : list bucket) : state :=
  with_tab s (mkTable bs (tchain (tab s)) (town (tab s))).
Definition with_err (s : state) : state :=
  mkState (own s) (now s) (cur s) (prev s) (tab s) (trackers s) true.
Definition with_trackers (s : state) (tr : list (N * list peer)) : state :=
  mkState (own s) (now s) (cur s) (prev s) (tab s) tr (err s).

Definition want_node (s : state) (id : N) : bool :=
  if (id =? own s) || (id =? 0) then false
  else match find_bucket id (tb (tab s)) with
       | None => false
       | Some b => (bhi b =? town (tab s)) || has_space b
       end.

(* result = whether a node pointer is returned *)
Definition node_queried (s : state) (id ip : N) : state * bool :=
  match lookup id (tb (tab s)) with
  | None => (s, false)                      (* want_node -> ping: no table effect *)
  | Some (k, n) =>
    if negb (nip n =? ip) then (s, false)
    else
      let f := fun b =>
        let b1 := if nseen n =? 0 then b else b_set_good (now s) n b in
        let good_after := if nseen n =? 0 then is_good n else true in
        if good_after then touch (now s) b1 else b1 in
      (with_tb s (map_bucket k f (tb (tab s))), true)
  end.

Definition node_replied (s : state) (id ip port : N) : state * bool :=
  match lookup id (tb (tab s)) with
  | Some (k, n) =>
    if negb (nip n =? ip) then (s, false)
    else (with_tb s (map_bucket k (fun b => touch (now s) (b_set_good (now s) n b)) (tb (tab s))), true)
  | None =>
    if negb (want_node s id) then (s, false)
    else
      let nd := mkNode id ip port 0 false 0 in
      match add_node_to_bucket (own s) (now s) nd (tab s) with
      | LFuel => (with_err s, false)
      | LErr t => (with_err (with_tab s t), false)
      | LDone t false => (with_tab s t, false)
      | LDone t0 true =>
        (* a bad node was replaced (remove_node) iff the node count did not grow; nothing builds a
           cache inside add_node_to_bucket, so resetting all caches afterwards is the same *)
        let t := if nodes_count t0 =? nodes_count (tab s) then inval_tab t0 else t0 in
        match lookup id (tb t) with
        | None => (with_err (with_tab s t), false)
        | Some (k, n) =>
          (with_tab s (mkTable (map_bucket k (fun b => touch (now s) (b_set_good (now s) n b)) (tb t))
                               (tchain t) (town t)), true)
        end
      end
  end.

Definition node_inactive (s : state) (id ip : N) : state * bool :=
  match lookup id (tb (tab s)) with
  | None => (s, false)
  | Some (k, n) =>
    if negb (nip n =? ip) then (s, false)
    else
      let bs0 := map_bucket k (b_inactive n) (tb (tab s)) in
      (* node_now_bad *)
      let bs1 := if (ninact n + 1 =? max_failed) && negb (is_bad n) then inval_tb bs0 else bs0 in
      match lookup id bs1 with
      | None => (with_err s, false)
      | Some (_, n1) =>
        if is_bad n1 && (Params.dht_timeout_remove_node <=? age32 (now s) (nseen n1))
        then (with_tb s (inval_tb (map_bucket k (b_remove n1) bs1)), false)
        else (with_tb s bs1, true)
      end
  end.

Definition node_invalid (s : state) (id : N) : state :=
  match lookup id (tb (tab s)) with
  | None => s
  | Some (k, n) => with_tb s (inval_tb (map_bucket k (b_remove n) (tb (tab s))))
  end.

(* ---------------------------------------------------------------- closest nodes (full_bucket / build_full_cache) *)
Fixpoint chain_order_go (k : N) (pre_rev : list N) (l : list N) : list N :=
  match l with
  | [] => []            (* k not in chain *)
  | y :: r => if y =? k then (y :: r) ++ pre_rev else chain_order_go k (y :: pre_rev) r
  end.
(* DhtBucketChain: the bucket, its children, then its parents *)
Definition chain_order (k : N) (ch : list N) : list N := chain_order_go k [] ch.

Definition entries_of (b : bucket) : list centry :=
  map (fun n => (nid n, nip n, nport n)) (filter (fun n => negb (is_bad n)) (bnodes b)).

Definition build_full (k : N) (t : table) : list centry :=
  firstn (N.to_nat K)
         (flat_map (fun k' => match get_bucket k' (tb t) with Some b => entries_of b | None => [] end)
                   (chain_order k (tchain t))).

(* get_closest_nodes(id): returns the compact list and the table with the bucket's cache filled *)
Definition closest_nodes (t : table) (id : N) : table * list centry :=
  match find_bucket id (tb t) with
  | None => (t, [])
  | Some b =>
    match bcache b with
    | [] => let c := build_full (bhi b) t in
            (mkTable (map_bucket (bhi b) (fun b => set_cache b c) (tb t)) (tchain t) (town t), c)
    | c => (t, c)
    end
  end.

(* ---------------------------------------------------------------- DhtTracker *)
Definition port16 (p : N) : N := p mod 65536.   (* int64 -> uint16_t parameter *)

(* index of the oldest peer: first strict minimum, starting from ~uint32_t() *)
Fixpoint oldest_go (l : list peer) (i : nat) (best : nat) (bt : N) : nat :=
  match l with
  | [] => best
  | p :: r => if pseen p <? bt then oldest_go r (S i) i (pseen p) else oldest_go r (S i) best bt
  end.

Fixpoint update_peer (ip port t : N) (l : list peer) : option (list peer) :=
  match l with
  | [] => None
  | p :: r => if pip p =? ip then Some (mkPeer ip port t :: r)
              else match update_peer ip port t r with
                   | Some r' => Some (p :: r')
                   | None => None
                   end
  end.

Fixpoint replace_nth {A} (i : nat) (x : A) (l : list A) : list A :=
  match l, i with
  | [], _ => []
  | _ :: r, O => x :: r
  | y :: r, S j => y :: replace_nth j x r
  end.

(* htons on the little-endian host: the stored uint16 FIELD whose memory bytes are hi, lo *)
Definition htons16 (p : N) : N := (p mod 256) * 256 + (p / 256) mod 256.

Definition add_peer (t : N) (ip port : N) (l : list peer) : list peer :=
  let p16 := port16 port in
  if p16 =? 0 then l
  else let p := htons16 p16 in
       match update_peer ip p (t mod u32) l with
       | Some l' => l'
       | None =>
         if lenN l <? Params.dht_tracker_max_size then l ++ [mkPeer ip p (t mod u32)]
         else replace_nth (oldest_go l 0 0 (u32 - 1)) (mkPeer ip p (t mod u32)) l
       end.

Definition prune (t : N) (l : list peer) : list peer :=
  let minseen := (t + u32 - Params.dht_timeout_peer_announce mod u32) mod u32 in
  filter (fun p => negb (pseen p <? minseen)) l.

(* the 6 bytes of a SocketAddressCompact on a little-endian host: s_addr bytes, then the uint16
   port field as it lies in memory *)
Definition ipbytes (ip : N) : list N :=
  [(ip / 16777216) mod 256; (ip / 65536) mod 256; (ip / 256) mod 256; ip mod 256].
Definition peer_bytes (p : peer) : list N := ipbytes (pip p) ++ [pport p mod 256; (pport p / 256) mod 256].

Definition get_peers (rnd : N) (l : list peer) : list (list N) :=
  let mp := Params.dht_tracker_max_peers in
  let sz := lenN l in
  if mp <? sz then
    let blocks := (sz + mp - 1) / mp in
    let first := ((rnd mod blocks) * (sz - mp)) / (blocks - 1) in
    map peer_bytes (firstn (N.to_nat mp) (skipn (N.to_nat first) l))
  else map peer_bytes l.

Fixpoint get_tracker (ih : N) (tr : list (N * list peer)) : option (list peer) :=
  match tr with
  | [] => None
  | (h, l) :: r => if h =? ih then Some l else get_tracker ih r
  end.

(* get_tracker(create = true) followed by a modification of the peer list *)
Fixpoint upd_tracker (ih : N) (f : list peer -> list peer) (tr : list (N * list peer)) : list (N * list peer) :=
  match tr with
  | [] => [(ih, f [])]
  | (h, l) :: r => if h =? ih then (h, f l) :: r else (h, l) :: upd_tracker ih f r
  end.

(* ---------------------------------------------------------------- tokens, housekeeping, ops *)
(* A datagram after static_map_read_bencode: the keys DhtServer looks at.  A "*S" key holds a
   string or nothing (a value of another type is left empty by the reader); a.port is a full object. *)
Inductive pval := PInt (z : Z) | POther | PAbsent.
Record dmsg := mkMsg { m_t : option (list N); m_y : option (list N); m_q : option (list N);
                       m_id : option (list N); m_target : option (list N); m_ih : option (list N);
                       m_token : option (list N); m_port : pval }.

Inductive derr :=
| E_no_tid | E_tid_long | E_no_type | E_unsupported_type | E_bad_id | E_id_short | E_own_id
| E_unknown_type | E_malformed | E_target_short | E_no_nodes | E_ih_short | E_no_peers_nodes
| E_token | E_unknown_query | E_port | E_bad_t.

(* what goes back to the source address: nothing, a "y":"e" message, or a "y":"r" message whose
   r.id is the own id *)
Inductive reply :=
| RpNone
| RpErr (t : option (list N)) (e : derr)
| RpOk (t : list N) (tok : option (list N)) (nodes : option (list centry)) (vals : option (list (list N))).

Inductive op :=
| ODgram (ip rnd : N) (m : dmsg)
| OGarbage (ip : N)
| OTick (dt : N)
| OQueried (id ip port : N)
| OReplied (id ip port : N)
| OInactive (id ip port : N)
| OInvalid (id : N)
| OHousekeeping (secret : N)
| OMakeToken (ip : N)
| OTokenValid (tok : list N) (ip : N)
| OAnnounce (ih ip port : N) (tok : list N)
| OGetPeers (ih ip rnd : N)
| OFindNode (target : N)
| OWant (id : N)
| ODump.

Inductive res :=
| Rnone
| Rskip
| Rbool (b : bool)
| Rtok (t : list N)
| Rerr (code : N)                 (* 1 Token invalid.  2 No peers nor nodes  3 No nodes  4 Invalid port. *)
| Rnodes (l : list centry)
| Rpeers (tok : list N) (vals : list (list N))
| Rpnodes (tok : list N) (l : list centry)
| Rdg (r : reply).

Fixpoint bytes_eqb (a b : list N) : bool :=
  match a, b with
  | [], [] => true
  | x :: a', y :: b' => (x =? y) && bytes_eqb a' b'
  | _, _ => false
  end.

Definition le32 (x : N) : list N :=
  [x mod 256; (x / 256) mod 256; (x / 65536) mod 256; (x / 16777216) mod 256].

Definition housekeeping_bucket (t : N) (b : bucket) : bucket :=
  let ns := map (node_update t) (bnodes b) in
  mkBucket (blo b) (bhi b) ns (bchanged b) (count is_good ns) (count is_bad ns) [].

Section WithSha.
Variable sha : list N -> list N.

(* DhtRouter::generate_token truncated to size_token *)
Definition token_for (secret ip : N) : list N :=
  firstn (N.to_nat Params.dht_size_token) (sha (le32 (secret mod u32) ++ ipbytes ip)).

Definition token_valid (s : state) (tok : list N) (ip : N) : bool :=
  (lenN tok =? Params.dht_size_token) &&
  (bytes_eqb tok (token_for (cur s) ip) || bytes_eqb tok (token_for (prev s) ip)).

(* DhtRouter::receive_timeout *)
Definition housekeeping (s : state) (secret : N) : state :=
  let bs := map (housekeeping_bucket (now s)) (tb (tab s)) in
  let tr := filter (fun e => negb (match snd e with [] => true | _ => false end))
                   (map (fun e => (fst e, prune (now s) (snd e))) (trackers s)) in
  mkState (own s) (now s) secret (cur s) (mkTable bs (tchain (tab s)) (town (tab s))) tr (err s).

(* ---------------------------------------------------------------- DhtServer::event_read / process_query *)
Definition be_to_N (l : list N) : N := fold_left (fun acc b => acc * 256 + b) l 0.
Definition s_ping : list N := [112; 105; 110; 103].
Definition s_find_node : list N := [102; 105; 110; 100; 95; 110; 111; 100; 101].
Definition s_get_peers : list N := [103; 101; 116; 95; 112; 101; 101; 114; 115].
Definition s_announce_peer : list N := [97; 110; 110; 111; 117; 110; 99; 101; 95; 112; 101; 101; 114].
Definition hs_len : N := Params.dht_hash_string_size.

(* create_error echoes t only if it is a string shorter than 67 bytes *)
Definition err_t (t : option (list N)) : option (list N) :=
  match t with Some x => if lenN x <? 67 then Some x else None | None => None end.

(* body of process_query up to (not including) node_queried / create_response:
   inl error, or inr (state, token, nodes, values) *)
Definition query_body (s : state) (ip rnd : N) (q : list N) (m : dmsg)
  : state * (derr + (option (list N) * option (list centry) * option (list (list N)))) :=
  if bytes_eqb q s_find_node then
    match m_target m with
    | None => (s, inl E_malformed)
    | Some tg =>
      if lenN tg <? hs_len then (s, inl E_target_short)
      else let (t', c) := closest_nodes (tab s) (be_to_N (firstn idbytes tg)) in
           match c with
           | [] => (with_tab s t', inl E_no_nodes)
           | _ => (with_tab s t', inr (None, Some c, None))
           end
    end
  else if bytes_eqb q s_get_peers then
    let tok := token_for (cur s) ip in
    match m_ih m with
    | None => (s, inl E_malformed)
    | Some h =>
      if lenN h <? hs_len then (s, inl E_ih_short)
      else let ih := be_to_N (firstn idbytes h) in
           match get_tracker ih (trackers s) with
           | Some (p :: l) => (s, inr (Some tok, None, Some (get_peers rnd (p :: l))))
           | _ => let (t', c) := closest_nodes (tab s) ih in
                  match c with
                  | [] => (with_tab s t', inl E_no_peers_nodes)
                  | _ => (with_tab s t', inr (Some tok, Some c, None))
                  end
           end
    end
  else if bytes_eqb q s_announce_peer then
    match m_ih m with
    | None => (s, inl E_malformed)
    | Some h =>
      if lenN h <? hs_len then (s, inl E_ih_short)
      else match m_token m with
           | None => (s, inl E_malformed)
           | Some tk =>
             if negb (token_valid s tk ip) then (s, inl E_token)
             else let ih := be_to_N (firstn idbytes h) in
                  (* a.port is checked before get_tracker(create = true) *)
                  match m_port m with
                  | PInt z => if ((z <? 1) || (65535 <? z))%Z then (s, inl E_port)
                              else (with_trackers s (upd_tracker ih (add_peer (now s) ip (Z.to_N z)) (trackers s)),
                                    inr (None, None, None))
                  | _ => (s, inl E_malformed)
                  end
           end
    end
  else if bytes_eqb q s_ping then (s, inr (None, None, None))
  else (s, inl E_unknown_query).

(* one datagram with y <> "r","e" from source address ip *)
Definition dgram (s : state) (ip rnd : N) (m : dmsg) : state * reply :=
  match m_t m with
  | None => (s, RpErr None E_no_tid)
  | Some t =>
    if 20 <? lenN t then (s, RpErr (err_t (m_t m)) E_tid_long) else
    match m_y m with
    | None => (s, RpErr (Some t) E_no_type)
    | Some y =>
      match y with
      | [ty] =>
        if ty =? 113 then  (* 'q' *)
          match m_id m with
          | None => (s, RpErr (Some t) E_bad_id)
          | Some idb =>
            if lenN idb <? hs_len then (s, RpErr (Some t) E_id_short)
            else let id := be_to_N (firstn idbytes idb) in
                 if id =? own s then (s, RpErr (Some t) E_own_id)
                 else match m_q m with
                      | None => (s, RpErr (Some t) E_malformed)
                      | Some q =>
                        match query_body s ip rnd q m with
                        | (s1, inl e) => (s1, RpErr (Some t) e)
                        | (s1, inr (tok, nodes, vals)) =>
                          (fst (node_queried s1 id ip), RpOk t tok nodes vals)
                        end
                      end
          end
        else (s, RpErr (Some t) E_unknown_type)
      | _ => (s, RpErr (Some t) E_unsupported_type)
      end
    end
  end.

Definition step (s : state) (o : op) : state * res :=
  if err s then (s, Rskip) else
  match o with
  | ODgram ip rnd m =>
    match m_y m with
    | Some [ty] => if (ty =? 114) || (ty =? 101) then (s, Rskip)   (* replies / errors: not modelled *)
                   else let (s', r) := dgram s ip rnd m in (s', Rdg r)
    | _ => let (s', r) := dgram s ip rnd m in (s', Rdg r)
    end
  | OGarbage ip => (s, Rdg RpNone)
  | OTick dt => (mkState (own s) (now s + dt) (cur s) (prev s) (tab s) (trackers s) (err s), Rnone)
  | OQueried id ip port =>
    if id =? own s then (s, Rskip) else let (s', r) := node_queried s id ip in (s', Rbool r)
  | OReplied id ip port =>
    if id =? own s then (s, Rskip) else let (s', r) := node_replied s id ip port in (s', Rbool r)
  | OInactive id ip port =>
    if id =? own s then (s, Rskip) else let (s', r) := node_inactive s id ip in (s', Rbool r)
  | OInvalid id => (node_invalid s id, Rnone)
  | OHousekeeping secret => (housekeeping s secret, Rnone)
  | OMakeToken ip => (s, Rtok (token_for (cur s) ip))
  | OTokenValid tok ip => (s, Rbool (token_valid s tok ip))
  | OAnnounce ih ip port tok =>
    if token_valid s tok ip
    then if (port <? 1) || (65535 <? port) then (s, Rerr 4)
         else (with_trackers s (upd_tracker ih (add_peer (now s) ip port) (trackers s)), Rnone)
    else (s, Rerr 1)
  | OGetPeers ih ip rnd =>
    let tok := token_for (cur s) ip in
    match get_tracker ih (trackers s) with
    | Some (p :: l) => (s, Rpeers tok (get_peers rnd (p :: l)))
    | _ => let (t', c) := closest_nodes (tab s) ih in
           match c with
           | [] => (with_tab s t', Rerr 2)
           | _ => (with_tab s t', Rpnodes tok c)
           end
    end
  | OFindNode target =>
    let (t', c) := closest_nodes (tab s) target in
    match c with
    | [] => (with_tab s t', Rerr 3)
    | _ => (with_tab s t', Rnodes c)
    end
  | OWant id => (s, Rbool (want_node s id))
  | ODump => (s, Rnone)
  end.

Definition run (s : state) (ops : list op) : state := fold_left (fun s o => fst (step s o)) ops s.

End WithSha.

Definition init_bucket (t0 : N) : bucket := mkBucket 0 (idspace - 1) [] t0 0 0 [].
Definition init (ownid c p t0 : N) : state :=
  mkState ownid t0 c p (mkTable [init_bucket t0] [idspace - 1] (idspace - 1)) [] false.

(* ================================================================ DhtServer transactions (ping only)
   The router layer above is wrapped: [sstate] adds the server's pending transactions, m_networkUp
   and a sticky flag [untracked] that is raised as soon as the server starts a DhtSearch (bucket
   bootstrap by housekeeping of a non-empty table, or by a split that leaves a half empty): search
   transactions are not modelled, so from then on replies / errors / transaction timeouts are not
   interpreted (Rskip on both sides).  While tracked, every transaction is a ping created by
   node_queried for an unknown, wanted node; there is at most one per address (DhtServer::ping),
   hence its id is always the first candidate random() & 0xff (the harness's random() returns the
   case's rnd while a datagram is processed, and the per-case constant [fill] otherwise). *)
Record txn := mkTx { x_ip : N; x_tid : N; x_id : N; x_timeout : N; x_sent : bool }.
Record sstate := mkSS { rs : state; txs : list txn; netup : bool; untracked : bool; fill : N }.

Inductive sop :=
| SBase (o : op)
| SReply (ip : N) (t : option (list N)) (idb : option (list N))   (* y = "r" from ip: t, r.id *)
| SError (ip : N) (t : option (list N))                            (* y = "e" from ip *)
| STimeout                                                          (* DhtServer::receive_timeout *)
| STxDump.

Definition ping_timeout : N := 30.
Definition max_transactions : N := 1024.

Definition wants_ping (s : state) (id : N) : bool :=
  match lookup id (tb (tab s)) with None => want_node s id | Some _ => false end.

(* DhtServer::ping + add_transaction *)
Definition ping (ss : sstate) (nw id ip tid : N) : sstate :=
  if max_transactions <=? lenN (txs ss) then ss
  else if existsb (fun x => x_ip x =? ip) (txs ss) then ss
  else mkSS (rs ss) (txs ss ++ [mkTx ip tid id (nw + ping_timeout) false]) (netup ss) (untracked ss) (fill ss).

(* event_write: every queued packet goes out *)
Definition tx_flush (ss : sstate) : sstate :=
  mkSS (rs ss) (map (fun x => mkTx (x_ip x) (x_tid x) (x_id x) (x_timeout x) true) (txs ss)) (netup ss) (untracked ss) (fill ss).

Definition nodes_total (t : table) : N := lenN (flat_map bnodes (tb t)).

(* does add_node_to_bucket call bootstrap_bucket (a split that leaves one half empty)?  Mirrors add_loop. *)
Fixpoint add_boot (fuel : nat) (ownid tm : N) (nd : node) (k : N) (t : table) : bool :=
  match fuel with
  | O => false
  | S f =>
    match get_bucket k (tb t) with
    | None => false
    | Some b =>
      if negb (is_full b) then false
      else match find_cand (bnodes b) with
           | None => false
           | Some c =>
             if is_bad c then add_boot f ownid tm nd k (mkTable (map_bucket k (b_remove c) (tb t)) (tchain t) (town t))
             else if negb (k =? town t) then false
             else let '(t', k', bad) := split_bucket ownid (nid nd) b t in
                  if bad then false
                  else let otherk := if k' =? bhi b then mid_point (blo b) (bhi b) else bhi b in
                       let empty_half := match get_bucket otherk (tb t') with Some ob => match bnodes ob with [] => true | _ => false end | None => false end in
                       empty_half || add_boot f ownid tm nd k' t'
           end
    end
  end.

Definition replied_boots (s : state) (id ip port : N) : bool :=
  if id =? own s then false else
  match lookup id (tb (tab s)) with
  | Some _ => false
  | None => if negb (want_node s id) then false
            else match find_bucket id (tb (tab s)) with
                 | None => false
                 | Some b => add_boot add_fuel (own s) (now s) (mkNode id ip port 0 false 0) (bhi b) (tab s)
                 end
  end.

Section WithSha2.
Variable sha : list N -> list N.

(* the part of event_read / process_query that matters for the transaction layer: did the datagram
   reach process_query (m_networkUp := true), and with which id / intermediate state / success *)
Definition dgram_info (s : state) (ip rnd : N) (m : dmsg) : option (N * state * bool) :=
  match m_t m with
  | None => None
  | Some t =>
    if 20 <? lenN t then None else
    match m_y m with
    | Some [ty] =>
      if ty =? 113 then
        match m_id m with
        | None => None
        | Some idb =>
          if lenN idb <? hs_len then None
          else let id := be_to_N (firstn idbytes idb) in
               if id =? own s then None
               else match m_q m with
                    | None => Some (id, s, false)
                    | Some q => match query_body sha s ip rnd q m with
                                | (s1, inl _) => Some (id, s1, false)
                                | (s1, inr _) => Some (id, s1, true)
                                end
                    end
        end
      else None
    | _ => None
    end
  end.

Definition with_rs (ss : sstate) (s : state) : sstate := mkSS s (txs ss) (netup ss) (untracked ss) (fill ss).
Definition set_netup (ss : sstate) (b : bool) : sstate := mkSS (rs ss) (txs ss) b (untracked ss) (fill ss).
Definition set_untracked (ss : sstate) (b : bool) : sstate := mkSS (rs ss) (txs ss) (netup ss) (untracked ss || b) (fill ss).
Definition set_txs (ss : sstate) (l : list txn) : sstate := mkSS (rs ss) l (netup ss) (untracked ss) (fill ss).

Definition find_tx (ip tid : N) (l : list txn) : option txn :=
  find (fun x => (x_ip x =? ip) && (x_tid x =? tid)) l.
Definition remove_tx (ip tid : N) (l : list txn) : list txn :=
  filter (fun x => negb ((x_ip x =? ip) && (x_tid x =? tid))) l.

Definition sstep_base (ss : sstate) (o : op) : sstate * res :=
  let s := rs ss in
  let (s', r) := step sha s o in
  let ss1 := with_rs ss s' in
  if err s then (ss1, r) else
  match o with
  | OQueried id ip port =>
    if id =? own s then (ss1, r)
    else if wants_ping s id then (ping ss1 (now s) id ip (fill ss mod 256), r) else (ss1, r)
  | ODgram ip rnd m =>
    match r with
    | Rskip => (ss1, r)
    | _ => match dgram_info s ip rnd m with
           | None => (tx_flush ss1, r)
           | Some (id, s1, ok) =>
             let ss2 := set_netup ss1 true in
             (tx_flush (if ok && wants_ping s1 id then ping ss2 (now s) id ip (rnd mod 256) else ss2), r)
           end
    end
  | OGarbage ip => (tx_flush ss1, r)
  | OHousekeeping _ => (set_untracked (set_netup ss1 false) (0 <? nodes_total (tab s)), r)
  | OReplied id ip port => (set_untracked ss1 (replied_boots s id ip port), r)
  | _ => (ss1, r)
  end.

(* one expired transaction: DhtServer::failed_transaction(itr, false) for a ping *)
Definition expire (ss : sstate) (x : txn) : sstate :=
  let ss1 := if netup ss && x_sent x && negb (x_id x =? 0)
             then with_rs ss (fst (step sha (rs ss) (OInactive (x_id x) (x_ip x) 0))) else ss in
  set_txs ss1 (remove_tx (x_ip x) (x_tid x) (txs ss1)).

Definition sstep (ss : sstate) (o : sop) : sstate * res :=
  match o with
  | SBase b => sstep_base ss b
  | STxDump => (ss, Rnone)
  | _ =>
    if untracked ss || err (rs ss) then (ss, Rskip) else
    match o with
    | SReply ip t idb =>
      match t with
      | None => (tx_flush ss, Rdg (RpErr None E_no_tid))
      | Some tb =>
        if 20 <? lenN tb then (tx_flush ss, Rdg (RpErr (err_t t) E_tid_long)) else
        match idb with
        | None => (tx_flush ss, Rdg (RpErr (Some tb) E_bad_id))
        | Some ib =>
          if lenN ib <? hs_len then (tx_flush ss, Rdg (RpErr (Some tb) E_id_short))
          else let id := be_to_N (firstn idbytes ib) in
               match tb with
               | [tid] =>
                 if id =? own (rs ss) then (tx_flush ss, Rdg RpNone)
                 else match find_tx ip tid (txs ss) with
                      | None => (tx_flush ss, Rdg RpNone)                       (* unsolicited: ignored *)
                      | Some x =>
                        let ss1 := set_netup ss true in
                        if negb (id =? x_id x) && negb (x_id x =? 0) then (tx_flush ss1, Rdg RpNone)   (* wrong id: ignored, kept *)
                        else let ss2 := with_rs ss1 (fst (step sha (rs ss1) (OReplied id ip 0))) in
                             let ss3 := set_untracked ss2 (replied_boots (rs ss1) id ip 0) in
                             (tx_flush (set_txs ss3 (remove_tx ip tid (txs ss3))), Rdg RpNone)
                      end
               | _ => (* malformed reply from a node that names itself: counts as a failed query *)
                 (tx_flush (with_rs ss (fst (step sha (rs ss) (OInactive id ip 0)))), Rdg RpNone)
               end
        end
      end
    | SError ip t =>
      match t with
      | None => (tx_flush ss, Rdg (RpErr None E_no_tid))
      | Some tb =>
        if 20 <? lenN tb then (tx_flush ss, Rdg (RpErr (err_t t) E_tid_long)) else
        match tb with
        | [tid] => match find_tx ip tid (txs ss) with
                   | None => (tx_flush ss, Rdg RpNone)
                   | Some x => let ss1 := set_netup ss true in
                               (tx_flush (set_txs ss1 (remove_tx ip tid (txs ss1))), Rdg RpNone)
                   end
        | _ => (tx_flush ss, Rdg (RpErr (Some tb) E_bad_t))
        end
      end
    | STimeout =>
      (fold_left (fun a x => if x_timeout x <? now (rs a) then expire a x else a) (txs ss) ss, Rnone)
    | _ => (ss, Rnone)
    end
  end.

Definition srun (ss : sstate) (ops : list sop) : sstate := fold_left (fun a o => fst (sstep a o)) ops ss.

End WithSha2.

Definition sinit (ownid c p t0 fl : N) : sstate := mkSS (init ownid c p t0) [] false false fl.
