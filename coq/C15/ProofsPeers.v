(* C15 — "announced peers are subsequently returned by get_peers" for stores larger than one reply:
   over the values of random(), the 32-peer windows DhtTracker::get_peers can return cover the whole
   store (sizes up to max_size = 128: a finite check lifted to lists). *)
From Coq Require Import List NArith Bool Lia.
From LTV.C15 Require Import ParamsGen.
From LTV.C15 Require Import Model.
Import ListNotations.
Local Open Scope N_scope.

Definition mp : N := Params.dht_tracker_max_peers.
Definition win_off (rnd sz : N) : N := let blocks := (sz + mp - 1) / mp in (rnd mod blocks) * (sz - mp) / (blocks - 1).

Lemma get_peers_window : forall rnd l, mp < lenN l ->
  get_peers rnd l = map peer_bytes (firstn (N.to_nat mp) (skipn (N.to_nat (win_off rnd (lenN l))) l)).
Proof. intros rnd l H. unfold get_peers. fold mp. apply N.ltb_lt in H. rewrite H. reflexivity. Qed.

Definition covered (sz i : nat) : bool :=
  existsb (fun r => let o := N.to_nat (win_off (N.of_nat r) (N.of_nat sz)) in (Nat.leb o i) && (Nat.ltb i (o + N.to_nat mp)%nat)) (seq 0 4).
Definition covers (sz : nat) : bool := forallb (covered sz) (seq 0 sz).

Lemma all_sizes_covered : forallb covers (seq 33 96) = true.
Proof. vm_compute. reflexivity. Qed.

Lemma in_window : forall (A : Type) (l : list A) i p off n, nth_error l i = Some p -> (off <= i)%nat -> (i < off + n)%nat ->
  In p (firstn n (skipn off l)).
Proof.
  intros A l. induction l as [|x l IH]; intros i p off n H L1 L2; [destruct i; discriminate|].
  destruct off as [|off].
  - simpl. destruct n as [|n]; [lia|]. destruct i as [|i]; simpl in *.
    + inversion H; subst. left. reflexivity.
    + right. apply (IH i p 0%nat n H); lia.
  - destruct i as [|i]; [lia|]. simpl in *. apply (IH i p off n H); lia.
Qed.

(* every stored peer is returned for some value of random() *)
Theorem every_peer_reachable : forall l p, mp < lenN l -> lenN l <= Params.dht_tracker_max_size -> In p l ->
  exists rnd, In (peer_bytes p) (get_peers rnd l).
Proof.
  intros l p H1 H2 I. apply In_nth_error in I. destruct I as [i Hi].
  assert (Li : (i < length l)%nat) by (apply nth_error_Some; rewrite Hi; discriminate).
  unfold lenN in *. assert (M : mp = 32) by reflexivity. assert (MS : Params.dht_tracker_max_size = 128) by reflexivity.
  assert (R : In (length l) (seq 33 96)) by (apply in_seq; lia).
  pose proof all_sizes_covered as C. rewrite forallb_forall in C. specialize (C _ R).
  unfold covers in C. rewrite forallb_forall in C. specialize (C i ltac:(apply in_seq; lia)).
  unfold covered in C. apply existsb_exists in C. destruct C as [r [_ Hr]].
  apply andb_true_iff in Hr. destruct Hr as [A B]. apply PeanoNat.Nat.leb_le in A. apply PeanoNat.Nat.ltb_lt in B.
  exists (N.of_nat r). rewrite get_peers_window by (unfold lenN; lia). apply in_map.
  unfold lenN. eapply in_window; eauto.
Qed.
