(* C15 — executable model of dht::DhtSearch (src/dht/transactions/dht_search.cc), the contact set of
   an outgoing find_node search: contacts ordered by XOR distance to the target, at most
   `concurrency` (3) pending, trimmed to the max_contacts (18) closest.  Definitions only.
   Not covered: DhtAnnounce (is_announce() = false here), the transactions that carry the queries
   (they call get_contact / node_status and raise the concurrency limit for stalled queries). *)
From Coq Require Import List NArith Bool.
Import ListNotations.
Local Open Scope N_scope.

Inductive cstat := CNew | CActive | CGood | CBad.
Record contact := mkC { c_id : N; c_ip : N; c_port : N; c_st : cstat }.
Record search := mkS { s_target : N; s_cs : list contact; s_pending : N; s_contacted : N; s_replied : N;
                       s_conc : N; s_restart : bool; s_started : bool; s_next : option N; s_err : bool }.

Definition max_contacts : N := 18.
Definition search_init (target : N) : search := mkS target [] 0 0 0 3 false false None false.

(* DhtSearch::is_closer: byte-wise comparison of (id xor target) = comparison of the numbers *)
Definition closer (t a b : N) : bool := N.lxor a t <? N.lxor b t.

Definition is_new (c : contact) : bool := match c_st c with CNew => true | _ => false end.
Definition is_active (c : contact) : bool := match c_st c with CActive => true | _ => false end.

Fixpoint insert_contact (t : N) (c : contact) (l : list contact) : option (list contact) :=
  match l with
  | [] => Some [c]
  | x :: r => if closer t (c_id c) (c_id x) then Some (c :: l)
              else if closer t (c_id x) (c_id c) then
                     match insert_contact t c r with Some r' => Some (x :: r') | None => None end
              else None     (* same distance = same id: already there *)
  end.

(* DhtSearch::add_contact *)
Definition add_contact (s : search) (id ip port : N) : search * bool :=
  match insert_contact (s_target s) (mkC id ip port CNew) (s_cs s) with
  | Some l => (mkS (s_target s) l (s_pending s) (s_contacted s) (s_replied s) (s_conc s) true (s_started s) (s_next s) (s_err s), true)
  | None => (s, false)
  end.

(* DhtSearch::trim for a plain search: keep the needClosest closest, and everything being contacted *)
Fixpoint trim_go (need : N) (l : list contact) : list contact :=
  match l with
  | [] => []
  | c :: r => if negb (is_active c) && (need =? 0) then trim_go need r
              else c :: trim_go (N.pred need) r
  end.

Definition first_new (l : list contact) : option N :=
  match find is_new l with Some c => Some (c_id c) | None => None end.

Definition trim (s : search) (final : bool) : search :=
  let l := trim_go (if final then 0 else max_contacts) (s_cs s) in
  mkS (s_target s) l (s_pending s) (s_contacted s) (s_replied s) (s_conc s) false (s_started s) (first_new l) (s_err s).

Fixpoint set_status (id : N) (st : cstat) (l : list contact) : list contact :=
  match l with
  | [] => []
  | c :: r => if c_id c =? id then mkC (c_id c) (c_ip c) (c_port c) st :: r else c :: set_status id st r
  end.

(* the first uncontacted node strictly after id *)
Fixpoint next_new_after (id : N) (l : list contact) : option N :=
  match l with
  | [] => None
  | c :: r => if c_id c =? id then first_new r else next_new_after id r
  end.

(* DhtSearch::get_contact *)
Definition get_contact (s : search) : search * option N :=
  if s_conc s <=? s_pending s then (s, None)
  else let s1 := if s_restart s then trim s false else s in
       match s_next s1 with
       | None => (s1, None)
       | Some id =>
         let l := set_status id CActive (s_cs s1) in
         (mkS (s_target s1) l (s_pending s1 + 1) (s_contacted s1 + 1) (s_replied s1) (s_conc s1) (s_restart s1)
              (s_started s1) (next_new_after id l) (s_err s1), Some id)
       end.

Definition find_contact (id : N) (l : list contact) : option contact := find (fun c => c_id c =? id) l.

(* DhtSearch::node_status *)
Definition node_status (s : search) (id : N) (ok : bool) : search :=
  match find_contact id (s_cs s) with
  | Some c =>
    if is_active c then
      mkS (s_target s) (set_status id (if ok then CGood else CBad) (s_cs s)) (N.pred (s_pending s)) (s_contacted s)
          (if ok then s_replied s + 1 else s_replied s) (s_conc s) (s_restart s) (s_started s) (s_next s) (s_err s)
    else mkS (s_target s) (s_cs s) (s_pending s) (s_contacted s) (s_replied s) (s_conc s) (s_restart s) (s_started s) (s_next s) true
  | None => mkS (s_target s) (s_cs s) (s_pending s) (s_contacted s) (s_replied s) (s_conc s) (s_restart s) (s_started s) (s_next s) true
  end.

Inductive qop := SAdd (id ip port : N) | SGet | SStatus (id : N) (ok : bool) | STrimFinal | SStart.
Inductive qres := SRnone | SRbool (b : bool) | SRid (o : option N).

Definition search_step (s : search) (o : qop) : search * qres :=
  if s_err s then (s, SRnone) else
  match o with
  | SAdd id ip port => let (s', b) := add_contact s id ip port in (s', SRbool b)
  | SGet => let (s', r) := get_contact s in (s', SRid r)
  | SStatus id ok => (node_status s id ok, SRnone)
  | STrimFinal => (trim s true, SRnone)
  | SStart => (mkS (s_target s) (s_cs s) (s_pending s) (s_contacted s) (s_replied s) (s_conc s) (s_restart s) true (s_next s) (s_err s),
               SRbool (negb (s_pending s =? 0)))
  end.

Definition search_complete (s : search) : bool := s_started s && (s_pending s =? 0).
Definition search_run (s : search) (ops : list qop) : search := fold_left (fun a o => fst (search_step a o)) ops s.
