(* C15 — routing table invariant, part A: definitions and bucket-level lemmas. *)
From Coq Require Import List NArith Bool Lia Permutation.
From LTV.C15 Require Import ParamsGen.
From LTV.C15 Require Import Model ProofsMid.
Import ListNotations.
Local Open Scope N_scope.

Lemma K_ge2 : 2 <= K.
Proof. vm_compute. discriminate. Qed.
Lemma idbytes_bits : 8 * N.of_nat idbytes = idbits.
Proof. vm_compute. reflexivity. Qed.
Lemma idspace_256 : idspace = 256 ^ N.of_nat idbytes.
Proof. vm_compute. reflexivity. Qed.
Lemma idspace_pow : idspace = 2 ^ idbits.
Proof. reflexivity. Qed.

(* ---------------------------------------------------------------- the invariant *)
Definition ids_of (b : bucket) : list N := map nid (bnodes b).

Definition bucket_ok (b : bucket) : Prop :=
  (exists k, k <= idbits /\ prefix_range (blo b) (bhi b) k) /\
  Forall (fun i => blo b <= i /\ i <= bhi b) (ids_of b) /\
  NoDup (ids_of b) /\
  lenN (ids_of b) <= K.

(* consecutive buckets: each starts right after its predecessor, the last ends at 2^160 - 1 *)
Fixpoint contiguous (start : N) (bs : list bucket) : Prop :=
  match bs with
  | [] => start = idspace
  | b :: r => blo b = start /\ contiguous (bhi b + 1) r
  end.

Definition tinv (bs : list bucket) : Prop := contiguous 0 bs /\ Forall bucket_ok bs.

Lemma prefix_le : forall lo hi k, prefix_range lo hi k -> lo <= hi.
Proof. intros lo hi k [H _]. pose proof (N.pow_nonzero 2 k). lia. Qed.

Lemma ok_le : forall b, bucket_ok b -> blo b <= bhi b.
Proof. intros b [[k [_ P]] _]. eapply prefix_le; eauto. Qed.

Lemma bucket_ok_ext : forall b b', blo b' = blo b -> bhi b' = bhi b -> ids_of b' = ids_of b ->
  bucket_ok b -> bucket_ok b'.
Proof. unfold bucket_ok. intros b b' H1 H2 H3 H. rewrite H1, H2, H3. exact H. Qed.

Lemma contiguous_le : forall bs s, contiguous s bs -> Forall bucket_ok bs -> s <= idspace.
Proof.
  induction bs as [|b r IH]; simpl; intros s H F.
  - lia.
  - destruct H as [H1 H2]. inversion F; subst. specialize (IH _ H2 H4). pose proof (ok_le b H3). lia.
Qed.

Lemma contiguous_bounds : forall bs s b, contiguous s bs -> Forall bucket_ok bs -> In b bs ->
  s <= blo b /\ bhi b + 1 <= idspace.
Proof.
  induction bs as [|b0 r IH]; simpl; intros s b H F I; [destruct I|].
  destruct H as [H1 H2]. inversion F; subst.
  destruct I as [->|I].
  - split; [lia|]. eapply contiguous_le; eauto.
  - destruct (IH _ _ H2 H4 I). pose proof (ok_le b0 H3). split; lia.
Qed.

Lemma get_bucket_in : forall k bs b, get_bucket k bs = Some b -> In b bs /\ bhi b = k.
Proof.
  induction bs as [|b0 r IH]; simpl; intros b H; [discriminate|].
  destruct (bhi b0 =? k) eqn:E.
  - inversion H; subst. apply N.eqb_eq in E. split; [left; reflexivity|assumption].
  - destruct (IH _ H). split; [right; assumption|assumption].
Qed.

Lemma map_bucket_id : forall k f bs, (forall b, In b bs -> bhi b <> k) -> map_bucket k f bs = bs.
Proof.
  induction bs as [|b r IH]; simpl; intros H; [reflexivity|].
  destruct (bhi b =? k) eqn:E.
  - apply N.eqb_eq in E. exfalso. apply (H b); [left; reflexivity|assumption].
  - f_equal. apply IH. intros. apply H. right. assumption.
Qed.

(* updating buckets in place without changing range or ids *)
Lemma contiguous_map : forall g bs s, (forall b, blo (g b) = blo b /\ bhi (g b) = bhi b) ->
  contiguous s bs -> contiguous s (map g bs).
Proof.
  induction bs as [|b r IH]; simpl; intros s H C; [assumption|].
  destruct C as [C1 C2]. destruct (H b) as [H1 H2]. rewrite H1, H2. split; [assumption|]. apply IH; assumption.
Qed.

Lemma tinv_map : forall g bs,
  (forall b, blo (g b) = blo b /\ bhi (g b) = bhi b) ->
  (forall b, bucket_ok b -> bucket_ok (g b)) ->
  tinv bs -> tinv (map g bs).
Proof.
  intros g bs H1 H2 [C F]. split.
  - apply contiguous_map; assumption.
  - apply Forall_map. eapply Forall_impl; [|exact F]. intros; apply H2; assumption.
Qed.

Lemma tinv_map_bucket : forall k f bs,
  (forall b, blo (f b) = blo b /\ bhi (f b) = bhi b) ->
  (forall b, bucket_ok b -> bucket_ok (f b)) ->
  tinv bs -> tinv (map_bucket k f bs).
Proof.
  intros. unfold map_bucket. apply tinv_map; [| |assumption].
  - intros b. destruct (bhi b =? k); [apply H|split; reflexivity].
  - intros b Hb. destruct (bhi b =? k); [apply H0|]; assumption.
Qed.

(* ---------------------------------------------------------------- node list lemmas *)
Lemma upd_node_ids : forall id g l, (forall n, nid (g n) = nid n) -> map nid (upd_node id g l) = map nid l.
Proof.
  induction l as [|n r IH]; simpl; intros H; [reflexivity|].
  destruct (nid n =? id); simpl; [rewrite H; reflexivity|rewrite IH by assumption; reflexivity].
Qed.

Lemma remove_id_in : forall id l x, In x (map nid (remove_id id l)) -> In x (map nid l).
Proof.
  induction l as [|n r IH]; simpl; intros x H; [assumption|].
  destruct (nid n =? id); simpl in *; [right; assumption|].
  destruct H; [left; assumption|right; apply IH; assumption].
Qed.

Lemma remove_id_nodup : forall id l, NoDup (map nid l) -> NoDup (map nid (remove_id id l)).
Proof.
  induction l as [|n r IH]; simpl; intros H; [assumption|]. inversion H; subst.
  destruct (nid n =? id); simpl; [assumption|]. constructor; [|apply IH; assumption].
  intro I. apply H2. eapply remove_id_in; eauto.
Qed.

Lemma remove_id_forall : forall (P : N -> Prop) id l, Forall P (map nid l) -> Forall P (map nid (remove_id id l)).
Proof.
  intros P id l H. rewrite Forall_forall in *. intros x I. apply H. eapply remove_id_in; eauto.
Qed.

Lemma remove_id_len : forall id l, (length (remove_id id l) <= length l)%nat.
Proof. induction l as [|n r IH]; simpl; [lia|]. destruct (nid n =? id); simpl; lia. Qed.

Lemma remove_id_len_in : forall id l, In id (map nid l) -> S (length (remove_id id l)) = length l.
Proof.
  induction l as [|n r IH]; simpl; intros H; [destruct H|].
  destruct (nid n =? id) eqn:E; simpl; [reflexivity|].
  destruct H as [H|H]; [apply N.eqb_neq in E; contradiction|]. rewrite IH by assumption. reflexivity.
Qed.

Lemma find_in_nodes_some : forall id l n, find_in_nodes id l = Some n -> In n l /\ nid n = id.
Proof.
  induction l as [|m r IH]; simpl; intros n H; [discriminate|].
  destruct (nid m =? id) eqn:E.
  - inversion H; subst. apply N.eqb_eq in E. split; [left; reflexivity|assumption].
  - destruct (IH _ H). split; [right; assumption|assumption].
Qed.

Lemma find_in_nodes_none : forall id l, find_in_nodes id l = None -> ~ In id (map nid l).
Proof.
  induction l as [|m r IH]; simpl; intros H; [tauto|].
  destruct (nid m =? id) eqn:E; [discriminate|]. apply N.eqb_neq in E. intros [A|A]; [contradiction|].
  apply IH; assumption.
Qed.

Lemma lookup_none : forall id bs b, lookup id bs = None -> In b bs -> ~ In id (ids_of b).
Proof.
  induction bs as [|b0 r IH]; simpl; intros b H I; [destruct I|].
  destruct (find_in_nodes id (bnodes b0)) eqn:F; [discriminate|].
  destruct I as [->|I]; [apply find_in_nodes_none; assumption|apply IH; assumption].
Qed.

(* ---------------------------------------------------------------- bucket-level operations keep bucket_ok *)
Lemma ok_touch : forall t b, bucket_ok b -> bucket_ok (touch t b).
Proof. intros. eapply bucket_ok_ext; eauto. Qed.
Lemma ok_set_cache : forall c b, bucket_ok b -> bucket_ok (set_cache b c).
Proof. intros. eapply bucket_ok_ext; eauto. Qed.
Lemma ok_set_counts : forall g d b, bucket_ok b -> bucket_ok (set_counts b g d).
Proof. intros. eapply bucket_ok_ext; eauto. Qed.

Lemma ok_set_good : forall t n b, bucket_ok b -> bucket_ok (b_set_good t n b).
Proof.
  intros t n b H. unfold b_set_good.
  destruct (is_good n); (eapply bucket_ok_ext; [| | |exact H]; try reflexivity;
    unfold ids_of; simpl; apply upd_node_ids; reflexivity).
Qed.

Lemma ok_inactive : forall n b, bucket_ok b -> bucket_ok (b_inactive n b).
Proof.
  intros n b H. unfold b_inactive.
  destruct (ninact n + 1 =? max_failed); [destruct (is_bad n)|];
    (eapply bucket_ok_ext; [| | |exact H]; try reflexivity;
     unfold ids_of; simpl; apply upd_node_ids; reflexivity).
Qed.

Lemma ok_housekeeping : forall t b, bucket_ok b -> bucket_ok (housekeeping_bucket t b).
Proof.
  intros t b H. eapply bucket_ok_ext; [| | |exact H]; try reflexivity.
  unfold ids_of. simpl. rewrite map_map. reflexivity.
Qed.

Lemma ok_remove : forall n b, bucket_ok b -> bucket_ok (b_remove n b).
Proof.
  intros n b [P [F [D L]]]. unfold bucket_ok, b_remove, ids_of in *. simpl.
  split; [exact P|]. split; [apply remove_id_forall; assumption|].
  split; [apply remove_id_nodup; assumption|].
  unfold lenN in *. rewrite map_length in *. pose proof (remove_id_len (nid n) (bnodes b)). lia.
Qed.

Lemma ok_add : forall t n b, bucket_ok b -> is_full b = false ->
  blo b <= nid n -> nid n <= bhi b -> ~ In (nid n) (ids_of b) -> bucket_ok (b_add t n b).
Proof.
  intros t n b [P [F [D L]]] NF H1 H2 NI. unfold bucket_ok, b_add, ids_of in *. simpl.
  rewrite map_app. simpl. split; [exact P|]. split.
  - apply Forall_app. split; [assumption|]. constructor; [split; assumption|constructor].
  - split.
    + apply Permutation_NoDup with (l := nid n :: map nid (bnodes b)).
      * apply Permutation_cons_append.
      * constructor; assumption.
    + unfold is_full in NF. apply N.leb_gt in NF. unfold lenN in *. rewrite app_length, map_length in *. simpl. lia.
Qed.
