(* C15 — announce tokens and the peer store: token_window, announce_then_get (refuted as stated,
   proved for the byte order the code really stores). *)
From Coq Require Import List NArith Bool Lia.
From LTV.C15 Require Import ParamsGen.
From LTV.C15 Require Import Model.
Import ListNotations.
Local Open Scope N_scope.

Lemma bytes_eqb_eq : forall a b, bytes_eqb a b = true <-> a = b.
Proof.
  induction a as [|x a IH]; destruct b as [|y b]; simpl; split; intro H; try congruence; try discriminate.
  - apply andb_true_iff in H. destruct H as [H1 H2]. apply N.eqb_eq in H1. apply IH in H2. congruence.
  - inversion H; subst. rewrite N.eqb_refl. simpl. apply IH. reflexivity.
Qed.

Section Tokens.
Variable sha : list N -> list N.
Hypothesis sha_len : forall x, length (sha x) = 20%nat.

Notation step := (step sha).
Notation run := (run sha).
Notation token_for := (token_for sha).
Notation token_valid := (token_valid sha).

Lemma token_len : forall sec ip, lenN (token_for sec ip) = Params.dht_size_token.
Proof.
  intros. unfold token_for, lenN. rewrite firstn_length, sha_len. vm_compute. reflexivity.
Qed.

(* accepted iff the token is H(secret, ip)[0..8] for the current or the previous secret *)
Lemma token_valid_spec : forall s tok ip,
  token_valid s tok ip = true <-> (tok = token_for (cur s) ip \/ tok = token_for (prev s) ip).
Proof.
  intros. unfold Model.token_valid. rewrite andb_true_iff, orb_true_iff, !bytes_eqb_eq. split.
  - intros [_ H]. exact H.
  - intros H. split; [|exact H]. apply N.eqb_eq. destruct H as [H|H]; rewrite H; apply token_len.
Qed.

(* an announce is accepted (the peer store is touched, no error reply) iff the token is valid *)
Lemma announce_accept_iff : forall s ih ip port tok,
  err s = false ->
  (snd (step s (OAnnounce ih ip port tok)) = Rnone <-> token_valid s tok ip = true) /\
  (snd (step s (OAnnounce ih ip port tok)) = Rerr 1 <-> token_valid s tok ip = false) /\
  (token_valid s tok ip = false -> fst (step s (OAnnounce ih ip port tok)) = s).
Proof.
  intros. unfold Model.step. rewrite H. destruct (token_valid s tok ip); simpl; repeat split; intros; congruence.
Qed.

(* secrets supplied by the housekeeping ops of an op list, oldest first *)
Fixpoint secrets (ops : list op) : list N :=
  match ops with
  | [] => []
  | OHousekeeping x :: r => x :: secrets r
  | _ :: r => secrets r
  end.

Definition rot (cp : N * N) (x : N) : N * N := (x, fst cp).

Lemma step_secrets : forall s o, err s = false ->
  (cur (fst (step s o)), prev (fst (step s o))) = fold_left rot (secrets [o]) (cur s, prev s) /\
  (err (fst (step s o)) = true -> True).
Proof.
  intros s o He. split; [|trivial]. unfold Model.step. rewrite He.
  destruct o; simpl; try reflexivity.
  - destruct (id =? own s); [reflexivity|]. unfold node_queried.
    destruct (lookup id (tb (tab s))) as [[k n]|]; [|reflexivity]. destruct (negb (nip n =? ip)); reflexivity.
  - destruct (id =? own s); [reflexivity|]. unfold node_replied.
    destruct (lookup id (tb (tab s))) as [[k n]|].
    + destruct (negb (nip n =? ip)); reflexivity.
    + destruct (negb (want_node s id)); [reflexivity|].
      destruct (add_node_to_bucket _ _ _ _) as [t [|]|t|]; try reflexivity.
      destruct (lookup id (tb t)) as [[k n]|]; reflexivity.
  - destruct (id =? own s); [reflexivity|]. unfold node_inactive.
    destruct (lookup id (tb (tab s))) as [[k n]|]; [|reflexivity]. destruct (negb (nip n =? ip)); [reflexivity|].
    destruct (lookup id _) as [[k' n1]|]; [|reflexivity].
    destruct (is_bad n1 && _); reflexivity.
  - unfold node_invalid. destruct (lookup id (tb (tab s))) as [[k n]|]; reflexivity.
  - destruct (Model.token_valid sha s tok ip); reflexivity.
  - destruct (get_tracker ih (trackers s)) as [[|p l]|];
      try (destruct (closest_nodes (tab s) ih) as [t' [|c l']]; reflexivity).
  - destruct (closest_nodes (tab s) target) as [t' [|c l']]; reflexivity.
Qed.

(* once the error flag is set nothing changes any more *)
Lemma step_err : forall s o, err s = true -> fst (step s o) = s.
Proof. intros. unfold Model.step. rewrite H. reflexivity. Qed.

Lemma run_err : forall ops s, err s = true -> run s ops = s.
Proof. induction ops; simpl; intros; [reflexivity|]. rewrite step_err by assumption. apply IHops. assumption. Qed.

(* token rotation over any op list that does not hit an internal error:
   (cur, prev) is obtained by shifting in the housekeeping secrets *)
Lemma run_secrets : forall ops s, err (run s ops) = false ->
  (cur (run s ops), prev (run s ops)) = fold_left rot (secrets ops) (cur s, prev s).
Proof.
  induction ops as [|o ops IH]; intros s He; [reflexivity|].
  simpl in *. destruct (err s) eqn:Es.
  { rewrite step_err in He by assumption. rewrite run_err in He by assumption. congruence. }
  rewrite IH by assumption.
  destruct (step_secrets s o Es) as [H _]. rewrite H.
  destruct o; simpl; reflexivity.
Qed.

(* token_window, lifetime part: a token issued now stays valid over any op list with at most one
   rotation; after two or more rotations it is accepted only if it also equals the token of one of
   the two newest secrets (a hash collision) *)
Lemma token_lifetime : forall s ip ops,
  err (run s ops) = false ->
  let tok := token_for (cur s) ip in
  match rev (secrets ops) with
  | [] => token_valid (run s ops) tok ip = true
  | [_] => token_valid (run s ops) tok ip = true
  | s2 :: s1 :: _ => token_valid (run s ops) tok ip = true <-> (tok = token_for s2 ip \/ tok = token_for s1 ip)
  end.
Proof.
  intros s ip ops He tok.
  pose proof (run_secrets ops s He) as H.
  assert (G : forall l cp, fold_left rot l cp =
              match rev l with [] => cp | [x] => (x, fst cp) | x2 :: x1 :: _ => (x2, x1) end).
  { induction l as [|x l IHl] using rev_ind; intros cp; [reflexivity|].
    rewrite fold_left_app, rev_app_distr. simpl. rewrite IHl.
    destruct (rev l) as [|y [|z r]]; reflexivity. }
  rewrite G in H. clear G.
  destruct (rev (secrets ops)) as [|x2 [|x1 r]]; simpl in H; inversion H as [[Hc Hp]].
  - apply token_valid_spec. left. rewrite Hc. reflexivity.
  - apply token_valid_spec. right. rewrite Hp. reflexivity.
  - rewrite token_valid_spec, Hc, Hp. reflexivity.
Qed.

(* ------------------------------------------------------------------ peer store *)

Lemma get_upd_tracker : forall ih f tr, get_tracker ih (upd_tracker ih f tr) =
  Some (f (match get_tracker ih tr with Some l => l | None => [] end)).
Proof.
  induction tr as [|[h l] r IH]; simpl.
  - rewrite N.eqb_refl. reflexivity.
  - destruct (h =? ih) eqn:E; simpl.
    + rewrite E. reflexivity.
    + rewrite E. exact IH.
Qed.

Lemma update_peer_has : forall ip p t l l', update_peer ip p t l = Some l' -> In (mkPeer ip p t) l' /\ length l' = length l.
Proof.
  induction l as [|q r IH]; simpl; intros l' H; [discriminate|].
  destruct (pip q =? ip).
  - inversion H; subst. split; [left; reflexivity|reflexivity].
  - destruct (update_peer ip p t r) as [r'|]; [|discriminate]. inversion H; subst.
    destruct (IH r' eq_refl). split; [right; assumption|simpl; congruence].
Qed.

Lemma replace_nth_in : forall (A : Type) (x : A) l i, (i < length l)%nat -> In x (replace_nth i x l) /\ length (replace_nth i x l) = length l.
Proof.
  induction l as [|y r IH]; simpl; intros i Hi; [lia|]. destruct i; simpl.
  - split; [left; reflexivity|reflexivity].
  - destruct (IH i ltac:(lia)). split; [right; assumption|congruence].
Qed.

Lemma oldest_go_lt : forall l i best bt, (best < i + length l)%nat -> (oldest_go l i best bt < i + length l)%nat.
Proof.
  induction l as [|p r IH]; simpl; intros; [lia|].
  destruct (pseen p <? bt).
  - specialize (IH (S i) i (pseen p)). lia.
  - specialize (IH (S i) best bt). lia.
Qed.

(* DhtTracker::add_peer with a non-zero 16-bit port stores (ip, port FIELD = port value) *)
Lemma add_peer_has : forall t ip port l, port16 port <> 0 ->
  In (mkPeer ip (port16 port) (t mod u32)) (add_peer t ip port l) /\ (length l <= length (add_peer t ip port l))%nat.
Proof.
  intros. unfold add_peer. destruct (port16 port =? 0) eqn:E; [apply N.eqb_eq in E; contradiction|].
  destruct (update_peer ip (port16 port) (t mod u32) l) as [l'|] eqn:U.
  - destruct (update_peer_has _ _ _ _ _ U). split; [assumption|lia].
  - destruct (lenN l <? Params.dht_tracker_max_size) eqn:F.
    + split; [apply in_or_app; right; left; reflexivity|rewrite app_length; lia].
    + assert (length l <> 0)%nat.
      { intro Z. apply length_zero_iff_nil in Z. subst. vm_compute in F. discriminate. }
      pose proof (oldest_go_lt l 0 0 (u32 - 1) ltac:(lia)).
      destruct (replace_nth_in peer (mkPeer ip (port16 port) (t mod u32)) l _ H1). split; [assumption|lia].
Qed.

(* what get_peers really returns for a small store: every stored peer as s_addr bytes followed by
   the port field in HOST byte order (low byte first on the little-endian host) *)
Lemma get_peers_small : forall rnd l p, lenN l <= Params.dht_tracker_max_peers -> In p l ->
  In (ipbytes (pip p) ++ [pport p mod 256; (pport p / 256) mod 256]) (get_peers rnd l).
Proof.
  intros. unfold get_peers. destruct (Params.dht_tracker_max_peers <? lenN l) eqn:E; [apply N.ltb_lt in E; lia|].
  apply in_map_iff. exists p. split; [reflexivity|assumption].
Qed.

(* announce_then_get, in the byte order the code implements: after an accepted announce_peer
   (ih, port) from ip, a get_peers for ih answers with values containing ip ++ port-field bytes in
   host order, as long as the store for ih holds at most max_peers entries *)
Lemma announce_then_get_hostorder : forall s ih ip port tok ip2 rnd,
  err s = false -> token_valid s tok ip = true -> port16 port <> 0 ->
  let s1 := fst (step s (OAnnounce ih ip port tok)) in
  (forall l, get_tracker ih (trackers s1) = Some l -> lenN l <= Params.dht_tracker_max_peers) ->
  exists t vals, snd (step s1 (OGetPeers ih ip2 rnd)) = Rpeers t vals /\
                 In (ipbytes ip ++ [port16 port mod 256; (port16 port / 256) mod 256]) vals.
Proof.
  intros s ih ip port tok ip2 rnd He Hv Hp s1 Hsmall.
  assert (S1 : s1 = with_trackers s (upd_tracker ih (add_peer (now s) ip port) (trackers s))).
  { unfold s1, Model.step. rewrite He, Hv. reflexivity. }
  assert (E1 : err s1 = false) by (rewrite S1; exact He).
  pose proof (get_upd_tracker ih (add_peer (now s) ip port) (trackers s)) as G.
  set (l0 := match get_tracker ih (trackers s) with Some l => l | None => [] end) in G.
  destruct (add_peer_has (now s) ip port l0 Hp) as [Hin Hlen].
  assert (G1 : get_tracker ih (trackers s1) = Some (add_peer (now s) ip port l0)) by (rewrite S1; exact G).
  specialize (Hsmall _ G1).
  unfold Model.step. rewrite E1, G1.
  destruct (add_peer (now s) ip port l0) as [|p l] eqn:A; [destruct Hin|].
  eexists; eexists; split; [reflexivity|].
  apply (get_peers_small rnd (p :: l) _ Hsmall Hin).
Qed.

End Tokens.

(* announce_then_get as the property states it (network byte order) is FALSE of the code:
   DhtTracker::add_peer receives the bencode integer a.port in host order and stores it unchanged
   in SocketAddressCompact.port, whose bytes go onto the wire as they lie in memory. *)
Definition wit_sha (x : list N) : list N := repeat 7 20.
Definition wit_ih : N := 1.
Definition wit_ip : N := 16909060.       (* 1.2.3.4 *)
Definition wit_port : N := 6881.         (* 0x1ae1 *)
Definition wit_state : state := init (2 ^ 159 + 1) 111 222 34560000.

Lemma announce_then_get_refuted :
  exists (sha : list N -> list N) s ih ip port tok ip2 rnd,
    (forall x, length (sha x) = 20%nat) /\ err s = false /\ token_valid sha s tok ip = true /\ port16 port <> 0 /\
    let s1 := fst (step sha s (OAnnounce ih ip port tok)) in
    exists t vals, snd (step sha s1 (OGetPeers ih ip2 rnd)) = Rpeers t vals /\
      (* the accepted (ip, port) in network byte order is NOT among the values ... *)
      ~ In (ipbytes ip ++ [(port / 256) mod 256; port mod 256]) vals /\
      (* ... the byte-swapped port is *)
      vals = [ipbytes ip ++ [port mod 256; (port / 256) mod 256]].
Proof.
  exists wit_sha, wit_state, wit_ih, wit_ip, wit_port, (token_for wit_sha 111 wit_ip), 5, 0.
  split; [intros; reflexivity|]. split; [reflexivity|]. split; [vm_compute; reflexivity|].
  split; [vm_compute; discriminate|].
  cbv zeta. eexists; eexists. split; [vm_compute; reflexivity|].
  split; [|vm_compute; reflexivity].
  vm_compute. intros [H|[]]. discriminate H.
Qed.

(* non-vacuity of the hypotheses of announce_then_get_hostorder / token_lifetime *)
Example tokens_hyps_sat :
  err wit_state = false /\ token_valid wit_sha wit_state (token_for wit_sha 111 wit_ip) wit_ip = true /\
  port16 wit_port <> 0 /\ err (run wit_sha wit_state [OHousekeeping 5; OTick 900; OHousekeeping 6]) = false.
Proof. repeat split; try (vm_compute; reflexivity). vm_compute. discriminate. Qed.
