(* C15 — announce tokens and the peer store: token_window, announce_then_get. *)
From Coq Require Import List NArith Bool Lia.
From LTV.C15 Require Import ParamsGen.
From LTV.C15 Require Import Model.
Import ListNotations.
Local Open Scope N_scope.

Lemma bytes_eqb_eq : forall a b, bytes_eqb a b = true <-> a = b.
Proof.
  induction a as [|x a IH]; destruct b as [|y b]; simpl; split; intro H; try congruence; try discriminate.
  - apply andb_true_iff in H. destruct H as [H1 H2]. apply N.eqb_eq in H1. apply IH in H2. congruence.
  - inversion H; subst. rewrite N.eqb_refl. simpl. apply IH. reflexivity.
Qed.

Section Tokens.
Variable sha : list N -> list N.
Hypothesis sha_len : forall x, length (sha x) = 20%nat.

Notation step := (step sha).
Notation run := (run sha).
Notation token_for := (token_for sha).
Notation token_valid := (token_valid sha).

Lemma token_len : forall sec ip, lenN (token_for sec ip) = Params.dht_size_token.
Proof.
  intros. unfold token_for, lenN. rewrite firstn_length, sha_len. vm_compute. reflexivity.
Qed.

(* accepted iff the token is H(secret, ip)[0..8] for the current or the previous secret *)
Lemma token_valid_spec : forall s tok ip,
  token_valid s tok ip = true <-> (tok = token_for (cur s) ip \/ tok = token_for (prev s) ip).
Proof.
  intros. unfold Model.token_valid. rewrite andb_true_iff, orb_true_iff, !bytes_eqb_eq. split.
  - intros [_ H]. exact H.
  - intros H. split; [|exact H]. apply N.eqb_eq. destruct H as [H|H]; rewrite H; apply token_len.
Qed.

(* an announce (with a port in 1..65535) is accepted iff the token is valid; a refused announce
   changes nothing *)
Definition port_ok (port : N) : Prop := 1 <= port /\ port <= 65535.
Lemma port_ok_test : forall port, port_ok port -> ((port <? 1) || (65535 <? port)) = false.
Proof. intros port [A B]. apply orb_false_iff. split; apply N.ltb_ge; assumption. Qed.

Lemma announce_accept_iff : forall s ih ip port tok,
  err s = false -> port_ok port ->
  (snd (step s (OAnnounce ih ip port tok)) = Rnone <-> token_valid s tok ip = true) /\
  (snd (step s (OAnnounce ih ip port tok)) = Rerr 1 <-> token_valid s tok ip = false) /\
  (token_valid s tok ip = false -> fst (step s (OAnnounce ih ip port tok)) = s).
Proof.
  intros s ih ip port tok H P. unfold Model.step. rewrite H, (port_ok_test _ P).
  destruct (token_valid s tok ip); simpl; repeat split; intros; congruence.
Qed.

(* whatever the token, a port outside 1..65535 is never stored *)
Lemma announce_bad_port : forall s ih ip port tok, err s = false -> ~ port_ok port ->
  fst (step s (OAnnounce ih ip port tok)) = s /\ snd (step s (OAnnounce ih ip port tok)) <> Rnone.
Proof.
  intros s ih ip port tok H P. unfold Model.step. rewrite H.
  destruct (token_valid s tok ip); [|split; [reflexivity|discriminate]].
  destruct ((port <? 1) || (65535 <? port)) eqn:E; [split; [reflexivity|discriminate]|].
  exfalso. apply P. apply orb_false_iff in E. destruct E as [A B]. apply N.ltb_ge in A. apply N.ltb_ge in B. split; assumption.
Qed.

(* secrets supplied by the housekeeping ops of an op list, oldest first *)
Fixpoint secrets (ops : list op) : list N :=
  match ops with
  | [] => []
  | OHousekeeping x :: r => x :: secrets r
  | _ :: r => secrets r
  end.

Definition rot (cp : N * N) (x : N) : N * N := (x, fst cp).

Ltac crush := repeat (match goal with
  | |- context [match ?x with _ => _ end] => destruct x
  | |- context [if ?x then _ else _] => destruct x
  end; simpl); try reflexivity.

Lemma node_queried_cp : forall s id ip, let s' := fst (node_queried s id ip) in
  cur s' = cur s /\ prev s' = prev s /\ own s' = own s /\ now s' = now s /\ err s' = err s.
Proof. intros. unfold s', node_queried. crush; repeat split. Qed.

Lemma query_body_cp : forall s ip rnd q m, let s' := fst (query_body sha s ip rnd q m) in
  cur s' = cur s /\ prev s' = prev s /\ own s' = own s /\ now s' = now s /\ err s' = err s.
Proof. intros. unfold s', query_body. crush; repeat split. Qed.

Lemma dgram_cp : forall s ip rnd m, let s' := fst (dgram sha s ip rnd m) in
  cur s' = cur s /\ prev s' = prev s /\ own s' = own s /\ now s' = now s /\ err s' = err s.
Proof.
  intros. unfold s', dgram.
  destruct (m_t m) as [t|]; [|repeat split]. destruct (20 <? lenN t); [repeat split|].
  destruct (m_y m) as [[|ty [|? ?]]|]; try (repeat split; fail).
  destruct (ty =? 113); [|repeat split]. destruct (m_id m) as [idb|]; [|repeat split].
  destruct (lenN idb <? hs_len); [repeat split|].
  generalize (be_to_N (firstn idbytes idb)). intro nid0. destruct (nid0 =? own s); [repeat split|].
  destruct (m_q m) as [q|]; [|repeat split].
  pose proof (query_body_cp s ip rnd q m) as H. cbv zeta in H.
  destruct (query_body sha s ip rnd q m) as [s1 [e|[[tok nodes] vals]]]; cbn [fst snd] in *; [assumption|].
  pose proof (node_queried_cp s1 nid0 ip) as H2. cbv zeta in H2.
  destruct H as [A [B [C [D E]]]]. destruct H2 as [A2 [B2 [C2 [D2 E2]]]].
  repeat split; congruence.
Qed.

Lemma step_secrets : forall s o, err s = false ->
  (cur (fst (step s o)), prev (fst (step s o))) = fold_left rot (secrets [o]) (cur s, prev s) /\
  (err (fst (step s o)) = true -> True).
Proof.
  intros s o He. split; [|trivial]. unfold Model.step. rewrite He.
  destruct o as [ip rnd m|ip|dt|id ip port|id ip port|id ip port|id|secret|ip|tok ip|ih ip port tok|ih ip rnd|target|id|];
    simpl; try reflexivity.
  - pose proof (dgram_cp s ip rnd m) as H. cbv zeta in H. destruct H as [A [B _]].
    destruct (m_y m) as [[|ty [|? ?]]|]; try (destruct (dgram sha s ip rnd m); simpl in *; congruence).
    destruct ((ty =? 114) || (ty =? 101)); [reflexivity|]. destruct (dgram sha s ip rnd m); simpl in *; congruence.
  - destruct (id =? own s); [reflexivity|]. unfold node_queried.
    destruct (lookup id (tb (tab s))) as [[k n]|]; [|reflexivity]. destruct (negb (nip n =? ip)); reflexivity.
  - destruct (id =? own s); [reflexivity|]. unfold node_replied.
    destruct (lookup id (tb (tab s))) as [[k n]|].
    + destruct (negb (nip n =? ip)); reflexivity.
    + destruct (negb (want_node s id)); [reflexivity|].
      destruct (add_node_to_bucket _ _ _ _) as [t [|]|t|]; try reflexivity.
      destruct (lookup id (tb _)) as [[k n]|]; reflexivity.
  - destruct (id =? own s); [reflexivity|]. unfold node_inactive.
    destruct (lookup id (tb (tab s))) as [[k n]|]; [|reflexivity]. destruct (negb (nip n =? ip)); [reflexivity|].
    destruct (lookup id _) as [[k' n1]|]; [|reflexivity].
    destruct (is_bad n1 && _); reflexivity.
  - unfold node_invalid. destruct (lookup id (tb (tab s))) as [[k n]|]; reflexivity.
  - destruct (Model.token_valid sha s tok ip); [destruct ((port <? 1) || (65535 <? port))|]; reflexivity.
  - destruct (get_tracker ih (trackers s)) as [[|p l]|];
      try (destruct (closest_nodes (tab s) ih) as [t' [|c l']]; reflexivity).
  - destruct (closest_nodes (tab s) target) as [t' [|c l']]; reflexivity.
Qed.

(* once the error flag is set nothing changes any more *)
Lemma step_err : forall s o, err s = true -> fst (step s o) = s.
Proof. intros. unfold Model.step. rewrite H. reflexivity. Qed.

Lemma run_err : forall ops s, err s = true -> run s ops = s.
Proof. induction ops; simpl; intros; [reflexivity|]. rewrite step_err by assumption. apply IHops. assumption. Qed.

(* token rotation over any op list that does not hit an internal error:
   (cur, prev) is obtained by shifting in the housekeeping secrets *)
Lemma run_secrets : forall ops s, err (run s ops) = false ->
  (cur (run s ops), prev (run s ops)) = fold_left rot (secrets ops) (cur s, prev s).
Proof.
  induction ops as [|o ops IH]; intros s He; [reflexivity|].
  simpl in *. destruct (err s) eqn:Es.
  { rewrite step_err in He by assumption. rewrite run_err in He by assumption. congruence. }
  rewrite IH by assumption.
  destruct (step_secrets s o Es) as [H _]. rewrite H.
  destruct o; simpl; reflexivity.
Qed.

(* token_window, lifetime part: a token issued now stays valid over any op list with at most one
   rotation; after two or more rotations it is accepted only if it also equals the token of one of
   the two newest secrets (a hash collision) *)
Lemma token_lifetime : forall s ip ops,
  err (run s ops) = false ->
  let tok := token_for (cur s) ip in
  match rev (secrets ops) with
  | [] => token_valid (run s ops) tok ip = true
  | [_] => token_valid (run s ops) tok ip = true
  | s2 :: s1 :: _ => token_valid (run s ops) tok ip = true <-> (tok = token_for s2 ip \/ tok = token_for s1 ip)
  end.
Proof.
  intros s ip ops He tok.
  pose proof (run_secrets ops s He) as H.
  assert (G : forall l cp, fold_left rot l cp =
              match rev l with [] => cp | [x] => (x, fst cp) | x2 :: x1 :: _ => (x2, x1) end).
  { induction l as [|x l IHl] using rev_ind; intros cp; [reflexivity|].
    rewrite fold_left_app, rev_app_distr. simpl. rewrite IHl.
    destruct (rev l) as [|y [|z r]]; reflexivity. }
  rewrite G in H. clear G.
  destruct (rev (secrets ops)) as [|x2 [|x1 r]]; simpl in H; inversion H as [[Hc Hp]].
  - apply token_valid_spec. left. rewrite Hc. reflexivity.
  - apply token_valid_spec. right. rewrite Hp. reflexivity.
  - rewrite token_valid_spec, Hc, Hp. reflexivity.
Qed.

(* ------------------------------------------------------------------ peer store *)

Lemma get_upd_tracker : forall ih f tr, get_tracker ih (upd_tracker ih f tr) =
  Some (f (match get_tracker ih tr with Some l => l | None => [] end)).
Proof.
  induction tr as [|[h l] r IH]; simpl.
  - rewrite N.eqb_refl. reflexivity.
  - destruct (h =? ih) eqn:E; simpl.
    + rewrite E. reflexivity.
    + rewrite E. exact IH.
Qed.

Lemma update_peer_has : forall ip p t l l', update_peer ip p t l = Some l' -> In (mkPeer ip p t) l' /\ length l' = length l.
Proof.
  induction l as [|q r IH]; simpl; intros l' H; [discriminate|].
  destruct (pip q =? ip).
  - inversion H; subst. split; [left; reflexivity|reflexivity].
  - destruct (update_peer ip p t r) as [r'|]; [|discriminate]. inversion H; subst.
    destruct (IH r' eq_refl). split; [right; assumption|simpl; congruence].
Qed.

Lemma replace_nth_in : forall (A : Type) (x : A) l i, (i < length l)%nat -> In x (replace_nth i x l) /\ length (replace_nth i x l) = length l.
Proof.
  induction l as [|y r IH]; simpl; intros i Hi; [lia|]. destruct i; simpl.
  - split; [left; reflexivity|reflexivity].
  - destruct (IH i ltac:(lia)). split; [right; assumption|congruence].
Qed.

Lemma oldest_go_lt : forall l i best bt, (best < i + length l)%nat -> (oldest_go l i best bt < i + length l)%nat.
Proof.
  induction l as [|p r IH]; simpl; intros; [lia|].
  destruct (pseen p <? bt).
  - specialize (IH (S i) i (pseen p)). lia.
  - specialize (IH (S i) best bt). lia.
Qed.

(* DhtTracker::add_peer with a non-zero 16-bit port stores (ip, htons(port)) *)
Lemma add_peer_has : forall t ip port l, port16 port <> 0 ->
  In (mkPeer ip (htons16 (port16 port)) (t mod u32)) (add_peer t ip port l) /\ (length l <= length (add_peer t ip port l))%nat.
Proof.
  intros. unfold add_peer. destruct (port16 port =? 0) eqn:E; [apply N.eqb_eq in E; contradiction|].
  cbv zeta.
  destruct (update_peer ip (htons16 (port16 port)) (t mod u32) l) as [l'|] eqn:U.
  - destruct (update_peer_has _ _ _ _ _ U). split; [assumption|lia].
  - destruct (lenN l <? Params.dht_tracker_max_size) eqn:F.
    + split; [apply in_or_app; right; left; reflexivity|rewrite app_length; lia].
    + assert (length l <> 0)%nat.
      { intro Z. apply length_zero_iff_nil in Z. subst. vm_compute in F. discriminate. }
      pose proof (oldest_go_lt l 0 0 (u32 - 1) ltac:(lia)).
      destruct (replace_nth_in peer (mkPeer ip (htons16 (port16 port)) (t mod u32)) l _ H1). split; [assumption|lia].
Qed.

(* the memory bytes of the stored field are the port in network byte order *)
Lemma htons16_bytes : forall p, p < 65536 ->
  [htons16 p mod 256; (htons16 p / 256) mod 256] = [(p / 256) mod 256; p mod 256].
Proof.
  intros p Hp. unfold htons16.
  assert (A : ((p mod 256) * 256 + (p / 256) mod 256) mod 256 = (p / 256) mod 256).
  { rewrite N.add_comm, N.mod_add by discriminate. apply N.mod_mod. discriminate. }
  assert (B : ((p mod 256) * 256 + (p / 256) mod 256) / 256 = p mod 256).
  { rewrite N.add_comm, N.div_add by discriminate. rewrite N.div_small; [reflexivity|apply N.mod_lt; discriminate]. }
  rewrite A, B. rewrite N.mod_mod by discriminate. reflexivity.
Qed.

Lemma port16_lt : forall p, port16 p < 65536.
Proof. intros. unfold port16. apply N.mod_lt. discriminate. Qed.

(* get_peers for a small store returns every stored peer as s_addr bytes + port field bytes *)
Lemma get_peers_small : forall rnd l p, lenN l <= Params.dht_tracker_max_peers -> In p l ->
  In (ipbytes (pip p) ++ [pport p mod 256; (pport p / 256) mod 256]) (get_peers rnd l).
Proof.
  intros. unfold get_peers. destruct (Params.dht_tracker_max_peers <? lenN l) eqn:E; [apply N.ltb_lt in E; lia|].
  apply in_map_iff. exists p. split; [reflexivity|assumption].
Qed.

(* the value a peer (ip, port) must appear as: 4 address bytes, port high byte, port low byte *)
Definition compact_peer (ip port : N) : list N := ipbytes ip ++ [(port16 port / 256) mod 256; port16 port mod 256].

Definition stored (ih ip port : N) (s : state) : Prop :=
  exists l p, get_tracker ih (trackers s) = Some l /\ In p l /\ pip p = ip /\ pport p = htons16 (port16 port).

Lemma stored_get_peers : forall s ih ip port ip2 rnd, err s = false -> stored ih ip port s ->
  (forall l, get_tracker ih (trackers s) = Some l -> lenN l <= Params.dht_tracker_max_peers) ->
  exists t vals, snd (step s (OGetPeers ih ip2 rnd)) = Rpeers t vals /\ In (compact_peer ip port) vals.
Proof.
  intros s ih ip port ip2 rnd He [l [p [G [I [P1 P2]]]]] Small.
  unfold Model.step. rewrite He, G. destruct l as [|p0 l]; [destruct I|].
  eexists; eexists; split; [reflexivity|].
  pose proof (get_peers_small rnd (p0 :: l) p (Small _ G) I) as H.
  rewrite P1, P2, (htons16_bytes _ (port16_lt port)) in H. exact H.
Qed.

Lemma port_ok_16 : forall port, port_ok port -> port16 port = port /\ port16 port <> 0.
Proof. intros port [A B]. unfold port16. rewrite N.mod_small by lia. split; [reflexivity|lia]. Qed.

Lemma announce_stores : forall s ih ip port tok, err s = false -> token_valid s tok ip = true -> port_ok port ->
  stored ih ip port (fst (step s (OAnnounce ih ip port tok))) /\ err (fst (step s (OAnnounce ih ip port tok))) = false.
Proof.
  intros s ih ip port tok He Hv Hpo. destruct (port_ok_16 _ Hpo) as [_ Hp].
  unfold Model.step. rewrite He, Hv, (port_ok_test _ Hpo). simpl. split; [|exact He].
  pose proof (get_upd_tracker ih (add_peer (now s) ip port) (trackers s)) as G.
  set (l0 := match get_tracker ih (trackers s) with Some l => l | None => [] end) in G.
  destruct (add_peer_has (now s) ip port l0 Hp) as [Hin _].
  exists (add_peer (now s) ip port l0), (mkPeer ip (htons16 (port16 port)) (now s mod u32)).
  repeat split; assumption.
Qed.

(* ops that leave the peer store of ih alone: everything except housekeeping (pruning) and
   announces for the same info-hash (which may update or, at 128 peers, evict) *)
Definition is_announce_q (m : dmsg) : bool :=
  match m_q m with Some q => bytes_eqb q s_announce_peer | None => false end.
Definition neutral (ih : N) (o : op) : bool :=
  match o with
  | OHousekeeping _ => false
  | OAnnounce ih' _ _ _ => negb (ih' =? ih)
  | ODgram _ _ m => negb (is_announce_q m)
  | _ => true
  end.

Lemma get_upd_tracker_other : forall ih ih' f tr, ih' <> ih -> get_tracker ih (upd_tracker ih' f tr) = get_tracker ih tr.
Proof.
  induction tr as [|[h l] r IH]; simpl; intros Hn.
  - destruct (ih' =? ih) eqn:E; [apply N.eqb_eq in E; contradiction|reflexivity].
  - destruct (h =? ih') eqn:E1; simpl.
    + apply N.eqb_eq in E1. subst h. destruct (ih' =? ih) eqn:E; [apply N.eqb_eq in E; contradiction|reflexivity].
    + destruct (h =? ih); [reflexivity|apply IH; assumption].
Qed.

Lemma closest_fst_trackers : forall s id, trackers (with_tab s (fst (closest_nodes (tab s) id))) = trackers s.
Proof. reflexivity. Qed.

Lemma query_body_trackers : forall s ip rnd q m, bytes_eqb q s_announce_peer = false ->
  trackers (fst (query_body sha s ip rnd q m)) = trackers s.
Proof.
  intros s ip rnd q m Hq. unfold query_body. rewrite Hq.
  destruct (bytes_eqb q s_find_node).
  { destruct (m_target m); [|reflexivity]. destruct (lenN l <? hs_len); [reflexivity|].
    destruct (closest_nodes _ _) as [t' [|c l']]; reflexivity. }
  destruct (bytes_eqb q s_get_peers).
  { destruct (m_ih m); [|reflexivity]. destruct (lenN l <? hs_len); [reflexivity|].
    destruct (get_tracker _ _) as [[|p l0]|]; try reflexivity;
      destruct (closest_nodes _ _) as [t' [|c l']]; reflexivity. }
  destruct (bytes_eqb q s_ping); reflexivity.
Qed.

Lemma node_queried_trackers : forall s id ip, trackers (fst (node_queried s id ip)) = trackers s.
Proof.
  intros. unfold node_queried. destruct (lookup id (tb (tab s))) as [[k n]|]; [|reflexivity].
  destruct (negb (nip n =? ip)); reflexivity.
Qed.

Lemma dgram_trackers : forall s ip rnd m, is_announce_q m = false ->
  trackers (fst (dgram sha s ip rnd m)) = trackers s.
Proof.
  intros s ip rnd m Hq. unfold dgram.
  destruct (m_t m) as [t|]; [|reflexivity]. destruct (20 <? lenN t); [reflexivity|].
  destruct (m_y m) as [[|ty [|? ?]]|]; try reflexivity.
  destruct (ty =? 113); [|reflexivity]. destruct (m_id m) as [idb|]; [|reflexivity].
  destruct (lenN idb <? hs_len); [reflexivity|].
  generalize (be_to_N (firstn idbytes idb)). intro nid0. destruct (nid0 =? own s); [reflexivity|].
  unfold is_announce_q in Hq. destruct (m_q m) as [q|]; [|reflexivity].
  pose proof (query_body_trackers s ip rnd q m Hq) as H.
  destruct (query_body sha s ip rnd q m) as [s1 [e|[[tok nodes] vals]]]; cbn [fst snd] in *; [assumption|].
  rewrite node_queried_trackers. assumption.
Qed.

Lemma neutral_step : forall ih s o, neutral ih o = true ->
  get_tracker ih (trackers (fst (step s o))) = get_tracker ih (trackers s) /\
  (err (fst (step s o)) = false -> err s = false).
Proof.
  intros ih s o Hn. unfold Model.step. destruct (err s) eqn:He; [split; [reflexivity|simpl; intro; congruence]|].
  split; [|reflexivity].
  destruct o as [ip rnd m|ip|dt|id ip port|id ip port|id ip port|id|secret|ip0|tok ip0|ih0 ip0 port tok|ih0 ip0 rnd|target|id|];
    simpl in *; try reflexivity; try discriminate.
  - assert (D : trackers (fst (dgram sha s ip rnd m)) = trackers s) by (apply dgram_trackers; destruct (is_announce_q m); [discriminate|reflexivity]).
    destruct (m_y m) as [[|ty [|? ?]]|]; try (destruct (dgram sha s ip rnd m); simpl in *; rewrite D; reflexivity).
    destruct ((ty =? 114) || (ty =? 101)); [reflexivity|]. destruct (dgram sha s ip rnd m); simpl in *; rewrite D; reflexivity.
  - destruct (id =? own s); [reflexivity|]. rewrite (surjective_pairing (node_queried s id ip)). simpl.
    rewrite node_queried_trackers. reflexivity.
  - destruct (id =? own s); [reflexivity|]. unfold node_replied.
    destruct (lookup id (tb (tab s))) as [[k n]|].
    + destruct (negb (nip n =? ip)); reflexivity.
    + destruct (negb (want_node s id)); [reflexivity|].
      destruct (add_node_to_bucket _ _ _ _) as [t [|]|t|]; try reflexivity.
      destruct (lookup id (tb _)) as [[k n]|]; reflexivity.
  - destruct (id =? own s); [reflexivity|]. unfold node_inactive.
    destruct (lookup id (tb (tab s))) as [[k n]|]; [|reflexivity]. destruct (negb (nip n =? ip)); [reflexivity|].
    destruct (lookup id _) as [[k' n1]|]; [|reflexivity].
    destruct (is_bad n1 && _); reflexivity.
  - unfold node_invalid. destruct (lookup id (tb (tab s))) as [[k n]|]; reflexivity.
  - destruct (Model.token_valid sha s tok ip0); [|reflexivity]. destruct ((port <? 1) || (65535 <? port)); [reflexivity|]. simpl.
    apply get_upd_tracker_other. apply negb_true_iff in Hn. apply N.eqb_neq in Hn. assumption.
  - destruct (get_tracker ih0 (trackers s)) as [[|p l]|];
      try (destruct (closest_nodes (tab s) ih0) as [t' [|c l']]; reflexivity).
  - destruct (closest_nodes (tab s) target) as [t' [|c l']]; reflexivity.
Qed.

Lemma neutral_run : forall ih ops s, forallb (neutral ih) ops = true -> err (run s ops) = false ->
  get_tracker ih (trackers (run s ops)) = get_tracker ih (trackers s) /\ err s = false.
Proof.
  induction ops as [|o ops IH]; simpl; intros s Hn He; [split; [reflexivity|assumption]|].
  apply andb_true_iff in Hn. destruct Hn as [H1 H2].
  destruct (IH _ H2 He) as [G E]. destruct (neutral_step ih s o H1) as [G' E'].
  split; [rewrite G; exact G'|apply E'; assumption].
Qed.

(* announce_then_get: after an accepted announce_peer(ih, port) from ip, and then ANY list of
   ops that does not prune (no housekeeping) and carries no further announce for ih, a get_peers
   for ih answers with values that contain ip ++ port in NETWORK byte order (while the store for
   ih holds at most max_peers entries, i.e. the answer is not a random block of a larger store) *)
Lemma announce_then_get : forall s ih ip port tok ops ip2 rnd,
  err s = false -> token_valid s tok ip = true -> port_ok port ->
  forallb (neutral ih) ops = true ->
  let s2 := run (fst (step s (OAnnounce ih ip port tok))) ops in
  err s2 = false ->
  (forall l, get_tracker ih (trackers s2) = Some l -> lenN l <= Params.dht_tracker_max_peers) ->
  exists t vals, snd (step s2 (OGetPeers ih ip2 rnd)) = Rpeers t vals /\ In (compact_peer ip port) vals.
Proof.
  intros s ih ip port tok ops ip2 rnd He Hv Hp Hn s2 He2 Small.
  destruct (announce_stores s ih ip port tok He Hv Hp) as [[l [p [G [I [P1 P2]]]]] _].
  destruct (neutral_run ih ops _ Hn He2) as [G2 _].
  apply stored_get_peers; try assumption.
  exists l, p. repeat split; try assumption. unfold s2. rewrite G2. exact G.
Qed.

(* "until pruned": housekeeping keeps a peer that announced within the last timeout_peer_announce
   seconds (no 2^32 wrap of the clock) *)
Lemma housekeeping_keeps : forall s ih ip port secret l p,
  err s = false -> get_tracker ih (trackers s) = Some l -> In p l -> pip p = ip -> pport p = htons16 (port16 port) ->
  now s < u32 -> Params.dht_timeout_peer_announce <= now s -> now s <= pseen p + Params.dht_timeout_peer_announce ->
  stored ih ip port (fst (step s (OHousekeeping secret))).
Proof.
  intros s ih ip port secret l p He G I P1 P2 Nw Nl Fresh.
  unfold Model.step. rewrite He. simpl. unfold stored. simpl.
  assert (K : In p (prune (now s) l)).
  { unfold prune. apply filter_In. split; [assumption|]. apply negb_true_iff. apply N.ltb_ge.
    replace (Params.dht_timeout_peer_announce mod u32) with Params.dht_timeout_peer_announce by (vm_compute; reflexivity).
    replace ((now s + u32 - Params.dht_timeout_peer_announce) mod u32) with (now s - Params.dht_timeout_peer_announce).
    - lia.
    - replace (now s + u32 - Params.dht_timeout_peer_announce) with ((now s - Params.dht_timeout_peer_announce) + 1 * u32) by lia.
      rewrite N.mod_add by (vm_compute; discriminate). symmetry. apply N.mod_small. lia. }
  exists (prune (now s) l), p. repeat split; try assumption.
  clear - G K. induction (trackers s) as [|[h l0] r IH]; simpl in *; [discriminate|].
  destruct (h =? ih) eqn:E.
  - inversion G; subst l0. destruct (prune (now s) l) eqn:PR; [destruct K|]. simpl. rewrite E. reflexivity.
  - destruct (prune (now s) l0); simpl; [|rewrite E]; apply IH; assumption.
Qed.

End Tokens.

(* the witness that refuted announce_then_get before /repo commit 7a0fd15 (add_peer stored the port
   in host byte order: 1.2.3.4:6881 came back as 01 02 03 04 e1 1a); kept as a regression example *)
Definition wit_sha (x : list N) : list N := repeat 7 20.
Definition wit_ih : N := 1.
Definition wit_ip : N := 16909060.       (* 1.2.3.4 *)
Definition wit_port : N := 6881.         (* 0x1ae1 *)
Definition wit_state : state := init (2 ^ 159 + 1) 111 222 34560000.

Example announce_then_get_witness :
  let s1 := fst (step wit_sha wit_state (OAnnounce wit_ih wit_ip wit_port (token_for wit_sha 111 wit_ip))) in
  snd (step wit_sha s1 (OGetPeers wit_ih 5 0)) = Rpeers (token_for wit_sha 111 5) [[1; 2; 3; 4; 26; 225]].
Proof. vm_compute. reflexivity. Qed.

(* non-vacuity of the hypotheses of announce_then_get / token_lifetime *)
Example tokens_hyps_sat :
  err wit_state = false /\ token_valid wit_sha wit_state (token_for wit_sha 111 wit_ip) wit_ip = true /\
  port_ok wit_port /\ err (run wit_sha wit_state [OHousekeeping 5; OTick 900; OHousekeeping 6]) = false.
Proof. repeat split; try (vm_compute; reflexivity); vm_compute; discriminate. Qed.
