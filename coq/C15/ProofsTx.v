(* C15 — the transaction layer (ping transactions): replies and errors are matched to a pending
   transaction by (source address, transaction id); everything else is ignored. *)
From Coq Require Import List NArith ZArith Bool Lia.
From LTV.C15 Require Import ParamsGen.
From LTV.C15 Require Import Model ProofsTableA ProofsTableC.
Import ListNotations.
Local Open Scope N_scope.

Section Tx.
Variable sha : list N -> list N.
Notation sstep := (sstep sha).
Notation step := (step sha).

Definition tracked (ss : sstate) : Prop := untracked ss = false /\ err (rs ss) = false.

(* a reply that passes the envelope checks of event_read: t is one byte, r.id a string of >= 20 bytes
   whose first 20 are not the own id *)
Definition reply_ok (ss : sstate) (t : option (list N)) (idb : option (list N)) (tid id : N) : Prop :=
  t = Some [tid] /\ exists ib, idb = Some ib /\ hs_len <= lenN ib /\ id = be_to_N (firstn idbytes ib) /\ id <> own (rs ss).

Lemma reply_dispatch : forall ss ip t idb tid id, tracked ss -> reply_ok ss t idb tid id ->
  sstep ss (SReply ip t idb) =
  match find_tx ip tid (txs ss) with
  | None => (tx_flush ss, Rdg RpNone)
  | Some x =>
    let ss1 := set_netup ss true in
    if negb (id =? x_id x) && negb (x_id x =? 0) then (tx_flush ss1, Rdg RpNone)
    else let ss2 := with_rs ss1 (fst (step (rs ss1) (OReplied id ip 0))) in
         let ss3 := set_untracked ss2 (replied_boots (rs ss1) id ip 0) in
         (tx_flush (set_txs ss3 (remove_tx ip tid (txs ss3))), Rdg RpNone)
  end.
Proof.
  intros ss ip t idb tid id [U E] [Ht [ib [Hi [Li [Eid Ne]]]]]. unfold Model.sstep. rewrite U, E.
  change (false || false) with false. cbv beta iota. rewrite Ht, Hi.
  assert (A0 : (20 <? lenN [tid]) = false) by reflexivity. rewrite A0.
  assert (B : (lenN ib <? hs_len) = false) by (apply N.ltb_ge; assumption). rewrite B. rewrite <- Eid.
  assert (C : (id =? own (rs ss)) = false) by (apply N.eqb_neq; assumption). rewrite C. reflexivity.
Qed.

(* unsolicited_reply_ignored: no pending transaction for (address, id) -> no reply is sent and the
   router (table, tokens, peer store) and the set of transactions stay as they are *)
Theorem unsolicited_reply_ignored : forall ss ip t idb tid id, tracked ss -> reply_ok ss t idb tid id ->
  find_tx ip tid (txs ss) = None ->
  snd (sstep ss (SReply ip t idb)) = Rdg RpNone /\
  rs (fst (sstep ss (SReply ip t idb))) = rs ss /\
  map (fun x => (x_ip x, x_tid x, x_id x)) (txs (fst (sstep ss (SReply ip t idb)))) = map (fun x => (x_ip x, x_tid x, x_id x)) (txs ss) /\
  netup (fst (sstep ss (SReply ip t idb))) = netup ss.
Proof.
  intros ss ip t idb tid id T R F. rewrite (reply_dispatch _ _ _ _ _ _ T R), F. simpl.
  repeat split. rewrite map_map. reflexivity.
Qed.

(* a reply from the right address with the right transaction id but another node id than the one
   the ping was addressed to is ignored as well, and the transaction stays pending *)
Theorem wrong_id_reply_ignored : forall ss ip t idb tid id x, tracked ss -> reply_ok ss t idb tid id ->
  find_tx ip tid (txs ss) = Some x -> id <> x_id x -> x_id x <> 0 ->
  snd (sstep ss (SReply ip t idb)) = Rdg RpNone /\
  rs (fst (sstep ss (SReply ip t idb))) = rs ss /\
  map (fun x => (x_ip x, x_tid x, x_id x)) (txs (fst (sstep ss (SReply ip t idb)))) = map (fun x => (x_ip x, x_tid x, x_id x)) (txs ss).
Proof.
  intros ss ip t idb tid id x T R F N1 N2. rewrite (reply_dispatch _ _ _ _ _ _ T R), F. cbv zeta.
  assert (A : (id =? x_id x) = false) by (apply N.eqb_neq; assumption).
  assert (B : (x_id x =? 0) = false) by (apply N.eqb_neq; assumption).
  rewrite A, B. simpl. repeat split. rewrite map_map. reflexivity.
Qed.

Lemma find_remove_tx : forall ip tid l, find_tx ip tid (remove_tx ip tid l) = None.
Proof.
  intros. unfold find_tx, remove_tx. induction l as [|x l IH]; simpl; [reflexivity|].
  destruct ((x_ip x =? ip) && (x_tid x =? tid)) eqn:E; simpl; [assumption|]. rewrite E. assumption.
Qed.

Lemma find_tx_flush : forall ip tid l,
  find_tx ip tid (map (fun x => mkTx (x_ip x) (x_tid x) (x_id x) (x_timeout x) true) l) = None <-> find_tx ip tid l = None.
Proof.
  intros. unfold find_tx. induction l as [|x l IH]; simpl; [tauto|].
  destruct ((x_ip x =? ip) && (x_tid x =? tid)); [split; discriminate|assumption].
Qed.

(* a solicited reply: the router sees node_replied(id, source address) — the node enters the table
   or is marked good — and the transaction is gone *)
Theorem matched_reply_updates_table : forall ss ip t idb tid id x, tracked ss -> reply_ok ss t idb tid id ->
  find_tx ip tid (txs ss) = Some x -> (id = x_id x \/ x_id x = 0) ->
  snd (sstep ss (SReply ip t idb)) = Rdg RpNone /\
  rs (fst (sstep ss (SReply ip t idb))) = fst (step (rs ss) (OReplied id ip 0)) /\
  find_tx ip tid (txs (fst (sstep ss (SReply ip t idb)))) = None /\
  netup (fst (sstep ss (SReply ip t idb))) = true.
Proof.
  intros ss ip t idb tid id x T R F M. rewrite (reply_dispatch _ _ _ _ _ _ T R), F. cbv zeta.
  assert (A : negb (id =? x_id x) && negb (x_id x =? 0) = false).
  { destruct M as [M|M]; [rewrite M, N.eqb_refl; reflexivity|rewrite M; simpl; apply andb_false_r]. }
  rewrite A. simpl. repeat split. apply find_tx_flush. apply find_remove_tx.
Qed.

(* an error message (y = "e") clears the transaction it answers and changes nothing else *)
Theorem error_clears_transaction : forall ss ip tid, tracked ss ->
  snd (sstep ss (SError ip (Some [tid]))) = Rdg RpNone /\
  rs (fst (sstep ss (SError ip (Some [tid])))) = rs ss /\
  find_tx ip tid (txs (fst (sstep ss (SError ip (Some [tid]))))) = None.
Proof.
  intros ss ip tid [U E]. unfold Model.sstep. rewrite U, E. simpl.
  destruct (find_tx ip tid (txs ss)) eqn:F; simpl; repeat split.
  - apply find_tx_flush. apply find_remove_tx.
  - apply find_tx_flush. assumption.
Qed.

(* a timed-out ping blames the node (node_inactive) only if the query really went out, the node id
   is known and something was received from the network since the last housekeeping *)
Theorem timeout_blame : forall ss x,
  rs (expire sha ss x) =
  (if netup ss && x_sent x && negb (x_id x =? 0) then fst (step (rs ss) (OInactive (x_id x) (x_ip x) 0)) else rs ss) /\
  find_tx (x_ip x) (x_tid x) (txs (expire sha ss x)) = None.
Proof.
  intros ss x. unfold expire. destruct (netup ss && x_sent x && negb (x_id x =? 0)); simpl; split; try reflexivity; apply find_remove_tx.
Qed.

(* at most one ping per address (DhtServer::ping), for every op list *)
Definition one_per_ip (ss : sstate) : Prop := NoDup (map x_ip (txs ss)).

Lemma ping_one : forall ss nw id ip tid, one_per_ip ss -> one_per_ip (ping ss nw id ip tid).
Proof.
  intros ss nw id ip tid H. unfold ping. destruct (max_transactions <=? lenN (txs ss)); [assumption|].
  destruct (existsb (fun x => x_ip x =? ip) (txs ss)) eqn:E; [assumption|].
  unfold one_per_ip in *. simpl. rewrite map_app. simpl.
  assert (NI : ~ In ip (map x_ip (txs ss))).
  { intro I. apply in_map_iff in I. destruct I as [x [Ex Ix]].
    assert (existsb (fun x => x_ip x =? ip) (txs ss) = true) by (apply existsb_exists; exists x; split; [assumption|apply N.eqb_eq; assumption]).
    congruence. }
  clear E. induction (map x_ip (txs ss)) as [|a l IH]; simpl; [constructor; [intros []|constructor]|].
  inversion H; subst. constructor.
  - intro I. apply in_app_or in I. destruct I as [I|[I|[]]]; [contradiction|subst; apply NI; left; reflexivity].
  - apply IH; [assumption|intro; apply NI; right; assumption].
Qed.

Lemma flush_one : forall ss, one_per_ip ss -> one_per_ip (tx_flush ss).
Proof. intros ss H. unfold one_per_ip, tx_flush in *. simpl. rewrite map_map. simpl. exact H. Qed.

Lemma filter_one : forall (f : txn -> bool) l, NoDup (map x_ip l) -> NoDup (map x_ip (filter f l)).
Proof.
  induction l as [|x l IH]; simpl; intros H; [constructor|]. inversion H; subst.
  destruct (f x); simpl; [constructor; [|apply IH; assumption]|apply IH; assumption].
  intro I. apply H2. apply in_map_iff in I. destruct I as [y [E Iy]]. apply filter_In in Iy. apply in_map_iff. exists y. tauto.
Qed.

Lemma expire_one : forall ss x, one_per_ip ss -> one_per_ip (expire sha ss x).
Proof.
  intros ss x H. unfold expire. destruct (netup ss && x_sent x && negb (x_id x =? 0)); unfold one_per_ip, set_txs, remove_tx in *; simpl; apply filter_one; assumption.
Qed.

Lemma sstep_one : forall ss o, one_per_ip ss -> one_per_ip (fst (sstep ss o)).
Proof.
  intros ss o H. destruct o as [b|ip t idb|ip t| |]; simpl.
  - unfold sstep_base. destruct (step (rs ss) b) as [s' r]. destruct (err (rs ss)); [exact H|].
    destruct b; try exact H.
    + destruct r; try (destruct (dgram_info sha (rs ss) ip rnd m) as [[[id s1] ok]|]; simpl; apply flush_one;
        [destruct (ok && wants_ping s1 id); [apply ping_one|]; exact H|exact H]). exact H.
    + apply flush_one. exact H.
    + destruct (id =? own (rs ss)); [exact H|]. destruct (wants_ping (rs ss) id); [apply ping_one|]; exact H.
  - destruct (untracked ss || err (rs ss)); [exact H|]. destruct t as [tb|]; [|apply flush_one; exact H].
    destruct (20 <? lenN tb); [apply flush_one; exact H|]. destruct idb as [ib|]; [|apply flush_one; exact H].
    destruct (lenN ib <? hs_len); [apply flush_one; exact H|].
    destruct tb as [|tid [|? ?]]; try (apply flush_one; exact H).
    destruct (_ =? own (rs ss)); [apply flush_one; exact H|].
    destruct (find_tx ip tid (txs ss)); [|apply flush_one; exact H].
    destruct (negb _ && negb _); apply flush_one; [exact H|]. unfold one_per_ip, set_txs, remove_tx. simpl. apply filter_one. exact H.
  - destruct (untracked ss || err (rs ss)); [exact H|]. destruct t as [tb|]; [|apply flush_one; exact H].
    destruct (20 <? lenN tb); [apply flush_one; exact H|].
    destruct tb as [|tid [|? ?]]; try (apply flush_one; exact H).
    destruct (find_tx ip tid (txs ss)); apply flush_one; [|exact H]. unfold one_per_ip, set_txs, remove_tx. simpl. apply filter_one. exact H.
  - destruct (untracked ss || err (rs ss)); [exact H|]. simpl.
    generalize (txs ss) at 1. intros l. revert ss H. induction l as [|x l IH]; intros ss H; simpl; [exact H|].
    apply IH. destruct (x_timeout x <? now (rs ss)); [apply expire_one|]; exact H.
  - exact H.
Qed.

Theorem one_ping_per_address : forall ownid c p t0 fl ops, one_per_ip (srun sha (sinit ownid c p t0 fl) ops).
Proof.
  intros. assert (G : forall ops ss, one_per_ip ss -> one_per_ip (srun sha ss ops)).
  { induction ops0 as [|o r IH]; simpl; intros ss H; [exact H|]. apply IH. apply sstep_one. exact H. }
  apply G. constructor.
Qed.

(* the routing-table invariant of the router layer carries over: every transaction-layer op drives
   the router through router ops only *)
Lemma expire_sinv : forall ss x, sinv (rs ss) -> sinv (rs (expire sha ss x)).
Proof.
  intros ss x H. unfold expire. destruct (netup ss && x_sent x && negb (x_id x =? 0)); simpl; [apply step_sinv|]; exact H.
Qed.

Lemma sstep_sinv : forall ss o, sinv (rs ss) -> sinv (rs (fst (sstep ss o))).
Proof.
  intros ss o H. destruct o as [b|ip t idb|ip t| |]; simpl.
  - unfold sstep_base. pose proof (step_sinv sha (rs ss) b H) as H1. destruct (step (rs ss) b) as [s' r]. simpl in H1.
    destruct (err (rs ss)); [exact H1|].
    destruct b; try exact H1.
    + destruct r; try (destruct (dgram_info sha (rs ss) ip rnd m) as [[[id s1] ok]|]; simpl;
        [destruct (ok && wants_ping s1 id); [unfold ping; simpl; repeat match goal with |- context [if ?c then _ else _] => destruct c end|]; exact H1|exact H1]).
    + destruct (id =? own (rs ss)); [exact H1|]. destruct (wants_ping (rs ss) id); [|exact H1].
      unfold ping; simpl; repeat match goal with |- context [if ?c then _ else _] => destruct c end; exact H1.
  - destruct (untracked ss || err (rs ss)); [exact H|]. destruct t as [tb|]; [|exact H].
    destruct (20 <? lenN tb); [exact H|]. destruct idb as [ib|]; [|exact H].
    destruct (lenN ib <? hs_len); [exact H|].
    destruct tb as [|tid [|? ?]]; simpl; try (apply step_sinv; exact H).
    destruct (_ =? own (rs ss)); [exact H|].
    destruct (find_tx ip tid (txs ss)); [|exact H].
    destruct (negb _ && negb _); simpl; [exact H|apply step_sinv; exact H].
  - destruct (untracked ss || err (rs ss)); [exact H|]. destruct t as [tb|]; [|exact H].
    destruct (20 <? lenN tb); [exact H|].
    destruct tb as [|tid [|? ?]]; try exact H.
    destruct (find_tx ip tid (txs ss)); exact H.
  - destruct (untracked ss || err (rs ss)); [exact H|]. simpl.
    generalize (txs ss) at 1. intros l. revert ss H. induction l as [|x l IH]; intros ss H; simpl; [exact H|].
    apply IH. destruct (x_timeout x <? now (rs ss)); [apply expire_sinv|]; exact H.
  - exact H.
Qed.

Theorem table_inv_with_transactions : forall ownid c p t0 fl ops,
  let s := rs (srun sha (sinit ownid c p t0 fl) ops) in
  contiguous 0 (tb (tab s)) /\ Forall bucket_ok (tb (tab s)).
Proof.
  intros. assert (G : forall ops ss, sinv (rs ss) -> sinv (rs (srun sha ss ops))).
  { induction ops0 as [|o r IH]; simpl; intros ss H; [exact H|]. apply IH. apply sstep_sinv. exact H. }
  apply G. apply init_sinv.
Qed.

End Tx.
