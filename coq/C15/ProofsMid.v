From Coq Require Import List NArith Bool Lia ZArith.
From LTV.C15 Require Import ParamsGen.
From LTV.C15 Require Import Model.
Import ListNotations.
Local Open Scope N_scope.

Lemma pow256 : forall j, 256 ^ N.of_nat j = 2 ^ (8 * N.of_nat j).
Proof. intros. rewrite N.pow_mul_r. reflexivity. Qed.

(* a prefix interval of 2^k ids *)
Definition prefix_range (lo hi k : N) : Prop := hi + 1 = lo + 2 ^ k /\ lo mod 2 ^ k = 0.

Lemma prefix_div : forall lo hi k, prefix_range lo hi k -> lo / 2 ^ k = hi / 2 ^ k.
Proof.
  intros lo hi k [H1 H2].
  assert (P : 2 ^ k <> 0) by (apply N.pow_nonzero; discriminate).
  pose proof (N.div_mod lo (2 ^ k) P) as D. rewrite H2 in D.
  apply N.div_unique with (r := 2 ^ k - 1); lia.
Qed.

Lemma mid_go_prefix : forall i lo hi k,
  1 <= k -> k <= 8 * N.of_nat i -> prefix_range lo hi k ->
  lo / 256 ^ N.of_nat i = hi / 256 ^ N.of_nat i ->
  mid_go i lo hi = lo + 2 ^ (k - 1) - 1.
Proof.
  induction i as [|j IH]; intros lo hi k K1 K2 PR HD.
  - simpl in K2. lia.
  - cbn [mid_go]. unfold byte_at.
    set (W := 256 ^ N.of_nat j) in *.
    assert (WP : W <> 0) by (apply N.pow_nonzero; discriminate).
    assert (W256 : 256 ^ N.of_nat (S j) = W * 256).
    { unfold W. rewrite Nat2N.inj_succ, N.pow_succ_r'. lia. }
    rewrite W256 in HD.
    destruct (N.le_gt_cases k (8 * N.of_nat j)) as [Hle|Hgt].
    + (* the differing bits are below this byte *)
      assert (E : lo / W = hi / W).
      { unfold W. rewrite pow256.
        replace (8 * N.of_nat j) with (k + (8 * N.of_nat j - k)) by lia.
        rewrite N.pow_add_r, <- !N.div_div by (apply N.pow_nonzero; discriminate).
        rewrite (prefix_div _ _ _ PR). reflexivity. }
      rewrite E, N.eqb_refl. apply IH with (k := k); try assumption.
    + (* the top differing bit is in this byte *)
      destruct PR as [H1 H2].
      set (m := k - 8 * N.of_nat j) in *.
      assert (Km : k = m + 8 * N.of_nat j) by lia.
      assert (M1 : 1 <= m) by lia.
      assert (M8 : m <= 8) by (rewrite Nat2N.inj_succ in K2; lia).
      assert (P2k : 2 ^ k = 2 ^ m * W).
      { unfold W. rewrite pow256, Km, N.pow_add_r. reflexivity. }
      set (M := 2 ^ m) in *.
      assert (Mh : M = 2 * 2 ^ (m - 1)).
      { unfold M. replace m with (N.succ (m - 1)) at 1 by lia. rewrite N.pow_succ_r'. reflexivity. }
      set (M2 := 2 ^ (m - 1)) in *.
      assert (M2P : 1 <= M2) by (unfold M2; pose proof (N.pow_nonzero 2 (m - 1)); lia).
      assert (Mle : M <= 256).
      { unfold M. change 256 with (2 ^ 8). apply N.pow_le_mono_r; lia. }
      assert (Pk1 : 2 ^ (k - 1) = M2 * W).
      { unfold M2, W. rewrite pow256. replace (k - 1) with ((m - 1) + 8 * N.of_nat j) by lia.
        rewrite N.pow_add_r. reflexivity. }
      (* lo = P * M * W *)
      assert (P2 : 2 ^ k <> 0) by (apply N.pow_nonzero; discriminate).
      pose proof (N.div_mod lo (2 ^ k) P2) as D. rewrite H2, P2k in D.
      set (P := lo / (M * W)) in *.
      assert (LW : lo / W = P * M).
      { symmetry. apply N.div_unique with (r := 0); [lia|]. lia. }
      assert (HW : hi / W = P * M + M - 1).
      { symmetry. apply N.div_unique with (r := W - 1); [lia|]. rewrite P2k in H1. (timeout 30 nia). }
      rewrite LW, HW.
      (* same 256-block *)
      rewrite <- !N.div_div in HD by lia. rewrite LW, HW in HD.
      pose proof (N.div_mod (P * M) 256 ltac:(discriminate)) as DL.
      pose proof (N.div_mod (P * M + M - 1) 256 ltac:(discriminate)) as DH.
      pose proof (N.mod_lt (P * M) 256 ltac:(discriminate)) as BL.
      pose proof (N.mod_lt (P * M + M - 1) 256 ltac:(discriminate)) as BH.
      set (bl := (P * M) mod 256) in *. set (bh := (P * M + M - 1) mod 256) in *.
      rewrite <- HD in DH.
      assert (Bh : bh = bl + M - 1) by lia.
      assert (Ne : (bl =? bh) = false) by (apply N.eqb_neq; lia).
      rewrite Ne.
      assert (Half : (bl + bh) / 2 = bl + M2 - 1).
      { symmetry. apply N.div_unique with (r := 1); lia. }
      rewrite Half.
      set (q := P * M / 256) in *.
      assert (Wp : exists W', W = W' + 1) by (exists (W - 1); lia).
      destruct Wp as [W' Wp].
      assert (Hhi : hi = bh * W + (256 * q * W + W')).
      { rewrite P2k in H1. clear - H1 D DH Bh Wp Mh M2P. rewrite Wp in *.
        assert (hi + 1 = (256 * q + bh) * (W' + 1) + (W' + 1)) by (timeout 30 nia).
        (timeout 30 nia). }
      rewrite Hhi, Pk1.
      replace (bh * W + (256 * q * W + W') - bh * W) with (256 * q * W + W') by lia.
      clear - D DL Wp M2P. rewrite Wp in *.
      assert (lo = (256 * q + bl) * (W' + 1)) by (timeout 30 nia).
      (timeout 30 nia).
Qed.
