(* C15 — routing table invariant, part C: add_node_to_bucket, every op, every op list. *)
From Coq Require Import List NArith ZArith Bool Lia Permutation.
From LTV.C15 Require Import ParamsGen.
From LTV.C15 Require Import Model ProofsMid ProofsTableA ProofsTableB.
Import ListNotations.
Local Open Scope N_scope.

Lemma find_cand_go_in : forall l best bt c, find_cand_go l best bt = Some c -> In c l \/ best = Some c.
Proof.
  induction l as [|n r IH]; simpl; intros best bt c H; [right; assumption|].
  destruct (is_bad n); [inversion H; subst; left; left; reflexivity|].
  destruct (nseen n <? bt).
  - destruct (IH _ _ _ H) as [A|A]; [left; right; assumption|inversion A; subst; left; left; reflexivity].
  - destruct (IH _ _ _ H) as [A|A]; [left; right; assumption|right; assumption].
Qed.

Lemma find_cand_in : forall l c, find_cand l = Some c -> In c l.
Proof. intros l c H. destruct (find_cand_go_in _ _ _ _ H) as [A|A]; [assumption|discriminate]. Qed.

Lemma get_map_bucket : forall k f bs b, get_bucket k bs = Some b -> bhi (f b) = bhi b ->
  get_bucket k (map_bucket k f bs) = Some (f b).
Proof.
  induction bs as [|b0 r IH]; simpl; intros b G H; [discriminate|].
  destruct (bhi b0 =? k) eqn:E.
  - inversion G; subst b0. simpl. rewrite H, E. reflexivity.
  - simpl. rewrite E. apply IH; assumption.
Qed.

(* what the loop is entitled to assume about the bucket it currently looks at *)
Definition at_bucket (bs : list bucket) (k id : N) : Prop :=
  exists b, get_bucket k bs = Some b /\ blo b <= id /\ id <= bhi b /\ ~ In id (ids_of b).

Lemma tinv_bucket : forall bs k b, tinv bs -> get_bucket k bs = Some b -> bucket_ok b.
Proof. intros bs k b [_ F] G. destruct (get_bucket_in _ _ _ G). eapply Forall_forall; eauto. Qed.

(* add_node_to_bucket's loop keeps the invariant, whatever way it ends *)
Lemma add_loop_tinv : forall fuel ownid tm nd k t,
  tinv (tb t) -> at_bucket (tb t) k (nid nd) ->
  match add_loop fuel ownid tm nd k t with
  | LDone t' _ => tinv (tb t')
  | LErr t' => tinv (tb t')
  | LFuel => True
  end.
Proof.
  induction fuel as [|fu IH]; intros ownid tm nd k t T [b [G [A1 [A2 A3]]]]; [exact I|].
  cbn [add_loop]. rewrite G.
  pose proof (tinv_bucket _ _ _ T G) as OKb.
  destruct (is_full b) eqn:Fu; simpl.
  2:{ (* room: append *)
    simpl. destruct T as [C F]. split.
    - apply contiguous_map; [|assumption]. intros x. destruct (bhi x =? k); split; reflexivity.
    - unfold map_bucket. apply Forall_map. rewrite Forall_forall in *. intros x Ix.
      destruct (bhi x =? k) eqn:E; [|apply F; assumption].
      apply N.eqb_eq in E. destruct (get_bucket_in _ _ _ G) as [Ib Hb].
      assert (x = b).
      { clear - C F Ix Ib E Hb. rewrite <- Forall_forall in F. revert C F Ix Ib.
        generalize 0. induction (tb t) as [|b0 r IHr]; simpl; intros s C F Ix Ib; [destruct Ix|].
        destruct C as [C1 C2]. inversion F as [|? ? F0 Fr]; subst.
        destruct Ix as [<-|Ix]; destruct Ib as [<-|Ib]; try reflexivity.
        - destruct (contiguous_bounds _ _ _ C2 Fr Ib). pose proof (ok_le _ (proj1 (Forall_forall _ _) Fr _ Ib)). lia.
        - destruct (contiguous_bounds _ _ _ C2 Fr Ix). pose proof (ok_le _ (proj1 (Forall_forall _ _) Fr _ Ix)). lia.
        - eapply IHr; eauto. }
      subst x. apply ok_add; assumption. }
  destruct (find_cand (bnodes b)) as [c|] eqn:FC; [|exact T].
  destruct (is_bad c) eqn:Bc.
  - (* replace a bad node *)
    apply IH.
    + simpl. apply tinv_map_bucket; [intros; split; reflexivity|apply ok_remove|assumption].
    + simpl. exists (b_remove c b). split; [apply get_map_bucket; [assumption|reflexivity]|].
      simpl. repeat split; try assumption. unfold ids_of. simpl. intro X. apply A3. eapply remove_id_in; eauto.
  - destruct (negb (k =? town t)); [exact T|].
    destruct (split_bucket ownid (nid nd) b t) as [[t' k'] bad] eqn:S.
    destruct OKb as [[kk [Kk P]] OKr].
    assert (OKb : bucket_ok b) by (split; [exists kk; split; assumption|assumption]).
    destruct (split_tinv _ _ _ _ _ _ _ _ _ T G Fu P Kk A1 A2 S) as [T' [h [Gh [HO [B1 [B2 [_ Sub]]]]]]].
    destruct bad; [exact T'|].
    apply IH; [assumption|]. exists h. repeat split; try assumption. intro X. apply A3. apply Sub. assumption.
Qed.

(* add_terminates: the fuel is never exhausted; each split halves the bucket looked at *)
Lemma add_loop_terminates : forall fuel ownid tm nd k t b kk,
  tinv (tb t) -> get_bucket k (tb t) = Some b -> blo b <= nid nd -> nid nd <= bhi b ->
  prefix_range (blo b) (bhi b) kk -> kk <= idbits -> (N.to_nat kk + 2 <= fuel)%nat ->
  add_loop fuel ownid tm nd k t <> LFuel.
Proof.
  induction fuel as [|fu IH]; intros ownid tm nd k t b kk T G A1 A2 P Kk L; [lia|].
  cbn [add_loop]. rewrite G.
  pose proof (tinv_bucket _ _ _ T G) as OKb.
  destruct (is_full b) eqn:Fu; simpl; [|discriminate].
  destruct (find_cand (bnodes b)) as [c|] eqn:FC; [|discriminate].
  destruct (is_bad c) eqn:Bc.
  - (* after removing one node the bucket has room: the next round ends *)
    destruct fu as [|fu']; [lia|]. cbn [add_loop]. simpl.
    rewrite (get_map_bucket k (b_remove c) (tb t) b G eq_refl).
    assert (NF : is_full (b_remove c b) = false).
    { unfold is_full, b_remove. simpl. apply N.leb_gt.
      destruct OKb as [_ [_ [_ Ln]]]. unfold lenN, ids_of in *. rewrite map_length in Ln.
      pose proof (find_cand_in _ _ FC) as Ic.
      assert (In (nid c) (map nid (bnodes b))) by (apply in_map; assumption).
      pose proof (remove_id_len_in _ _ H). lia. }
    rewrite NF. simpl. discriminate.
  - destruct (negb (k =? town t)); [discriminate|].
    destruct (split_bucket ownid (nid nd) b t) as [[t' k'] bad] eqn:S.
    destruct (split_tinv _ _ _ _ _ _ _ _ _ T G Fu P Kk A1 A2 S) as [T' [h [Gh [[OKh [Ph _]] [B1 [B2 _]]]]]].
    destruct bad; [discriminate|].
    pose proof (full_wide _ _ OKb Fu P) as K1.
    apply IH with (b := h) (kk := kk - 1); try assumption; lia.
Qed.

(* find_bucket returns the bucket covering the id *)
Lemma find_bucket_covers : forall bs s id b, contiguous s bs -> Forall bucket_ok bs -> s <= id ->
  find_bucket id bs = Some b -> get_bucket (bhi b) bs = Some b /\ blo b <= id /\ id <= bhi b.
Proof.
  induction bs as [|b0 r IH]; simpl; intros s id b C F S H; [discriminate|].
  destruct C as [C1 C2]. inversion F as [|? ? F0 Fr]; subst.
  destruct (id <=? bhi b0) eqn:E.
  - inversion H; subst. rewrite N.eqb_refl. apply N.leb_le in E. repeat split; [assumption|assumption].
  - apply N.leb_gt in E. assert (S' : bhi b0 + 1 <= id) by lia. destruct (IH _ _ _ C2 Fr S' H) as [G [X Y]].
    destruct (get_bucket_in _ _ _ G) as [Ib _]. destruct (contiguous_bounds _ _ _ C2 Fr Ib).
    pose proof (ok_le _ (proj1 (Forall_forall _ _) Fr _ Ib)).
    assert (NE : (bhi b0 =? bhi b) = false) by (apply N.eqb_neq; pose proof (ok_le _ F0); lia).
    rewrite NE. repeat split; assumption.
Qed.

Lemma add_node_tinv : forall ownid tm nd t, tinv (tb t) -> lookup (nid nd) (tb t) = None ->
  match add_node_to_bucket ownid tm nd t with
  | LDone t' _ => tinv (tb t')
  | LErr t' => tinv (tb t')
  | LFuel => False
  end.
Proof.
  intros ownid tm nd t T LK. unfold add_node_to_bucket.
  destruct (find_bucket (nid nd) (tb t)) as [b|] eqn:FB; [|exact T].
  destruct T as [C F].
  destruct (find_bucket_covers _ _ _ _ C F (N.le_0_l _) FB) as [G [A1 A2]].
  destruct (get_bucket_in _ _ _ G) as [Ib _].
  pose proof (add_loop_tinv add_fuel ownid tm nd (bhi b) t (conj C F)) as H1.
  assert (AT : at_bucket (tb t) (bhi b) (nid nd)).
  { exists b. repeat split; try assumption. eapply lookup_none; eauto. }
  specialize (H1 AT).
  destruct (proj1 (Forall_forall _ _) F _ Ib) as [[kk [Kk P]] _].
  pose proof (add_loop_terminates add_fuel ownid tm nd (bhi b) t b kk (conj C F) G A1 A2 P Kk) as H2.
  assert (L : (N.to_nat kk + 2 <= add_fuel)%nat).
  { unfold add_fuel. assert (N.to_nat kk <= N.to_nat idbits)%nat by lia. change (N.to_nat idbits) with 160%nat in H. lia. }
  specialize (H2 L).
  destruct (add_loop add_fuel ownid tm nd (bhi b) t); try assumption. contradiction.
Qed.

(* ---------------------------------------------------------------- every op keeps the invariant *)
Ltac rng := intros; unfold b_set_good, b_inactive;
  repeat match goal with |- context [if ?c then _ else _] => destruct c end; split; reflexivity.

Section Steps.
Variable sha : list N -> list N.

Definition sinv (s : state) : Prop := tinv (tb (tab s)).

Lemma closest_tinv : forall t id, tinv (tb t) -> tinv (tb (fst (closest_nodes t id))).
Proof.
  intros t id T. unfold closest_nodes. destruct (find_bucket id (tb t)) as [b|]; [|exact T].
  destruct (bcache b); [|exact T]. simpl.
  apply tinv_map_bucket; [intros; split; reflexivity|intros; apply ok_set_cache; assumption|assumption].
Qed.

Lemma node_queried_tinv : forall s id ip, tinv (tb (tab s)) -> tinv (tb (tab (fst (node_queried s id ip)))).
Proof.
  intros s id ip T. unfold node_queried.
  destruct (lookup id (tb (tab s))) as [[k n]|]; [|exact T]. destruct (negb (nip n =? ip)); [exact T|].
  simpl. apply tinv_map_bucket; [| |assumption].
  + rng.
  + intros b Hb. destruct (nseen n =? 0); [destruct (is_good n); [apply ok_touch|]; assumption|].
    apply ok_touch. apply ok_set_good. assumption.
Qed.

Lemma query_body_tinv : forall s ip rnd q m, tinv (tb (tab s)) -> tinv (tb (tab (fst (query_body sha s ip rnd q m)))).
Proof.
  intros s ip rnd q m T. unfold query_body.
  destruct (bytes_eqb q s_find_node).
  { destruct (m_target m) as [tg|]; [|exact T]. destruct (lenN tg <? hs_len); [exact T|].
    pose proof (closest_tinv (tab s) (be_to_N (firstn idbytes tg)) T) as H.
    destruct (closest_nodes _ _) as [t' [|c l']]; exact H. }
  destruct (bytes_eqb q s_get_peers).
  { destruct (m_ih m) as [h|]; [|exact T]. destruct (lenN h <? hs_len); [exact T|].
    pose proof (closest_tinv (tab s) (be_to_N (firstn idbytes h)) T) as H.
    destruct (get_tracker _ _) as [[|p l0]|]; try exact T; destruct (closest_nodes _ _) as [t' [|c l']]; exact H. }
  destruct (bytes_eqb q s_announce_peer).
  { destruct (m_ih m) as [h|]; [|exact T]. destruct (lenN h <? hs_len); [exact T|].
    destruct (m_token m) as [tk|]; [|exact T]. destruct (negb _); [exact T|]. destruct (m_port m) as [z| |]; try exact T.
    destruct (_ || _); exact T. }
  destruct (bytes_eqb q s_ping); exact T.
Qed.

Lemma dgram_tinv : forall s ip rnd m, tinv (tb (tab s)) -> tinv (tb (tab (fst (dgram sha s ip rnd m)))).
Proof.
  intros s ip rnd m T. unfold dgram.
  destruct (m_t m) as [t|]; [|exact T]. destruct (20 <? lenN t); [exact T|].
  destruct (m_y m) as [[|ty [|? ?]]|]; try exact T.
  destruct (ty =? 113); [|exact T]. destruct (m_id m) as [idb|]; [|exact T].
  destruct (lenN idb <? hs_len); [exact T|].
  generalize (be_to_N (firstn idbytes idb)). intro nid0. destruct (nid0 =? own s); [exact T|].
  destruct (m_q m) as [q|]; [|exact T].
  pose proof (query_body_tinv s ip rnd q m T) as H.
  destruct (query_body sha s ip rnd q m) as [s1 [e|[[tok nodes] vals]]]; cbn [fst snd] in *; [exact H|].
  apply node_queried_tinv. exact H.
Qed.

Lemma tinv_inval : forall bs, tinv bs -> tinv (inval_tb bs).
Proof.
  intros bs T. unfold inval_tb. destruct chain_inval; [|exact T].
  apply tinv_map; [intros; split; reflexivity|intros; apply ok_set_cache; assumption|assumption].
Qed.

Lemma step_sinv : forall s o, sinv s -> sinv (fst (step sha s o)).
Proof.
  intros s o T. unfold sinv in *. unfold step. destruct (err s); [exact T|].
  destruct o as [ip rnd m|ip|dt|id ip port|id ip port|id ip port|id|secret|ip|tok ip|ih ip port tok|ih ip rnd|target|id|];
    simpl; try exact T.
  - pose proof (dgram_tinv s ip rnd m T) as H.
    destruct (m_y m) as [[|ty [|? ?]]|]; try (destruct (dgram sha s ip rnd m); exact H).
    destruct ((ty =? 114) || (ty =? 101)); [exact T|]. destruct (dgram sha s ip rnd m); exact H.
  - destruct (id =? own s); [exact T|]. rewrite (surjective_pairing (node_queried s id ip)). simpl.
    apply node_queried_tinv. exact T.
  - destruct (id =? own s); [exact T|]. unfold node_replied.
    destruct (lookup id (tb (tab s))) as [[k n]|] eqn:LK.
    + destruct (negb (nip n =? ip)); [exact T|]. simpl.
      apply tinv_map_bucket; [rng|intros; apply ok_touch; apply ok_set_good; assumption|assumption].
    + destruct (negb (want_node s id)); [exact T|].
      pose proof (add_node_tinv (own s) (now s) (mkNode id ip port 0 false 0) (tab s) T LK) as H.
      destruct (add_node_to_bucket _ _ _ _) as [t0 [|]|t0|]; simpl; try assumption; try contradiction.
      assert (H' : tinv (tb (if nodes_count t0 =? nodes_count (tab s) then inval_tab t0 else t0)))
        by (destruct (_ =? _); [apply tinv_inval|]; assumption).
      generalize dependent (if nodes_count t0 =? nodes_count (tab s) then inval_tab t0 else t0). intros t H'.
      destruct (lookup id (tb t)) as [[k n]|]; simpl; [|assumption].
      apply tinv_map_bucket; [rng|intros; apply ok_touch; apply ok_set_good; assumption|assumption].
  - destruct (id =? own s); [exact T|]. unfold node_inactive.
    destruct (lookup id (tb (tab s))) as [[k n]|]; [|exact T]. destruct (negb (nip n =? ip)); [exact T|].
    assert (T0 : tinv (map_bucket k (b_inactive n) (tb (tab s)))).
    { apply tinv_map_bucket; [| |assumption].
      - rng.
      - intros; apply ok_inactive; assumption. }
    assert (T1 : tinv (if (ninact n + 1 =? max_failed) && negb (is_bad n) then inval_tb (map_bucket k (b_inactive n) (tb (tab s)))
                       else map_bucket k (b_inactive n) (tb (tab s))))
      by (destruct (_ && _); [apply tinv_inval|]; assumption).
    destruct (lookup id _) as [[k' n1]|]; [|exact T].
    destruct (is_bad n1 && _); simpl; [|assumption].
    apply tinv_inval. apply tinv_map_bucket; [intros; split; reflexivity|intros; apply ok_remove; assumption|assumption].
  - unfold node_invalid. destruct (lookup id (tb (tab s))) as [[k n]|]; [|exact T]. simpl.
    apply tinv_inval. apply tinv_map_bucket; [intros; split; reflexivity|intros; apply ok_remove; assumption|assumption].
  - apply tinv_map; [intros; split; reflexivity|intros; apply ok_housekeeping; assumption|assumption].
  - destruct (token_valid sha s tok ip); [destruct ((port <? 1) || (65535 <? port))|]; exact T.
  - destruct (get_tracker ih (trackers s)) as [[|p l]|]; try exact T;
      (pose proof (closest_tinv (tab s) ih T) as H; destruct (closest_nodes (tab s) ih) as [t' [|c l']]; exact H).
  - pose proof (closest_tinv (tab s) target T) as H. destruct (closest_nodes (tab s) target) as [t' [|c l']]; exact H.
Qed.

Lemma init_sinv : forall ownid c p t0, sinv (init ownid c p t0).
Proof.
  intros. unfold sinv, init, tinv. simpl. split.
  - split; [reflexivity|]. vm_compute. reflexivity.
  - constructor; [|constructor]. unfold bucket_ok, init_bucket, ids_of. simpl.
    split; [exists idbits; split; [lia|]; split; [vm_compute; reflexivity|vm_compute; reflexivity]|].
    split; [constructor|]. split; [constructor|]. vm_compute. discriminate.
Qed.

(* table_inv: for every op list, from the initial state *)
Theorem run_sinv : forall ops s, sinv s -> sinv (run sha s ops).
Proof. induction ops as [|o ops IH]; simpl; intros s T; [assumption|]. apply IH. apply step_sinv. assumption. Qed.

End Steps.

(* ---------------------------------------------------------------- what the invariant says, spelled out *)
Definition all_ids (bs : list bucket) : list N := flat_map ids_of bs.

Lemma contiguous_ids_lower : forall bs s x, contiguous s bs -> Forall bucket_ok bs -> In x (all_ids bs) -> s <= x.
Proof.
  induction bs as [|b r IH]; simpl; intros s x C F I; [destruct I|].
  destruct C as [C1 C2]. inversion F as [|? ? F0 Fr]; subst.
  apply in_app_or in I. destruct I as [I|I].
  - destruct F0 as [_ [FR _]]. rewrite Forall_forall in FR. destruct (FR _ I). lia.
  - pose proof (IH _ _ C2 Fr I). pose proof (ok_le _ F0). lia.
Qed.

(* node ids are unique across the whole table *)
Lemma tinv_unique : forall bs s, contiguous s bs -> Forall bucket_ok bs -> NoDup (all_ids bs).
Proof.
  induction bs as [|b r IH]; simpl; intros s C F; [constructor|].
  destruct C as [C1 C2]. inversion F as [|? ? F0 Fr]; subst.
  pose proof (IH _ C2 Fr) as NR. destruct F0 as [PX [FR [ND LN]]].
  clear IH LN PX. induction (ids_of b) as [|x l IHl]; simpl; [assumption|].
  inversion ND; subst. inversion FR; subst. constructor; [|apply IHl; assumption].
  intro I. apply in_app_or in I. destruct I as [I|I]; [contradiction|].
  pose proof (contiguous_ids_lower _ _ _ C2 Fr I). lia.
Qed.

(* every id below 2^160 is covered by exactly one bucket *)
Lemma tinv_partition : forall bs s id, contiguous s bs -> Forall bucket_ok bs -> s <= id -> id < idspace ->
  exists b, In b bs /\ blo b <= id /\ id <= bhi b /\
            forall b', In b' bs -> blo b' <= id -> id <= bhi b' -> b' = b.
Proof.
  induction bs as [|b0 r IH]; simpl; intros s id C F S U; [lia|].
  destruct C as [C1 C2]. inversion F as [|? ? F0 Fr]; subst.
  destruct (N.le_gt_cases id (bhi b0)) as [Le|Gt].
  - exists b0. repeat split; try assumption; [left; reflexivity|].
    intros b' [<-|I] X Y; [reflexivity|]. destruct (contiguous_bounds _ _ _ C2 Fr I). lia.
  - assert (S' : bhi b0 + 1 <= id) by lia. destruct (IH _ id C2 Fr S' U) as [b [Ib [X [Y Uq]]]].
    exists b. repeat split; try assumption; [right; assumption|].
    intros b' [<-|I] X' Y'; [lia|]. apply Uq; assumption.
Qed.
