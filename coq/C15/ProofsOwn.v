(* C15 — the own bucket: only_own_bucket_splits, and absence of the "impossible" internal errors
   (router ID ended up in wrong bucket, find_candidate returned no node, node lost after add). *)
From Coq Require Import List NArith Bool Lia Permutation.
From LTV.C15 Require Import ParamsGen.
From LTV.C15 Require Import Model ProofsMid ProofsTableA ProofsTableB ProofsTableC.
Import ListNotations.
Local Open Scope N_scope.

Definition keys (bs : list bucket) : list N := map bhi bs.
Definition ranges (bs : list bucket) : list (N * N) := map (fun b => (blo b, bhi b)) bs.

Definition own_in_town (ownid : N) (t : table) : Prop :=
  exists ob, get_bucket (town t) (tb t) = Some ob /\ blo ob <= ownid /\ ownid <= bhi ob.
(* the own bucket is the last link of the parent/child chain, and the chain links real buckets *)
Definition chain_ok (t : table) : Prop :=
  (exists pre, tchain t = pre ++ [town t] /\ ~ In (town t) pre) /\ incl (tchain t) (keys (tb t)).
Definition node_seen_ok (n : node) : Prop := nseen n < u32 - 1.
Definition seen_ok (bs : list bucket) : Prop := Forall (fun b => Forall node_seen_ok (bnodes b)) bs.
Definition tabinv (ownid : N) (t : table) : Prop :=
  tinv (tb t) /\ own_in_town ownid t /\ chain_ok t /\ seen_ok (tb t).

(* ---------------------------------------------------------------- generic lemmas *)
Lemma tinv_keys_unique : forall bs s x y, contiguous s bs -> Forall bucket_ok bs ->
  In x bs -> In y bs -> bhi x = bhi y -> x = y.
Proof.
  induction bs as [|b0 r IHr]; simpl; intros s x y Cs Fs Ix Iy Exy; [destruct Ix|].
  destruct Cs as [Cs1 Cs2]. inversion Fs as [|? ? F0 Fr']; subst.
  destruct Ix as [<-|Ix]; destruct Iy as [<-|Iy]; try reflexivity.
  - destruct (contiguous_bounds _ _ _ Cs2 Fr' Iy). pose proof (ok_le _ (proj1 (Forall_forall _ _) Fr' _ Iy)). lia.
  - destruct (contiguous_bounds _ _ _ Cs2 Fr' Ix). pose proof (ok_le _ (proj1 (Forall_forall _ _) Fr' _ Ix)). lia.
  - eapply IHr; eauto.
Qed.

Lemma get_bucket_of_in : forall bs h, tinv bs -> In h bs -> get_bucket (bhi h) bs = Some h.
Proof.
  intros bs h [C F] I.
  assert (U : forall x y, In x bs -> In y bs -> bhi x = bhi y -> x = y) by (intros; eapply tinv_keys_unique; eauto).
  clear C F. induction bs as [|b0 r IH]; simpl; [destruct I|].
  destruct (bhi b0 =? bhi h) eqn:E.
  - apply N.eqb_eq in E. f_equal. apply U; [left; reflexivity|assumption|assumption].
  - destruct I as [->|I]; [rewrite N.eqb_refl in E; discriminate|]. apply IH; [assumption|].
    intros; apply U; [right; assumption|right; assumption|assumption].
Qed.

Lemma in_insert_bucket : forall o l x, In x (insert_bucket o l) <-> x = o \/ In x l.
Proof.
  induction l as [|b0 r IH]; simpl; intros x.
  - split; [intros [H|[]]; left; congruence|intros [H|[]]; left; congruence].
  - destruct (bhi o <? bhi b0); simpl.
    + split; [intros [H|H]; [left; congruence|right; assumption]|intros [H|H]; [left; congruence|right; assumption]].
    + rewrite IH. split; [intros [H|[H|H]]; auto|intros [H|[H|H]]; auto].
Qed.

Lemma keys_map_bucket : forall k f bs, (forall b, bhi (f b) = bhi b) -> keys (map_bucket k f bs) = keys bs.
Proof.
  intros k f bs H. unfold keys, map_bucket. rewrite map_map. apply map_ext. intros b. destruct (bhi b =? k); [apply H|reflexivity].
Qed.

Lemma ranges_map_bucket : forall k f bs, (forall b, blo (f b) = blo b /\ bhi (f b) = bhi b) -> ranges (map_bucket k f bs) = ranges bs.
Proof.
  intros k f bs H. unfold ranges, map_bucket. rewrite map_map. apply map_ext. intros b.
  destruct (bhi b =? k); [destruct (H b) as [A B]; rewrite A, B|]; reflexivity.
Qed.

Lemma get_map_bucket_any : forall j k f bs x, (forall b, bhi (f b) = bhi b) -> get_bucket j bs = Some x ->
  get_bucket j (map_bucket k f bs) = Some (if bhi x =? k then f x else x).
Proof.
  induction bs as [|b0 r IH]; simpl; intros x H G; [discriminate|].
  destruct (bhi b0 =? j) eqn:E.
  - inversion G; subst b0. destruct (bhi x =? k); [rewrite H|]; rewrite E; reflexivity.
  - assert (E' : (bhi (if bhi b0 =? k then f b0 else b0) =? j) = false) by (destruct (bhi b0 =? k); [rewrite H|]; assumption).
    rewrite E'. apply IH; assumption.
Qed.

(* in-place bucket updates keep everything that is about ranges, chain and own bucket *)
Lemma tabinv_map_bucket : forall ownid t k f,
  (forall b, blo (f b) = blo b /\ bhi (f b) = bhi b) ->
  (forall b, bucket_ok b -> bucket_ok (f b)) ->
  (forall b, Forall node_seen_ok (bnodes b) -> Forall node_seen_ok (bnodes (f b))) ->
  tabinv ownid t -> tabinv ownid (mkTable (map_bucket k f (tb t)) (tchain t) (town t)).
Proof.
  intros ownid t k f R OK SN [T [[ob [G [O1 O2]]] [[CP CI] S]]]. unfold tabinv. simpl. split; [|split; [|split]].
  - apply tinv_map_bucket; assumption.
  - unfold own_in_town. simpl. rewrite (get_map_bucket_any _ k f _ ob (fun b => proj2 (R b)) G).
    destruct (bhi ob =? k); [destruct (R ob) as [A B]; eexists; split; [reflexivity|]; rewrite A, B; split; assumption|].
    eexists; split; [reflexivity|split; assumption].
  - unfold chain_ok. simpl. split; [assumption|]. rewrite keys_map_bucket; [assumption|intro; apply R].
  - unfold seen_ok, map_bucket. apply Forall_map. eapply Forall_impl; [|exact S]. intros b Hb. simpl.
    destruct (bhi b =? k); [apply SN|]; assumption.
Qed.

Lemma tabinv_map : forall ownid t g,
  (forall b, blo (g b) = blo b /\ bhi (g b) = bhi b) ->
  (forall b, bucket_ok b -> bucket_ok (g b)) ->
  (forall b, Forall node_seen_ok (bnodes b) -> Forall node_seen_ok (bnodes (g b))) ->
  tabinv ownid t -> tabinv ownid (mkTable (map g (tb t)) (tchain t) (town t)).
Proof.
  intros ownid t g R OK SN H.
  assert (E : map g (tb t) = map_bucket (town t) g (map_bucket (town t) (fun b => b) (tb t)) \/ True) by (right; exact I).
  clear E. destruct H as [T [[ob [G [O1 O2]]] [[CP CI] S]]]. unfold tabinv. simpl. split; [|split; [|split]].
  - apply tinv_map; assumption.
  - unfold own_in_town. simpl. exists (g ob). destruct (R ob) as [A B]. rewrite A, B. split; [|split; assumption].
    clear - G R. revert G. induction (tb t) as [|b0 r IH]; simpl; [discriminate|].
    destruct (R b0) as [_ B0]. rewrite B0. destruct (bhi b0 =? town t); intros G; [inversion G; reflexivity|apply IH; assumption].
  - unfold chain_ok. simpl. split; [assumption|]. unfold keys. rewrite map_map.
    replace (map (fun x => bhi (g x)) (tb t)) with (map bhi (tb t)); [assumption|]. apply map_ext. intro b. symmetry. apply R.
  - unfold seen_ok. apply Forall_map. eapply Forall_impl; [|exact S]. intros b Hb. apply SN. assumption.
Qed.

(* ---------------------------------------------------------------- seen_ok of the bucket operations *)
Lemma upd_node_forall : forall (P : node -> Prop) id g l, (forall n, P n -> P (g n)) -> Forall P l -> Forall P (upd_node id g l).
Proof.
  induction l as [|n r IH]; simpl; intros Hg F; [constructor|]. inversion F; subst.
  destruct (nid n =? id); constructor; auto.
Qed.
Lemma remove_id_forall_n : forall (P : node -> Prop) id l, Forall P l -> Forall P (remove_id id l).
Proof.
  induction l as [|n r IH]; simpl; intros F; [constructor|]. inversion F; subst.
  destruct (nid n =? id); [assumption|constructor; auto].
Qed.

Lemma seen_set_good : forall t n b, t < u32 - 1 -> Forall node_seen_ok (bnodes b) -> Forall node_seen_ok (bnodes (b_set_good t n b)).
Proof.
  intros t n b Ht F. unfold b_set_good. destruct (is_good n); simpl; (apply upd_node_forall; [|assumption]);
    intros m _; unfold node_seen_ok, node_set_good; simpl; rewrite N.mod_small; unfold u32 in *; lia.
Qed.
Lemma seen_inactive : forall n b, Forall node_seen_ok (bnodes b) -> Forall node_seen_ok (bnodes (b_inactive n b)).
Proof.
  intros n b F. unfold b_inactive. destruct (_ =? max_failed); [destruct (is_bad n)|]; simpl;
    (apply upd_node_forall; [|assumption]); intros m Hm; exact Hm.
Qed.
Lemma seen_remove : forall n b, Forall node_seen_ok (bnodes b) -> Forall node_seen_ok (bnodes (b_remove n b)).
Proof. intros. unfold b_remove. simpl. apply remove_id_forall_n. assumption. Qed.
Lemma seen_add : forall t n b, node_seen_ok n -> Forall node_seen_ok (bnodes b) -> Forall node_seen_ok (bnodes (b_add t n b)).
Proof. intros. unfold b_add. simpl. apply Forall_app. split; [assumption|constructor; [assumption|constructor]]. Qed.

(* a full bucket whose nodes all have a sane last-seen time has a replacement candidate *)
Lemma find_cand_go_some : forall l best bt, l <> [] -> Forall node_seen_ok l -> bt = u32 - 1 \/ best <> None ->
  find_cand_go l best bt <> None.
Proof.
  induction l as [|n r IH]; intros best bt NE F H; [contradiction|]. simpl. inversion F as [|? ? H1 H2]; subst.
  destruct (is_bad n); [discriminate|].
  destruct (nseen n <? bt) eqn:E.
  - destruct r as [|m r']; [simpl; discriminate|]. apply IH; [discriminate|assumption|right; discriminate].
  - destruct H as [->|H]; [apply N.ltb_ge in E; unfold node_seen_ok in H1; lia|].
    destruct r as [|m r']; [simpl; assumption|]. apply IH; [discriminate|assumption|right; assumption].
Qed.

Lemma find_cand_some : forall b, is_full b = true -> Forall node_seen_ok (bnodes b) -> find_cand (bnodes b) <> None.
Proof.
  intros b Fu F. unfold find_cand. apply find_cand_go_some; [|assumption|left; reflexivity].
  unfold is_full in Fu. apply N.leb_le in Fu. pose proof K_ge2. intro Z. rewrite Z in Fu. unfold lenN in Fu. simpl in Fu. lia.
Qed.

(* ---------------------------------------------------------------- chain helpers *)
Lemma next_last : forall pre k, ~ In k pre -> next_in_chain k (pre ++ [k]) = None.
Proof.
  induction pre as [|y r IH]; simpl; intros k H.
  - rewrite N.eqb_refl. reflexivity.
  - destruct (y =? k) eqn:E; [apply N.eqb_eq in E; exfalso; apply H; left; assumption|]. apply IH. intro; apply H; right; assumption.
Qed.
Lemma insert_after_last : forall pre k x, ~ In k pre -> insert_after k x (pre ++ [k]) = pre ++ [k; x].
Proof.
  induction pre as [|y r IH]; simpl; intros k x H.
  - rewrite N.eqb_refl. reflexivity.
  - destruct (y =? k) eqn:E; [apply N.eqb_eq in E; exfalso; apply H; left; assumption|]. rewrite IH; [reflexivity|]. intro; apply H; right; assumption.
Qed.
Lemma insert_before_last : forall pre k x, ~ In k pre -> insert_before k x (pre ++ [k]) = pre ++ [x; k].
Proof.
  induction pre as [|y r IH]; simpl; intros k x H.
  - rewrite N.eqb_refl. reflexivity.
  - destruct (y =? k) eqn:E; [apply N.eqb_eq in E; exfalso; apply H; left; assumption|]. rewrite IH; [reflexivity|]. intro; apply H; right; assumption.
Qed.
Lemma next_after : forall pre k x, ~ In k pre -> next_in_chain k (pre ++ [k; x]) = Some x.
Proof.
  induction pre as [|y r IH]; simpl; intros k x H.
  - rewrite N.eqb_refl. reflexivity.
  - destruct (y =? k) eqn:E; [apply N.eqb_eq in E; exfalso; apply H; left; assumption|]. apply IH. intro; apply H; right; assumption.
Qed.
Lemma next_before : forall pre k x, ~ In k pre -> x <> k -> next_in_chain k (pre ++ [x; k]) = None.
Proof.
  induction pre as [|y r IH]; simpl; intros k x H Hx.
  - destruct (x =? k) eqn:E; [apply N.eqb_eq in E; contradiction|]. rewrite N.eqb_refl. reflexivity.
  - destruct (y =? k) eqn:E; [apply N.eqb_eq in E; exfalso; apply H; left; assumption|]. apply IH; [intro; apply H; right; assumption|assumption].
Qed.
