(* C15 — the own bucket: only_own_bucket_splits, and absence of the "impossible" internal errors
   (router ID ended up in wrong bucket, find_candidate returned no node, node lost after add). *)
From Coq Require Import List NArith Bool Lia Permutation.
From LTV.C15 Require Import ParamsGen.
From LTV.C15 Require Import Model ProofsMid ProofsTableA ProofsTableB ProofsTableC ProofsTokens.
Import ListNotations.
Local Open Scope N_scope.

Definition keys (bs : list bucket) : list N := map bhi bs.
Definition ranges (bs : list bucket) : list (N * N) := map (fun b => (blo b, bhi b)) bs.

Definition own_in_town (ownid : N) (t : table) : Prop :=
  exists ob, get_bucket (town t) (tb t) = Some ob /\ blo ob <= ownid /\ ownid <= bhi ob.
(* the own bucket is the last link of the parent/child chain, and the chain links real buckets *)
Definition chain_ok (t : table) : Prop :=
  (exists pre, tchain t = pre ++ [town t] /\ ~ In (town t) pre) /\ incl (tchain t) (keys (tb t)).
Definition node_seen_ok (n : node) : Prop := nseen n < u32 - 1.
Definition seen_ok (bs : list bucket) : Prop := Forall (fun b => Forall node_seen_ok (bnodes b)) bs.
(* sizes of the buckets along the parent/child chain, root first: every parent is twice as wide as
   its child, except that the last two (the own bucket and its sibling) have the same width *)
Definition bsize (b : bucket) : N := bhi b + 1 - blo b.
Definition size_of_key (bs : list bucket) (k : N) : N := match get_bucket k bs with Some b => bsize b | None => 0 end.
Definition cw (t : table) : list N := map (size_of_key (tb t)) (tchain t).
Fixpoint wok (l : list N) : Prop :=
  match l with
  | [] => True
  | a :: t => match t with
              | [] => True
              | [b] => a = b
              | b :: _ :: _ => a = 2 * b /\ wok t
              end
  end.
Definition aux (ownid : N) (t : table) : Prop := own_in_town ownid t /\ chain_ok t /\ seen_ok (tb t) /\ wok (cw t).
Definition tabinv (ownid : N) (t : table) : Prop := tinv (tb t) /\ aux ownid t.

(* ---------------------------------------------------------------- generic lemmas *)
Lemma tinv_keys_unique : forall bs s x y, contiguous s bs -> Forall bucket_ok bs ->
  In x bs -> In y bs -> bhi x = bhi y -> x = y.
Proof.
  induction bs as [|b0 r IHr]; simpl; intros s x y Cs Fs Ix Iy Exy; [destruct Ix|].
  destruct Cs as [Cs1 Cs2]. inversion Fs as [|? ? F0 Fr']; subst.
  destruct Ix as [<-|Ix]; destruct Iy as [<-|Iy]; try reflexivity.
  - destruct (contiguous_bounds _ _ _ Cs2 Fr' Iy). pose proof (ok_le _ (proj1 (Forall_forall _ _) Fr' _ Iy)). lia.
  - destruct (contiguous_bounds _ _ _ Cs2 Fr' Ix). pose proof (ok_le _ (proj1 (Forall_forall _ _) Fr' _ Ix)). lia.
  - eapply IHr; eauto.
Qed.

Lemma get_bucket_of_in : forall bs h, tinv bs -> In h bs -> get_bucket (bhi h) bs = Some h.
Proof.
  intros bs h [C F] I.
  assert (U : forall x y, In x bs -> In y bs -> bhi x = bhi y -> x = y) by (intros; eapply tinv_keys_unique; eauto).
  clear C F. induction bs as [|b0 r IH]; simpl; [destruct I|].
  destruct (bhi b0 =? bhi h) eqn:E.
  - apply N.eqb_eq in E. f_equal. apply U; [left; reflexivity|assumption|assumption].
  - destruct I as [->|I]; [rewrite N.eqb_refl in E; discriminate|]. apply IH; [assumption|].
    intros; apply U; [right; assumption|right; assumption|assumption].
Qed.

Lemma in_insert_bucket : forall o l x, In x (insert_bucket o l) <-> x = o \/ In x l.
Proof.
  induction l as [|b0 r IH]; simpl; intros x.
  - split; [intros [H|[]]; left; congruence|intros [H|[]]; left; congruence].
  - destruct (bhi o <? bhi b0); simpl.
    + split; [intros [H|H]; [left; congruence|right; assumption]|intros [H|H]; [left; congruence|right; assumption]].
    + rewrite IH. split; [intros [H|[H|H]]; auto|intros [H|[H|H]]; auto].
Qed.

Lemma keys_map_bucket : forall k f bs, (forall b, bhi (f b) = bhi b) -> keys (map_bucket k f bs) = keys bs.
Proof.
  intros k f bs H. unfold keys, map_bucket. rewrite map_map. apply map_ext. intros b. destruct (bhi b =? k); [apply H|reflexivity].
Qed.

Lemma ranges_map_bucket : forall k f bs, (forall b, blo (f b) = blo b /\ bhi (f b) = bhi b) -> ranges (map_bucket k f bs) = ranges bs.
Proof.
  intros k f bs H. unfold ranges, map_bucket. rewrite map_map. apply map_ext. intros b.
  destruct (bhi b =? k); [destruct (H b) as [A B]; rewrite A, B|]; reflexivity.
Qed.

Lemma get_map_bucket_any : forall j k f bs x, (forall b, bhi (f b) = bhi b) -> get_bucket j bs = Some x ->
  get_bucket j (map_bucket k f bs) = Some (if bhi x =? k then f x else x).
Proof.
  induction bs as [|b0 r IH]; simpl; intros x H G; [discriminate|].
  destruct (bhi b0 =? j) eqn:E.
  - inversion G; subst b0. destruct (bhi x =? k); [rewrite H|]; rewrite E; reflexivity.
  - assert (E' : (bhi (if bhi b0 =? k then f b0 else b0) =? j) = false) by (destruct (bhi b0 =? k); [rewrite H|]; assumption).
    rewrite E'. apply IH; assumption.
Qed.

Lemma size_of_key_map_bucket : forall k f bs j, (forall b, blo (f b) = blo b /\ bhi (f b) = bhi b) ->
  size_of_key (map_bucket k f bs) j = size_of_key bs j.
Proof.
  intros k f bs j R. unfold size_of_key. induction bs as [|b0 r IH]; simpl; [reflexivity|].
  destruct (R b0) as [A B].
  assert (E : bhi (if bhi b0 =? k then f b0 else b0) = bhi b0) by (destruct (bhi b0 =? k); [assumption|reflexivity]).
  rewrite E. destruct (bhi b0 =? j); [|exact IH].
  destruct (bhi b0 =? k); [unfold bsize; rewrite A, B|]; reflexivity.
Qed.
Lemma size_of_key_map : forall g bs j, (forall b, blo (g b) = blo b /\ bhi (g b) = bhi b) ->
  size_of_key (map g bs) j = size_of_key bs j.
Proof.
  intros g bs j R. unfold size_of_key. induction bs as [|b0 r IH]; simpl; [reflexivity|].
  destruct (R b0) as [A B]. rewrite B. destruct (bhi b0 =? j); [unfold bsize; rewrite A, B; reflexivity|exact IH].
Qed.

Lemma wok_split : forall ps h, wok (ps ++ [2 * h]) -> wok (ps ++ [h; h]).
Proof.
  induction ps as [|a ps IH]; intros h H; [reflexivity|].
  destruct ps as [|b ps]; [simpl in *; split; [assumption|reflexivity]|].
  destruct ps as [|c ps].
  - simpl in *. destruct H as [H1 H2]. split; [assumption|]. split; [assumption|reflexivity].
  - change (wok (a :: (b :: c :: ps) ++ [h; h])). change (wok (a :: (b :: c :: ps) ++ [2 * h])) in H.
    simpl in H. simpl. destruct H as [H1 H2]. split; [assumption|]. apply (IH h). exact H2.
Qed.

(* in-place bucket updates keep everything that is about ranges, chain and own bucket *)
Lemma aux_map_bucket : forall ownid t k f,
  (forall b, blo (f b) = blo b /\ bhi (f b) = bhi b) ->
  (forall b, Forall node_seen_ok (bnodes b) -> Forall node_seen_ok (bnodes (f b))) ->
  aux ownid t -> aux ownid (mkTable (map_bucket k f (tb t)) (tchain t) (town t)).
Proof.
  intros ownid t k f R SN [[ob [G [O1 O2]]] [[CP CI] [S WK]]]. unfold aux. simpl. split; [|split; [|split]].
  4:{ unfold cw in *. simpl. erewrite map_ext; [exact WK|]. intros j. apply size_of_key_map_bucket. assumption. }
  - unfold own_in_town. simpl. rewrite (get_map_bucket_any _ k f _ ob (fun b => proj2 (R b)) G).
    destruct (bhi ob =? k); [destruct (R ob) as [A B]; eexists; split; [reflexivity|]; rewrite A, B; split; assumption|].
    eexists; split; [reflexivity|split; assumption].
  - unfold chain_ok. simpl. split; [assumption|]. rewrite keys_map_bucket; [assumption|intro; apply R].
  - unfold seen_ok, map_bucket. apply Forall_map. eapply Forall_impl; [|exact S]. intros b Hb. simpl.
    destruct (bhi b =? k); [apply SN|]; assumption.
Qed.

Lemma aux_map : forall ownid t g,
  (forall b, blo (g b) = blo b /\ bhi (g b) = bhi b) ->
  (forall b, Forall node_seen_ok (bnodes b) -> Forall node_seen_ok (bnodes (g b))) ->
  aux ownid t -> aux ownid (mkTable (map g (tb t)) (tchain t) (town t)).
Proof.
  intros ownid t g R SN [[ob [G [O1 O2]]] [[CP CI] [S WK]]]. unfold aux. simpl. split; [|split; [|split]].
  4:{ unfold cw in *. simpl. erewrite map_ext; [exact WK|]. intros j. apply size_of_key_map. assumption. }
  - unfold own_in_town. simpl. exists (g ob). destruct (R ob) as [A B]. rewrite A, B. split; [|split; assumption].
    clear - G R. revert G. induction (tb t) as [|b0 r IH]; simpl; [discriminate|].
    destruct (R b0) as [_ B0]. rewrite B0. destruct (bhi b0 =? town t); intros G; [inversion G; reflexivity|apply IH; assumption].
  - unfold chain_ok. simpl. split; [assumption|]. unfold keys. rewrite map_map.
    replace (map (fun x => bhi (g x)) (tb t)) with (map bhi (tb t)); [assumption|]. apply map_ext. intro b. symmetry. apply R.
  - unfold seen_ok. apply Forall_map. eapply Forall_impl; [|exact S]. intros b Hb. apply SN. assumption.
Qed.

(* ---------------------------------------------------------------- seen_ok of the bucket operations *)
Lemma upd_node_forall : forall (P : node -> Prop) id g l, (forall n, P n -> P (g n)) -> Forall P l -> Forall P (upd_node id g l).
Proof.
  induction l as [|n r IH]; simpl; intros Hg F; [constructor|]. inversion F; subst.
  destruct (nid n =? id); constructor; auto.
Qed.
Lemma remove_id_forall_n : forall (P : node -> Prop) id l, Forall P l -> Forall P (remove_id id l).
Proof.
  induction l as [|n r IH]; simpl; intros F; [constructor|]. inversion F; subst.
  destruct (nid n =? id); [assumption|constructor; auto].
Qed.

Lemma seen_set_good : forall t n b, t < u32 - 1 -> Forall node_seen_ok (bnodes b) -> Forall node_seen_ok (bnodes (b_set_good t n b)).
Proof.
  intros t n b Ht F. unfold b_set_good. destruct (is_good n); simpl; (apply upd_node_forall; [|assumption]);
    intros m _; unfold node_seen_ok, node_set_good; simpl; rewrite N.mod_small; unfold u32 in *; lia.
Qed.
Lemma seen_inactive : forall n b, Forall node_seen_ok (bnodes b) -> Forall node_seen_ok (bnodes (b_inactive n b)).
Proof.
  intros n b F. unfold b_inactive. destruct (_ =? max_failed); [destruct (is_bad n)|]; simpl;
    (apply upd_node_forall; [|assumption]); intros m Hm; exact Hm.
Qed.
Lemma seen_remove : forall n b, Forall node_seen_ok (bnodes b) -> Forall node_seen_ok (bnodes (b_remove n b)).
Proof. intros. unfold b_remove. simpl. apply remove_id_forall_n. assumption. Qed.
Lemma seen_add : forall t n b, node_seen_ok n -> Forall node_seen_ok (bnodes b) -> Forall node_seen_ok (bnodes (b_add t n b)).
Proof. intros. unfold b_add. simpl. apply Forall_app. split; [assumption|constructor; [assumption|constructor]]. Qed.

(* a full bucket whose nodes all have a sane last-seen time has a replacement candidate *)
Lemma find_cand_go_some : forall l best bt, l <> [] -> Forall node_seen_ok l -> bt = u32 - 1 \/ best <> None ->
  find_cand_go l best bt <> None.
Proof.
  induction l as [|n r IH]; intros best bt NE F H; [contradiction|]. simpl. inversion F as [|? ? H1 H2]; subst.
  destruct (is_bad n); [discriminate|].
  destruct (nseen n <? bt) eqn:E.
  - destruct r as [|m r']; [simpl; discriminate|]. apply IH; [discriminate|assumption|right; discriminate].
  - destruct H as [->|H]; [apply N.ltb_ge in E; unfold node_seen_ok in H1; lia|].
    destruct r as [|m r']; [simpl; assumption|]. apply IH; [discriminate|assumption|right; assumption].
Qed.

Lemma find_cand_some : forall b, is_full b = true -> Forall node_seen_ok (bnodes b) -> find_cand (bnodes b) <> None.
Proof.
  intros b Fu F. unfold find_cand. apply find_cand_go_some; [|assumption|left; reflexivity].
  unfold is_full in Fu. apply N.leb_le in Fu. pose proof K_ge2. intro Z. rewrite Z in Fu. unfold lenN in Fu. simpl in Fu. lia.
Qed.

(* ---------------------------------------------------------------- chain helpers *)
Lemma next_last : forall pre k, ~ In k pre -> next_in_chain k (pre ++ [k]) = None.
Proof.
  induction pre as [|y r IH]; simpl; intros k H.
  - rewrite N.eqb_refl. reflexivity.
  - destruct (y =? k) eqn:E; [apply N.eqb_eq in E; exfalso; apply H; left; assumption|]. apply IH. intro; apply H; right; assumption.
Qed.
Lemma insert_after_last : forall pre k x, ~ In k pre -> insert_after k x (pre ++ [k]) = pre ++ [k; x].
Proof.
  induction pre as [|y r IH]; simpl; intros k x H.
  - rewrite N.eqb_refl. reflexivity.
  - destruct (y =? k) eqn:E; [apply N.eqb_eq in E; exfalso; apply H; left; assumption|]. rewrite IH; [reflexivity|]. intro; apply H; right; assumption.
Qed.
Lemma insert_before_last : forall pre k x, ~ In k pre -> insert_before k x (pre ++ [k]) = pre ++ [x; k].
Proof.
  induction pre as [|y r IH]; simpl; intros k x H.
  - rewrite N.eqb_refl. reflexivity.
  - destruct (y =? k) eqn:E; [apply N.eqb_eq in E; exfalso; apply H; left; assumption|]. rewrite IH; [reflexivity|]. intro; apply H; right; assumption.
Qed.
Lemma next_after : forall pre k x, ~ In k pre -> next_in_chain k (pre ++ [k; x]) = Some x.
Proof.
  induction pre as [|y r IH]; simpl; intros k x H.
  - rewrite N.eqb_refl. reflexivity.
  - destruct (y =? k) eqn:E; [apply N.eqb_eq in E; exfalso; apply H; left; assumption|]. apply IH. intro; apply H; right; assumption.
Qed.
Lemma next_before : forall pre k x, ~ In k pre -> x <> k -> next_in_chain k (pre ++ [x; k]) = None.
Proof.
  induction pre as [|y r IH]; simpl; intros k x H Hx.
  - destruct (x =? k) eqn:E; [apply N.eqb_eq in E; contradiction|]. rewrite N.eqb_refl. reflexivity.
  - destruct (y =? k) eqn:E; [apply N.eqb_eq in E; exfalso; apply H; left; assumption|]. apply IH; [intro; apply H; right; assumption|assumption].
Qed.

(* ---------------------------------------------------------------- split of the own bucket *)
Lemma tinv_disjoint : forall bs s x y, contiguous s bs -> Forall bucket_ok bs -> In x bs -> In y bs -> x <> y ->
  bhi x < blo y \/ bhi y < blo x.
Proof.
  induction bs as [|b0 r IH]; simpl; intros s x y C F Ix Iy Ne; [destruct Ix|].
  destruct C as [C1 C2]. inversion F as [|? ? F0 Fr]; subst.
  destruct Ix as [<-|Ix]; destruct Iy as [<-|Iy]; try contradiction.
  - destruct (contiguous_bounds _ _ _ C2 Fr Iy). left. lia.
  - destruct (contiguous_bounds _ _ _ C2 Fr Ix). right. lia.
  - eapply IH; eauto.
Qed.

Lemma mid_not_key : forall bs b mid, tinv bs -> In b bs -> blo b <= mid -> mid < bhi b -> ~ In mid (keys bs).
Proof.
  intros bs b mid [C F] Ib L1 L2 I. unfold keys in I. apply in_map_iff in I. destruct I as [x [E Ix]].
  destruct (tinv_disjoint _ _ x b C F Ix Ib) as [H|H]; [intro; subst; lia|lia|].
  pose proof (ok_le _ (proj1 (Forall_forall _ _) F _ Ix)). lia.
Qed.

Definition survives (ownid : N) (bs bs' : list bucket) : Prop :=
  forall r, In r (ranges bs) -> In r (ranges bs') \/ (fst r <= ownid /\ ownid <= snd r).

Lemma split_own : forall ownid ndid b t kk t' k' bad,
  tabinv ownid t -> get_bucket (town t) (tb t) = Some b -> is_full b = true ->
  prefix_range (blo b) (bhi b) kk -> kk <= idbits -> blo b <= ndid -> ndid <= bhi b ->
  split_bucket ownid ndid b t = (t', k', bad) ->
  bad = false /\ aux ownid t' /\ (forall r, In r (ranges (tb t)) -> r <> (blo b, bhi b) -> In r (ranges (tb t'))).
Proof.
  intros ownid ndid b t kk t' k' bad [T [[ob [Gob [O1 O2]]] [[[pre [CP NP]] CI] [SO WK]]]] G Fu P Kk N1 N2 S.
  pose proof T as T0.
  rewrite G in Gob. inversion Gob; subst ob. clear Gob.
  destruct (split_tinv _ _ _ _ _ _ _ _ _ T G Fu P Kk N1 N2 S) as [T' [_ [_ [_ [_ [_ [REST _]]]]]]].
  destruct (get_bucket_in _ _ _ G) as [I Hk].
  assert (OKb : bucket_ok b) by (destruct T as [_ F]; eapply Forall_forall; eauto).
  destruct T as [C F]. destruct (contiguous_bounds _ _ _ C F I) as [_ U].
  pose proof (full_wide _ _ OKb Fu P) as K1.
  pose proof (mid_point_prefix _ _ _ K1 Kk P U) as MP.
  destruct (prefix_halves _ _ _ K1 P) as [PL [PH [Mlt Mge]]].
  unfold split_bucket in S. rewrite MP in S.
  set (mid := blo b + 2 ^ (kk - 1) - 1) in *.
  assert (LO' : (mid + 1) mod idspace = mid + 1) by (apply N.mod_small; lia).
  rewrite LO' in S.
  destruct (hoare_partition _ _ (bnodes b)) as [keep moved] eqn:HP.
  destruct (hoare_partition_spec _ _ _ _ _ (PeanoNat.Nat.lt_succ_diag_r _) HP) as [PM _].
  set (other := mkBucket (blo b) mid moved (bchanged b) (count is_good moved) (count is_bad moved) []) in *.
  set (this := mkBucket (mid + 1) (bhi b) keep (bchanged b) (count is_good keep) (count is_bad keep) (bcache b)) in *.
  set (bs' := insert_bucket other (map_bucket (bhi b) (fun _ => this) (tb t))) in *.
  assert (INo : In other bs') by (apply in_insert_bucket; left; reflexivity).
  assert (INt : In this bs').
  { apply in_insert_bucket. right. unfold map_bucket. apply in_map_iff. exists b. rewrite N.eqb_refl. split; [reflexivity|assumption]. }
  assert (MK : ~ In mid (keys (tb t))) by (eapply mid_not_key; eauto; split; assumption).
  assert (KS : forall x, In x (keys (tb t)) -> In x (keys bs')).
  { intros x Hx. unfold keys in *. apply in_map_iff in Hx. destruct Hx as [y [E Iy]]. apply in_map_iff.
    destruct (N.eq_dec (bhi y) (bhi b)) as [Eq|Nq].
    - exists this. split; [simpl; congruence|assumption].
    - exists y. split; [assumption|]. inversion S; subst t'. apply REST; [assumption|]. intro; subst; contradiction. }
  assert (SK : Forall node_seen_ok (keep ++ moved)).
  { unfold seen_ok in SO. pose proof (proj1 (Forall_forall _ _) SO b I) as Sb.
    rewrite Forall_forall in *. intros n Hn. apply Sb. eapply Permutation_in; [apply Permutation_sym; exact PM|assumption]. }
  apply Forall_app in SK. destruct SK as [SKk SKm].
  assert (SO' : seen_ok bs').
  { unfold seen_ok. rewrite Forall_forall. intros x Hx. apply in_insert_bucket in Hx. destruct Hx as [->|Hx]; [exact SKm|].
    unfold map_bucket in Hx. apply in_map_iff in Hx. destruct Hx as [y [E Iy]].
    destruct (bhi y =? bhi b); subst x; [exact SKk|]. unfold seen_ok in SO. rewrite Forall_forall in SO. apply SO. assumption. }
  assert (Tn : town t = bhi b) by (symmetry; assumption).
  assert (RS : forall r, In r (ranges (tb t)) -> r <> (blo b, bhi b) -> In r (ranges bs')).
  { intros r Hr Nr. unfold ranges in *. apply in_map_iff in Hr. destruct Hr as [x [E Ix]]. apply in_map_iff. exists x. split; [assumption|].
    inversion S; subst t'. apply REST; [assumption|]. intro; subst; contradiction. }
  (* chain widths *)
  assert (E2 : 2 ^ kk = 2 * 2 ^ (kk - 1)).
  { replace kk with (N.succ (kk - 1)) at 1 by lia. rewrite N.pow_succ_r'. reflexivity. }
  assert (Sb : bsize b = 2 * 2 ^ (kk - 1)) by (unfold bsize; destruct P as [P1 _]; lia).
  assert (St : bsize this = 2 ^ (kk - 1)) by (unfold bsize, this, mid; simpl; destruct P as [P1 _]; lia).
  assert (So : bsize other = 2 ^ (kk - 1)) by (unfold bsize, other, mid; simpl; lia).
  assert (T'' : tinv bs') by (inversion S; subst t'; exact T').
  assert (PRE : map (size_of_key bs') pre = map (size_of_key (tb t)) pre).
  { apply map_ext_in. intros x Hx.
    assert (Kx : In x (keys (tb t))) by (apply CI; rewrite CP; apply in_or_app; left; assumption).
    unfold keys in Kx. apply in_map_iff in Kx. destruct Kx as [y [Ey Iy]].
    assert (Ny : y <> b) by (intro; subst y; apply NP; rewrite Tn, Ey; assumption).
    assert (Iy' : In y bs') by (inversion S; subst t'; apply REST; assumption).
    unfold size_of_key. rewrite <- Ey. rewrite (get_bucket_of_in bs' y T'' Iy'), (get_bucket_of_in (tb t) y T0 Iy). reflexivity. }
  assert (WKo : wok (map (size_of_key (tb t)) pre ++ [2 * 2 ^ (kk - 1)])).
  { unfold cw in WK. rewrite CP, map_app in WK. simpl in WK. unfold size_of_key at 2 in WK. rewrite G, Sb in WK. exact WK. }
  apply wok_split in WKo.
  destruct (in_range other ownid) eqn:IR.
  - (* the own id is in the lower half: the new bucket becomes the own bucket *)
    rewrite CP, Tn, (insert_after_last pre (bhi b) mid) in S by (rewrite <- Tn; assumption).
    rewrite (next_after pre (bhi b) mid) in S by (rewrite <- Tn; assumption).
    assert (GO : get_bucket mid bs' = Some other) by (apply (get_bucket_of_in bs' other); [inversion S; subst t'; exact T'|assumption]).
    rewrite GO in S. rewrite IR in S. simpl in S. inversion S; subst t' k' bad. split; [reflexivity|]. split; [|exact RS].
    unfold aux. simpl. split; [|split; [|split; [exact SO'|]]].
    3:{ unfold cw. simpl. rewrite map_app, PRE. simpl. unfold size_of_key at 2 3. rewrite GO.
        replace (get_bucket (bhi b) bs') with (Some this) by (symmetry; apply (get_bucket_of_in bs' this T'' INt)).
        rewrite St, So. exact WKo. }
    + exists other. split; [exact GO|]. unfold in_range in IR. simpl in IR. apply andb_true_iff in IR.
      destruct IR as [A B]. apply N.leb_le in A. apply N.leb_le in B. simpl. split; assumption.
    + unfold chain_ok. simpl. split.
      * exists (pre ++ [bhi b]). split; [rewrite <- app_assoc; reflexivity|].
        intro X. apply in_app_or in X. destruct X as [X|[X|[]]].
        -- apply MK. apply CI. rewrite CP. apply in_or_app. left. assumption.
        -- lia.
      * intros x Hx. apply in_app_or in Hx. destruct Hx as [Hx|[Hx|[Hx|[]]]].
        -- apply KS. apply CI. rewrite CP. apply in_or_app. left. assumption.
        -- subst x. apply KS. apply CI. rewrite CP, Tn. apply in_or_app. right. left. reflexivity.
        -- subst x. unfold keys. apply in_map_iff. exists other. split; [reflexivity|assumption].
  - (* the own id stays in the upper half *)
    rewrite CP, Tn, (insert_before_last pre (bhi b) mid) in S by (rewrite <- Tn; assumption).
    rewrite (next_before pre (bhi b) mid) in S by (try (rewrite <- Tn; assumption); lia).
    assert (GT : get_bucket (bhi b) bs' = Some this) by (apply (get_bucket_of_in bs' this); [inversion S; subst t'; exact T'|assumption]).
    rewrite GT in S.
    assert (IT : in_range this ownid = true).
    { unfold in_range in *. simpl in *. apply andb_false_iff in IR. apply andb_true_iff. split; apply N.leb_le;
        destruct IR as [X|X]; apply N.leb_gt in X; lia. }
    rewrite IT in S. simpl in S. inversion S; subst t' k' bad. split; [reflexivity|]. split; [|exact RS].
    unfold aux. simpl. split; [|split; [|split; [exact SO'|]]].
    3:{ unfold cw. simpl. rewrite map_app, PRE. simpl. unfold size_of_key at 2 3. rewrite GT.
        replace (get_bucket mid bs') with (Some other) by (symmetry; apply (get_bucket_of_in bs' other T'' INo)).
        rewrite St, So. exact WKo. }
    + exists this. split; [exact GT|]. unfold in_range in IT. simpl in IT. apply andb_true_iff in IT.
      destruct IT as [A B]. apply N.leb_le in A. apply N.leb_le in B. simpl. split; assumption.
    + unfold chain_ok. simpl. split.
      * exists (pre ++ [mid]). split; [rewrite <- app_assoc; reflexivity|].
        intro X. apply in_app_or in X. destruct X as [X|[X|[]]]; [rewrite <- Tn in X; contradiction|lia].
      * intros x Hx. apply in_app_or in Hx. destruct Hx as [Hx|[Hx|[Hx|[]]]].
        -- apply KS. apply CI. rewrite CP. apply in_or_app. left. assumption.
        -- subst x. unfold keys. apply in_map_iff. exists other. split; [reflexivity|assumption].
        -- subst x. apply KS. apply CI. rewrite CP, Tn. apply in_or_app. right. left. reflexivity.
Qed.

(* ---------------------------------------------------------------- add_node_to_bucket *)
Lemma survives_refl : forall o bs, survives o bs bs.
Proof. intros o bs r H. left. assumption. Qed.

Lemma all_ids_lookup : forall id bs, In id (all_ids bs) -> lookup id bs <> None.
Proof.
  induction bs as [|b r IH]; simpl; intros H; [destruct H|].
  destruct (find_in_nodes id (bnodes b)) eqn:F; [discriminate|].
  apply in_app_or in H. destruct H as [H|H]; [exfalso; eapply find_in_nodes_none; eauto|apply IH; assumption].
Qed.

Lemma lookup_all_ids : forall id bs k n, lookup id bs = Some (k, n) -> In id (all_ids bs).
Proof.
  induction bs as [|b r IH]; simpl; intros k n H; [discriminate|].
  destruct (find_in_nodes id (bnodes b)) as [m|] eqn:F.
  - destruct (find_in_nodes_some _ _ _ F) as [I E]. apply in_or_app. left. unfold ids_of. apply in_map_iff. exists m. split; assumption.
  - apply in_or_app. right. eapply IH; eauto.
Qed.

Lemma all_ids_map_bucket : forall k f bs, (forall b, ids_of (f b) = ids_of b) -> all_ids (map_bucket k f bs) = all_ids bs.
Proof.
  intros k f bs H. unfold all_ids, map_bucket. induction bs as [|b r IH]; simpl; [reflexivity|].
  rewrite IH. destruct (bhi b =? k); [rewrite H|]; reflexivity.
Qed.

Lemma add_loop_own : forall fuel ownid tm nd k t,
  tinv (tb t) -> aux ownid t -> at_bucket (tb t) k (nid nd) -> node_seen_ok nd ->
  match add_loop fuel ownid tm nd k t with
  | LDone t' ok => aux ownid t' /\ survives ownid (tb t) (tb t') /\ (ok = true -> In (nid nd) (all_ids (tb t')))
  | LErr t' => False
  | LFuel => True
  end.
Proof.
  induction fuel as [|fu IH]; intros ownid tm nd k t T A [b [G [A1 [A2 A3]]]] SN; [exact I|].
  cbn [add_loop]. rewrite G.
  pose proof (tinv_bucket _ _ _ T G) as OKb.
  destruct (get_bucket_in _ _ _ G) as [Ib Hb].
  assert (Sb : Forall node_seen_ok (bnodes b)).
  { destruct A as [_ [_ [S _]]]. unfold seen_ok in S. rewrite Forall_forall in S. apply S. assumption. }
  destruct (is_full b) eqn:Fu; simpl.
  2:{ split; [|split].
      - apply aux_map_bucket; [intros; split; reflexivity|intros; apply seen_add; assumption|assumption].
      - intros r Hr. left. rewrite ranges_map_bucket; [assumption|intros; split; reflexivity].
      - intros _. unfold all_ids. apply in_flat_map. exists (b_add tm nd b). split.
        + unfold map_bucket. apply in_map_iff. exists b. rewrite Hb, N.eqb_refl. split; [reflexivity|assumption].
        + unfold ids_of, b_add. simpl. rewrite map_app. apply in_or_app. right. left. reflexivity. }
  destruct (find_cand (bnodes b)) as [c|] eqn:FC; [|exact (find_cand_some b Fu Sb FC)].
  destruct (is_bad c) eqn:Bc.
  - (* replace a bad node *)
    assert (T1 : tinv (map_bucket k (b_remove c) (tb t))) by (apply tinv_map_bucket; [intros; split; reflexivity|apply ok_remove|assumption]).
    assert (A' : aux ownid (mkTable (map_bucket k (b_remove c) (tb t)) (tchain t) (town t)))
      by (apply aux_map_bucket; [intros; split; reflexivity|intros; apply seen_remove; assumption|assumption]).
    specialize (IH ownid tm nd k (mkTable (map_bucket k (b_remove c) (tb t)) (tchain t) (town t)) T1 A').
    assert (AT : at_bucket (map_bucket k (b_remove c) (tb t)) k (nid nd)).
    { exists (b_remove c b). split; [apply get_map_bucket; [assumption|reflexivity]|].
      simpl. repeat split; try assumption. unfold ids_of. simpl. intro X. apply A3. eapply remove_id_in; eauto. }
    specialize (IH AT SN). simpl in IH.
    destruct (add_loop fu ownid tm nd k _) as [t' ok|t'|]; try assumption.
    destruct IH as [X [Y Z]]. split; [assumption|split; [|assumption]].
    intros r Hr. apply Y. simpl. rewrite ranges_map_bucket; [assumption|intros; split; reflexivity].
  - destruct (k =? town t) eqn:Ek; simpl; [|split; [assumption|split; [apply survives_refl|discriminate]]].
    apply N.eqb_eq in Ek. subst k.
    destruct (split_bucket ownid (nid nd) b t) as [[t' k'] bad] eqn:S.
    destruct OKb as [[kk [Kk P]] OKr].
    assert (OKb : bucket_ok b) by (split; [exists kk; split; assumption|assumption]).
    destruct (split_tinv _ _ _ _ _ _ _ _ _ T G Fu P Kk A1 A2 S) as [T' [h [Gh [HO [B1 [B2 [_ Sub]]]]]]].
    assert (G2 : get_bucket (town t) (tb t) = Some b) by (rewrite <- Ek; exact G).
    destruct (split_own _ _ _ _ _ _ _ _ (conj T A) G2 Fu P Kk A1 A2 S) as [Bf [A' RS]]. subst bad.
    assert (AT : at_bucket (tb t') k' (nid nd)).
    { exists h. repeat split; try assumption. intro X. apply A3. apply Sub. assumption. }
    specialize (IH ownid tm nd k' t' T' A' AT SN).
    destruct (add_loop fu ownid tm nd k' t') as [t'' ok|t''|]; try assumption.
    destruct IH as [X [Y Z]]. split; [assumption|split; [|assumption]].
    intros r Hr. destruct (N.eq_dec (fst r) (blo b)) as [E1|N1]; [destruct (N.eq_dec (snd r) (bhi b)) as [E2|N2]|].
    + right. destruct A as [[ob [Gob [O1 O2]]] _]. rewrite G2 in Gob. inversion Gob; subst ob. rewrite E1, E2. split; assumption.
    + apply Y. apply RS; [assumption|]. intro; subst r; simpl in *; contradiction.
    + apply Y. apply RS; [assumption|]. intro; subst r; simpl in *; contradiction.
Qed.

(* ---------------------------------------------------------------- every op *)
Section OwnSteps.
Variable sha : list N -> list N.

Definition sI (s : state) : Prop := tabinv (own s) (tab s) /\ err s = false.

(* node ids carried by replies are 20-byte strings *)
Definition op_ok (o : op) : Prop :=
  match o with OReplied id _ _ => id < idspace | _ => True end.

Lemma closest_aux : forall o t id, aux o t -> aux o (fst (closest_nodes t id)).
Proof.
  intros o t id A. unfold closest_nodes. destruct (find_bucket id (tb t)) as [b|]; [|exact A].
  destruct (bcache b); [|exact A]. simpl.
  apply aux_map_bucket; [intros; split; reflexivity|intros; assumption|assumption].
Qed.
Lemma closest_ranges : forall t id, ranges (tb (fst (closest_nodes t id))) = ranges (tb t).
Proof.
  intros t id. unfold closest_nodes. destruct (find_bucket id (tb t)) as [b|]; [|reflexivity].
  destruct (bcache b); [|reflexivity]. simpl. apply ranges_map_bucket. intros; split; reflexivity.
Qed.

Definition same_ranges (s s' : state) : Prop := ranges (tb (tab s')) = ranges (tb (tab s)).

Lemma node_queried_own : forall s id ip, sI s -> now s < u32 - 1 ->
  sI (fst (node_queried s id ip)) /\ same_ranges s (fst (node_queried s id ip)) /\ own (fst (node_queried s id ip)) = own s /\ now (fst (node_queried s id ip)) = now s.
Proof.
  intros s id ip [[T A] E] Nw. unfold node_queried, same_ranges.
  assert (Base : sI s /\ ranges (tb (tab s)) = ranges (tb (tab s)) /\ own s = own s /\ now s = now s)
    by (split; [split; [split; assumption|assumption]|split; [reflexivity|split; reflexivity]]).
  destruct (lookup id (tb (tab s))) as [[k n]|]; [|exact Base].
  destruct (negb (nip n =? ip)); [exact Base|]. simpl.
  split; [split; [split|assumption]|split; [|split; reflexivity]].
  - apply tinv_map_bucket; [rng| |assumption].
    intros b Hb. destruct (nseen n =? 0); [destruct (is_good n); [apply ok_touch|]; assumption|]. apply ok_touch. apply ok_set_good. assumption.
  - apply aux_map_bucket; [rng| |assumption].
    intros b Hb. destruct (nseen n =? 0); [destruct (is_good n); assumption|]. simpl. apply (seen_set_good (now s) n b Nw Hb).
  - apply ranges_map_bucket. rng.
Qed.

Lemma query_body_own : forall s ip rnd q m, sI s ->
  sI (fst (query_body sha s ip rnd q m)) /\ same_ranges s (fst (query_body sha s ip rnd q m)) /\
  own (fst (query_body sha s ip rnd q m)) = own s /\ now (fst (query_body sha s ip rnd q m)) = now s.
Proof.
  intros s ip rnd q m [[T A] E]. unfold same_ranges, query_body.
  assert (Base : sI s /\ ranges (tb (tab s)) = ranges (tb (tab s)) /\ own s = own s /\ now s = now s)
    by (split; [split; [split; assumption|assumption]|split; [reflexivity|split; reflexivity]]).
  assert (Cl : forall id, let s' := with_tab s (fst (closest_nodes (tab s) id)) in
               sI s' /\ ranges (tb (tab s')) = ranges (tb (tab s)) /\ own s' = own s /\ now s' = now s).
  { intros id. simpl. split; [split; [split; [apply closest_tinv; assumption|apply closest_aux; assumption]|assumption]|].
    split; [apply closest_ranges|split; reflexivity]. }
  destruct (bytes_eqb q s_find_node).
  { destruct (m_target m) as [tg|]; [|exact Base]. destruct (lenN tg <? hs_len); [exact Base|].
    specialize (Cl (be_to_N (firstn idbytes tg))). destruct (closest_nodes _ _) as [t' [|c l']]; exact Cl. }
  destruct (bytes_eqb q s_get_peers).
  { destruct (m_ih m) as [h|]; [|exact Base]. destruct (lenN h <? hs_len); [exact Base|].
    specialize (Cl (be_to_N (firstn idbytes h))).
    destruct (get_tracker _ _) as [[|p l0]|]; try exact Base; destruct (closest_nodes _ _) as [t' [|c l']]; exact Cl. }
  destruct (bytes_eqb q s_announce_peer).
  { destruct (m_ih m) as [h|]; [|exact Base]. destruct (lenN h <? hs_len); [exact Base|].
    destruct (m_token m) as [tk|]; [|exact Base]. destruct (negb _); [exact Base|]. destruct (m_port m) as [z| |]; try exact Base.
    destruct (_ || _); exact Base. }
  destruct (bytes_eqb q s_ping); exact Base.
Qed.

Lemma dgram_own : forall s ip rnd m, sI s -> now s < u32 - 1 ->
  sI (fst (dgram sha s ip rnd m)) /\ same_ranges s (fst (dgram sha s ip rnd m)).
Proof.
  intros s ip rnd m H Nw. unfold dgram.
  assert (Base : sI s /\ same_ranges s s) by (split; [assumption|reflexivity]).
  destruct (m_t m) as [t|]; [|exact Base]. destruct (20 <? lenN t); [exact Base|].
  destruct (m_y m) as [[|ty [|? ?]]|]; try exact Base.
  destruct (ty =? 113); [|exact Base]. destruct (m_id m) as [idb|]; [|exact Base].
  destruct (lenN idb <? hs_len); [exact Base|].
  generalize (be_to_N (firstn idbytes idb)). intro nid0. destruct (nid0 =? own s); [exact Base|].
  destruct (m_q m) as [q|]; [|exact Base].
  destruct (query_body_own s ip rnd q m H) as [H1 [R1 [O1 N1]]].
  destruct (query_body sha s ip rnd q m) as [s1 [e|[[tok nodes] vals]]]; cbn [fst snd] in *; [split; assumption|].
  assert (Nw1 : now s1 < u32 - 1) by (rewrite N1; assumption).
  destruct (node_queried_own s1 nid0 ip H1 Nw1) as [H2 [R2 _]].
  split; [assumption|]. unfold same_ranges in *. congruence.
Qed.

Lemma aux_inval : forall o t, aux o t -> aux o (inval_tab t).
Proof.
  intros o t A. unfold inval_tab, inval_tb. destruct chain_inval; [|destruct t; exact A].
  apply aux_map; [intros; split; reflexivity|intros; assumption|assumption].
Qed.
Lemma ranges_inval : forall bs, ranges (inval_tb bs) = ranges bs.
Proof. intros. unfold inval_tb. destruct chain_inval; [|reflexivity]. unfold ranges. rewrite map_map. reflexivity. Qed.
Lemma all_ids_inval : forall bs, all_ids (inval_tb bs) = all_ids bs.
Proof.
  intros. unfold inval_tb. destruct chain_inval; [|reflexivity]. unfold all_ids.
  induction bs as [|b r IH]; simpl; [reflexivity|]. rewrite IH. reflexivity.
Qed.
Lemma lookup_inval_some : forall id bs, lookup id bs <> None -> lookup id (inval_tb bs) <> None.
Proof.
  intros id bs L. destruct (lookup id bs) as [[k n]|] eqn:E; [|contradiction].
  apply all_ids_lookup. rewrite all_ids_inval. eapply lookup_all_ids; eauto.
Qed.

Lemma lookup_map_bucket : forall id k f bs, (forall b, ids_of (f b) = ids_of b) -> lookup id bs <> None ->
  lookup id (map_bucket k f bs) <> None.
Proof.
  intros id k f bs H L. destruct (lookup id bs) as [[k0 n]|] eqn:E; [|contradiction].
  apply all_ids_lookup. rewrite all_ids_map_bucket by assumption. eapply lookup_all_ids; eauto.
Qed.

Lemma inactive_ids : forall n b, ids_of (b_inactive n b) = ids_of b.
Proof.
  intros. unfold b_inactive, ids_of. destruct (_ =? max_failed); [destruct (is_bad n)|]; simpl; apply upd_node_ids; reflexivity.
Qed.

(* the whole step: invariant kept, no internal error, and every bucket range that does not contain
   the own id is still a bucket range afterwards *)
Lemma step_own : forall s o, sI s -> now s < u32 - 1 -> op_ok o ->
  sI (fst (step sha s o)) /\ survives (own s) (tb (tab s)) (tb (tab (fst (step sha s o)))) /\ own (fst (step sha s o)) = own s.
Proof.
  intros s o H Nw OK. pose proof H as [[T A] E]. unfold step. rewrite E.
  assert (Base : sI s /\ survives (own s) (tb (tab s)) (tb (tab s)) /\ own s = own s)
    by (split; [assumption|split; [apply survives_refl|reflexivity]]).
  assert (SR : forall s', same_ranges s s' -> survives (own s) (tb (tab s)) (tb (tab s'))).
  { intros s' R r Hr. left. unfold same_ranges in R. rewrite R. assumption. }
  destruct o as [ip rnd m|ip|dt|id ip port|id ip port|id ip port|id|secret|ip|tok ip|ih ip port tok|ih ip rnd|target|id|];
    simpl; try exact Base.
  - destruct (dgram_own s ip rnd m H Nw) as [H1 R1].
    pose proof (dgram_cp sha s ip rnd m) as CP. cbv zeta in CP. destruct CP as [_ [_ [Ow _]]].
    destruct (m_y m) as [[|ty [|? ?]]|]; try (destruct (dgram sha s ip rnd m); simpl in *; split; [assumption|split; [apply SR; assumption|assumption]]).
    destruct ((ty =? 114) || (ty =? 101)); [exact Base|].
    destruct (dgram sha s ip rnd m); simpl in *; split; [assumption|split; [apply SR; assumption|assumption]].
  - split; [split; [split; assumption|first [assumption|reflexivity]]|split; [apply survives_refl|reflexivity]].
  - destruct (id =? own s); [exact Base|]. rewrite (surjective_pairing (node_queried s id ip)). simpl.
    destruct (node_queried_own s id ip H Nw) as [H1 [R1 [O1 _]]]. split; [assumption|split; [apply SR; assumption|assumption]].
  - destruct (id =? own s) eqn:Eo; [exact Base|]. unfold node_replied.
    assert (SG : forall t k n, tinv (tb t) -> aux (own s) t ->
               sI (with_tab s (mkTable (map_bucket k (fun b => touch (now s) (b_set_good (now s) n b)) (tb t)) (tchain t) (town t))) /\
               ranges (map_bucket k (fun b => touch (now s) (b_set_good (now s) n b)) (tb t)) = ranges (tb t)).
    { intros t k n Tt At. split; [split; [split|assumption]|].
      - simpl. apply tinv_map_bucket; [rng|intros; apply ok_touch; apply ok_set_good; assumption|assumption].
      - simpl. apply aux_map_bucket; [rng|intros b Hb; simpl; apply (seen_set_good (now s) n b Nw Hb)|assumption].
      - apply ranges_map_bucket. rng. }
    destruct (lookup id (tb (tab s))) as [[k n]|] eqn:LK.
    + destruct (negb (nip n =? ip)); [exact Base|]. simpl.
      destruct (SG (tab s) k n T A) as [S1 S2]. split; [exact S1|split; [|reflexivity]].
      intros r Hr. left. simpl. rewrite S2. assumption.
    + destruct (negb (want_node s id)); [exact Base|].
      set (nd := mkNode id ip port 0 false 0).
      pose proof (add_node_tinv (own s) (now s) nd (tab s) T LK) as HT.
      unfold add_node_to_bucket in *.
      destruct (find_bucket (nid nd) (tb (tab s))) as [b|] eqn:FB.
      2:{ exfalso. simpl in OK. destruct T as [C F].
          destruct (tinv_partition _ 0 id C F (N.le_0_l _) OK) as [b [Ib [X [Y _]]]].
          clear - FB Ib Y. simpl in FB. induction (tb (tab s)) as [|b0 r IH]; simpl in *; [destruct Ib|].
          destruct (id <=? bhi b0) eqn:Q; [discriminate|]. destruct Ib as [->|Ib]; [apply N.leb_gt in Q; lia|apply IH; assumption]. }
      destruct T as [C F].
      destruct (find_bucket_covers _ _ _ _ C F (N.le_0_l _) FB) as [G [A1 A2]].
      destruct (get_bucket_in _ _ _ G) as [Ib _].
      assert (AT : at_bucket (tb (tab s)) (bhi b) (nid nd)).
      { exists b. repeat split; try assumption. eapply lookup_none; eauto. }
      assert (SN : node_seen_ok nd) by (unfold node_seen_ok, nd; simpl; unfold u32; lia).
      pose proof (add_loop_own add_fuel (own s) (now s) nd (bhi b) (tab s) (conj C F) A AT SN) as HO.
      destruct (add_loop add_fuel (own s) (now s) nd (bhi b) (tab s)) as [t [|]|t|]; try contradiction.
      * destruct HO as [At [Sv Zin]]. specialize (Zin eq_refl).
        set (t1 := if nodes_count t =? nodes_count (tab s) then inval_tab t else t).
        assert (HT1 : tinv (tb t1)) by (unfold t1; destruct (nodes_count t =? nodes_count (tab s)); [apply tinv_inval|]; assumption).
        assert (At1 : aux (own s) t1) by (unfold t1; destruct (nodes_count t =? nodes_count (tab s)); [apply aux_inval|]; assumption).
        assert (R1 : ranges (tb t1) = ranges (tb t)) by (unfold t1; destruct (nodes_count t =? nodes_count (tab s)); [apply ranges_inval|reflexivity]).
        assert (Z1 : In (nid nd) (all_ids (tb t1))) by (unfold t1; destruct (nodes_count t =? nodes_count (tab s)); [simpl; rewrite all_ids_inval|]; assumption).
        pose proof (all_ids_lookup _ _ Z1) as LN. simpl in LN.
        destruct (lookup id (tb t1)) as [[k n]|]; [|contradiction]. simpl.
        destruct (SG t1 k n HT1 At1) as [S1 S2]. split; [exact S1|split; [|reflexivity]].
        intros r Hr. destruct (Sv r Hr) as [X|X]; [left; simpl; rewrite S2, R1; assumption|right; assumption].
      * destruct HO as [At [Sv _]]. simpl. split; [split; [split; assumption|assumption]|split; [assumption|reflexivity]].
  - destruct (id =? own s); [exact Base|]. unfold node_inactive.
    destruct (lookup id (tb (tab s))) as [[k n]|] eqn:LK; [|exact Base]. destruct (negb (nip n =? ip)); [exact Base|].
    assert (T1 : tinv (map_bucket k (b_inactive n) (tb (tab s)))) by (apply tinv_map_bucket; [rng|intros; apply ok_inactive; assumption|assumption]).
    assert (A1 : aux (own s) (mkTable (map_bucket k (b_inactive n) (tb (tab s))) (tchain (tab s)) (town (tab s))))
      by (apply aux_map_bucket; [rng|intros; apply seen_inactive; assumption|assumption]).
    assert (R1 : ranges (map_bucket k (b_inactive n) (tb (tab s))) = ranges (tb (tab s))) by (apply ranges_map_bucket; rng).
    assert (LN0 : lookup id (map_bucket k (b_inactive n) (tb (tab s))) <> None)
      by (apply lookup_map_bucket; [intros; apply inactive_ids|rewrite LK; discriminate]).
    set (bs1 := if (ninact n + 1 =? max_failed) && negb (is_bad n) then inval_tb (map_bucket k (b_inactive n) (tb (tab s)))
                else map_bucket k (b_inactive n) (tb (tab s))).
    assert (T1' : tinv bs1) by (unfold bs1; destruct (_ && _); [apply tinv_inval|]; assumption).
    assert (A1' : aux (own s) (mkTable bs1 (tchain (tab s)) (town (tab s))))
      by (unfold bs1; destruct (_ && _); [apply (aux_inval (own s) (mkTable (map_bucket k (b_inactive n) (tb (tab s))) (tchain (tab s)) (town (tab s))))|]; assumption).
    assert (R1' : ranges bs1 = ranges (tb (tab s))) by (unfold bs1; destruct (_ && _); [rewrite ranges_inval|]; assumption).
    assert (LN : lookup id bs1 <> None) by (unfold bs1; destruct (_ && _); [apply lookup_inval_some|]; assumption).
    destruct (lookup id bs1) as [[k' n1]|]; [|contradiction].
    destruct (is_bad n1 && _); simpl.
    + split; [split; [split|assumption]|split; [|reflexivity]].
      * apply tinv_inval. apply tinv_map_bucket; [intros; split; reflexivity|intros; apply ok_remove; assumption|assumption].
      * apply (aux_inval (own s) (mkTable (map_bucket k (b_remove n1) bs1) (tchain (tab s)) (town (tab s)))).
        apply (aux_map_bucket (own s) (mkTable bs1 (tchain (tab s)) (town (tab s))) k (b_remove n1));
          [intros; split; reflexivity|intros; apply seen_remove; assumption|assumption].
      * intros r Hr. left. rewrite ranges_inval. rewrite ranges_map_bucket by (intros; split; reflexivity). rewrite R1'. assumption.
    + split; [split; [split; assumption|assumption]|split; [|reflexivity]]. intros r Hr. left. simpl. rewrite R1'. assumption.
  - unfold node_invalid. destruct (lookup id (tb (tab s))) as [[k n]|]; [|exact Base]. simpl.
    split; [split; [split|assumption]|split; [|reflexivity]].
    + apply tinv_inval. apply tinv_map_bucket; [intros; split; reflexivity|intros; apply ok_remove; assumption|assumption].
    + apply (aux_inval (own s) (mkTable (map_bucket k (b_remove n) (tb (tab s))) (tchain (tab s)) (town (tab s)))).
      apply aux_map_bucket; [intros; split; reflexivity|intros; apply seen_remove; assumption|assumption].
    + intros r Hr. left. rewrite ranges_inval. rewrite ranges_map_bucket by (intros; split; reflexivity). assumption.
  - split; [split; [split|assumption]|split; [|reflexivity]].
    + simpl. apply tinv_map; [intros; split; reflexivity|intros; apply ok_housekeeping; assumption|assumption].
    + simpl. apply aux_map; [intros; split; reflexivity| |assumption].
      intros b Hb. simpl. apply Forall_map. eapply Forall_impl; [|exact Hb]. intros n Hn. exact Hn.
    + intros r Hr. left. simpl. unfold ranges in *. rewrite map_map. simpl. assumption.
  - destruct (token_valid sha s tok ip); [destruct ((port <? 1) || (65535 <? port))|]; exact Base.
  - assert (Cl : let s' := with_tab s (fst (closest_nodes (tab s) ih)) in sI s' /\ survives (own s) (tb (tab s)) (tb (tab s')) /\ own s' = own s).
    { simpl. split; [split; [split; [apply closest_tinv; assumption|apply closest_aux; assumption]|assumption]|].
      split; [|reflexivity]. intros r Hr. left. rewrite closest_ranges. assumption. }
    destruct (get_tracker ih (trackers s)) as [[|p l]|]; try exact Base;
      (destruct (closest_nodes (tab s) ih) as [t' [|c l']]; exact Cl).
  - assert (Cl : let s' := with_tab s (fst (closest_nodes (tab s) target)) in sI s' /\ survives (own s) (tb (tab s)) (tb (tab s')) /\ own s' = own s).
    { simpl. split; [split; [split; [apply closest_tinv; assumption|apply closest_aux; assumption]|assumption]|].
      split; [|reflexivity]. intros r Hr. left. rewrite closest_ranges. assumption. }
    destruct (closest_nodes (tab s) target) as [t' [|c l']]; exact Cl.
Qed.

End OwnSteps.

(* ---------------------------------------------------------------- every op list *)
Section OwnRuns.
Variable sha : list N -> list N.

Definition tick (o : op) : N := match o with OTick dt => dt | _ => 0 end.
Fixpoint ticks (ops : list op) : N := match ops with [] => 0 | o :: r => tick o + ticks r end.

Lemma step_now : forall s o, err s = false -> now (fst (step sha s o)) = now s + tick o.
Proof.
  intros s o He. unfold step. rewrite He.
  destruct o as [ip rnd m|ip|dt|id ip port|id ip port|id ip port|id|secret|ip|tok ip|ih ip port tok|ih ip rnd|target|id|];
    simpl; try (rewrite N.add_0_r; reflexivity); try reflexivity.
  - rewrite N.add_0_r. pose proof (dgram_cp sha s ip rnd m) as H. cbv zeta in H. destruct H as [_ [_ [_ [Nw _]]]].
    destruct (m_y m) as [[|ty [|? ?]]|]; try (destruct (dgram sha s ip rnd m); simpl in *; assumption).
    destruct ((ty =? 114) || (ty =? 101)); [reflexivity|]. destruct (dgram sha s ip rnd m); simpl in *; assumption.
  - rewrite N.add_0_r. destruct (id =? own s); [reflexivity|]. unfold node_queried.
    destruct (lookup id (tb (tab s))) as [[k n]|]; [|reflexivity]. destruct (negb (nip n =? ip)); reflexivity.
  - rewrite N.add_0_r. destruct (id =? own s); [reflexivity|]. unfold node_replied.
    destruct (lookup id (tb (tab s))) as [[k n]|].
    + destruct (negb (nip n =? ip)); reflexivity.
    + destruct (negb (want_node s id)); [reflexivity|].
      destruct (add_node_to_bucket _ _ _ _) as [t [|]|t|]; try reflexivity.
      destruct (lookup id (tb _)) as [[k n]|]; reflexivity.
  - rewrite N.add_0_r. destruct (id =? own s); [reflexivity|]. unfold node_inactive.
    destruct (lookup id (tb (tab s))) as [[k n]|]; [|reflexivity]. destruct (negb (nip n =? ip)); [reflexivity|].
    destruct (lookup id _) as [[k' n1]|]; [|reflexivity].
    destruct (is_bad n1 && _); reflexivity.
  - rewrite N.add_0_r. unfold node_invalid. destruct (lookup id (tb (tab s))) as [[k n]|]; reflexivity.
  - rewrite N.add_0_r. destruct (token_valid sha s tok ip); [destruct ((port <? 1) || (65535 <? port))|]; reflexivity.
  - rewrite N.add_0_r. destruct (get_tracker ih (trackers s)) as [[|p l]|];
      try (destruct (closest_nodes (tab s) ih) as [t' [|c l']]; reflexivity).
  - rewrite N.add_0_r. destruct (closest_nodes (tab s) target) as [t' [|c l']]; reflexivity.
Qed.

Lemma survives_trans : forall o a b c, survives o a b -> survives o b c -> survives o a c.
Proof. intros o a b c H1 H2 r Hr. destruct (H1 r Hr) as [X|X]; [apply H2; assumption|right; assumption]. Qed.

Lemma run_own : forall ops s, sI s -> now s + ticks ops < u32 - 1 -> Forall op_ok ops ->
  sI (run sha s ops) /\ survives (own s) (tb (tab s)) (tb (tab (run sha s ops))) /\ own (run sha s ops) = own s.
Proof.
  induction ops as [|o ops IH]; simpl; intros s H Nw F.
  - split; [assumption|split; [apply survives_refl|reflexivity]].
  - inversion F as [|? ? Fo Fr]; subst.
    assert (Nw0 : now s < u32 - 1) by (unfold u32 in *; simpl in *; lia).
    destruct (step_own sha s o H Nw0 Fo) as [H1 [S1 O1]].
    assert (Nw1 : now (fst (step sha s o)) + ticks ops < u32 - 1) by (rewrite step_now by (apply H); unfold u32 in *; simpl in *; lia).
    destruct (IH _ H1 Nw1 Fr) as [H2 [S2 O2]]. rewrite O1 in S2.
    split; [assumption|split; [eapply survives_trans; eauto|congruence]].
Qed.

Lemma init_sI : forall ownid c p t0, ownid < idspace -> sI (init ownid c p t0).
Proof.
  intros ownid c p t0 Ho. split; [|reflexivity]. split; [apply init_sinv|]. unfold aux. simpl. split; [|split; [|split; [|exact I]]].
  - exists (init_bucket t0). split; [vm_compute; reflexivity|]. unfold init_bucket; cbn [blo bhi]. split; lia.
  - split; [exists []; split; [reflexivity|intros []]|]. simpl. intros x Hx. exact Hx.
  - constructor; [constructor|constructor].
Qed.

(* only_own_bucket_splits + no internal error, from the initial state, for every op list whose clock
   stays below 2^32 - 1 and whose reply ops carry 20-byte ids *)
Theorem run_from_init : forall ownid c p t0 ops, ownid < idspace -> t0 + ticks ops < u32 - 1 -> Forall op_ok ops ->
  let s := run sha (init ownid c p t0) ops in
  err s = false /\ own s = ownid /\
  (forall r, In r (ranges [init_bucket t0]) -> True) /\
  sI s.
Proof.
  intros ownid c p t0 ops Ho Nw F s.
  destruct (run_own ops (init ownid c p t0) (init_sI ownid c p t0 Ho) Nw F) as [H [_ O]].
  split; [apply H|split; [exact O|split; [trivial|exact H]]].
Qed.

Theorem only_own_splits_step : forall ownid c p t0 ops o, ownid < idspace -> t0 + ticks (ops ++ [o]) < u32 - 1 ->
  Forall op_ok (ops ++ [o]) ->
  let s := run sha (init ownid c p t0) ops in
  forall lo hi, In (lo, hi) (ranges (tb (tab s))) ->
    In (lo, hi) (ranges (tb (tab (fst (step sha s o))))) \/ (lo <= ownid /\ ownid <= hi).
Proof.
  intros ownid c p t0 ops o Ho Nw F s lo hi Hr.
  apply Forall_app in F. destruct F as [F1 F2]. inversion F2 as [|? ? Fo _]; subst.
  assert (TK : ticks (ops ++ [o]) = ticks ops + tick o).
  { clear. induction ops as [|x r IH]; simpl; [lia|]. rewrite IH. lia. }
  rewrite TK in Nw.
  destruct (run_own ops (init ownid c p t0) (init_sI ownid c p t0 Ho) ltac:(unfold u32 in *; simpl in *; lia) F1) as [H [_ O]].
  fold s in H, O.
  assert (NS : now s = t0 + ticks ops).
  { unfold s. clear - Ho F1 Nw. 
    assert (G : forall ops s0, sI s0 -> now s0 + ticks ops < u32 - 1 -> Forall op_ok ops -> now (run sha s0 ops) = now s0 + ticks ops).
    { intros ops1. induction ops1 as [|x r IH]; simpl; intros s0 H0 N0 F0; [lia|]. inversion F0 as [|? ? Fx Fr]; subst.
      assert (N00 : now s0 < u32 - 1) by (unfold u32 in *; simpl in *; lia).
      destruct (step_own sha s0 x H0 N00 Fx) as [H1 _].
      rewrite IH; [rewrite step_now by (apply H0); lia|assumption|rewrite step_now by (apply H0); unfold u32 in *; simpl in *; lia|assumption]. }
    apply G; [apply init_sI; assumption|unfold u32 in *; simpl in *; lia|assumption]. }
  destruct (step_own sha s o H ltac:(unfold u32 in *; simpl in *; lia) Fo) as [_ [Sv _]].
  rewrite O in Sv. exact (Sv (lo, hi) Hr).
Qed.

End OwnRuns.
