(* C15 — reply_shape: DhtServer::event_read / process_query / create_*_response / create_error over
   decoded messages (Model.dgram). *)
From Coq Require Import List NArith ZArith Bool Lia.
From LTV.C15 Require Import ParamsGen.
From LTV.C15 Require Import Model ProofsTokens.
Import ListNotations.
Local Open Scope N_scope.

Section Reply.
Variable sha : list N -> list N.
Hypothesis sha_len : forall x, length (sha x) = 20%nat.

Notation dgram := (dgram sha).
Notation query_body := (query_body sha).

(* a datagram that passes the envelope checks of event_read: t a string of at most 20 bytes,
   y = "q", a.id a string of at least 20 bytes whose first 20 differ from the own id, q a string *)
Definition envelope_ok (s : state) (m : dmsg) (t q : list N) (id : N) : Prop :=
  m_t m = Some t /\ lenN t <= 20 /\ m_y m = Some [113] /\
  (exists idb, m_id m = Some idb /\ hs_len <= lenN idb /\ id = be_to_N (firstn idbytes idb)) /\
  id <> own s /\ m_q m = Some q.

Lemma dgram_envelope : forall s ip rnd m t q id, envelope_ok s m t q id ->
  dgram s ip rnd m =
  match query_body s ip rnd q m with
  | (s1, inl e) => (s1, RpErr (Some t) e)
  | (s1, inr (tok, nodes, vals)) => (fst (node_queried s1 id ip), RpOk t tok nodes vals)
  end.
Proof.
  intros s ip rnd m t q id [Ht [Lt [Hy [[idb [Hi [Li Eid]]] [Ne Hq]]]]].
  unfold Model.dgram. rewrite Ht, Hy, Hi, Hq.
  assert (A : (20 <? lenN t) = false) by (apply N.ltb_ge; assumption).
  assert (B : (lenN idb <? hs_len) = false) by (apply N.ltb_ge; assumption).
  rewrite A, B. rewrite N.eqb_refl. rewrite <- Eid.
  assert (C : (id =? own s) = false) by (apply N.eqb_neq; assumption).
  rewrite C. reflexivity.
Qed.

(* exactly one reply, whatever the datagram looks like (y <> "r","e" is decided by the caller);
   and never an internal error *)
Lemma dgram_one_reply : forall s ip rnd m,
  (exists t e, snd (dgram s ip rnd m) = RpErr t e) \/ (exists t a b c, snd (dgram s ip rnd m) = RpOk t a b c).
Proof.
  intros. unfold Model.dgram.
  destruct (m_t m) as [t|]; [|left; do 2 eexists; reflexivity]. destruct (20 <? lenN t); [left; do 2 eexists; reflexivity|].
  destruct (m_y m) as [[|ty [|? ?]]|]; try (left; do 2 eexists; reflexivity).
  destruct (ty =? 113); [|left; do 2 eexists; reflexivity]. destruct (m_id m) as [idb|]; [|left; do 2 eexists; reflexivity].
  destruct (lenN idb <? hs_len); [left; do 2 eexists; reflexivity|].
  destruct (_ =? own s); [left; do 2 eexists; reflexivity|]. destruct (m_q m) as [q|]; [|left; do 2 eexists; reflexivity].
  destruct (query_body s ip rnd q m) as [s1 [e|[[tok nodes] vals]]]; [left; do 2 eexists; reflexivity|right; do 4 eexists; reflexivity].
Qed.

Lemma dgram_no_internal_error : forall s ip rnd m, err (fst (dgram s ip rnd m)) = err s.
Proof. intros. pose proof (dgram_cp sha s ip rnd m) as H. cbv zeta in H. tauto. Qed.

(* a reply is addressed by t: every reply to a datagram with a usable t echoes it *)
Lemma dgram_echo_t : forall s ip rnd m t, m_t m = Some t -> lenN t <= 20 ->
  (exists e, snd (dgram s ip rnd m) = RpErr (Some t) e) \/ (exists a b c, snd (dgram s ip rnd m) = RpOk t a b c).
Proof.
  intros s ip rnd m t Ht Lt. unfold Model.dgram. rewrite Ht.
  assert (A : (20 <? lenN t) = false) by (apply N.ltb_ge; assumption). rewrite A.
  destruct (m_y m) as [[|ty [|? ?]]|]; try (left; eexists; reflexivity).
  destruct (ty =? 113); [|left; eexists; reflexivity]. destruct (m_id m) as [idb|]; [|left; eexists; reflexivity].
  destruct (lenN idb <? hs_len); [left; eexists; reflexivity|].
  destruct (_ =? own s); [left; eexists; reflexivity|]. destruct (m_q m) as [q|]; [|left; eexists; reflexivity].
  destruct (query_body s ip rnd q m) as [s1 [e|[[tok nodes] vals]]]; [left; eexists; reflexivity|right; do 3 eexists; reflexivity].
Qed.

Lemma q_distinct :
  bytes_eqb s_ping s_find_node = false /\ bytes_eqb s_ping s_get_peers = false /\ bytes_eqb s_ping s_announce_peer = false /\
  bytes_eqb s_get_peers s_find_node = false /\ bytes_eqb s_announce_peer s_find_node = false /\
  bytes_eqb s_announce_peer s_get_peers = false.
Proof. repeat split; vm_compute; reflexivity. Qed.

(* ---- ping *)
Lemma reply_ping : forall s ip rnd m t id, envelope_ok s m t s_ping id ->
  snd (dgram s ip rnd m) = RpOk t None None None.
Proof.
  intros. rewrite (dgram_envelope _ _ _ _ _ _ _ H). unfold Model.query_body.
  destruct q_distinct as [A [B [C _]]]. rewrite A, B, C. reflexivity.
Qed.

(* ---- find_node *)
Lemma build_full_entries : forall k t e, In e (build_full k t) ->
  exists b n, In b (tb t) /\ In n (bnodes b) /\ is_bad n = false /\ e = (nid n, nip n, nport n).
Proof.
  intros k t e H. unfold build_full in H.
  assert (I : In e (flat_map (fun k' => match get_bucket k' (tb t) with Some b => entries_of b | None => [] end)
                              (chain_order k (tchain t)))).
  { revert H. generalize (N.to_nat K). intros n0. generalize (flat_map (fun k' : N => match get_bucket k' (tb t) with
      | Some b => entries_of b | None => [] end) (chain_order k (tchain t))).
    intros l. revert n0. induction l as [|x l IH]; intros [|n0] Hn; simpl in *; try contradiction.
    destruct Hn as [->|Hn]; [left; reflexivity|right; eapply IH; eauto]. }
  apply in_flat_map in I. destruct I as [k' [_ I]].
  destruct (get_bucket k' (tb t)) as [b|] eqn:G; [|destruct I].
  unfold entries_of in I. apply in_map_iff in I. destruct I as [n [E I]]. apply filter_In in I. destruct I as [I NB].
  exists b, n. repeat split; try assumption.
  - clear - G. revert G. induction (tb t) as [|b0 r IH]; simpl; [discriminate|].
    destruct (bhi b0 =? k'); intros G; [inversion G; left; reflexivity|right; apply IH; assumption].
  - apply negb_true_iff in NB. assumption.
  - symmetry. assumption.
Qed.

Lemma build_full_len : forall k t, lenN (build_full k t) <= K.
Proof. intros. unfold build_full, lenN. rewrite firstn_length. lia. Qed.

Definition fresh_for (t : table) (id : N) : Prop :=
  match find_bucket id (tb t) with Some b => bcache b = [] | None => True end.

(* find_node: a reply with t echoed that carries only `nodes`: 1..K whole compact entries; when the
   bucket's cache is not filled (it is emptied by every add/remove in the bucket and by housekeeping)
   each entry is a node of the routing table that is not bad *)
Lemma reply_find_node : forall s ip rnd m t id tg, envelope_ok s m t s_find_node id ->
  m_target m = Some tg -> hs_len <= lenN tg ->
  let c := snd (closest_nodes (tab s) (be_to_N (firstn idbytes tg))) in
  (c = [] /\ snd (dgram s ip rnd m) = RpErr (Some t) E_no_nodes) \/
  (c <> [] /\ snd (dgram s ip rnd m) = RpOk t None (Some c) None) .
Proof.
  intros s ip rnd m t id tg H Ht Lt c. rewrite (dgram_envelope _ _ _ _ _ _ _ H). unfold Model.query_body.
  replace (bytes_eqb s_find_node s_find_node) with true by (vm_compute; reflexivity). rewrite Ht.
  assert (B : (lenN tg <? hs_len) = false) by (apply N.ltb_ge; assumption). rewrite B.
  unfold c. destruct (closest_nodes (tab s) (be_to_N (firstn idbytes tg))) as [t' [|e l]]; simpl.
  - left. split; reflexivity.
  - right. split; [discriminate|reflexivity].
Qed.

Lemma closest_fresh_live : forall t id e, fresh_for t id -> In e (snd (closest_nodes t id)) ->
  lenN (snd (closest_nodes t id)) <= K /\
  exists b n, In b (tb t) /\ In n (bnodes b) /\ is_bad n = false /\ e = (nid n, nip n, nport n).
Proof.
  intros t id e F I. unfold closest_nodes, fresh_for in *.
  destruct (find_bucket id (tb t)) as [b|]; [|destruct I]. rewrite F in *. simpl in *.
  split; [apply build_full_len|]. eapply build_full_entries; eauto.
Qed.

(* ---- get_peers *)
Lemma in_firstn_l : forall (A : Type) n (l : list A) x, In x (firstn n l) -> In x l.
Proof.
  induction n as [|n IH]; intros l x H; simpl in *; [destruct H|].
  destruct l as [|y l]; [destruct H|]. destruct H as [->|H]; [left; reflexivity|right; apply IH; assumption].
Qed.
Lemma in_skipn_l : forall (A : Type) n (l : list A) x, In x (skipn n l) -> In x l.
Proof.
  induction n as [|n IH]; intros l x H; simpl in *; [assumption|].
  destruct l as [|y l]; [destruct H|]. right. apply IH. assumption.
Qed.

Lemma get_peers_sub : forall rnd l v, In v (get_peers rnd l) -> In v (map peer_bytes l).
Proof.
  intros rnd l v H. unfold get_peers in H. destruct (Params.dht_tracker_max_peers <? lenN l); [|assumption].
  apply in_map_iff in H. destruct H as [p [E I]]. apply in_map_iff. exists p. split; [assumption|].
  eapply in_skipn_l. eapply in_firstn_l. exact I.
Qed.

(* get_peers: the token is H(current secret, source ip)[0..size_token]; the body is either values,
   each one a stored peer of THE ASKED info-hash as 4 address + 2 port bytes, or nodes *)
Lemma reply_get_peers : forall s ip rnd m t id h, envelope_ok s m t s_get_peers id ->
  m_ih m = Some h -> hs_len <= lenN h ->
  let ih := be_to_N (firstn idbytes h) in
  let tok := token_for sha (cur s) ip in
  match get_tracker ih (trackers s) with
  | Some (p :: l) =>
    exists vals, snd (dgram s ip rnd m) = RpOk t (Some tok) None (Some vals) /\ vals <> [] /\
                 forall v, In v vals -> In v (map peer_bytes (p :: l))
  | _ =>
    let c := snd (closest_nodes (tab s) ih) in
    (c = [] /\ snd (dgram s ip rnd m) = RpErr (Some t) E_no_peers_nodes) \/
    (c <> [] /\ snd (dgram s ip rnd m) = RpOk t (Some tok) (Some c) None)
  end.
Proof.
  intros s ip rnd m t id h H Hh Lh ih tok. rewrite (dgram_envelope _ _ _ _ _ _ _ H). unfold Model.query_body.
  destruct q_distinct as [_ [_ [_ [A _]]]]. rewrite A.
  replace (bytes_eqb s_get_peers s_get_peers) with true by (vm_compute; reflexivity). rewrite Hh.
  assert (B : (lenN h <? hs_len) = false) by (apply N.ltb_ge; assumption). rewrite B.
  fold ih. destruct (get_tracker ih (trackers s)) as [[|p l]|].
  - destruct (closest_nodes (tab s) ih) as [t' [|e l']]; simpl; [left; split; reflexivity|right; split; [discriminate|reflexivity]].
  - exists (get_peers rnd (p :: l)). split; [reflexivity|]. split.
    + unfold get_peers. destruct (_ <? lenN (p :: l)) eqn:E.
      * apply N.ltb_lt in E.
        intro Z. apply map_eq_nil in Z.
        assert (L : length (firstn (N.to_nat Params.dht_tracker_max_peers)
           (skipn (N.to_nat (rnd mod ((lenN (p :: l) + Params.dht_tracker_max_peers - 1) / Params.dht_tracker_max_peers) *
               (lenN (p :: l) - Params.dht_tracker_max_peers) / ((lenN (p :: l) + Params.dht_tracker_max_peers - 1) / Params.dht_tracker_max_peers - 1))) (p :: l))) = 0%nat)
          by (rewrite Z; reflexivity).
        rewrite firstn_length, skipn_length in L.
        set (sz := lenN (p :: l)) in *. set (mp := Params.dht_tracker_max_peers) in *.
        assert (MP : mp = 32) by reflexivity.
        set (blocks := (sz + mp - 1) / mp) in *.
        assert (Bl : 2 <= blocks).
        { unfold blocks. apply N.div_le_lower_bound; lia. }
        assert (Fr : rnd mod blocks * (sz - mp) / (blocks - 1) <= sz - mp).
        { apply N.div_le_upper_bound; [lia|]. pose proof (N.mod_lt rnd blocks ltac:(lia)). nia. }
        unfold sz, lenN in *. lia.
      * discriminate.
    + apply get_peers_sub.
  - destruct (closest_nodes (tab s) ih) as [t' [|e l']]; simpl; [left; split; reflexivity|right; split; [discriminate|reflexivity]].
Qed.

(* ---- announce_peer *)
Lemma reply_announce : forall s ip rnd m t id h tk, envelope_ok s m t s_announce_peer id ->
  m_ih m = Some h -> hs_len <= lenN h -> m_token m = Some tk ->
  let ih := be_to_N (firstn idbytes h) in
  (* not a valid token: error 203, nothing changes *)
  (token_valid sha s tk ip = false ->
     snd (dgram s ip rnd m) = RpErr (Some t) E_token /\ fst (dgram s ip rnd m) = s) /\
  (* valid token, integer port in 1..65535: empty normal reply, (ip, port) stored for ih *)
  (token_valid sha s tk ip = true -> forall z, m_port m = PInt z -> (1 <= z <= 65535)%Z ->
     snd (dgram s ip rnd m) = RpOk t None None None /\
     (err s = false -> stored ih ip (Z.to_N z) (fst (dgram s ip rnd m)))) /\
  (* valid token, anything else as port: error 203, nothing changes *)
  (token_valid sha s tk ip = true -> (forall z, m_port m = PInt z -> (z < 1 \/ 65535 < z)%Z) ->
     (exists e, snd (dgram s ip rnd m) = RpErr (Some t) e) /\ fst (dgram s ip rnd m) = s).
Proof.
  intros s ip rnd m t id h tk H Hh Lh Htk ih. rewrite (dgram_envelope _ _ _ _ _ _ _ H). unfold Model.query_body.
  destruct q_distinct as [_ [_ [_ [_ [A B]]]]]. rewrite A, B.
  replace (bytes_eqb s_announce_peer s_announce_peer) with true by (vm_compute; reflexivity). rewrite Hh, Htk.
  assert (C : (lenN h <? hs_len) = false) by (apply N.ltb_ge; assumption). rewrite C. fold ih.
  split; [|split].
  - intros V. rewrite V. simpl. split; reflexivity.
  - intros V z Hz Rz. rewrite V, Hz. simpl.
    assert (T : ((z <? 1) || (65535 <? z))%Z = false) by (apply orb_false_iff; split; apply Z.ltb_ge; lia).
    rewrite T. simpl. split; [reflexivity|]. intros He.
    pose proof (node_queried_trackers
                  (with_trackers s (upd_tracker ih (add_peer (now s) ip (Z.to_N z)) (trackers s))) id ip) as NT.
    unfold stored. rewrite NT. simpl.
    pose proof (get_upd_tracker ih (add_peer (now s) ip (Z.to_N z)) (trackers s)) as G.
    set (l0 := match get_tracker ih (trackers s) with Some l => l | None => [] end) in G.
    assert (PO : port_ok (Z.to_N z)) by (unfold port_ok; lia).
    destruct (port_ok_16 _ PO) as [_ Nz'].
    destruct (add_peer_has (now s) ip (Z.to_N z) l0 Nz') as [Hin _].
    eexists; eexists. split; [exact G|]. split; [exact Hin|]. split; reflexivity.
  - intros V Hz. rewrite V. simpl. destruct (m_port m) as [z| |]; simpl; try (split; [eexists; reflexivity|reflexivity]).
    destruct (Hz z eq_refl) as [L|L].
    + assert (T : (z <? 1)%Z = true) by (apply Z.ltb_lt; assumption). rewrite T. simpl. split; [eexists; reflexivity|reflexivity].
    + assert (T : (65535 <? z)%Z = true) by (apply Z.ltb_lt; assumption). rewrite T, orb_true_r. simpl. split; [eexists; reflexivity|reflexivity].
Qed.

End Reply.

(* Before /repo 5bd3da4 the per-bucket reply cache was NOT emptied when a node of the bucket (or of
   a neighbouring bucket it borrowed from) turned bad or was deleted: "nodes are live" was false for a
   filled cache.  Witness: find_node, five failed queries to the node, find_node.  On a tree with the
   fix (Params.dht_cache_chain_invalidate = 1, probed behaviourally) the hypothesis is false. *)
Definition st_id : N := 17 * 2 ^ 152 + 1.
Definition st_ops : list op :=
  [OReplied st_id 2130706434 4000; OFindNode 5; OInactive st_id 2130706434 4000; OInactive st_id 2130706434 4000;
   OInactive st_id 2130706434 4000; OInactive st_id 2130706434 4000; OInactive st_id 2130706434 4000].

Lemma reply_nodes_stale_on_old_trees : chain_inval = false ->
  exists sha ops, let s := run sha (init (2 ^ 159 + 1) 1 2 34560000) ops in
    err s = false /\
    (exists b n, In b (tb (tab s)) /\ In n (bnodes b) /\ nid n = st_id /\ is_bad n = true) /\
    snd (step sha s (OFindNode 5)) = Rnodes [(st_id, 2130706434, 4000)].
Proof.
  intro H. vm_compute in H.
  first [ discriminate H
        | exists (fun _ => repeat 0 20), st_ops; cbv zeta; split; [vm_compute; reflexivity|]; split;
          [ eexists; eexists; split; [vm_compute; left; reflexivity|]; split; [vm_compute; left; reflexivity|];
            split; vm_compute; reflexivity
          | vm_compute; reflexivity ] ].
Qed.

(* With the fix: removing a node, and a node turning bad, empty the reply cache of EVERY bucket; the
   next query rebuilds its list from the table (reply_nodes_live_when_fresh: only non-bad nodes that
   are in the table).  The same witness now ends with "No nodes". *)
Lemma inval_all_empty : forall bs b, chain_inval = true -> In b (inval_tb bs) -> bcache b = [].
Proof.
  intros bs b H I. unfold inval_tb in I. rewrite H in I. apply in_map_iff in I. destruct I as [x [E _]]. subst b. reflexivity.
Qed.

Lemma delete_clears_all_caches : forall s id b, chain_inval = true -> lookup id (tb (tab s)) <> None ->
  In b (tb (tab (node_invalid s id))) -> bcache b = [].
Proof.
  intros s id b H L I. unfold node_invalid in I. destruct (lookup id (tb (tab s))) as [[k n]|]; [|contradiction].
  simpl in I. eapply inval_all_empty; eauto.
Qed.

Lemma failed_query_clears_all_caches : forall s id ip k n b, chain_inval = true ->
  lookup id (tb (tab s)) = Some (k, n) -> nip n = ip -> is_bad n = false -> ninact n + 1 = max_failed ->
  err (fst (node_inactive s id ip)) = false ->
  In b (tb (tab (fst (node_inactive s id ip)))) -> bcache b = [].
Proof.
  intros s id ip k n b H L Ei Nb Tb Er I. unfold node_inactive in I, Er. rewrite L in I, Er.
  assert (A : negb (nip n =? ip) = false) by (rewrite Ei, N.eqb_refl; reflexivity). rewrite A in I.
  assert (B : (ninact n + 1 =? max_failed) && negb (is_bad n) = true) by (rewrite Tb, N.eqb_refl, Nb; reflexivity).
  rewrite A in Er. rewrite B in I, Er.
  destruct (lookup id (inval_tb (map_bucket k (b_inactive n) (tb (tab s))))) as [[k' n1]|]; simpl in I, Er.
  - destruct (is_bad n1 && _); simpl in I; eapply inval_all_empty; eauto.
  - discriminate Er.
Qed.

Example stale_witness_now_rebuilds : chain_inval = true ->
  snd (step (fun _ => repeat 0 20) (run (fun _ => repeat 0 20) (init (2 ^ 159 + 1) 1 2 34560000) st_ops) (OFindNode 5)) = Rerr 3.
Proof. intro H. vm_compute in H. first [discriminate H | vm_compute; reflexivity]. Qed.
