From Coq Require Import List ZArith Bool.
From LTV.C13 Require Import ParamsGen Model Proofs.
Import ListNotations.
Open Scope Z_scope.

Theorem params_ok_now : Proofs.params_ok = true.
Proof. exact Proofs.params_ok_now. Qed.
Print Assumptions params_ok_now.

Theorem event_codes_bep15 :
  ParamsGen.Params.trk_udp_event_raw = 1 ->
  ParamsGen.Params.trk_event_none = wire_event EvNone /\ ParamsGen.Params.trk_event_completed = wire_event EvCompleted /\
  ParamsGen.Params.trk_event_started = wire_event EvStarted /\ ParamsGen.Params.trk_event_stopped = wire_event EvStopped.
Proof. exact Proofs.event_codes_bep15. Qed.
Print Assumptions event_codes_bep15.

Theorem backoff_table :
  map backoff [1; 2; 3; 4; 5; 6; 7; 8; 9; 100] = [5; 10; 20; 40; 80; 160; 300; 300; 300; 300].
Proof. exact Proofs.backoff_table. Qed.
Print Assumptions backoff_table.

(* at most one announce per tracker in flight; a newer event replaces, never duplicates *)
Theorem one_in_flight : forall t0 groups ops r, In r (log (run (init t0 groups) ops)) ->
  t_en (r_pre r) = true /\ r_repl r = t_busy (r_pre r) /\
  (t_busy (r_pre r) = true -> r_ev r <> t_ev (r_pre r) /\ (t_ev (r_pre r) <> EvScrape -> r_ev r <> EvNone)).
Proof. exact Proofs.one_in_flight. Qed.
Print Assumptions one_in_flight.

(* every request sent while the controller holds a pending start carries STARTED (all call sites) *)
Theorem started_carried : forall t0 groups ops r, In r (log (run (init t0 groups) ops)) ->
  f_start (r_fl r) = true -> r_ev r = EvStarted.
Proof. exact Proofs.started_carried. Qed.
Print Assumptions started_carried.

(* trace form: from send_start_event (or Download::start) on, as long as no step [clears] the
   obligation (client stop/completed, or an active controller receiving the success of a request
   that carried STARTED), every request handed to a worker carries STARTED *)
Theorem started_carried_trace : forall t0 groups ops1 o ops2,
  o = OSendStart \/ o = OStart false \/ o = OStartK false ->
  let s0 := run (init t0 groups) ops1 in
  pending_run EvStarted (step s0 o) ops2 ->
  exists new, log (run (step s0 o) ops2) = new ++ log s0 /\ Forall (fun r => r_ev r = EvStarted) new.
Proof. exact Proofs.started_carried_trace. Qed.
Print Assumptions started_carried_trace.

Theorem completed_carried : forall t0 groups ops r, In r (log (run (init t0 groups) ops)) ->
  f_completed (r_fl r) = true -> r_ev r = EvCompleted.
Proof. exact Proofs.completed_carried. Qed.
Print Assumptions completed_carried.

Theorem completed_carried_trace : forall t0 groups ops1 ops2,
  let s0 := run (init t0 groups) ops1 in
  pending_run EvCompleted (step s0 OSendCompleted) ops2 ->
  exists new, log (run (step s0 OSendCompleted) ops2) = new ++ log s0 /\ Forall (fun r => r_ev r = EvCompleted) new.
Proof. exact Proofs.completed_carried_trace. Qed.
Print Assumptions completed_carried_trace.

(* STOPPED only from send_stop_event and only to trackers that were successfully used, for every
   op list in which send_stop_event is always followed by disable (op OStop = Download::stop) *)
Theorem stopped_only_on_stop_and_in_use : forall t0 groups ops r,
  Forall client_level ops -> In r (log (run (init t0 groups) ops)) ->
  r_ev r = EvStopped -> r_src r = SrcStop /\ is_in_use (r_pre r) = true.
Proof. exact Proofs.stopped_only_on_stop_and_in_use. Qed.
Print Assumptions stopped_only_on_stop_and_in_use.

Theorem backoff_respected : forall t0 groups ops r, In r (log (run (init t0 groups) ops)) ->
  r_src r = SrcTimer -> t_fc (r_pre r) <> 0 ->
  t_ftl (r_pre r) + (if min_min <? t_mi (r_pre r) then t_mi (r_pre r) else backoff (t_fc (r_pre r))) <= r_time r / usec.
Proof. exact Proofs.backoff_respected. Qed.
Print Assumptions backoff_respected.

(* unconditional (all modes, all interval values) *)
Theorem min_interval_respected : forall t0 groups ops r, In r (log (run (init t0 groups) ops)) ->
  r_src r = SrcTimer -> t_fc (r_pre r) = 0 -> t_sc (r_pre r) <> 0 ->
  t_stl (r_pre r) + t_mi (r_pre r) <= r_time r / usec.
Proof. exact Proofs.min_interval_respected. Qed.
Print Assumptions min_interval_respected.

Theorem normal_interval_respected : forall t0 groups ops r, In r (log (run (init t0 groups) ops)) ->
  r_src r = SrcTimer -> f_promisc (r_fl r) = false -> f_requesting (r_fl r) = false ->
  t_fc (r_pre r) = 0 -> t_sc (r_pre r) <> 0 ->
  t_stl (r_pre r) + t_ni (r_pre r) <= r_time r / usec.
Proof. exact Proofs.normal_interval_respected. Qed.
Print Assumptions normal_interval_respected.

(* every tracker of every reachable state has its intervals inside the clamps *)
Theorem interval_clamps : forall t0 groups ops t, In t (trs (run (init t0 groups) ops)) ->
  min_normal <= t_ni t <= max_normal /\ min_min <= t_mi t <= max_min.
Proof. exact Proofs.interval_clamps. Qed.
Print Assumptions interval_clamps.

(* tier order, what holds: a timer-driven request in normal mode goes to a tracker of a later
   group only if every enabled never-failed tracker u of an earlier group has an ANNOUNCE in flight
   (busy_ann: busy and not with a scrape -- a scrape in flight is replaced, not waited for) (finding
   tier-skipped-while-in-flight) or was passed over because the first requestable tracker has
   failed and the chosen tracker's next-activity time is not later than u's (finding
   tier-skipped-not-due) *)
Theorem tier_order : forall t0 groups ops r, In r (log (run (init t0 groups) ops)) ->
  r_src r = SrcTimer ->
  f_promisc (r_fl r) = true \/ f_requesting (r_fl r) = true \/
  (forall u, In u (r_trs r) -> (t_group u < t_group (r_pre r))%nat -> t_en u = true -> t_fc u = 0 ->
     busy_ann u = true \/
     (activity_time_next (r_pre r) <= activity_time_next u /\
      exists p, In p (r_trs r) /\ can_request_state p = true /\ t_fc p <> 0)).
Proof. exact Proofs.tier_order. Qed.
Print Assumptions tier_order.

Theorem tier_order_strict_refuted :
  exists t0 groups ops r u, In r (log (run (init t0 groups) ops)) /\
    r_src r = SrcTimer /\ f_promisc (r_fl r) = false /\ f_requesting (r_fl r) = false /\
    In u (r_trs r) /\ Nat.ltb (t_group u) (t_group (r_pre r)) = true /\
    t_en u = true /\ t_busy u = false /\ t_fc u = 0.
Proof. exact Proofs.tier_order_strict_refuted. Qed.
Print Assumptions tier_order_strict_refuted.

(* the figures of every request are those of the download info at the moment it is sent: the
   (adjusted) figures of the state, which Download::start (OStart) has reset to 0 / 0 beforehand *)
Theorem params_match : forall t0 groups ops o,
  let s := run (init t0 groups) ops in
  exists new, log (step s o) = new ++ log s /\
    Forall (fun r => let '(up, comp, lft) := figs_for s o in
                     r_up r = Z.max up 0 /\ r_comp r = Z.max comp 0 /\ r_left r = lft) new.
Proof. exact Proofs.params_match. Qed.
Print Assumptions params_match.

Theorem restart_reports_zero : forall t0 groups ops skip,
  let s := run (init t0 groups) ops in
  exists new, log (step s (OStart skip)) = new ++ log s /\
    Forall (fun r => r_up r = 0 /\ r_comp r = 0 /\ r_left r = s_left s) new.
Proof. exact Proofs.restart_reports_zero. Qed.
Print Assumptions restart_reports_zero.

(* tracker identities are unique in every reachable state: the model's lookups by id address exactly
   the tracker the code's handle points to *)
Theorem ids_unique : forall t0 groups ops, NoDup (map t_id (trs (run (init t0 groups) ops))).
Proof. exact Proofs.ids_unique. Qed.
Print Assumptions ids_unique.

Theorem find_id_exact : forall t0 groups ops t,
  In t (trs (run (init t0 groups) ops)) -> find_id (trs (run (init t0 groups) ops)) (t_id t) = Some t.
Proof. exact Proofs.find_id_exact. Qed.
Print Assumptions find_id_exact.

(* a scrape in flight never diverts a due announce: the tracker stays requestable *)
Theorem scraping_tracker_requestable : forall t,
  t_en t = true -> t_busy t = true -> t_ev t = EvScrape -> can_request_state t = true.
Proof. exact Proofs.scraping_tracker_requestable. Qed.
Print Assumptions scraping_tracker_requestable.

(* a new request to a tracker cancels its result callback still queued for the main thread *)
Theorem send_event_cancels : forall sr t ev s k,
  pend (send_event sr t ev s) = Some (t_id t, k) -> log (send_event sr t ev s) = log s.
Proof. exact Proofs.send_event_cancels. Qed.
Print Assumptions send_event_cancels.

Theorem send_scrape_guard : forall t s, slog (send_scrape t s) <> slog s ->
  t_busy t = false /\ t_en t = true /\ t_scr t = true /\ (t_sct t + scrape_min_gap) * usec <= now s.
Proof. exact Proofs.send_scrape_guard. Qed.
Print Assumptions send_scrape_guard.

(* ---- trace forms over the enlarged alphabet (restarts, scrapes, split replies) ---- *)

Theorem figures_match_transfer_state_trace : forall t0 groups ops r,
  In r (log (run (init t0 groups) ops)) ->
  exists ops1 o ops2, ops = ops1 ++ o :: ops2 /\
    (let '(up, comp, lft) := figs_for (run (init t0 groups) ops1) o in
     r_up r = Z.max up 0 /\ r_comp r = Z.max comp 0 /\ r_left r = lft).
Proof. exact Proofs.figures_match_transfer_state_trace. Qed.
Print Assumptions figures_match_transfer_state_trace.

Theorem tier_order_scrape_in_flight : forall t0 groups ops r u,
  In r (log (run (init t0 groups) ops)) ->
  r_src r = SrcTimer -> f_promisc (r_fl r) = false -> f_requesting (r_fl r) = false ->
  In u (r_trs r) -> (t_group u < t_group (r_pre r))%nat -> t_en u = true -> t_fc u = 0 -> t_ev u = EvScrape ->
  activity_time_next (r_pre r) <= activity_time_next u /\
  exists p, In p (r_trs r) /\ can_request_state p = true /\ t_fc p <> 0.
Proof. exact Proofs.tier_order_scrape_in_flight. Qed.
Print Assumptions tier_order_scrape_in_flight.

(* a result callback still queued for the main thread is the result of the LAST request handed to its tracker *)
Theorem stale_reply_never_accepts : forall t0 groups ops id k t,
  let s := run (init t0 groups) ops in
  pend s = Some (id, k) -> find_id (trs s) id = Some t ->
  busy_ann t = false /\
  Forall (fun r => r_id r <> id) (firstn (length (log s) - pmark s) (log s)) /\
  match newest_for id (log s) with
  | Some r => t_ev t = r_ev r \/ t_ev t = EvScrape
  | None => t_ev t = EvNone \/ t_ev t = EvScrape
  end.
Proof. exact Proofs.stale_reply_never_accepts. Qed.
Print Assumptions stale_reply_never_accepts.

(* the main thread's queue clears a pending started / completed only for the reply to the newest request of that
   tracker, which carried that event, and nothing was sent to the tracker since the reply was queued *)
Theorem drain_accepts_only_carrier : forall t0 groups ops ev,
  ev = EvStarted \/ ev = EvCompleted ->
  let s := run (init t0 groups) ops in
  pend_flag ev (fl s) = true -> pend_flag ev (fl (step s ODrain)) = false ->
  exists id r, pend s = Some (id, (true, false)) /\ newest_for id (log s) = Some r /\ r_ev r = ev /\
    Forall (fun q => r_id q <> id) (firstn (length (log s) - pmark s) (log s)).
Proof. exact Proofs.drain_accepts_only_carrier. Qed.
Print Assumptions drain_accepts_only_carrier.

Theorem scrapes_only_idle : forall t0 groups ops T t,
  In (T, t) (slog (run (init t0 groups) ops)) ->
  t_busy t = false /\ t_en t = true /\ t_scr t = true /\ (t_sct t + scrape_min_gap) * usec <= T.
Proof. exact Proofs.scrapes_only_idle. Qed.
Print Assumptions scrapes_only_idle.
