From Coq Require Import List ZArith Bool.
From LTV.C13 Require Import Model Proofs.
Import ListNotations.
Open Scope Z_scope.

Theorem params_ok_now : Proofs.params_ok = true.
Proof. exact Proofs.params_ok_now. Qed.
Print Assumptions params_ok_now.

Theorem backoff_table :
  map backoff [1; 2; 3; 4; 5; 6; 7; 8; 9; 100] = [5; 10; 20; 40; 80; 160; 300; 300; 300; 300].
Proof. exact Proofs.backoff_table. Qed.
Print Assumptions backoff_table.

Theorem one_in_flight : forall t0 groups ops r, In r (log (run (init t0 groups) ops)) ->
  t_en (r_pre r) = true /\ r_repl r = t_busy (r_pre r) /\
  (t_busy (r_pre r) = true -> r_ev r <> EvNone /\ r_ev r <> t_ev (r_pre r)).
Proof. exact Proofs.one_in_flight. Qed.
Print Assumptions one_in_flight.

Theorem started_carried : forall t0 groups ops r, In r (log (run (init t0 groups) ops)) ->
  f_start (r_fl r) = true -> r_src r <> SrcUpdate -> r_ev r = EvStarted.
Proof. exact Proofs.started_carried. Qed.
Print Assumptions started_carried.

Theorem start_flag_persists : forall s o,
  f_start (fl s) = true -> f_start (fl (step s o)) = true \/
  match o with
  | OSendStop | OSendCompleted | OStop false => True
  | OSuccess id _ _ => f_active (fl s) = true /\ exists t, find_id (trs s) id = Some t /\ t_busy t = true
  | _ => False
  end.
Proof. exact Proofs.start_flag_persists. Qed.
Print Assumptions start_flag_persists.

Theorem started_carried_refuted :
  exists t0 groups ops r, In r (log (run (init t0 groups) ops)) /\
    f_start (r_fl r) = true /\ r_ev r = EvNone.
Proof. exact Proofs.started_carried_refuted. Qed.
Print Assumptions started_carried_refuted.

Theorem completed_carried : forall t0 groups ops r, In r (log (run (init t0 groups) ops)) ->
  f_completed (r_fl r) = true -> r_src r <> SrcUpdate -> r_ev r = EvCompleted.
Proof. exact Proofs.completed_carried. Qed.
Print Assumptions completed_carried.

Theorem completed_carried_refuted :
  exists t0 groups ops r, In r (log (run (init t0 groups) ops)) /\
    f_completed (r_fl r) = true /\ r_ev r = EvNone.
Proof. exact Proofs.completed_carried_refuted. Qed.
Print Assumptions completed_carried_refuted.

(* partial: missing is the invariant that, when send_stop_event is always followed by disable
   (op OStop, the only use in download.cc), the second disjunct cannot occur *)
Theorem stopped_only_on_stop_and_in_use_partial : forall t0 groups ops r, In r (log (run (init t0 groups) ops)) ->
  r_ev r = EvStopped ->
  (r_src r = SrcStop /\ is_in_use (r_pre r) = true) \/
  (r_src r = SrcTimer /\ f_stop (r_fl r) = true /\ f_active (r_fl r) = true).
Proof. exact Proofs.stopped_sites. Qed.
Print Assumptions stopped_only_on_stop_and_in_use_partial.

Theorem backoff_respected : forall t0 groups ops r, In r (log (run (init t0 groups) ops)) ->
  r_src r = SrcTimer -> t_fc (r_pre r) <> 0 ->
  t_ftl (r_pre r) + (if min_min <? t_mi (r_pre r) then t_mi (r_pre r) else backoff (t_fc (r_pre r))) <= r_time r / usec.
Proof. exact Proofs.backoff_respected. Qed.
Print Assumptions backoff_respected.

Theorem success_interval_respected : forall t0 groups ops r, In r (log (run (init t0 groups) ops)) ->
  r_src r = SrcTimer -> t_fc (r_pre r) = 0 -> t_sc (r_pre r) <> 0 ->
  t_stl (r_pre r) + Z.min (t_ni (r_pre r)) (Z.max (t_mi (r_pre r)) promisc_floor) <= r_time r / usec.
Proof. exact Proofs.success_interval_respected. Qed.
Print Assumptions success_interval_respected.

Theorem min_interval_respected_when_sane : forall t0 groups ops r, In r (log (run (init t0 groups) ops)) ->
  r_src r = SrcTimer -> t_fc (r_pre r) = 0 -> t_sc (r_pre r) <> 0 ->
  t_mi (r_pre r) <= t_ni (r_pre r) ->
  t_stl (r_pre r) + t_mi (r_pre r) <= r_time r / usec.
Proof. exact Proofs.min_interval_respected_when_sane. Qed.
Print Assumptions min_interval_respected_when_sane.

Theorem min_interval_respected_refuted :
  exists t0 groups ops r, In r (log (run (init t0 groups) ops)) /\
    r_src r = SrcTimer /\ t_fc (r_pre r) = 0 /\ t_sc (r_pre r) <> 0 /\
    t_mi (r_pre r) <= max_min /\
    r_time r / usec < t_stl (r_pre r) + t_mi (r_pre r).
Proof. exact Proofs.min_interval_respected_refuted. Qed.
Print Assumptions min_interval_respected_refuted.

(* partial: the setters clamp; missing is the (easy) state invariant that every reachable
   tracker's intervals are initial values or setter results *)
Theorem interval_clamps_partial : forall v,
  min_normal <= set_normal_interval v <= max_normal /\ min_min <= set_min_interval v <= max_min.
Proof. exact Proofs.interval_clamps. Qed.
Print Assumptions interval_clamps_partial.

Theorem tier_order_refuted :
  exists t0 groups ops r u, In r (log (run (init t0 groups) ops)) /\
    r_src r = SrcTimer /\ f_promisc (r_fl r) = false /\ f_requesting (r_fl r) = false /\
    In u (r_trs r) /\ Nat.ltb (t_group u) (t_group (r_pre r)) = true /\
    t_en u = true /\ t_busy u = false /\ t_fc u = 0.
Proof. exact Proofs.tier_order_refuted. Qed.
Print Assumptions tier_order_refuted.
